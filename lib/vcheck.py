"""Shared machinery for the /verif checks.

Every check is `bin/check <ID> [quick|thorough] [--replay file]`; the per-property
logic lives in checks/<id>.py and uses the Check class below for the steps that are
the same everywhere:

  * scan the Coq engine for forbidden constructs, (re)build it with coq_makefile +
    make (full .vo), and re-check every theorem of Properties.v with Print Assumptions
    on *this* run (obligations / discharged in the evidence come from that output);
  * build the Go harness against /repo's current working tree (replace => /repo);
  * evaluate case files inside Coq (vm_compute) and parse one result per line;
  * classify failures against known_findings.json, print KNOWN-FINDING / VIOLATION
    lines, write replay files and evidence/<id>.json, pick the exit code.
"""
import hashlib
import json
import os
import re
import shutil
import subprocess
import sys
import time

VERIF = os.path.dirname(os.path.dirname(os.path.abspath(__file__)))
REPO = os.environ.get("VERIF_REPO", "/repo")
NCPU = os.cpu_count() or 4

FORBIDDEN = re.compile(
    r"\b(Admitted|admit|Axiom|Axioms|Parameter|Parameters|Conjecture|Conjectures|Abort All)\b"
    r"|Admit Obligations|Unset Guard Checking|Unset Positivity Checking|Unset Universe Checking"
    r"|bypass_check|-type-in-type|-impredicative-set|Unset Strict Universe")
# Variable/Hypothesis are allowed inside sections only; checked separately.

ALLOWED_AXIOMS = {
    # standard-library axioms that a proof may rely on; each is reported in the evidence
    "functional_extensionality_dep", "proof_irrelevance", "classic", "JMeq_eq",
    "Eqdep.Eq_rect_eq.eq_rect_eq", "eq_rect_eq", "propositional_extensionality",
}


def goenv():
    e = dict(os.environ)
    e.update({
        "GOFLAGS": "-mod=mod", "GOPROXY": "off", "GOSUMDB": "off", "GOTOOLCHAIN": "local",
        "GOCACHE": os.path.join(VERIF, ".cache", "go-build"),
        "CGO_ENABLED": e.get("CGO_ENABLED", "1"),
    })
    return e


def sh(cmd, cwd=None, timeout=1800, env=None, stdin=None):
    """Run a command, return (rc, combined output). rc 124 on timeout."""
    try:
        p = subprocess.run(cmd, cwd=cwd, env=env, input=stdin, stdout=subprocess.PIPE,
                           stderr=subprocess.STDOUT, timeout=timeout, shell=isinstance(cmd, str),
                           text=True, errors="replace")
        return p.returncode, p.stdout
    except subprocess.TimeoutExpired as ex:
        out = ex.stdout or ""
        if isinstance(out, bytes):
            out = out.decode("utf-8", "replace")
        return 124, out + "\n[timeout after %ss]" % timeout


def strip_coq_comments(src):
    out, depth, i, n = [], 0, 0, len(src)
    in_str = False
    while i < n:
        c = src[i]
        if depth == 0 and c == '"':
            in_str = not in_str
            out.append(c)
            i += 1
            continue
        if not in_str and src.startswith("(*", i):
            depth += 1
            i += 2
            continue
        if not in_str and depth > 0 and src.startswith("*)", i):
            depth -= 1
            i += 2
            continue
        if depth == 0:
            out.append(c)
        i += 1
    return "".join(out)


def load_findings():
    p = os.path.join(VERIF, "known_findings.json")
    if not os.path.exists(p):
        return {"findings": [], "fixed": []}
    return json.load(open(p))


class Check:
    def __init__(self, pid, engine, tier="quick", seed=None):
        self.pid = pid
        self.engine = engine
        self.tier = tier
        self.seed = int(seed if seed is not None else os.environ.get("VERIF_SEED", "1") or 1)
        self.t0 = time.time()
        self.work = os.path.join(VERIF, ".work", pid)
        if os.path.realpath(REPO) != "/repo":
            # runs against a scratch worktree get their own work directory
            self.work += "-" + hashlib.sha256(os.path.realpath(REPO).encode()).hexdigest()[:8]
        shutil.rmtree(self.work, ignore_errors=True)
        os.makedirs(self.work, exist_ok=True)
        os.makedirs(os.path.join(VERIF, "evidence"), exist_ok=True)
        os.makedirs(os.path.join(VERIF, "replays"), exist_ok=True)
        os.makedirs(os.path.join(VERIF, ".build"), exist_ok=True)
        self.coqdir = os.path.join(VERIF, "coq", engine)
        self.violations = []      # (description, replay path, nofail)
        self.known_hits = {}      # signature -> count
        self.sig_counts = {}      # unlisted failure signature -> count
        self.theorems = []        # dicts: name, closed, axioms
        self.notes = []
        self.coq_ok = None
        self.coq_error = ""
        self.findings = [f for f in load_findings().get("findings", []) if f.get("property") == pid]
        self.extra_trusted = []

    # ------------------------------------------------------------------ Coq
    def coq_files(self):
        return sorted(f for f in os.listdir(self.coqdir) if f.endswith(".v") and not f.startswith("Cases_") and f != "AssumptionsCheck.v")

    def coq_scan(self):
        """Refuse the development if it contains anything that declares an axiom or
        switches a kernel check off."""
        bad = []
        for f in self.coq_files():
            src = strip_coq_comments(open(os.path.join(self.coqdir, f)).read())
            for m in FORBIDDEN.finditer(src):
                bad.append("%s: %s" % (f, m.group(0)))
            # Variable / Hypothesis / Context outside a section declare axioms
            depth = 0
            for line in src.split("\n"):
                s = line.strip()
                if re.match(r"(Section|Module Type)\s+\w+", s):
                    depth += 1
                elif re.match(r"End\s+\w+", s) and depth > 0:
                    depth -= 1
                elif depth == 0 and re.match(r"(Variable|Variables|Hypothesis|Hypotheses|Context)\b", s):
                    bad.append("%s: %s outside a section" % (f, s.split()[0]))
        return bad

    def coq_build(self, timeout=1500, pre=None):
        """Full .vo build of the engine (incremental: make rebuilds only what changed,
        e.g. a Generated_*.v that a translator just rewrote). `pre` is an optional
        callable run first (translators)."""
        if pre:
            pre()
        bad = self.coq_scan()
        if bad:
            self.coq_ok = False
            self.coq_error = "forbidden constructs: " + "; ".join(bad)
            return False
        rc, out = sh("coq_makefile -f _CoqProject -o Makefile.coq", cwd=self.coqdir, timeout=120)
        if rc != 0:
            self.coq_ok, self.coq_error = False, "coq_makefile failed: " + out[-2000:]
            return False
        rc, out = sh("timeout %d make -f Makefile.coq -j%d" % (timeout, NCPU), cwd=self.coqdir, timeout=timeout + 30)
        open(os.path.join(self.work, "coq_build.log"), "w").write(out)
        if rc != 0:
            self.coq_ok = False
            m = re.search(r'File "([^"]+)", line (\d+)[^\n]*\n((?:.*\n){0,12})', out)
            self.coq_error = ("%s line %s: %s" % (m.group(1), m.group(2), m.group(3).strip()[:1500])) if m else out[-1500:]
            return False
        self.coq_ok = True
        return True

    def property_theorems(self, fname="Properties.v"):
        src = strip_coq_comments(open(os.path.join(self.coqdir, fname)).read())
        return re.findall(r"^\s*(?:Theorem|Corollary)\s+([A-Za-z0-9_']+)", src, re.M)

    def coq_assumptions(self, files=("Properties.v",)):
        """Re-run Print Assumptions for every Theorem of the property files on this run."""
        names = []
        mods = []
        for f in files:
            names += self.property_theorems(f)
            mods.append(f[:-2])
        body = "From %s Require Import %s.\n" % (self.engine, " ".join(mods))
        for n in names:
            body += 'Goal True. idtac "@@THM %s". exact I. Qed.\nPrint Assumptions %s.\n' % (n, n)
        body += 'Goal True. idtac "@@END". exact I. Qed.\n'
        # written under the run's own work dir: concurrent runs of one check must not race
        adir = os.path.join(self.work, "assumptions")
        os.makedirs(adir, exist_ok=True)
        path = os.path.join(adir, "AssumptionsCheck.v")
        open(path, "w").write(body)
        rc, out = sh(["coqc", "-noglob", "-Q", self.coqdir, self.engine, "AssumptionsCheck.v"], cwd=adir, timeout=900)
        if rc != 0:
            self.coq_ok = False
            self.coq_error = "Print Assumptions run failed: " + out[-1500:]
            return []
        res = []
        chunks = re.split(r"@@THM (\S+)\n", out)
        for i in range(1, len(chunks), 2):
            name, txt = chunks[i], chunks[i + 1].split("@@END")[0]
            if "Closed under the global context" in txt:
                res.append({"name": name, "closed": True, "axioms": []})
            else:
                ax = re.findall(r"^([A-Za-z_][\w.']*)\s*:", txt, re.M)
                res.append({"name": name, "closed": False, "axioms": ax})
        self.theorems = res
        return res

    def discharged(self):
        """theorems whose assumptions are empty or only allowed standard-library axioms"""
        ok = 0
        for t in self.theorems:
            if t["closed"] or all(a.split(".")[-1] in ALLOWED_AXIOMS or a in ALLOWED_AXIOMS for a in t["axioms"]):
                ok += 1
        return ok

    def coq_eval(self, vfile, timeout=1200, extra_q=()):
        """coqc a case file living in the work dir against the engine; returns (rc, output)."""
        cmd = ["coqc", "-Q", self.coqdir, self.engine]
        for d, n in extra_q:
            cmd += ["-Q", d, n]
        cmd += [os.path.basename(vfile)]
        return sh(cmd, cwd=os.path.dirname(vfile), timeout=timeout)

    def coq_eval_cases(self, lines, header, typ, fn, shards=None, timeout=3000, tag="cases"):
        """Evaluate `fn cases` (a Gallina function returning the list of indexes of the
        cases on which model and implementation disagree) by vm_compute inside Coq.
        `lines` are Coq terms of type `typ`, each starting with its case index. The
        cases are sharded over the cores (elaboration of the literals dominates).
        Returns the list of mismatching indexes, or None if Coq failed (coq_error set)."""
        from concurrent.futures import ThreadPoolExecutor
        if not lines:
            return []
        shards = shards or min(NCPU, max(1, len(lines) // 40))
        # memory: elaborating the case literals costs ~0.7 MB per case; cap the shard
        # size so that NCPU concurrent coqc stay far below the machine's memory
        shards = max(shards, -(-len(lines) // 600))
        files = []
        for k in range(shards):
            part = lines[k::shards]
            if not part:
                continue
            path = os.path.join(self.work, "%s_%02d.v" % (tag, k))
            with open(path, "w") as f:
                f.write(header + "\nDefinition cases : list (%s) := [\n" % typ)
                f.write(";\n".join(part))
                f.write("].\nDefinition M := Eval vm_compute in %s cases.\nPrint M.\n" % fn)
            files.append(path)

        def one(path):
            cmd = ["coqc", "-noglob", "-Q", self.coqdir, self.engine, os.path.basename(path)]
            return sh(cmd, cwd=self.work, timeout=timeout)
        bad = []
        with ThreadPoolExecutor(max_workers=NCPU) as ex:
            results = list(ex.map(one, files))
        # a coqc killed from outside (OOM killer, signal: negative or 137 exit code and no
        # Coq error message) says nothing about the model: evaluate that shard again, alone
        for i, (rc, out) in enumerate(results):
            if rc != 0 and rc != 124 and "Error" not in out:
                results[i] = one(files[i])
        if True:
            for path, (rc, out) in zip(files, results):
                if rc != 0:
                    self.coq_ok = False
                    self.coq_error = "%s did not evaluate: %s" % (os.path.basename(path), out[-1500:])
                    return None
                m = parse_coq_list_of_nat(out, "M")
                if m is None:
                    self.coq_ok = False
                    self.coq_error = "cannot parse model output of %s: %s" % (os.path.basename(path), out[-800:])
                    return None
                bad += m
        for path in files:
            for ext in (".vo", ".vok", ".vos", ".glob"):
                try:
                    os.remove(path[:-2] + ext)
                except OSError:
                    pass
        return sorted(bad)

    # ------------------------------------------------------------------ Go
    def go_build(self, pkg, out=None, tags="verif", race=False, timeout=1200):
        """Build ./cmd/<pkg> of the harness module against /repo's working tree."""
        hdir = os.path.join(VERIF, "harness")
        sumsrc = os.path.join(REPO, "go.sum")
        if os.path.exists(sumsrc):
            shutil.copyfile(sumsrc, os.path.join(hdir, "go.sum"))
        out = out or os.path.join(VERIF, ".build", pkg + ("-race" if race else ""))
        cmd = ["go", "build", "-tags", tags]
        if os.path.realpath(REPO) != "/repo":
            # testing against a scratch worktree (seeded changes): same module, other replace target
            alt = os.path.join(VERIF, ".work", "gomod-" + hashlib.sha256(REPO.encode()).hexdigest()[:8])
            os.makedirs(alt, exist_ok=True)
            mod = open(os.path.join(hdir, "go.mod")).read().replace("=> /repo", "=> " + os.path.realpath(REPO))
            open(os.path.join(alt, "go.mod"), "w").write(mod)
            shutil.copyfile(os.path.join(hdir, "go.sum"), os.path.join(alt, "go.sum"))
            cmd += ["-modfile", os.path.join(alt, "go.mod")]
            out = out + "-alt"
        if race:
            cmd.append("-race")
        cmd += ["-o", out, "./cmd/" + pkg]
        rc, o = sh(cmd, cwd=hdir, env=goenv(), timeout=timeout)
        if rc != 0:
            raise BuildError("go build %s failed:\n%s" % (pkg, o[-3000:]))
        return out

    # ------------------------------------------------------------- reporting
    def replay_path(self, obj):
        h = hashlib.sha256(json.dumps(obj, sort_keys=True, default=str).encode()).hexdigest()[:12]
        rdir = os.path.join(VERIF, "replays")
        if os.path.realpath(REPO) != "/repo":
            rdir = os.path.join(VERIF, ".work", "replays-scratch")   # not inside self.work: that is wiped at the next run
            os.makedirs(rdir, exist_ok=True)
        p = os.path.join(rdir, "%s-%s.json" % (self.pid, h))
        json.dump(obj, open(p, "w"), indent=1, default=str)
        return p

    def known(self, signature):
        for f in self.findings:
            if f.get("signature") == signature:
                return f
        return None

    def failure(self, signature, what, replay_obj):
        """A concrete input on which the property fails on the implementation."""
        f = self.known(signature)
        if f is not None:
            self.known_hits[signature] = self.known_hits.get(signature, 0) + 1
            return
        self.sig_counts[signature] = self.sig_counts.get(signature, 0) + 1
        if self.sig_counts[signature] > 1:
            return      # one replay per distinct signature (the first, i.e. smallest, case)
        replay_obj = dict(replay_obj)
        replay_obj.update({"property": self.pid, "signature": signature, "what": what, "seed": self.seed,
                           "replay_cmd": "bin/check %s --replay <this file>" % self.pid})
        self.violations.append((what, self.replay_path(replay_obj), False))

    def unproved(self, what, replay_obj):
        """A proof obligation or the correspondence no longer checks and no failing input was found."""
        replay_obj = dict(replay_obj)
        replay_obj.update({"property": self.pid, "what": what, "seed": self.seed, "no_failing_input_found": True})
        self.violations.append((what, self.replay_path(replay_obj), True))

    def coqchk(self, files=("Properties",), timeout=1500):
        """Independent re-check of the compiled property files (and everything they
        depend on) with coqchk; thorough tier only. Returns a short summary string."""
        mods = ["%s.%s" % (self.engine, f) for f in files]
        rc, out = sh(["coqchk", "-silent", "-o", "-Q", ".", self.engine] + mods, cwd=self.coqdir, timeout=timeout)
        if rc == 124:
            return "coqchk: timed out after %ds (not counted)" % timeout
        m = re.search(r"\* Axioms:(.*?)\n\s*\n\* Constants", out, re.S)
        axioms = " ".join(m.group(1).split()) if m else "?"
        if rc != 0:
            self.coq_ok = False
            self.coq_error = "coqchk rejected the compiled development: " + out[-800:]
            return "coqchk: FAILED"
        return "coqchk: ok; axioms of all loaded libraries: %s" % axioms

    def finish(self, coverage, assumptions=(), level="proof", checker_cmd=None, trusted_base=None, coqchk_files=("Properties",)):
        if self.tier == "thorough" and self.coq_ok and not os.environ.get("VERIF_NO_COQCHK"):
            summary = self.coqchk(coqchk_files)
            self.notes.append(summary)
            if not self.coq_ok and not self.violations:
                self.unproved(self.coq_error, {"broken": "coqchk", "detail": self.coq_error})
        wall = time.time() - self.t0
        for f in self.findings:
            sig = f.get("signature")
            if self.known_hits.get(sig):
                print("KNOWN-FINDING: property=%s %s [%s; reproduced on %d case(s) this run]" % (self.pid, f.get("what", ""), sig, self.known_hits[sig]))
            else:
                self.notes.append("listed finding not reproduced this run: %s" % sig)
        seen = set()
        for what, path, nofail in self.violations:
            if path in seen:
                continue
            seen.add(path)
            line = "VIOLATION property=%s replay=%s" % (self.pid, path)
            if nofail:
                line += " no-failing-input-found"
            print("# " + what.replace("\n", " ")[:400])
            print(line)
        cov = dict(coverage)
        cov.setdefault("obligations", len(self.theorems))
        cov.setdefault("discharged", self.discharged() if self.coq_ok else 0)
        cov.setdefault("checker_cmd", checker_cmd or ("coq_makefile -f coq/%s/_CoqProject && make (coqc 8.16.1, full .vo) + Print Assumptions per theorem" % self.engine))
        tb = list(trusted_base or [])
        tb += ["Coq 8.16.1 kernel + vm_compute (no native_compute)",
               "axioms per theorem (Print Assumptions, this run): " +
               (", ".join(sorted({a for t in self.theorems for a in t["axioms"]})) or "none — all closed under the global context")]
        tb += self.extra_trusted
        cov.setdefault("trusted_base", tb)
        cov["theorems"] = [t["name"] + ("" if t["closed"] else " [axioms: %s]" % ",".join(t["axioms"])) for t in self.theorems]
        cov["known_findings_reproduced"] = dict(self.known_hits)
        cov["failing_inputs_by_signature"] = dict(self.sig_counts)
        if self.notes:
            cov["notes"] = self.notes
        if not self.coq_ok:
            cov["coq_error"] = self.coq_error
        ev = {"property_id": self.pid, "tier": self.tier, "seed": self.seed, "level": level,
              "coverage": cov, "assumptions": list(assumptions), "wall_s": round(wall, 2),
              "violations": len(seen)}
        evdir = os.path.join(VERIF, "evidence")
        if os.environ.get("VERIF_NO_EVIDENCE") or os.path.realpath(REPO) != "/repo":
            evdir = os.path.join(self.work, "evidence")   # runs against a scratch worktree never touch the real evidence
            os.makedirs(evdir, exist_ok=True)
        json.dump(ev, open(os.path.join(evdir, self.pid + ".json"), "w"), indent=1, default=str)
        print("%s %s: %d theorems (%d discharged), %s evaluations, %d violation(s), %d known finding(s) reproduced, %.1fs" % (
            self.pid, self.tier, len(self.theorems), cov["discharged"], cov.get("evaluations", "?"), len(seen),
            len([s for s in self.known_hits if self.known_hits[s]]), wall))
        return 1 if seen else 0


class BuildError(Exception):
    pass


def parse_coq_list_of_nat(out, name):
    """Parse `name = [1; 2; 3]` (possibly wrapped) printed by `Print name.`"""
    m = re.search(name + r"\s*=\s*\[(.*?)\]\s*:\s*list", out, re.S)
    if not m:
        return None
    body = m.group(1).strip()
    if not body:
        return []
    return [int(re.sub(r"%\w+$", "", x.strip())) for x in re.split(r";", body) if x.strip()]
