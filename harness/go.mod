module verifharness

go 1.22.0

require (
	goa.design/goa/v3 v3.0.0
	google.golang.org/grpc v1.67.1
)

require (
	github.com/go-chi/chi/v5 v5.1.0 // indirect
	github.com/google/uuid v1.6.0 // indirect
	github.com/gorilla/websocket v1.5.3 // indirect
	golang.org/x/net v0.30.0 // indirect
	golang.org/x/sys v0.26.0 // indirect
	golang.org/x/text v0.19.0 // indirect
	google.golang.org/genproto/googleapis/rpc v0.0.0-20240903143218-8af14fe29dc1 // indirect
	google.golang.org/protobuf v1.35.1 // indirect
)

replace goa.design/goa/v3 => /repo
