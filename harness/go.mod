module verifharness

go 1.22.0

require (
	github.com/getkin/kin-openapi v0.128.0
	github.com/go-chi/chi/v5 v5.1.0
	github.com/google/uuid v1.6.0
	goa.design/goa/v3 v3.0.0
	google.golang.org/grpc v1.67.1
	google.golang.org/protobuf v1.35.1
	gopkg.in/yaml.v3 v3.0.1
)

require (
	github.com/davecgh/go-spew v1.1.1 // indirect
	github.com/dimfeld/httppath v0.0.0-20170720192232-ee938bf73598 // indirect
	github.com/go-openapi/jsonpointer v0.21.0 // indirect
	github.com/go-openapi/swag v0.23.0 // indirect
	github.com/gorilla/websocket v1.5.3 // indirect
	github.com/invopop/yaml v0.3.1 // indirect
	github.com/josharian/intern v1.0.0 // indirect
	github.com/mailru/easyjson v0.7.7 // indirect
	github.com/manveru/faker v0.0.0-20171103152722-9fbc68a78c4d // indirect
	github.com/mohae/deepcopy v0.0.0-20170929034955-c48cc78d4826 // indirect
	github.com/perimeterx/marshmallow v1.1.5 // indirect
	github.com/pmezard/go-difflib v1.0.0 // indirect
	github.com/stretchr/testify v1.9.0 // indirect
	golang.org/x/mod v0.21.0 // indirect
	golang.org/x/net v0.30.0 // indirect
	golang.org/x/sync v0.8.0 // indirect
	golang.org/x/sys v0.26.0 // indirect
	golang.org/x/text v0.19.0 // indirect
	golang.org/x/tools v0.26.0 // indirect
	google.golang.org/genproto/googleapis/rpc v0.0.0-20240903143218-8af14fe29dc1 // indirect
)

replace goa.design/goa/v3 => /repo
