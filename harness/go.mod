module verifharness

go 1.22.0

require (
	goa.design/goa/v3 v3.0.0
	google.golang.org/grpc v1.67.1
)

require (
	github.com/davecgh/go-spew v1.1.1 // indirect
	github.com/dimfeld/httppath v0.0.0-20170720192232-ee938bf73598 // indirect
	github.com/go-chi/chi/v5 v5.1.0 // indirect
	github.com/google/uuid v1.6.0 // indirect
	github.com/gorilla/websocket v1.5.3 // indirect
	github.com/manveru/faker v0.0.0-20171103152722-9fbc68a78c4d // indirect
	github.com/pmezard/go-difflib v1.0.0 // indirect
	github.com/stretchr/testify v1.9.0 // indirect
	golang.org/x/mod v0.21.0 // indirect
	golang.org/x/net v0.30.0 // indirect
	golang.org/x/sync v0.8.0 // indirect
	golang.org/x/sys v0.26.0 // indirect
	golang.org/x/text v0.19.0 // indirect
	golang.org/x/tools v0.26.0 // indirect
	google.golang.org/genproto/googleapis/rpc v0.0.0-20240903143218-8af14fe29dc1 // indirect
	google.golang.org/protobuf v1.35.1 // indirect
	gopkg.in/yaml.v3 v3.0.1 // indirect
)

replace goa.design/goa/v3 => /repo
