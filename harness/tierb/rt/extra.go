package rt

// Additions used by the C02/C03 harness (backward compatible: nothing changes for
// designs without multipart endpoints, and the new Obs fields are omitted when empty):
//
//   - multipart endpoints: goa's generated server.New / client.NewClient take one
//     user-supplied multipart decoder / encoder function per multipart endpoint. The
//     driver supplies generic ones built by reflection: one form field per Go field of
//     the payload, JSON-encoded, restricted to the fields the design leaves to the body
//     (file multipart_fields.json in the driver's working directory:
//     "<payload pkg path>.<payload type>" -> [Go field names]; all fields when absent).
//   - re-check of earlier values: the last results returned by the generated client and
//     the last payloads received by the service are kept and dumped again after every
//     later exchange (Obs.Recheck / Obs.RecheckGot, by step ID): a value already handed
//     over must not change when later requests / responses are processed.

import (
	"encoding/json"
	"io"
	"mime/multipart"
	"os"
	"reflect"
	"sync"
)

var (
	mpOnce   sync.Once
	mpFields map[string][]string
)

func multipartFields(t reflect.Type) []string {
	mpOnce.Do(func() {
		mpFields = map[string][]string{}
		if bs, err := os.ReadFile("multipart_fields.json"); err == nil {
			_ = json.Unmarshal(bs, &mpFields)
		}
	})
	if fs, ok := mpFields[t.PkgPath()+"."+t.Name()]; ok {
		return fs
	}
	var all []string
	for i := 0; i < t.NumField(); i++ {
		if t.Field(i).PkgPath == "" {
			all = append(all, t.Field(i).Name)
		}
	}
	return all
}

var (
	tMPReader = reflect.TypeOf((*multipart.Reader)(nil))
	tMPWriter = reflect.TypeOf((*multipart.Writer)(nil))
	tError    = reflect.TypeOf((*error)(nil)).Elem()
)

// multipartFunc builds a multipart decoder (func(*multipart.Reader, **T) error) or
// encoder (func(*multipart.Writer, *T) error) for the given parameter type.
func multipartFunc(pt reflect.Type) (reflect.Value, bool) {
	if pt.Kind() != reflect.Func || pt.NumIn() != 2 || pt.NumOut() != 1 || pt.Out(0) != tError {
		return reflect.Value{}, false
	}
	ret := func(err error) []reflect.Value {
		if err == nil {
			return []reflect.Value{reflect.Zero(tError)}
		}
		return []reflect.Value{reflect.ValueOf(&err).Elem()}
	}
	switch {
	case pt.In(0) == tMPReader && pt.In(1).Kind() == reflect.Ptr && pt.In(1).Elem().Kind() == reflect.Ptr && pt.In(1).Elem().Elem().Kind() == reflect.Struct:
		st := pt.In(1).Elem().Elem()
		return reflect.MakeFunc(pt, func(args []reflect.Value) []reflect.Value {
			mr := args[0].Interface().(*multipart.Reader)
			v := reflect.New(st)
			allowed := map[string]bool{}
			for _, f := range multipartFields(st) {
				allowed[f] = true
			}
			for {
				part, err := mr.NextPart()
				if err == io.EOF {
					break
				}
				if err != nil {
					return ret(err)
				}
				bs, err := io.ReadAll(part)
				if err != nil {
					return ret(err)
				}
				f := v.Elem().FieldByName(part.FormName())
				if !f.IsValid() || !allowed[part.FormName()] {
					continue
				}
				if err := json.Unmarshal(bs, f.Addr().Interface()); err != nil {
					return ret(err)
				}
			}
			args[1].Elem().Set(v)
			return ret(nil)
		}), true
	case pt.In(0) == tMPWriter && pt.In(1).Kind() == reflect.Ptr && pt.In(1).Elem().Kind() == reflect.Struct:
		st := pt.In(1).Elem()
		return reflect.MakeFunc(pt, func(args []reflect.Value) []reflect.Value {
			mw := args[0].Interface().(*multipart.Writer)
			if args[1].IsNil() {
				return ret(nil)
			}
			for _, name := range multipartFields(st) {
				f := args[1].Elem().FieldByName(name)
				if !f.IsValid() {
					continue
				}
				if (f.Kind() == reflect.Ptr || f.Kind() == reflect.Slice || f.Kind() == reflect.Map || f.Kind() == reflect.Interface) && f.IsNil() {
					continue
				}
				bs, err := json.Marshal(f.Interface())
				if err != nil {
					return ret(err)
				}
				w, err := mw.CreateFormField(name)
				if err != nil {
					return ret(err)
				}
				if _, err := w.Write(bs); err != nil {
					return ret(err)
				}
			}
			return ret(nil)
		}), true
	}
	return reflect.Value{}, false
}

// kept values, re-dumped after later exchanges
type keptValue struct {
	id int
	v  any
}

const keepLast = 4

func keepAppend(l []keptValue, id int, v any) []keptValue {
	l = append(l, keptValue{id, v})
	if len(l) > keepLast {
		l = l[len(l)-keepLast:]
	}
	return l
}

func redump(l []keptValue, except int) map[int]*Tree {
	var out map[int]*Tree
	for _, k := range l {
		if k.id == except {
			continue
		}
		if out == nil {
			out = map[int]*Tree{}
		}
		out[k.id] = Dump(k.v)
	}
	return out
}
