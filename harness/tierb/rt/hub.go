package rt

import (
	"bufio"
	"bytes"
	"context"
	"encoding/base64"
	"encoding/json"
	"errors"
	"fmt"
	"io"
	"net/http"
	"net/http/httptest"
	"os"
	"reflect"
	"runtime/debug"
	"sort"
	"strings"
	"sync"

	goahttp "goa.design/goa/v3/http"
	goa "goa.design/goa/v3/pkg"
)

// MethodInfo carries the Go types of a method's payload and result (nil when absent).
type MethodInfo struct {
	Var     string // Go method name
	Payload reflect.Type
	Result  reflect.Type
	Viewed  bool // service method also returns the view name
}

// Glue is what the generated main registers per (design, service).
type Glue struct {
	Design, Service string
	Stub            func(h *Hub) any // returns the service implementation
	NewEndpoints    any              // func(Service) *Endpoints
	NewServer       any              // generated server.New
	Mount           any              // generated server.Mount
	NewClient       any              // generated client.NewClient
	Methods         map[string]MethodInfo
	Errors          map[string]reflect.Type // custom error types by error name
}

var registry = map[string]*Glue{}

func Register(g Glue) { registry[g.Design+"/"+g.Service] = &g }

// ErrSpec scripts the error the service method returns.
type ErrSpec struct {
	Kind      string `json:"kind"` // declared (ServiceError with a declared name) | custom | plain | service | wrapped | wrapped2 | joined | multiw | joined-wrapped
	Name      string `json:"name,omitempty"`
	Message   string `json:"message,omitempty"`
	ID        string `json:"id,omitempty"`
	Timeout   bool   `json:"timeout,omitempty"`
	Temporary bool   `json:"temporary,omitempty"`
	Fault     bool   `json:"fault,omitempty"`
	Value     *Tree  `json:"value,omitempty"` // custom error type value
}

// RawReq is a request sent below the generated client (malformed / boundary requests).
type RawReq struct {
	Method  string              `json:"method"`
	Target  string              `json:"target"` // path?query as it goes on the wire
	Headers map[string][]string `json:"headers,omitempty"`
	Body    string              `json:"body,omitempty"` // base64
}

// Step is one scripted exchange.
type Step struct {
	ID      int     `json:"id"`
	Design  string  `json:"design"`
	Service string  `json:"service"`
	Method  string  `json:"method"`
	Payload *Tree   `json:"payload,omitempty"` // nil => method has no payload / raw
	Raw     *RawReq `json:"raw,omitempty"`
	// server side script
	Result *Tree           `json:"result,omitempty"`
	View   string          `json:"view,omitempty"`
	Err    *ErrSpec        `json:"err,omitempty"`
	Auth   map[string]bool `json:"auth,omitempty"` // scheme name -> accept? (default accept)
	// response tampering below the client (C08: undefined view names)
	SetRespHeader map[string]string `json:"set_resp_header,omitempty"`
	Accept        string            `json:"accept,omitempty"`
}

// AuthCall records one invocation of an authorization callback.
type AuthCall struct {
	Kind     string   `json:"kind"`
	Scheme   string   `json:"scheme"`
	Cred     []string `json:"cred"`
	Scopes   []string `json:"scopes"`
	Required []string `json:"required"`
	OK       bool     `json:"ok"`
}

// Wire is a tapped HTTP message.
type Wire struct {
	Method  string              `json:"method,omitempty"`
	Path    string              `json:"path,omitempty"`  // escaped path as sent
	Query   string              `json:"query,omitempty"` // raw query
	Status  int                 `json:"status,omitempty"`
	Headers map[string][]string `json:"headers,omitempty"`
	Body    string              `json:"body"` // as string when valid UTF-8 else base64: prefix
}

// ClientErr describes the error the generated client returned.
type ClientErr struct {
	Type      string `json:"type"` // ServiceError | custom:<GoType> | ClientError | other
	Name      string `json:"name,omitempty"`
	Message   string `json:"message,omitempty"`
	ID        string `json:"id,omitempty"`
	Timeout   bool   `json:"timeout,omitempty"`
	Temporary bool   `json:"temporary,omitempty"`
	Fault     bool   `json:"fault,omitempty"`
	Value     *Tree  `json:"value,omitempty"`
}

// Obs is what one step produced.
type Obs struct {
	ID           int        `json:"id"`
	Invoked      int        `json:"invoked"` // number of times the service method ran
	Got          *Tree      `json:"got,omitempty"`
	AuthCalls    []AuthCall `json:"auth_calls,omitempty"`
	Req          *Wire      `json:"req,omitempty"`
	Resp         *Wire      `json:"resp,omitempty"`
	ClientResult *Tree      `json:"client_result,omitempty"`
	ClientErr    *ClientErr `json:"client_err,omitempty"`
	HasResult    bool       `json:"has_result"`
	WriteHeaders int        `json:"write_headers"`
	Panic        string     `json:"panic,omitempty"`
	// values handed over by EARLIER exchanges, dumped again after this one (by step ID)
	Recheck    map[int]*Tree `json:"recheck,omitempty"`
	RecheckGot map[int]*Tree `json:"recheck_got,omitempty"`
	SetupErr   string        `json:"setup_err,omitempty"`
}

// Hub is shared by the stubs of all services; steps run one at a time.
type Hub struct {
	mu      sync.Mutex
	step    *Step
	obs     *Obs
	keptRes []keptValue
	keptGot []keptValue
}

// Invoke is called by a generated stub method.
func (h *Hub) Invoke(ctx context.Context, design, svc, method string, payload any, resType reflect.Type) (any, string, error) {
	h.mu.Lock()
	defer h.mu.Unlock()
	st, ob := h.step, h.obs
	ob.Invoked++
	if payload != nil {
		ob.Got = Dump(payload)
		h.keptGot = keepAppend(h.keptGot, st.ID, payload)
	}
	if st.Err != nil {
		return nil, "", h.buildErr(design, svc, st.Err)
	}
	if resType == nil || st.Result == nil {
		return nil, st.View, nil
	}
	v := reflect.New(resType).Elem()
	if err := Fill(v, st.Result); err != nil {
		ob.SetupErr = "fill result: " + err.Error()
		return nil, "", errors.New("harness: cannot build scripted result")
	}
	return v.Interface(), st.View, nil
}

func (h *Hub) buildErr(design, svc string, e *ErrSpec) error {
	switch e.Kind {
	case "plain":
		return errors.New(e.Message)
	case "custom":
		g := registry[design+"/"+svc]
		if t, ok := g.Errors[e.Name]; ok {
			v := reflect.New(t).Elem()
			if err := Fill(v, e.Value); err != nil {
				h.obs.SetupErr = "fill error: " + err.Error()
				return errors.New("harness: cannot build scripted error")
			}
			if err, ok := v.Interface().(error); ok {
				return err
			}
		}
		h.obs.SetupErr = "no custom error type " + e.Name
		return errors.New("harness: no such custom error")
	default:
		se := &goa.ServiceError{Name: e.Name, ID: e.ID, Message: e.Message, Timeout: e.Timeout, Temporary: e.Temporary, Fault: e.Fault}
		switch e.Kind {
		case "wrapped":
			return fmt.Errorf("wrapped: %w", se)
		case "wrapped2": // two levels of single-%w wrapping
			return fmt.Errorf("outer: %w", fmt.Errorf("inner: %w", se))
		case "joined": // errors.Join with an unrelated plain error first
			return errors.Join(errors.New("unrelated"), se)
		case "multiw": // fmt.Errorf with two %w verbs
			return fmt.Errorf("%w: %w", errors.New("context"), se)
		case "joined-wrapped":
			return fmt.Errorf("while doing x: %w", errors.Join(se, errors.New("unrelated")))
		}
		return se
	}
}

// Auth is called by the stub's authorization callbacks.
func (h *Hub) Auth(ctx context.Context, design, svc, kind string, cred []string, scheme string, scopes, required []string) (context.Context, error) {
	h.mu.Lock()
	defer h.mu.Unlock()
	ok := true
	if h.step.Auth != nil {
		if v, set := h.step.Auth[scheme]; set {
			ok = v
		}
	}
	h.obs.AuthCalls = append(h.obs.AuthCalls, AuthCall{Kind: kind, Scheme: scheme, Cred: cred, Scopes: append([]string{}, scopes...), Required: append([]string{}, required...), OK: ok})
	if !ok {
		return ctx, &goa.ServiceError{Name: "unauthorized", ID: "auth", Message: "rejected by " + scheme}
	}
	return ctx, nil
}

type instance struct {
	g      *Glue
	srv    *httptest.Server
	client reflect.Value
	tap    *tap
	wh     *int
}

type tap struct {
	base http.RoundTripper
	step *Step
	req  *Wire
	resp *Wire
}

func bodyStr(b []byte) string {
	if json.Valid(b) || isPrintable(b) {
		return string(b)
	}
	return "base64:" + base64.StdEncoding.EncodeToString(b)
}

func isPrintable(b []byte) bool {
	for _, c := range b {
		if c < 0x20 && c != '\n' && c != '\t' && c != '\r' || c > 0x7e {
			return false
		}
	}
	return true
}

func (t *tap) RoundTrip(r *http.Request) (*http.Response, error) {
	var body []byte
	if r.Body != nil {
		body, _ = io.ReadAll(r.Body)
		r.Body = io.NopCloser(bytes.NewReader(body))
	}
	if t.step != nil && t.step.Accept != "" {
		r.Header.Set("Accept", t.step.Accept)
	}
	t.req = &Wire{Method: r.Method, Path: r.URL.EscapedPath(), Query: r.URL.RawQuery, Headers: map[string][]string(r.Header.Clone()), Body: bodyStr(body)}
	resp, err := t.base.RoundTrip(r)
	if err != nil {
		return nil, err
	}
	rb, _ := io.ReadAll(resp.Body)
	resp.Body.Close()
	if t.step != nil {
		for k, v := range t.step.SetRespHeader {
			resp.Header.Set(k, v)
		}
	}
	t.resp = &Wire{Status: resp.StatusCode, Headers: map[string][]string(resp.Header.Clone()), Body: bodyStr(rb)}
	resp.Body = io.NopCloser(bytes.NewReader(rb))
	return resp, nil
}

type countingWriter struct {
	http.ResponseWriter
	n *int
}

func (c *countingWriter) WriteHeader(code int) { *c.n++; c.ResponseWriter.WriteHeader(code) }
func (c *countingWriter) Write(b []byte) (int, error) {
	if *c.n == 0 {
		*c.n = 1 // implicit header write
	}
	return c.ResponseWriter.Write(b)
}

var (
	tDecoder   = reflect.TypeOf((func(*http.Request) goahttp.Decoder)(nil))
	tEncoder   = reflect.TypeOf((func(context.Context, http.ResponseWriter) goahttp.Encoder)(nil))
	tErrH      = reflect.TypeOf((func(context.Context, http.ResponseWriter, error))(nil))
	tFormatter = reflect.TypeOf((func(context.Context, error) goahttp.Statuser)(nil))
	tMuxer     = reflect.TypeOf((*goahttp.Muxer)(nil)).Elem()
	tFS        = reflect.TypeOf((*http.FileSystem)(nil)).Elem()
)

func (h *Hub) start(g *Glue) (*instance, error) {
	inst := &instance{g: g, wh: new(int)}
	stub := g.Stub(h)
	eps := reflect.ValueOf(g.NewEndpoints).Call([]reflect.Value{reflect.ValueOf(stub)})[0]
	mux := goahttp.NewMuxer()
	newSrv := reflect.ValueOf(g.NewServer)
	var args []reflect.Value
	for i := 0; i < newSrv.Type().NumIn(); i++ {
		pt := newSrv.Type().In(i)
		switch {
		case i == 0:
			args = append(args, eps)
		case pt == tMuxer:
			args = append(args, reflect.ValueOf(mux))
		case pt == tDecoder:
			args = append(args, reflect.ValueOf(goahttp.RequestDecoder))
		case pt == tEncoder:
			args = append(args, reflect.ValueOf(goahttp.ResponseEncoder))
		case pt == tErrH:
			args = append(args, reflect.ValueOf(func(context.Context, http.ResponseWriter, error) {}))
		case pt == tFormatter:
			args = append(args, reflect.Zero(pt))
		case pt.Implements(tFS) || pt == tFS:
			args = append(args, reflect.ValueOf(http.Dir(".")).Convert(reflect.TypeOf(http.Dir(""))))
		default:
			if f, ok := multipartFunc(pt); ok {
				args = append(args, f) // multipart endpoints: one decoder function per endpoint
			} else {
				args = append(args, reflect.Zero(pt))
			}
		}
	}
	srv := newSrv.Call(args)[0]
	reflect.ValueOf(g.Mount).Call([]reflect.Value{reflect.ValueOf(mux), srv})
	handler := http.HandlerFunc(func(w http.ResponseWriter, r *http.Request) {
		mux.ServeHTTP(&countingWriter{w, inst.wh}, r)
	})
	inst.srv = httptest.NewServer(handler)
	inst.tap = &tap{base: http.DefaultTransport}
	doer := &http.Client{Transport: inst.tap, CheckRedirect: func(*http.Request, []*http.Request) error { return http.ErrUseLastResponse }}
	nc := reflect.ValueOf(g.NewClient)
	host := strings.TrimPrefix(inst.srv.URL, "http://")
	var cargs []reflect.Value
	for i := 0; i < nc.Type().NumIn(); i++ {
		pt := nc.Type().In(i)
		switch i {
		case 0:
			cargs = append(cargs, reflect.ValueOf("http"))
		case 1:
			cargs = append(cargs, reflect.ValueOf(host))
		case 2:
			cargs = append(cargs, reflect.ValueOf(doer).Convert(pt))
		case 3:
			cargs = append(cargs, reflect.ValueOf(goahttp.RequestEncoder))
		case 4:
			cargs = append(cargs, reflect.ValueOf(goahttp.ResponseDecoder))
		case 5:
			cargs = append(cargs, reflect.ValueOf(false))
		default:
			if f, ok := multipartFunc(pt); ok {
				cargs = append(cargs, f)
			} else {
				cargs = append(cargs, reflect.Zero(pt))
			}
		}
	}
	inst.client = nc.Call(cargs)[0]
	return inst, nil
}

func describeErr(err error) *ClientErr {
	var se *goa.ServiceError
	if direct, ok := err.(*goa.ServiceError); ok {
		se = direct
		return &ClientErr{Type: "ServiceError", Name: se.Name, Message: se.Message, ID: se.ID, Timeout: se.Timeout, Temporary: se.Temporary, Fault: se.Fault}
	}
	var ce *goahttp.ClientError
	if errors.As(err, &ce) {
		return &ClientErr{Type: "ClientError", Name: ce.Name, Message: ce.Message, Timeout: ce.Timeout, Temporary: ce.Temporary, Fault: ce.Fault}
	}
	if n, ok := err.(interface{ GoaErrorName() string }); ok {
		return &ClientErr{Type: "custom:" + reflect.TypeOf(err).String(), Name: n.GoaErrorName(), Message: err.Error(), Value: Dump(err)}
	}
	return &ClientErr{Type: "other:" + reflect.TypeOf(err).String(), Message: err.Error()}
}

func (h *Hub) run(inst *instance, st *Step) (ob *Obs) {
	ob = &Obs{ID: st.ID}
	h.mu.Lock()
	h.step, h.obs = st, ob
	h.mu.Unlock()
	*inst.wh = 0
	inst.tap.step, inst.tap.req, inst.tap.resp = st, nil, nil
	defer func() {
		if r := recover(); r != nil {
			ob.Panic = fmt.Sprintf("%v\n%s", r, debug.Stack())
		}
		ob.Req, ob.Resp, ob.WriteHeaders = inst.tap.req, inst.tap.resp, *inst.wh
		h.mu.Lock()
		ob.Recheck, ob.RecheckGot = redump(h.keptRes, st.ID), redump(h.keptGot, st.ID)
		h.mu.Unlock()
	}()
	if st.Raw != nil {
		body, _ := base64.StdEncoding.DecodeString(st.Raw.Body)
		req, err := http.NewRequest(st.Raw.Method, inst.srv.URL+st.Raw.Target, bytes.NewReader(body))
		if err != nil {
			ob.SetupErr = "raw request: " + err.Error()
			return
		}
		for k, vs := range st.Raw.Headers {
			for _, v := range vs {
				req.Header.Add(k, v)
			}
		}
		resp, err := inst.tap.RoundTrip(req)
		if err != nil {
			ob.SetupErr = "raw roundtrip: " + err.Error()
			return
		}
		resp.Body.Close()
		return
	}
	mi, ok := inst.g.Methods[st.Method]
	if !ok {
		ob.SetupErr = "unknown method " + st.Method
		return
	}
	var payload any
	if mi.Payload != nil {
		v := reflect.New(mi.Payload).Elem()
		if st.Payload != nil {
			if err := Fill(v, st.Payload); err != nil {
				ob.SetupErr = "fill payload: " + err.Error()
				return
			}
		}
		payload = v.Interface()
	}
	cm := inst.client.MethodByName(mi.Var)
	var margs []reflect.Value
	for i := 0; i < cm.Type().NumIn(); i++ {
		// multipart endpoints: the client method takes the multipart encoder function
		if f, ok := multipartFunc(cm.Type().In(i)); ok {
			margs = append(margs, f)
		} else {
			margs = append(margs, reflect.Zero(cm.Type().In(i)))
		}
	}
	ep := cm.Call(margs)[0].Interface().(goa.Endpoint)
	res, err := ep(context.Background(), payload)
	if err != nil {
		ob.ClientErr = describeErr(err)
		return
	}
	ob.HasResult = res != nil
	if res != nil {
		ob.ClientResult = Dump(res)
		h.mu.Lock()
		h.keptRes = keepAppend(h.keptRes, st.ID, res)
		h.mu.Unlock()
	}
	return
}

// Main is the driver's entry point: reads steps (one JSON per line) from the file
// named by the first argument, writes one observation per line to stdout.
func Main() {
	if len(os.Args) < 2 {
		fmt.Fprintln(os.Stderr, "usage: driver <steps.jsonl>")
		os.Exit(2)
	}
	f, err := os.Open(os.Args[1])
	if err != nil {
		panic(err)
	}
	defer f.Close()
	h := &Hub{}
	insts := map[string]*instance{}
	out := bufio.NewWriter(os.Stdout)
	defer out.Flush()
	sc := bufio.NewScanner(f)
	sc.Buffer(make([]byte, 1<<20), 1<<26)
	for sc.Scan() {
		var st Step
		if err := json.Unmarshal(sc.Bytes(), &st); err != nil {
			panic(err)
		}
		key := st.Design + "/" + st.Service
		var ob *Obs
		g, ok := registry[key]
		if !ok {
			ob = &Obs{ID: st.ID, SetupErr: "no glue for " + key}
		} else {
			inst, ok := insts[key]
			if !ok {
				var err error
				func() {
					defer func() {
						if r := recover(); r != nil {
							err = fmt.Errorf("panic starting %s: %v", key, r)
						}
					}()
					inst, err = h.start(g)
				}()
				if err != nil {
					ob = &Obs{ID: st.ID, SetupErr: err.Error()}
					b, _ := json.Marshal(ob)
					out.Write(b)
					out.WriteByte('\n')
					continue
				}
				insts[key] = inst
			}
			ob = h.run(inst, &st)
		}
		b, _ := json.Marshal(ob)
		out.Write(b)
		out.WriteByte('\n')
	}
	for _, i := range insts {
		i.srv.Close()
	}
}

// Keys lists registered glue (debugging).
func Keys() []string {
	var ks []string
	for k := range registry {
		ks = append(ks, k)
	}
	sort.Strings(ks)
	return ks
}
