// Package rt is the runtime linked into tier-B drivers: generated goa code of a
// batch of designs + a generated stub per service + this package form one binary
// that executes scripted client->server exchanges and prints what it observed.
package rt

import (
	"encoding/hex"
	"fmt"
	"math"
	"reflect"
	"sort"
	"strconv"
)

// Tree is the canonical, JSON-able rendering of a Go value of a generated type:
// explicit nil-ness, struct fields by Go field name in declaration order, map keys
// sorted, []byte as hex, floats as shortest round-trip decimals.
type Tree struct {
	K      string   `json:"k"` // nil bool int uint float string bytes array map struct
	B      bool     `json:"b,omitempty"`
	I      int64    `json:"i,omitempty"`
	U      uint64   `json:"u,omitempty"`
	F      string   `json:"f,omitempty"`
	S      string   `json:"s,omitempty"`
	Elems  []*Tree  `json:"elems,omitempty"`
	Keys   []*Tree  `json:"keys,omitempty"`
	Names  []string `json:"names,omitempty"` // struct field names, parallel to Elems
	GoType string   `json:"t,omitempty"`     // Go type name of structs / dynamic type of interface values
}

var Nil = &Tree{K: "nil"}

func FloatStr(f float64, bits int) string {
	if math.IsNaN(f) {
		return "NaN"
	}
	return strconv.FormatFloat(f, 'g', -1, bits)
}

// Dump renders v.
func Dump(v any) *Tree {
	if v == nil {
		return Nil
	}
	return dump(reflect.ValueOf(v), 0)
}

func dump(v reflect.Value, depth int) *Tree {
	if depth > 64 {
		return &Tree{K: "string", S: "<too deep>"}
	}
	switch v.Kind() {
	case reflect.Invalid:
		return Nil
	case reflect.Ptr, reflect.Interface:
		if v.IsNil() {
			return Nil
		}
		t := dump(v.Elem(), depth+1)
		return t
	case reflect.Bool:
		return &Tree{K: "bool", B: v.Bool()}
	case reflect.Int, reflect.Int8, reflect.Int16, reflect.Int32, reflect.Int64:
		return &Tree{K: "int", I: v.Int()}
	case reflect.Uint, reflect.Uint8, reflect.Uint16, reflect.Uint32, reflect.Uint64:
		return &Tree{K: "uint", U: v.Uint()}
	case reflect.Float32:
		return &Tree{K: "float", F: FloatStr(v.Float(), 32)}
	case reflect.Float64:
		return &Tree{K: "float", F: FloatStr(v.Float(), 64)}
	case reflect.String:
		return &Tree{K: "string", S: v.String()}
	case reflect.Slice:
		if v.IsNil() {
			return Nil
		}
		if v.Type().Elem().Kind() == reflect.Uint8 {
			return &Tree{K: "bytes", S: hex.EncodeToString(v.Bytes())}
		}
		t := &Tree{K: "array", Elems: []*Tree{}}
		for i := 0; i < v.Len(); i++ {
			t.Elems = append(t.Elems, dump(v.Index(i), depth+1))
		}
		return t
	case reflect.Map:
		if v.IsNil() {
			return Nil
		}
		t := &Tree{K: "map", Keys: []*Tree{}, Elems: []*Tree{}}
		type kv struct{ k, v *Tree }
		var kvs []kv
		it := v.MapRange()
		for it.Next() {
			kvs = append(kvs, kv{dump(it.Key(), depth+1), dump(it.Value(), depth+1)})
		}
		sort.Slice(kvs, func(i, j int) bool { return keyRepr(kvs[i].k) < keyRepr(kvs[j].k) })
		for _, e := range kvs {
			t.Keys = append(t.Keys, e.k)
			t.Elems = append(t.Elems, e.v)
		}
		return t
	case reflect.Struct:
		t := &Tree{K: "struct", GoType: v.Type().Name(), Names: []string{}, Elems: []*Tree{}}
		for i := 0; i < v.NumField(); i++ {
			f := v.Type().Field(i)
			if f.PkgPath != "" { // unexported
				continue
			}
			t.Names = append(t.Names, f.Name)
			t.Elems = append(t.Elems, dump(v.Field(i), depth+1))
		}
		return t
	}
	return &Tree{K: "string", S: fmt.Sprintf("<%s>", v.Kind())}
}

func keyRepr(t *Tree) string {
	switch t.K {
	case "string":
		return "s" + t.S
	case "int":
		return fmt.Sprintf("i%020d", t.I+math.MaxInt64/2)
	case "uint":
		return fmt.Sprintf("u%020d", t.U)
	case "float":
		return "f" + t.F
	case "bool":
		return fmt.Sprintf("b%v", t.B)
	}
	return t.K
}

// Fill sets v (addressable) from the tree, allocating pointers, slices and maps.
// Struct fields are matched by Go field name; missing names are left zero.
func Fill(v reflect.Value, t *Tree) error {
	if t == nil || t.K == "nil" {
		v.Set(reflect.Zero(v.Type()))
		return nil
	}
	switch v.Kind() {
	case reflect.Ptr:
		p := reflect.New(v.Type().Elem())
		if err := Fill(p.Elem(), t); err != nil {
			return err
		}
		v.Set(p)
		return nil
	case reflect.Interface:
		x := natural(t)
		if x == nil {
			v.Set(reflect.Zero(v.Type()))
		} else {
			v.Set(reflect.ValueOf(x))
		}
		return nil
	case reflect.Bool:
		v.SetBool(t.B)
	case reflect.Int, reflect.Int8, reflect.Int16, reflect.Int32, reflect.Int64:
		switch t.K {
		case "int":
			v.SetInt(t.I)
		case "uint":
			v.SetInt(int64(t.U))
		case "float":
			f, _ := strconv.ParseFloat(t.F, 64)
			v.SetInt(int64(f))
		default:
			return fmt.Errorf("cannot fill %s from %s", v.Type(), t.K)
		}
	case reflect.Uint, reflect.Uint8, reflect.Uint16, reflect.Uint32, reflect.Uint64:
		switch t.K {
		case "uint":
			v.SetUint(t.U)
		case "int":
			v.SetUint(uint64(t.I))
		default:
			return fmt.Errorf("cannot fill %s from %s", v.Type(), t.K)
		}
	case reflect.Float32, reflect.Float64:
		switch t.K {
		case "float":
			f, err := strconv.ParseFloat(t.F, 64)
			if err != nil {
				return err
			}
			v.SetFloat(f)
		case "int":
			v.SetFloat(float64(t.I))
		case "uint":
			v.SetFloat(float64(t.U))
		default:
			return fmt.Errorf("cannot fill %s from %s", v.Type(), t.K)
		}
	case reflect.String:
		if t.K != "string" {
			return fmt.Errorf("cannot fill string from %s", t.K)
		}
		v.SetString(t.S)
	case reflect.Slice:
		if v.Type().Elem().Kind() == reflect.Uint8 && t.K == "bytes" {
			b, err := hex.DecodeString(t.S)
			if err != nil {
				return err
			}
			v.SetBytes(b)
			return nil
		}
		if t.K != "array" {
			return fmt.Errorf("cannot fill %s from %s", v.Type(), t.K)
		}
		s := reflect.MakeSlice(v.Type(), len(t.Elems), len(t.Elems))
		for i, e := range t.Elems {
			if err := Fill(s.Index(i), e); err != nil {
				return err
			}
		}
		v.Set(s)
	case reflect.Map:
		if t.K != "map" {
			return fmt.Errorf("cannot fill %s from %s", v.Type(), t.K)
		}
		m := reflect.MakeMapWithSize(v.Type(), len(t.Keys))
		for i := range t.Keys {
			k := reflect.New(v.Type().Key()).Elem()
			if err := Fill(k, t.Keys[i]); err != nil {
				return err
			}
			e := reflect.New(v.Type().Elem()).Elem()
			if err := Fill(e, t.Elems[i]); err != nil {
				return err
			}
			m.SetMapIndex(k, e)
		}
		v.Set(m)
	case reflect.Struct:
		if t.K != "struct" {
			return fmt.Errorf("cannot fill %s from %s", v.Type(), t.K)
		}
		for i, n := range t.Names {
			f := v.FieldByName(n)
			if !f.IsValid() {
				return fmt.Errorf("type %s has no field %s", v.Type(), n)
			}
			if err := Fill(f, t.Elems[i]); err != nil {
				return fmt.Errorf("%s.%s: %w", v.Type().Name(), n, err)
			}
		}
	default:
		return fmt.Errorf("cannot fill kind %s", v.Kind())
	}
	return nil
}

// natural converts a tree into the plain Go value used for `any` typed attributes.
func natural(t *Tree) any {
	switch t.K {
	case "nil":
		return nil
	case "bool":
		return t.B
	case "int":
		return int(t.I)
	case "uint":
		return uint(t.U)
	case "float":
		f, _ := strconv.ParseFloat(t.F, 64)
		return f
	case "string":
		return t.S
	case "bytes":
		b, _ := hex.DecodeString(t.S)
		return b
	case "array":
		out := make([]any, len(t.Elems))
		for i, e := range t.Elems {
			out[i] = natural(e)
		}
		return out
	case "map":
		out := map[string]any{}
		for i, k := range t.Keys {
			out[fmt.Sprint(natural(k))] = natural(t.Elems[i])
		}
		return out
	case "struct":
		out := map[string]any{}
		for i, n := range t.Names {
			out[n] = natural(t.Elems[i])
		}
		return out
	}
	return nil
}
