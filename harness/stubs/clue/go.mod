module goa.design/clue

go 1.22.0

require goa.design/goa/v3 v3.0.0
