// Package log is a stand-in for goa.design/clue/log (absent from the offline module
// cache): the symbols the code written by `goa example` refers to, with the
// signatures of the real package, so that example packages can be type-checked.
package log

import (
	"context"
	"fmt"
	"net/http"
	"os"

	goa "goa.design/goa/v3/pkg"
)

type (
	// KV is a key/value pair.
	KV struct {
		K string
		V any
	}
	// Fielder is implemented by values that log fields.
	Fielder interface{ LogFields() []KV }
	// Fields is a map of fields.
	Fields map[string]any
	// Entry is a log entry.
	Entry struct {
		Severity string
		KeyVals  []KV
	}
	// FormatFunc formats an entry.
	FormatFunc func(e *Entry) []byte
	options    struct {
		format FormatFunc
		debug  bool
	}
	// LogOption configures a logging context.
	LogOption func(*options)
	// HTTPLogOption configures the HTTP middleware.
	HTTPLogOption func(*httpOptions)
	httpOptions   struct{}
	ctxKey        int
)

func (kv KV) LogFields() []KV { return []KV{kv} }

func (f Fields) LogFields() []KV {
	out := make([]KV, 0, len(f))
	for k, v := range f {
		out = append(out, KV{k, v})
	}
	return out
}

func FormatJSON(e *Entry) []byte     { return []byte(fmt.Sprint(e.KeyVals)) }
func FormatText(e *Entry) []byte     { return []byte(fmt.Sprint(e.KeyVals)) }
func FormatTerminal(e *Entry) []byte { return []byte(fmt.Sprint(e.KeyVals)) }

func IsTerminal() bool { return false }

func WithFormat(f FormatFunc) LogOption { return func(o *options) { o.format = f } }
func WithDebug() LogOption              { return func(o *options) { o.debug = true } }

func Context(ctx context.Context, opts ...LogOption) context.Context {
	o := &options{}
	for _, f := range opts {
		f(o)
	}
	return context.WithValue(ctx, ctxKey(0), o)
}

func Debug(ctx context.Context, keyvals ...Fielder)                  {}
func Debugf(ctx context.Context, format string, v ...any)            {}
func Print(ctx context.Context, keyvals ...Fielder)                  {}
func Printf(ctx context.Context, format string, v ...any)            {}
func Info(ctx context.Context, keyvals ...Fielder)                   {}
func Infof(ctx context.Context, format string, v ...any)             {}
func Error(ctx context.Context, err error, keyvals ...Fielder)       {}
func Errorf(ctx context.Context, err error, format string, v ...any) {}
func Fatal(ctx context.Context, err error, keyvals ...Fielder)       { os.Exit(1) }
func Fatalf(ctx context.Context, err error, format string, v ...any) { os.Exit(1) }

// Endpoint is a goa endpoint middleware.
func Endpoint(e goa.Endpoint) goa.Endpoint { return e }

// HTTP returns an HTTP middleware.
func HTTP(logCtx context.Context, opts ...HTTPLogOption) func(http.Handler) http.Handler {
	return func(h http.Handler) http.Handler { return h }
}
