// Package debug is a stand-in for goa.design/clue/debug (see ../log).
package debug

import (
	"net/http"

	goahttp "goa.design/goa/v3/http"
	goa "goa.design/goa/v3/pkg"
)

type (
	// Muxer is the HTTP mux interface used by the debug package.
	Muxer interface {
		http.Handler
		Handle(pattern string, handler http.Handler)
		HandleFunc(pattern string, handler func(http.ResponseWriter, *http.Request))
	}
	// LogPayloadsOption configures LogPayloads.
	LogPayloadsOption func(*struct{})
	// PprofOption configures MountPprofHandlers.
	PprofOption func(*struct{})
	// DebugLogEnablerOption configures MountDebugLogEnabler.
	DebugLogEnablerOption func(*struct{})
	muxAdapter            struct{ goahttp.Muxer }
)

func (m muxAdapter) Handle(pattern string, handler http.Handler) {
	m.Muxer.Handle("GET", pattern, handler.ServeHTTP)
}

func (m muxAdapter) HandleFunc(pattern string, handler func(http.ResponseWriter, *http.Request)) {
	m.Muxer.Handle("GET", pattern, handler)
}

// Adapt adapts a goa muxer.
func Adapt(m goahttp.Muxer) Muxer { return muxAdapter{m} }

func LogPayloads(opts ...LogPayloadsOption) func(goa.Endpoint) goa.Endpoint {
	return func(e goa.Endpoint) goa.Endpoint { return e }
}

func MountPprofHandlers(mux Muxer, opts ...PprofOption)             {}
func MountDebugLogEnabler(mux Muxer, opts ...DebugLogEnablerOption) {}

func HTTP() func(http.Handler) http.Handler {
	return func(h http.Handler) http.Handler { return h }
}
