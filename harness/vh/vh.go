// Package vh holds the pieces every harness command shares: the splitmix64
// generator all random choices derive from, printers for Coq terms, and the
// result file format read by bin/check.
package vh

import (
	"encoding/json"
	"fmt"
	"os"
	"sort"
	"strings"
)

// RNG is splitmix64; every random choice of a run derives from one state seeded
// by VERIF_SEED so that a disagreement replays exactly.
type RNG struct{ s uint64 }

func NewRNG(seed uint64) *RNG { return &RNG{s: seed*0x9E3779B97F4A7C15 + 0x1234567} }

func (r *RNG) Next() uint64 {
	r.s += 0x9E3779B97F4A7C15
	z := r.s
	z = (z ^ (z >> 30)) * 0xBF58476D1CE4E5B9
	z = (z ^ (z >> 27)) * 0x94D049BB133111EB
	return z ^ (z >> 31)
}

// Intn returns a value in [0,n).
func (r *RNG) Intn(n int) int {
	if n <= 0 {
		return 0
	}
	return int(r.Next() % uint64(n))
}

func (r *RNG) Bool() bool { return r.Next()&1 == 1 }

// Chance returns true with probability num/den.
func (r *RNG) Chance(num, den int) bool { return r.Intn(den) < num }

// Pick returns one element of xs.
func Pick[T any](r *RNG, xs []T) T { return xs[r.Intn(len(xs))] }

// Fork derives an independent generator (for sub-streams).
func (r *RNG) Fork() *RNG { return &RNG{s: r.Next()} }

// ---- Coq term printers ----

// CoqString prints s as a Coq string literal; s must be printable ASCII (use
// CoqBytes for arbitrary bytes).
func CoqString(s string) string {
	for i := 0; i < len(s); i++ {
		if s[i] < 0x20 || s[i] > 0x7e {
			panic(fmt.Sprintf("CoqString: non printable byte in %q", s))
		}
	}
	return `"` + strings.ReplaceAll(s, `"`, `""`) + `"`
}

// CoqBytes prints s as a list of N byte values: [104; 105]%N
func CoqBytes(s string) string {
	if len(s) == 0 {
		return "[]"
	}
	var b strings.Builder
	b.WriteString("[")
	for i := 0; i < len(s); i++ {
		if i > 0 {
			b.WriteString(";")
		}
		fmt.Fprintf(&b, "%d", s[i])
	}
	b.WriteString("]")
	return b.String()
}

func CoqBool(b bool) string {
	if b {
		return "true"
	}
	return "false"
}

func CoqOpt(p *string, f func(string) string) string {
	if p == nil {
		return "None"
	}
	return "(Some " + f(*p) + ")"
}

func CoqList(items []string) string { return "[" + strings.Join(items, "; ") + "]" }

func CoqNatList(xs []int) string {
	ss := make([]string, len(xs))
	for i, x := range xs {
		ss[i] = fmt.Sprint(x)
	}
	return CoqList(ss)
}

// ---- result file ----

// Failure is one concrete input on which the property itself fails on the
// implementation (found by the direct oracle, independent of the model).
type Failure struct {
	Signature string `json:"signature"`
	What      string `json:"what"`
	Input     any    `json:"input"`
}

// Result is what a harness command hands back to bin/check.
type Result struct {
	Evaluations int            `json:"evaluations"`
	Distinct    int            `json:"distinct_nontrivial"`
	Rule        string         `json:"rule"`
	Samples     []any          `json:"samples"`
	Dist        map[string]int `json:"distribution"`
	Failures    []Failure      `json:"failures"`
	Extra       map[string]any `json:"extra,omitempty"`
	// Cases maps the case index used in cases.v to a replayable description.
	Cases []any `json:"cases,omitempty"`

	sigCount map[string]int
}

func NewResult() *Result {
	return &Result{Dist: map[string]int{}, Extra: map[string]any{}, Failures: []Failure{}, Samples: []any{}, Cases: []any{}}
}

func (r *Result) Count(k string) { r.Dist[k]++ }

func (r *Result) Fail(sig, what string, input any) {
	// Keep a few failures per signature and never let one class crowd another out:
	// a new signature is always recorded (up to a generous global cap).
	if r.sigCount == nil {
		r.sigCount = map[string]int{}
	}
	r.sigCount[sig]++
	r.Dist["failures_total"]++
	if r.sigCount[sig] > 6 {
		r.Dist["failures_over_6_per_signature_not_stored"]++
		return
	}
	if len(r.Failures) < 3000 {
		r.Failures = append(r.Failures, Failure{sig, what, input})
	} else {
		r.Dist["failures_dropped_over_3000"]++
	}
}

func (r *Result) Sample(x any, max int) {
	if len(r.Samples) < max {
		r.Samples = append(r.Samples, x)
	}
}

func (r *Result) Write(path string) error {
	b, err := json.MarshalIndent(r, "", " ")
	if err != nil {
		return err
	}
	return os.WriteFile(path, b, 0o644)
}

// Distinct counts distinct keys.
type Distinct map[string]struct{}

func (d Distinct) Add(k string) { d[k] = struct{}{} }

func SortedKeys[V any](m map[string]V) []string {
	ks := make([]string, 0, len(m))
	for k := range m {
		ks = append(ks, k)
	}
	sort.Strings(ks)
	return ks
}
