package designgen

import (
	"encoding/hex"
	"fmt"
	"math"
	"strings"

	"goa.design/goa/v3/codegen"

	"verifharness/tierb/rt"
	"verifharness/vh"
)

// Val is a value in *attribute-name space* (what the design talks about), as opposed
// to rt.Tree which is in Go-field-name space (what generated code holds).
type Val struct {
	K     string   `json:"k"` // null bool int uint float string bytes array map object
	B     bool     `json:"b,omitempty"`
	I     int64    `json:"i,omitempty"`
	U     uint64   `json:"u,omitempty"`
	F     float64  `json:"f,omitempty"`
	S     string   `json:"s,omitempty"`
	Elems []*Val   `json:"elems,omitempty"`
	Keys  []*Val   `json:"keys,omitempty"`
	Names []string `json:"names,omitempty"`
}

var Null = &Val{K: "null"}

// UserType looks a user type up by name.
func (d *Design) UserType(name string) *UserType {
	for _, ut := range d.Types {
		if ut.Name == name {
			return ut
		}
	}
	return nil
}

// Base resolves user-type references down to the underlying structural type, and
// returns the validations accumulated from alias types on the way.
func (d *Design) Base(t *Type) (*Type, []*Validation) {
	var vs []*Validation
	for i := 0; i < 16 && t.Kind == "user"; i++ {
		ut := d.UserType(t.Ref)
		if ut == nil {
			return t, vs
		}
		if ut.V != nil {
			vs = append(vs, ut.V)
		}
		t = &ut.Base
	}
	return t, vs
}

// AllFields returns the fields of an object type including those inherited via Extend.
func (d *Design) AllFields(t *Type) []*Field {
	if t.Kind == "user" {
		ut := d.UserType(t.Ref)
		if ut == nil {
			return nil
		}
		var fs []*Field
		if ut.Extend != "" {
			fs = append(fs, d.AllFields(&Type{Kind: "user", Ref: ut.Extend})...)
		}
		return append(fs, ut.Base.Attrs...)
	}
	return t.Attrs
}

// ValOpts steers value generation.
type ValOpts struct {
	Depth      int
	SafeString bool // strings from a transport-safe alphabet (non-empty, no edge spaces, no separators)
	NoEmpty    bool // no empty collections / strings
	AllFields  bool // set every optional field
	NoOptional bool // leave every optional field unset
	// KeepLosses lets the generator produce values in the recorded loss classes
	// (witness streams): an unset optional collection that carries a minimum length
	// (rejected by the server: finding C04/absent-collection-minlen) and a defaulted
	// attribute holding its zero value (replaced by the default: finding default-overrides-zero).
	KeepLosses bool
}

var safeWords = []string{"abc", "x1", "Hello", "v-2_3", "Zed.q", "tok~en"}
var hostileWords = []string{"a b", "100%", "a/b", "%41", "x+y", "é→", "q?k=v&z", "semi;colon", "c,d", "\"quoted\"", "tab\tin", "ünï", "", " lead", "trail ", "a%2Fb", " nbsp"}

var formatSamples = map[string][]string{
	"date":      {"2020-02-29", "1999-12-31"},
	"date-time": {"2020-02-29T10:11:12Z", "1999-12-31T23:59:59+01:00"},
	"uuid":      {"6ba7b810-9dad-11d1-80b4-00c04fd430c8"},
	"email":     {"a@b.co", "first.last@example.org"},
	"hostname":  {"example.com", "a-b.c-d.org"},
	"ipv4":      {"10.0.0.1", "192.168.1.254"},
	"ipv6":      {"::1", "2001:db8::ff00:42:8329"},
	"ip":        {"10.0.0.1", "::1"},
	"uri":       {"http://example.com/a?b=c", "urn:isbn:0451450523"},
	"mac":       {"00:00:5e:00:53:01"},
	"cidr":      {"10.0.0.0/8", "2001:db8::/32"},
	"regexp":    {"^a+b*$", "[0-9]{2}"},
	"json":      {`{"a":1}`, `[1,2]`},
	"rfc1123":   {"Mon, 02 Jan 2006 15:04:05 MST"},
}
var patternSamples = map[string][]string{
	"^[a-z]+$":     {"abc", "z"},
	"^[0-9]{2,4}$": {"12", "1234"},
	"a.c":          {"abc", "xa-cx"},
	"^x":           {"x", "xyz"},
}
var formatBad = map[string]string{
	"date": "2020-13-01", "date-time": "2020-02-29 10:11", "uuid": "6ba7b810-9dad-11d1-80b4-00c04fd430cZ", "email": "not an email",
	"hostname": "bad host!", "ipv4": "300.1.1.1", "ipv6": "10.0.0.1", "ip": "not.an.ip", "uri": "::", "mac": "00:00:5e:00:53",
	"cidr": "10.0.0.0/99", "regexp": "a(", "json": "{", "rfc1123": "yesterday",
}
var patternBad = map[string]string{"^[a-z]+$": "ab1", "^[0-9]{2,4}$": "1", "a.c": "ac", "^x": "ax"}

func merged(vs []*Validation, own *Validation) *Validation {
	m := &Validation{}
	for _, v := range append(append([]*Validation{}, vs...), own) {
		if v == nil {
			continue
		}
		if len(v.Enum) > 0 {
			m.Enum = v.Enum
		}
		if v.Format != "" {
			m.Format = v.Format
		}
		if v.Pattern != "" {
			m.Pattern = v.Pattern
		}
		if v.Min != nil {
			m.Min = v.Min
		}
		if v.Max != nil {
			m.Max = v.Max
		}
		if v.ExclMin != nil {
			m.ExclMin = v.ExclMin
		}
		if v.ExclMax != nil {
			m.ExclMax = v.ExclMax
		}
		if v.MinLen != nil {
			m.MinLen = v.MinLen
		}
		if v.MaxLen != nil {
			m.MaxLen = v.MaxLen
		}
	}
	return m
}

func fitLen(s string, v *Validation) string {
	rs := []rune(s)
	if v.MinLen != nil {
		for len(rs) < *v.MinLen {
			rs = append(rs, 'k')
		}
	}
	if v.MaxLen != nil && len(rs) > *v.MaxLen {
		rs = rs[:*v.MaxLen]
	}
	return string(rs)
}

// numRange returns an inclusive integer-ish range satisfying the validation.
func numRange(v *Validation, isFloat bool) (lo, hi float64) {
	lo, hi = -50, 1000
	step := 1.0
	if isFloat {
		step = 0.5
	}
	if v.Min != nil {
		lo = *v.Min
	}
	if v.ExclMin != nil {
		lo = *v.ExclMin + step
	}
	if v.Max != nil {
		hi = *v.Max
	}
	if v.ExclMax != nil {
		hi = *v.ExclMax - step
	}
	if hi < lo {
		hi = lo
	}
	return
}

// GenVal draws a value of the attribute's type that satisfies its validations.
func (d *Design) GenVal(r *vh.RNG, a *Attr, o ValOpts) *Val {
	bt, vs := d.Base(&a.T)
	v := merged(vs, a.V)
	switch bt.Kind {
	case "prim":
		switch bt.Prim {
		case "Boolean":
			return &Val{K: "bool", B: r.Bool()}
		case "Int", "Int32", "Int64":
			if len(v.Enum) > 0 {
				return &Val{K: "int", I: toI64(vh.Pick(r, v.Enum))}
			}
			lo, hi := numRange(v, false)
			if bt.Prim == "Int64" && v.Min == nil && v.Max == nil && v.ExclMin == nil && v.ExclMax == nil && r.Chance(1, 4) {
				return &Val{K: "int", I: vh.Pick(r, []int64{math.MaxInt64, math.MinInt64, -1, 0})}
			}
			if bt.Prim == "Int32" && v.Min == nil && v.Max == nil && v.ExclMin == nil && v.ExclMax == nil && r.Chance(1, 4) {
				return &Val{K: "int", I: vh.Pick(r, []int64{math.MaxInt32, math.MinInt32, -1, 0})}
			}
			return &Val{K: "int", I: int64(lo) + int64(r.Intn(int(hi-lo)+1))}
		case "UInt", "UInt32", "UInt64":
			if len(v.Enum) > 0 {
				return &Val{K: "uint", U: uint64(toI64(vh.Pick(r, v.Enum)))}
			}
			lo, hi := numRange(v, false)
			if lo < 0 {
				lo = 0
			}
			if hi < lo {
				hi = lo
			}
			if bt.Prim == "UInt64" && v.Max == nil && v.ExclMax == nil && r.Chance(1, 4) {
				return &Val{K: "uint", U: math.MaxUint64}
			}
			return &Val{K: "uint", U: uint64(lo) + uint64(r.Intn(int(hi-lo)+1))}
		case "Float32", "Float64":
			lo, hi := numRange(v, true)
			n := int((hi-lo)*2) + 1
			return &Val{K: "float", F: lo + float64(r.Intn(n))*0.5}
		case "String":
			switch {
			case len(v.Enum) > 0:
				return &Val{K: "string", S: fmt.Sprint(vh.Pick(r, v.Enum))}
			case v.Format != "":
				return &Val{K: "string", S: vh.Pick(r, formatSamples[v.Format])}
			case v.Pattern != "":
				if ss, ok := patternSamples[v.Pattern]; ok {
					return &Val{K: "string", S: vh.Pick(r, ss)}
				}
				return &Val{K: "string", S: "x"}
			}
			s := vh.Pick(r, safeWords)
			if !o.SafeString && r.Chance(1, 2) {
				s = vh.Pick(r, hostileWords)
				if o.NoEmpty && s == "" {
					s = "ne"
				}
			}
			return &Val{K: "string", S: fitLen(s, v)}
		case "Bytes":
			n := 1 + r.Intn(4)
			if v.MinLen != nil && n < *v.MinLen {
				n = *v.MinLen
			}
			if v.MaxLen != nil && n > *v.MaxLen {
				n = *v.MaxLen
			}
			b := make([]byte, n)
			for i := range b {
				b[i] = byte(r.Intn(256))
			}
			return &Val{K: "bytes", S: hex.EncodeToString(b)}
		case "Any":
			return &Val{K: "string", S: vh.Pick(r, safeWords)}
		}
	case "array":
		n := r.Intn(4)
		if o.NoEmpty && n == 0 {
			n = 1
		}
		if v.MinLen != nil && n < *v.MinLen {
			n = *v.MinLen
		}
		if v.MaxLen != nil && n > *v.MaxLen {
			n = *v.MaxLen
		}
		out := &Val{K: "array", Elems: []*Val{}}
		for i := 0; i < n; i++ {
			out.Elems = append(out.Elems, d.GenVal(r, bt.Elem, ValOpts{Depth: o.Depth + 1, SafeString: o.SafeString, NoEmpty: o.NoEmpty}))
		}
		return out
	case "collection":
		n := 1 + r.Intn(2)
		out := &Val{K: "array", Elems: []*Val{}}
		for i := 0; i < n; i++ {
			out.Elems = append(out.Elems, d.GenVal(r, &Attr{T: Type{Kind: "user", Ref: bt.Ref}}, ValOpts{Depth: o.Depth + 1, SafeString: o.SafeString, NoEmpty: o.NoEmpty}))
		}
		return out
	case "map":
		n := r.Intn(3)
		if o.NoEmpty && n == 0 {
			n = 1
		}
		if v.MinLen != nil && n < *v.MinLen {
			n = *v.MinLen
		}
		if v.MaxLen != nil && n > *v.MaxLen {
			n = *v.MaxLen
		}
		out := &Val{K: "map", Keys: []*Val{}, Elems: []*Val{}}
		seen := map[string]bool{}
		for tries := 0; len(out.Keys) < n && tries < 20; tries++ {
			k := d.GenVal(r, bt.Key, ValOpts{SafeString: true, NoEmpty: true})
			ks := fmt.Sprintf("%v|%v|%v|%v", k.S, k.I, k.U, k.F)
			if seen[ks] {
				continue
			}
			seen[ks] = true
			out.Keys = append(out.Keys, k)
			out.Elems = append(out.Elems, d.GenVal(r, bt.Elem, ValOpts{Depth: o.Depth + 1, SafeString: o.SafeString, NoEmpty: o.NoEmpty}))
		}
		return out
	case "object":
		out := &Val{K: "object", Names: []string{}, Elems: []*Val{}}
		for _, f := range d.AllFields(&a.T) {
			set := f.Required || o.AllFields || (!o.NoOptional && r.Chance(2, 3))
			if o.Depth >= 3 && !f.Required {
				set = false
			}
			if !o.KeepLosses && !set {
				// stay outside the absent-collection-minlen loss class
				fbt, fvs := d.Base(&f.A.T)
				if mv := merged(fvs, f.A.V); (fbt.Kind == "array" || fbt.Kind == "map") && mv.MinLen != nil && *mv.MinLen > 0 {
					set = true
				}
			}
			if !set {
				continue
			}
			fv := d.GenVal(r, &f.A, ValOpts{Depth: o.Depth + 1, SafeString: o.SafeString, NoEmpty: o.NoEmpty, AllFields: o.AllFields, NoOptional: o.NoOptional, KeepLosses: o.KeepLosses})
			if !o.KeepLosses && f.A.HasDef && isZeroVal(fv) {
				continue // leave unset: the default is what arrives either way
			}
			out.Names = append(out.Names, f.Name)
			out.Elems = append(out.Elems, fv)
		}
		return out
	}
	return Null
}

func isZeroVal(v *Val) bool {
	switch v.K {
	case "bool":
		return !v.B
	case "int":
		return v.I == 0
	case "uint":
		return v.U == 0
	case "float":
		return v.F == 0
	case "string":
		return v.S == ""
	}
	return false
}

func toI64(x any) int64 {
	switch v := x.(type) {
	case int:
		return int64(v)
	case int64:
		return v
	case float64:
		return int64(v)
	}
	return 0
}

// Get returns the named field of an object value (nil when unset).
func (v *Val) Get(name string) *Val {
	if v == nil {
		return nil
	}
	for i, n := range v.Names {
		if n == name {
			return v.Elems[i]
		}
	}
	return nil
}

// Set sets / replaces a field of an object value.
func (v *Val) Set(name string, x *Val) {
	for i, n := range v.Names {
		if n == name {
			v.Elems[i] = x
			return
		}
	}
	v.Names = append(v.Names, name)
	v.Elems = append(v.Elems, x)
}

// Unset removes a field.
func (v *Val) Unset(name string) {
	for i, n := range v.Names {
		if n == name {
			v.Names = append(v.Names[:i:i], v.Names[i+1:]...)
			v.Elems = append(v.Elems[:i:i], v.Elems[i+1:]...)
			return
		}
	}
}

// CloneVal deep-copies.
func (v *Val) Clone() *Val {
	if v == nil {
		return nil
	}
	c := *v
	c.Elems, c.Keys, c.Names = nil, nil, append([]string(nil), v.Names...)
	for _, e := range v.Elems {
		c.Elems = append(c.Elems, e.Clone())
	}
	for _, e := range v.Keys {
		c.Keys = append(c.Keys, e.Clone())
	}
	return &c
}

// GoField is the Go struct field name goa gives an attribute.
func GoField(name string) string { return codegen.Goify(name, true) }

// ToTree converts an attribute-space value into the Go-space tree used to fill
// generated structs.
func (d *Design) ToTree(t *Type, v *Val) *rt.Tree {
	if v == nil || v.K == "null" {
		return rt.Nil
	}
	switch v.K {
	case "bool":
		return &rt.Tree{K: "bool", B: v.B}
	case "int":
		return &rt.Tree{K: "int", I: v.I}
	case "uint":
		return &rt.Tree{K: "uint", U: v.U}
	case "float":
		return &rt.Tree{K: "float", F: rt.FloatStr(v.F, 64)}
	case "string":
		return &rt.Tree{K: "string", S: v.S}
	case "bytes":
		return &rt.Tree{K: "bytes", S: v.S}
	case "array":
		bt, _ := d.Base(t)
		out := &rt.Tree{K: "array", Elems: []*rt.Tree{}}
		var et *Type
		if bt.Kind == "collection" {
			et = &Type{Kind: "user", Ref: bt.Ref}
		} else if bt.Elem != nil {
			et = &bt.Elem.T
		}
		for _, e := range v.Elems {
			out.Elems = append(out.Elems, d.ToTree(et, e))
		}
		return out
	case "map":
		bt, _ := d.Base(t)
		out := &rt.Tree{K: "map", Keys: []*rt.Tree{}, Elems: []*rt.Tree{}}
		for i := range v.Keys {
			out.Keys = append(out.Keys, d.ToTree(&bt.Key.T, v.Keys[i]))
			out.Elems = append(out.Elems, d.ToTree(&bt.Elem.T, v.Elems[i]))
		}
		return out
	case "object":
		out := &rt.Tree{K: "struct", Names: []string{}, Elems: []*rt.Tree{}}
		fs := d.AllFields(t)
		for i, n := range v.Names {
			var ft *Type
			for _, f := range fs {
				if f.Name == n {
					ft = &f.A.T
				}
			}
			if ft == nil {
				ft = &Type{Kind: "prim", Prim: "String"}
			}
			out.Names = append(out.Names, GoField(n))
			out.Elems = append(out.Elems, d.ToTree(ft, v.Elems[i]))
		}
		return out
	}
	return rt.Nil
}

// FromTree converts a dump of a generated value back into attribute space, guided by
// the design type. Unset (nil) fields are omitted; a non-pointer zero value is kept.
func (d *Design) FromTree(t *Type, tr *rt.Tree) *Val {
	if tr == nil || tr.K == "nil" {
		return Null
	}
	switch tr.K {
	case "bool":
		return &Val{K: "bool", B: tr.B}
	case "int":
		return &Val{K: "int", I: tr.I}
	case "uint":
		return &Val{K: "uint", U: tr.U}
	case "float":
		var f float64
		fmt.Sscanf(tr.F, "%g", &f)
		return &Val{K: "float", F: f}
	case "string":
		return &Val{K: "string", S: tr.S}
	case "bytes":
		return &Val{K: "bytes", S: tr.S}
	case "array":
		bt, _ := d.Base(t)
		var et *Type
		if bt.Kind == "collection" {
			et = &Type{Kind: "user", Ref: bt.Ref}
		} else if bt.Elem != nil {
			et = &bt.Elem.T
		}
		out := &Val{K: "array", Elems: []*Val{}}
		for _, e := range tr.Elems {
			out.Elems = append(out.Elems, d.FromTree(et, e))
		}
		return out
	case "map":
		bt, _ := d.Base(t)
		out := &Val{K: "map", Keys: []*Val{}, Elems: []*Val{}}
		for i := range tr.Keys {
			var kt, et *Type
			if bt.Key != nil {
				kt, et = &bt.Key.T, &bt.Elem.T
			}
			out.Keys = append(out.Keys, d.FromTree(kt, tr.Keys[i]))
			out.Elems = append(out.Elems, d.FromTree(et, tr.Elems[i]))
		}
		return out
	case "struct":
		out := &Val{K: "object", Names: []string{}, Elems: []*Val{}}
		var fs []*Field
		if t != nil {
			fs = d.AllFields(t)
		}
		for i, gn := range tr.Names {
			if tr.Elems[i].K == "nil" {
				continue
			}
			name := gn
			var ft *Type
			for _, f := range fs {
				if GoField(f.Name) == gn {
					name, ft = f.Name, &f.A.T
				}
			}
			out.Names = append(out.Names, name)
			out.Elems = append(out.Elems, d.FromTree(ft, tr.Elems[i]))
		}
		return out
	}
	return Null
}

// Equal compares two attribute-space values (object fields as sets, maps as sets).
func (v *Val) Equal(w *Val) bool {
	if v == nil {
		v = Null
	}
	if w == nil {
		w = Null
	}
	if v.K != w.K {
		// ints and uints holding the same number are equal
		if v.K == "int" && w.K == "uint" {
			return v.I >= 0 && uint64(v.I) == w.U
		}
		if v.K == "uint" && w.K == "int" {
			return w.I >= 0 && uint64(w.I) == v.U
		}
		return false
	}
	switch v.K {
	case "null":
		return true
	case "bool":
		return v.B == w.B
	case "int":
		return v.I == w.I
	case "uint":
		return v.U == w.U
	case "float":
		return v.F == w.F
	case "string", "bytes":
		return v.S == w.S
	case "array":
		if len(v.Elems) != len(w.Elems) {
			return false
		}
		for i := range v.Elems {
			if !v.Elems[i].Equal(w.Elems[i]) {
				return false
			}
		}
		return true
	case "map":
		if len(v.Keys) != len(w.Keys) {
			return false
		}
		for i := range v.Keys {
			found := false
			for j := range w.Keys {
				if v.Keys[i].Equal(w.Keys[j]) && v.Elems[i].Equal(w.Elems[j]) {
					found = true
				}
			}
			if !found {
				return false
			}
		}
		return true
	case "object":
		if len(v.Names) != len(w.Names) {
			return false
		}
		for i, n := range v.Names {
			if !v.Elems[i].Equal(w.Get(n)) || w.Get(n) == nil {
				return false
			}
		}
		return true
	}
	return false
}

// String renders a value compactly (diagnostics).
func (v *Val) String() string {
	if v == nil {
		return "null"
	}
	switch v.K {
	case "null":
		return "null"
	case "bool":
		return fmt.Sprint(v.B)
	case "int":
		return fmt.Sprint(v.I)
	case "uint":
		return fmt.Sprint(v.U)
	case "float":
		return rt.FloatStr(v.F, 64)
	case "string":
		return fmt.Sprintf("%q", v.S)
	case "bytes":
		return "0x" + v.S
	case "array":
		var ss []string
		for _, e := range v.Elems {
			ss = append(ss, e.String())
		}
		return "[" + strings.Join(ss, ",") + "]"
	case "map":
		var ss []string
		for i := range v.Keys {
			ss = append(ss, v.Keys[i].String()+":"+v.Elems[i].String())
		}
		return "map{" + strings.Join(ss, ",") + "}"
	case "object":
		var ss []string
		for i, n := range v.Names {
			ss = append(ss, n+":"+v.Elems[i].String())
		}
		return "{" + strings.Join(ss, ",") + "}"
	}
	return "?"
}
