package designgen

import (
	"fmt"
	"os"
	"path/filepath"
	"runtime/debug"

	"goa.design/goa/v3/codegen/generator"
	"goa.design/goa/v3/codegen/service"
	dsl "goa.design/goa/v3/dsl"
	"goa.design/goa/v3/eval"
	"goa.design/goa/v3/expr"
	grpccodegen "goa.design/goa/v3/grpc/codegen"
	httpcodegen "goa.design/goa/v3/http/codegen"
	"goa.design/goa/v3/http/codegen/openapi"
)

// ResetGoa puts goa's package-level state back to a fresh process: evaluation
// context, design roots and the codegen caches keyed by service name.
func ResetGoa() {
	eval.Reset()
	expr.Root = new(expr.RootExpr)
	expr.GeneratedResultTypes = new(expr.ResultTypesRoot)
	if err := eval.Register(expr.Root); err != nil {
		panic(err)
	}
	if err := eval.Register(expr.GeneratedResultTypes); err != nil {
		panic(err)
	}
	service.Services = make(service.ServicesData)
	httpcodegen.HTTPServices = make(httpcodegen.ServicesData)
	grpccodegen.GRPCServices = make(grpccodegen.ServicesData)
	// the OpenAPI v2 builder accumulates definitions in a package-level map it never clears
	openapi.Definitions = make(map[string]*openapi.Schema)
}

// Outcome of evaluating a design through the DSL.
type Outcome struct {
	Accepted bool
	Err      error  // DSL / validation errors
	Panic    string // recovered panic (with stack) if any
}

// Eval builds the design by calling goa's public DSL functions and runs the
// evaluation engine. On success expr.Root holds the finalized design.
func (d *Design) Eval() (out Outcome) {
	defer func() {
		if r := recover(); r != nil {
			out = Outcome{Panic: fmt.Sprintf("%v\n%s", r, debug.Stack())}
		}
	}()
	ResetGoa()
	in := &interp{d: d, types: map[string]expr.UserType{}}
	if !eval.Execute(in.top, nil) {
		return Outcome{Err: eval.Context.Errors}
	}
	if err := eval.RunDSL(); err != nil {
		return Outcome{Err: err}
	}
	return Outcome{Accepted: true}
}

// Generate runs goa's generators ("gen" or "example") for the design currently
// held by expr.Root into dir (which must be inside a Go module). Panics are
// recovered and returned as errors with ok=false.
func Generate(dir, cmd string) (files []string, err error, panicked string) {
	defer func() {
		if r := recover(); r != nil {
			panicked = fmt.Sprintf("%v\n%s", r, debug.Stack())
		}
	}()
	// goa derives the import path of the gen package by running `go list` from the
	// current directory: be inside the target module, as the goa tool is.
	if cwd, e := os.Getwd(); e == nil {
		defer os.Chdir(cwd) // nolint: errcheck
	}
	if e := os.Chdir(dir); e != nil {
		return nil, e, ""
	}
	files, err = generator.Generate(dir, cmd)
	return
}

// WriteModule writes a go.mod in dir for module name mod with goa (and optionally
// the harness module) replaced by local paths.
func WriteModule(dir, mod, repo, harness string) error {
	if err := os.MkdirAll(dir, 0o755); err != nil {
		return err
	}
	s := "module " + mod + "\n\ngo 1.22.0\n\nrequire goa.design/goa/v3 v3.0.0\n\nreplace goa.design/goa/v3 => " + repo + "\n"
	if harness != "" {
		s += "\nrequire verifharness v0.0.0\n\nreplace verifharness => " + harness + "\n"
	}
	if err := os.WriteFile(filepath.Join(dir, "go.mod"), []byte(s), 0o644); err != nil {
		return err
	}
	sum, err := os.ReadFile(filepath.Join(repo, "go.sum"))
	if err == nil {
		err = os.WriteFile(filepath.Join(dir, "go.sum"), sum, 0o644)
	}
	return err
}

type interp struct {
	d     *Design
	types map[string]expr.UserType
}

var prims = map[string]expr.DataType{
	"Boolean": expr.Boolean, "Int": expr.Int, "Int32": expr.Int32, "Int64": expr.Int64,
	"UInt": expr.UInt, "UInt32": expr.UInt32, "UInt64": expr.UInt64,
	"Float32": expr.Float32, "Float64": expr.Float64, "String": expr.String, "Bytes": expr.Bytes, "Any": expr.Any,
}

// top is the top-level design function: API, schemes, types, services.
func (in *interp) top() {
	d := in.d
	schemes := map[string]*expr.SchemeExpr{}
	for _, s := range d.Schemes {
		s := s
		fn := func() {
			for _, sc := range s.Scopes {
				dsl.Scope(sc, "scope "+sc)
			}
			if s.Kind == "oauth2" {
				dsl.ClientCredentialsFlow("http://auth/token", "http://auth/refresh")
			}
		}
		switch s.Kind {
		case "basic":
			schemes[s.Name] = dsl.BasicAuthSecurity(s.Name, fn)
		case "apikey":
			schemes[s.Name] = dsl.APIKeySecurity(s.Name, fn)
		case "jwt":
			schemes[s.Name] = dsl.JWTSecurity(s.Name, fn)
		case "oauth2":
			schemes[s.Name] = dsl.OAuth2Security(s.Name, fn)
		}
	}
	security := func(reqs []Requirement) {
		for _, r := range reqs {
			var args []any
			for _, n := range r.Schemes {
				if s, ok := schemes[n]; ok {
					args = append(args, s)
				} else {
					args = append(args, n)
				}
			}
			if len(r.Scopes) > 0 {
				scopes := r.Scopes
				args = append(args, func() {
					for _, sc := range scopes {
						dsl.Scope(sc)
					}
				})
			}
			dsl.Security(args...)
		}
	}
	dsl.API(d.Name, func() {
		security(d.Security)
		for _, e := range d.Errors {
			in.errorDef(e)
		}
		if d.BasePath != "" || len(d.HTTPErrs) > 0 {
			dsl.HTTP(func() {
				if d.BasePath != "" {
					dsl.Path(d.BasePath)
				}
				for _, er := range d.HTTPErrs {
					in.errResponse(er)
				}
			})
		}
	})
	// types: declare all first (so that names resolve), bodies run during RunDSL
	for _, ut := range d.Types {
		in.declare(ut)
	}
	for _, s := range d.Services {
		s := s
		dsl.Service(s.Name, func() {
			security(s.Security)
			for _, e := range s.Errors {
				in.errorDef(e)
			}
			if s.BasePath != "" || len(s.HTTPErrs) > 0 {
				dsl.HTTP(func() {
					if s.BasePath != "" {
						dsl.Path(s.BasePath)
					}
					for _, er := range s.HTTPErrs {
						in.errResponse(er)
					}
				})
			}
			for _, m := range s.Methods {
				m := m
				dsl.Method(m.Name, func() {
					if m.NoSecurity {
						dsl.NoSecurity()
					}
					security(m.Security)
					if m.Payload != nil {
						in.io(dsl.Payload, m.Payload, "")
					}
					if m.StreamingPayload != nil {
						in.io(dsl.StreamingPayload, m.StreamingPayload, "")
					}
					if m.Result != nil {
						in.io(dsl.Result, m.Result, m.ResultView)
					}
					if m.StreamingResult != nil {
						in.io(dsl.StreamingResult, m.StreamingResult, "")
					}
					for _, e := range m.Errors {
						in.errorDef(e)
					}
					if m.HTTP != nil {
						in.http(m.HTTP)
					}
					if m.GRPC != nil {
						in.grpc(m.GRPC)
					}
				})
			}
			for _, f := range s.Files {
				dsl.Files(f.Path, f.File)
			}
		})
	}
}

func (in *interp) declare(ut *UserType) {
	body := func() {
		if ut.Extend != "" {
			if t := in.types[ut.Extend]; t != nil {
				dsl.Extend(t)
			}
		}
		if ut.Reference != "" {
			if t := in.types[ut.Reference]; t != nil {
				dsl.Reference(t)
			}
		}
		for _, n := range ut.RefAttrs {
			dsl.Attribute(n)
		}
		if ut.Base.Kind == "object" {
			in.fields(ut.Base.Attrs)
		}
		in.validation(ut.V)
		for _, v := range ut.Views {
			v := v
			dsl.View(v.Name, func() {
				for _, a := range v.Attrs {
					a := a
					if a.View != "" {
						dsl.Attribute(a.Name, func() { dsl.View(a.View) })
					} else {
						dsl.Attribute(a.Name)
					}
				}
			})
		}
	}
	if ut.Result {
		id := ut.Identifier
		if id == "" {
			id = "application/vnd." + ut.Name
		}
		in.types[ut.Name] = dsl.ResultType(id, func() {
			dsl.TypeName(ut.Name)
			body()
		})
		return
	}
	if ut.Base.Kind == "object" {
		in.types[ut.Name] = dsl.Type(ut.Name, body)
		return
	}
	in.types[ut.Name] = dsl.Type(ut.Name, in.dataType(&ut.Base), body)
}

// dataType converts a non-object type description into a goa DataType (objects are
// expressed through attribute DSLs).
func (in *interp) dataType(t *Type) any {
	switch t.Kind {
	case "prim":
		if p, ok := prims[t.Prim]; ok {
			return p
		}
		return t.Prim // dangling: let goa report it
	case "array":
		return dsl.ArrayOf(in.elemType(t.Elem), in.attrDSLNoType(t.Elem))
	case "map":
		fn := func() {
			if t.Key != nil && needsDSL(t.Key) {
				dsl.Key(in.attrDSLNoType(t.Key))
			}
			if t.Elem != nil && needsDSL(t.Elem) {
				dsl.Elem(in.attrDSLNoType(t.Elem))
			}
		}
		return dsl.MapOf(in.elemType(t.Key), in.elemType(t.Elem), fn)
	case "user":
		if ut, ok := in.types[t.Ref]; ok && ut != nil {
			return ut
		}
		return t.Ref
	case "collection":
		if ut, ok := in.types[t.Ref]; ok && ut != nil {
			return dsl.CollectionOf(ut)
		}
		return dsl.CollectionOf(t.Ref)
	}
	return expr.String
}

// elemType gives the element data type; inline objects become anonymous object types.
func (in *interp) elemType(a *Attr) any {
	if a == nil {
		return expr.String
	}
	if a.T.Kind == "object" {
		// inline object as array/map element: build through an attribute DSL on a throw-away holder
		obj := &expr.Object{}
		at := &expr.AttributeExpr{Type: obj}
		eval.Execute(func() { in.fields(a.T.Attrs) }, at)
		return at.Type
	}
	return in.dataType(&a.T)
}

func needsDSL(a *Attr) bool {
	return a != nil && (a.V != nil || a.HasDef || len(a.Meta) > 0 || a.View != "" || a.Desc != "")
}

// attrDSLNoType returns the DSL applying validations/default/meta (no type).
func (in *interp) attrDSLNoType(a *Attr) func() {
	if a == nil {
		return func() {}
	}
	return func() {
		in.validation(a.V)
		if a.HasDef {
			dsl.Default(defaultValue(a.Default, &a.T))
		}
		for _, m := range a.Meta {
			if len(m) > 0 {
				dsl.Meta(m[0], m[1:]...)
			}
		}
		if a.View != "" {
			dsl.View(a.View)
		}
		if a.Desc != "" {
			dsl.Description(a.Desc)
		}
	}
}

func (in *interp) validation(v *Validation) {
	if v == nil {
		return
	}
	if len(v.Enum) > 0 {
		// designs that went through JSON (Clone, replay files) hold integers as float64
		vals := make([]any, len(v.Enum))
		for i, x := range v.Enum {
			if f, ok := x.(float64); ok && f == float64(int(f)) {
				vals[i] = int(f)
			} else {
				vals[i] = x
			}
		}
		dsl.Enum(vals...)
	}
	if v.Format != "" {
		dsl.Format(expr.ValidationFormat(v.Format))
	}
	if v.Pattern != "" {
		dsl.Pattern(v.Pattern)
	}
	if v.Min != nil {
		dsl.Minimum(*v.Min)
	}
	if v.Max != nil {
		dsl.Maximum(*v.Max)
	}
	if v.ExclMin != nil {
		dsl.ExclusiveMinimum(*v.ExclMin)
	}
	if v.ExclMax != nil {
		dsl.ExclusiveMaximum(*v.ExclMax)
	}
	if v.MinLen != nil {
		dsl.MinLength(*v.MinLen)
	}
	if v.MaxLen != nil {
		dsl.MaxLength(*v.MaxLen)
	}
}

// fields declares object attributes (inside an attribute/type DSL).
func (in *interp) fields(fs []*Field) {
	var req []string
	for _, f := range fs {
		f := f
		var args []any
		if f.A.T.Kind == "object" {
			args = []any{func() {
				in.fields(f.A.T.Attrs)
				in.attrDSLNoType(&f.A)()
			}}
		} else {
			args = []any{in.dataType(&f.A.T)}
			if needsDSL(&f.A) {
				args = append(args, in.attrDSLNoType(&f.A))
			}
		}
		switch {
		case f.A.Sec != nil:
			switch f.A.Sec.Fn {
			case "Username":
				dsl.Username(f.Name, args...)
			case "Password":
				dsl.Password(f.Name, args...)
			case "APIKey":
				dsl.APIKey(f.A.Sec.Scheme, f.Name, args...)
			case "Token":
				dsl.Token(f.Name, args...)
			case "AccessToken":
				dsl.AccessToken(f.Name, args...)
			}
		case f.Tag > 0:
			dsl.Field(f.Tag, f.Name, args...)
		default:
			dsl.Attribute(f.Name, args...)
		}
		if f.Required {
			req = append(req, f.Name)
		}
	}
	if len(req) > 0 {
		dsl.Required(req...)
	}
}

// io declares Payload / Result / StreamingPayload / StreamingResult.
func (in *interp) io(fn func(any, ...any), a *Attr, view string) {
	if a.T.Kind == "object" {
		fn(func() {
			in.fields(a.T.Attrs)
			in.attrDSLNoType(a)()
		})
		return
	}
	var args []any
	if needsDSL(a) || view != "" {
		args = append(args, func() {
			in.attrDSLNoType(a)()
			if view != "" {
				dsl.View(view)
			}
		})
	}
	fn(in.dataType(&a.T), args...)
}

func (in *interp) errorDef(e ErrorDef) {
	var args []any
	if e.T != nil {
		if e.T.Kind == "object" {
			args = append(args, func() { in.fields(e.T.Attrs) })
		} else {
			args = append(args, in.dataType(e.T))
		}
	}
	if e.Temporary || e.Timeout || e.Fault {
		fl := func() {
			if e.Temporary {
				dsl.Temporary()
			}
			if e.Timeout {
				dsl.Timeout()
			}
			if e.Fault {
				dsl.Fault()
			}
		}
		if e.T != nil && e.T.Kind == "object" {
			// flags need the ErrorResult type: ignore for custom inline types
		} else {
			args = append(args, fl)
		}
	}
	dsl.Error(e.Name, args...)
}

func mapArg(m MapEntry) string {
	if m.Wire == "" || m.Wire == m.Attr {
		return m.Attr
	}
	return m.Attr + ":" + m.Wire
}

func (in *interp) body(b *BodySpec) {
	if b == nil {
		return
	}
	switch {
	case b.Empty:
		dsl.Body(expr.Empty)
	case b.Attr != "":
		dsl.Body(b.Attr)
	default:
		attrs := b.Attrs
		dsl.Body(func() {
			for _, a := range attrs {
				dsl.Attribute(a)
			}
		})
	}
}

func (in *interp) response(r Response) func() {
	return func() {
		if len(r.Tag) == 2 {
			dsl.Tag(r.Tag[0], r.Tag[1])
		}
		if r.ContentType != "" {
			dsl.ContentType(r.ContentType)
		}
		for _, h := range r.Headers {
			dsl.Header(mapArg(h))
		}
		for _, c := range r.Cookies {
			dsl.Cookie(mapArg(c))
		}
		in.body(r.Body)
	}
}

func (in *interp) errResponse(er ErrResponse) {
	dsl.Response(er.Name, er.R.Status, in.response(er.R))
}

func (in *interp) http(h *HTTPMap) {
	dsl.HTTP(func() {
		for _, r := range h.Routes {
			switch r.Verb {
			case "GET":
				dsl.GET(r.Path)
			case "HEAD":
				dsl.HEAD(r.Path)
			case "POST":
				dsl.POST(r.Path)
			case "PUT":
				dsl.PUT(r.Path)
			case "DELETE":
				dsl.DELETE(r.Path)
			case "OPTIONS":
				dsl.OPTIONS(r.Path)
			case "TRACE":
				dsl.TRACE(r.Path)
			case "CONNECT":
				dsl.CONNECT(r.Path)
			case "PATCH":
				dsl.PATCH(r.Path)
			}
		}
		for _, p := range h.Params {
			dsl.Param(mapArg(p))
		}
		if h.MapParams != "" {
			if h.MapParams == "*" {
				dsl.MapParams()
			} else {
				dsl.MapParams(h.MapParams)
			}
		}
		for _, p := range h.Headers {
			dsl.Header(mapArg(p))
		}
		for _, p := range h.Cookies {
			dsl.Cookie(mapArg(p))
		}
		if h.Multipart {
			dsl.MultipartRequest()
		}
		if h.SkipReq {
			dsl.SkipRequestBodyEncodeDecode()
		}
		if h.SkipResp {
			dsl.SkipResponseBodyEncodeDecode()
		}
		in.body(h.Body)
		for _, r := range h.Responses {
			dsl.Response(r.Status, in.response(r))
		}
		for _, er := range h.Errors {
			in.errResponse(er)
		}
	})
}

func (in *interp) grpc(g *GRPCMap) {
	dsl.GRPC(func() {
		if len(g.Metadata) > 0 {
			dsl.Metadata(func() {
				for _, m := range g.Metadata {
					dsl.Attribute(mapArg(m))
				}
			})
		}
		if len(g.Message) > 0 {
			dsl.Message(func() {
				for _, a := range g.Message {
					dsl.Attribute(a)
				}
			})
		}
		if g.Code != 0 || len(g.Headers) > 0 || len(g.Trailers) > 0 {
			dsl.Response(g.Code, func() {
				if len(g.Headers) > 0 {
					dsl.Headers(func() {
						for _, m := range g.Headers {
							dsl.Attribute(mapArg(m))
						}
					})
				}
				if len(g.Trailers) > 0 {
					dsl.Trailers(func() {
						for _, m := range g.Trailers {
							dsl.Attribute(mapArg(m))
						}
					})
				}
			})
		}
		for _, e := range g.Errors {
			dsl.Response(e.Name, e.Code)
		}
	})
}

// defaultValue converts a JSON-ish default into the Go value goa expects for the type.
func defaultValue(v any, t *Type) any {
	if t.Kind == "prim" {
		switch t.Prim {
		case "Int", "Int32", "Int64", "UInt", "UInt32", "UInt64":
			switch x := v.(type) {
			case float64:
				return int(x)
			case int64:
				return int(x)
			}
		case "Float32", "Float64":
			switch x := v.(type) {
			case int:
				return float64(x)
			case int64:
				return float64(x)
			}
		case "Bytes":
			if s, ok := v.(string); ok {
				return []byte(s)
			}
		}
	}
	if t.Kind == "array" {
		if xs, ok := v.([]any); ok {
			out := make([]any, len(xs))
			for i, x := range xs {
				out[i] = defaultValue(x, &t.Elem.T)
			}
			return out
		}
	}
	return v
}
