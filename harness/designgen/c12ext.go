package designgen

import (
	"fmt"
	"runtime/debug"

	"goa.design/goa/v3/eval"
	"goa.design/goa/v3/expr"
)

// EvalHooked is Eval with a hook that runs at the end of the top-level design
// function (inside the same eval.Execute, after every API / Type / Service call of
// the description has been made and before eval.RunDSL). C12 uses it for single
// mutations the description cannot express: a second definition of a type, a
// Required(...) naming a missing attribute inside a user type's DSL.
func (d *Design) EvalHooked(hook func()) (out Outcome) {
	defer func() {
		if r := recover(); r != nil {
			out = Outcome{Panic: fmt.Sprintf("%v\n%s", r, debug.Stack())}
		}
	}()
	ResetGoa()
	in := &interp{d: d, types: map[string]expr.UserType{}}
	top := func() {
		in.top()
		if hook != nil {
			hook()
		}
	}
	ok := eval.Execute(top, nil)
	// as the goa tool does: RunDSL runs whether or not the top-level calls reported errors
	if err := eval.RunDSL(); err != nil {
		return Outcome{Err: err}
	}
	if !ok {
		return Outcome{Err: eval.Context.Errors}
	}
	return Outcome{Accepted: true}
}

// AppendTypeDSL makes extra run at the end of the DSL of the user type (or result
// type) called name, as if it had been written there. It must be called from an
// EvalHooked hook. Returns false if there is no such type.
func AppendTypeDSL(name string, extra func()) bool {
	ut := expr.Root.UserType(name)
	if ut == nil {
		return false
	}
	att := ut.Attribute()
	old := att.DSLFunc
	att.DSLFunc = func() {
		if old != nil {
			old()
		}
		extra()
	}
	return true
}
