// Package designgen describes goa designs as plain data (JSON-able), builds them
// through goa's real public DSL at run time, and generates random / covering
// designs inside the verifier's design envelope. Every design-level check shares it.
package designgen

import "encoding/json"

// Type describes a data type.
type Type struct {
	Kind  string   `json:"kind"`            // prim | array | map | object | user | collection
	Prim  string   `json:"prim,omitempty"`  // Boolean Int Int32 Int64 UInt UInt32 UInt64 Float32 Float64 String Bytes Any
	Elem  *Attr    `json:"elem,omitempty"`  // array / map element
	Key   *Attr    `json:"key,omitempty"`   // map key
	Attrs []*Field `json:"attrs,omitempty"` // object
	Ref   string   `json:"ref,omitempty"`   // user / result type name (collection: CollectionOf(ref))
}

// Validation holds the validation keywords of an attribute.
type Validation struct {
	Enum    []any    `json:"enum,omitempty"`
	Format  string   `json:"format,omitempty"`
	Pattern string   `json:"pattern,omitempty"`
	Min     *float64 `json:"min,omitempty"`
	Max     *float64 `json:"max,omitempty"`
	ExclMin *float64 `json:"excl_min,omitempty"`
	ExclMax *float64 `json:"excl_max,omitempty"`
	MinLen  *int     `json:"min_len,omitempty"`
	MaxLen  *int     `json:"max_len,omitempty"`
}

// Attr is a type with its validations, default, metadata.
type Attr struct {
	T       Type         `json:"t"`
	V       *Validation  `json:"v,omitempty"`
	Default any          `json:"default,omitempty"` // JSON scalar / list / map
	HasDef  bool         `json:"has_default,omitempty"`
	Meta    [][]string   `json:"meta,omitempty"` // [key, values...]
	View    string       `json:"view,omitempty"` // Meta("view", …) on a result-type attribute
	Desc    string       `json:"desc,omitempty"`
	Sec     *SecAttrKind `json:"sec,omitempty"` // attribute declared with Username/Password/APIKey/Token/AccessToken
}

// SecAttrKind says which security DSL function declares the attribute.
type SecAttrKind struct {
	Fn     string `json:"fn"`               // Username | Password | APIKey | Token | AccessToken
	Scheme string `json:"scheme,omitempty"` // APIKey scheme name
}

// Field is a named attribute of an object.
type Field struct {
	Name     string `json:"name"`
	A        Attr   `json:"a"`
	Required bool   `json:"required,omitempty"`
	Tag      int    `json:"tag,omitempty"` // gRPC field number (Field DSL) when > 0
}

// View of a result type.
type View struct {
	Name  string      `json:"name"`
	Attrs []ViewField `json:"attrs"`
}

// ViewField is an attribute listed in a view, optionally with a nested view override.
type ViewField struct {
	Name string `json:"name"`
	View string `json:"view,omitempty"`
}

// UserType is a named type of the pool.
type UserType struct {
	Name       string      `json:"name"`
	Result     bool        `json:"result,omitempty"`     // ResultType
	Identifier string      `json:"identifier,omitempty"` // result type identifier
	Base       Type        `json:"base"`                 // object (fields) or any other type for aliases
	V          *Validation `json:"v,omitempty"`          // validation on an alias type
	Views      []View      `json:"views,omitempty"`
	Extend     string      `json:"extend,omitempty"`
	Reference  string      `json:"reference,omitempty"`
	RefAttrs   []string    `json:"ref_attrs,omitempty"` // attributes inherited from Reference (Attribute(name) without type)
}

// Scheme is a security scheme definition.
type Scheme struct {
	Kind   string   `json:"kind"` // basic | apikey | jwt | oauth2
	Name   string   `json:"name"`
	Scopes []string `json:"scopes,omitempty"`
}

// Requirement is one Security(...) call: all schemes must pass.
type Requirement struct {
	Schemes []string `json:"schemes"`
	Scopes  []string `json:"scopes,omitempty"`
}

// ErrorDef declares an error.
type ErrorDef struct {
	Name      string `json:"name"`
	T         *Type  `json:"t,omitempty"` // nil => default ErrorResult
	Temporary bool   `json:"temporary,omitempty"`
	Timeout   bool   `json:"timeout,omitempty"`
	Fault     bool   `json:"fault,omitempty"`
}

// MapEntry maps a payload/result attribute to a wire name.
type MapEntry struct {
	Attr string `json:"attr"`
	Wire string `json:"wire,omitempty"` // "" => same as attr
}

// BodySpec overrides the body: one attribute name, or a list of attribute names; nil = default.
type BodySpec struct {
	Attr  string   `json:"attr,omitempty"`
	Attrs []string `json:"attrs,omitempty"`
	Empty bool     `json:"empty,omitempty"`
}

// Response is one HTTP response.
type Response struct {
	Status      int        `json:"status"`
	Tag         []string   `json:"tag,omitempty"` // [attr, value]
	ContentType string     `json:"content_type,omitempty"`
	Headers     []MapEntry `json:"headers,omitempty"`
	Cookies     []MapEntry `json:"cookies,omitempty"`
	Body        *BodySpec  `json:"body,omitempty"`
}

// ErrResponse maps an error name to an HTTP response.
type ErrResponse struct {
	Name string   `json:"name"`
	R    Response `json:"r"`
}

// Route is verb + path.
type Route struct {
	Verb string `json:"verb"`
	Path string `json:"path"`
}

// HTTPMap is the HTTP(...) mapping of a method.
type HTTPMap struct {
	Routes    []Route       `json:"routes"`
	Params    []MapEntry    `json:"params,omitempty"` // query string (path params come from the route)
	Headers   []MapEntry    `json:"headers,omitempty"`
	Cookies   []MapEntry    `json:"cookies,omitempty"`
	MapParams string        `json:"map_params,omitempty"`
	Body      *BodySpec     `json:"body,omitempty"`
	Responses []Response    `json:"responses,omitempty"`
	Errors    []ErrResponse `json:"errors,omitempty"`
	Multipart bool          `json:"multipart,omitempty"`
	SkipReq   bool          `json:"skip_req,omitempty"`
	SkipResp  bool          `json:"skip_resp,omitempty"`
}

// GRPCMap is the GRPC(...) mapping of a method.
type GRPCMap struct {
	Metadata []MapEntry `json:"metadata,omitempty"`
	Message  []string   `json:"message,omitempty"`
	Headers  []MapEntry `json:"headers,omitempty"`
	Trailers []MapEntry `json:"trailers,omitempty"`
	Code     int        `json:"code,omitempty"`
	Errors   []struct {
		Name string `json:"name"`
		Code int    `json:"code"`
	} `json:"errors,omitempty"`
}

// Method of a service.
type Method struct {
	Name             string        `json:"name"`
	Payload          *Attr         `json:"payload,omitempty"`
	Result           *Attr         `json:"result,omitempty"`
	ResultView       string        `json:"result_view,omitempty"` // Result(T, func(){ View(v) })
	StreamingPayload *Attr         `json:"streaming_payload,omitempty"`
	StreamingResult  *Attr         `json:"streaming_result,omitempty"`
	Errors           []ErrorDef    `json:"errors,omitempty"`
	Security         []Requirement `json:"security,omitempty"`
	NoSecurity       bool          `json:"no_security,omitempty"`
	HTTP             *HTTPMap      `json:"http,omitempty"`
	GRPC             *GRPCMap      `json:"grpc,omitempty"`
}

// FileServer is a Files(...) mount.
type FileServer struct {
	Path string `json:"path"`
	File string `json:"file"`
}

// Service groups methods.
type Service struct {
	Name     string        `json:"name"`
	BasePath string        `json:"base_path,omitempty"`
	Security []Requirement `json:"security,omitempty"`
	Errors   []ErrorDef    `json:"errors,omitempty"`
	HTTPErrs []ErrResponse `json:"http_errors,omitempty"`
	Methods  []*Method     `json:"methods"`
	Files    []FileServer  `json:"files,omitempty"`
}

// Design is a whole goa design.
type Design struct {
	Name     string        `json:"name"`
	BasePath string        `json:"base_path,omitempty"`
	Security []Requirement `json:"security,omitempty"`
	Errors   []ErrorDef    `json:"errors,omitempty"`
	HTTPErrs []ErrResponse `json:"http_errors,omitempty"`
	Schemes  []Scheme      `json:"schemes,omitempty"`
	Types    []*UserType   `json:"types,omitempty"`
	Services []*Service    `json:"services"`
	Features []string      `json:"features,omitempty"` // what the generator put in (for distributions)
}

// JSON renders the design (replay files).
func (d *Design) JSON() string {
	b, _ := json.Marshal(d)
	return string(b)
}

// Clone deep-copies a design through JSON.
func (d *Design) Clone() *Design {
	var c Design
	if err := json.Unmarshal([]byte(d.JSON()), &c); err != nil {
		panic(err)
	}
	return &c
}

// Helpers to build descriptions tersely.

func Prim(p string) Type          { return Type{Kind: "prim", Prim: p} }
func ArrayOf(e Attr) Type         { return Type{Kind: "array", Elem: &e} }
func MapOf(k, e Attr) Type        { return Type{Kind: "map", Key: &k, Elem: &e} }
func Obj(fs ...*Field) Type       { return Type{Kind: "object", Attrs: fs} }
func Ref(n string) Type           { return Type{Kind: "user", Ref: n} }
func A(t Type) Attr               { return Attr{T: t} }
func F(n string, t Type) *Field   { return &Field{Name: n, A: Attr{T: t}} }
func Req(n string, t Type) *Field { return &Field{Name: n, A: Attr{T: t}, Required: true} }
func Fp(f float64) *float64       { return &f }
func Ip(i int) *int               { return &i }
func (f *Field) With(v Validation) *Field {
	f.A.V = &v
	return f
}
func (f *Field) Def(d any) *Field {
	f.A.Default, f.A.HasDef = d, true
	return f
}
