package designgen

import (
	"fmt"
	"sort"
	"strings"

	"verifharness/vh"
)

// Options steer the random generator.
type Options struct {
	MaxServices  int
	MaxMethods   int
	HTTP         bool
	GRPC         bool
	Security     bool
	Views        bool
	Recursive    bool
	Files        bool
	ExoticVerbs  bool // TRACE / OPTIONS / HEAD / CONNECT routes
	HostileNames bool // names outside the _partial envelope (digit-led, colliding after Goify)
	// The switches below re-enable feature combinations that goa accepts but generates
	// uncompilable code for (recorded C01 findings); the main streams keep them off.
	NestedInlineObjects      bool // inline objects below the top level of a payload/result
	NonStringCookies         bool
	AliasInParams            bool // user types aliasing a primitive used in path/query/header/cookie
	UintEnums                bool
	NonStringPrimitiveHeader bool // Payload(Int) mapped to a header
	DefaultInRespHeader      bool // result attribute with a default mapped to a response header/cookie
}

// DefaultOptions is the HTTP envelope used by most checks.
func DefaultOptions() Options {
	return Options{MaxServices: 2, MaxMethods: 3, HTTP: true, Security: true, Views: true, Recursive: true, Files: true}
}

var attrNames = []string{"id", "name", "count", "flag", "ratio", "tags", "meta_data", "kind", "note", "userID", "x_val", "type", "items", "when", "size", "q", "limit", "token_ref", "value2", "data"}
var primNames = []string{"Boolean", "Int", "Int32", "Int64", "UInt", "UInt32", "UInt64", "Float32", "Float64", "String", "String", "String", "Bytes", "Any"}
var paramPrims = []string{"Boolean", "Int", "Int32", "Int64", "UInt", "UInt32", "UInt64", "Float32", "Float64", "String", "String"}
var formats = []string{"date", "date-time", "uuid", "email", "hostname", "ipv4", "ipv6", "ip", "uri", "mac", "cidr", "regexp", "json", "rfc1123"}

type gen struct {
	r    *vh.RNG
	o    Options
	d    *Design
	feat map[string]bool
}

func (g *gen) f(name string) { g.feat[name] = true }

// Random generates one design description.
func Random(r *vh.RNG, o Options, idx int) *Design {
	g := &gen{r: r, o: o, feat: map[string]bool{}}
	d := &Design{Name: fmt.Sprintf("api%d", idx)}
	g.d = d
	if r.Chance(1, 4) {
		d.BasePath = "/v" + fmt.Sprint(1+r.Intn(3))
		g.f("api_base_path")
	}
	// type pool
	nAlias := r.Intn(3)
	for i := 0; i < nAlias; i++ {
		p := vh.Pick(r, []string{"String", "Int", "Float64", "String", "UInt32"})
		ut := &UserType{Name: fmt.Sprintf("Alias%d", i), Base: Prim(p)}
		if r.Chance(2, 3) {
			ut.V = g.validation(&ut.Base, true)
		}
		d.Types = append(d.Types, ut)
		g.f("alias_type")
	}
	nObj := 1 + r.Intn(3)
	for i := 0; i < nObj; i++ {
		ut := &UserType{Name: fmt.Sprintf("Obj%d", i)}
		ut.Base = Obj(g.fieldList(1+r.Intn(4), 2, false)...)
		if o.Recursive && r.Chance(1, 4) {
			ut.Base.Attrs = append(ut.Base.Attrs, F("child", Ref(ut.Name)))
			g.f("recursive_type")
		}
		if i > 0 && r.Chance(1, 5) {
			ut.Extend = fmt.Sprintf("Obj%d", i-1)
			g.f("extend")
			// drop clashes with the parent
			parent := d.Types[len(d.Types)-1]
			ut.Base.Attrs = dropNamed(ut.Base.Attrs, fieldNames(parent.Base.Attrs))
		}
		d.Types = append(d.Types, ut)
		g.f("object_type")
	}
	if o.Views && r.Chance(1, 2) {
		inner := &UserType{Name: "Inner", Result: true, Base: Obj(Req("i1", Prim("String")), F("i2", Prim("Int")), F("i3", ArrayOf(A(Prim("String")))))}
		inner.Views = []View{{Name: "default", Attrs: []ViewField{{Name: "i1"}, {Name: "i2"}, {Name: "i3"}}}, {Name: "tiny", Attrs: []ViewField{{Name: "i1"}}}}
		outer := &UserType{Name: "Outer", Result: true, Base: Obj(Req("a", Prim("String")), F("b", Prim("Int")), F("inner", Ref("Inner")), F("list", Type{Kind: "collection", Ref: "Inner"}))}
		outer.Views = []View{
			{Name: "default", Attrs: []ViewField{{Name: "a"}, {Name: "b"}, {Name: "inner"}, {Name: "list"}}},
			{Name: "tiny", Attrs: []ViewField{{Name: "a"}, {Name: "inner", View: "tiny"}}}}
		if r.Chance(1, 2) {
			outer.Views = append(outer.Views, View{Name: "mid", Attrs: []ViewField{{Name: "a"}, {Name: "b"}, {Name: "list", View: "tiny"}}})
		}
		d.Types = append(d.Types, inner, outer)
		g.f("result_type_views")
	}
	// security schemes
	if o.Security && r.Chance(1, 2) {
		kinds := []string{"basic", "apikey", "jwt", "oauth2"}
		n := 1 + r.Intn(3)
		for i := 0; i < n; i++ {
			k := kinds[(r.Intn(4)+i)%4]
			dup := false
			for _, s := range d.Schemes {
				if s.Kind == k {
					dup = true
				}
			}
			if dup {
				continue
			}
			s := Scheme{Kind: k, Name: k + "_sch"}
			if k == "jwt" || k == "oauth2" {
				s.Scopes = []string{"api:read", "api:write"}
			}
			d.Schemes = append(d.Schemes, s)
			g.f("scheme_" + k)
		}
		if r.Chance(1, 3) {
			d.Security = g.requirements()
			g.f("api_security")
		}
	}
	if r.Chance(1, 3) {
		d.Errors = append(d.Errors, ErrorDef{Name: "api_err", Timeout: r.Bool()})
		d.HTTPErrs = append(d.HTTPErrs, ErrResponse{Name: "api_err", R: Response{Status: 504}})
		g.f("api_error")
	}
	ns := 1 + r.Intn(max(1, o.MaxServices))
	for si := 0; si < ns; si++ {
		s := &Service{Name: vh.Pick(r, []string{"svc", "calc", "store_front", "acct"}) + fmt.Sprint(si)}
		if o.HTTP && r.Chance(1, 3) {
			s.BasePath = "/" + s.Name
			g.f("service_base_path")
		}
		if len(d.Schemes) > 0 && r.Chance(1, 3) {
			s.Security = g.requirements()
			g.f("service_security")
		}
		if r.Chance(1, 3) {
			s.Errors = append(s.Errors, ErrorDef{Name: "svc_err", Temporary: r.Bool()})
			if o.HTTP {
				s.HTTPErrs = append(s.HTTPErrs, ErrResponse{Name: "svc_err", R: Response{Status: 503}})
			}
			g.f("service_error")
		}
		nm := 1 + r.Intn(max(1, o.MaxMethods))
		for mi := 0; mi < nm; mi++ {
			s.Methods = append(s.Methods, g.method(s, mi))
		}
		if o.HTTP && o.Files && r.Chance(1, 6) {
			s.Files = append(s.Files, FileServer{Path: "/static/" + s.Name + "/file.json", File: "public/file.json"})
			g.f("file_server")
		}
		d.Services = append(d.Services, s)
	}
	for k := range g.feat {
		d.Features = append(d.Features, k)
	}
	sort.Strings(d.Features)
	return d
}

func max(a, b int) int {
	if a > b {
		return a
	}
	return b
}

func fieldNames(fs []*Field) map[string]bool {
	m := map[string]bool{}
	for _, f := range fs {
		m[f.Name] = true
	}
	return m
}

func dropNamed(fs []*Field, names map[string]bool) []*Field {
	var out []*Field
	for _, f := range fs {
		if !names[f.Name] {
			out = append(out, f)
		}
	}
	return out
}

func (g *gen) requirements() []Requirement {
	var reqs []Requirement
	n := 1 + g.r.Intn(2)
	for i := 0; i < n; i++ {
		var req Requirement
		k := 1
		if len(g.d.Schemes) > 1 && g.r.Chance(1, 3) {
			k = 2
		}
		perm := g.r.Intn(len(g.d.Schemes))
		for j := 0; j < k; j++ {
			s := g.d.Schemes[(perm+j)%len(g.d.Schemes)]
			req.Schemes = append(req.Schemes, s.Name)
			if len(s.Scopes) > 0 && g.r.Bool() && len(req.Scopes) == 0 {
				req.Scopes = []string{s.Scopes[g.r.Intn(len(s.Scopes))]}
			}
		}
		// scopes only make sense if one of the schemes declares them
		reqs = append(reqs, req)
	}
	return reqs
}

// validation draws validation keywords compatible with the type.
func (g *gen) validation(t *Type, allowPattern bool) *Validation {
	r := g.r
	v := &Validation{}
	switch t.Kind {
	case "prim":
		switch t.Prim {
		case "String":
			switch r.Intn(6) {
			case 0:
				v.Enum = []any{"a", "b c", "é"}
				g.f("val_enum")
			case 1:
				v.Format = vh.Pick(r, formats)
				g.f("val_format")
			case 2:
				if allowPattern {
					v.Pattern = vh.Pick(r, []string{"^[a-z]+$", "^[0-9]{2,4}$", "a.c", "^x"})
					g.f("val_pattern")
				}
			case 3:
				v.MinLen = Ip(1 + r.Intn(3))
				g.f("val_minlen")
			case 4:
				v.MaxLen = Ip(3 + r.Intn(5))
				g.f("val_maxlen")
			default:
				v.MinLen, v.MaxLen = Ip(r.Intn(3)), Ip(4+r.Intn(4))
				g.f("val_minlen")
				g.f("val_maxlen")
			}
		case "Int", "Int32", "Int64", "UInt", "UInt32", "UInt64", "Float32", "Float64":
			lo := float64(r.Intn(5))
			hi := lo + float64(1+r.Intn(20))
			if strings.HasPrefix(t.Prim, "Float") && r.Bool() {
				lo += 0.5
			}
			switch r.Intn(5) {
			case 0:
				v.Min = &lo
				g.f("val_min")
			case 1:
				v.Max = &hi
				g.f("val_max")
			case 2:
				v.ExclMin = &lo
				g.f("val_exclmin")
			case 3:
				v.ExclMax = &hi
				g.f("val_exclmax")
			default:
				v.Min, v.Max = &lo, &hi
				g.f("val_min")
				g.f("val_max")
			}
			if r.Chance(1, 8) && !strings.HasPrefix(t.Prim, "Float") && (g.o.UintEnums || !strings.HasPrefix(t.Prim, "UInt")) {
				v = &Validation{Enum: []any{1, 2, 3}}
				g.f("val_enum")
			}
		case "Bytes":
			v.MinLen = Ip(1 + r.Intn(2))
			g.f("val_minlen")
		default:
			return nil
		}
	case "array", "map":
		if r.Bool() {
			v.MinLen = Ip(1 + r.Intn(2))
			g.f("val_minlen_collection")
		} else {
			v.MaxLen = Ip(2 + r.Intn(3))
			g.f("val_maxlen_collection")
		}
	default:
		return nil
	}
	return v
}

// attrType draws a type for an attribute; depth limits nesting.
func (g *gen) attrType(depth int, paramOnly bool) Type {
	r := g.r
	if paramOnly {
		switch r.Intn(8) {
		case 0:
			return ArrayOf(A(Prim(vh.Pick(r, paramPrims))))
		default:
			return Prim(vh.Pick(r, paramPrims))
		}
	}
	k := r.Intn(12)
	switch {
	case k < 6 || depth <= 0:
		return Prim(vh.Pick(r, primNames))
	case k == 6:
		e := A(g.attrType(depth-1, false))
		if r.Chance(1, 3) {
			e.V = g.validation(&e.T, true)
		}
		g.f("array")
		return ArrayOf(e)
	case k == 7:
		e := A(g.attrType(depth-1, false))
		g.f("map")
		return MapOf(A(Prim(vh.Pick(r, []string{"String", "String", "Int"}))), e)
	case k == 8 && g.o.NestedInlineObjects:
		g.f("inline_object")
		return Obj(g.fieldList(1+r.Intn(3), depth-1, false)...)
	default:
		// reference into the pool
		var names []string
		for _, ut := range g.d.Types {
			if !ut.Result {
				names = append(names, ut.Name)
			}
		}
		if len(names) == 0 {
			return Prim("String")
		}
		g.f("user_type_ref")
		return Ref(vh.Pick(r, names))
	}
}

func (g *gen) fieldList(n, depth int, paramOnly bool) []*Field {
	r := g.r
	var fs []*Field
	used := map[string]bool{}
	for len(fs) < n {
		name := vh.Pick(r, attrNames)
		if used[name] {
			continue
		}
		used[name] = true
		f := &Field{Name: name}
		f.A.T = g.attrType(depth, paramOnly)
		if r.Chance(1, 3) {
			f.A.V = g.validation(&f.A.T, true)
		}
		switch r.Intn(5) {
		case 0, 1:
			f.Required = true
		case 2:
			if def, ok := g.defaultFor(&f.A); ok {
				f.A.Default, f.A.HasDef = def, true
				g.f("default_value")
			}
		}
		fs = append(fs, f)
	}
	return fs
}

// defaultFor picks a default that satisfies the validation (goa checks it).
func (g *gen) defaultFor(a *Attr) (any, bool) {
	v := a.V
	if a.T.Kind != "prim" {
		return nil, false
	}
	switch a.T.Prim {
	case "String":
		if v != nil {
			if len(v.Enum) > 0 {
				return v.Enum[0], true
			}
			if v.Format != "" || v.Pattern != "" {
				return nil, false
			}
			n := 3
			if v.MinLen != nil && *v.MinLen > n {
				n = *v.MinLen
			}
			if v.MaxLen != nil && *v.MaxLen < n {
				n = *v.MaxLen
			}
			return strings.Repeat("d", n), true
		}
		return "dflt", true
	case "Boolean":
		return true, true
	case "Int", "Int32", "Int64", "UInt", "UInt32", "UInt64":
		x := 5.0
		if v != nil {
			if len(v.Enum) > 0 {
				return v.Enum[0], true
			}
			x = pickInRange(v)
		}
		return int(x), true
	case "Float32", "Float64":
		x := 2.5
		if v != nil {
			x = pickInRange(v)
		}
		return x, true
	}
	return nil, false
}

func pickInRange(v *Validation) float64 {
	lo, hi := -1e9, 1e9
	if v.Min != nil {
		lo = *v.Min
	}
	if v.ExclMin != nil {
		lo = *v.ExclMin + 1
	}
	if v.Max != nil {
		hi = *v.Max
	}
	if v.ExclMax != nil {
		hi = *v.ExclMax - 1
	}
	if lo > -1e9 {
		return lo
	}
	if hi < 1e9 {
		return hi
	}
	return 5
}

func isParamType(t *Type, d *Design) string {
	// returns "prim", "array", "map" or "" when the type cannot travel in a param/header
	switch t.Kind {
	case "prim":
		if t.Prim == "Bytes" || t.Prim == "Any" {
			return ""
		}
		return "prim"
	case "array":
		if t.Elem.T.Kind == "prim" && t.Elem.T.Prim != "Bytes" && t.Elem.T.Prim != "Any" {
			return "array"
		}
	case "map":
		if t.Key.T.Kind == "prim" && t.Key.T.Prim == "String" && t.Elem.T.Kind == "prim" && t.Elem.T.Prim != "Bytes" && t.Elem.T.Prim != "Any" {
			return "map"
		}
	case "user":
		for _, ut := range d.Types {
			if ut.Name == t.Ref && ut.Base.Kind == "prim" && !ut.Result {
				return "alias"
			}
		}
	}
	return ""
}

func (g *gen) method(s *Service, mi int) *Method {
	r := g.r
	m := &Method{Name: vh.Pick(r, []string{"get", "list", "create", "do_it", "update", "remove"}) + fmt.Sprint(mi)}
	// payload
	var pfields []*Field
	switch r.Intn(10) {
	case 0:
		g.f("no_payload")
	case 1:
		p := A(Prim(vh.Pick(r, paramPrims)))
		m.Payload = &p
		g.f("primitive_payload")
	case 2:
		var names []string
		for _, ut := range g.d.Types {
			if !ut.Result && ut.Base.Kind == "object" {
				names = append(names, ut.Name)
			}
		}
		p := A(Ref(vh.Pick(r, names)))
		m.Payload = &p
		g.f("user_type_payload")
	default:
		pfields = g.fieldList(1+r.Intn(6), 2, false)
		p := A(Obj(pfields...))
		m.Payload = &p
		g.f("object_payload")
	}
	// security (needs an object payload to carry credentials)
	if len(g.d.Schemes) > 0 && pfields != nil {
		switch r.Intn(5) {
		case 0:
			m.Security = g.requirements()
			g.f("method_security")
		case 1:
			m.NoSecurity = true
			g.f("no_security")
		}
		eff := m.Security
		if len(eff) == 0 && !m.NoSecurity {
			eff = s.Security
			if len(eff) == 0 {
				eff = g.d.Security
			}
		}
		pfields = g.credentialFields(pfields, eff)
		m.Payload.T.Attrs = pfields
	} else if len(g.d.Schemes) > 0 {
		m.NoSecurity = true
	}
	// result
	switch r.Intn(10) {
	case 0:
		g.f("no_result")
	case 1:
		res := A(Prim(vh.Pick(r, []string{"String", "Int", "Boolean", "Float64", "Bytes"})))
		m.Result = &res
		g.f("primitive_result")
	case 2:
		res := A(ArrayOf(A(Prim(vh.Pick(r, []string{"String", "Int"})))))
		m.Result = &res
		g.f("array_result")
	case 3, 4:
		hasOuter := false
		for _, ut := range g.d.Types {
			if ut.Name == "Outer" {
				hasOuter = true
			}
		}
		if hasOuter {
			res := A(Ref("Outer"))
			if r.Chance(1, 4) {
				res = A(Type{Kind: "collection", Ref: "Outer"})
				g.f("collection_result")
			}
			m.Result = &res
			if r.Chance(1, 4) {
				m.ResultView = "tiny"
				g.f("fixed_view")
			}
			g.f("viewed_result")
			break
		}
		fallthrough
	default:
		res := A(Obj(g.fieldList(1+r.Intn(5), 2, false)...))
		m.Result = &res
		g.f("object_result")
	}
	// errors
	if r.Chance(1, 2) {
		m.Errors = append(m.Errors, ErrorDef{Name: "not_found"})
		g.f("method_error")
		if r.Chance(1, 3) {
			m.Errors = append(m.Errors, ErrorDef{Name: "gone", Fault: r.Bool()})
			g.f("two_errors")
		}
		if r.Chance(1, 3) {
			t := Obj(Req("name", Prim("String")), F("code", Prim("Int")), F("detail", Prim("String")))
			m.Errors = append(m.Errors, ErrorDef{Name: "conflict", T: &t})
			g.f("custom_error_type")
		}
	}
	if g.o.HTTP {
		m.HTTP = g.httpMap(s, m, pfields)
	}
	return m
}

func (g *gen) credentialFields(fs []*Field, reqs []Requirement) []*Field {
	have := fieldNames(fs)
	add := func(name string, sec SecAttrKind, required bool) {
		if have[name] {
			fs = dropNamed(fs, map[string]bool{name: true})
		}
		have[name] = true
		fs = append(fs, &Field{Name: name, A: Attr{T: Prim("String"), Sec: &sec}, Required: required})
	}
	seen := map[string]bool{}
	for _, rq := range reqs {
		for _, sn := range rq.Schemes {
			if seen[sn] {
				continue
			}
			seen[sn] = true
			for _, s := range g.d.Schemes {
				if s.Name != sn {
					continue
				}
				req := len(reqs) == 1
				switch s.Kind {
				case "basic":
					add("user", SecAttrKind{Fn: "Username"}, req)
					add("pass", SecAttrKind{Fn: "Password"}, req)
				case "apikey":
					add("key", SecAttrKind{Fn: "APIKey", Scheme: s.Name}, req)
				case "jwt":
					add("token", SecAttrKind{Fn: "Token"}, req)
				case "oauth2":
					add("access", SecAttrKind{Fn: "AccessToken"}, req)
				}
			}
		}
	}
	return fs
}

func (g *gen) httpMap(s *Service, m *Method, pfields []*Field) *HTTPMap {
	r := g.r
	h := &HTTPMap{}
	path := "/" + strings.ReplaceAll(m.Name, "_", "-")
	bodyLeft := 0
	var pathVars []string
	if pfields != nil {
		for _, f := range pfields {
			if f.A.Sec != nil {
				continue // credentials: let goa place them (Authorization header / default)
			}
			kind := isParamType(&f.A.T, g.d)
			if kind == "alias" {
				kind = ""
				if g.o.AliasInParams {
					kind = "prim"
					g.f("alias_in_param")
				}
			}
			loc := r.Intn(10)
			switch {
			case kind == "prim" && loc == 0 && len(pathVars) < 2 && f.A.T.Kind == "prim":
				f.Required = true
				f.A.HasDef, f.A.Default = false, nil
				pathVars = append(pathVars, f.Name)
				g.f("path_param")
			case (kind == "prim" || kind == "array" || kind == "map") && loc <= 2:
				e := MapEntry{Attr: f.Name}
				if r.Chance(1, 3) {
					e.Wire = strings.ToUpper(f.Name[:1]) + f.Name[1:] + "_q"
					g.f("param_wire_name")
				}
				h.Params = append(h.Params, e)
				g.f("query_param_" + kind)
			case (kind == "prim" || kind == "array") && loc == 3:
				e := MapEntry{Attr: f.Name, Wire: "X-" + strings.ReplaceAll(f.Name, "_", "-")}
				h.Headers = append(h.Headers, e)
				g.f("header_" + kind)
			case kind == "prim" && loc == 4 && (g.o.NonStringCookies || f.A.T.Prim == "String"):
				h.Cookies = append(h.Cookies, MapEntry{Attr: f.Name, Wire: f.Name + "_ck"})
				g.f("cookie")
			default:
				bodyLeft++
			}
		}
	} else if m.Payload != nil && m.Payload.T.Kind == "prim" {
		switch r.Intn(4) {
		case 0:
			pathVars = append(pathVars, "pv")
			g.f("primitive_payload_path")
		case 1:
			h.Params = append(h.Params, MapEntry{Attr: "pq"})
			g.f("primitive_payload_query")
		case 2:
			if m.Payload.T.Prim != "String" && !g.o.NonStringPrimitiveHeader {
				bodyLeft = 1
				g.f("primitive_payload_body")
				break
			}
			h.Headers = append(h.Headers, MapEntry{Attr: "ph", Wire: "X-Ph"})
			g.f("primitive_payload_header")
		default:
			bodyLeft = 1
			g.f("primitive_payload_body")
		}
	} else if m.Payload != nil {
		bodyLeft = 1
	}
	for _, v := range pathVars {
		path += "/{" + v + "}"
	}
	verb := "GET"
	if bodyLeft > 0 {
		verb = vh.Pick(r, []string{"POST", "PUT", "PATCH", "POST"})
	} else {
		verb = vh.Pick(r, []string{"GET", "GET", "DELETE", "POST"})
		if g.o.ExoticVerbs && r.Chance(1, 3) {
			verb = vh.Pick(r, []string{"OPTIONS", "TRACE", "HEAD"})
			g.f("exotic_verb")
		}
	}
	h.Routes = append(h.Routes, Route{Verb: verb, Path: path})
	if r.Chance(1, 6) {
		h.Routes = append(h.Routes, Route{Verb: verb, Path: "/alt" + path})
		g.f("two_routes")
	}
	// responses
	if m.Result != nil && m.Result.T.Kind == "object" {
		resp := Response{Status: vh.Pick(r, []int{200, 200, 201, 202})}
		nbody := 0
		var tagField *Field
		for _, f := range m.Result.T.Attrs {
			kind := isParamType(&f.A.T, g.d)
			if kind == "alias" {
				kind = ""
			}
			if f.A.HasDef && !g.o.DefaultInRespHeader {
				kind = "" // finding C03/default-in-response-header: keep defaulted attributes in the body
			}
			switch {
			case (kind == "prim" || kind == "array") && r.Chance(1, 5):
				resp.Headers = append(resp.Headers, MapEntry{Attr: f.Name, Wire: "X-R-" + strings.ReplaceAll(f.Name, "_", "-")})
				g.f("response_header")
			case kind == "prim" && r.Chance(1, 10) && (g.o.NonStringCookies || f.A.T.Prim == "String"):
				resp.Cookies = append(resp.Cookies, MapEntry{Attr: f.Name, Wire: f.Name + "_rck"})
				g.f("response_cookie")
			default:
				nbody++
				if f.A.T.Kind == "prim" && f.A.T.Prim == "String" && f.A.V == nil && tagField == nil {
					tagField = f
				}
			}
		}
		if tagField != nil && r.Chance(1, 4) {
			tagged := Response{Status: 202, Tag: []string{tagField.Name, "acc"}}
			if resp.Status == 202 {
				resp.Status = 200
			}
			tagged.Headers, tagged.Cookies = resp.Headers, resp.Cookies
			h.Responses = append(h.Responses, tagged)
			g.f("tagged_response")
		}
		h.Responses = append(h.Responses, resp)
	} else if m.Result == nil && r.Chance(1, 2) {
		h.Responses = append(h.Responses, Response{Status: 204})
	}
	// errors
	for _, e := range m.Errors {
		switch e.Name {
		case "not_found":
			h.Errors = append(h.Errors, ErrResponse{Name: e.Name, R: Response{Status: 404}})
		case "gone":
			st := 410
			if r.Chance(1, 2) {
				st = 404 // two errors on one status code, told apart by goa-error
				g.f("errors_share_status")
			}
			h.Errors = append(h.Errors, ErrResponse{Name: e.Name, R: Response{Status: st}})
		case "conflict":
			er := ErrResponse{Name: e.Name, R: Response{Status: 409}}
			if r.Chance(1, 2) {
				er.R.Headers = []MapEntry{{Attr: "detail", Wire: "X-Detail"}}
				g.f("error_header")
			}
			h.Errors = append(h.Errors, er)
		}
	}
	return h
}
