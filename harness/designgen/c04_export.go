package designgen

// Accessors added for the C04/C14 harness (invalid instances per format / pattern,
// valid samples, and the merge of alias-type validations into an attribute's own).

// FormatBad returns a string that does not conform to the named format.
func FormatBad(f string) (string, bool) { s, ok := formatBad[f]; return s, ok }

// PatternBad returns a string that does not match the pattern (known patterns only).
func PatternBad(p string) (string, bool) { s, ok := patternBad[p]; return s, ok }

// FormatSamples returns conforming instances of the named format.
func FormatSamples(f string) []string { return formatSamples[f] }

// PatternSamples returns matching instances of a known pattern.
func PatternSamples(p string) []string { return patternSamples[p] }

// Effective resolves alias chains: the structural base type and the validation in
// force on the attribute (alias validations merged with the attribute's own).
func (d *Design) Effective(a *Attr) (*Type, *Validation) {
	bt, vs := d.Base(&a.T)
	return bt, merged(vs, a.V)
}
