// Package c10rt is the run-time half of the C10 tier-B drivers: it builds service
// values from value descriptions by reflection, pushes them through the REAL
// generated conversion code (client EncodeRequest -> goa's unary handler with the
// server DecodeRequest / EncodeResponse -> client DecodeResponse, metadata through
// grpc metadata.MD) and dumps what came out canonically.
package c10rt

import (
	"context"
	"encoding/json"
	"fmt"
	"io"
	"math"
	"reflect"
	"sort"
	"strings"

	goagrpc "goa.design/goa/v3/grpc"
	"google.golang.org/grpc"
	"google.golang.org/grpc/metadata"
)

// Spec describes a value: int (I) | uint (U) | float (F bits) | bool | str | bytes |
// nil | list | map | obj (fields by position).
type Spec struct {
	K string   `json:"k"`
	I int64    `json:"i,omitempty"`
	U uint64   `json:"u,omitempty"`
	S []byte   `json:"s,omitempty"`
	L []Spec   `json:"l,omitempty"`
	M [][]Spec `json:"m,omitempty"` // pairs
}

// Fill sets v (addressable) from the description.
func Fill(v reflect.Value, s Spec) {
	switch v.Kind() {
	case reflect.Ptr:
		if s.K == "nil" {
			v.Set(reflect.Zero(v.Type()))
			return
		}
		p := reflect.New(v.Type().Elem())
		Fill(p.Elem(), s)
		v.Set(p)
	case reflect.Struct:
		i := 0
		for f := 0; f < v.NumField(); f++ {
			if !v.Type().Field(f).IsExported() {
				continue
			}
			if i < len(s.L) {
				Fill(v.Field(f), s.L[i])
			}
			i++
		}
	case reflect.Slice:
		if v.Type().Elem().Kind() == reflect.Uint8 {
			if s.K == "nil" {
				v.Set(reflect.Zero(v.Type()))
			} else {
				v.SetBytes(append([]byte{}, s.S...))
			}
			return
		}
		if s.K == "nil" {
			v.Set(reflect.Zero(v.Type()))
			return
		}
		sl := reflect.MakeSlice(v.Type(), len(s.L), len(s.L))
		for i := range s.L {
			Fill(sl.Index(i), s.L[i])
		}
		v.Set(sl)
	case reflect.Map:
		if s.K == "nil" {
			v.Set(reflect.Zero(v.Type()))
			return
		}
		m := reflect.MakeMapWithSize(v.Type(), len(s.M))
		for _, kv := range s.M {
			k := reflect.New(v.Type().Key()).Elem()
			e := reflect.New(v.Type().Elem()).Elem()
			Fill(k, kv[0])
			Fill(e, kv[1])
			m.SetMapIndex(k, e)
		}
		v.Set(m)
	case reflect.Int, reflect.Int8, reflect.Int16, reflect.Int32, reflect.Int64:
		v.SetInt(s.I)
	case reflect.Uint, reflect.Uint8, reflect.Uint16, reflect.Uint32, reflect.Uint64:
		v.SetUint(s.U)
	case reflect.Float32:
		v.SetFloat(float64(math.Float32frombits(uint32(s.U))))
	case reflect.Float64:
		v.SetFloat(math.Float64frombits(s.U))
	case reflect.Bool:
		v.SetBool(s.I != 0)
	case reflect.String:
		v.SetString(string(s.S))
	default:
		panic("c10rt.Fill: unsupported kind " + v.Kind().String())
	}
}

// Dump prints a value as a term of the Coq type Values.sval. nil and empty
// slices / maps / byte strings are the same value (protobuf cannot tell them apart).
func Dump(v reflect.Value) string {
	switch v.Kind() {
	case reflect.Invalid:
		return "SNil"
	case reflect.Interface:
		if v.IsNil() {
			return "SNil"
		}
		return Dump(v.Elem())
	case reflect.Ptr:
		if v.IsNil() {
			return "SNil"
		}
		return Dump(v.Elem())
	case reflect.Struct:
		var fs []string
		for f := 0; f < v.NumField(); f++ {
			if v.Type().Field(f).IsExported() {
				fs = append(fs, Dump(v.Field(f)))
			}
		}
		return "(SObj [" + strings.Join(fs, "; ") + "])"
	case reflect.Slice:
		if v.Type().Elem().Kind() == reflect.Uint8 {
			return dumpBytes(v.Bytes())
		}
		var es []string
		for i := 0; i < v.Len(); i++ {
			es = append(es, Dump(v.Index(i)))
		}
		return "(SList [" + strings.Join(es, "; ") + "])"
	case reflect.Map:
		var es []string
		for _, k := range v.MapKeys() {
			es = append(es, "("+Dump(k)+", "+Dump(v.MapIndex(k))+")")
		}
		sort.Strings(es)
		return "(SMap [" + strings.Join(es, "; ") + "])"
	case reflect.Int, reflect.Int8, reflect.Int16, reflect.Int32, reflect.Int64:
		return fmt.Sprintf("(SInt (%d))", v.Int())
	case reflect.Uint, reflect.Uint8, reflect.Uint16, reflect.Uint32, reflect.Uint64:
		return fmt.Sprintf("(SInt %d)", v.Uint())
	case reflect.Float32:
		return fmt.Sprintf("(SInt %d)", math.Float32bits(float32(v.Float())))
	case reflect.Float64:
		return fmt.Sprintf("(SInt %d)", math.Float64bits(v.Float()))
	case reflect.Bool:
		if v.Bool() {
			return "(SInt 1)"
		}
		return "(SInt 0)"
	case reflect.String:
		return dumpBytes([]byte(v.String()))
	}
	panic("c10rt.Dump: unsupported kind " + v.Kind().String())
}

func dumpBytes(b []byte) string {
	if len(b) == 0 {
		return "(SStr [])"
	}
	ss := make([]string, len(b))
	for i, c := range b {
		ss[i] = fmt.Sprint(c)
	}
	return "(SStr [" + strings.Join(ss, ";") + "])" // (Z_scope is open in the case files)
}

// fakeStream is the server transport stream goa's handler sends headers and
// trailers to (grpc.SendHeader / grpc.SetTrailer look it up in the context).
type fakeStream struct {
	hdr, trlr metadata.MD
}

func (s *fakeStream) Method() string { return "/c10/tierb" }
func (s *fakeStream) SetHeader(md metadata.MD) error {
	s.hdr = metadata.Join(s.hdr, md)
	return nil
}
func (s *fakeStream) SendHeader(md metadata.MD) error {
	s.hdr = metadata.Join(s.hdr, md)
	return nil
}
func (s *fakeStream) SetTrailer(md metadata.MD) error {
	s.trlr = metadata.Join(s.trlr, md)
	return nil
}

// Case is one (payload, result) pair to push through a method.
type Case struct {
	ID      int  `json:"id"`
	Payload Spec `json:"payload"`
	Result  Spec `json:"result"`
	// DropMD: a request metadata key removed between the client encoder and the server
	// (a client that does not send a required metadata attribute)
	DropMD string `json:"drop_md,omitempty"`
}

// Method is what a generated driver hands over for one unary method.
type Method struct {
	Design, Index int
	Name          string
	PayloadType   reflect.Type
	ResultType    reflect.Type
	EncReq        func(context.Context, any, *metadata.MD) (any, error)
	DecReq        func(context.Context, any, metadata.MD) (any, error)
	EncResp       func(context.Context, any, *metadata.MD, *metadata.MD) (any, error)
	DecResp       func(context.Context, any, metadata.MD, metadata.MD) (any, error)
	Cases         string // JSON []Case
}

// Obs is one observation line.
type Obs struct {
	Design     int    `json:"design"`
	Method     int    `json:"method"`
	Case       int    `json:"case"`
	Stage      string `json:"stage"` // where the flow stopped: encode-request | handler | decode-response | done | panic
	Err        string `json:"err,omitempty"`
	Called     bool   `json:"called"`           // the endpoint (user code) ran
	PayloadIn  string `json:"payload_in"`       // dump of the payload the client sent
	PayloadGot string `json:"payload_got"`      // dump of what the endpoint received
	ReqMsg     string `json:"request_message"`  // dump of the (stand-in) protobuf request message
	MD         string `json:"request_metadata"` // request metadata
	ResultIn   string `json:"result_in"`        // dump of the result the endpoint returned
	RespMsg    string `json:"response_message"` // dump of the (stand-in) protobuf response message
	ResultGot  string `json:"result_got"`       // dump of what the client decoded
	Hdr        string `json:"header_metadata"`  // response header metadata
	Trlr       string `json:"trailer_metadata"` // response trailer metadata
}

func mdString(md metadata.MD) string {
	var ks []string
	for k := range md {
		ks = append(ks, k)
	}
	sort.Strings(ks)
	var b strings.Builder
	for _, k := range ks {
		fmt.Fprintf(&b, "%s=%q;", k, md[k])
	}
	return b.String()
}

// RunUnary executes every case of the method and writes one JSON line per case.
func RunUnary(out io.Writer, m Method) {
	var cases []Case
	if err := json.Unmarshal([]byte(m.Cases), &cases); err != nil {
		panic(err)
	}
	enc := json.NewEncoder(out)
	for _, c := range cases {
		o := Obs{Design: m.Design, Method: m.Index, Case: c.ID}
		func() {
			defer func() {
				if r := recover(); r != nil {
					o.Stage, o.Err = "panic", fmt.Sprint(r)
				}
			}()
			pv := reflect.New(m.PayloadType).Elem()
			Fill(pv, c.Payload)
			rv := reflect.New(m.ResultType).Elem()
			Fill(rv, c.Result)
			o.PayloadIn, o.ResultIn = Dump(pv), Dump(rv)
			ctx := context.Background()
			md := metadata.MD{}
			reqMsg, err := m.EncReq(ctx, pv.Interface(), &md)
			if err != nil {
				o.Stage, o.Err = "encode-request", err.Error()
				return
			}
			if c.DropMD != "" {
				md.Delete(c.DropMD)
			}
			o.ReqMsg, o.MD = Dump(reflect.ValueOf(reqMsg)), mdString(md)
			fs := &fakeStream{hdr: metadata.MD{}, trlr: metadata.MD{}}
			sctx := grpc.NewContextWithServerTransportStream(metadata.NewIncomingContext(ctx, md), fs)
			endpoint := func(_ context.Context, req any) (any, error) {
				o.Called = true
				o.PayloadGot = Dump(reflect.ValueOf(req))
				return rv.Interface(), nil
			}
			h := goagrpc.NewUnaryHandler(endpoint, m.DecReq, m.EncResp)
			respMsg, err := h.Handle(sctx, reqMsg)
			if err != nil {
				o.Stage, o.Err = "handler", err.Error()
				return
			}
			o.Hdr, o.Trlr = mdString(fs.hdr), mdString(fs.trlr)
			o.RespMsg = Dump(reflect.ValueOf(respMsg))
			res, err := m.DecResp(ctx, respMsg, fs.hdr, fs.trlr)
			if err != nil {
				o.Stage, o.Err = "decode-response", err.Error()
				return
			}
			o.ResultGot = Dump(reflect.ValueOf(res))
			o.Stage = "done"
		}()
		if err := enc.Encode(&o); err != nil {
			panic(err)
		}
	}
}
