package main

// Replay: `bin/check C04|C14 --replay file` re-runs the single exchange recorded in a
// replay file (design description, method, payload / result / raw request) against the
// current working tree.

import (
	"encoding/json"
	"os"

	dg "verifharness/designgen"
	"verifharness/tierb/rt"
)

type replayFile struct {
	Input struct {
		Design     *dg.Design `json:"design"`
		Service    string     `json:"service"`
		Method     string     `json:"method"`
		Mutation   string     `json:"mutation"`
		Site       string     `json:"site"`
		Side       string     `json:"side"`
		Payload    *dg.Val    `json:"payload"`
		Result     *dg.Val    `json:"result"`
		Raw        *rt.RawReq `json:"raw"`
		DecodeFail bool       `json:"decode_fail"`
	} `json:"input"`
}

func loadReplay(p string) (*dg.Design, *stepInfo) {
	b, err := os.ReadFile(p)
	if err != nil {
		panic(err)
	}
	var rf replayFile
	if err := json.Unmarshal(b, &rf); err != nil {
		panic(err)
	}
	in := rf.Input
	if in.Design == nil {
		panic("replay file carries no design")
	}
	side := in.Side
	if side == "" {
		side = "request"
	}
	return in.Design, &stepInfo{Stream: "replay", Side: side, Service: in.Service, Method: in.Method, Desc: in.Mutation, Site: in.Site,
		Payload: in.Payload, Result: in.Result, Raw: in.Raw, DecodeFail: in.DecodeFail}
}

func pushReplay(d *dg.Design, it *built, ri *stepInfo, push func(rt.Step, *stepInfo) int) {
	for _, s := range d.Services {
		if s.Name != ri.Service {
			continue
		}
		for _, m := range s.Methods {
			if m.Name != ri.Method {
				continue
			}
			si := *ri
			si.Design, si.DKey, si.DName, si.M = d, it.bu.Key, d.Name, m
			st := rt.Step{Design: it.bu.Key, Service: s.Name, Method: m.Name, Raw: ri.Raw}
			if m.Payload != nil && ri.Raw == nil {
				st.Payload = d.ToTree(&m.Payload.T, ri.Payload)
			}
			if m.Payload != nil && si.Side == "request" && !si.DecodeFail {
				si.Expected = evalAttr(d, m.Payload, ri.Payload, "payload")
			}
			if m.Result != nil {
				st.Result = d.ToTree(&m.Result.T, ri.Result)
				if isViewed(d, m) && m.ResultView == "" {
					st.View = "default"
				}
				if si.Side == "result" {
					si.Expected = evalAttr(d, m.Result, ri.Result, "result")
				}
			}
			push(st, &si)
		}
	}
}
