package main

import (
	"fmt"
	"strings"

	"goa.design/goa/v3/expr"

	"verifharness/vh"
)

// routingCase prints, for one endpoint, the inputs and the outputs of goa's httpRequestBody
// and initAttr as a Coq term of type RunRouting.rcase_t (without its index): the method
// payload as the two lists goa keeps (named attributes, required names), the names mapped to
// headers / cookies / parameters, MapParams and the credential attributes of the required
// schemes; then the finalized request body and, per mapped element, its IsRequired flag and
// the kind of its type. Attribute names are numbered in payload order. ok = false: the
// endpoint is outside the routing model (explicit Body, union payload, no payload).
func routingCase(root *expr.RootExpr, e *expr.HTTPEndpointExpr) (term string, ok bool) {
	if e.MethodExpr == nil || e.MethodExpr.Payload == nil || e.Body == nil {
		return "", false
	}
	if _, explicit := e.Body.Meta["http:body"]; explicit {
		return "", false
	}
	payload := e.MethodExpr.Payload
	if expr.IsUnion(payload.Type) || payload.Type == expr.Empty {
		return "", false
	}
	ids := map[string]int{}
	id := func(n string) int {
		if i := strings.IndexByte(n, ':'); i >= 0 {
			n = n[:i]
		}
		if v, ok := ids[n]; ok {
			return v
		}
		ids[n] = len(ids)
		return ids[n]
	}
	kind := func(a *expr.AttributeExpr) int {
		if a == nil || a.Type == nil {
			return 0
		}
		// primitive alias types are inlined in body types: the kind is that of the aliased primitive
		t := a.Type
		for i := 0; i < 8 && expr.IsAlias(t); i++ {
			t = t.(expr.UserType).Attribute().Type
		}
		return int(t.Kind()) + 1
	}
	nats := func(xs []int) string {
		var ls []string
		for _, x := range xs {
			ls = append(ls, fmt.Sprint(x))
		}
		return vh.CoqList(ls)
	}
	// the attribute that holds the object and its Required list
	holder := func(a *expr.AttributeExpr) *expr.AttributeExpr {
		for i := 0; i < 8; i++ {
			ut, isUT := a.Type.(expr.UserType)
			if !isUT {
				break
			}
			a = ut.Attribute()
		}
		return a
	}
	mattr := func(a *expr.AttributeExpr) string {
		h := holder(a)
		var fs []string
		for _, nat := range *expr.AsObject(h.Type) {
			fs = append(fs, fmt.Sprintf("(%d, %d)", id(nat.Name), kind(nat.Attribute)))
		}
		var req []int
		if h.Validation != nil {
			for _, r := range h.Validation.Required {
				req = append(req, id(r))
			}
		}
		return fmt.Sprintf("(mkMA %s %s)", vh.CoqList(fs), nats(req))
	}
	var pterm string
	isObj := expr.IsObject(payload.Type)
	if isObj {
		pterm = "(PObj " + mattr(payload) + ")"
	} else {
		pterm = fmt.Sprintf("(PNonObj %d)", kind(payload))
	}
	names := func(ma *expr.MappedAttributeExpr) []int {
		var out []int
		if ma == nil {
			return nil
		}
		if o := expr.AsObject(ma.Type); o != nil {
			for _, nat := range *o {
				out = append(out, id(nat.Name))
			}
		}
		return out
	}
	mapq := "None"
	if e.MapQueryParams != nil {
		if *e.MapQueryParams == "" {
			mapq = "(Some None)"
		} else {
			mapq = fmt.Sprintf("(Some (Some %d))", id(*e.MapQueryParams))
		}
	}
	// defaultRequestHeaderAttributes: the tagged attributes of the schemes the endpoint requires
	var reqs []*expr.SecurityExpr
	reqs = append(reqs, e.MethodExpr.Requirements...)
	if e.Service != nil && e.Service.ServiceExpr != nil {
		reqs = append(reqs, e.Service.ServiceExpr.Requirements...)
	}
	if root.API != nil {
		reqs = append(reqs, root.API.Requirements...)
	}
	seen := map[string]bool{}
	var creds []int
	addCred := func(tag string) {
		n := expr.TaggedAttribute(payload, tag)
		if n == "" || seen[n] {
			return
		}
		seen[n] = true
		creds = append(creds, id(n))
	}
	for _, rq := range reqs {
		for _, sch := range rq.Schemes {
			switch sch.Kind {
			case expr.BasicAuthKind:
				addCred("security:username")
				addCred("security:password")
			case expr.APIKeyKind:
				addCred("security:apikey:" + sch.SchemeName)
			case expr.JWTKind:
				addCred("security:token")
			case expr.OAuth2Kind:
				addCred("security:accesstoken")
			}
		}
	}
	rterm := fmt.Sprintf("(mkRt %s %s %s %s %s)", nats(names(e.Headers)), nats(names(e.Cookies)), nats(names(e.Params)), mapq, nats(creds))
	// observed
	var bterm string
	switch {
	case e.Body.Type == expr.Empty:
		bterm = "RBEmpty"
	case !isObj:
		bterm = fmt.Sprintf("(RBWhole %d)", kind(e.Body))
	default:
		if expr.AsObject(holder(e.Body).Type) == nil {
			return "", false
		}
		bterm = "(RBObj " + mattr(e.Body) + ")"
	}
	var es []string
	for _, ma := range []*expr.MappedAttributeExpr{e.Params, e.Headers, e.Cookies} {
		if ma == nil {
			continue
		}
		if o := expr.AsObject(ma.Type); o != nil {
			for _, nat := range *o {
				if isObj && expr.AsObject(holder(payload).Type).Attribute(nat.Name) == nil {
					continue // not a payload attribute (initAttr leaves it alone)
				}
				es = append(es, fmt.Sprintf("(%d, %s, %d)", id(nat.Name), vh.CoqBool(ma.IsRequired(nat.Name)), kind(nat.Attribute)))
			}
		}
	}
	return fmt.Sprintf("%s, %s, %s, %s)", pterm, rterm, bterm, vh.CoqList(es)), true
}
