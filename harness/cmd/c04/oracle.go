package main

// The independent evaluator of a design's validations: the property's own reading
// ("a constraint binds an attribute when it is present; required attributes must be
// present"), written over the design DESCRIPTION (designgen types), not over goa's
// expressions or templates. Pattern and format use Go's regexp and goa.ValidateFormat
// as oracles; string lengths are counted in code points by converting to []rune.

import (
	"encoding/hex"
	"fmt"
	"math/big"
	"net/netip"
	"regexp"
	"strings"

	goa "goa.design/goa/v3/pkg"

	dg "verifharness/designgen"
)

// Viol is one violated rule.
type Viol struct {
	Name string `json:"name"` // goa error name the rule is reported under
	Kw   string `json:"kw"`   // required enum format pattern min max xmin xmax minlen maxlen
	Path string `json:"path"` // attribute path in the payload
	On   string `json:"on"`   // kind of the constrained attribute: string number bool bytes array map object
}

var kwName = map[string]string{
	"required": "missing_field", "enum": "invalid_enum_value", "format": "invalid_format", "pattern": "invalid_pattern",
	"min": "invalid_range", "max": "invalid_range", "xmin": "invalid_range", "xmax": "invalid_range",
	"minlen": "invalid_length", "maxlen": "invalid_length",
}

func ratOf(v *dg.Val) *big.Rat {
	switch v.K {
	case "int":
		return new(big.Rat).SetInt64(v.I)
	case "uint":
		return new(big.Rat).SetInt(new(big.Int).SetUint64(v.U))
	case "float":
		r := new(big.Rat)
		if r.SetFloat64(v.F) == nil {
			return nil
		}
		return r
	}
	return nil
}

func ratF(f float64) *big.Rat { r := new(big.Rat); r.SetFloat64(f); return r }

func anyRat(x any) *big.Rat {
	switch t := x.(type) {
	case int:
		return new(big.Rat).SetInt64(int64(t))
	case int64:
		return new(big.Rat).SetInt64(t)
	case float64:
		return ratF(t)
	}
	return nil
}

var reCache = map[string]*regexp.Regexp{}

func patMatch(p, s string) bool {
	re, ok := reCache[p]
	if !ok {
		re = regexp.MustCompile(p)
		reCache[p] = re
	}
	return re.MatchString(s)
}

// fmtOK: does s conform to format f? For the formats whose meaning is fixed outside goa
// (ipv4: a dotted quad, ipv6: an IPv6 literal - IPv4-mapped ones included - per the OpenAPI
// format registry) the answer is computed independently with net/netip; the other format
// names are goa's own and goa.ValidateFormat is their oracle (their exactness is C17's).
func fmtOK(f, s string) bool {
	switch f {
	case "ipv4":
		a, err := netip.ParseAddr(s)
		return err == nil && a.Is4()
	case "ipv6":
		a, err := netip.ParseAddr(s)
		return err == nil && a.Is6() && a.Zone() == ""
	}
	return goa.ValidateFormat("x", s, goa.Format(f)) == nil
}

func kindOn(bt *dg.Type) string {
	switch bt.Kind {
	case "prim":
		switch bt.Prim {
		case "String":
			return "string"
		case "Bytes":
			return "bytes"
		case "Boolean":
			return "bool"
		case "Any":
			return "any"
		}
		return "number"
	case "array", "collection":
		return "array"
	case "map":
		return "map"
	}
	return "object"
}

// evalAttr returns the rules of attribute a violated by value v (nil / null = absent:
// nothing to check here; the enclosing object decides whether absence is allowed).
func evalAttr(d *dg.Design, a *dg.Attr, v *dg.Val, path string) []Viol {
	if v == nil || v.K == "null" {
		return nil
	}
	bt, val := d.Effective(a)
	on := kindOn(bt)
	var out []Viol
	add := func(kw string) { out = append(out, Viol{Name: kwName[kw], Kw: kw, Path: path, On: on}) }
	lenChecks := func(n int) {
		if val.MinLen != nil && n < *val.MinLen {
			add("minlen")
		}
		if val.MaxLen != nil && n > *val.MaxLen {
			add("maxlen")
		}
	}
	switch bt.Kind {
	case "prim":
		switch on {
		case "string":
			if v.K != "string" {
				return out
			}
			if len(val.Enum) > 0 {
				found := false
				for _, e := range val.Enum {
					if s, ok := e.(string); ok && s == v.S {
						found = true
					}
				}
				if !found {
					add("enum")
				}
			}
			if val.Format != "" && !fmtOK(val.Format, v.S) {
				add("format")
			}
			if val.Pattern != "" && !patMatch(val.Pattern, v.S) {
				add("pattern")
			}
			lenChecks(len([]rune(v.S)))
		case "number":
			q := ratOf(v)
			if q == nil {
				return out
			}
			if len(val.Enum) > 0 {
				found := false
				for _, e := range val.Enum {
					if r := anyRat(e); r != nil && r.Cmp(q) == 0 {
						found = true
					}
				}
				if !found {
					add("enum")
				}
			}
			if val.ExclMin != nil && !(q.Cmp(ratF(*val.ExclMin)) > 0) {
				add("xmin")
			}
			if val.Min != nil && !(q.Cmp(ratF(*val.Min)) >= 0) {
				add("min")
			}
			if val.ExclMax != nil && !(q.Cmp(ratF(*val.ExclMax)) < 0) {
				add("xmax")
			}
			if val.Max != nil && !(q.Cmp(ratF(*val.Max)) <= 0) {
				add("max")
			}
		case "bytes":
			if b, err := hex.DecodeString(v.S); err == nil {
				lenChecks(len(b))
			}
		case "bool":
			if len(val.Enum) > 0 {
				found := false
				for _, e := range val.Enum {
					if b, ok := e.(bool); ok && b == v.B {
						found = true
					}
				}
				if !found {
					add("enum")
				}
			}
		}
	case "array", "collection":
		lenChecks(len(v.Elems))
		var ea *dg.Attr
		if bt.Kind == "collection" {
			ea = &dg.Attr{T: dg.Type{Kind: "user", Ref: bt.Ref}}
		} else {
			ea = bt.Elem
		}
		for i, e := range v.Elems {
			out = append(out, evalAttr(d, ea, e, fmt.Sprintf("%s[%d]", path, i))...)
		}
	case "map":
		lenChecks(len(v.Keys))
		for i := range v.Keys {
			out = append(out, evalAttr(d, bt.Key, v.Keys[i], path+".key")...)
			out = append(out, evalAttr(d, bt.Elem, v.Elems[i], path+"[key]")...)
		}
	case "object", "user":
		for _, f := range d.AllFields(&a.T) {
			fv := v.Get(f.Name)
			if fv == nil || fv.K == "null" {
				if f.Required {
					out = append(out, Viol{Name: "missing_field", Kw: "required", Path: path + "." + f.Name, On: kindOn(baseOf(d, &f.A))})
				}
				continue
			}
			out = append(out, evalAttr(d, &f.A, fv, path+"."+f.Name)...)
		}
	}
	return out
}

func baseOf(d *dg.Design, a *dg.Attr) *dg.Type { bt, _ := d.Effective(a); return bt }

// absentCollectionMinLen reports whether the value leaves unset an OPTIONAL array / map
// attribute that carries MinLength > 0 (the recorded finding's signature), anywhere.
func absentCollectionMinLen(d *dg.Design, a *dg.Attr, v *dg.Val) bool {
	if v == nil || v.K == "null" {
		return false
	}
	bt, _ := d.Effective(a)
	switch bt.Kind {
	case "array":
		for _, e := range v.Elems {
			if absentCollectionMinLen(d, bt.Elem, e) {
				return true
			}
		}
	case "collection":
		for _, e := range v.Elems {
			if absentCollectionMinLen(d, &dg.Attr{T: dg.Type{Kind: "user", Ref: bt.Ref}}, e) {
				return true
			}
		}
	case "map":
		for _, e := range v.Elems {
			if absentCollectionMinLen(d, bt.Elem, e) {
				return true
			}
		}
	case "object", "user":
		for _, f := range d.AllFields(&a.T) {
			fv := v.Get(f.Name)
			if fv == nil || fv.K == "null" {
				fbt, fval := d.Effective(&f.A)
				if !f.Required && (fbt.Kind == "array" || fbt.Kind == "map") && fval.MinLen != nil && *fval.MinLen > 0 {
					return true
				}
				continue
			}
			if absentCollectionMinLen(d, &f.A, fv) {
				return true
			}
		}
	}
	return false
}

func violNames(vs []Viol) []string {
	seen := map[string]bool{}
	var out []string
	for _, v := range vs {
		if !seen[v.Name] {
			seen[v.Name] = true
			out = append(out, v.Name)
		}
	}
	return out
}

func violString(vs []Viol) string {
	var ss []string
	for _, v := range vs {
		ss = append(ss, v.Kw+"@"+v.Path)
	}
	return strings.Join(ss, ",")
}

// ---- classifiers of the recorded findings (they look at the design description only)

// attrAt walks the design along an evaluator path ("payload.a[0].b[key].c") and returns
// the attributes met on the way (outermost first).
func attrsAlong(d *dg.Design, a *dg.Attr, path string) []*dg.Attr {
	out := []*dg.Attr{a}
	i := strings.IndexAny(path, ".[")
	if i < 0 {
		return out
	}
	rest := path[i:]
	cur := a
	for rest != "" && cur != nil {
		bt, _ := d.Effective(cur)
		switch {
		case strings.HasPrefix(rest, ".key"):
			cur = bt.Key
			rest = rest[4:]
		case strings.HasPrefix(rest, "[key]"):
			cur = bt.Elem
			rest = rest[5:]
		case rest[0] == '[':
			j := strings.Index(rest, "]")
			if bt.Kind == "collection" {
				cur = &dg.Attr{T: dg.Type{Kind: "user", Ref: bt.Ref}}
			} else {
				cur = bt.Elem
			}
			rest = rest[j+1:]
		case rest[0] == '.':
			j := strings.IndexAny(rest[1:], ".[")
			name := rest[1:]
			if j >= 0 {
				name = rest[1 : j+1]
			}
			var next *dg.Attr
			for _, f := range d.AllFields(&cur.T) {
				if f.Name == name {
					next = &f.A
				}
			}
			cur = next
			rest = rest[1+len(name):]
		default:
			return out
		}
		if cur != nil {
			out = append(out, cur)
		}
	}
	return out
}

// bothExclusive: the attribute at path carries ExclusiveMinimum and ExclusiveMaximum.
func bothExclusive(d *dg.Design, a *dg.Attr, v *dg.Val, path string) bool {
	if a == nil {
		return false
	}
	as := attrsAlong(d, a, path)
	_, val := d.Effective(as[len(as)-1])
	return val.ExclMin != nil && val.ExclMax != nil
}
