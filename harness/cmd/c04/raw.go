package main

// Wire-level mutants: requests the generated client cannot express (a required key
// missing, null, a value of the wrong JSON type, a malformed parameter, no body) are
// sent as raw requests obtained by editing the tapped request of the conforming
// exchange of the same method.

import (
	"bytes"
	"encoding/base64"
	"encoding/json"
	"fmt"
	"net/url"
	"strings"

	dg "verifharness/designgen"
	"verifharness/tierb/rt"
	"verifharness/vh"
)

type rawMut struct {
	raw  *rt.RawReq
	info *stepInfo
}

func wireBody(w *rt.Wire) []byte {
	if strings.HasPrefix(w.Body, "base64:") {
		b, _ := base64.StdEncoding.DecodeString(strings.TrimPrefix(w.Body, "base64:"))
		return b
	}
	return []byte(w.Body)
}

func baseRaw(w *rt.Wire) *rt.RawReq {
	h := map[string][]string{}
	for k, v := range w.Headers {
		if k == "Content-Length" {
			continue
		}
		h[k] = append([]string{}, v...)
	}
	t := w.Path
	if w.Query != "" {
		t += "?" + w.Query
	}
	return &rt.RawReq{Method: w.Method, Target: t, Headers: h, Body: base64.StdEncoding.EncodeToString(wireBody(w))}
}

func cloneRaw(r *rt.RawReq) *rt.RawReq {
	c := *r
	c.Headers = map[string][]string{}
	for k, v := range r.Headers {
		c.Headers[k] = append([]string{}, v...)
	}
	return &c
}

func wireNameOf(es []dg.MapEntry, attr string) string {
	for _, e := range es {
		if e.Attr == attr {
			if e.Wire != "" {
				return e.Wire
			}
			return e.Attr
		}
	}
	return attr
}

// jsonPath turns a value path into the keys / indexes of the JSON document (map
// values are addressed by the JSON form of their key).
func jsonPath(root *dg.Val, path []pstep) ([]any, bool) {
	var out []any
	cur := root
	for _, p := range path {
		if cur == nil {
			return nil, false
		}
		switch p.Kind {
		case 'f':
			out = append(out, p.Field)
			cur = cur.Get(p.Field)
		case 'i':
			out = append(out, p.Idx)
			if p.Idx >= len(cur.Elems) {
				return nil, false
			}
			cur = cur.Elems[p.Idx]
		case 'v':
			if p.Idx >= len(cur.Keys) {
				return nil, false
			}
			k := cur.Keys[p.Idx]
			switch k.K {
			case "string":
				out = append(out, k.S)
			case "int":
				out = append(out, fmt.Sprint(k.I))
			case "uint":
				out = append(out, fmt.Sprint(k.U))
			default:
				return nil, false
			}
			cur = cur.Elems[p.Idx]
		default:
			return nil, false
		}
	}
	return out, true
}

// jsonEdit applies fn to the container holding the last key of path inside the
// decoded JSON document root and returns the new document.
func jsonEdit(root any, path []any, fn func(container any, key any) any) (any, bool) {
	if len(path) == 0 {
		return nil, false
	}
	var rec func(cur any, i int) (any, bool)
	rec = func(cur any, i int) (any, bool) {
		k := path[i]
		switch c := cur.(type) {
		case map[string]any:
			ks, ok := k.(string)
			if !ok {
				return nil, false
			}
			if i == len(path)-1 {
				return fn(cur, k), true
			}
			child, ok := c[ks]
			if !ok {
				return nil, false
			}
			nc, ok := rec(child, i+1)
			if !ok {
				return nil, false
			}
			out := map[string]any{}
			for kk, vv := range c {
				out[kk] = vv
			}
			out[ks] = nc
			return out, true
		case []any:
			idx, ok := k.(int)
			if !ok || idx >= len(c) {
				return nil, false
			}
			if i == len(path)-1 {
				return fn(cur, k), true
			}
			nc, ok := rec(c[idx], i+1)
			if !ok {
				return nil, false
			}
			out := append([]any{}, c...)
			out[idx] = nc
			return out, true
		}
		return nil, false
	}
	return rec(root, 0)
}

func rawMutants(si *stepInfo, req *rt.Wire, rng *vh.RNG, limit int) []rawMut {
	d, m := si.Design, si.M
	if m.Payload == nil || si.Payload == nil {
		return nil
	}
	locOf, rootLoc := locator(m)
	var ss []site
	ss = append(ss, site{attr: m.Payload, val: si.Payload, loc: rootLoc})
	sites(d, m.Payload, si.Payload, nil, rootLoc, 0, locOf, &ss)
	base := baseRaw(req)
	var out []rawMut
	mk := func(raw *rt.RawReq, desc, site string, nv *dg.Val, decodeFail bool) {
		info := &stepInfo{Stream: si.Stream, Side: "request", Design: d, DKey: si.DKey, DName: si.DName, Service: si.Service, Method: si.Method, M: m,
			Desc: desc, Site: site, Payload: nv, Result: si.Result, Raw: raw, DecodeFail: decodeFail}
		if !decodeFail {
			info.Expected = evalAttr(d, m.Payload, nv, "payload")
		}
		out = append(out, rawMut{raw, info})
	}
	lossOK := func(nv *dg.Val) bool {
		return !absentCollectionMinLen(d, m.Payload, nv) || absentCollectionMinLen(d, m.Payload, si.Payload)
	}

	// ---- body edits
	body := wireBody(req)
	var doc any
	dec := json.NewDecoder(bytes.NewReader(body))
	dec.UseNumber()
	isJSON := len(body) > 0 && dec.Decode(&doc) == nil
	bodyIsPayload := m.Payload.T.Kind != "object" // user type / primitive / array payloads are the body itself
	setBody := func(nd any) *rt.RawReq {
		r := cloneRaw(base)
		b, _ := json.Marshal(nd)
		r.Body = base64.StdEncoding.EncodeToString(b)
		return r
	}
	if isJSON {
		for _, s := range ss {
			if s.loc != "body" || s.val == nil || s.val.K == "null" || len(s.path) == 0 {
				continue
			}
			jp, okp := jsonPath(si.Payload, s.path)
			if !okp {
				continue
			}
			_ = bodyIsPayload
			ps := pathString(s.path)
			bt, _ := d.Effective(s.attr)
			if s.isField {
				nv := replaceAt(si.Payload, s.path, nil)
				if lossOK(nv) {
					if nd, ok := jsonEdit(doc, jp, func(c any, k any) any {
						o := map[string]any{}
						for kk, vv := range c.(map[string]any) {
							if kk != k.(string) {
								o[kk] = vv
							}
						}
						return o
					}); ok {
						mk(setBody(nd), "raw:delete-key", ps, nv, false)
					}
					if nd, ok := jsonEdit(doc, jp, func(c any, k any) any {
						o := map[string]any{}
						for kk, vv := range c.(map[string]any) {
							o[kk] = vv
						}
						o[k.(string)] = nil
						return o
					}); ok {
						mk(setBody(nd), "raw:null", ps, nv, false)
					}
				}
			}
			put := func(x any, desc string) {
				if nd, ok := jsonEdit(doc, jp, func(c any, k any) any {
					switch cc := c.(type) {
					case map[string]any:
						o := map[string]any{}
						for kk, vv := range cc {
							o[kk] = vv
						}
						o[k.(string)] = x
						return o
					case []any:
						o := append([]any{}, cc...)
						o[k.(int)] = x
						return o
					}
					return c
				}); ok {
					mk(setBody(nd), desc, ps, si.Payload, true)
				}
			}
			switch bt.Kind {
			case "prim":
				switch {
				case bt.Prim == "String":
					put(json.Number("12345"), "raw:wrong-type:number-for-string")
				case bt.Prim == "Boolean":
					put("yes", "raw:wrong-type:string-for-bool")
				case bt.Prim == "Bytes":
					put(json.Number("7"), "raw:wrong-type:number-for-bytes")
				case isIntPrim(bt.Prim):
					put("str", "raw:wrong-type:string-for-int")
					put(json.Number("1.5"), "raw:fraction-for-int")
					if bt.Prim == "Int32" {
						put(json.Number("1099511627776"), "raw:overflow-int32")
					}
				case isUintPrim(bt.Prim):
					put(json.Number("-1"), "raw:negative-for-uint")
					put(true, "raw:wrong-type:bool-for-uint")
				case isFloatPrim(bt.Prim):
					put("1.5", "raw:wrong-type:string-for-float")
				}
			case "array":
				put(map[string]any{"a": 1}, "raw:wrong-type:object-for-array")
			case "map":
				put([]any{1}, "raw:wrong-type:array-for-map")
			case "object", "user":
				put([]any{1}, "raw:wrong-type:array-for-object")
			}
		}
		// an UNDECLARED property added to the body object, to a nested user type, to an array element,
		// to a map value: the design does not forbid it and the document does not say additionalProperties: false
		{
			addExtra := func(jp []any, ps string) {
				var nd any
				ok := true
				extra := func(c any) any {
					cm, isObj := c.(map[string]any)
					if !isObj {
						ok = false
						return c
					}
					o := map[string]any{}
					for kk, vv := range cm {
						o[kk] = vv
					}
					o["zz_undeclared"] = json.Number("7")
					return o
				}
				if len(jp) == 0 {
					nd = extra(doc)
				} else {
					var found bool
					nd, found = jsonEdit(doc, jp, func(c any, k any) any {
						switch cc := c.(type) {
						case map[string]any:
							o := map[string]any{}
							for kk, vv := range cc {
								o[kk] = vv
							}
							o[k.(string)] = extra(cc[k.(string)])
							return o
						case []any:
							o := append([]any{}, cc...)
							if k.(int) < len(o) {
								o[k.(int)] = extra(o[k.(int)])
							}
							return o
						}
						ok = false
						return c
					})
					ok = ok && found
				}
				if ok {
					mk(setBody(nd), "raw:extra-property", ps, si.Payload, false)
				}
			}
			if _, isObj := doc.(map[string]any); isObj && (m.Payload.T.Kind == "object" || m.Payload.T.Kind == "user") {
				addExtra(nil, "")
			}
			n := 0
			for _, s := range ss {
				if s.loc != "body" || s.val == nil || s.val.K != "object" || len(s.path) == 0 || n >= 6 {
					continue
				}
				if bt, _ := d.Effective(s.attr); bt.Kind != "object" {
					continue
				}
				if jp, okp := jsonPath(si.Payload, s.path); okp {
					addExtra(jp, pathString(s.path))
					n++
				}
			}
		}
		// whole-body edits
		nv := si.Payload
		if m.Payload.T.Kind == "object" || m.Payload.T.Kind == "user" {
			nv = si.Payload.Clone()
			for _, f := range d.AllFields(&m.Payload.T) {
				if locOf(f.Name) == "body" {
					nv.Unset(f.Name)
				}
			}
			if lossOK(nv) {
				r := cloneRaw(base)
				r.Body = ""
				exp := evalAttr(d, m.Payload, nv, "payload")
				// goa requires a declared body to be present (MustHaveBody; openapi3.json says requestBody.required: true)
				info := &stepInfo{Stream: si.Stream, Side: "request", Design: d, DKey: si.DKey, DName: si.DName, Service: si.Service, Method: si.Method, M: m,
					Desc: "raw:empty-body", Payload: nv, Result: si.Result, Raw: r, Expected: exp, DecodeFail: true}
				out = append(out, rawMut{r, info})
			}
		}
		if len(body) >= 2 {
			if tr := body[:len(body)/2]; !json.Valid(tr) {
				r := cloneRaw(base)
				r.Body = base64.StdEncoding.EncodeToString(tr)
				mk(r, "raw:truncated-json", "", si.Payload, true)
			}
			r2 := cloneRaw(base)
			r2.Body = base64.StdEncoding.EncodeToString([]byte("<<<not json>>>"))
			mk(r2, "raw:not-json", "", si.Payload, true)
		}
	}

	// ---- query / header edits (top-level attributes only)
	if m.HTTP != nil && !hasRequiredCookie(d, m) {
		q, _ := url.ParseQuery(req.Query)
		setQuery := func(nq url.Values) *rt.RawReq {
			r := cloneRaw(base)
			r.Target = req.Path
			if enc := nq.Encode(); enc != "" {
				r.Target += "?" + enc
			}
			return r
		}
		cloneQ := func() url.Values {
			nq := url.Values{}
			for k, v := range q {
				nq[k] = append([]string{}, v...)
			}
			return nq
		}
		for _, s := range ss {
			if len(s.path) != 1 || s.val == nil || s.val.K == "null" {
				continue
			}
			name := s.path[0].Field
			bt, _ := d.Effective(s.attr)
			ps := pathString(s.path)
			malformed := ""
			if bt.Kind == "prim" {
				switch {
				case isIntPrim(bt.Prim), isUintPrim(bt.Prim), isFloatPrim(bt.Prim):
					malformed = "12abc"
				case bt.Prim == "Boolean":
					malformed = "maybe"
				}
			} else if bt.Kind == "array" {
				if ebt, _ := d.Effective(bt.Elem); ebt.Kind == "prim" && (isIntPrim(ebt.Prim) || isUintPrim(ebt.Prim) || isFloatPrim(ebt.Prim)) {
					malformed = "x1"
				}
			}
			switch s.loc {
			case "query":
				w := wireNameOf(m.HTTP.Params, name)
				if _, ok := q[w]; !ok {
					continue
				}
				nv := replaceAt(si.Payload, s.path, nil)
				if lossOK(nv) {
					nq := cloneQ()
					nq.Del(w)
					mk(setQuery(nq), "raw:delete-param", ps, nv, false)
				}
				if malformed != "" {
					nq := cloneQ()
					nq[w] = []string{malformed}
					mk(setQuery(nq), "raw:malformed-param", ps, si.Payload, true)
				}
				if bt.Kind == "prim" && isUintPrim(bt.Prim) {
					nq := cloneQ()
					nq[w] = []string{"-1"}
					mk(setQuery(nq), "raw:negative-uint-param", ps, si.Payload, true)
				}
				if bt.Kind == "prim" && isIntPrim(bt.Prim) {
					nq := cloneQ()
					nq[w] = []string{"1.5"}
					mk(setQuery(nq), "raw:fraction-int-param", ps, si.Payload, true)
				}
			case "header":
				w := wireNameOf(m.HTTP.Headers, name)
				found := ""
				for k := range base.Headers {
					if strings.EqualFold(k, w) {
						found = k
					}
				}
				if found == "" {
					continue
				}
				nv := replaceAt(si.Payload, s.path, nil)
				if lossOK(nv) {
					r := cloneRaw(base)
					delete(r.Headers, found)
					mk(r, "raw:delete-header", ps, nv, false)
				}
				if malformed != "" {
					r := cloneRaw(base)
					r.Headers[found] = []string{malformed}
					mk(r, "raw:malformed-header", ps, si.Payload, true)
				}
			case "path":
				if malformed == "" {
					continue
				}
				// replace the segment that carries this variable (aligned from the end of the route)
				route := m.HTTP.Routes[0].Path
				tsegs := strings.Split(strings.Trim(route, "/"), "/")
				psegs := strings.Split(strings.Trim(req.Path, "/"), "/")
				for i, ts := range tsegs {
					if ts == "{"+name+"}" {
						j := len(psegs) - len(tsegs) + i
						if j >= 0 && j < len(psegs) {
							np := append([]string{}, psegs...)
							np[j] = malformed
							r := cloneRaw(base)
							r.Target = "/" + strings.Join(np, "/")
							if req.Query != "" {
								r.Target += "?" + req.Query
							}
							mk(r, "raw:malformed-path-param", ps, si.Payload, true)
						}
					}
				}
			}
		}
	}
	// ---- cookies: omit each cookie the request carries
	if m.HTTP != nil {
		ckKey := ""
		for k := range base.Headers {
			if strings.EqualFold(k, "Cookie") {
				ckKey = k
			}
		}
		if ckKey != "" {
			var pairs []string
			for _, h := range base.Headers[ckKey] {
				for _, p := range strings.Split(h, ";") {
					if p = strings.TrimSpace(p); p != "" {
						pairs = append(pairs, p)
					}
				}
			}
			for _, s := range ss {
				if len(s.path) != 1 || s.loc != "cookie" || s.val == nil || s.val.K == "null" {
					continue
				}
				w := wireNameOf(m.HTTP.Cookies, s.path[0].Field)
				var keep []string
				found := false
				for _, p := range pairs {
					if strings.HasPrefix(p, w+"=") {
						found = true
					} else {
						keep = append(keep, p)
					}
				}
				if !found {
					continue
				}
				r := cloneRaw(base)
				if len(keep) == 0 {
					delete(r.Headers, ckKey)
				} else {
					r.Headers[ckKey] = []string{strings.Join(keep, "; ")}
				}
				mk(r, "raw:delete-cookie", pathString(s.path), replaceAt(si.Payload, s.path, nil), false)
				// a cookie of a type that needs conversion carrying something that does not convert
				if bt, _ := d.Effective(s.attr); bt.Kind == "prim" {
					bad := ""
					switch {
					case isIntPrim(bt.Prim), isUintPrim(bt.Prim), isFloatPrim(bt.Prim):
						bad = "12abc"
					case bt.Prim == "Boolean":
						bad = "maybe"
					}
					if bad != "" {
						r := cloneRaw(base)
						r.Headers[ckKey] = []string{strings.Join(append(append([]string{}, keep...), w+"="+bad), "; ")}
						mk(r, "raw:malformed-cookie", pathString(s.path), si.Payload, true)
					}
				}
			}
		}
	}
	if limit > 0 && len(out) > limit {
		// every omission is kept; the other wire mutants are sampled
		var keep, rest []rawMut
		for _, o := range out {
			if strings.HasPrefix(o.info.Desc, "raw:delete-") || o.info.Desc == "raw:extra-property" {
				keep = append(keep, o)
			} else {
				rest = append(rest, o)
			}
		}
		for len(keep)+len(rest) > limit && len(rest) > 0 {
			i := rng.Intn(len(rest))
			rest = append(rest[:i], rest[i+1:]...)
		}
		out = append(keep, rest...)
	}
	for i := range out {
		out[i].info.Desc = fmt.Sprint(out[i].info.Desc)
	}
	return out
}
