package main

// C14 tier A: the schema objects the real OpenAPI builders produce for every request
// body, parameter, header, cookie and response of every endpoint are printed as Coq
// `schema` terms ($ref resolved to a fixed depth, properties ordered along goa's own
// attribute order) to be compared with the model's schema_of inside Coq. Two builders:
// the v3 one (http/codegen/openapi/v3/types.go, read from the generated openapi3.json)
// and openapi.AttributeTypeSchema (http/codegen/openapi/json_schema.go, called in
// process), which share the validation mapping.

import (
	"bytes"
	"encoding/json"
	"fmt"
	"math/big"
	"regexp"
	"sort"
	"strings"

	"goa.design/goa/v3/codegen"
	"goa.design/goa/v3/expr"
	"goa.design/goa/v3/http/codegen/openapi"

	dg "verifharness/designgen"
	"verifharness/vh"
)

const schemaDepth = 3

type schemaDump struct {
	// v2[service/method][elem index in Req / "resp<status>:<i>"] = schema term of json_schema.go
	v2 map[string]string
}

func decodeJSON(b []byte) any {
	var x any
	dec := json.NewDecoder(bytes.NewReader(b))
	dec.UseNumber()
	if dec.Decode(&x) != nil {
		return nil
	}
	return x
}

func asMap(x any) map[string]any { m, _ := x.(map[string]any); return m }

type schemaConv struct {
	comps     map[string]any // component / definition schemas by name
	shared    bool           // a $ref pointed at a component named after another type
	top       string         // expected name of the component the top-level $ref points at ("" = unknown)
	differs   bool           // inside a shared component, a documented keyword is not the attribute's own
	hops      int            // $ref followed so far (a cyclic document must not hang the harness)
	inRef     int            // number of $ref components entered
	aliasDrop bool           // inside a named type, an alias-typed attribute carries its own validation (not documented there)
}

var trailingDigits = regexp.MustCompile(`[0-9]+$`)

func numQ(x any) (string, bool) {
	n, ok := x.(json.Number)
	if !ok {
		return "", false
	}
	r, ok := new(big.Rat).SetString(n.String())
	if !ok {
		return "", false
	}
	return coqQ(r), true
}

func numNat(x any) (string, bool) {
	n, ok := x.(json.Number)
	if !ok {
		return "", false
	}
	i, err := n.Int64()
	if err != nil || i < 0 {
		return "", false
	}
	return fmt.Sprint(i), true
}

func optTerm(s string, ok bool) string {
	if !ok {
		return "None"
	}
	return "(Some " + s + ")"
}

func underlying(a *expr.AttributeExpr) *expr.AttributeExpr {
	for a != nil {
		ut, ok := a.Type.(expr.UserType)
		if !ok {
			return a
		}
		a = ut.Attribute()
	}
	return a
}

// term prints the JSON schema js as a Coq `schema`, guided by the attribute it documents.
func (sc *schemaConv) term(js any, a *expr.AttributeExpr, depth int, transparentRef bool) string {
	m := asMap(js)
	if m == nil {
		return "(SRef 996)"
	}
	if ref, ok := m["$ref"].(string); ok {
		sc.hops++
		if sc.hops > 400 {
			return "(SRef 995)"
		}
		name := ref[strings.LastIndex(ref, "/")+1:]
		comp := sc.comps[name]
		if transparentRef && sc.top != "" {
			if trailingDigits.ReplaceAllString(name, "") != trailingDigits.ReplaceAllString(codegen.Goify(sc.top, true), "") {
				sc.shared = true
			}
		}
		if a != nil {
			if ut, ok := a.Type.(expr.UserType); ok && !expr.IsAlias(ut) {
				want := codegen.Goify(ut.Name(), true)
				if n, ok := ut.Attribute().Meta["name:original"]; ok && len(n) > 0 {
					want = codegen.Goify(n[0], true)
				}
				if trailingDigits.ReplaceAllString(name, "") != trailingDigits.ReplaceAllString(want, "") {
					sc.shared = true
				}
			}
		}
		var inner *expr.AttributeExpr
		alias := false
		if a != nil {
			if ut, ok := a.Type.(expr.UserType); ok {
				inner = ut.Attribute()
				alias = expr.IsAlias(ut)
			}
		}
		if transparentRef && inner == nil {
			inner = a
		}
		if transparentRef || alias {
			if alias {
				// the model documents an alias inline, with the merged validation of the chain
				base := underlying(a)
				return sc.term(comp, &expr.AttributeExpr{Type: base.Type, Validation: effectiveValidation(a)}, depth, false)
			}
			return sc.term(comp, inner, depth, false)
		}
		if depth == 0 {
			return "(SRef 0)"
		}
		sc.inRef++
		t := sc.term(comp, inner, depth-1, false)
		sc.inRef--
		return t
	}
	if sc.shared && a != nil && kwDiffers(m, a) {
		sc.differs = true
	}
	if sc.inRef > 0 && a != nil && a.Validation != nil && !sc.shared {
		// the transport types hold alias-typed attributes as primitives carrying the merged validation
		_, isPrim := a.Type.(expr.Primitive)
		ut, isUT := a.Type.(expr.UserType)
		if (isPrim || (isUT && expr.IsAlias(ut))) && len(a.Validation.Values) > 0 && kwDiffers(m, a) {
			sc.aliasDrop = true
		}
	}
	jt := "JAny"
	switch m["type"] {
	case "string":
		jt = "JString"
	case "integer":
		jt = "JInteger"
	case "number":
		jt = "JNumber"
	case "boolean":
		jt = "JBoolean"
	case "array":
		jt = "JArray"
	case "object":
		jt = "JObject"
	}
	enum := "None"
	if es, ok := m["enum"].([]any); ok {
		var ls []string
		for _, e := range es {
			switch t := e.(type) {
			case string:
				ls = append(ls, "(LStr "+coqStr(t)+")")
			case bool:
				ls = append(ls, "(LBool "+vh.CoqBool(t)+")")
			case json.Number:
				q, _ := numQ(t)
				ls = append(ls, "(LNum "+q+")")
			}
		}
		enum = "(Some " + vh.CoqList(ls) + ")"
	}
	format := "None"
	if f, ok := m["format"].(string); ok {
		if id, known := formatIDs[f]; known {
			format = fmt.Sprintf("(Some %d)", id)
		}
	}
	pattern := "None"
	if p, ok := m["pattern"].(string); ok && p != "" {
		pattern = fmt.Sprintf("(Some %d)", patternID(p))
	}
	skw := fmt.Sprintf("(mkS %s %s %s %s %s %s %s %s %s %s %s)", enum, format, pattern,
		optTerm(numQ(m["minimum"])), optTerm(numQ(m["maximum"])), optTerm(numQ(m["exclusiveMinimum"])), optTerm(numQ(m["exclusiveMaximum"])),
		optTerm(numNat(m["minLength"])), optTerm(numNat(m["maxLength"])), optTerm(numNat(m["minItems"])), optTerm(numNat(m["maxItems"])))
	// properties, ordered along the attribute
	var names []string
	var guideFields []*expr.NamedAttributeExpr
	ua := a
	if ua != nil {
		if _, isUT := ua.Type.(expr.UserType); isUT {
			ua = underlying(ua)
		}
		if o := expr.AsObject(ua.Type); o != nil {
			for _, nat := range *o {
				names = append(names, nat.Name)
				guideFields = append(guideFields, nat)
			}
		}
	}
	props := asMap(m["properties"])
	var pterms []string
	seen := map[string]bool{}
	for i, n := range names {
		seen[n] = true
		if p, ok := props[n]; ok {
			pterms = append(pterms, sc.term(p, guideFields[i].Attribute, depth, false))
		} else {
			pterms = append(pterms, "(SRef 998)")
		}
	}
	var extra []string
	for n := range props {
		if !seen[n] {
			extra = append(extra, n)
		}
	}
	sort.Strings(extra)
	for range extra {
		pterms = append(pterms, "(SRef 997)")
	}
	var req []string
	if rs, ok := m["required"].([]any); ok {
		pos := map[string]int{}
		for i, n := range names {
			pos[n] = i
		}
		var idx []int
		for _, r := range rs {
			if s, ok := r.(string); ok {
				if p, ok := pos[s]; ok {
					idx = append(idx, p)
				} else {
					idx = append(idx, 900)
				}
			}
		}
		sort.Ints(idx)
		for _, i := range idx {
			req = append(req, fmt.Sprint(i))
		}
	}
	items := "None"
	if it, ok := m["items"]; ok && it != nil {
		var ea *expr.AttributeExpr
		if ua != nil {
			if arr := expr.AsArray(ua.Type); arr != nil {
				ea = arr.ElemType
			}
		}
		items = "(Some " + sc.term(it, ea, depth, false) + ")"
	}
	addl := "None"
	if ap, ok := m["additionalProperties"]; ok {
		if apm := asMap(ap); apm != nil {
			var ea *expr.AttributeExpr
			if ua != nil {
				if mp := expr.AsMap(ua.Type); mp != nil {
					ea = mp.ElemType
				}
			}
			addl = "(Some " + sc.term(ap, ea, depth, false) + ")"
		}
	}
	return fmt.Sprintf("(SNode %s %s %s %s %s %s)", jt, skw, vh.CoqList(req), vh.CoqList(pterms), items, addl)
}

// kwDiffers: the validation keywords written in the documented schema m are not those of
// attribute a (used only to tell a harmless shared schema from one that documents the
// validations of another type).
func kwDiffers(m map[string]any, a *expr.AttributeExpr) bool {
	val := effectiveValidation(a)
	if val == nil {
		val = &expr.ValidationExpr{}
	}
	num := func(k string) (float64, bool) {
		n, ok := m[k].(json.Number)
		if !ok {
			return 0, false
		}
		f, err := n.Float64()
		return f, err == nil
	}
	cmpF := func(k string, p *float64) bool {
		f, ok := num(k)
		return ok != (p != nil) || (ok && f != *p)
	}
	cmpI := func(k string, p *int) bool {
		f, ok := num(k)
		return ok != (p != nil) || (ok && int(f) != *p)
	}
	isArr := expr.AsArray(underlying(a).Type) != nil
	var minL, maxL, minI, maxI *int
	if isArr {
		minI, maxI = val.MinLength, val.MaxLength
	} else {
		minL, maxL = val.MinLength, val.MaxLength
	}
	if cmpF("minimum", val.Minimum) || cmpF("maximum", val.Maximum) || cmpF("exclusiveMinimum", val.ExclusiveMinimum) || cmpF("exclusiveMaximum", val.ExclusiveMaximum) ||
		cmpI("minLength", minL) || cmpI("maxLength", maxL) || cmpI("minItems", minI) || cmpI("maxItems", maxI) {
		return true
	}
	p, _ := m["pattern"].(string)
	if p != val.Pattern {
		return true
	}
	if es, ok := m["enum"].([]any); ok != (val.Values != nil) || (ok && len(es) != len(val.Values)) {
		return true
	}
	if f, _ := m["format"].(string); val.Format != "" && f != string(val.Format) {
		return true
	}
	if _, known := formatIDs[fmt.Sprint(m["format"])]; known && val.Format == "" {
		return true
	}
	// required attributes
	want := map[string]bool{}
	if o := expr.AsObject(underlying(a).Type); o != nil {
		ua := a
		if ut, ok := a.Type.(expr.UserType); ok {
			ua = ut.Attribute()
		}
		for _, nat := range *o {
			if ua.IsRequired(nat.Name) {
				want[nat.Name] = true
			}
		}
	}
	got := map[string]bool{}
	for _, r := range asSlice(m["required"]) {
		got[fmt.Sprint(r)] = true
	}
	if len(got) != len(want) {
		return true
	}
	for k := range want {
		if !got[k] {
			return true
		}
	}
	return false
}

// dumpSchemas runs json_schema.go's builder on every element while the design is live.
func dumpSchemas(root *expr.RootExpr, d *dg.Design, ex *extracted) *schemaDump {
	sd := &schemaDump{v2: map[string]string{}}
	defer func() { recover() }() // nolint: errcheck (a builder panic leaves the v2 column empty)
	openapi.Definitions = make(map[string]*openapi.Schema)
	type pending struct {
		key string
		js  []byte
		att *expr.AttributeExpr
		top bool
	}
	var ps []pending
	for name, ep := range ex.endpoints {
		if ep.Unmodelled != "" {
			continue
		}
		add := func(tag string, es []elemX) {
			for i, e := range es {
				att := e.Att
				top := false
				if e.Loc == "body" {
					// the element is the body type's own attribute: document the body attribute
					top = true
				}
				s := openapi.AttributeTypeSchema(root.API, att)
				b, err := json.Marshal(s)
				if err != nil {
					continue
				}
				ps = append(ps, pending{fmt.Sprintf("%s|%s|%d", name, tag, i), b, att, top})
			}
		}
		add("req", ep.Req)
		for st, es := range ep.Resp {
			add(fmt.Sprintf("resp%d", st), es)
		}
	}
	defs := map[string]any{}
	for n, s := range openapi.Definitions {
		if b, err := json.Marshal(s); err == nil {
			defs[n] = decodeJSON(b)
		}
	}
	sc := &schemaConv{comps: defs}
	for _, p := range ps {
		sd.v2[p.key] = sc.term(decodeJSON(p.js), p.att, schemaDepth, p.top)
	}
	return sd
}

// schemaCases pairs every documented schema of openapi3.json with its attribute.
func schemaCases(res *vh.Result, items []*built) []string {
	var out []string
	for _, it := range items {
		if it.bu == nil || it.bu.Dropped || it.ex == nil || len(it.openapi) == 0 {
			continue
		}
		doc := asMap(decodeJSON(it.openapi))
		if doc == nil {
			continue
		}
		comps := asMap(asMap(doc["components"])["schemas"])
		if it.ex.shared == nil {
			it.ex.shared = map[string]bool{}
		}
		paths := asMap(doc["paths"])
		var names []string
		for n := range it.ex.endpoints {
			names = append(names, n)
		}
		sort.Strings(names)
		for _, name := range names {
			ep := it.ex.endpoints[name]
			if ep.Unmodelled != "" {
				continue
			}
			// locate the operation
			var op map[string]any
			var pathItem map[string]any
			for _, pi := range paths {
				for verb, o := range asMap(pi) {
					om := asMap(o)
					if om == nil || verb == "parameters" {
						continue
					}
					if id, _ := om["operationId"].(string); id == ep.Service+"#"+ep.Method || strings.HasPrefix(id, ep.Service+"#"+ep.Method+"#") {
						if op == nil {
							op, pathItem = om, asMap(pi)
						}
					}
				}
			}
			if op == nil {
				res.Count("schema_operation_not_found")
				continue
			}
			params := append([]any{}, asSlice(op["parameters"])...)
			params = append(params, asSlice(pathItem["parameters"])...)
			emit := func(tag string, i int, e elemX, js any, top bool) {
				if js == nil {
					res.Count("schema_missing_for_" + e.Kind)
					return
				}
				sc := &schemaConv{comps: comps, top: e.BodyType}
				real3 := sc.term(js, e.Att, schemaDepth, top)
				if sc.aliasDrop {
					failSig(res, "alias-attribute-validation-undocumented-in-user-type", "openapi3.json documents "+name+" "+tag+": inside a named user type, the validation declared on an alias-typed attribute is left out (only the alias type's own validation is written)",
						map[string]any{"design": it.bu.Design, "endpoint": name, "element": tag})
					return
				}
				if sc.shared && sc.differs {
					// the attribute is documented by the schema of another, structurally equal type
					it.ex.shared[name] = true
					failSig(res, "schema-shared-by-structurally-equal-types", "openapi3.json documents "+name+" "+tag+" "+e.Kind+" "+e.Name+" with the schema generated for another type of equal structure (validations are not part of the type hash)",
						map[string]any{"design": it.bu.Design, "endpoint": name, "element": tag})
					return
				}
				v2 := "None"
				if it.ex.v3 != nil {
					if t, ok := it.ex.v3.v2[fmt.Sprintf("%s|%s|%d", name, tag, i)]; ok {
						v2 = "(Some " + t + ")"
					}
				}
				idx := len(out)
				out = append(out, fmt.Sprintf("(%d%%N, %s_env, %s, %d, %s, %s)", idx, it.bu.Key, e.Term, schemaDepth, real3, v2))
				res.Cases = append(res.Cases, map[string]any{"design": it.bu.Design.Name, "endpoint": name, "element": tag, "kind": e.Kind, "name": e.Name})
				res.Count("schema_" + e.Kind)
			}
			for i, e := range ep.Req {
				switch e.Kind {
				case "body":
					content := asMap(asMap(op["requestBody"])["content"])
					var js any
					for _, mt := range content {
						js = asMap(mt)["schema"]
						break
					}
					_, isUT := e.Att.Type.(expr.UserType)
					emit("req", i, e, js, !isUT)
				default:
					in := e.Kind
					var js any
					var found map[string]any
					for _, p := range params {
						pm := asMap(p)
						if pm["in"] == in && (pm["name"] == wireOf(it, ep, e) || pm["name"] == e.Name) {
							js = pm["schema"]
							found = pm
						}
					}
					if found != nil {
						// the documented `required` flag vs the Required the generated decoder enforces
						docReq, _ := found["required"].(bool)
						res.Count(fmt.Sprintf("param_required_%s_doc=%v_server=%v", in, docReq, e.Required))
						if docReq != e.Required {
							sig := "param-required-flag-differs:" + in
							if (in == "header" || in == "cookie") && e.Required && e.Att.DefaultValue != nil {
								sig = "openapi3-param-required-mismatch:" + in + "-required-with-default"
							}
							failSig(res, sig, fmt.Sprintf("openapi3.json says required: %v for %s parameter %q of %s; the generated decoder enforces required: %v", docReq, in, e.Name, name, e.Required),
								map[string]any{"design": it.bu.Design, "endpoint": name, "parameter": e.Name, "in": in, "documented_required": docReq, "server_required": e.Required, "has_default": e.Att.DefaultValue != nil})
						}
					}
					emit("req", i, e, js, false)
				}
			}
			resps := asMap(op["responses"])
			for st, es := range ep.Resp {
				r := asMap(resps[fmt.Sprint(st)])
				if r == nil {
					continue
				}
				for i, e := range es {
					tag := fmt.Sprintf("resp%d", st)
					switch e.Kind {
					case "body":
						var js any
						for _, mt := range asMap(r["content"]) {
							js = asMap(mt)["schema"]
							break
						}
						emit(tag, i, e, js, true)
					case "header":
						var js any
						for hn, h := range asMap(r["headers"]) {
							if strings.EqualFold(hn, e.Name) || strings.EqualFold(hn, e.Wire) {
								js = asMap(h)["schema"]
							}
						}
						emit(tag, i, e, js, false)
					}
				}
			}
		}
	}
	return out
}

func asSlice(x any) []any { s, _ := x.([]any); return s }

func wireOf(it *built, ep *endpointX, e elemX) string {
	if e.Wire != "" {
		return e.Wire
	}
	return e.Name
}
