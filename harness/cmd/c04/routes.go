package main

import (
	"fmt"

	dg "verifharness/designgen"
)

// routesDesigns: (1) endpoints whose ONLY fallible request element is one optional, typed,
// unvalidated parameter / header / cookie / path variable, with and without a request body
// (what the decoder does with a conversion error must not depend on what else the request
// carries); (2) every route by which a payload attribute LEAVES the request body - query
// string, header, cookie, path, the whole query string (MapParams), implicit credentials
// (basic auth, JWT) - while other attributes, required and optional, stay in the body.
func routesDesigns(prop string) []*dg.Design {
	var out []*dg.Design
	{
		// two designs, so that generated code that stops compiling for one flavour does not hide the other
		d := &dg.Design{Name: "cov_lone", Features: []string{"covering", "lone_element"}}
		s := &dg.Service{Name: "lone"}
		dnb := &dg.Design{Name: "cov_lone_nb", Features: []string{"covering", "lone_element", "no_body"}}
		snb := &dg.Service{Name: "lonenb"}
		types := []struct {
			n string
			t dg.Type
		}{{"int", dg.Prim("Int")}, {"bool", dg.Prim("Boolean")}, {"f64", dg.Prim("Float64")}, {"u32", dg.Prim("UInt32")}, {"arr", dg.ArrayOf(dg.A(dg.Prim("Int")))}}
		for _, loc := range []string{"query", "header", "cookie", "path"} {
			for _, ty := range types {
				if ty.n == "arr" && (loc == "cookie" || loc == "path") {
					continue // goa refuses array-typed cookies; path arrays are C02's
				}
				for _, body := range []bool{true, false} {
					name := fmt.Sprintf("l_%s_%s", loc, ty.n)
					verb, fields := "POST", []*dg.Field{dg.F("v", ty.t), dg.F("note", dg.Prim("String"))}
					if !body {
						name, verb, fields = name+"_nb", "GET", fields[:1]
					}
					if loc == "path" {
						fields[0].Required = true
					}
					p := dg.A(dg.Obj(fields...))
					h := &dg.HTTPMap{}
					path := "/lone/" + name
					if !body {
						path = "/lonenb/" + name
					}
					switch loc {
					case "query":
						h.Params = []dg.MapEntry{{Attr: "v"}}
					case "header":
						h.Headers = []dg.MapEntry{{Attr: "v", Wire: "X-V"}}
					case "cookie":
						h.Cookies = []dg.MapEntry{{Attr: "v", Wire: "v_ck"}}
					case "path":
						path += "/{v}"
					}
					if body {
						s.Methods = append(s.Methods, method(name, verb, path, &p, h))
					} else {
						snb.Methods = append(snb.Methods, method(name, verb, path, &p, h))
					}
				}
			}
		}
		d.Services = []*dg.Service{s}
		dnb.Services = []*dg.Service{snb}
		out = append(out, d, dnb)
	}
	{
		d := &dg.Design{Name: "cov_routes", Features: []string{"covering", "body_leavers"}}
		d.Schemes = []dg.Scheme{{Kind: "basic", Name: "basic"}, {Kind: "jwt", Name: "jwt"}, {Kind: "apikey", Name: "api_key"}}
		s := &dg.Service{Name: "routes"}
		sec := func(name, fn, scheme string, req bool) *dg.Field {
			return &dg.Field{Name: name, A: dg.Attr{T: dg.Prim("String"), Sec: &dg.SecAttrKind{Fn: fn, Scheme: scheme}}, Required: req}
		}
		nrest := 0
		rest := func() []*dg.Field {
			// one attribute of its own per body: structurally equal bodies share one schema (recorded finding)
			nrest++
			return []*dg.Field{dg.F("limit", dg.Prim("Int")).With(dg.Validation{Min: fp(1)}), dg.Req("note", dg.Prim("String")).With(dg.Validation{MaxLen: ip(5)}),
				dg.F(fmt.Sprintf("u%d", nrest), dg.Prim("Boolean"))}
		}
		strMap := dg.MapOf(dg.A(dg.Prim("String")), dg.A(dg.Prim("String")))
		for _, req := range []bool{true, false} {
			n := "opt"
			if req {
				n = "req"
			}
			// the whole query string mapped to one map attribute
			mp := dg.A(dg.Obj(append([]*dg.Field{{Name: "filters", A: dg.A(strMap), Required: req}}, rest()...)...))
			s.Methods = append(s.Methods, method("r_mp_"+n, "POST", "/routes/mp"+n, &mp, &dg.HTTPMap{MapParams: "filters"}))
			// credentials that are not mapped explicitly travel in the Authorization header
			ba := dg.A(dg.Obj(append([]*dg.Field{sec("user", "Username", "", req), sec("pass", "Password", "", req)}, rest()...)...))
			mba := method("r_ba_"+n, "POST", "/routes/ba"+n, &ba, nil)
			mba.Security = []dg.Requirement{{Schemes: []string{"basic"}}}
			s.Methods = append(s.Methods, mba)
			jw := dg.A(dg.Obj(append([]*dg.Field{sec("token", "Token", "", req)}, rest()...)...))
			mjw := method("r_jwt_"+n, "POST", "/routes/jwt"+n, &jw, nil)
			mjw.Security = []dg.Requirement{{Schemes: []string{"jwt"}}}
			s.Methods = append(s.Methods, mjw)
			ak := dg.A(dg.Obj(append([]*dg.Field{sec("key", "APIKey", "api_key", req)}, rest()...)...))
			mak := method("r_ak_"+n, "POST", "/routes/ak"+n, &ak, nil)
			mak.Security = []dg.Requirement{{Schemes: []string{"api_key"}}}
			s.Methods = append(s.Methods, mak)
		}
		d.Services = []*dg.Service{s}
		out = append(out, d)
	}
	return out
}
