package main

// Covering set: a fixed, seed-independent set of hand-written designs so that every
// validation keyword meets every applicable primitive type in every place a payload
// attribute can travel (body attribute, query parameter, header, path parameter,
// cookie, array element, map key / value, alias type, nested and recursive user
// types), in the three optionality flavours (required / optional / defaulted), plus
// results (client-side validation). A template mutation that affects one such pair
// is therefore met on every run, not only when the random stream draws it.

import (
	"strings"

	dg "verifharness/designgen"
)

type fspec struct {
	name string
	t    dg.Type
	v    dg.Validation
	def  any // a default value satisfying v (nil: no defaulted flavour for this field)
}

func fp(f float64) *float64 { return &f }
func ip(i int) *int         { return &i }

// primTable: every keyword x applicable primitive type.
func primTable(withBytes bool) []fspec {
	t := []fspec{
		{"s_enum", dg.Prim("String"), dg.Validation{Enum: []any{"a", "bc", "zed"}}, "bc"},
		{"s_date", dg.Prim("String"), dg.Validation{Format: "date"}, "2020-02-29"},
		{"s_uuid", dg.Prim("String"), dg.Validation{Format: "uuid"}, nil},
		{"s_ip4", dg.Prim("String"), dg.Validation{Format: "ipv4"}, "10.0.0.1"},
		{"s_mail", dg.Prim("String"), dg.Validation{Format: "email"}, nil},
		{"s_dt", dg.Prim("String"), dg.Validation{Format: "date-time"}, nil},
		{"s_ip", dg.Prim("String"), dg.Validation{Format: "ip"}, nil},
		{"s_ip6", dg.Prim("String"), dg.Validation{Format: "ipv6"}, nil},
		{"s_host", dg.Prim("String"), dg.Validation{Format: "hostname"}, nil},
		{"s_uri", dg.Prim("String"), dg.Validation{Format: "uri"}, nil},
		{"s_mac", dg.Prim("String"), dg.Validation{Format: "mac"}, nil},
		{"s_cidr", dg.Prim("String"), dg.Validation{Format: "cidr"}, nil},
		{"s_re", dg.Prim("String"), dg.Validation{Format: "regexp"}, nil},
		{"s_json", dg.Prim("String"), dg.Validation{Format: "json"}, nil},
		{"s_rfc", dg.Prim("String"), dg.Validation{Format: "rfc1123"}, nil},
		{"s_pat", dg.Prim("String"), dg.Validation{Pattern: "^[a-z]+$"}, "abc"},
		{"s_pat2", dg.Prim("String"), dg.Validation{Pattern: "a.c"}, nil},
		{"s_min", dg.Prim("String"), dg.Validation{MinLen: ip(2)}, "dflt"},
		{"s_max", dg.Prim("String"), dg.Validation{MaxLen: ip(3)}, "dfl"},
		{"s_len", dg.Prim("String"), dg.Validation{MinLen: ip(1), MaxLen: ip(4)}, "dd"},
		{"i_min", dg.Prim("Int"), dg.Validation{Min: fp(3)}, 3},
		{"i_max", dg.Prim("Int"), dg.Validation{Max: fp(10)}, 10},
		{"i_xmin", dg.Prim("Int"), dg.Validation{ExclMin: fp(3)}, 4},
		{"i_xmax", dg.Prim("Int"), dg.Validation{ExclMax: fp(10)}, 9},
		{"i_rng", dg.Prim("Int"), dg.Validation{Min: fp(0), Max: fp(5)}, 5},
		{"i_enum", dg.Prim("Int"), dg.Validation{Enum: []any{1, 2, 3}}, 2},
		{"i32_min", dg.Prim("Int32"), dg.Validation{Min: fp(-2)}, nil},
		{"i64_max", dg.Prim("Int64"), dg.Validation{Max: fp(100)}, nil},
		{"u_min", dg.Prim("UInt"), dg.Validation{Min: fp(1)}, 1},
		{"u32_max", dg.Prim("UInt32"), dg.Validation{Max: fp(7)}, nil},
		{"u64_xmax", dg.Prim("UInt64"), dg.Validation{ExclMax: fp(9)}, nil},
		{"f_min", dg.Prim("Float64"), dg.Validation{Min: fp(0.5)}, 0.5},
		{"f_max", dg.Prim("Float64"), dg.Validation{Max: fp(2.5)}, 2.5},
		{"f_xmin", dg.Prim("Float64"), dg.Validation{ExclMin: fp(1)}, 1.5},
		{"f32_xmax", dg.Prim("Float32"), dg.Validation{ExclMax: fp(4)}, nil},
		{"flag", dg.Prim("Boolean"), dg.Validation{}, true},
	}
	if withBytes {
		t = append(t,
			fspec{"b_min", dg.Prim("Bytes"), dg.Validation{MinLen: ip(2)}, nil},
			fspec{"b_max", dg.Prim("Bytes"), dg.Validation{MaxLen: ip(3)}, nil})
	}
	return t
}

func isZeroValidation(v dg.Validation) bool {
	return len(v.Enum) == 0 && v.Format == "" && v.Pattern == "" && v.Min == nil && v.Max == nil && v.ExclMin == nil && v.ExclMax == nil && v.MinLen == nil && v.MaxLen == nil
}

// fieldsOf builds the field list of one flavour: "req" (all required), "opt" (all
// optional, no default), "dfl" (optional with a default where the table has one).
func fieldsOf(tab []fspec, flavour string) []*dg.Field {
	var fs []*dg.Field
	for _, s := range tab {
		f := dg.F(s.name, s.t)
		if !isZeroValidation(s.v) {
			v := s.v
			f.A.V = &v
		}
		switch flavour {
		case "req":
			f.Required = true
		case "dfl":
			if s.def != nil {
				f.A.Default, f.A.HasDef = s.def, true
			}
		case "reqdfl": // required AND defaulted
			if s.def == nil {
				continue
			}
			f.Required = true
			f.A.Default, f.A.HasDef = s.def, true
		}
		fs = append(fs, f)
	}
	return fs
}

func entries(fs []*dg.Field, wirePrefix string) []dg.MapEntry {
	var es []dg.MapEntry
	for _, f := range fs {
		e := dg.MapEntry{Attr: f.Name}
		if wirePrefix != "" {
			e.Wire = wirePrefix + strings.ReplaceAll(f.Name, "_", "-")
		}
		es = append(es, e)
	}
	return es
}

var okResult = dg.A(dg.Obj(dg.Req("ok", dg.Prim("Boolean"))))

func method(name, verb, path string, payload *dg.Attr, h *dg.HTTPMap) *dg.Method {
	if h == nil {
		h = &dg.HTTPMap{}
	}
	h.Routes = []dg.Route{{Verb: verb, Path: path}}
	res := okResult
	return &dg.Method{Name: name, Payload: payload, Result: &res, HTTP: h}
}

// coveringDesigns returns the fixed designs.
func coveringDesigns(prop string) []*dg.Design {
	var out []*dg.Design
	// C14: byte strings with length bounds are documented as base64 lengths (recorded finding): witness stream only
	bytesLen := prop != "C14"

	// D0: every keyword x primitive as a BODY attribute, three flavours.
	{
		d := &dg.Design{Name: "cov_body", Features: []string{"covering", "body_prims"}}
		s := &dg.Service{Name: "bsvc"}
		for _, fl := range []string{"req", "opt", "dfl"} {
			p := dg.A(dg.Obj(fieldsOf(primTable(bytesLen), fl)...))
			s.Methods = append(s.Methods, method("b_"+fl, "POST", "/body/"+fl, &p, nil))
		}
		d.Services = []*dg.Service{s}
		out = append(out, d)
	}

	// D1: the same table as QUERY parameters (+ arrays of validated primitives).
	{
		d := &dg.Design{Name: "cov_query", Features: []string{"covering", "query_params"}}
		s := &dg.Service{Name: "query"}
		for _, fl := range []string{"req", "opt", "dfl"} {
			fs := fieldsOf(primTable(false), fl)
			arr := []*dg.Field{
				dg.F("a_s", dg.ArrayOf(dg.Attr{T: dg.Prim("String"), V: &dg.Validation{Pattern: "^[a-z]+$"}})),
				dg.F("a_i", dg.ArrayOf(dg.Attr{T: dg.Prim("Int"), V: &dg.Validation{Min: fp(1), Max: fp(9)}})),
				dg.F("a_len", dg.ArrayOf(dg.A(dg.Prim("String")))).With(dg.Validation{MinLen: ip(1), MaxLen: ip(3)}),
				dg.F("a_max", dg.ArrayOf(dg.A(dg.Prim("Int")))).With(dg.Validation{MaxLen: ip(2)}),
			}
			for _, a := range arr {
				a.Required = fl == "req"
			}
			fs = append(fs, arr...)
			p := dg.A(dg.Obj(fs...))
			s.Methods = append(s.Methods, method("q_"+fl, "GET", "/query/"+fl, &p, &dg.HTTPMap{Params: entries(fs, "")}))
		}
		// required AND defaulted query parameters, and a path parameter next to them
		{
			pick := map[string]bool{"s_enum": true, "s_min": true, "i_min": true, "i_rng": true, "f_max": true, "flag": true, "u_min": true}
			var tab []fspec
			for _, sp := range primTable(false) {
				if pick[sp.name] {
					tab = append(tab, sp)
				}
			}
			fs := fieldsOf(tab, "reqdfl")
			fs = append(fs, dg.Req("pid", dg.Prim("Int")).With(dg.Validation{Min: fp(1)}), dg.F("o_plain", dg.Prim("String")), dg.Req("r_plain", dg.Prim("Int")))
			p := dg.A(dg.Obj(fs...))
			var es []dg.MapEntry
			for _, f := range fs {
				if f.Name != "pid" {
					es = append(es, dg.MapEntry{Attr: f.Name})
				}
			}
			s.Methods = append(s.Methods, method("q_reqdfl", "GET", "/query/reqdfl/{pid}", &p, &dg.HTTPMap{Params: es}))
		}
		d.Services = []*dg.Service{s}
		out = append(out, d)
	}

	// D2: HEADERS (three flavours), PATH parameters, a COOKIE.
	{
		d := &dg.Design{Name: "cov_hdr", Features: []string{"covering", "headers", "path_params", "cookie"}}
		s := &dg.Service{Name: "hdr"}
		pick := map[string]bool{"s_enum": true, "s_date": true, "s_ip": true, "s_pat": true, "s_min": true, "s_len": true, "i_min": true, "i_xmax": true, "i_rng": true, "i_enum": true, "u32_max": true, "f_max": true, "f_xmin": true, "flag": true}
		var tab []fspec
		for _, sp := range primTable(false) {
			if pick[sp.name] {
				tab = append(tab, sp)
			}
		}
		for _, fl := range []string{"req", "opt", "dfl"} {
			fs := fieldsOf(tab, fl)
			ha := dg.F("h_arr", dg.ArrayOf(dg.Attr{T: dg.Prim("Int"), V: &dg.Validation{Min: fp(1)}})).With(dg.Validation{MaxLen: ip(3)})
			ha.Required = fl == "req"
			fs = append(fs, ha)
			p := dg.A(dg.Obj(fs...))
			s.Methods = append(s.Methods, method("h_"+fl, "GET", "/hdr/"+fl, &p, &dg.HTTPMap{Headers: entries(fs, "X-")}))
		}
		{
			fs := fieldsOf(tab, "reqdfl")
			p := dg.A(dg.Obj(fs...))
			s.Methods = append(s.Methods, method("h_reqdfl", "GET", "/hdr/reqdfl", &p, &dg.HTTPMap{Headers: entries(fs, "X-")}))
			// a required cookie is read last: it discards earlier errors (recorded finding), so one per method
			cf := []*dg.Field{
				dg.F("ck_opt", dg.Prim("String")).With(dg.Validation{Enum: []any{"x1", "y2"}}),
				dg.F("ck_dfl", dg.Prim("String")).Def("dflt"),
				dg.Req("ck_req", dg.Prim("String")).With(dg.Validation{MinLen: ip(2)}),
			}
			cp := dg.A(dg.Obj(cf...))
			s.Methods = append(s.Methods, method("ck", "GET", "/hdr/ck", &cp, &dg.HTTPMap{Cookies: []dg.MapEntry{{Attr: "ck_opt", Wire: "ck_opt_c"}, {Attr: "ck_dfl", Wire: "ck_dfl_c"}, {Attr: "ck_req", Wire: "ck_req_c"}}}))
			cf2 := []*dg.Field{dg.F("ck_o2", dg.Prim("String")), dg.Req("ck_reqdfl", dg.Prim("String")).Def("dd")}
			cp2 := dg.A(dg.Obj(cf2...))
			s.Methods = append(s.Methods, method("ck2", "GET", "/hdr/ck2", &cp2, &dg.HTTPMap{Cookies: []dg.MapEntry{{Attr: "ck_o2", Wire: "ck_o2_c"}, {Attr: "ck_reqdfl", Wire: "ck_reqdfl_c"}}}))
		}
		pf := []*dg.Field{
			dg.Req("p_s", dg.Prim("String")).With(dg.Validation{Pattern: "^[a-z]+$", MaxLen: ip(5)}),
			dg.Req("p_i", dg.Prim("Int")).With(dg.Validation{Min: fp(1), Max: fp(9)}),
			dg.Req("p_f", dg.Prim("Float64")).With(dg.Validation{ExclMin: fp(0)}),
			dg.Req("p_u", dg.Prim("UInt32")).With(dg.Validation{Max: fp(7)}),
			dg.Req("p_e", dg.Prim("String")).With(dg.Validation{Enum: []any{"a", "bc"}}),
			dg.Req("p_x", dg.Prim("Int")).With(dg.Validation{ExclMax: fp(10)}),
			dg.F("c_s", dg.Prim("String")).With(dg.Validation{MinLen: ip(2), MaxLen: ip(6)}),
			dg.F("c_e", dg.Prim("String")).With(dg.Validation{Enum: []any{"x1", "y2"}}),
		}
		pp := dg.A(dg.Obj(pf...))
		s.Methods = append(s.Methods, method("path", "GET", "/path/{p_s}/{p_i}/{p_f}/{p_u}/{p_e}/{p_x}", &pp,
			&dg.HTTPMap{Cookies: []dg.MapEntry{{Attr: "c_s", Wire: "c_s_ck"}, {Attr: "c_e", Wire: "c_e_ck"}}}))
		// primitive payloads travelling alone
		prim := dg.Attr{T: dg.Prim("Int"), V: &dg.Validation{Min: fp(2), Max: fp(6)}}
		s.Methods = append(s.Methods, method("prim_body", "POST", "/prim/body", &prim, nil))
		prims := dg.Attr{T: dg.Prim("String"), V: &dg.Validation{MinLen: ip(2), Pattern: "^x"}}
		s.Methods = append(s.Methods, method("prim_q", "GET", "/prim/q", &prims, &dg.HTTPMap{Params: []dg.MapEntry{{Attr: "pq"}}}))
		arrp := dg.Attr{T: dg.ArrayOf(dg.Attr{T: dg.Prim("String"), V: &dg.Validation{MaxLen: ip(3)}}), V: &dg.Validation{MinLen: ip(1), MaxLen: ip(2)}}
		s.Methods = append(s.Methods, method("arr_body", "POST", "/prim/arr", &arrp, nil))
		d.Services = []*dg.Service{s}
		out = append(out, d)
	}

	// D3: arrays, maps, aliases, nested / recursive user types.
	{
		d := &dg.Design{Name: "cov_nested", Features: []string{"covering", "array", "map", "alias_type", "user_type_ref", "recursive_type"}}
		d.Types = []*dg.UserType{
			{Name: "AliasS", Base: dg.Prim("String"), V: &dg.Validation{Pattern: "^[a-z]+$", MaxLen: ip(5)}},
			{Name: "AliasI", Base: dg.Prim("Int"), V: &dg.Validation{Min: fp(1)}},
			{Name: "AliasF", Base: dg.Prim("Float64"), V: &dg.Validation{Max: fp(9.5)}},
			{Name: "AliasE", Base: dg.Prim("String"), V: &dg.Validation{Enum: []any{"on", "off"}}},
			{Name: "AliasX", Base: dg.Prim("Float64"), V: &dg.Validation{ExclMax: fp(7)}},
			{Name: "Color", Base: dg.Prim("String"), V: &dg.Validation{Enum: []any{"red", "green", "blue"}}},
			{Name: "Level", Base: dg.Prim("Int"), V: &dg.Validation{Enum: []any{1, 2, 3}}},
			{Name: "Tone", Base: dg.Obj(dg.F("c1", dg.Ref("Color")), dg.F("c2", dg.Ref("Color")), dg.F("l1", dg.Ref("Level")))},
			{Name: "Paint", Base: dg.Obj(
				dg.F("primary", dg.Ref("Color")).With(dg.Validation{Enum: []any{"red"}}),
				dg.F("secondary", dg.Ref("Color")),
				dg.F("third", dg.Ref("Color")).With(dg.Validation{Enum: []any{"green", "blue"}}),
				dg.F("lvl", dg.Ref("Level")).With(dg.Validation{Enum: []any{2}}),
				dg.F("lvl2", dg.Ref("Level")))},
			{Name: "Inner", Base: dg.Obj(
				dg.Req("name", dg.Prim("String")).With(dg.Validation{MinLen: ip(1)}),
				dg.F("n", dg.Prim("Int")).With(dg.Validation{Min: fp(0), Max: fp(5)}),
				dg.F("xm", dg.Prim("Float64")).With(dg.Validation{ExclMax: fp(3)}),
				dg.F("tags", dg.ArrayOf(dg.Attr{T: dg.Prim("String"), V: &dg.Validation{MaxLen: ip(3)}})).With(dg.Validation{MaxLen: ip(2)}))},
			{Name: "Rec", Base: dg.Obj(
				dg.Req("v", dg.Prim("Int")).With(dg.Validation{Min: fp(1)}),
				dg.F("child", dg.Ref("Rec")),
				dg.F("kids", dg.ArrayOf(dg.A(dg.Ref("Rec")))))},
			{Name: "ReqOnly", Base: dg.Obj(dg.Req("a", dg.Prim("String")), dg.Req("b", dg.Prim("Int")), dg.F("c", dg.Prim("Boolean")))},
			{Name: "Plain", Base: dg.Obj(dg.F("x", dg.Prim("String")), dg.F("y", dg.Prim("Int")))},
		}
		s := &dg.Service{Name: "nested"}
		arrP := dg.A(dg.Obj(
			dg.Req("a_i", dg.ArrayOf(dg.Attr{T: dg.Prim("Int"), V: &dg.Validation{Min: fp(1), Max: fp(9)}})),
			dg.F("a_s", dg.ArrayOf(dg.Attr{T: dg.Prim("String"), V: &dg.Validation{Enum: []any{"a", "bc"}}})),
			dg.Req("a_len", dg.ArrayOf(dg.A(dg.Prim("Int")))).With(dg.Validation{MinLen: ip(1), MaxLen: ip(3)}),
			dg.F("a_max", dg.ArrayOf(dg.A(dg.Prim("String")))).With(dg.Validation{MaxLen: ip(2)}),
			dg.F("a_f", dg.ArrayOf(dg.Attr{T: dg.Prim("Float64"), V: &dg.Validation{ExclMax: fp(5)}})),
			dg.F("a_fmt", dg.ArrayOf(dg.Attr{T: dg.Prim("String"), V: &dg.Validation{Format: "ipv4"}})),
			dg.F("aa", dg.ArrayOf(dg.Attr{T: dg.ArrayOf(dg.Attr{T: dg.Prim("Int"), V: &dg.Validation{Min: fp(0)}}), V: &dg.Validation{MaxLen: ip(2)}})),
			dg.F("a_b", dg.ArrayOf(dg.A(dg.Prim("Bytes"))))))
		if bytesLen {
			arrP.T.Attrs[len(arrP.T.Attrs)-1].A.T.Elem.V = &dg.Validation{MaxLen: ip(2)}
		}
		s.Methods = append(s.Methods, method("m_arr", "POST", "/nested/arr", &arrP, nil))
		mapP := dg.A(dg.Obj(
			dg.F("m_v", dg.MapOf(dg.A(dg.Prim("String")), dg.Attr{T: dg.Prim("Int"), V: &dg.Validation{Min: fp(1)}})),
			dg.F("m_k", dg.MapOf(dg.Attr{T: dg.Prim("String"), V: &dg.Validation{Pattern: "^[a-z]+$"}}, dg.Attr{T: dg.Prim("String"), V: &dg.Validation{MaxLen: ip(3)}})),
			dg.Req("m_req", dg.MapOf(dg.A(dg.Prim("String")), dg.A(dg.Prim("Boolean")))),
			dg.F("m_arr", dg.MapOf(dg.A(dg.Prim("String")), dg.Attr{T: dg.ArrayOf(dg.Attr{T: dg.Prim("Int"), V: &dg.Validation{Max: fp(4)}}), V: &dg.Validation{MaxLen: ip(2)}}))))
		s.Methods = append(s.Methods, method("m_map", "POST", "/nested/map", &mapP, nil))
		aliasP := dg.A(dg.Obj(
			dg.Req("al_s", dg.Ref("AliasS")),
			dg.F("al_i", dg.Ref("AliasI")),
			dg.F("al_f", dg.Ref("AliasF")),
			dg.F("al_e", dg.Ref("AliasE")),
			dg.F("al_x", dg.Ref("AliasX")),
			// attribute-level validations on alias-typed attributes, next to plain siblings of the same alias
			dg.F("al_sen", dg.Ref("AliasS")).With(dg.Validation{Enum: []any{"ab", "cd"}}),
			dg.F("al_sib", dg.Ref("AliasS")),
			dg.F("al_en", dg.Ref("AliasE")).With(dg.Validation{Enum: []any{"on"}}),
			dg.F("al_en2", dg.Ref("AliasE")),
			dg.F("al_ien", dg.Ref("AliasI")).With(dg.Validation{Enum: []any{0, 1, 2}}),
			dg.F("primary", dg.Ref("Color")).With(dg.Validation{Enum: []any{"red"}}),
			dg.F("secondary", dg.Ref("Color")),
			dg.F("paint", dg.Ref("Paint")),
			dg.F("paints", dg.ArrayOf(dg.A(dg.Ref("Paint")))),
			dg.F("tone", dg.Ref("Tone")),
			dg.F("arr_c1", dg.ArrayOf(dg.Attr{T: dg.Ref("Color"), V: &dg.Validation{Enum: []any{"blue"}}})),
			dg.F("arr_c2", dg.ArrayOf(dg.A(dg.Ref("Color")))),
			dg.F("al_i2", dg.Ref("AliasI")),
			dg.F("arr_al", dg.ArrayOf(dg.A(dg.Ref("AliasS")))),
			dg.F("map_al", dg.MapOf(dg.A(dg.Prim("String")), dg.A(dg.Ref("AliasI"))))))
		if prop == "C14" {
			// recorded finding alias-attribute-validation-undocumented-in-user-type: witness stream only
			var keep []*dg.Field
			for _, f := range aliasP.T.Attrs {
				if f.Name != "paint" && f.Name != "paints" {
					keep = append(keep, f)
				}
			}
			aliasP.T.Attrs = keep
		}
		s.Methods = append(s.Methods, method("m_alias", "POST", "/nested/alias", &aliasP, nil))
		userP := dg.A(dg.Obj(
			dg.Req("in_req", dg.Ref("Inner")),
			dg.F("in_opt", dg.Ref("Inner")),
			dg.F("arr_in", dg.ArrayOf(dg.A(dg.Ref("Inner")))),
			dg.F("map_in", dg.MapOf(dg.A(dg.Prim("String")), dg.A(dg.Ref("Inner")))),
			// the same required-only type first met below a map of arrays / map of maps, then directly,
			// then as array element (an answer remembered from one position must not reach another)
			dg.F("maparr_ro", dg.MapOf(dg.A(dg.Prim("String")), dg.A(dg.ArrayOf(dg.A(dg.Ref("ReqOnly")))))),
			dg.F("mapmap_ro", dg.MapOf(dg.A(dg.Prim("String")), dg.A(dg.MapOf(dg.A(dg.Prim("String")), dg.A(dg.Ref("ReqOnly")))))),
			dg.F("ro", dg.Ref("ReqOnly")),
			dg.F("arr_ro", dg.ArrayOf(dg.A(dg.Ref("ReqOnly")))),
			dg.F("arr2_ro", dg.ArrayOf(dg.A(dg.ArrayOf(dg.A(dg.Ref("ReqOnly")))))),
			dg.F("map_ro", dg.MapOf(dg.A(dg.Prim("String")), dg.A(dg.Ref("ReqOnly")))),
			dg.F("arrmap_ro", dg.ArrayOf(dg.A(dg.MapOf(dg.A(dg.Prim("String")), dg.A(dg.Ref("ReqOnly")))))),
			dg.F("arr2_in", dg.ArrayOf(dg.A(dg.ArrayOf(dg.A(dg.Ref("Inner")))))),
			dg.F("plain", dg.Ref("Plain"))))
		s.Methods = append(s.Methods, method("m_user", "POST", "/nested/user", &userP, nil))
		recP := dg.A(dg.Ref("Rec"))
		s.Methods = append(s.Methods, method("m_rec", "POST", "/nested/rec", &recP, nil))
		d.Services = []*dg.Service{s}
		out = append(out, d)
	}

	// D3b: two SERVICES with same-named methods whose payloads and results differ
	{
		d := &dg.Design{Name: "cov_twosvc", Features: []string{"covering", "same_method_names"}}
		ordersCreate := dg.A(dg.Obj(
			dg.Req("sku", dg.Prim("String")).With(dg.Validation{Pattern: "^[a-z]+$"}),
			dg.F("qty", dg.Prim("Int")).With(dg.Validation{Min: fp(1)})))
		ordersRes := dg.A(dg.Obj(dg.Req("id", dg.Prim("String")).With(dg.Validation{MinLen: ip(2)})))
		invCreate := dg.A(dg.Obj(
			dg.Req("number", dg.Prim("Int")).With(dg.Validation{Min: fp(1000)}),
			dg.F("memo", dg.Prim("String")).With(dg.Validation{MaxLen: ip(5)}),
			dg.F("lines", dg.ArrayOf(dg.Attr{T: dg.Prim("String"), V: &dg.Validation{MinLen: ip(1)}}))))
		invRes := dg.A(dg.Obj(dg.Req("total", dg.Prim("Float64")).With(dg.Validation{Min: fp(0)}), dg.F("paid", dg.Prim("Boolean"))))
		ordersGet := dg.A(dg.Obj(dg.Req("oid", dg.Prim("Int")).With(dg.Validation{Min: fp(1)}), dg.F("verbose", dg.Prim("Boolean"))))
		invGet := dg.A(dg.Obj(dg.Req("iid", dg.Prim("String")).With(dg.Validation{Format: "uuid"}), dg.Req("cur", dg.Prim("String")).With(dg.Validation{Enum: []any{"eur", "usd"}})))
		// same-named methods whose HEADERS / COOKIES / response headers differ (set, validations, required-ness)
		ordersHC := dg.A(dg.Obj(
			dg.Req("lim", dg.Prim("Int")).With(dg.Validation{Max: fp(5)}),
			dg.F("tag", dg.Prim("String")).With(dg.Validation{MaxLen: ip(3)}),
			dg.F("sid", dg.Prim("String")).With(dg.Validation{MinLen: ip(2)})))
		invHC := dg.A(dg.Obj(
			dg.F("lim", dg.Prim("Int")).With(dg.Validation{Max: fp(50)}),
			dg.Req("tag", dg.Prim("String")).With(dg.Validation{Enum: []any{"a", "bc"}}),
			dg.Req("mode", dg.Prim("String")).With(dg.Validation{Pattern: "^[a-z]+$"}),
			dg.F("sid", dg.Prim("String")).With(dg.Validation{MaxLen: ip(4)}),
			dg.F("trk", dg.Prim("String"))))
		ordersHCRes := dg.A(dg.Obj(dg.Req("ok", dg.Prim("Boolean")), dg.Req("rid", dg.Prim("Int")).With(dg.Validation{Min: fp(1), Max: fp(9)})))
		invHCRes := dg.A(dg.Obj(dg.Req("ok", dg.Prim("Boolean")), dg.F("rid", dg.Prim("String")).With(dg.Validation{Enum: []any{"x", "y"}}), dg.F("etag", dg.Prim("String"))))
		d.Services = []*dg.Service{
			{Name: "orders", Methods: []*dg.Method{
				{Name: "create", Payload: &ordersCreate, Result: &ordersRes, HTTP: &dg.HTTPMap{Routes: []dg.Route{{Verb: "POST", Path: "/orders"}}}},
				{Name: "get", Payload: &ordersGet, Result: &ordersRes, HTTP: &dg.HTTPMap{Routes: []dg.Route{{Verb: "GET", Path: "/orders/{oid}"}}, Params: []dg.MapEntry{{Attr: "verbose"}}}},
				{Name: "hc", Payload: &ordersHC, Result: &ordersHCRes, HTTP: &dg.HTTPMap{Routes: []dg.Route{{Verb: "GET", Path: "/orders/hc"}},
					Headers: []dg.MapEntry{{Attr: "lim", Wire: "X-Lim"}, {Attr: "tag", Wire: "X-Tag"}}, Cookies: []dg.MapEntry{{Attr: "sid", Wire: "sid_c"}},
					Responses: []dg.Response{{Status: 200, Headers: []dg.MapEntry{{Attr: "rid", Wire: "X-Rid"}}}}}}}},
			{Name: "invoices", Methods: []*dg.Method{
				{Name: "create", Payload: &invCreate, Result: &invRes, HTTP: &dg.HTTPMap{Routes: []dg.Route{{Verb: "POST", Path: "/invoices"}}}},
				{Name: "get", Payload: &invGet, Result: &invRes, HTTP: &dg.HTTPMap{Routes: []dg.Route{{Verb: "GET", Path: "/invoices/{iid}"}}, Params: []dg.MapEntry{{Attr: "cur"}}}},
				{Name: "hc", Payload: &invHC, Result: &invHCRes, HTTP: &dg.HTTPMap{Routes: []dg.Route{{Verb: "GET", Path: "/invoices/hc"}},
					Headers: []dg.MapEntry{{Attr: "lim", Wire: "X-Lim"}, {Attr: "tag", Wire: "X-Tag"}, {Attr: "mode", Wire: "X-Mode"}}, Cookies: []dg.MapEntry{{Attr: "sid", Wire: "sid_c"}, {Attr: "trk", Wire: "trk_c"}},
					Responses: []dg.Response{{Status: 200, Headers: []dg.MapEntry{{Attr: "rid", Wire: "X-Rid"}, {Attr: "etag", Wire: "X-Etag"}}}}}}}},
		}
		out = append(out, d)
	}

	// D4: RESULTS carrying validations (the generated client validates what it decodes).
	{
		d := &dg.Design{Name: "cov_result", Features: []string{"covering", "result_validation"}}
		d.Types = []*dg.UserType{
			{Name: "RInner", Base: dg.Obj(
				dg.Req("name", dg.Prim("String")).With(dg.Validation{MinLen: ip(1), MaxLen: ip(4)}),
				dg.F("n", dg.Prim("Int")).With(dg.Validation{Min: fp(0), Max: fp(5)}))},
		}
		s := &dg.Service{Name: "result"}
		for _, fl := range []string{"req", "opt"} {
			r := dg.A(dg.Obj(fieldsOf(primTable(bytesLen), fl)...))
			s.Methods = append(s.Methods, &dg.Method{Name: "r_" + fl, Result: &r, HTTP: &dg.HTTPMap{Routes: []dg.Route{{Verb: "GET", Path: "/result/" + fl}}}})
		}
		rn := dg.A(dg.Obj(
			dg.Req("in_req", dg.Ref("RInner")),
			dg.F("in_opt", dg.Ref("RInner")),
			dg.F("arr", dg.ArrayOf(dg.Attr{T: dg.Prim("Int"), V: &dg.Validation{Min: fp(1)}})).With(dg.Validation{MaxLen: ip(3)}),
			dg.F("arr_in", dg.ArrayOf(dg.A(dg.Ref("RInner")))),
			dg.F("m", dg.MapOf(dg.A(dg.Prim("String")), dg.Attr{T: dg.Prim("String"), V: &dg.Validation{Pattern: "^[a-z]+$"}})),
			dg.Req("h_i", dg.Prim("Int")).With(dg.Validation{Min: fp(1), Max: fp(9)}),
			dg.F("h_s", dg.Prim("String")).With(dg.Validation{Enum: []any{"a", "bc"}})))
		s.Methods = append(s.Methods, &dg.Method{Name: "r_nested", Result: &rn, HTTP: &dg.HTTPMap{Routes: []dg.Route{{Verb: "GET", Path: "/result/nested"}},
			Responses: []dg.Response{{Status: 200, Headers: []dg.MapEntry{{Attr: "h_i", Wire: "X-H-I"}, {Attr: "h_s", Wire: "X-H-S"}}}}}})
		// results spread over body, response headers and response cookies: every mix of validated and
		// plain headers / cookies, in both declaration orders (the client must check what it decodes
		// from each location, whatever the other locations hold)
		{
			quota := func() *dg.Field { return dg.Req("quota", dg.Prim("Int")).With(dg.Validation{Min: fp(1), Max: fp(9)}) }
			etag := func() *dg.Field { return dg.F("etag", dg.Prim("String")).With(dg.Validation{Pattern: "^[0-9]{2,4}$"}) }
			tag := func() *dg.Field { return dg.F("tag", dg.Prim("String")) }
			sess := func() *dg.Field { return dg.F("sess", dg.Prim("String")) }
			tok := func() *dg.Field {
				if prop == "C14" {
					// a validated response cookie is the recorded finding set-cookie-header-carries-cookie-schema
					return dg.F("tok", dg.Prim("String"))
				}
				return dg.F("tok", dg.Prim("String")).With(dg.Validation{MaxLen: ip(3)})
			}
			name := func() *dg.Field { return dg.Req("name", dg.Prim("String")).With(dg.Validation{MaxLen: ip(4)}) }
			h := func(a, w string) dg.MapEntry { return dg.MapEntry{Attr: a, Wire: w} }
			mixes := []struct {
				n       string
				fields  []*dg.Field
				headers []dg.MapEntry
				cookies []dg.MapEntry
			}{
				{"r_hc_a", []*dg.Field{name(), quota(), sess()}, []dg.MapEntry{h("quota", "X-Quota")}, []dg.MapEntry{h("sess", "sess_r")}},
				{"r_hc_b", []*dg.Field{name(), tag(), tok()}, []dg.MapEntry{h("tag", "X-Tag")}, []dg.MapEntry{h("tok", "tok_r")}},
				{"r_hc_c", []*dg.Field{name(), quota(), tag(), tok(), sess()}, []dg.MapEntry{h("quota", "X-Quota"), h("tag", "X-Tag")}, []dg.MapEntry{h("tok", "tok_r"), h("sess", "sess_r")}},
				{"r_hc_d", []*dg.Field{name(), tag(), etag(), sess(), tok()}, []dg.MapEntry{h("tag", "X-Tag"), h("etag", "X-Etag")}, []dg.MapEntry{h("sess", "sess_r"), h("tok", "tok_r")}},
				{"r_hc_e", []*dg.Field{name(), tag(), sess()}, []dg.MapEntry{h("tag", "X-Tag")}, []dg.MapEntry{h("sess", "sess_r")}},
			}
			for _, mx := range mixes {
				r := dg.A(dg.Obj(mx.fields...))
				s.Methods = append(s.Methods, &dg.Method{Name: mx.n, Result: &r, HTTP: &dg.HTTPMap{Routes: []dg.Route{{Verb: "GET", Path: "/result/" + mx.n}},
					Responses: []dg.Response{{Status: 200, Headers: mx.headers, Cookies: mx.cookies}}}})
			}
		}
		ru := dg.A(dg.Ref("RInner"))
		s.Methods = append(s.Methods, &dg.Method{Name: "r_user", Result: &ru, HTTP: &dg.HTTPMap{Routes: []dg.Route{{Verb: "GET", Path: "/result/user"}}}})
		ra := dg.Attr{T: dg.ArrayOf(dg.Attr{T: dg.Prim("String"), V: &dg.Validation{MaxLen: ip(2)}}), V: &dg.Validation{MinLen: ip(1)}}
		s.Methods = append(s.Methods, &dg.Method{Name: "r_arr", Result: &ra, HTTP: &dg.HTTPMap{Routes: []dg.Route{{Verb: "GET", Path: "/result/arr"}}}})
		d.Services = []*dg.Service{s}
		out = append(out, d)
	}
	return out
}

// witnessDesigns re-demonstrate the recorded findings on every run.
func witnessDesigns() []*dg.Design {
	d := &dg.Design{Name: "wit_findings", Features: []string{"witness"}}
	d.Types = []*dg.UserType{{Name: "ReqOnly", Base: dg.Obj(dg.Req("a", dg.Prim("String")), dg.Req("b", dg.Prim("Int")), dg.F("c", dg.Prim("Boolean")))}}
	s := &dg.Service{Name: "wit"}
	// absent optional array / map carrying MinLength > 0
	p := dg.A(dg.Obj(
		dg.Req("id", dg.Prim("String")),
		dg.F("tags", dg.ArrayOf(dg.A(dg.Prim("String")))).With(dg.Validation{MinLen: ip(2)}),
		dg.F("opts", dg.MapOf(dg.A(dg.Prim("String")), dg.A(dg.Prim("String")))).With(dg.Validation{MinLen: ip(1)})))
	s.Methods = append(s.Methods, method("w_body", "POST", "/wit/body", &p, nil))
	q := dg.A(dg.Obj(
		dg.Req("id", dg.Prim("String")),
		dg.F("qtags", dg.ArrayOf(dg.A(dg.Prim("String")))).With(dg.Validation{MinLen: ip(1)})))
	s.Methods = append(s.Methods, method("w_query", "GET", "/wit/query", &q, &dg.HTTPMap{Params: []dg.MapEntry{{Attr: "id"}, {Attr: "qtags"}}}))
	// map with MinLength / MaxLength: documented as string minLength / maxLength
	m := dg.A(dg.Obj(
		dg.Req("m_len", dg.MapOf(dg.A(dg.Prim("String")), dg.A(dg.Prim("String")))).With(dg.Validation{MinLen: ip(1), MaxLen: ip(2)})))
	s.Methods = append(s.Methods, method("w_maplen", "POST", "/wit/maplen", &m, nil))
	// a violated parameter followed by a required cookie
	ck := dg.A(dg.Obj(
		dg.Req("items", dg.Prim("UInt64")).With(dg.Validation{ExclMin: fp(0)}),
		dg.Req("note", dg.Prim("String"))))
	s.Methods = append(s.Methods, method("w_cookie", "GET", "/wit/cookie", &ck, &dg.HTTPMap{Params: []dg.MapEntry{{Attr: "items"}}, Cookies: []dg.MapEntry{{Attr: "note", Wire: "note_ck"}}}))
	// byte strings with length bounds; unsigned integers; maps with non-string keys; header arrays
	by := dg.A(dg.Obj(
		dg.F("b_max", dg.Prim("Bytes")).With(dg.Validation{MaxLen: ip(3)}),
		dg.F("b_min", dg.Prim("Bytes")).With(dg.Validation{MinLen: ip(2)}),
		dg.F("u", dg.Prim("UInt")),
		dg.F("u64", dg.Prim("UInt64")),
		dg.F("m_int", dg.MapOf(dg.A(dg.Prim("Int")), dg.A(dg.Prim("Int")))),
		dg.F("m_key", dg.MapOf(dg.Attr{T: dg.Prim("String"), V: &dg.Validation{Pattern: "^[a-z]+$"}}, dg.A(dg.Prim("String"))))))
	s.Methods = append(s.Methods, method("w_doc", "POST", "/wit/doc", &by, nil))
	ha := dg.A(dg.Obj(dg.F("h_arr", dg.ArrayOf(dg.A(dg.Prim("Int")))).With(dg.Validation{MaxLen: ip(2)})))
	s.Methods = append(s.Methods, method("w_harr", "GET", "/wit/harr", &ha, &dg.HTTPMap{Headers: []dg.MapEntry{{Attr: "h_arr", Wire: "X-H-Arr"}}}))
	// a named user type whose alias-typed attribute narrows the alias's Enum
	d.Types = append(d.Types,
		&dg.UserType{Name: "WColor", Base: dg.Prim("String"), V: &dg.Validation{Enum: []any{"red", "green", "blue"}}},
		&dg.UserType{Name: "WPaint", Base: dg.Obj(dg.F("primary", dg.Ref("WColor")).With(dg.Validation{Enum: []any{"red"}}), dg.F("secondary", dg.Ref("WColor")))})
	wp := dg.A(dg.Obj(dg.F("paint", dg.Ref("WPaint"))))
	s.Methods = append(s.Methods, method("w_paint", "POST", "/wit/paint", &wp, nil))
	// two structurally equal payloads with different validations
	sh1 := dg.A(dg.Obj(dg.F("shm", dg.MapOf(dg.A(dg.Prim("String")), dg.Attr{T: dg.Prim("Int"), V: &dg.Validation{Min: fp(1)}}))))
	s.Methods = append(s.Methods, method("w_sh1", "POST", "/wit/sh1", &sh1, nil))
	sh2 := dg.A(dg.Obj(dg.F("shm", dg.MapOf(dg.A(dg.Prim("String")), dg.A(dg.Prim("Int"))))))
	s.Methods = append(s.Methods, method("w_sh2", "POST", "/wit/sh2", &sh2, nil))
	// an unsigned 64-bit parameter
	uq := dg.A(dg.Obj(dg.Req("u64", dg.Prim("UInt64"))))
	s.Methods = append(s.Methods, method("w_u64", "GET", "/wit/u64", &uq, &dg.HTTPMap{Params: []dg.MapEntry{{Attr: "u64"}}}))
	// a map carried in the query string
	qm := dg.A(dg.Obj(dg.Req("m", dg.MapOf(dg.A(dg.Prim("String")), dg.A(dg.Prim("Int"))))))
	s.Methods = append(s.Methods, method("w_qmap", "GET", "/wit/qmap", &qm, &dg.HTTPMap{Params: []dg.MapEntry{{Attr: "m"}}}))
	// a result attribute with a length bound carried in a response cookie
	rc := dg.A(dg.Obj(dg.Req("ok", dg.Prim("Boolean")), dg.Req("c", dg.Prim("String")).With(dg.Validation{MaxLen: ip(3)})))
	s.Methods = append(s.Methods, &dg.Method{Name: "w_rcookie", Result: &rc, HTTP: &dg.HTTPMap{Routes: []dg.Route{{Verb: "GET", Path: "/wit/rcookie"}},
		Responses: []dg.Response{{Status: 200, Cookies: []dg.MapEntry{{Attr: "c", Wire: "c_rck"}}}}}})
	// exclusive bounds are written as numbers in openapi3.json
	x := dg.A(dg.Obj(dg.Req("x", dg.Prim("Int")).With(dg.Validation{ExclMin: fp(0), ExclMax: fp(10)})))
	s.Methods = append(s.Methods, method("w_excl", "POST", "/wit/excl", &x, nil))
	d.Services = []*dg.Service{s}
	return []*dg.Design{d}
}
