package main

import (
	"strings"

	dg "verifharness/designgen"
)

// withDefaults returns v with the declared defaults filled in for unset attributes,
// recursively: the generated payload / result structs hold defaulted attributes by
// value, so "unset" is not a state a caller can express; a caller that does not care
// sets the default.
func withDefaults(d *dg.Design, t *dg.Type, v *dg.Val) *dg.Val {
	if v == nil || v.K == "null" {
		return v
	}
	bt, _ := d.Base(t)
	switch v.K {
	case "object":
		out := v.Clone()
		for _, f := range d.AllFields(t) {
			cur := out.Get(f.Name)
			if cur == nil {
				if f.A.HasDef {
					out.Set(f.Name, defVal(f.A.Default, &f.A.T))
				}
				continue
			}
			out.Set(f.Name, withDefaults(d, &f.A.T, cur))
		}
		return out
	case "array":
		out := v.Clone()
		var et *dg.Type
		if bt.Kind == "collection" {
			et = &dg.Type{Kind: "user", Ref: bt.Ref}
		} else if bt.Elem != nil {
			et = &bt.Elem.T
		}
		if et != nil {
			for i := range out.Elems {
				out.Elems[i] = withDefaults(d, et, out.Elems[i])
			}
		}
		return out
	case "map":
		out := v.Clone()
		if bt.Elem != nil {
			for i := range out.Elems {
				out.Elems[i] = withDefaults(d, &bt.Elem.T, out.Elems[i])
			}
		}
		return out
	}
	return v
}

func defVal(x any, t *dg.Type) *dg.Val {
	switch v := x.(type) {
	case bool:
		return &dg.Val{K: "bool", B: v}
	case string:
		return &dg.Val{K: "string", S: v}
	case int:
		if strings.HasPrefix(t.Prim, "UInt") {
			return &dg.Val{K: "uint", U: uint64(v)}
		}
		if strings.HasPrefix(t.Prim, "Float") {
			return &dg.Val{K: "float", F: float64(v)}
		}
		return &dg.Val{K: "int", I: int64(v)}
	case float64:
		if strings.HasPrefix(t.Prim, "UInt") {
			return &dg.Val{K: "uint", U: uint64(v)}
		}
		if strings.HasPrefix(t.Prim, "Int") {
			return &dg.Val{K: "int", I: int64(v)}
		}
		return &dg.Val{K: "float", F: v}
	}
	return dg.Null
}
