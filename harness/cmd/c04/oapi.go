package main

// C14 tier B: the exact requests and responses exchanged are validated by kin-openapi's
// openapi3filter against the generated gen/http/openapi3.json, and its verdict is
// compared with the server's accept / reject decision.

import (
	"bytes"
	"context"
	"encoding/json"
	"fmt"
	"io"
	"net/http"
	"net/url"
	"os"
	"regexp"
	"strings"

	"github.com/getkin/kin-openapi/openapi3"
	"github.com/getkin/kin-openapi/openapi3filter"
	"github.com/getkin/kin-openapi/routers"
	goa "goa.design/goa/v3/pkg"

	dg "verifharness/designgen"
	"verifharness/tierb/rt"
	"verifharness/vh"
)

type kinDoc struct {
	doc       *openapi3.T
	loadErr   string // error loading the document as generated
	rewritten int    // numeric exclusive bounds rewritten to the OpenAPI 3.0 boolean form
	fatal     string // error loading even after the rewrite
}

type kinCache struct {
	docs map[string]*kinDoc
}

var formatsDefined = false

func newKinCache() *kinCache {
	if !formatsDefined {
		formatsDefined = true
		for f := range formatIDs {
			ff := f
			if ff == "ipv4" || ff == "ipv6" {
				continue // kin-openapi's own validators below: the documented meaning, independent of goa's runtime
			}
			openapi3.DefineStringFormatValidator(ff, openapi3.NewCallbackValidator(func(s string) error {
				return goa.ValidateFormat("value", s, goa.Format(ff))
			}))
		}
	}
	openapi3.DefineIPv4Format()
	openapi3.DefineIPv6Format()
	return &kinCache{docs: map[string]*kinDoc{}}
}

// rewriteExclusive turns `exclusiveMinimum: n` (a number: JSON-Schema draft 6 syntax) into
// `minimum: n, exclusiveMinimum: true` (OpenAPI 3.0 syntax of the same constraint).
func rewriteExclusive(x any, n *int) any {
	switch t := x.(type) {
	case map[string]any:
		for k, v := range t {
			t[k] = rewriteExclusive(v, n)
		}
		for _, kw := range [][2]string{{"exclusiveMinimum", "minimum"}, {"exclusiveMaximum", "maximum"}} {
			if num, ok := t[kw[0]].(json.Number); ok {
				if _, has := t[kw[1]]; !has {
					t[kw[1]] = num
					t[kw[0]] = true
				} else {
					// both an inclusive and an exclusive bound: keep the inclusive one, drop the other (rare)
					delete(t, kw[0])
				}
				*n++
			}
		}
		return t
	case []any:
		for i := range t {
			t[i] = rewriteExclusive(t[i], n)
		}
		return t
	}
	return x
}

func (kc *kinCache) load(it *built) *kinDoc {
	if kd, ok := kc.docs[it.bu.Key]; ok {
		return kd
	}
	kd := &kinDoc{}
	kc.docs[it.bu.Key] = kd
	if len(it.openapi) == 0 {
		kd.fatal = "openapi3.json not generated"
		return kd
	}
	l := openapi3.NewLoader()
	doc, err := l.LoadFromData(it.openapi)
	if err == nil {
		kd.doc = doc
		return kd
	}
	kd.loadErr = err.Error()
	var raw any
	dec := json.NewDecoder(bytes.NewReader(it.openapi))
	dec.UseNumber()
	if e := dec.Decode(&raw); e != nil {
		kd.fatal = e.Error()
		return kd
	}
	raw = rewriteExclusive(raw, &kd.rewritten)
	b, _ := json.Marshal(raw)
	doc, err = openapi3.NewLoader().LoadFromData(b)
	if err != nil {
		kd.fatal = err.Error()
		return kd
	}
	kd.doc = doc
	return kd
}

// findOperation locates the operation of a method by its operationId ("service#method").
func findOperation(doc *openapi3.T, svc, method string, verb string, reqPath string) (string, *openapi3.PathItem, *openapi3.Operation) {
	want := svc + "#" + method
	if doc.Paths == nil {
		return "", nil, nil
	}
	var fp string
	var fi *openapi3.PathItem
	var fo *openapi3.Operation
	for p, item := range doc.Paths.Map() {
		for v, op := range item.Operations() {
			if (op.OperationID == want || strings.HasPrefix(op.OperationID, want+"#")) && strings.EqualFold(v, verb) {
				if _, ok := matchPath(p, reqPath); ok {
					return p, item, op // the route the request used
				}
				if fo == nil {
					fp, fi, fo = p, item, op
				}
			}
		}
	}
	return fp, fi, fo
}

// matchPath binds the {name} segments of template to the segments of path.
func matchPath(template, path string) (map[string]string, bool) {
	ts := strings.Split(strings.Trim(template, "/"), "/")
	ps := strings.Split(strings.Trim(path, "/"), "/")
	if len(ts) != len(ps) {
		return nil, false
	}
	out := map[string]string{}
	for i := range ts {
		if strings.HasPrefix(ts[i], "{") && strings.HasSuffix(ts[i], "}") {
			v, err := url.PathUnescape(ps[i])
			if err != nil {
				v = ps[i]
			}
			out[strings.Trim(ts[i], "{}")] = v
			continue
		}
		if ts[i] != ps[i] {
			return nil, false
		}
	}
	return out, true
}

func wireRequest(w *rt.Wire) *http.Request {
	u := "http://localhost" + w.Path
	if w.Query != "" {
		u += "?" + w.Query
	}
	body := wireBody(w)
	req, err := http.NewRequest(w.Method, u, bytes.NewReader(body))
	if err != nil {
		return nil
	}
	for k, vs := range w.Headers {
		for _, v := range vs {
			req.Header.Add(k, v)
		}
	}
	return req
}

type kinVerdict struct {
	Checked bool
	OK      bool
	Err     string
	// what the document says about the request BODY alone, asked when the verdict on the whole
	// request is an objection to a parameter (the validator stops at the first objection)
	BodyChecked bool
	BodyOK      bool
	BodyErr     string
}

func (kc *kinCache) validate(it *built, si *stepInfo, ob *rt.Obs) (reqV, respV kinVerdict, kd *kinDoc) {
	kd = kc.load(it)
	if kd.doc == nil || ob.Req == nil {
		return
	}
	path, item, op := findOperation(kd.doc, si.Service, si.Method, ob.Req.Method, ob.Req.Path)
	if op == nil {
		return
	}
	pp, ok := matchPath(path, ob.Req.Path)
	if !ok {
		// the request path does not fit the documented template (base paths): try suffix alignment
		pp = map[string]string{}
	}
	req := wireRequest(ob.Req)
	if req == nil {
		return
	}
	route := &routers.Route{Spec: kd.doc, Path: path, PathItem: item, Method: ob.Req.Method, Operation: op}
	in := &openapi3filter.RequestValidationInput{Request: req, PathParams: pp, Route: route,
		Options: &openapi3filter.Options{AuthenticationFunc: openapi3filter.NoopAuthenticationFunc, SkipSettingDefaults: true}}
	err := func() (err error) {
		defer func() {
			if r := recover(); r != nil {
				err = fmt.Errorf("validator panic: %v", r)
			}
		}()
		return openapi3filter.ValidateRequest(context.Background(), in)
	}()
	reqV = kinVerdict{Checked: true, OK: err == nil}
	if err != nil {
		reqV.Err = firstLine(err.Error())
		if strings.HasPrefix(reqV.Err, "parameter ") && op.RequestBody != nil && op.RequestBody.Value != nil {
			if breq := wireRequest(ob.Req); breq != nil {
				bin := &openapi3filter.RequestValidationInput{Request: breq, PathParams: pp, Route: route, Options: in.Options}
				berr := func() (err error) {
					defer func() {
						if r := recover(); r != nil {
							err = fmt.Errorf("validator panic: %v", r)
						}
					}()
					return openapi3filter.ValidateRequestBody(context.Background(), bin, op.RequestBody.Value)
				}()
				reqV.BodyChecked, reqV.BodyOK = true, berr == nil
				if berr != nil {
					reqV.BodyErr = firstLine(berr.Error())
				}
			}
		}
	}
	if ob.Resp != nil {
		rin := &openapi3filter.ResponseValidationInput{RequestValidationInput: in, Status: ob.Resp.Status, Header: http.Header(ob.Resp.Headers),
			Options: &openapi3filter.Options{AuthenticationFunc: openapi3filter.NoopAuthenticationFunc, SkipSettingDefaults: true}}
		rin.SetBodyBytes(wireBody(ob.Resp))
		err := func() (err error) {
			defer func() {
				if r := recover(); r != nil {
					err = fmt.Errorf("validator panic: %v", r)
				}
			}()
			return openapi3filter.ValidateResponse(context.Background(), rin)
		}()
		respV = kinVerdict{Checked: true, OK: err == nil}
		if err != nil {
			respV.Err = firstLine(err.Error())
		}
	}
	return
}

var _ = io.EOF

func firstLine(s string) string {
	if i := strings.Index(s, "\n"); i >= 0 {
		s = s[:i]
	}
	if len(s) > 300 {
		s = s[:300]
	}
	return s
}

func documentedStatus(kd *kinDoc, si *stepInfo, ob *rt.Obs) bool {
	if kd == nil || kd.doc == nil || ob.Req == nil || ob.Resp == nil {
		return false
	}
	_, _, op := findOperation(kd.doc, si.Service, si.Method, ob.Req.Method, ob.Req.Path)
	if op == nil || op.Responses == nil {
		return false
	}
	return op.Responses.Status(ob.Resp.Status) != nil
}

// checkC14 is the direct oracle of C14 on one exchange.
func checkC14(res *vh.Result, kc *kinCache, it *built, si *stepInfo, ob *rt.Obs, in map[string]any) {
	if it == nil || ob.Panic != "" {
		return
	}
	reqV, respV, kd := kc.validate(it, si, ob)
	if kd.fatal != "" {
		res.Count("openapi_not_loadable")
		res.Extra["openapi_fatal:"+it.bu.Design.Name] = kd.fatal
		return
	}
	if kd.loadErr != "" && kd.rewritten > 0 {
		if _, seen := res.Extra["excl:"+it.bu.Key]; !seen {
			res.Extra["excl:"+it.bu.Key] = kd.loadErr
			failSig(res, "exclusive-bound-number", "openapi3.json writes exclusiveMinimum / exclusiveMaximum as numbers; an OpenAPI 3.0 loader refuses the document: "+firstLine(kd.loadErr),
				map[string]any{"design": it.bu.Design, "load_error": kd.loadErr, "rewritten_bounds": kd.rewritten})
		}
	}
	if !reqV.Checked {
		res.Count("kin_not_checked")
		return
	}
	if dbg := os.Getenv("C04_DEBUG_METHOD"); dbg != "" && dbg == si.Method {
		fmt.Fprintf(os.Stderr, "DBG %s %s %s invoked=%d status=%d kin=%v %s\n", si.Method, si.Desc, si.Site, ob.Invoked, status(ob), reqV.OK, reqV.Err)
	}
	in["schema_verdict_request"] = reqV
	in["schema_verdict_response"] = respV
	if si.Side == "request" && ob.Resp == nil {
		// no response at all: the server crashed while serving the request; neither an acceptance nor a rejection
		sig := "server-no-response"
		failSig(res, sig, fmt.Sprintf("the server answered nothing (it crashed) on a request (%s at %s); schema verdict: conforms=%v %s", si.Desc, si.Site, reqV.OK, reqV.Err), in)
		return
	}
	if si.Side == "request" {
		serverAccepts := ob.Invoked == 1
		res.Count(fmt.Sprintf("request_server=%v_schema=%v", serverAccepts, reqV.OK))
		switch {
		case serverAccepts && !reqV.OK:
			failSig(res, classifyC14(it, si, ob, true, reqV.Err), fmt.Sprintf("the server accepted a request the documented schemas forbid (%s at %s): %s", si.Desc, si.Site, reqV.Err), in)
		case !serverAccepts && reqV.OK:
			failSig(res, classifyC14(it, si, ob, false, ""), fmt.Sprintf("the documented schemas allow a request the server rejects with %d %s (%s at %s)", status(ob), errName(ob), si.Desc, si.Site), in)
		default:
			res.Sample(map[string]any{"method": si.Method, "mutation": si.Desc, "server_accepts": serverAccepts, "schema_accepts": reqV.OK, "wire": ob.Req}, 3)
		}
		// an objection to a parameter (possibly a recorded finding) must not hide what the document says about the body
		if serverAccepts && !reqV.OK && reqV.BodyChecked && !reqV.BodyOK {
			res.Count("request_body_judged_behind_parameter_objection")
			failSig(res, classifyC14(it, si, ob, true, reqV.BodyErr), fmt.Sprintf("the server accepted a request whose body the documented schema forbids (%s at %s): %s", si.Desc, si.Site, reqV.BodyErr), in)
		}
	}
	// responses: every success / declared-error response produced for a result that satisfies the design
	if respV.Checked && ob.Invoked == 1 && ob.Resp != nil && (si.Side == "request" || len(si.Expected) == 0) && documentedStatus(kd, si, ob) {
		res.Count(fmt.Sprintf("response_schema=%v", respV.OK))
		if !respV.OK {
			cls := schemaErrClass(si, si.M.Result, respV.Err)
			if cls == "" && strings.Contains(respV.Err, "\"Set-Cookie\"") {
				cls = "set-cookie-header-carries-cookie-schema"
			}
			if cls == "" {
				cls = "response-not-conforming:" + respClass(respV.Err)
			}
			failSig(res, cls, fmt.Sprintf("a %d response produced for a result that satisfies the design does not conform to its documented schema: %s", ob.Resp.Status, respV.Err), in)
		}
	}
}

func respClass(e string) string {
	switch {
	case strings.Contains(e, "header"):
		return "header"
	case strings.Contains(e, "content type"), strings.Contains(e, "content-type"), strings.Contains(e, "Content-Type"):
		return "content-type"
	}
	return "body"
}

// attrAtPointer walks the design along a JSON pointer ("/a/0/b") from attribute a.
func attrAtPointer(si *stepInfo, a *dg.Attr, ptr string) *dg.Attr {
	d := si.Design
	cur := a
	for _, seg := range strings.Split(strings.Trim(ptr, "/"), "/") {
		if cur == nil || seg == "" {
			break
		}
		bt, _ := d.Effective(cur)
		switch bt.Kind {
		case "array":
			cur = bt.Elem
		case "collection":
			cur = &dg.Attr{T: dg.Type{Kind: "user", Ref: bt.Ref}}
		case "map":
			cur = bt.Elem
		case "object", "user":
			var next *dg.Attr
			for _, f := range d.AllFields(&cur.T) {
				if f.Name == seg {
					next = &f.A
				}
			}
			cur = next
		default:
			return nil
		}
	}
	return cur
}

var errAtRe = regexp.MustCompile(`Error at "([^"]*)"`)
var paramErrRe = regexp.MustCompile(`parameter "([^"]*)" in (\w+)`)

// schemaErrClass names what kin-openapi objected to, from its message and the attribute it points at.
func schemaErrClass(si *stepInfo, root *dg.Attr, msg string) string {
	if strings.Contains(msg, "Value is not nullable") {
		return "explicit-null-accepted-by-server"
	}
	if strings.Contains(msg, "value out of range") || strings.Contains(msg, "must be an int64") || strings.Contains(msg, "number must be an int64") {
		// UInt / UInt64 are documented as integers of format int64
		return "uint64-documented-as-int64"
	}
	if m := paramErrRe.FindStringSubmatch(msg); m != nil && root != nil && (m[2] == "query" || m[2] == "header") {
		// a map carried in the query string is written name[key]=value by goa; the document does not say style: deepObject
		for _, f := range si.Design.AllFields(&root.T) {
			wire := f.Name
			if si.M.HTTP != nil {
				wire = wireNameOf(si.M.HTTP.Params, f.Name)
			}
			if wire == m[1] {
				if bt, _ := si.Design.Effective(&f.A); bt.Kind == "map" {
					return "query-map-style-undocumented"
				}
			}
		}
	}
	if m := errAtRe.FindStringSubmatch(msg); m != nil && root != nil && strings.Contains(msg, "string length") {
		if a := attrAtPointer(si, root, m[1]); a != nil {
			if bt, _ := si.Design.Effective(a); bt.Kind == "prim" && bt.Prim == "Bytes" {
				return "bytes-length-counts-base64"
			}
		}
	}
	return ""
}

// schemaErrKind: the keyword kin-openapi reports, without the values.
func schemaErrKind(msg string) string {
	for _, k := range []string{"minimum number of items", "maximum number of items", "minimum string length", "maximum string length", "is missing", "not one of the allowed values",
		"must be at least", "must be at most", "more than", "less than", "regular expression", "format", "must be a", "must be an", "not nullable"} {
		if strings.Contains(msg, k) {
			return strings.ReplaceAll(k, " ", "-")
		}
	}
	return "other"
}

// aliasAttrInUserType: the violated attribute is alias-typed, carries its own validation,
// and belongs to a named user type (documented through a $ref).
func aliasAttrInUserType(si *stepInfo, path string) bool {
	if si.M.Payload == nil {
		return false
	}
	as := attrsAlong(si.Design, si.M.Payload, path)
	if len(as) < 2 {
		return false
	}
	last := as[len(as)-1]
	if last.T.Kind != "user" || last.V == nil {
		return false
	}
	if ut := si.Design.UserType(last.T.Ref); ut == nil || ut.Base.Kind != "prim" {
		return false
	}
	for _, a := range as[:len(as)-1] {
		if a.T.Kind == "user" {
			if ut := si.Design.UserType(a.T.Ref); ut != nil && ut.Base.Kind == "object" {
				return true
			}
		}
	}
	return false
}

// requiredWithDefault: the top-level attribute of the mutated site is required AND has a default.
func requiredWithDefault(si *stepInfo) bool {
	if si.M.Payload == nil {
		return false
	}
	site := strings.TrimPrefix(si.Site, ".")
	if i := strings.IndexAny(site, ".[{"); i >= 0 {
		site = site[:i]
	}
	for _, f := range si.Design.AllFields(&si.M.Payload.T) {
		if f.Name == site {
			return f.Required && f.A.HasDef
		}
	}
	return false
}

func siteLoc(si *stepInfo) string {
	locOf, rootLoc := locator(si.M)
	site := strings.TrimPrefix(si.Site, ".")
	if site == "" {
		return rootLoc
	}
	if i := strings.IndexAny(site, ".[{"); i >= 0 {
		site = site[:i]
	}
	return locOf(site)
}

// siteUnderNonStringKeyMap: the mutated site lies inside a map whose keys are not strings
// (documented as additionalProperties: true, i.e. values undocumented).
func siteUnderNonStringKeyMap(si *stepInfo) bool {
	if si.M.Payload == nil {
		return false
	}
	path := "payload" + strings.NewReplacer("{val0}", "[key]", "{key0}", ".key").Replace(si.Site)
	for _, a := range attrsAlong(si.Design, si.M.Payload, path) {
		if bt, _ := si.Design.Effective(a); bt.Kind == "map" {
			if kt, _ := si.Design.Effective(bt.Key); !(kt.Kind == "prim" && kt.Prim == "String") {
				return true
			}
		}
	}
	return false
}

// sharedSchema: the operation's request body (or a type nested in it) is documented by a
// component generated for ANOTHER type (openapi's schemafier shares one schema between
// types whose structure is equal, validations not considered).
func sharedSchema(it *built, si *stepInfo) bool {
	if it == nil || it.ex == nil {
		return false
	}
	return it.ex.shared[si.Service+"/"+si.Method]
}

// classifyC14 names the class of a disagreement between server and schema.
func classifyC14(it *built, si *stepInfo, ob *rt.Obs, serverAccepts bool, kinErr string) string {
	d := si.Design
	if sharedSchema(it, si) && !si.DecodeFail && len(si.Expected) <= 1 {
		return "schema-shared-by-structurally-equal-types"
	}
	if serverAccepts {
		if c := schemaErrClass(si, si.M.Payload, kinErr); c != "" {
			return c
		}
		switch {
		case len(si.Expected) == 1 && si.Expected[0].Kw == "xmax" && bothExclusive(d, si.M.Payload, si.Payload, si.Expected[0].Path):
			return "exclusive-max-dropped-when-exclusive-min-present"
		case hasRequiredCookie(d, si.M) && violationsBeforeCookie(si):
			return "param-error-lost-by-required-cookie"
		case strings.HasPrefix(si.Desc, "raw:null") || strings.Contains(si.Desc, "explicit-null"):
			return "explicit-null-accepted-by-server"
		}
		return "server-accepts-schema-rejects:" + schemaErrKind(kinErr)
	}
	switch {
	case len(si.Expected) == 0 && !si.DecodeFail && si.Payload != nil && si.M.Payload != nil && absentCollectionMinLen(d, si.M.Payload, si.Payload) && errName(ob) == "invalid_length":
		return "absent-collection-minlen"
	case len(si.Expected) == 1 && (si.Expected[0].Kw == "minlen" || si.Expected[0].Kw == "maxlen") && si.Expected[0].On == "map":
		return "map-length-as-string-length"
	case len(si.Expected) == 1 && (si.Expected[0].Kw == "minlen" || si.Expected[0].Kw == "maxlen") && si.Expected[0].On == "bytes":
		return "bytes-length-counts-base64"
	case len(si.Expected) == 1 && strings.HasSuffix(si.Expected[0].Path, ".key"):
		return "map-key-validation-undocumented"
	case len(si.Expected) == 1 && aliasAttrInUserType(si, si.Expected[0].Path):
		return "alias-attribute-validation-undocumented-in-user-type"
	case len(si.Expected) == 1 && si.Expected[0].Kw == "required" && (siteLoc(si) == "header" || siteLoc(si) == "cookie") && requiredWithDefault(si):
		return "openapi3-param-required-mismatch:" + siteLoc(si) + "-required-with-default"
	case siteLoc(si) == "header" && strings.Contains(si.Site+si.Desc, "arr"):
		return "header-array-style"
	case si.DecodeFail && strings.Contains(si.Desc, "negative"):
		return "unsigned-lower-bound-undocumented"
	case siteUnderNonStringKeyMap(si):
		return "non-string-key-map-values-undocumented"
	case !si.DecodeFail && len(si.Expected) == 0 && strings.Contains(si.Desc, "comma-separated"):
		return "header-array-style"
	}
	if si.DecodeFail {
		return "schema-accepts-undecodable:" + si.Desc0()
	}
	return "schema-accepts-server-rejects:" + firstKw(si.Expected)
}
