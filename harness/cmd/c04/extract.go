package main

// Extraction: what the Validation model receives. While goa's finalized design is
// live (expr.Root), the request and response ELEMENTS of every endpoint (body,
// path / query parameters, headers, cookies: attribute trees with their validations,
// required and default flags, user types and alias types by id) are read from goa's
// own expressions and printed as Coq terms. Values come from the payload / result
// the exchange used, laid out positionally along the same attribute trees.

import (
	"encoding/hex"
	"encoding/json"
	"fmt"
	"math/big"
	"os"
	"sort"
	"strings"

	"goa.design/goa/v3/expr"

	dg "verifharness/designgen"
	"verifharness/tierb/rt"
	"verifharness/vh"
)

type elemX struct {
	Loc      string // body | param
	Kind     string // body path query header cookie
	Name     string // attribute name ("" = the whole payload / result)
	Wire     string // name on the wire (parameters, headers, cookies)
	BodyType string // name of the body user type ("" when the body is not a user type)
	Att      *expr.AttributeExpr
	Required bool
	Ctx      [3]bool
	Term     string // Coq att term
}

type endpointX struct {
	Service, Method string
	Req             []elemX
	Resp            map[int][]elemX // by status code (only statuses used by exactly one response)
	Unmodelled      string
	Routing         string // RunRouting.rcase_t term without its index ("" = outside the routing model)
}

type extracted struct {
	key       string
	envTerm   string
	endpoints map[string]*endpointX // service/method
	users     map[string]int
	aliases   map[string]int
	userTerms []string
	aliasTerm []string
	v3        *schemaDump
	shared    map[string]bool // service/method -> a schema of the operation is shared with another type
}

var formatIDs = map[string]int{"date": 0, "date-time": 1, "uuid": 2, "email": 3, "hostname": 4, "ipv4": 5, "ipv6": 6, "ip": 7, "uri": 8, "mac": 9, "cidr": 10, "regexp": 11, "json": 12, "rfc1123": 13}
var patternIDs = map[string]int{}

func patternID(p string) int {
	if id, ok := patternIDs[p]; ok {
		return id
	}
	id := len(patternIDs)
	patternIDs[p] = id
	return id
}

func coqQ(r *big.Rat) string {
	n, d := r.Num(), r.Denom()
	ns := n.String()
	if n.Sign() < 0 {
		ns = "(" + ns + ")"
	}
	return fmt.Sprintf("(Qmake %s%%Z %s%%positive)", ns, d.String())
}

func coqQf(f float64) string { return coqQ(ratF(f)) }

func coqStr(s string) string {
	if s == "" {
		return "[]"
	}
	return vh.CoqBytes(s) + "%N"
}

func coqOpt(s string, ok bool) string {
	if !ok {
		return "None"
	}
	return "(Some " + s + ")"
}

func litTerm(x any) string {
	switch t := x.(type) {
	case string:
		return "(LStr " + coqStr(t) + ")"
	case bool:
		return "(LBool " + vh.CoqBool(t) + ")"
	case int:
		return "(LNum " + coqQ(new(big.Rat).SetInt64(int64(t))) + ")"
	case int32:
		return "(LNum " + coqQ(new(big.Rat).SetInt64(int64(t))) + ")"
	case int64:
		return "(LNum " + coqQ(new(big.Rat).SetInt64(t)) + ")"
	case uint:
		return "(LNum " + coqQ(new(big.Rat).SetInt(new(big.Int).SetUint64(uint64(t)))) + ")"
	case uint32:
		return "(LNum " + coqQ(new(big.Rat).SetInt64(int64(t))) + ")"
	case uint64:
		return "(LNum " + coqQ(new(big.Rat).SetInt(new(big.Int).SetUint64(t))) + ")"
	case float32:
		return "(LNum " + coqQf(float64(t)) + ")"
	case float64:
		return "(LNum " + coqQf(t) + ")"
	}
	return "(LStr [])"
}

func validationTerm(v *expr.ValidationExpr) string {
	if v == nil {
		return "no_validation"
	}
	enum := "None"
	if v.Values != nil {
		var ls []string
		for _, x := range v.Values {
			ls = append(ls, litTerm(x))
		}
		enum = "(Some " + vh.CoqList(ls) + ")"
	}
	format := "None"
	if v.Format != "" {
		format = fmt.Sprintf("(Some %d)", formatIDs[string(v.Format)])
	}
	pattern := "None"
	if v.Pattern != "" {
		pattern = fmt.Sprintf("(Some %d)", patternID(v.Pattern))
	}
	q := func(p *float64) string {
		if p == nil {
			return "None"
		}
		return "(Some " + coqQf(*p) + ")"
	}
	n := func(p *int) string {
		if p == nil {
			return "None"
		}
		return fmt.Sprintf("(Some %d)", *p)
	}
	if enum == "None" && format == "None" && pattern == "None" && v.ExclusiveMinimum == nil && v.Minimum == nil && v.ExclusiveMaximum == nil && v.Maximum == nil && v.MinLength == nil && v.MaxLength == nil {
		return "no_validation"
	}
	return fmt.Sprintf("(mkV %s %s %s %s %s %s %s %s %s)", enum, format, pattern, q(v.ExclusiveMinimum), q(v.Minimum), q(v.ExclusiveMaximum), q(v.Maximum), n(v.MinLength), n(v.MaxLength))
}

func primTerm(k expr.Kind) string {
	switch k {
	case expr.BooleanKind:
		return "PBool"
	case expr.IntKind:
		return "(PNum KInt)"
	case expr.Int32Kind:
		return "(PNum KInt32)"
	case expr.Int64Kind:
		return "(PNum KInt64)"
	case expr.UIntKind:
		return "(PNum KUInt)"
	case expr.UInt32Kind:
		return "(PNum KUInt32)"
	case expr.UInt64Kind:
		return "(PNum KUInt64)"
	case expr.Float32Kind:
		return "(PNum KFloat32)"
	case expr.Float64Kind:
		return "(PNum KFloat64)"
	case expr.StringKind:
		return "PString"
	case expr.BytesKind:
		return "PBytes"
	case expr.AnyKind:
		return "PAny"
	}
	return "PAny"
}

type unmodelled struct{ why string }

func mergeValidation(outer, inner *expr.ValidationExpr) *expr.ValidationExpr {
	if outer == nil {
		return inner
	}
	if inner == nil {
		return outer
	}
	c := *outer
	c.Merge(inner)
	return &c
}

// attTerm prints the attribute as a Coq `att`, registering user / alias types.
func (ex *extracted) attTerm(a *expr.AttributeExpr, depth int) string {
	if depth > 40 {
		panic(unmodelled{"type nesting too deep"})
	}
	switch t := a.Type.(type) {
	case expr.Primitive:
		return fmt.Sprintf("(APrim %s %s %s)", validationTerm(a.Validation), vh.CoqBool(a.DefaultValue != nil), primTerm(t.Kind()))
	case *expr.Array:
		return fmt.Sprintf("(AArray %s %s)", validationTerm(a.Validation), ex.attTerm(t.ElemType, depth+1))
	case *expr.Map:
		return fmt.Sprintf("(AMap %s %s %s)", validationTerm(a.Validation), ex.attTerm(t.KeyType, depth+1), ex.attTerm(t.ElemType, depth+1))
	case *expr.Object:
		var fs []string
		for i, nat := range *t {
			fs = append(fs, fmt.Sprintf("(%d, %s, %s)", i, vh.CoqBool(a.IsRequired(nat.Name)), ex.attTerm(nat.Attribute, depth+1)))
		}
		return "(AObject " + vh.CoqList(fs) + ")"
	case *expr.Union:
		panic(unmodelled{"union"})
	case expr.UserType:
		if expr.IsAlias(t) {
			id, ok := ex.aliases[t.ID()]
			if !ok {
				id = len(ex.aliases)
				ex.aliases[t.ID()] = id
				// follow the alias chain down to the primitive, merging validations (outer first)
				var val *expr.ValidationExpr
				cur := t.Attribute()
				for {
					val = mergeValidation(val, cur.Validation)
					ut, ok := cur.Type.(expr.UserType)
					if !ok {
						break
					}
					cur = ut.Attribute()
				}
				ex.aliasTerm = append(ex.aliasTerm, fmt.Sprintf("(%d, (%s, %s))", id, primTerm(cur.Type.Kind()), validationTerm(val)))
			}
			return fmt.Sprintf("(AAlias %d)", id)
		}
		id, ok := ex.users[t.ID()]
		if !ok {
			id = len(ex.users)
			ex.users[t.ID()] = id
			ex.userTerms = append(ex.userTerms, "") // reserve (recursive types)
			body := ex.attTerm(t.Attribute(), depth+1)
			ex.userTerms[id] = fmt.Sprintf("(%d, %s)", id, body)
		}
		return fmt.Sprintf("(AUser %d)", id)
	}
	panic(unmodelled{fmt.Sprintf("type %T", a.Type)})
}

func ctxTerm(c [3]bool) string {
	return fmt.Sprintf("(mkCtx %s %s %s)", vh.CoqBool(c[0]), vh.CoqBool(c[1]), vh.CoqBool(c[2]))
}

var ctxUnmarshal = [3]bool{true, false, false} // server request / client response transport types
var ctxService = [3]bool{false, false, true}   // parameters, headers, cookies

// bodyElem builds the element of a request / response body. For a user-type body the
// element is the type's own attribute (Validate<Body> is called on it directly).
func (ex *extracted) bodyElem(body *expr.AttributeExpr) *elemX {
	if body == nil || body.Type == expr.Empty {
		return nil
	}
	a := body
	ctx := ctxUnmarshal
	bodyType := ""
	if ut, ok := body.Type.(expr.UserType); ok && !expr.IsAlias(ut) {
		a = ut.Attribute()
		bodyType = ut.Name()
		if n, ok := ut.Attribute().Meta["name:original"]; ok && len(n) > 0 {
			bodyType = n[0]
		}
	} else {
		// codegen.NewAttributeContext(!IsPrimitive(body.Type), false, !svr)
		ctx = [3]bool{!expr.IsPrimitive(body.Type), false, false}
	}
	return &elemX{Loc: "body", Kind: "body", Att: a, Required: true, Ctx: ctx, Term: ex.attTerm(a, 0), BodyType: bodyType}
}

func (ex *extracted) mappedElems(ma *expr.MappedAttributeExpr, kind string) []elemX {
	var out []elemX
	if ma == nil {
		return nil
	}
	obj := expr.AsObject(ma.Type)
	if obj == nil {
		return nil
	}
	for _, nat := range *obj {
		out = append(out, elemX{Loc: "param", Kind: kind, Name: nat.Name, Wire: ma.ElemName(nat.Name), Att: nat.Attribute, Required: ma.IsRequired(nat.Name), Ctx: ctxService, Term: ex.attTerm(nat.Attribute, 0)})
	}
	return out
}

func elemListTerm(es []elemX) string {
	var ls []string
	for _, e := range es {
		loc := "LBody"
		if e.Loc == "param" {
			loc = "LParam"
			if e.Kind == "cookie" {
				loc = "LCookie"
			}
		}
		ls = append(ls, fmt.Sprintf("(%s, %s, %s, %s)", loc, ctxTerm(e.Ctx), vh.CoqBool(e.Required), e.Term))
	}
	return vh.CoqList(ls)
}

// extract runs while expr.Root holds the finalized design.
func extract(root *expr.RootExpr, d *dg.Design) *extracted {
	ex := &extracted{endpoints: map[string]*endpointX{}, users: map[string]int{}, aliases: map[string]int{}}
	if root.API == nil || root.API.HTTP == nil {
		return ex
	}
	for _, hs := range root.API.HTTP.Services {
		for _, e := range hs.HTTPEndpoints {
			ep := &endpointX{Service: hs.Name(), Method: e.Name(), Resp: map[int][]elemX{}}
			ex.endpoints[hs.Name()+"/"+e.Name()] = ep
			if t, ok := routingCase(root, e); ok {
				ep.Routing = t
			}
			func() {
				defer func() {
					if r := recover(); r != nil {
						if u, ok := r.(unmodelled); ok {
							ep.Unmodelled = u.why
							return
						}
						panic(r)
					}
				}()
				if b := ex.bodyElem(e.Body); b != nil {
					ep.Req = append(ep.Req, *b)
				}
				ep.Req = append(ep.Req, ex.mappedElems(e.PathParams(), "path")...)
				ep.Req = append(ep.Req, ex.mappedElems(e.QueryParams(), "query")...)
				ep.Req = append(ep.Req, ex.mappedElems(e.Headers, "header")...)
				ep.Req = append(ep.Req, ex.mappedElems(e.Cookies, "cookie")...)
				count := map[int]int{}
				for _, r := range e.Responses {
					count[r.StatusCode]++
				}
				for _, r := range e.Responses {
					if count[r.StatusCode] != 1 {
						continue
					}
					var es []elemX
					if b := ex.bodyElem(r.Body); b != nil {
						es = append(es, *b)
					}
					es = append(es, ex.mappedElems(r.Headers, "header")...)
					es = append(es, ex.mappedElems(r.Cookies, "cookie")...)
					ep.Resp[r.StatusCode] = es
				}
			}()
		}
	}
	ex.envTerm = fmt.Sprintf("(mkEnv %s %s)", vh.CoqList(ex.userTerms), vh.CoqList(ex.aliasTerm))
	ex.v3 = dumpSchemas(root, d, ex)
	return ex
}

func safeIdent(s string) string {
	var b strings.Builder
	for _, r := range s {
		if r >= 'a' && r <= 'z' || r >= 'A' && r <= 'Z' || r >= '0' && r <= '9' {
			b.WriteRune(r)
		} else {
			b.WriteByte('_')
		}
	}
	return b.String()
}

func epIdent(key string, ep *endpointX, what string) string {
	return fmt.Sprintf("%s_%s_%s_%s", key, safeIdent(ep.Service), safeIdent(ep.Method), what)
}

// writeHeader writes the per-design definitions the case lines refer to.
func writeHeader(p string, items []*built) {
	var b strings.Builder
	b.WriteString("From Coq Require Import QArith.\nFrom Validation Require Import Model Run Schema RunSchema Routing RunRouting.\nClose Scope Q_scope.\nOpen Scope nat_scope.\n")
	for _, it := range items {
		if it.bu == nil || it.bu.Dropped || it.ex == nil {
			continue
		}
		key := it.bu.Key
		fmt.Fprintf(&b, "Definition %s_env : env := %s.\n", key, it.ex.envTerm)
		var names []string
		for n := range it.ex.endpoints {
			names = append(names, n)
		}
		sort.Strings(names)
		for _, n := range names {
			ep := it.ex.endpoints[n]
			if ep.Unmodelled != "" {
				continue
			}
			fmt.Fprintf(&b, "Definition %s : list elem_t := %s.\n", epIdent(key, ep, "req"), elemListTerm(ep.Req))
			var sts []int
			for st := range ep.Resp {
				sts = append(sts, st)
			}
			sort.Ints(sts)
			for _, st := range sts {
				fmt.Fprintf(&b, "Definition %s : list elem_t := %s.\n", epIdent(key, ep, fmt.Sprintf("resp%d", st)), elemListTerm(ep.Resp[st]))
			}
		}
	}
	if err := os.WriteFile(p, []byte(b.String()), 0o644); err != nil {
		panic(err)
	}
}

// ---------------------------------------------------------------- values

type orcTable struct {
	seen map[string]bool
	rows []string
}

func (o *orcTable) add(id int, s string, ans bool) {
	k := fmt.Sprintf("%d|%s", id, s)
	if o.seen[k] {
		return
	}
	o.seen[k] = true
	o.rows = append(o.rows, fmt.Sprintf("(%d, %s, %s)", id, coqStr(s), vh.CoqBool(ans)))
}

func goDefaultToVal(x any) *dg.Val {
	switch t := x.(type) {
	case bool:
		return &dg.Val{K: "bool", B: t}
	case string:
		return &dg.Val{K: "string", S: t}
	case int:
		return &dg.Val{K: "int", I: int64(t)}
	case int32:
		return &dg.Val{K: "int", I: int64(t)}
	case int64:
		return &dg.Val{K: "int", I: t}
	case uint:
		return &dg.Val{K: "uint", U: uint64(t)}
	case uint32:
		return &dg.Val{K: "uint", U: uint64(t)}
	case uint64:
		return &dg.Val{K: "uint", U: t}
	case float32:
		return &dg.Val{K: "float", F: float64(t)}
	case float64:
		return &dg.Val{K: "float", F: t}
	case []any:
		out := &dg.Val{K: "array", Elems: []*dg.Val{}}
		for _, e := range t {
			out.Elems = append(out.Elems, goDefaultToVal(e))
		}
		return out
	}
	return nil
}

func effectiveValidation(a *expr.AttributeExpr) *expr.ValidationExpr {
	if ut, ok := a.Type.(expr.UserType); ok && expr.IsAlias(ut) {
		var val *expr.ValidationExpr
		cur := ut.Attribute()
		for {
			val = mergeValidation(val, cur.Validation)
			u2, ok := cur.Type.(expr.UserType)
			if !ok {
				break
			}
			cur = u2.Attribute()
		}
		return val
	}
	return a.Validation
}

// valTerm prints value v laid out along attribute a.
func valTerm(a *expr.AttributeExpr, v *dg.Val, o *orcTable, depth int) string {
	if v == nil || v.K == "null" || depth > 40 {
		return "VNull"
	}
	t := a.Type
	if ut, ok := t.(expr.UserType); ok {
		if expr.IsAlias(ut) {
			cur := ut.Attribute()
			for {
				u2, ok := cur.Type.(expr.UserType)
				if !ok {
					break
				}
				cur = u2.Attribute()
			}
			t = cur.Type
		} else {
			return valTerm(ut.Attribute(), v, o, depth+1)
		}
	}
	switch tt := t.(type) {
	case expr.Primitive:
		switch v.K {
		case "bool":
			return "(VBool " + vh.CoqBool(v.B) + ")"
		case "int", "uint", "float":
			if r := ratOf(v); r != nil {
				return "(VNum " + coqQ(r) + ")"
			}
			return "VAny"
		case "string":
			if tt.Kind() == expr.AnyKind {
				return "VAny"
			}
			if val := effectiveValidation(a); val != nil {
				if val.Format != "" {
					o.add(formatIDs[string(val.Format)], v.S, fmtOK(string(val.Format), v.S))
				}
				if val.Pattern != "" {
					o.add(1000+patternID(val.Pattern), v.S, patMatch(val.Pattern, v.S))
				}
			}
			return "(VStr " + coqStr(v.S) + ")"
		case "bytes":
			b, _ := hex.DecodeString(v.S)
			return "(VBytes " + coqStr(string(b)) + ")"
		}
		return "VAny"
	case *expr.Array:
		var ls []string
		for _, e := range v.Elems {
			ls = append(ls, valTerm(tt.ElemType, e, o, depth+1))
		}
		return "(VArr " + vh.CoqList(ls) + ")"
	case *expr.Map:
		var ls []string
		for i := range v.Keys {
			ls = append(ls, "("+valTerm(tt.KeyType, v.Keys[i], o, depth+1)+", "+valTerm(tt.ElemType, v.Elems[i], o, depth+1)+")")
		}
		return "(VMap " + vh.CoqList(ls) + ")"
	case *expr.Object:
		var ls []string
		for _, nat := range *tt {
			ls = append(ls, valTerm(nat.Attribute, v.Get(nat.Name), o, depth+1))
		}
		return "(VObj " + vh.CoqList(ls) + ")"
	}
	return "VAny"
}

// elemValues lays a payload / result value out along the elements.
func elemValues(es []elemX, whole *dg.Val, o *orcTable) []string {
	var out []string
	for _, e := range es {
		var v *dg.Val
		switch {
		case e.Loc == "body":
			if _, isObj := e.Att.Type.(*expr.Object); isObj && whole != nil && whole.K == "object" {
				v = whole // the body object picks its own attributes by name
			} else {
				v = whole
			}
		case e.Name == "":
			v = whole
		default:
			if whole != nil && whole.K == "object" {
				v = whole.Get(e.Name)
			} else {
				v = whole // primitive payload mapped to a parameter
			}
		}
		if (v == nil || v.K == "null") && e.Loc == "param" && e.Att.DefaultValue != nil && !e.Required {
			v = goDefaultToVal(e.Att.DefaultValue)
		}
		out = append(out, valTerm(e.Att, v, o, 0))
	}
	return out
}

var errCoq = map[string]string{"missing_field": "EMissingField", "invalid_enum_value": "EInvalidEnumValue", "invalid_format": "EInvalidFormat",
	"invalid_pattern": "EInvalidPattern", "invalid_range": "EInvalidRange", "invalid_length": "EInvalidLength", "invalid_field_type": "EInvalidFieldType",
	"decode_payload": "EDecodePayload", "missing_payload": "EMissingPayload"}

func messageCount(ob *rt.Obs) int {
	if ob.Resp == nil {
		return 0
	}
	var e struct {
		Message string `json:"message"`
	}
	if json.Unmarshal([]byte(ob.Resp.Body), &e) != nil || e.Message == "" {
		return 0
	}
	return strings.Count(e.Message, "; ") + 1
}

// coqCaseC04 prints one exchange as a Run.case_t term ("" = not modelled).
func coqCaseC04(it *built, si *stepInfo, ob *rt.Obs, idx int) string {
	if it == nil || it.ex == nil || si.DecodeFail {
		return ""
	}
	ep := it.ex.endpoints[si.Service+"/"+si.Method]
	if ep == nil || ep.Unmodelled != "" {
		return ""
	}
	o := &orcTable{seen: map[string]bool{}}
	key := it.bu.Key
	var elemsName string
	var vals []string
	var obs string
	if si.Side == "request" {
		elemsName = epIdent(key, ep, "req")
		vals = elemValues(ep.Req, si.Payload, o)
		switch {
		case ob.Invoked == 1:
			obs = "OAccept"
		case ob.Resp == nil:
			obs = "ONoResponse"
		default:
			name, ok := errCoq[errName(ob)]
			if !ok {
				return ""
			}
			obs = fmt.Sprintf("(ORefuse %s %d)", name, messageCount(ob))
		}
	} else {
		if ob.Invoked != 1 || ob.Resp == nil {
			return ""
		}
		es, ok := ep.Resp[ob.Resp.Status]
		if !ok || isViewed(si.Design, si.M) {
			return ""
		}
		elemsName = epIdent(key, ep, fmt.Sprintf("resp%d", ob.Resp.Status))
		vals = elemValues(es, si.Result, o)
		if ob.ClientErr == nil {
			obs = "OAccept"
		} else {
			n := strings.Count(ob.ClientErr.Message, "; ") + 1
			name := "EInvalidRange"
			found := false
			for k, v := range errCoq {
				if ob.ClientErr.Name == k {
					name, found = v, true
				}
			}
			if !found {
				// the client wraps validation errors: recover the first rule's name from the message is not possible; compare the count only
				return fmt.Sprintf("(%d%%N, (%s_env, %s, %s), %s, %s, (ORefuseAny %d))", idx, key, ctxTerm(ctxUnmarshal), elemsName, vh.CoqList(vals), vh.CoqList(o.rows), n)
			}
			obs = fmt.Sprintf("(ORefuse %s %d)", name, n)
		}
	}
	return fmt.Sprintf("(%d%%N, (%s_env, %s, %s), %s, %s, %s)", idx, key, ctxTerm(ctxUnmarshal), elemsName, vh.CoqList(vals), vh.CoqList(o.rows), obs)
}
