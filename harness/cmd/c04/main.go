// Command c04 serves properties C04 (user code runs only on requests that satisfy the
// design's validations; the client refuses results that violate the result's
// constraints) and C14 (the OpenAPI 3 schemas accept exactly what the generated server
// accepts). It builds designs through the real DSL (a fixed covering set, witness
// designs for the recorded findings, then designgen.Random), compiles goa's generated
// code for all of them into one driver (tier B), sends a conforming payload plus
// boundary mutants per method (value level through the generated client, wire level
// through raw requests derived from the tapped conforming exchange), and
//
//   - evaluates the properties directly on what the real code did (direct oracles:
//     an independent evaluator of the design's validations for C04; kin-openapi's
//     request / response validator on the exact wire exchange for C14),
//   - writes every exchange as a Coq term for the Validation model (cases_*.txt) and
//     the schemas of the real OpenAPI builders for the schema model (tier A).
package main

import (
	"encoding/base64"
	"encoding/json"
	"flag"
	"fmt"
	"os"
	"path/filepath"
	"sort"
	"strings"

	"goa.design/goa/v3/expr"

	dg "verifharness/designgen"
	"verifharness/tierb"
	"verifharness/tierb/rt"
	"verifharness/vh"
)

type stepInfo struct {
	Stream  string     `json:"stream"` // covering | random | witness
	Side    string     `json:"side"`   // request | result
	Design  *dg.Design `json:"-"`
	DKey    string     `json:"design_key"`
	DName   string     `json:"design_name"`
	Service string     `json:"service"`
	Method  string     `json:"method"`
	M       *dg.Method `json:"-"`
	Desc    string     `json:"mutation"`
	Site    string     `json:"site,omitempty"`
	Payload *dg.Val    `json:"payload,omitempty"`
	Result  *dg.Val    `json:"result,omitempty"`
	Raw     *rt.RawReq `json:"raw,omitempty"`
	// expectations
	DecodeFail bool   `json:"decode_fail,omitempty"` // the wire edit makes the request undecodable at the type level
	Expected   []Viol `json:"expected_violations"`
	BaseStep   int    `json:"-"`
}

type built struct {
	bu      *tierb.Built
	stream  string
	ex      *extracted
	openapi []byte
}

func main() {
	seed := flag.Uint64("seed", 1, "")
	tier := flag.String("tier", "quick", "")
	out := flag.String("out", ".", "")
	repo := flag.String("repo", "/repo", "")
	harness := flag.String("harness", "/verif/harness", "")
	prop := flag.String("prop", "C04", "C04 | C14")
	replay := flag.String("replay", "", "")
	nrand := flag.Int("designs", -1, "number of random designs (default by tier)")
	flag.Parse()
	rng := vh.NewRNG(*seed)
	res := vh.NewResult()

	nDesigns, perMethod := 8, 40
	if *tier == "thorough" {
		nDesigns, perMethod = 60, 80
	}
	if *nrand >= 0 {
		nDesigns = *nrand
	}
	b, err := tierb.NewBatch(filepath.Join(*out, "tb"), *repo, *harness)
	if err != nil {
		panic(err)
	}
	b.Env = os.Environ()
	var items []*built
	add := func(d *dg.Design, stream string) {
		bi := &built{stream: stream}
		bu, oc := b.Add(d, func(root *expr.RootExpr, bu *tierb.Built) { bi.ex = extract(root, d) })
		if bu == nil {
			res.Count("design_rejected_" + stream)
			if stream != "random" {
				msg := fmt.Sprint(oc.Err)
				if oc.Panic != "" {
					msg = "panic: " + oc.Panic
				}
				failSig(res, "harness-design-rejected", "a hand-written design of the "+stream+" set was rejected by goa: "+msg, map[string]any{"design": d})
			}
			return
		}
		if bu.GenErr != "" {
			res.Count("design_generate_failed")
			res.Extra["generate_failed:"+d.Name] = bu.GenErr
		}
		bi.bu = bu
		items = append(items, bi)
	}
	var replayDesign *dg.Design
	var replayInfo *stepInfo
	if *replay != "" {
		replayDesign, replayInfo = loadReplay(*replay)
		add(replayDesign, "replay")
	} else {
		for _, d := range coveringDesigns(*prop) {
			add(d, "covering")
		}
		add(soleCoveringDesign(), "covering")
		for _, d := range routesDesigns(*prop) {
			add(d, "covering")
		}
		add(soleRandomDesign(rng.Fork(), 0), "covering")
		if *tier == "thorough" {
			for i := 1; i < 8; i++ {
				add(soleRandomDesign(rng.Fork(), i), "covering")
			}
		}
		for _, d := range witnessDesigns() {
			add(d, "witness")
		}
		opts := dg.DefaultOptions()
		opts.Security = false // credentials are C06's business
		opts.Files = false
		n0 := len(items)
		for i := 0; len(items)-n0 < nDesigns && i < nDesigns*3; i++ {
			add(dg.Random(rng.Fork(), opts, i), "random")
		}
	}
	if err := b.Build(); err != nil {
		panic(err)
	}
	for _, it := range items {
		if it.bu.Dropped {
			res.Count("design_dropped_build")
			res.Extra["dropped:"+it.bu.Design.Name] = tail(it.bu.BuildErr+it.bu.GenErr, 600)
			if it.stream != "random" {
				failSig(res, "harness-design-dropped", "generated code of a hand-written design does not build: "+tail(it.bu.BuildErr+it.bu.GenErr, 300), map[string]any{"design": it.bu.Design})
			}
			continue
		}
		it.openapi, _ = os.ReadFile(filepath.Join(b.Dir, it.bu.Key, "gen", "http", "openapi3.json"))
	}

	// ---- pass 1: conforming exchange + value-level mutants
	var steps []rt.Step
	var infos []*stepInfo
	push := func(st rt.Step, si *stepInfo) int {
		st.ID = len(steps)
		steps = append(steps, st)
		infos = append(infos, si)
		return st.ID
	}
	byKey := map[string]*built{}
	for _, it := range items {
		if it.bu.Dropped {
			continue
		}
		byKey[it.bu.Key] = it
		d := it.bu.Design
		for _, f := range d.Features {
			res.Count("feature=" + f)
		}
		if replayInfo != nil {
			pushReplay(d, it, replayInfo, push)
			continue
		}
		for _, s := range d.Services {
			if !hasService(it.bu, s.Name) {
				continue
			}
			for _, m := range s.Methods {
				genMethodSteps(d, it, s, m, rng, perMethod, push, *prop)
			}
		}
	}
	obs, err := b.Run(steps)
	if err != nil {
		res.Extra["driver_error_pass1"] = err.Error()
	}
	// ---- pass 2: wire-level mutants derived from the tapped conforming requests
	n1 := len(steps)
	if replayInfo == nil {
		for i := 0; i < n1; i++ {
			si := infos[i]
			if si.Desc != "valid" || si.Side != "request" {
				continue
			}
			ob := obs[i]
			if ob == nil || ob.Req == nil || ob.Invoked != 1 {
				continue
			}
			for _, rm := range rawMutants(si, ob.Req, rng, perMethod/2) {
				rm.info.BaseStep = i
				push(rt.Step{Design: si.DKey, Service: si.Service, Method: si.Method, Raw: rm.raw, Result: steps[i].Result, View: steps[i].View}, rm.info)
			}
		}
		if len(steps) > n1 {
			steps2 := steps[n1:]
			obs2, err := b.Run(steps2)
			if err != nil {
				res.Extra["driver_error_pass2"] = err.Error()
			}
			for k, v := range obs2 {
				obs[k] = v
			}
		}
	}

	// ---- direct oracles
	distinct := vh.Distinct{}
	var c04cases, c14cases []string
	if *prop == "C14" {
		c14cases = schemaCases(res, items) // also finds the operations documented by a shared schema
	}
	kin := newKinCache()
	for i := range steps {
		si := infos[i]
		ob := obs[i]
		it := byKey[si.DKey]
		in := map[string]any{"stream": si.Stream, "side": si.Side, "design": si.Design, "service": si.Service, "method": si.Method, "mutation": si.Desc, "site": si.Site,
			"payload": si.Payload, "result": si.Result, "raw": si.Raw, "expected_violations": si.Expected, "decode_fail": si.DecodeFail}
		if ob == nil {
			failSig(res, "driver-no-observation", "the driver produced no observation for a step", in)
			continue
		}
		if strings.HasPrefix(ob.SetupErr, "raw roundtrip:") {
			// the server closed the connection without answering (it crashed while serving the request)
			ob.SetupErr, ob.Resp = "", nil
			in["no_response"] = true
		}
		if ob.SetupErr != "" {
			res.Count("setup_err")
			res.Extra["last_setup_err"] = ob.SetupErr
			res.Extra["setup_err:"+si.Method+":"+si.Desc] = fmt.Sprint(si.Site, " ", si.Raw)
			continue
		}
		in["wire_request"], in["wire_response"], in["invoked"] = ob.Req, ob.Resp, ob.Invoked
		if ob.ClientErr != nil {
			in["client_error"] = ob.ClientErr
		}
		res.Evaluations++
		res.Count("stream=" + si.Stream)
		res.Count("side=" + si.Side)
		kb, _ := json.Marshal([]any{si.DName, si.Method, si.Payload, si.Result, si.Raw})
		distinct.Add(string(kb))
		if *prop == "C04" {
			checkC04(res, si, ob, in)
			if line := coqCaseC04(it, si, ob, len(c04cases)); line != "" {
				c04cases = append(c04cases, line)
				res.Cases = append(res.Cases, map[string]any{"step": i, "design": si.DName, "method": si.Method, "mutation": si.Desc, "site": si.Site, "payload": si.Payload, "result": si.Result, "raw": si.Raw})
			}
		} else {
			checkC14(res, kin, it, si, ob, in)
		}
	}
	res.Distinct = len(distinct)
	// distribution of expected outcomes
	if *prop == "C04" {
		res.Rule = "designs: fixed covering set (every keyword x primitive x {body, query, header, path, cookie, array element, map key/value, alias, nested/recursive user type} x {required, optional, defaulted}; results) + witness designs + designgen.Random; per method one conforming payload/result, value-level boundary mutants through the generated client (min-1/min/min+1, exclusive bounds, lengths in code points vs bytes, enum/format/pattern misses, set/unset, zero) and wire-level mutants as raw requests derived from the tapped conforming request (missing key, null, wrong JSON type, malformed parameter, missing body); non-trivial = exchange that produced an observation; distinct = distinct (design, method, payload, result, raw request)"
	} else {
		res.Rule = "same exchanges as C04; each tapped request/response validated by kin-openapi openapi3filter against the generated gen/http/openapi3.json (numeric exclusive bounds rewritten to the OpenAPI 3.0 boolean form first, recorded as a finding); tier A: every schema object of openapi3.json / openapi.json (v2 builder) compared with the schema model; distinct = distinct (design, method, payload, result, raw request)"
	}
	writeLines(filepath.Join(*out, "cases_c04.txt"), c04cases)
	writeLines(filepath.Join(*out, "cases_c14.txt"), c14cases)
	// payload routing (httpRequestBody / initAttr vs Routing.v): one case per endpoint of every built design
	var rcases, rdesc []string
	for _, it := range items {
		if it.bu == nil || it.bu.Dropped || it.ex == nil {
			continue
		}
		var names []string
		for n := range it.ex.endpoints {
			names = append(names, n)
		}
		sort.Strings(names)
		for _, n := range names {
			if t := it.ex.endpoints[n].Routing; t != "" {
				rcases = append(rcases, fmt.Sprintf("(%d%%N, %s", len(rcases), t))
				rdesc = append(rdesc, it.bu.Key+" "+n)
			}
		}
	}
	writeLines(filepath.Join(*out, "cases_routing.txt"), rcases)
	writeLines(filepath.Join(*out, "cases_routing_desc.txt"), rdesc)
	res.Extra["routing_cases"] = fmt.Sprint(len(rcases))
	writeHeader(filepath.Join(*out, "cases_header.v"), items)
	if err := res.Write(filepath.Join(*out, "result.json")); err != nil {
		panic(err)
	}
}

// failSig records at most 6 failing inputs per signature (the counts of all of them are
// kept), so that a frequent recorded finding cannot push an unseen failure class out of
// the 200 failures a result file holds.
var sigSeen = map[string]int{}

func failSig(res *vh.Result, sig, what string, input any) {
	sigSeen[sig]++
	res.Count("failing_inputs:" + sig)
	if sigSeen[sig] <= 6 {
		res.Fail(sig, what, input)
	}
}

func tail(s string, n int) string {
	if len(s) > n {
		return s[len(s)-n:]
	}
	return s
}

func writeLines(p string, ls []string) {
	if err := os.WriteFile(p, []byte(strings.Join(ls, "\n")+"\n"), 0o644); err != nil {
		panic(err)
	}
}

func hasService(bu *tierb.Built, name string) bool {
	for _, s := range bu.Services {
		if strings.HasPrefix(s, name+"\x00") {
			return true
		}
	}
	return false
}

func isViewed(d *dg.Design, m *dg.Method) bool {
	if m.Result == nil {
		return false
	}
	t := m.Result.T
	if t.Kind == "user" || t.Kind == "collection" {
		if ut := d.UserType(t.Ref); ut != nil && ut.Result && len(ut.Views) > 0 {
			return true
		}
	}
	return false
}

// locator says where each top-level payload attribute travels.
func locator(m *dg.Method) (func(string) string, string) {
	h := m.HTTP
	if h == nil {
		return func(string) string { return "body" }, "body"
	}
	loc := map[string]string{}
	for _, e := range h.Params {
		loc[e.Attr] = "query"
	}
	for _, e := range h.Headers {
		loc[e.Attr] = "header"
	}
	for _, e := range h.Cookies {
		loc[e.Attr] = "cookie"
	}
	if h.MapParams != "" && h.MapParams != "*" {
		loc[h.MapParams] = "query" // the whole query string
	}
	if m.Payload != nil {
		// credentials that are not mapped explicitly travel in the Authorization header
		for _, f := range m.Payload.T.Attrs {
			if _, mapped := loc[f.Name]; f.A.Sec != nil && !mapped {
				loc[f.Name] = "auth"
			}
		}
	}
	pathVars := map[string]bool{}
	for _, r := range h.Routes {
		for _, seg := range strings.Split(r.Path, "/") {
			if strings.HasPrefix(seg, "{") && strings.HasSuffix(seg, "}") {
				n := strings.TrimPrefix(strings.Trim(seg, "{}"), "*")
				pathVars[n] = true
				loc[n] = "path"
			}
		}
	}
	root := "body"
	if m.Payload != nil && m.Payload.T.Kind != "object" && m.Payload.T.Kind != "user" {
		switch {
		case len(pathVars) > 0:
			root = "path"
		case len(h.Params) > 0:
			root = "query"
		case len(h.Headers) > 0:
			root = "header"
		case len(h.Cookies) > 0:
			root = "cookie"
		}
	}
	return func(n string) string {
		if l, ok := loc[n]; ok {
			return l
		}
		return "body"
	}, root
}

func resultLocator(m *dg.Method) func(string) string {
	loc := map[string]string{}
	if m.HTTP != nil {
		for _, r := range m.HTTP.Responses {
			for _, e := range r.Headers {
				loc[e.Attr] = "header"
			}
			for _, e := range r.Cookies {
				loc[e.Attr] = "cookie"
			}
		}
	}
	return func(n string) string {
		if l, ok := loc[n]; ok {
			return l
		}
		return "body"
	}
}

func genMethodSteps(d *dg.Design, it *built, s *dg.Service, m *dg.Method, rng *vh.RNG, perMethod int, push func(rt.Step, *stepInfo) int, prop string) {
	vo := dg.ValOpts{SafeString: true, NoEmpty: true, AllFields: true}
	mk := func(desc, site, side string, pv, rv *dg.Val) {
		si := &stepInfo{Stream: it.stream, Side: side, Design: d, DKey: it.bu.Key, DName: d.Name, Service: s.Name, Method: m.Name, M: m, Desc: desc, Site: site, Payload: pv, Result: rv}
		st := rt.Step{Design: it.bu.Key, Service: s.Name, Method: m.Name}
		if m.Payload != nil {
			pv = withDefaults(d, &m.Payload.T, pv)
			si.Payload = pv
			st.Payload = d.ToTree(&m.Payload.T, pv)
			if side == "request" {
				si.Expected = evalAttr(d, m.Payload, pv, "payload")
			}
		}
		if m.Result != nil {
			rv = singleElementHeaderArrays(d, m, withDefaults(d, &m.Result.T, rv))
			si.Result = rv
			st.Result = d.ToTree(&m.Result.T, rv)
			if isViewed(d, m) && m.ResultView == "" {
				st.View = "default"
			}
			if side == "result" {
				si.Expected = evalAttr(d, m.Result, rv, "result")
			}
		}
		push(st, si)
	}
	var pv, rv *dg.Val
	sole := hasFeature(d, "sole_validation")
	if sole || it.stream == "covering" {
		perMethod = 0 // the fixed designs are exercised at every site, without sampling
	}
	if m.Payload != nil {
		if it.stream == "covering" {
			pv = genFull(d, rng, m.Payload, 0) // every attribute set at every depth
		} else {
			pv = d.GenVal(rng, m.Payload, vo)
		}
	}
	if m.Result != nil {
		rv = d.GenVal(rng, m.Result, vo)
	}
	if it.stream == "witness" {
		mkRaw := func(desc, site string, expectVal *dg.Val, verb, target, body string) {
			si := &stepInfo{Stream: it.stream, Side: "request", Design: d, DKey: it.bu.Key, DName: d.Name, Service: s.Name, Method: m.Name, M: m, Desc: desc, Site: site, Payload: expectVal, Result: rv}
			si.Expected = evalAttr(d, m.Payload, expectVal, "payload")
			si.Raw = &rt.RawReq{Method: verb, Target: target, Headers: map[string][]string{"Content-Type": {"application/json"}}, Body: base64.StdEncoding.EncodeToString([]byte(body))}
			st := rt.Step{Design: it.bu.Key, Service: s.Name, Method: m.Name, Raw: si.Raw}
			if m.Result != nil {
				st.Result = d.ToTree(&m.Result.T, rv)
			}
			push(st, si)
		}
		mkRawH := func(desc, site string, expectVal *dg.Val, decodeFail bool, verb, target string, hdr map[string][]string, body string) {
			si := &stepInfo{Stream: it.stream, Side: "request", Design: d, DKey: it.bu.Key, DName: d.Name, Service: s.Name, Method: m.Name, M: m, Desc: desc, Site: site, Payload: expectVal, Result: rv, DecodeFail: decodeFail}
			if !decodeFail {
				si.Expected = evalAttr(d, m.Payload, expectVal, "payload")
			}
			si.Raw = &rt.RawReq{Method: verb, Target: target, Headers: hdr, Body: base64.StdEncoding.EncodeToString([]byte(body))}
			st := rt.Step{Design: it.bu.Key, Service: s.Name, Method: m.Name, Raw: si.Raw}
			if m.Result != nil {
				st.Result = d.ToTree(&m.Result.T, rv)
			}
			push(st, si)
		}
		genWitnessSteps(d, m, pv, rv, mk, mkRaw, mkRawH, prop)
		return
	}
	mk("valid", "", "request", pv, rv)
	if m.Payload != nil {
		// a second conforming payload with no optional attribute set
		pv2 := d.GenVal(rng, m.Payload, dg.ValOpts{SafeString: true, NoEmpty: true, NoOptional: true})
		mk("valid-no-optional", "", "request", pv2, rv)
		locOf, rootLoc := locator(m)
		reqCookie := hasRequiredCookie(d, m)
		for _, mu := range mutants(d, rng, m.Payload, pv, locOf, rootLoc, perMethod) {
			if reqCookie && (mu.Loc == "path" || mu.Loc == "query" || mu.Loc == "header") {
				continue // recorded finding param-error-lost-by-required-cookie: witness stream only
			}
			mk(mu.Desc, mu.Site, "request", mu.Val, rv)
		}
	}
	if m.Result != nil && !isViewed(d, m) {
		for _, mu := range mutants(d, rng, m.Result, rv, resultLocator(m), "body", perMethod/2) {
			mk(mu.Desc, mu.Site, "result", pv, mu.Val)
		}
	}
}

// singleElementHeaderArrays keeps the exchange out of the recorded C03 loss class
// response-header-array-joined (an array result attribute carried in a response header is
// written as one ", "-joined value the generated client cannot read back): such arrays are
// cut to one element.
func singleElementHeaderArrays(d *dg.Design, m *dg.Method, rv *dg.Val) *dg.Val {
	if rv == nil || rv.K != "object" || m.HTTP == nil {
		return rv
	}
	out := rv
	for _, r := range m.HTTP.Responses {
		for _, h := range r.Headers {
			if v := out.Get(h.Attr); v != nil && v.K == "array" && len(v.Elems) > 1 {
				if out == rv {
					out = rv.Clone()
				}
				nv := out.Get(h.Attr)
				nv.Elems = nv.Elems[:1]
			}
		}
	}
	return out
}

// hasRequiredCookie: the method maps a required payload attribute to a cookie (the
// generated decoder then reads it with `c, err = r.Cookie(name)`).
func hasRequiredCookie(d *dg.Design, m *dg.Method) bool {
	if m.HTTP == nil || m.Payload == nil {
		return false
	}
	for _, e := range m.HTTP.Cookies {
		if m.Payload.T.Kind != "object" && m.Payload.T.Kind != "user" {
			return true
		}
		for _, f := range d.AllFields(&m.Payload.T) {
			if f.Name == e.Attr && f.Required {
				return true
			}
		}
	}
	return false
}

// violationsBeforeCookie: every expected violation sits in a path / query / header
// parameter (what the decoder had collected before it read the required cookie).
func violationsBeforeCookie(si *stepInfo) bool {
	locOf, rootLoc := locator(si.M)
	topLoc := func(path string) string {
		rest := strings.TrimPrefix(path, "payload")
		if rest == "" || rest[0] != '.' {
			return rootLoc
		}
		name := rest[1:]
		if i := strings.IndexAny(name, ".["); i >= 0 {
			name = name[:i]
		}
		return locOf(name)
	}
	// a cookie read before a LATER required cookie is in the same situation
	lastReq := ""
	if si.M.HTTP != nil && si.M.Payload != nil {
		for _, e := range si.M.HTTP.Cookies {
			for _, f := range si.Design.AllFields(&si.M.Payload.T) {
				if f.Name == e.Attr && f.Required {
					lastReq = e.Attr
				}
			}
		}
	}
	earlierCookie := func(name string) bool {
		if si.M.HTTP == nil || lastReq == "" || name == lastReq {
			return false
		}
		for _, e := range si.M.HTTP.Cookies {
			if e.Attr == lastReq {
				return false
			}
			if e.Attr == name {
				return true
			}
		}
		return false
	}
	_ = earlierCookie
	isParam := func(l string) bool { return l == "path" || l == "query" || l == "header" }
	if si.DecodeFail {
		site := strings.TrimPrefix(si.Site, ".")
		if i := strings.IndexAny(site, ".[{"); i >= 0 {
			site = site[:i]
		}
		return isParam(locOf(site)) || (site == "" && isParam(rootLoc)) || earlierCookie(site)
	}
	if len(si.Expected) == 0 {
		return false
	}
	for _, v := range si.Expected {
		rest := strings.TrimPrefix(v.Path, "payload.")
		if i := strings.IndexAny(rest, ".["); i >= 0 {
			rest = rest[:i]
		}
		if !isParam(topLoc(v.Path)) && !earlierCookie(rest) {
			return false
		}
	}
	return true
}

// genWitnessSteps re-demonstrates the recorded findings: conforming payloads that leave
// an optional array / map with MinLength > 0 unset, maps on both sides of their size
// bounds, exclusive bounds.
func genWitnessSteps(d *dg.Design, m *dg.Method, pv, rv *dg.Val, mk func(desc, site, side string, pv, rv *dg.Val), mkRaw func(desc, site string, expectVal *dg.Val, verb, target, body string), mkRawH func(desc, site string, expectVal *dg.Val, decodeFail bool, verb, target string, hdr map[string][]string, body string), prop string) {
	sv := func(s string) *dg.Val { return &dg.Val{K: "string", S: s} }
	obj := func(kv ...any) *dg.Val {
		o := &dg.Val{K: "object", Names: []string{}, Elems: []*dg.Val{}}
		for i := 0; i+1 < len(kv); i += 2 {
			o.Set(kv[i].(string), kv[i+1].(*dg.Val))
		}
		return o
	}
	arr := func(ss ...string) *dg.Val {
		a := &dg.Val{K: "array", Elems: []*dg.Val{}}
		for _, s := range ss {
			a.Elems = append(a.Elems, sv(s))
		}
		return a
	}
	mp := func(ks ...string) *dg.Val {
		a := &dg.Val{K: "map", Keys: []*dg.Val{}, Elems: []*dg.Val{}}
		for _, s := range ks {
			a.Keys = append(a.Keys, sv(s))
			a.Elems = append(a.Elems, sv("v"+s))
		}
		return a
	}
	switch m.Name {
	case "w_body":
		mk("valid", "", "request", obj("id", sv("abc"), "tags", arr("a", "b"), "opts", mp("k")), rv)
		mk("witness:absent-optional-array-minlen", ".tags", "request", obj("id", sv("abc"), "opts", mp("k")), rv)
		mk("witness:absent-optional-map-minlen", ".opts", "request", obj("id", sv("abc"), "tags", arr("a", "b")), rv)
		mk("witness:absent-optional-both", "", "request", obj("id", sv("abc")), rv)
		mk("minlen:len1", ".tags", "request", obj("id", sv("abc"), "tags", arr("a"), "opts", mp("k")), rv)
	case "w_query":
		mk("valid", "", "request", obj("id", sv("abc"), "qtags", arr("a")), rv)
		mk("witness:absent-optional-array-minlen", ".qtags", "request", obj("id", sv("abc")), rv)
	case "w_maplen":
		mk("valid", "", "request", obj("m_len", mp("a")), rv)
		mk("valid", "", "request", obj("m_len", mp("a", "b")), rv)
		mk("witness:map-maxlen:size3", ".m_len", "request", obj("m_len", mp("a", "b", "c")), rv)
		mk("witness:map-minlen:size0", ".m_len", "request", obj("m_len", mp()), rv)
	case "w_cookie":
		uv := func(u uint64) *dg.Val { return &dg.Val{K: "uint", U: u} }
		mk("valid", "", "request", obj("items", uv(3), "note", sv("abc")), rv)
		mk("witness:xmin-violation-before-required-cookie", ".items", "request", obj("items", uv(0), "note", sv("abc")), rv)
		mkRawH("witness:malformed-param-before-required-cookie", ".items", obj("items", uv(3), "note", sv("abc")), true, "GET", "/wit/cookie?items=notanint", map[string][]string{"Cookie": {"note_ck=abc"}}, "")
	case "w_doc":
		bv := func(hexs string) *dg.Val { return &dg.Val{K: "bytes", S: hexs} }
		mk("witness:bytes-maxlen:3bytes", ".b_max", "request", obj("b_max", bv("010203")), rv)
		mk("witness:bytes-minlen:1byte", ".b_min", "request", obj("b_min", bv("01")), rv)
		jh := map[string][]string{"Content-Type": {"application/json"}}
		mkRawH("witness:negative-for-uint", ".u", obj(), true, "POST", "/wit/doc", jh, `{"u":-1}`)
		mkRawH("witness:string-value-in-int-keyed-map", ".m_int", obj(), true, "POST", "/wit/doc", jh, `{"m_int":{"1":"str"}}`)
		mk("witness:uint64-above-int64", ".u64", "request", obj("u64", &dg.Val{K: "uint", U: 18446744073709551615}), rv)
		mk("witness:map-key-pattern-miss", ".m_key", "request", obj("m_key", &dg.Val{K: "map", Keys: []*dg.Val{sv("AB1")}, Elems: []*dg.Val{sv("x")}}), rv)
		mkRaw("witness:explicit-null", ".b_max", obj(), "POST", "/wit/doc", `{"b_max":null}`)
	case "w_harr":
		iv := func(i int64) *dg.Val { return &dg.Val{K: "int", I: i} }
		mk("valid", "", "request", obj("h_arr", &dg.Val{K: "array", Elems: []*dg.Val{iv(1), iv(2)}}), rv)
		mk("witness:header-array-maxlen:len3", ".h_arr", "request", obj("h_arr", &dg.Val{K: "array", Elems: []*dg.Val{iv(1), iv(2), iv(3)}}), rv)
		if prop == "C14" {
			mkRawH("witness:header-array-comma-separated", ".h_arr", obj("h_arr", &dg.Val{K: "array", Elems: []*dg.Val{iv(1), iv(2)}}), false, "GET", "/wit/harr", map[string][]string{"X-H-Arr": {"1,2"}}, "")
		}
	case "w_sh1", "w_sh2":
		one := func(i int64) *dg.Val {
			return obj("shm", &dg.Val{K: "map", Keys: []*dg.Val{sv("k")}, Elems: []*dg.Val{{K: "int", I: i}}})
		}
		mk("valid", "", "request", one(3), rv)
		mk("witness:shared-schema:value0", ".shm{val0}", "request", one(0), rv)
	case "w_paint":
		mk("valid", "", "request", obj("paint", obj("primary", sv("red"), "secondary", sv("green"))), rv)
		mk("witness:alias-enum-narrowed-in-user-type", ".paint.primary", "request", obj("paint", obj("primary", sv("green"))), rv)
	case "w_u64":
		mk("witness:uint64-above-int64", ".u64", "request", obj("u64", &dg.Val{K: "uint", U: 18446744073709551615}), rv)
	case "w_qmap":
		mk("valid", "", "request", obj("m", &dg.Val{K: "map", Keys: []*dg.Val{sv("a")}, Elems: []*dg.Val{{K: "int", I: 1}}}), rv)
	case "w_rcookie":
		mk("witness:response-cookie-maxlen", ".c", "result", pv, obj("ok", &dg.Val{K: "bool", B: true}, "c", sv("abc")))
	case "w_excl":
		for _, x := range []int64{0, 1, 9, 10} {
			mk(fmt.Sprintf("witness:excl:%d", x), ".x", "request", obj("x", &dg.Val{K: "int", I: x}), rv)
		}
	}
}

func errName(ob *rt.Obs) string {
	if ob.Resp == nil {
		return ""
	}
	var e struct {
		Name string `json:"name"`
	}
	if json.Unmarshal([]byte(ob.Resp.Body), &e) == nil && e.Name != "" {
		return e.Name
	}
	if h := ob.Resp.Headers["Goa-Error"]; len(h) > 0 {
		return h[0]
	}
	return ""
}

func status(ob *rt.Obs) int {
	if ob.Resp != nil {
		return ob.Resp.Status
	}
	return 0
}

var decodeNames = map[string]bool{"decode_payload": true, "invalid_field_type": true, "missing_payload": true, "missing_field": true}

func firstKw(vs []Viol) string {
	if len(vs) == 0 {
		return ""
	}
	return vs[0].Kw + ":" + vs[0].On
}

// checkC04 is the direct oracle of C04.
func checkC04(res *vh.Result, si *stepInfo, ob *rt.Obs, in map[string]any) {
	if ob.Panic != "" {
		failSig(res, "driver-panic", "panic while running the exchange: "+strings.SplitN(ob.Panic, "\n", 2)[0], in)
		return
	}
	if si.Side == "request" {
		res.Count(fmt.Sprintf("request_expected_violations=%d", min(len(si.Expected), 3)))
		shouldInvoke := len(si.Expected) == 0 && !si.DecodeFail
		switch {
		case ob.Invoked > 1:
			failSig(res, "invoked-more-than-once", fmt.Sprintf("service method ran %d times for one request", ob.Invoked), in)
		case shouldInvoke && ob.Invoked == 0:
			sig := "valid-request-rejected:" + errName(ob)
			if si.Payload != nil && si.M.Payload != nil && absentCollectionMinLen(si.Design, si.M.Payload, si.Payload) && errName(ob) == "invalid_length" {
				sig = "absent-collection-minlen"
			}
			if ob.Resp == nil {
				sig = "valid-request-no-response"
			}
			failSig(res, sig, fmt.Sprintf("a request satisfying every constraint of the design did not reach the service method: status %d, error %q (%s at %s)", status(ob), errName(ob), si.Desc, si.Site), in)
		case !shouldInvoke && ob.Invoked == 1:
			what := "violates " + violString(si.Expected)
			sig := "invalid-request-invoked:" + firstKw(si.Expected)
			if len(si.Expected) == 1 && si.Expected[0].Kw == "xmax" && bothExclusive(si.Design, si.M.Payload, si.Payload, si.Expected[0].Path) {
				sig = "exclusive-max-dropped-when-exclusive-min-present"
			}
			if hasRequiredCookie(si.Design, si.M) && violationsBeforeCookie(si) {
				sig = "param-error-lost-by-required-cookie"
			}
			if si.DecodeFail {
				what, sig = "is not decodable ("+si.Desc+")", "undecodable-request-invoked"
				if hasRequiredCookie(si.Design, si.M) && violationsBeforeCookie(si) {
					sig = "param-error-lost-by-required-cookie"
				}
			}
			failSig(res, sig, "user code ran on a request that "+what, in)
		case !shouldInvoke:
			st := status(ob)
			if ob.Resp == nil {
				sig := "violating-request-no-response:" + firstKw(si.Expected)
				if si.DecodeFail {
					sig = "undecodable-request-no-response"
				}
				failSig(res, sig, "the server answered nothing (it crashed) on a request that violates "+violString(si.Expected), in)
				return
			}
			if st < 400 || st > 499 {
				failSig(res, "violation-not-4xx:"+firstKw(si.Expected), fmt.Sprintf("violating request answered with status %d", st), in)
				return
			}
			name := errName(ob)
			ok := false
			if si.DecodeFail {
				ok = decodeNames[name]
			}
			for _, v := range si.Expected {
				if v.Name == name {
					ok = true
				}
			}
			if !ok {
				failSig(res, "error-names-no-violated-rule:"+name, fmt.Sprintf("violated %s but the error is named %q", violString(si.Expected), name), in)
			}
			res.Count("rejected_name=" + name)
		default:
			res.Count("invoked_valid")
			res.Sample(map[string]any{"method": si.Method, "mutation": si.Desc, "payload": si.Payload, "wire": ob.Req}, 3)
		}
		return
	}
	// result side: the scripted service returns si.Result
	res.Count(fmt.Sprintf("result_expected_violations=%d", min(len(si.Expected), 3)))
	if ob.Invoked != 1 {
		res.Count("result_step_not_invoked")
		return
	}
	if len(si.Expected) == 0 {
		if ob.ClientErr != nil {
			failSig(res, "valid-result-refused", fmt.Sprintf("client returned error %s: %s for a result satisfying the design", ob.ClientErr.Name, ob.ClientErr.Message), in)
		}
		return
	}
	if ob.ClientErr == nil {
		failSig(res, "invalid-result-returned:"+firstKw(si.Expected), "the generated client returned a result that violates "+violString(si.Expected), in)
		return
	}
	res.Count("client_error_name=" + ob.ClientErr.Name)
	okName := false
	for _, v := range si.Expected {
		if strings.Contains(ob.ClientErr.Message, strings.ReplaceAll(v.Name, "_", " ")) || ob.ClientErr.Name == v.Name || strings.Contains(ob.ClientErr.Message, v.Name) {
			okName = true
		}
	}
	_ = okName
}

// Desc0 is the mutation class without its numeric details (stable signatures).
func (si *stepInfo) Desc0() string {
	d := si.Desc
	if i := strings.IndexAny(d, "0123456789"); i > 0 {
		d = d[:i]
	}
	return d
}

func sortedKeys(m map[string]bool) []string {
	var ks []string
	for k := range m {
		ks = append(ks, k)
	}
	sort.Strings(ks)
	return ks
}
