package main

// Boundary mutants: from a payload (or result) value that satisfies the design, build
// variants that differ at ONE attribute occurrence and sit on both sides of every
// boundary the design places there (min-1/min/min+1, exclusive bounds, lengths in
// code points vs bytes, enum / format / pattern misses, set vs unset, zero values),
// at every depth (array elements, map keys / values, nested and recursive types).
// What each variant should do is NOT decided here: the independent evaluator
// (oracle.go) computes the violated rules of every variant.

import (
	"encoding/hex"
	"fmt"
	"math"
	"strings"

	dg "verifharness/designgen"
	"verifharness/vh"
)

type pstep struct {
	Kind  byte   // f field, i array index, k map key (idx), v map value (idx)
	Field string `json:",omitempty"`
	Idx   int    `json:",omitempty"`
}

type site struct {
	path     []pstep
	attr     *dg.Attr
	val      *dg.Val // nil when the attribute is unset
	loc      string  // body query header path cookie
	isField  bool
	required bool
	depth    int
}

func pathString(p []pstep) string {
	var b strings.Builder
	for _, s := range p {
		switch s.Kind {
		case 'f':
			b.WriteString("." + s.Field)
		case 'i':
			fmt.Fprintf(&b, "[%d]", s.Idx)
		case 'k':
			fmt.Fprintf(&b, "{key%d}", s.Idx)
		case 'v':
			fmt.Fprintf(&b, "{val%d}", s.Idx)
		}
	}
	return b.String()
}

func cp(p []pstep, s pstep) []pstep { return append(append([]pstep{}, p...), s) }

// sites lists the attribute occurrences of value v (of attribute a).
func sites(d *dg.Design, a *dg.Attr, v *dg.Val, path []pstep, loc string, depth int, locOf func(string) string, out *[]site) {
	if v == nil || v.K == "null" || depth > 9 {
		return
	}
	bt, _ := d.Effective(a)
	switch bt.Kind {
	case "array", "collection":
		ea := bt.Elem
		if bt.Kind == "collection" {
			ea = &dg.Attr{T: dg.Type{Kind: "user", Ref: bt.Ref}}
		}
		for i, e := range v.Elems {
			if i >= 2 {
				break
			}
			p := cp(path, pstep{Kind: 'i', Idx: i})
			*out = append(*out, site{path: p, attr: ea, val: e, loc: loc, depth: depth + 1})
			sites(d, ea, e, p, loc, depth+1, nil, out)
		}
	case "map":
		for i := range v.Keys {
			if i >= 1 {
				break
			}
			pk := cp(path, pstep{Kind: 'k', Idx: i})
			*out = append(*out, site{path: pk, attr: bt.Key, val: v.Keys[i], loc: loc, depth: depth + 1})
			pv := cp(path, pstep{Kind: 'v', Idx: i})
			*out = append(*out, site{path: pv, attr: bt.Elem, val: v.Elems[i], loc: loc, depth: depth + 1})
			sites(d, bt.Elem, v.Elems[i], pv, loc, depth+1, nil, out)
		}
	case "object", "user":
		for _, f := range d.AllFields(&a.T) {
			l := loc
			if locOf != nil {
				l = locOf(f.Name)
			}
			p := cp(path, pstep{Kind: 'f', Field: f.Name})
			fv := v.Get(f.Name)
			*out = append(*out, site{path: p, attr: &f.A, val: fv, loc: l, isField: true, required: f.Required, depth: depth + 1})
			sites(d, &f.A, fv, p, l, depth+1, nil, out)
		}
	}
}

// replaceAt returns a copy of root with the value at path replaced by nv (nil = unset).
func replaceAt(root *dg.Val, path []pstep, nv *dg.Val) *dg.Val {
	if len(path) == 0 {
		return nv
	}
	out := root.Clone()
	cur := out
	for i, s := range path {
		last := i == len(path)-1
		switch s.Kind {
		case 'f':
			if last {
				if nv == nil {
					cur.Unset(s.Field)
				} else {
					cur.Set(s.Field, nv)
				}
				return out
			}
			cur = cur.Get(s.Field)
		case 'i':
			if last {
				cur.Elems[s.Idx] = nv
				return out
			}
			cur = cur.Elems[s.Idx]
		case 'k':
			if last {
				cur.Keys[s.Idx] = nv
				return out
			}
			cur = cur.Keys[s.Idx]
		case 'v':
			if last {
				cur.Elems[s.Idx] = nv
				return out
			}
			cur = cur.Elems[s.Idx]
		}
		if cur == nil {
			return out
		}
	}
	return out
}

type mutant struct {
	Val  *dg.Val
	Desc string
	Site string
	Loc  string
}

func isIntPrim(p string) bool  { return strings.HasPrefix(p, "Int") }
func isUintPrim(p string) bool { return strings.HasPrefix(p, "UInt") }
func isFloatPrim(p string) bool {
	return strings.HasPrefix(p, "Float")
}

func numVal(prim string, x float64) *dg.Val {
	switch {
	case isFloatPrim(prim):
		if prim == "Float32" && float64(float32(x)) != x {
			return nil
		}
		return &dg.Val{K: "float", F: x}
	case isUintPrim(prim):
		if x < 0 || x != math.Trunc(x) {
			return nil
		}
		if prim == "UInt32" && x > math.MaxUint32 {
			return nil
		}
		return &dg.Val{K: "uint", U: uint64(x)}
	default:
		if x != math.Trunc(x) {
			return nil
		}
		if prim == "Int32" && (x > math.MaxInt32 || x < math.MinInt32) {
			return nil
		}
		return &dg.Val{K: "int", I: int64(x)}
	}
}

var formatSubclasses = map[string][]string{
	"ip":        {"192.168.0.1", "2001:db8::1", "::ffff:10.0.0.1", "1.2.3"},
	"ipv4":      {"0.0.0.0", "255.255.255.255", "::1", "::ffff:10.0.0.1", "::ffff:a00:1", "010.1.1.1"},
	"ipv6":      {"2001:db8::1", "::", "10.0.0.1", "::ffff:10.0.0.1", "::ffff:a00:1", "1::2::3"},
	"uri":       {"https://example.com/a/b?c=d#e", "/relative/path", "mailto:a@b.co", "relative"},
	"date-time": {"2020-02-29T10:11:12Z", "2020-02-29T10:11:12+01:00", "2020-02-29T10:11:12.123456Z", "2020-02-29t10:11:12z", "2020-02-29"},
	"date":      {"2020-02-29", "2021-02-29", "20200229"},
	"uuid":      {"6BA7B810-9DAD-11D1-80B4-00C04FD430C8", "6ba7b8109dad11d180b400c04fd430c8", "urn:uuid:6ba7b810-9dad-11d1-80b4-00c04fd430c8", "{6ba7b810-9dad-11d1-80b4-00c04fd430c8}"},
	"email":     {"a@b.co", "Bob <a@b.co>", "a@b", "a.b.co"},
	"hostname":  {"example.com", "a", "ex_ample.com", "xn--bcher-kva.example"},
	"mac":       {"00:00:5e:00:53:01", "00-00-5e-00-53-01", "0000.5e00.5301", "00:00:5e:00:53:01:02:03"},
	"cidr":      {"10.0.0.0/8", "2001:db8::/32", "10.0.0.1"},
	"regexp":    {"^a+b*$", "(?i)x", "a(?=b)"},
	"json":      {"{}", "[1,2]", "1", "{a:1}"},
	"rfc1123":   {"Mon, 02 Jan 2006 15:04:05 MST", "Mon, 02 Jan 2006 15:04:05 GMT", "2006-01-02"},
}

func asciiN(n int) string { return strings.Repeat("q", n) }
func multiN(n int) string { return strings.Repeat("é", n) }

// candidates proposes replacement values for one attribute occurrence.
func candidates(d *dg.Design, rng *vh.RNG, s site) (out []struct {
	v    *dg.Val
	desc string
}) {
	add := func(v *dg.Val, desc string) {
		if v != nil {
			out = append(out, struct {
				v    *dg.Val
				desc string
			}{v, desc})
		}
	}
	bt, val := d.Effective(s.attr)
	inBody := s.loc == "body"
	multiOK := s.loc == "body" || s.loc == "query"
	switch bt.Kind {
	case "prim":
		p := bt.Prim
		switch {
		case isIntPrim(p) || isUintPrim(p) || isFloatPrim(p):
			delta := 1.0
			if isFloatPrim(p) {
				delta = 0.5
			}
			for _, b := range []struct {
				n string
				p *float64
			}{{"min", val.Min}, {"max", val.Max}, {"xmin", val.ExclMin}, {"xmax", val.ExclMax}} {
				if b.p == nil {
					continue
				}
				add(numVal(p, *b.p-delta), b.n+"-d")
				add(numVal(p, *b.p), b.n)
				add(numVal(p, *b.p+delta), b.n+"+d")
			}
			if len(val.Enum) > 0 {
				for i, e := range val.Enum {
					if f, ok := toF(e); ok {
						add(numVal(p, f), fmt.Sprintf("enum-member:%d", i))
					}
				}
				_, avs := d.Base(&s.attr.T)
				for _, av := range avs {
					for i, e := range av.Enum {
						if f, ok := toF(e); ok {
							in := false
							for _, o := range val.Enum {
								if g, ok := toF(o); ok && g == f {
									in = true
								}
							}
							if !in {
								add(numVal(p, f), fmt.Sprintf("enum-alias-only:%d", i))
							}
						}
					}
				}
				add(numVal(p, 99), "enum-miss")
			}
			add(numVal(p, 0), "zero")
		case p == "String":
			switch {
			case len(val.Enum) > 0:
				for i, e := range val.Enum {
					add(&dg.Val{K: "string", S: fmt.Sprint(e)}, fmt.Sprintf("enum-member:%d", i))
				}
				// members of an alias type's Enum that the attribute's own Enum leaves out
				_, avs := d.Base(&s.attr.T)
				for _, av := range avs {
					for i, e := range av.Enum {
						in := false
						for _, o := range val.Enum {
							if fmt.Sprint(o) == fmt.Sprint(e) {
								in = true
							}
						}
						if !in {
							add(&dg.Val{K: "string", S: fmt.Sprint(e)}, fmt.Sprintf("enum-alias-only:%d", i))
						}
					}
				}
				add(&dg.Val{K: "string", S: "zz"}, "enum-miss")
				add(&dg.Val{K: "string", S: strings.ToUpper(fmt.Sprint(val.Enum[0]))}, "enum-case")
			case val.Format != "":
				for i, x := range dg.FormatSamples(val.Format) {
					add(&dg.Val{K: "string", S: x}, fmt.Sprintf("format-ok:%d", i))
				}
				// instances of every sub-class of the format (what they are worth is decided by goa.ValidateFormat)
				for i, x := range formatSubclasses[val.Format] {
					if s.loc == "body" || s.loc == "query" || !strings.ContainsAny(x, " <>\"") {
						add(&dg.Val{K: "string", S: x}, fmt.Sprintf("format-class:%d", i))
					}
				}
				if b, ok := dg.FormatBad(val.Format); ok {
					add(&dg.Val{K: "string", S: b}, "format-miss")
				}
			case val.Pattern != "":
				if ss := dg.PatternSamples(val.Pattern); len(ss) > 0 {
					add(&dg.Val{K: "string", S: ss[len(ss)-1]}, "pattern-ok")
				}
				if b, ok := dg.PatternBad(val.Pattern); ok {
					add(&dg.Val{K: "string", S: b}, "pattern-miss")
				}
			default:
				if val.MinLen != nil {
					n := *val.MinLen
					for _, k := range []int{n - 1, n, n + 1} {
						if k > 0 || (k == 0 && inBody) {
							add(&dg.Val{K: "string", S: asciiN(k)}, fmt.Sprintf("minlen:ascii%d", k))
						}
					}
					if multiOK && n >= 2 {
						k := (n + 1) / 2 // k code points, 2k >= n bytes
						add(&dg.Val{K: "string", S: multiN(k)}, fmt.Sprintf("minlen:multibyte%d", k))
						add(&dg.Val{K: "string", S: multiN(n)}, fmt.Sprintf("minlen:multibyte%d", n))
					}
				}
				if val.MaxLen != nil {
					m := *val.MaxLen
					for _, k := range []int{m - 1, m, m + 1} {
						if k > 0 {
							add(&dg.Val{K: "string", S: asciiN(k)}, fmt.Sprintf("maxlen:ascii%d", k))
						}
					}
					if multiOK && m >= 1 {
						add(&dg.Val{K: "string", S: multiN(m)}, fmt.Sprintf("maxlen:multibyte%d", m))
						add(&dg.Val{K: "string", S: multiN(m + 1)}, fmt.Sprintf("maxlen:multibyte%d", m+1))
						add(&dg.Val{K: "string", S: multiN((m + 2) / 2)}, fmt.Sprintf("maxlen:multibyte%d", (m+2)/2))
					}
				}
				if inBody && val.MinLen == nil && val.MaxLen == nil && s.isField && !s.required {
					add(&dg.Val{K: "string", S: ""}, "zero")
				}
			}
		case p == "Bytes":
			mk := func(n int) *dg.Val {
				b := make([]byte, n)
				for i := range b {
					b[i] = byte(0xC3 + i)
				}
				return &dg.Val{K: "bytes", S: hex.EncodeToString(b)}
			}
			if val.MinLen != nil {
				for _, k := range []int{*val.MinLen - 1, *val.MinLen, *val.MinLen + 1} {
					if k > 0 {
						add(mk(k), fmt.Sprintf("minlen:bytes%d", k))
					}
				}
			}
			if val.MaxLen != nil {
				for _, k := range []int{*val.MaxLen - 1, *val.MaxLen, *val.MaxLen + 1} {
					if k > 0 {
						add(mk(k), fmt.Sprintf("maxlen:bytes%d", k))
					}
				}
			}
		}
	case "array":
		resize := func(n int, tag string) {
			if n < 0 || (n == 0 && !inBody) || s.val == nil {
				return
			}
			nv := &dg.Val{K: "array", Elems: []*dg.Val{}}
			for i := 0; i < n; i++ {
				if i < len(s.val.Elems) {
					nv.Elems = append(nv.Elems, s.val.Elems[i].Clone())
				} else {
					nv.Elems = append(nv.Elems, d.GenVal(rng, bt.Elem, dg.ValOpts{Depth: s.depth + 1, SafeString: true, NoEmpty: true}))
				}
			}
			add(nv, fmt.Sprintf("%s:len%d", tag, n))
		}
		if val.MinLen != nil {
			for _, k := range []int{*val.MinLen - 1, *val.MinLen, *val.MinLen + 1} {
				resize(k, "minlen")
			}
		}
		if val.MaxLen != nil {
			for _, k := range []int{*val.MaxLen - 1, *val.MaxLen, *val.MaxLen + 1} {
				resize(k, "maxlen")
			}
		}
	case "map":
		resize := func(n int, tag string) {
			if n < 0 || (n == 0 && !inBody) || s.val == nil {
				return
			}
			nv := &dg.Val{K: "map", Keys: []*dg.Val{}, Elems: []*dg.Val{}}
			seen := map[string]bool{}
			for i := 0; i < len(s.val.Keys) && len(nv.Keys) < n; i++ {
				nv.Keys = append(nv.Keys, s.val.Keys[i].Clone())
				nv.Elems = append(nv.Elems, s.val.Elems[i].Clone())
				seen[s.val.Keys[i].String()] = true
			}
			for tries := 0; len(nv.Keys) < n && tries < 40; tries++ {
				k := d.GenVal(rng, bt.Key, dg.ValOpts{SafeString: true, NoEmpty: true})
				if k.K == "string" {
					_, kv := d.Effective(bt.Key)
					if kv.Pattern == "" && kv.Format == "" && len(kv.Enum) == 0 {
						k.S = fmt.Sprintf("k%d", tries)
					}
				}
				if seen[k.String()] {
					continue
				}
				seen[k.String()] = true
				nv.Keys = append(nv.Keys, k)
				nv.Elems = append(nv.Elems, d.GenVal(rng, bt.Elem, dg.ValOpts{Depth: s.depth + 1, SafeString: true, NoEmpty: true}))
			}
			if len(nv.Keys) == n {
				add(nv, fmt.Sprintf("%s:size%d", tag, n))
			}
		}
		if val.MinLen != nil {
			for _, k := range []int{*val.MinLen - 1, *val.MinLen, *val.MinLen + 1} {
				resize(k, "minlen")
			}
		}
		if val.MaxLen != nil {
			for _, k := range []int{*val.MaxLen - 1, *val.MaxLen, *val.MaxLen + 1} {
				resize(k, "maxlen")
			}
		}
	}
	return out
}

func toF(x any) (float64, bool) {
	switch t := x.(type) {
	case int:
		return float64(t), true
	case int64:
		return float64(t), true
	case float64:
		return t, true
	}
	return 0, false
}

func inLossClassMinLen(d *dg.Design, a *dg.Attr) bool {
	bt, val := d.Effective(a)
	return (bt.Kind == "array" || bt.Kind == "map") && val.MinLen != nil && *val.MinLen > 0
}

func isZero(v *dg.Val) bool {
	switch v.K {
	case "bool":
		return !v.B
	case "int":
		return v.I == 0
	case "uint":
		return v.U == 0
	case "float":
		return v.F == 0
	case "string":
		return v.S == ""
	}
	return false
}

// mutants builds the value-level variants of a valid value (those the generated
// client / the scripted service can express).
func mutants(d *dg.Design, rng *vh.RNG, a *dg.Attr, valid *dg.Val, locOf func(string) string, rootLoc string, limit int) []mutant {
	var ss []site
	root := site{attr: a, val: valid, loc: rootLoc}
	ss = append(ss, root)
	sites(d, a, valid, nil, rootLoc, 0, locOf, &ss)
	var out []mutant
	for _, s := range ss {
		ps := pathString(s.path)
		if s.val == nil || s.val.K == "null" {
			// unset optional attribute: set it to a conforming value
			if s.isField && !s.required && s.depth <= 3 {
				nv := d.GenVal(rng, s.attr, dg.ValOpts{Depth: s.depth, SafeString: true, NoEmpty: true, NoOptional: true})
				if !(s.attr.HasDef && isZero(nv)) {
					out = append(out, mutant{replaceAt(valid, s.path, nv), "set-unset-optional", ps, s.loc})
				}
			}
			continue
		}
		for _, c := range candidates(d, rng, s) {
			if s.attr.HasDef && isZero(c.v) {
				continue // zero of a defaulted attribute travels as the default (recorded C02/C03 loss class)
			}
			if !s.isField && len(s.path) == 0 && isZero(c.v) && s.loc != "body" {
				continue
			}
			out = append(out, mutant{replaceAt(valid, s.path, c.v), c.desc, ps, s.loc})
		}
		if s.isField && !s.required && !inLossClassMinLen(d, s.attr) {
			out = append(out, mutant{replaceAt(valid, s.path, nil), "unset-optional", ps, s.loc})
		}
	}
	if limit > 0 && len(out) > limit {
		// keep a seed-dependent sample, boundary candidates first
		keep := make([]mutant, 0, limit)
		var rest []mutant
		for _, m := range out {
			if strings.HasPrefix(m.Desc, "min") || strings.HasPrefix(m.Desc, "max") || strings.HasPrefix(m.Desc, "xm") || strings.Contains(m.Desc, "miss") {
				keep = append(keep, m)
			} else {
				rest = append(rest, m)
			}
		}
		for len(keep) > limit {
			i := rng.Intn(len(keep))
			keep = append(keep[:i], keep[i+1:]...)
		}
		for len(keep) < limit && len(rest) > 0 {
			i := rng.Intn(len(rest))
			keep = append(keep, rest[i])
			rest = append(rest[:i], rest[i+1:]...)
		}
		out = keep
	}
	return out
}
