package main

// "Validation reachable only through X": user types whose SOLE validation, transitively,
// sits behind one kind of step (map key, map value, array element, alias type, a nested
// user type two levels down, the inner occurrence of a recursive type, a type used only
// inside a map value / only inside an array of arrays), with no required attribute and
// nothing else. goa decides per user type whether to call its Validate<T> at all
// (codegen.hasValidations); these designs exercise that pruning decision in both
// directions: each type is met as a nested attribute, as an array element and as a map
// value of the body, next to a twin type without any validation.

import (
	"fmt"

	dg "verifharness/designgen"
	"verifharness/vh"
)

func strAttr(v dg.Validation) dg.Attr { return dg.Attr{T: dg.Prim("String"), V: &v} }
func intAttr(v dg.Validation) dg.Attr { return dg.Attr{T: dg.Prim("Int"), V: &v} }

// holderMethod: payload {one: T, arr: [T], arr2: [[T]], mp: {string: T}, mparr: {string: [T]}, twin: Plain0}
// (nothing required).
func holderMethod(name, typ string) *dg.Method {
	p := dg.A(dg.Obj(
		dg.F("one", dg.Ref(typ)),
		dg.F("arr", dg.ArrayOf(dg.A(dg.Ref(typ)))),
		dg.F("arr2", dg.ArrayOf(dg.A(dg.ArrayOf(dg.A(dg.Ref(typ)))))),
		dg.F("mp", dg.MapOf(dg.A(dg.Prim("String")), dg.A(dg.Ref(typ)))),
		dg.F("mparr", dg.MapOf(dg.A(dg.Prim("String")), dg.A(dg.ArrayOf(dg.A(dg.Ref(typ)))))),
		dg.F("twin", dg.Ref("Plain0"))))
	return method(name, "POST", "/sole/"+name, &p, nil)
}

// holderDeep: the same plus map of arrays / map of maps placed first, three array levels and
// an array of maps (types whose only validation is `required` on primitive attributes).
func holderDeep(name, typ string) *dg.Method {
	m := holderMethod(name, typ)
	// met FIRST below a map of arrays / a map of maps, then in every other position
	m.Payload.T.Attrs = append([]*dg.Field{
		dg.F("mparr0", dg.MapOf(dg.A(dg.Prim("String")), dg.A(dg.ArrayOf(dg.A(dg.Ref(typ)))))),
		dg.F("mpmp0", dg.MapOf(dg.A(dg.Prim("String")), dg.A(dg.MapOf(dg.A(dg.Prim("String")), dg.A(dg.Ref(typ))))))}, m.Payload.T.Attrs...)
	m.Payload.T.Attrs = append(m.Payload.T.Attrs,
		dg.F("arr3", dg.ArrayOf(dg.A(dg.ArrayOf(dg.A(dg.ArrayOf(dg.A(dg.Ref(typ)))))))),
		dg.F("arrmp", dg.ArrayOf(dg.A(dg.MapOf(dg.A(dg.Prim("String")), dg.A(dg.Ref(typ)))))))
	return m
}

// soleCoveringDesign: one user type per X, hand-written.
func soleCoveringDesign() *dg.Design {
	d := &dg.Design{Name: "cov_sole", Features: []string{"covering", "sole_validation"}}
	pat := dg.Validation{Pattern: "^[a-z]+$"}
	d.Types = []*dg.UserType{
		{Name: "Plain0", Base: dg.Obj(dg.F("x", dg.Prim("String")), dg.F("m", dg.MapOf(dg.A(dg.Prim("String")), dg.A(dg.Prim("Int")))))},
		{Name: "AliasP", Base: dg.Prim("String"), V: &dg.Validation{Pattern: "^[a-z]+$"}},
		// map key only
		{Name: "SoleKey", Base: dg.Obj(dg.F("m", dg.MapOf(strAttr(pat), dg.A(dg.Prim("String")))), dg.F("n", dg.Prim("Int")))},
		{Name: "SoleKeyLen", Base: dg.Obj(dg.F("m", dg.MapOf(strAttr(dg.Validation{MaxLen: ip(2)}), dg.A(dg.Prim("Boolean")))))},
		{Name: "SoleKeyEnum", Base: dg.Obj(dg.F("m", dg.MapOf(strAttr(dg.Validation{Enum: []any{"a", "bc"}}), dg.A(dg.Prim("Int")))))},
		// `required` on primitive attributes only
		{Name: "SoleReq", Base: dg.Obj(dg.Req("a", dg.Prim("String")), dg.Req("w", dg.Prim("Int")), dg.F("o", dg.Prim("Boolean")))},
		{Name: "SoleReqNested", Base: dg.Obj(dg.F("in", dg.Ref("SoleReq")), dg.F("ins", dg.ArrayOf(dg.A(dg.ArrayOf(dg.A(dg.Ref("SoleReq")))))))},
		// map value only
		{Name: "SoleVal", Base: dg.Obj(dg.F("m", dg.MapOf(dg.A(dg.Prim("String")), intAttr(dg.Validation{Min: fp(1)}))))},
		// array element only
		{Name: "SoleElem", Base: dg.Obj(dg.F("a", dg.ArrayOf(strAttr(dg.Validation{MaxLen: ip(3)}))))},
		// array of arrays element only
		{Name: "SoleElem2", Base: dg.Obj(dg.F("aa", dg.ArrayOf(dg.A(dg.ArrayOf(intAttr(dg.Validation{Max: fp(9)}))))))},
		// alias type only
		{Name: "SoleAlias", Base: dg.Obj(dg.F("x", dg.Ref("AliasP")), dg.F("y", dg.Prim("String")))},
		// alias as map key / array element
		{Name: "SoleAliasElem", Base: dg.Obj(dg.F("a", dg.ArrayOf(dg.A(dg.Ref("AliasP")))))},
		// nested user type two levels down
		{Name: "Leaf", Base: dg.Obj(dg.F("v", dg.Prim("Int")).With(dg.Validation{Max: fp(5)}))},
		{Name: "Mid", Base: dg.Obj(dg.F("leaf", dg.Ref("Leaf")), dg.F("s", dg.Prim("String")))},
		{Name: "SoleNested2", Base: dg.Obj(dg.F("mid", dg.Ref("Mid")))},
		// leaf whose only validation is a map key, two levels down
		{Name: "KeyLeaf", Base: dg.Obj(dg.F("m", dg.MapOf(strAttr(pat), dg.A(dg.Prim("Int")))))},
		{Name: "KeyMid", Base: dg.Obj(dg.F("leaf", dg.Ref("KeyLeaf")))},
		{Name: "SoleNestedKey", Base: dg.Obj(dg.F("mid", dg.Ref("KeyMid")))},
		// inner occurrence of a (mutually) recursive type
		{Name: "RecA", Base: dg.Obj(dg.F("b", dg.Ref("RecB")), dg.F("s", dg.Prim("String")))},
		{Name: "RecB", Base: dg.Obj(dg.F("a", dg.Ref("RecA")), dg.F("m", dg.MapOf(strAttr(pat), dg.A(dg.Prim("String")))))},
		{Name: "RecSelf", Base: dg.Obj(dg.F("next", dg.Ref("RecSelf")), dg.F("kids", dg.ArrayOf(dg.A(dg.Ref("RecSelf")))), dg.F("v", dg.Prim("Int")).With(dg.Validation{Min: fp(1)}))},
		// a type used only inside a map value / only inside an array of arrays
		{Name: "OnlyInMapVal", Base: dg.Obj(dg.F("mm", dg.MapOf(dg.A(dg.Prim("String")), dg.A(dg.Ref("Leaf")))))},
		{Name: "OnlyInArrArr", Base: dg.Obj(dg.F("aa", dg.ArrayOf(dg.A(dg.ArrayOf(dg.A(dg.Ref("Leaf")))))))},
		{Name: "KeyOnlyInMapVal", Base: dg.Obj(dg.F("mm", dg.MapOf(dg.A(dg.Prim("String")), dg.A(dg.Ref("KeyLeaf")))))},
		{Name: "KeyOnlyInArrArr", Base: dg.Obj(dg.F("aa", dg.ArrayOf(dg.A(dg.ArrayOf(dg.A(dg.Ref("KeyLeaf")))))))},
	}
	// openapi's schemafier shares one schema between structurally equal types (recorded
	// finding schema-shared-by-structurally-equal-types): give every type its own attribute
	for i, t := range d.Types {
		if t.Base.Kind == "object" {
			t.Base.Attrs = append(t.Base.Attrs, dg.F(fmt.Sprintf("u%d", i), dg.Prim("Boolean")))
		}
	}
	s := &dg.Service{Name: "sole"}
	for _, t := range d.Types {
		if t.Name == "Plain0" || t.Name == "AliasP" || t.Name == "Leaf" || t.Name == "Mid" || t.Name == "KeyLeaf" || t.Name == "KeyMid" || t.Name == "RecB" {
			continue
		}
		if t.Name == "SoleReq" || t.Name == "SoleReqNested" {
			s.Methods = append(s.Methods, holderDeep("s_"+lower(t.Name), t.Name))
			continue
		}
		s.Methods = append(s.Methods, holderMethod("s_"+lower(t.Name), t.Name))
	}
	d.Services = []*dg.Service{s}
	return d
}

func lower(s string) string {
	b := []byte(s)
	for i, c := range b {
		if c >= 'A' && c <= 'Z' {
			b[i] = c + 32
		}
	}
	return string(b)
}

// soleRandomDesign draws user types whose sole validation sits behind a random chain of
// wrappers (generator option "validation reachable only through X").
func soleRandomDesign(rng *vh.RNG, idx int) *dg.Design {
	d := &dg.Design{Name: fmt.Sprintf("rnd_sole%d", idx), Features: []string{"sole_validation", "sole_random"}}
	d.Types = []*dg.UserType{{Name: "Plain0", Base: dg.Obj(dg.F("x", dg.Prim("String")))}}
	s := &dg.Service{Name: "rsole"}
	ntypes := 0
	newType := func(base dg.Type) string {
		n := fmt.Sprintf("W%d", ntypes)
		base.Attrs = append(base.Attrs, dg.F(fmt.Sprintf("u%d", ntypes), dg.Prim("Boolean")))
		ntypes++
		d.Types = append(d.Types, &dg.UserType{Name: n, Base: base})
		return n
	}
	for i := 0; i < 5; i++ {
		var leaf dg.Attr
		isStr := rng.Bool()
		if isStr {
			leaf = strAttr(vh.Pick(rng, []dg.Validation{{Pattern: "^[a-z]+$"}, {MaxLen: ip(2)}, {Enum: []any{"a", "bc"}}, {MinLen: ip(2)}, {Format: "ipv4"}}))
		} else {
			leaf = intAttr(vh.Pick(rng, []dg.Validation{{Min: fp(1)}, {Max: fp(9)}, {ExclMin: fp(0)}, {Enum: []any{1, 2, 3}}}))
		}
		cur := leaf
		prim := true
		chain := ""
		if rng.Intn(3) == 0 {
			// the sole validation is `required` on primitive attributes of a user type
			cur = dg.A(dg.Ref(newType(dg.Obj(dg.Req("a", dg.Prim("String")), dg.Req("w", dg.Prim("Int")), dg.F("o", dg.Prim("Boolean"))))))
			prim, isStr = false, false
			chain = "reqonly>"
		}
		n := 1 + rng.Intn(3)
		for k := 0; k < n; k++ {
			switch w := rng.Intn(6); {
			case w == 0 && prim:
				// the validated primitive as a map KEY
				cur = dg.A(dg.MapOf(cur, dg.A(dg.Prim("Boolean"))))
				chain += "key>"
			case w == 0 || w == 1:
				cur = dg.A(dg.MapOf(dg.A(dg.Prim("String")), cur))
				chain += "val>"
			case w == 2:
				cur = dg.A(dg.ArrayOf(cur))
				chain += "elem>"
			case w == 3:
				cur = dg.A(dg.ArrayOf(dg.A(dg.ArrayOf(cur))))
				chain += "elem2>"
			case w == 4 && prim && isStr:
				an := fmt.Sprintf("Al%d", ntypes)
				ntypes++
				d.Types = append(d.Types, &dg.UserType{Name: an, Base: dg.Prim("String"), V: leaf.V})
				cur = dg.A(dg.Ref(an))
				chain += "alias>"
			default:
				cur = dg.A(dg.Ref(newType(dg.Obj(&dg.Field{Name: "w", A: cur}, dg.F("z", dg.Prim("Boolean"))))))
				chain += "user>"
			}
			prim = false
		}
		top := newType(dg.Obj(&dg.Field{Name: "x", A: cur}))
		d.Features = append(d.Features, "chain:"+chain)
		s.Methods = append(s.Methods, holderMethod(fmt.Sprintf("r%d", i), top))
	}
	d.Services = []*dg.Service{s}
	return d
}

// genFull draws a conforming value in which EVERY attribute is set (at every depth, up
// to a bound for recursive types), arrays and maps hold at least one entry.
func genFull(d *dg.Design, rng *vh.RNG, a *dg.Attr, depth int) *dg.Val {
	return genFullSeen(d, rng, a, depth, map[string]int{})
}

func genFullSeen(d *dg.Design, rng *vh.RNG, a *dg.Attr, depth int, seen map[string]int) *dg.Val {
	bt, _ := d.Effective(a)
	if a.T.Kind == "user" && bt.Kind == "object" {
		if seen[a.T.Ref] >= 2 {
			return nil // third occurrence of a recursive type on this path: leave unset
		}
		seen[a.T.Ref]++
		defer func() { seen[a.T.Ref]-- }()
	}
	switch bt.Kind {
	case "object", "user":
		out := &dg.Val{K: "object", Names: []string{}, Elems: []*dg.Val{}}
		for _, f := range d.AllFields(&a.T) {
			fbt, _ := d.Effective(&f.A)
			if depth >= 12 && !f.Required && fbt.Kind != "prim" {
				continue
			}
			fv := genFullSeen(d, rng, &f.A, depth+1, seen)
			if fv == nil || (f.A.HasDef && isZero(fv)) {
				continue
			}
			out.Names = append(out.Names, f.Name)
			out.Elems = append(out.Elems, fv)
		}
		return out
	case "array":
		out := &dg.Val{K: "array", Elems: []*dg.Val{}}
		_, val := d.Effective(a)
		n := 1
		if val.MinLen != nil && *val.MinLen > n {
			n = *val.MinLen
		}
		if depth >= 12 {
			n = 0
			if val.MinLen != nil {
				n = *val.MinLen
			}
		}
		for i := 0; i < n; i++ {
			if e := genFullSeen(d, rng, bt.Elem, depth+1, seen); e != nil {
				out.Elems = append(out.Elems, e)
			}
		}
		return out
	case "map":
		if depth >= 12 {
			return d.GenVal(rng, a, dg.ValOpts{Depth: 3, SafeString: true, NoEmpty: true})
		}
		k := d.GenVal(rng, bt.Key, dg.ValOpts{SafeString: true, NoEmpty: true})
		ev := genFullSeen(d, rng, bt.Elem, depth+1, seen)
		if ev == nil {
			return &dg.Val{K: "map", Keys: []*dg.Val{}, Elems: []*dg.Val{}}
		}
		out := &dg.Val{K: "map", Keys: []*dg.Val{k}, Elems: []*dg.Val{ev}}
		_, val := d.Effective(a)
		if val.MinLen != nil && *val.MinLen > 1 {
			return d.GenVal(rng, a, dg.ValOpts{Depth: depth, SafeString: true, NoEmpty: true, AllFields: true})
		}
		return out
	}
	return d.GenVal(rng, a, dg.ValOpts{Depth: depth, SafeString: true, NoEmpty: true, AllFields: true})
}

func hasFeature(d *dg.Design, f string) bool {
	for _, x := range d.Features {
		if x == f {
			return true
		}
	}
	return false
}
