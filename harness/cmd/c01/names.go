package main

// Part 1 of the C01 harness: codegen.Goify / CamelCase / NameScope called directly on
// generated strings and call sequences. What they returned is written as Coq terms
// (compared byte for byte with the Names model inside Coq) and the identifier laws are
// evaluated directly on the results with go/token, go/doc and unicode.

import (
	"fmt"
	"go/doc"
	"go/token"
	"go/types"
	"os"
	"path/filepath"
	"sort"
	"strings"
	"unicode"
	"unicode/utf8"

	"goa.design/goa/v3/codegen"

	"verifharness/vh"
)

// special runes next to ASCII: cased letters, letters without case, title case, letters
// whose case mapping leaves ASCII or changes class, non-ASCII digits, lower-case non-letters.
var specialRunes = []rune{0xE9, 0xC9, 0xDF, 0x1E9E, 0x65E5, 0x672C, 0x1C5, 0x1C4, 0x1C6, 0x131, 0x130, 0x212A, 0x17F,
	0x663, 0xB2, 0x2170, 0x2160, 0x24D0, 0x24B6, 0xAA, 0xFFFD, 0x345, 0x3A3, 0x3C3, 0x3C2, 0x3D2, 0x1D400, 0xD55C,
	0x1F600, 0xA0, 0x2126, 0x3C9, 0x212B, 0xE5, 0xC5, 0x2B0, 0x1D7D8, 0xFF21, 0xFF41, 0xFF11}

type alphabet struct {
	set   map[rune]bool
	runes []rune
}

func newAlphabet() *alphabet {
	a := &alphabet{set: map[rune]bool{}}
	for r := rune(0); r < 128; r++ {
		a.add(r)
	}
	for _, r := range specialRunes {
		a.add(r)
	}
	return a
}

// add puts r and everything reachable by ToUpper/ToLower into the alphabet.
func (a *alphabet) add(r rune) {
	if a.set[r] {
		return
	}
	a.set[r] = true
	a.runes = append(a.runes, r)
	a.add(unicode.ToUpper(r))
	a.add(unicode.ToLower(r))
}

func coqRunes(rs []rune) string {
	if len(rs) == 0 {
		return "[]"
	}
	var b strings.Builder
	b.WriteString("[")
	for i, r := range rs {
		if i > 0 {
			b.WriteString(";")
		}
		fmt.Fprintf(&b, "%d", r)
	}
	b.WriteString("]")
	return b.String()
}

func (a *alphabet) coqTable() string {
	rs := append([]rune{}, a.runes...)
	sort.Slice(rs, func(i, j int) bool { return rs[i] < rs[j] })
	var lines []string
	for _, r := range rs {
		lines = append(lines, fmt.Sprintf("(%d, (%s, %s, %s, %s, %d, %d))", r, vh.CoqBool(unicode.IsLetter(r)), vh.CoqBool(unicode.IsDigit(r)),
			vh.CoqBool(unicode.IsLower(r)), vh.CoqBool(unicode.IsUpper(r)), unicode.ToUpper(r), unicode.ToLower(r)))
	}
	return strings.Join(lines, ";\n")
}

// classLaws checks, over every code point, the hypotheses the theorems put on the
// classification (Model.class_laws / case_laws) and the agreement of the concrete
// classification of Model.v (d_*) with unicode on the runes it mentions.
func classLaws() []string {
	var bad []string
	note := func(format string, a ...any) {
		if len(bad) < 20 {
			bad = append(bad, fmt.Sprintf(format, a...))
		}
	}
	for r := rune(0); r <= unicode.MaxRune; r++ {
		if unicode.IsLetter(r) && !unicode.IsLetter(unicode.ToUpper(r)) {
			note("IsLetter(%U) but not IsLetter(ToUpper)", r)
		}
		if unicode.IsLetter(r) && !unicode.IsLetter(unicode.ToLower(r)) {
			note("IsLetter(%U) but not IsLetter(ToLower)", r)
		}
		if unicode.IsDigit(r) && (unicode.ToUpper(r) != r || unicode.ToLower(r) != r) {
			note("IsDigit(%U) but a case mapping moves it", r)
		}
		if unicode.IsUpper(r) && unicode.ToUpper(r) != r {
			note("IsUpper(%U) but ToUpper moves it", r)
		}
		if unicode.IsLower(r) && unicode.ToLower(r) != r {
			note("IsLower(%U) but ToLower moves it", r)
		}
		if unicode.IsLower(r) && !unicode.IsLetter(r) {
			note("IsLower(%U) but not IsLetter", r)
		}
	}
	for r := rune(0); r < 128; r++ {
		asciiLetter := (r >= 'A' && r <= 'Z') || (r >= 'a' && r <= 'z')
		if asciiLetter && !unicode.IsLetter(r) {
			note("ASCII letter %U not IsLetter", r)
		}
	}
	if unicode.IsLetter('_') || unicode.IsDigit('_') {
		note("'_' is classified as letter or digit")
	}
	// Model.d_*: ASCII + U+65E5, U+672C, U+00DF
	dUpper := func(r rune) bool { return r >= 'A' && r <= 'Z' }
	aLower := func(r rune) bool { return r >= 'a' && r <= 'z' }
	for _, r := range append([]rune{0x65E5, 0x672C, 0xDF}, asciiRunes()...) {
		dl := aLower(r) || r == 0xDF
		dlet := dUpper(r) || aLower(r) || r == 0x65E5 || r == 0x672C || r == 0xDF
		ddig := r >= '0' && r <= '9'
		dtu, dtl := r, r
		if aLower(r) {
			dtu = r - 32
		}
		if dUpper(r) {
			dtl = r + 32
		}
		if dl != unicode.IsLower(r) || dlet != unicode.IsLetter(r) || ddig != unicode.IsDigit(r) || dUpper(r) != unicode.IsUpper(r) || dtu != unicode.ToUpper(r) || dtl != unicode.ToLower(r) {
			note("Model.d_* classification disagrees with unicode on %U", r)
		}
	}
	return bad
}

func asciiRunes() []rune {
	var rs []rune
	for r := rune(0); r < 128; r++ {
		rs = append(rs, r)
	}
	return rs
}

var specPackages = map[string]bool{"fmt": true, "http": true, "json": true, "os": true, "url": true, "time": true}

func reservedWords() []string {
	set := map[string]bool{}
	for _, n := range types.Universe.Names() {
		set[n] = true
	}
	for t := token.Token(0); t < 512; t++ {
		if t.IsKeyword() {
			set[t.String()] = true
		}
	}
	for p := range specPackages {
		set[p] = true
	}
	return vh.SortedKeys(set)
}

var initialismWords = []string{"API", "ASCII", "CPU", "CSS", "DNS", "EOF", "GUID", "HTML", "HTTP", "HTTPS", "ID", "IP", "JMES", "JSON", "JWT", "LHS", "OK", "QPS", "RAM", "RHS",
	"RPC", "SDK", "SLA", "SMTP", "SQL", "SSH", "TCP", "TLS", "TTL", "UDP", "UI", "UID", "UUID", "URI", "URL", "UTF8", "VM", "XML", "XSRF", "XSS", "OAuth"}
var plainWords = []string{"user", "name", "count", "x", "a", "B", "my", "Attr", "val", "Val", "data2", "2", "7up", "v1", "foo", "Bar", "bAZ", "i", "d", "Ok", "ids", "apis", "xmlHttp", "type", "func", "len", "new", "error", "Error", "string"}
var separators = []string{"_", "_", "-", "", "", " ", "__", ":", ".", "_-_", "/", "___"}

func genString(r *vh.RNG, a *alphabet) string {
	switch r.Intn(10) {
	case 0, 1, 2, 3, 4: // structured: words joined by separators, random casing
		n := 1 + r.Intn(4)
		var sb strings.Builder
		if r.Chance(1, 6) {
			sb.WriteString(vh.Pick(r, separators))
		}
		for i := 0; i < n; i++ {
			var w string
			switch r.Intn(4) {
			case 0:
				w = vh.Pick(r, initialismWords)
			case 1:
				w = vh.Pick(r, reservedList)
			default:
				w = vh.Pick(r, plainWords)
			}
			switch r.Intn(5) {
			case 0:
				w = strings.ToLower(w)
			case 1:
				w = strings.ToUpper(w)
			case 2:
				if len(w) > 0 {
					w = strings.ToUpper(w[:1]) + strings.ToLower(w[1:])
				}
			}
			sb.WriteString(w)
			if i+1 < n || r.Chance(1, 6) {
				sb.WriteString(vh.Pick(r, separators))
			}
		}
		if r.Chance(1, 8) {
			sb.WriteString(":" + vh.Pick(r, []string{"wire", "X-Hdr", "1", ""}))
		}
		return sb.String()
	case 5, 6, 7: // ASCII soup weighted towards the interesting characters
		n := r.Intn(9)
		const pool = "aabcxyzABXYZ0129__--::. /$"
		b := make([]byte, n)
		for i := range b {
			b[i] = pool[r.Intn(len(pool))]
		}
		return string(b)
	case 8: // any rune of the alphabet
		n := r.Intn(7)
		rs := make([]rune, n)
		for i := range rs {
			if r.Chance(1, 2) {
				rs[i] = vh.Pick(r, specialRunes)
			} else {
				rs[i] = a.runes[r.Intn(len(a.runes))]
			}
		}
		return string(rs)
	default: // hostile: raw bytes, invalid UTF-8, truncated sequences
		n := r.Intn(6)
		b := make([]byte, n)
		for i := range b {
			b[i] = vh.Pick(r, []byte{0xff, 0xc3, 0xa9, 0xe6, 0x97, 0xa5, 'a', 'Z', '_', ':', '1', 0x80, 0})
		}
		return string(b)
	}
}

var reservedList = reservedWords()

func fixedStrings() []string {
	out := []string{"", "1abc", "_1", ":1", "x:1", "a:b:c", ":", "::", "_", "__", "a_", "_a", "a__b", "a_-_b", "a-_b", "A-b", "A_b", "aB", "ab", "AB", "aBC", "ABc",
		"日本", "日本語id", "id日本", "ßx", "ǅx", "ıd", "ſql", "\u212a", "a\u2170B", "a\u2170", "\u2170a", "٣abc", "a٣B", "é", "Éa", "éA", "e\u0301", "\xff", "a\xffb", "\xe6\x97", "a:\xe6",
		"user_id", "userId", "UserID", "user_ID", "userid", "HTTPServer", "httpServer", "http_server", "oauth_token", "OAuthToken", "utf8", "UTF8String", "utf8_string", "api", "apis", "APIs",
		"my-attr.name:wire", "--", "-a-", "x-1", "a1", "a1b", "a1B", "1", "12", "1_2", "a_1", "A1_b2", "xMLHttp", "json_rpc_id", "ID", "iD", "Id", "id", "ids", "IDs"}
	for _, w := range reservedList {
		out = append(out, w, strings.ToUpper(w[:1])+w[1:], w+"_", "_"+w, w+":x", strings.ToUpper(w))
	}
	for _, w := range initialismWords {
		lw := strings.ToLower(w)
		out = append(out, w, lw, strings.ToUpper(lw[:1])+lw[1:], "x_"+lw, lw+"_x", "x"+w, lw+"s", "my_"+lw+"_val", "My"+w+"Val")
	}
	return out
}

func firstValidRune(s string) (rune, bool) {
	if i := strings.Index(s, ":"); i > 0 {
		s = s[:i]
	}
	for _, r := range s {
		if unicode.IsLetter(r) || unicode.IsDigit(r) {
			return r, true
		}
	}
	return 0, false
}

var sigSeen = map[string]int{}

// failCapped records at most 3 failing inputs per signature (the rest is counted).
func failCapped(res *vh.Result, sig, what string, input any) {
	sigSeen[sig]++
	res.Count("oracle_failures[" + sig + "]")
	if sigSeen[sig] <= 3 {
		res.Fail(sig, what, input)
	}
}

// goifyOracle evaluates the identifier laws on one observed result and returns the
// classification of the input ("letter-led", "digit-led", "no-valid-rune", ...).
func goifyOracle(in string, fu bool, out string, res *vh.Result) string {
	input := map[string]any{"call": "Goify", "input_bytes": []byte(in), "input": in, "first_upper": fu, "result": out}
	if doc.IsPredeclared(out) || token.IsKeyword(out) || specPackages[out] {
		failCapped(res, "goify-returns-reserved-word", fmt.Sprintf("Goify(%q, %v) = %q is a Go keyword, a predeclared identifier or a package name generated code uses", in, fu, out), input)
	}
	if (out == "") != (in == "") {
		failCapped(res, "goify-empty-result", fmt.Sprintf("Goify(%q, %v) = %q", in, fu, out), input)
	}
	if in == "" {
		return "empty"
	}
	r0, ok := firstValidRune(in)
	class := "no-valid-rune"
	switch {
	case ok && unicode.IsDigit(r0):
		class = "digit-led"
	case ok:
		class = "letter-led"
	}
	if !token.IsIdentifier(out) {
		if class == "digit-led" {
			failCapped(res, "goify-digit-first", fmt.Sprintf("Goify(%q, %v) = %q is not a Go identifier", in, fu, out), input)
		} else {
			failCapped(res, "goify-invalid-identifier", fmt.Sprintf("Goify(%q, %v) = %q is not a Go identifier although the first letter-or-digit rune is a letter", in, fu, out), input)
		}
	}
	if fu && ok && class == "letter-led" && !token.IsExported(out) {
		cased := unicode.IsUpper(r0) || (unicode.IsLower(r0) && unicode.IsUpper(unicode.ToUpper(r0)))
		if cased {
			failCapped(res, "goify-not-exported", fmt.Sprintf("Goify(%q, true) = %q is not exported although the first letter is cased", in, out), input)
		} else {
			failCapped(res, "goify-uncased-first-letter-unexported", fmt.Sprintf("Goify(%q, true) = %q is not exported", in, out), input)
			class = "uncased-letter-led"
		}
	}
	return class
}

type hkey string

func (k hkey) Hash() string { return string(k) }

type scopeOp struct {
	Kind   string  `json:"kind"` // unique | hashed | name
	Key    string  `json:"key,omitempty"`
	Name   string  `json:"name"`
	Suffix *string `json:"suffix,omitempty"`
}

func runScope(ops []scopeOp) []string {
	s := codegen.NewNameScope()
	var out []string
	for _, o := range ops {
		var sf []string
		if o.Suffix != nil {
			sf = []string{*o.Suffix}
		}
		switch o.Kind {
		case "unique":
			out = append(out, s.Unique(o.Name, sf...))
		case "hashed":
			out = append(out, s.HashedUnique(hkey(o.Key), o.Name, sf...))
		default:
			out = append(out, s.Name(o.Name))
		}
	}
	return out
}

func coqOp(o scopeOp) string {
	sf := "None"
	if o.Suffix != nil {
		sf = "(Some " + vh.CoqBytes(*o.Suffix) + ")"
	}
	switch o.Kind {
	case "unique":
		return fmt.Sprintf("OUnique %s %s", vh.CoqBytes(o.Name), sf)
	case "hashed":
		return fmt.Sprintf("OHashed %s %s %s", vh.CoqBytes(o.Key), vh.CoqBytes(o.Name), sf)
	}
	return fmt.Sprintf("OName %s", vh.CoqBytes(o.Name))
}

var scopeNames = []string{"A", "A", "B", "A2", "A3", "ARes", "ARes2", "Foo", "foo", "foo2", "Res", "A22", "", "2", "日"}
var scopeSuffixes = []string{"", "", "Res", "2", "Res2", "_"}

func genScopeOps(r *vh.RNG, withName bool) []scopeOp {
	n := 1 + r.Intn(24)
	ops := make([]scopeOp, n)
	for i := range ops {
		o := scopeOp{Name: vh.Pick(r, scopeNames)}
		if r.Chance(2, 3) {
			sf := vh.Pick(r, scopeSuffixes)
			o.Suffix = &sf
		}
		switch k := r.Intn(10); {
		case k < 4:
			o.Kind = "unique"
		case k < 9 || !withName:
			o.Kind = "hashed"
			o.Key = fmt.Sprintf("k%d", r.Intn(6))
		default:
			o.Kind = "name"
			o.Suffix = nil
		}
		ops[i] = o
	}
	return ops
}

// scopeOracle: two allocating calls return the same name exactly when they are
// HashedUnique calls with the same key.
func scopeOracle(ops []scopeOp, out []string, res *vh.Result) {
	for j := range ops {
		if ops[j].Kind == "name" {
			continue
		}
		for i := 0; i < j; i++ {
			if ops[i].Kind == "name" {
				continue
			}
			same := ops[i].Kind == "hashed" && ops[j].Kind == "hashed" && ops[i].Key == ops[j].Key
			if (out[i] == out[j]) != same {
				what := fmt.Sprintf("calls %d and %d returned %q and %q", i, j, out[i], out[j])
				if same {
					failCapped(res, "scope-hashed-unique-not-stable", "two HashedUnique calls with one key returned different names: "+what, map[string]any{"call": "NameScope", "ops": ops, "results": out})
				} else {
					failCapped(res, "scope-name-given-twice", "two distinct requests received the same name: "+what, map[string]any{"call": "NameScope", "ops": ops, "results": out})
				}
				return
			}
		}
	}
}

// nameWitness: NameScope.Name hands out a name that is already taken / later given to someone else.
func nameWitness(res *vh.Result) {
	for _, ops := range [][]scopeOp{
		{{Kind: "unique", Name: "foo"}, {Kind: "unique", Name: "foo"}, {Kind: "name", Name: "foo"}},
		{{Kind: "unique", Name: "foo"}, {Kind: "name", Name: "foo"}, {Kind: "unique", Name: "foo"}},
	} {
		out := runScope(ops)
		for i, o := range ops {
			if o.Kind != "name" {
				continue
			}
			for j := range ops {
				if j != i && ops[j].Kind != "name" && out[j] == out[i] {
					failCapped(res, "scope-name-not-reserved", fmt.Sprintf("NameScope.Name(%q) returned %q, the name call %d (Unique) %s", o.Name, out[i], j,
						map[bool]string{true: "had already been given", false: "was given afterwards"}[j < i]), map[string]any{"call": "NameScope", "ops": ops, "results": out})
				}
			}
		}
	}
}

type namesStats struct {
	goify, camel, scope int
	distinct            vh.Distinct
}

// runNames writes classes.txt, cases_goify.txt, cases_camel.txt, cases_scope.txt.
func runNames(r *vh.RNG, tier, out string, res *vh.Result, replay map[string]any) namesStats {
	st := namesStats{distinct: vh.Distinct{}}
	a := newAlphabet()
	nRandom, nScope := 3500, 1000
	if tier == "thorough" {
		nRandom, nScope = 24000, 6000
	}
	var inputs []string
	nFixed := 1 << 30
	var scopeCases [][]scopeOp
	if replay != nil {
		nRandom, nScope = 0, 0
		switch replay["call"] {
		case "Goify":
			if bs, ok := replay["input"].(string); ok {
				inputs = append(inputs, bs)
			}
		case "NameScope":
			// replay of a call sequence
			if raw, ok := replay["ops"].([]any); ok {
				var ops []scopeOp
				for _, x := range raw {
					m := x.(map[string]any)
					o := scopeOp{Kind: fmt.Sprint(m["kind"]), Name: fmt.Sprint(m["name"])}
					if k, ok := m["key"].(string); ok {
						o.Key = k
					}
					if s, ok := m["suffix"].(string); ok {
						o.Suffix = &s
					}
					ops = append(ops, o)
				}
				scopeCases = append(scopeCases, ops)
			}
		}
	} else {
		inputs = fixedStrings()
		nFixed = len(inputs)
		for i := 0; i < nRandom; i++ {
			inputs = append(inputs, genString(r, a))
		}
		for i := 0; i < nScope; i++ {
			scopeCases = append(scopeCases, genScopeOps(r, i%3 == 0))
		}
		nameWitness(res)
	}
	var g, c, s strings.Builder
	gi, ci := 0, 0
	seen := map[string]bool{}
	for idx, in := range inputs {
		if seen[in] {
			res.Count("names_duplicate_input_skipped")
			continue
		}
		seen[in] = true
		rs := []rune(in)
		for _, x := range rs {
			a.add(x)
		}
		for _, fu := range []bool{true, false} {
			o := codegen.Goify(in, fu)
			class := goifyOracle(in, fu, o, res)
			res.Count("goify_input=" + class)
			fmt.Fprintf(&g, "(%d, %s, %s, %s)\n", gi, coqRunes(rs), vh.CoqBool(fu), coqRunes([]rune(o)))
			gi++
			// acronym=true is what Goify passes (covered by the Goify stream): the random
			// part exercises acronym=false, the fixed corpus both
			acrs := []bool{false}
			if idx < nFixed {
				acrs = []bool{true, false}
			}
			for _, acr := range acrs {
				co := codegen.CamelCase(in, fu, acr)
				if !utf8.ValidString(co) {
					failCapped(res, "camelcase-invalid-utf8", fmt.Sprintf("CamelCase(%q) returned invalid UTF-8", in), map[string]any{"call": "CamelCase", "input": in})
				}
				for _, x := range co {
					if !unicode.IsLetter(x) && !unicode.IsDigit(x) {
						failCapped(res, "camelcase-keeps-invalid-rune", fmt.Sprintf("CamelCase(%q, %v, %v) = %q contains %U", in, fu, acr, co, x), map[string]any{"call": "CamelCase", "input": in, "first_upper": fu, "acronym": acr})
						break
					}
				}
				fmt.Fprintf(&c, "(%d, %s, %s, %s, %s)\n", ci, coqRunes(rs), vh.CoqBool(fu), vh.CoqBool(acr), coqRunes([]rune(co)))
				ci++
			}
		}
		if len(rs) > 1 {
			st.distinct.Add("g:" + in)
		}
		if gi%997 < 2 {
			res.Sample(map[string]any{"goify_input": in, "upper": codegen.Goify(in, true), "lower": codegen.Goify(in, false)}, 6)
		}
	}
	for i, ops := range scopeCases {
		o := runScope(ops)
		scopeOracle(ops, o, res)
		var os, rs []string
		for _, x := range ops {
			os = append(os, coqOp(x))
			res.Count("scope_op=" + x.Kind)
		}
		for _, x := range o {
			rs = append(rs, vh.CoqBytes(x))
		}
		fmt.Fprintf(&s, "(%d, %s, %s)\n", i, vh.CoqList(os), vh.CoqList(rs))
		if len(ops) > 2 {
			st.distinct.Add("s:" + fmt.Sprint(ops))
		}
		if i%499 == 3 {
			res.Sample(map[string]any{"scope_ops": ops, "results": o}, 8)
		}
	}
	st.goify, st.camel, st.scope = gi, ci, len(scopeCases)
	must(os.WriteFile(filepath.Join(out, "classes.txt"), []byte(a.coqTable()), 0o644))
	must(os.WriteFile(filepath.Join(out, "cases_goify.txt"), []byte(g.String()), 0o644))
	must(os.WriteFile(filepath.Join(out, "cases_camel.txt"), []byte(c.String()), 0o644))
	must(os.WriteFile(filepath.Join(out, "cases_scope.txt"), []byte(s.String()), 0o644))
	res.Extra["alphabet_runes"] = len(a.runes)
	return st
}

func must(err error) {
	if err != nil {
		panic(err)
	}
}
