package main

// Classification of a failing design. A recorded finding is recognised only when the
// design HAS the finding's distinguishing feature (computed here from the design
// description alone) AND the failure has the finding's shape (stage, diagnostic classes,
// files, marker text). Everything else gets an "unlisted:" signature and is a VIOLATION.

import (
	"encoding/json"
	"fmt"
	"regexp"
	"sort"
	"strings"
	"unicode"

	"goa.design/goa/v3/codegen"

	dg "verifharness/designgen"
)

type featureSet map[string]bool

func firstValid(name string) (rune, bool) {
	if i := strings.Index(name, ":"); i > 0 {
		name = name[:i]
	}
	for _, r := range name {
		if unicode.IsLetter(r) || unicode.IsDigit(r) {
			return r, true
		}
	}
	return 0, false
}

func digitLed(name string) bool {
	r, ok := firstValid(name)
	return ok && unicode.IsDigit(r)
}

// unexportable: the first letter-or-digit rune is a letter that Goify cannot turn into an
// upper-case letter (the negation of the hypothesis of goify_exported_partial)
func unexportable(name string) bool {
	r, ok := firstValid(name)
	if !ok || unicode.IsDigit(r) {
		return false
	}
	return !(unicode.IsUpper(r) || (unicode.IsLower(r) && unicode.IsUpper(unicode.ToUpper(r))))
}

type walker struct {
	d     *dg.Design
	f     featureSet
	types map[string]*dg.UserType
}

func (w *walker) aliasOf(t *dg.Type) *dg.UserType {
	if t.Kind != "user" {
		return nil
	}
	ut := w.types[t.Ref]
	if ut != nil && !ut.Result && ut.Base.Kind != "object" {
		return ut
	}
	return nil
}

func (w *walker) isAliasParam(t *dg.Type) bool {
	switch t.Kind {
	case "user":
		return w.aliasOf(t) != nil
	case "array":
		return t.Elem != nil && w.isAliasParam(&t.Elem.T)
	case "map":
		return (t.Elem != nil && w.isAliasParam(&t.Elem.T)) || (t.Key != nil && w.isAliasParam(&t.Key.T))
	}
	return false
}

func (w *walker) name(n string) {
	if digitLed(n) {
		w.f["digit-led-name"] = true
	}
	if unexportable(n) {
		w.f["unexportable-name"] = true
	}
}

// attr walks a type; depth is the number of enclosing object levels inside a payload/result/type
func (w *walker) attr(a *dg.Attr, objDepth int, inCollection bool) {
	t := &a.T
	if a.HasDef {
		switch {
		case t.Kind == "prim" && t.Prim == "String":
			if s, ok := a.Default.(string); ok && strings.ContainsAny(s, "\"\\\n") {
				w.f["default-string-needs-escaping"] = true
			}
		case t.Kind == "prim" && t.Prim == "Bytes":
			w.f["bytes-default"] = true
		case t.Kind == "array" || t.Kind == "map":
			w.f["collection-default"] = true
		}
	}
	if v := a.V; v != nil && t.Kind == "prim" {
		lo, hi := v.Min, v.Max
		if v.ExclMin != nil {
			lo = v.ExclMin
		}
		if v.ExclMax != nil {
			hi = v.ExclMax
		}
		integer := strings.HasPrefix(t.Prim, "Int") || strings.HasPrefix(t.Prim, "UInt")
		if integer && lo != nil && hi != nil && *hi-*lo > 0 && *hi-*lo < 1 {
			w.f["int-bounds-less-than-one-apart"] = true
		}
		if t.Prim == "Int32" || t.Prim == "UInt32" {
			for _, b := range []*float64{v.Min, v.Max, v.ExclMin, v.ExclMax} {
				if b != nil && (*b > 4294967295 || *b < -2147483648 || (t.Prim == "Int32" && *b > 2147483647)) {
					w.f["bound-outside-32-bit-range"] = true
				}
			}
		}
	}
	if v := a.V; v != nil && t.Kind == "array" && v.MaxLen != nil && *v.MaxLen < 2 && v.MinLen == nil {
		w.f["array-maxlength-below-two"] = true
	}
	if a.V != nil && len(a.V.Enum) > 0 && (t.Kind == "array" || t.Kind == "map" || (t.Kind == "prim" && t.Prim == "Bytes")) {
		w.f["enum-on-collection-or-bytes"] = true
	}
	switch t.Kind {
	case "object":
		if objDepth >= 1 || inCollection {
			w.f["nested-inline-object"] = true
		}
		seen := map[string]string{}
		for _, f := range t.Attrs {
			w.name(f.Name)
			if objDepth == 0 && identsKnown[identKey(codegen.Goify(f.Name, false), "body")] {
				w.f["name-collides-with-generated-identifier"] = true
			}
			g := codegen.Goify(strings.SplitN(f.Name, ":", 2)[0], true)
			if prev, ok := seen[g]; ok && prev != f.Name {
				w.f["goify-collision-attributes"] = true
			}
			seen[g] = f.Name
			w.attr(&f.A, objDepth+1, false)
		}
	case "array":
		if t.Elem != nil {
			e := t.Elem
			w.attr(e, objDepth, true)
		}
	case "map":
		if t.Key != nil {
			k := &t.Key.T
			if k.Kind != "prim" && w.aliasOf(k) == nil {
				w.f["map-key-not-primitive"] = true
			}
			if k.Kind == "prim" && (k.Prim == "Boolean" || strings.HasPrefix(k.Prim, "Float")) {
				w.f["map-bool-or-float-key"] = true
			}
			w.attr(t.Key, objDepth, true)
		}
		if t.Elem != nil {
			w.attr(t.Elem, objDepth, true)
		}
	}
}

func fieldByName(t *dg.Type, n string) *dg.Field {
	for _, f := range t.Attrs {
		if f.Name == n {
			return f
		}
	}
	return nil
}

// resolveObject returns the object type behind an attribute (inline or user type), nil otherwise.
func (w *walker) resolveObject(a *dg.Attr) *dg.Type {
	if a == nil {
		return nil
	}
	if a.T.Kind == "object" {
		return &a.T
	}
	if a.T.Kind == "user" {
		if ut := w.types[a.T.Ref]; ut != nil && ut.Base.Kind == "object" {
			return &ut.Base
		}
	}
	return nil
}

func (w *walker) param(obj *dg.Type, prim *dg.Attr, e dg.MapEntry, loc string) {
	var t *dg.Type
	if obj != nil {
		if f := fieldByName(obj, e.Attr); f != nil {
			t = &f.A.T
			if f.A.Sec != nil && (f.A.Sec.Fn == "Username" || f.A.Sec.Fn == "Password") {
				w.f["basic-auth-credential-mapped"] = true
			}
		}
	} else if prim != nil {
		t = &prim.T
	}
	if t == nil {
		return
	}
	// the identifier stream's table: does this (name, location, type) break generated code today?
	{
		sfx := "_i"
		if t.Kind == "prim" && t.Prim == "String" {
			sfx = "_s"
		}
		kind := ""
		switch {
		case obj != nil && loc == "resp_header":
			kind = "resphdr" + sfx
		case obj != nil && loc == "cookie":
			kind = "cookie_s"
		case obj != nil && (loc == "path" || loc == "query" || loc == "header"):
			kind = loc + sfx
		case obj == nil && loc == "query":
			kind = "primq" + sfx
		case obj == nil && loc == "path":
			kind = "primpath_s"
		}
		if kind != "" && identsKnown[identKey(codegen.Goify(e.Attr, false), kind)] {
			w.f["param-name-shadows-generated-identifier"] = true
		}
	}
	if loc == "resp_header" {
		loc = "header"
	}
	respCookie := loc == "resp_cookie"
	if respCookie {
		loc = "cookie"
	}

	if w.isAliasParam(t) {
		w.f["alias-in-param"] = true
	}
	// request cookies of any primitive type compile since the client encoder converts them from the
	// payload field; a RESPONSE cookie that is not a String still does not
	if respCookie && t.Kind == "prim" && t.Prim != "String" {
		w.f["non-string-response-cookie"] = true
	}
	if t.Kind == "map" && (loc == "header" || loc == "cookie") {
		w.f["map-in-header-or-cookie"] = true
	}
	if t.Kind == "map" && loc == "query" && t.Elem != nil && !simpleParamElem(&t.Elem.T) {
		w.f["map-param-nonprimitive-element"] = true
	}
}

// simpleParamElem: a primitive other than Any/Bytes, or an array of those
func simpleParamElem(t *dg.Type) bool {
	switch t.Kind {
	case "prim":
		return t.Prim != "Any" && t.Prim != "Bytes"
	case "array":
		return t.Elem != nil && t.Elem.T.Kind == "prim" && t.Elem.T.Prim != "Any" && t.Elem.T.Prim != "Bytes"
	}
	return false
}

// stringMap: MapOf(String, String) or MapOf(String, ArrayOf(String)), what MapParams can carry
func stringMap(t *dg.Type) bool {
	if t.Kind != "map" || t.Key == nil || t.Elem == nil || t.Key.T.Kind != "prim" || t.Key.T.Prim != "String" {
		return false
	}
	e := &t.Elem.T
	return (e.Kind == "prim" && e.Prim == "String") || (e.Kind == "array" && e.Elem != nil && e.Elem.T.Kind == "prim" && e.Elem.T.Prim == "String")
}

func designFeatures(d *dg.Design) featureSet {
	w := &walker{d: d, f: featureSet{}, types: map[string]*dg.UserType{}}
	for _, ut := range d.Types {
		w.types[ut.Name] = ut
	}
	for _, ut := range d.Types {
		if identsKnown[identKey(ut.Name, "type")] {
			w.f["name-collides-with-generated-identifier"] = true
		}
		w.name(ut.Name)
		a := dg.Attr{T: ut.Base}
		w.attr(&a, 0, false)
		if al := w.aliasOf(&ut.Base); al != nil && ut.Base.Kind == "user" {
			w.f["alias-of-alias"] = true
		}
		if ut.Result && ut.Base.Kind == "object" {
			for _, f := range ut.Base.Attrs {
				if (f.A.T.Kind == "user" || f.A.T.Kind == "collection") && f.A.T.Ref == ut.Name {
					w.f["recursive-result-type"] = true
				}
			}
		}
	}
	schemeKind := map[string]string{}
	for _, sc := range d.Schemes {
		schemeKind[sc.Name] = sc.Kind
	}
	apiErrStatus := map[string]int{}
	for _, e := range d.HTTPErrs {
		apiErrStatus[e.Name] = e.R.Status
	}
	for _, s := range d.Services {
		w.name(s.Name)
		if identsKnown[identKey(s.Name, "service")] {
			w.f["name-collides-with-generated-identifier"] = true
		}
		for _, m := range s.Methods {
			if identsKnown[identKey(m.Name, "method")] {
				w.f["name-collides-with-generated-identifier"] = true
			}
			for _, e := range m.Errors {
				if identsKnown[identKey(e.Name, "error")] {
					w.f["name-collides-with-generated-identifier"] = true
				}
			}
		}
		seen := map[string]string{}
		kindUsers := map[string]map[string]bool{} // scheme kind -> scheme names used by the service
		errTypes := map[string]string{}
		for _, m := range s.Methods {
			for _, e := range m.Errors {
				tj := "ErrorResult"
				if e.T != nil {
					tj = fmt.Sprintf("%+v", *e.T)
					if b, err := json.Marshal(e.T); err == nil {
						tj = string(b)
					}
				}
				if prev, ok := errTypes[e.Name]; ok && prev != tj {
					w.f["error-name-reused-with-different-type"] = true
				}
				errTypes[e.Name] = tj
			}
			isUserColl := func(a *dg.Attr) bool {
				if a == nil || (a.T.Kind != "array" && a.T.Kind != "map") || a.T.Elem == nil {
					return false
				}
				return a.T.Elem.T.Kind == "user" && w.aliasOf(&a.T.Elem.T) == nil
			}
			body := m.Payload
			if m.HTTP != nil && m.HTTP.Body != nil && m.HTTP.Body.Attr != "" {
				if po := w.resolveObject(m.Payload); po != nil {
					if f := fieldByName(po, m.HTTP.Body.Attr); f != nil {
						body = &f.A
					}
				}
			}
			if len(s.Methods) > 1 && (isUserColl(body) || isUserColl(m.StreamingPayload)) {
				w.f["collection-of-user-type-body-in-multi-method-service"] = true
			}
		}
		for _, m := range s.Methods {
			reqs := m.Security
			if len(reqs) == 0 && !m.NoSecurity {
				reqs = s.Security
				if len(reqs) == 0 {
					reqs = d.Security
				}
			}
			for _, rq := range reqs {
				for _, n := range rq.Schemes {
					k := schemeKind[n]
					if kindUsers[k] == nil {
						kindUsers[k] = map[string]bool{}
					}
					kindUsers[k][n] = true
					if len(kindUsers[k]) > 1 {
						w.f["two-schemes-same-kind"] = true
					}
				}
			}
			w.name(m.Name)
			g := codegen.Goify(m.Name, true)
			if prev, ok := seen[g]; ok && prev != m.Name {
				w.f["goify-collision-methods"] = true
			}
			seen[g] = m.Name
			if strings.HasPrefix(g, "New") {
				w.f["method-name-new-prefix"] = true
			}
			for _, a := range []*dg.Attr{m.Payload, m.Result, m.StreamingPayload, m.StreamingResult} {
				if a != nil {
					w.attr(a, 0, false)
				}
			}
			for _, e := range m.Errors {
				if e.T != nil {
					a := dg.Attr{T: *e.T}
					w.attr(&a, 0, false)
				}
			}
			if sp := m.StreamingPayload; sp != nil {
				if w.isAliasParam(&sp.T) {
					w.f["alias-streaming-payload"] = true
				}
				if sp.T.Kind == "collection" {
					w.f["result-collection-in-request"] = true
				}
			}
			h := m.HTTP
			if h == nil {
				continue
			}
			pobj := w.resolveObject(m.Payload)
			var pprim *dg.Attr
			if pobj == nil {
				pprim = m.Payload
			}
			for _, e := range h.Params {
				w.param(pobj, pprim, e, "query")
			}
			for _, e := range h.Headers {
				w.param(pobj, pprim, e, "header")
				if pprim != nil {
					w.f["primitive-payload-in-header"] = true
				}
			}
			for _, e := range h.Cookies {
				w.param(pobj, pprim, e, "cookie")
				if pprim != nil {
					w.f["primitive-payload-in-header"] = true
				}
			}
			if m.ResultView != "" && m.Result != nil {
				if ut := w.types[m.Result.T.Ref]; ut != nil {
					for _, v := range ut.Views {
						if v.Name != m.ResultView {
							continue
						}
						for _, va := range v.Attrs {
							if f := fieldByName(&ut.Base, va.Name); f != nil && va.View != "" && f.A.T.Kind == "collection" {
								w.f["fixed-view-nested-collection-view"] = true
							}
						}
					}
				}
			}
			for _, r := range h.Routes {
				for _, seg := range regexp.MustCompile(`\{\*?([^}]+)\}`).FindAllStringSubmatch(r.Path, -1) {
					w.param(pobj, pprim, dg.MapEntry{Attr: seg[1]}, "path")
				}
			}
			if h.Multipart {
				w.f["multipart-request"] = true
			}
			if h.MapParams != "" {
				var mt *dg.Type
				if h.MapParams == "*" {
					if m.Payload != nil {
						mt = &m.Payload.T
					}
				} else if pobj != nil {
					if f := fieldByName(pobj, h.MapParams); f != nil {
						mt = &f.A.T
					}
				}
				if mt != nil && !stringMap(mt) {
					w.f["map-params-unsupported-type"] = true
				}
			}
			if m.Payload != nil && m.Payload.T.Kind == "collection" {
				w.f["result-collection-in-request"] = true
			}
			if h.Body != nil && h.Body.Attr != "" && pobj != nil {
				if f := fieldByName(pobj, h.Body.Attr); f != nil {
					if f.A.T.Kind == "collection" {
						w.f["result-collection-in-request"] = true
					}
					if f.A.T.Kind == "prim" && f.A.T.Prim == "Bytes" {
						w.f["bytes-body-attribute"] = true
					}
				}
			}
			for _, er := range h.Errors {
				for _, ed := range m.Errors {
					if ed.Name == er.Name && ed.T != nil && ed.T.Kind == "object" {
						for _, e := range er.R.Headers {
							w.param(ed.T, nil, e, "header")
						}
					}
				}
			}
			robj := w.resolveObject(m.Result)
			okStatus := map[int]bool{}
			for _, r := range h.Responses {
				okStatus[r.Status] = true
				if len(r.Tag) == 2 && (robj == nil || fieldByName(robj, r.Tag[0]) == nil) {
					w.f["tag-missing-attribute"] = true
				}
				for _, e := range r.Headers {
					w.param(robj, m.Result, e, "resp_header")
				}
				for _, e := range r.Cookies {
					w.param(robj, m.Result, e, "resp_cookie")
				}
			}
			if len(h.Responses) == 0 {
				okStatus[200] = true
			}
			for _, e := range h.Errors {
				if okStatus[e.R.Status] {
					w.f["duplicate-status-code"] = true
				}
			}
		}
	}
	return w.f
}

// rule describes the shape a recorded finding's failure has.
type rule struct {
	sig     string
	feature string
	stages  []string
	classes []string // allowed diagnostic classes (prefix match), build-error only
	marker  string   // regexp that must match the message or one diagnostic
}

var rules = []rule{
	{"map-key-not-comparable", "map-key-not-primitive", []string{"build-error"}, nil, `invalid map key type`},
	{"int-bounds-less-than-one-apart", "int-bounds-less-than-one-apart", []string{"gen-panic"}, nil, `integer divide by zero @ expr\.byMinMax`},
	{"array-maxlength-below-two", "array-maxlength-below-two", []string{"gen-panic"}, nil, `makeslice: len out of range @ expr\.byLength`},
	{"bound-outside-32-bit-range", "bound-outside-32-bit-range", []string{"build-error"}, nil, `truncated to u?int32|overflows u?int32`},
	{"map-bool-or-float-key", "map-bool-or-float-key", []string{"gen-error"}, nil, `json: unsupported type: map\[(bool|float)`},
	{"digit-led-name", "digit-led-name", []string{"gen-error"}, nil, `\.go:\d+:\d+: expected `},
	{"default-string-needs-escaping", "default-string-needs-escaping", []string{"gen-error"}, nil, `cli\.go:\d+:\d+: (missing ',' in argument list|string literal not terminated|unknown escape)`},
	{"unexportable-name", "unexportable-name", []string{"build-error"}, []string{"other:", "type-mismatch", "undefined"}, `unexported|not exported by package`},
	{"non-string-response-cookie", "non-string-response-cookie", []string{"build-error"}, []string{"type-mismatch", "unused-variable", "redeclared-short-var", "undefined"}, `declared and not used: \w+raw`},
	{"map-params-unsupported-type", "map-params-unsupported-type", []string{"gen-error"}, nil, `executing "(partial_request_elements|request-encoder)" at <\.(Type\.KeyType\.Type|Loop)>`},
	{"map-in-header-or-cookie", "map-in-header-or-cookie", []string{"build-error", "gen-error"}, nil, `declared and not used: (head|val|vraw)$|undefined: (headStr|rhs|UObj)|expected selector or type assertion`},
	{"map-param-nonprimitive-element", "map-param-nonprimitive-element", []string{"build-error"}, nil, `undefined: [A-Z]\w*$|declared and not used: val\w*Raw`},
	{"enum-on-collection-or-bytes", "enum-on-collection-or-bytes", []string{"build-error"}, []string{"type-mismatch"}, `types\.go: invalid operation: \w+(\.\w+)? == `},
	{"basic-auth-credential-mapped", "basic-auth-credential-mapped", []string{"build-error"}, []string{"redeclared", "type-mismatch"}, `cli\.go: \w+ redeclared in this block`},
	{"result-collection-in-request", "result-collection-in-request", []string{"build-error"}, []string{"type-mismatch"}, `cannot use &body \(value of type \*\w+\) as \w+ value in argument to Validate`},
	{"bytes-body-attribute", "bytes-body-attribute", []string{"build-error"}, []string{"type-mismatch"}, `\*\[\]byte\) as \[\]byte value`},
	{"error-name-reused-with-different-type", "error-name-reused-with-different-type", []string{"build-error"}, []string{"type-mismatch", "undefined", "undefined-field"}, `encode_decode\.go|types\.go`},
	{"collection-of-user-type-body-helper", "collection-of-user-type-body-in-multi-method-service", []string{"build-error"}, []string{"undefined"}, `client/(encode_decode|websocket)\.go: undefined: New\w+`},
	{"alias-streaming-payload", "alias-streaming-payload", []string{"build-error"}, []string{"type-mismatch"}, `variable of type \*?(svc\.)?A\w+\) as (svc\.)?A\w+ value`},
	{"alias-in-param", "alias-in-param", []string{"build-error", "gen-error"}, nil, `svc\.A\w+|as svc\.\w+ value|variable of type any|to type svc\.\w+|expected selector or type assertion|declared and not used: \w+raw|cli\.go: cannot use &\w+ \(value of type \*\w+\) as \w+ value`},
	{"nested-inline-object", "nested-inline-object", []string{"build-error"}, []string{"type-mismatch", "undefined"}, `struct\s*\{|StructX|undefined: (un)?marshal|undefined: [A-Z]`},
	{"primitive-payload-in-header", "primitive-payload-in-header", []string{"build-error"}, []string{"unused-variable", "undefined"}, `client/encode_decode\.go: declared and not used: p$`},
	{"two-schemes-same-kind", "two-schemes-same-kind", []string{"build-error"}, []string{"redeclared", "type-mismatch", "undefined"}, `auth\w+Fn redeclared|duplicate method \w+Auth`},
	{"fixed-view-collection-element-validator", "fixed-view-nested-collection-view", []string{"build-error"}, []string{"undefined"}, `client/types\.go: undefined: Validate\w+ResponseBody`},
	{"duplicate-status-code", "duplicate-status-code", []string{"build-error"}, []string{"duplicate-case"}, `duplicate case http\.Status`},
	{"goify-collision-methods", "goify-collision-methods", []string{"build-error"}, []string{"arity-mismatch", "redeclared", "duplicate-case", "type-mismatch", "other:field and method with the same name", "undefined"}, `redeclared|same name|duplicate`},
	{"goify-collision-attributes", "goify-collision-attributes", []string{"build-error"}, []string{"redeclared", "type-mismatch", "undefined"}, `redeclared|duplicate field`},
	{"bytes-default", "bytes-default", []string{"build-error"}, []string{"type-mismatch"}, `slice can only be compared to nil`},
	{"collection-default", "collection-default", []string{"build-error"}, []string{"type-mismatch"}, `\[\]interface\{\}|map\[(interface|string)\]interface`},
	{"alias-of-alias", "alias-of-alias", []string{"build-error"}, []string{"type-mismatch"}, `RequestBody and untyped nil|cannot indirect`},
	{"recursive-result-type", "recursive-result-type", []string{"build-error"}, []string{"redeclared", "undefined"}, `redeclared in this block|undefined: Validate`},
	{"method-name-new-prefix", "method-name-new-prefix", []string{"build-error"}, []string{"redeclared", "type-mismatch"}, `New\w+ redeclared`},
	{"multipart-example-import", "multipart-request", []string{"build-error"}, []string{"undefined"}, `^multipart\.go: undefined: `},
	{"name-collides-with-generated-identifier", "name-collides-with-generated-identifier", []string{"build-error", "gen-error"}, nil, `\.go`},
	{"param-name-shadows-generated-identifier", "param-name-shadows-generated-identifier", []string{"build-error"},
		[]string{"redeclared", "type-mismatch", "undefined-field", "redeclared-short-var", "unused-variable", "undefined", "arity-mismatch", "other:"}, `encode_decode\.go|types\.go|paths\.go|client\.go|cli\.go`},
}

func contains(xs []string, x string) bool {
	for _, y := range xs {
		if y == x {
			return true
		}
	}
	return false
}

func allowedClass(allowed []string, c string) bool {
	for _, a := range allowed {
		if c == a || (strings.HasSuffix(a, ":") && strings.HasPrefix(c, a)) || (strings.HasPrefix(a, "other:") && strings.HasPrefix(c, a)) {
			return true
		}
	}
	return false
}

var rePath = regexp.MustCompile(`^(\S+?\.go):`)

// classify returns the signature of a failure.
func classify(d *dg.Design, v Verdict) string {
	feats := designFeatures(d)
	classes := errClasses(v)
	for _, r := range rules {
		if !feats[r.feature] || !contains(r.stages, v.Stage) {
			continue
		}
		ok := true
		for _, c := range classes {
			if r.classes != nil && !allowedClass(r.classes, c) {
				ok = false
			}
		}
		if !ok {
			continue
		}
		re := regexp.MustCompile(r.marker)
		hit := re.MatchString(v.Msg)
		for _, e := range v.Errs {
			if re.MatchString(e) {
				hit = true
			}
		}
		if hit {
			return r.sig
		}
	}
	// unlisted: stage + diagnostic classes + kinds of files
	files := map[string]bool{}
	for _, e := range v.Errs {
		if m := rePath.FindStringSubmatch(e); m != nil {
			p := m[1]
			p = regexp.MustCompile(`gen/http/[^/]+/`).ReplaceAllString(p, "gen/http/SVC/")
			p = regexp.MustCompile(`gen/http/cli/[^/]+/`).ReplaceAllString(p, "gen/http/cli/API/")
			p = regexp.MustCompile(`^gen/[^/]+/(\w+\.go)$`).ReplaceAllString(p, "gen/SVC/$1")
			p = regexp.MustCompile(`^cmd/[^/]+/`).ReplaceAllString(p, "cmd/API/")
			files[p] = true
		}
	}
	var fl []string
	for f := range files {
		fl = append(fl, f)
	}
	sort.Strings(fl)
	if len(fl) > 3 {
		fl = fl[:3]
	}
	msg := ""
	if v.Stage != "build-error" {
		msg = ":" + normalizeMsg(v.Msg)
	}
	return fmt.Sprintf("unlisted:%s:%s@%s%s", v.Stage, strings.Join(classes, "+"), strings.Join(fl, ","), msg)
}

func normalizeMsg(m string) string {
	m = firstLines(m, 1)
	m = regexp.MustCompile(`/\S+/(d\d+)/`).ReplaceAllString(m, "")
	m = reNumber.ReplaceAllString(m, "N")
	if len(m) > 100 {
		m = m[:100]
	}
	return m
}

// envelopeViolations lists the finding features a main-stream design carries (must be none).
func envelopeViolations(d *dg.Design) []string {
	var out []string
	for f := range designFeatures(d) {
		out = append(out, f)
	}
	sort.Strings(out)
	return out
}
