// Command c01 drives the C01 check ("every accepted design generates code that compiles").
//
// Part 1 (names.go): codegen.Goify / CamelCase / NameScope on generated strings and call
// sequences; results go to Coq (cases_*.txt, classes.txt) and through the direct oracle.
//
// Part 2 (build.go, covering.go, witness.go, features.go): designs are evaluated through
// goa's real DSL, generated ("gen" + "example") and type-checked with `go build`. Streams:
// witness (one minimal design per recorded finding, must fail with exactly its signature),
// covering (hand-written feature products, must build), random (designgen.Random inside the
// compile-clean envelope, must build). A design accepted by RunDSL that panics in Generate,
// makes it return an error, or does not build is a failing input.
package main

import (
	"encoding/json"
	"flag"
	"fmt"
	"os"
	"path/filepath"
	"sort"
	"strings"
	"time"

	dg "verifharness/designgen"
	"verifharness/vh"
)

// sanitize keeps a random design inside the envelope of the recorded findings that
// the random stream can still draw: a primitive payload mapped to a header, a typed response cookie.
func sanitize(d *dg.Design) {
	for _, s := range d.Services {
		for _, m := range s.Methods {
			if m.HTTP != nil && m.Result != nil && m.Result.T.Kind == "object" {
				for ri := range m.HTTP.Responses {
					var keep []dg.MapEntry
					for _, e := range m.HTTP.Responses[ri].Cookies {
						if f := fieldByName(&m.Result.T, e.Attr); f != nil && f.A.T.Kind == "prim" && f.A.T.Prim != "String" {
							continue // stays in the response body
						}
						keep = append(keep, e)
					}
					m.HTTP.Responses[ri].Cookies = keep
				}
			}
		}
	}
	for _, s := range d.Services {
		for _, m := range s.Methods {
			if m.HTTP != nil && m.Payload != nil && m.Payload.T.Kind != "object" && m.Payload.T.Kind != "user" && len(m.HTTP.Headers) > 0 {
				// a primitive payload mapped to a header does not compile (recorded finding): use the query string
				m.HTTP.Params = append(m.HTTP.Params, dg.MapEntry{Attr: "pq"})
				m.HTTP.Headers = nil
			}
			if m.HTTP == nil || m.Payload == nil || m.Payload.T.Kind != "object" {
				continue
			}
		}
	}
}

type designRun struct {
	root, repo, stubs string
	n                 int
}

func (r *designRun) one(d *dg.Design) Verdict {
	r.n++
	vs, err := runBatch([]DCase{{Design: d}}, filepath.Join(r.root, fmt.Sprintf("shrink%d", r.n)), r.repo, r.stubs, true)
	if err != nil {
		return Verdict{Stage: "build-error", Msg: err.Error()}
	}
	return vs[0]
}

// shrink removes services, methods and attributes while the signature stays the same.
func shrink(r *designRun, d *dg.Design, sig string, budget int) *dg.Design {
	cur := d.Clone()
	try := func(c *dg.Design) bool {
		if budget <= 0 {
			return false
		}
		budget--
		v := r.one(c)
		if v.Stage == "ok" || v.Stage == "rejected" {
			return false
		}
		return classify(c, v) == sig
	}
	for changed := true; changed && budget > 0; {
		changed = false
		for i := range cur.Services {
			if len(cur.Services) < 2 {
				break
			}
			c := cur.Clone()
			c.Services = append(c.Services[:i:i], c.Services[i+1:]...)
			if try(c) {
				cur, changed = c, true
				break
			}
		}
		if changed {
			continue
		}
	methods:
		for si, s := range cur.Services {
			for mi := range s.Methods {
				if len(s.Methods) < 2 {
					break
				}
				c := cur.Clone()
				ms := c.Services[si].Methods
				c.Services[si].Methods = append(ms[:mi:mi], ms[mi+1:]...)
				if try(c) {
					cur, changed = c, true
					break methods
				}
			}
		}
		if changed {
			continue
		}
	fields:
		for si, s := range cur.Services {
			for mi, m := range s.Methods {
				for which, a := range []*dg.Attr{m.Payload, m.Result} {
					if a == nil || a.T.Kind != "object" || len(a.T.Attrs) < 2 {
						continue
					}
					for fi := range a.T.Attrs {
						c := cur.Clone()
						cm := c.Services[si].Methods[mi]
						ca := cm.Payload
						if which == 1 {
							ca = cm.Result
						}
						name := ca.T.Attrs[fi].Name
						ca.T.Attrs = append(ca.T.Attrs[:fi:fi], ca.T.Attrs[fi+1:]...)
						if cm.HTTP != nil {
							dropEntry := func(es []dg.MapEntry) []dg.MapEntry {
								var out []dg.MapEntry
								for _, e := range es {
									if e.Attr != name {
										out = append(out, e)
									}
								}
								return out
							}
							if which == 0 {
								if strings.Contains(fmt.Sprint(cm.HTTP.Routes), "{"+name+"}") {
									continue
								}
								cm.HTTP.Params, cm.HTTP.Headers, cm.HTTP.Cookies = dropEntry(cm.HTTP.Params), dropEntry(cm.HTTP.Headers), dropEntry(cm.HTTP.Cookies)
							} else {
								for ri := range cm.HTTP.Responses {
									rr := &cm.HTTP.Responses[ri]
									rr.Headers, rr.Cookies = dropEntry(rr.Headers), dropEntry(rr.Cookies)
									if len(rr.Tag) == 2 && rr.Tag[0] == name {
										rr.Tag = nil
									}
								}
							}
						}
						if try(c) {
							cur, changed = c, true
							break fields
						}
					}
				}
			}
		}
	}
	return cur
}

// learnIdents runs every combination of the identifier stream on its own and writes the table of
// the ones that do not generate / build (maintenance command, not part of a check run).
func learnIdents(file, out, repo, stubs string) {
	identsKnown = map[string]bool{}
	ids := append(collectIdentifiers(repo), "isvc")
	var all []DCase
	var keys []string
	idx := 0
	for _, id := range ids {
		for _, kind := range identKinds {
			idx++
			all = append(all, identSingle(idx, id, kind))
			keys = append(keys, identKey(id, kind))
		}
	}
	var bad []string
	for lo := 0; lo < len(all); lo += 400 {
		hi := lo + 400
		if hi > len(all) {
			hi = len(all)
		}
		vs, err := runBatch(all[lo:hi], filepath.Join(out, "learn"), repo, stubs, false)
		must(err)
		for i, v := range vs {
			if v.Stage != "ok" {
				bad = append(bad, fmt.Sprintf("\t%q: true, // %s: %s", keys[lo+i], v.Stage, strings.ReplaceAll(firstLines(v.Msg, 1), "\n", " ")))
			}
		}
		fmt.Printf("%d/%d combinations, %d failing\n", hi, len(all), len(bad))
	}
	os.RemoveAll(filepath.Join(out, "learn"))
	sort.Strings(bad)
	src := "package main\n\n// identsKnown: (identifier/kind) combinations of the identifier stream that do not compile on\n// the unchanged tree. Written by `c01 -learn-idents`; each entry is re-demonstrated on every run.\nvar identsKnown = map[string]bool{\n" + strings.Join(bad, "\n") + "\n}\n"
	must(os.WriteFile(file, []byte(src), 0o644))
}

func main() {
	seed := flag.Uint64("seed", 1, "")
	tier := flag.String("tier", "quick", "")
	out := flag.String("out", ".", "")
	replay := flag.String("replay", "", "")
	repo := flag.String("repo", "/repo", "goa tree the harness was built against (batch module replace target)")
	stubs := flag.String("stubs", "/verif/harness/stubs/clue", "stand-in module for goa.design/clue")
	only := flag.String("only", "", "names | designs (debugging)")
	worker := flag.Bool("worker", false, "internal: evaluate and generate one shard of designs")
	wCases := flag.String("cases", "", "internal")
	wRoot := flag.String("root", "", "internal")
	wShard := flag.Int("shard", 0, "internal")
	wShards := flag.Int("shards", 1, "internal")
	wFrom := flag.Int("from", 0, "internal")
	wExample := flag.Bool("example", true, "internal")
	flag.BoolVar(&evalOnly, "evalonly", false, "internal")
	learn := flag.String("learn-idents", "", "maintenance: run every (identifier, kind) combination alone and write the table of those that fail to this Go file")
	flag.Parse()
	if *worker {
		workerMain(*wCases, *wRoot, *wShard, *wShards, *wFrom, *wExample)
		return
	}
	if *learn != "" {
		learnIdents(*learn, *out, *repo, *stubs)
		return
	}
	t0 := time.Now()
	rng := vh.NewRNG(*seed)
	res := vh.NewResult()

	var replayInput map[string]any
	var replayDesign *dg.Design
	if *replay != "" {
		b, err := os.ReadFile(*replay)
		must(err)
		var rp struct {
			Input map[string]any `json:"input"`
		}
		if err := json.Unmarshal(b, &rp); err != nil || rp.Input == nil {
			fmt.Println("replay file has no input")
			os.Exit(2)
		}
		replayInput = rp.Input
		if dj, ok := rp.Input["design"]; ok {
			db, _ := json.Marshal(dj)
			replayDesign = &dg.Design{}
			must(json.Unmarshal(db, replayDesign))
		}
	}

	// ---- part 1: names ----
	var st namesStats
	if *only != "designs" && (replayInput == nil || replayDesign == nil) {
		st = runNames(rng.Fork(), *tier, *out, res, replayInput)
	} else {
		st = runNames(rng.Fork(), *tier, *out, res, map[string]any{"call": "none"})
	}
	nTypes, typeDistinct := 0, vh.Distinct{}
	if replayInput == nil && *only != "designs" {
		nTypes, typeDistinct = runTypeNames(rng.Fork(), *tier, *out, res)
	} else {
		must(os.WriteFile(filepath.Join(*out, "cases_types.txt"), nil, 0o644))
	}
	lawFailures := classLaws()
	res.Extra["class_law_failures"] = lawFailures
	tNames := time.Since(t0)

	// ---- part 2: designs ----
	var cases []DCase
	nRandom := 40
	if *tier == "thorough" {
		nRandom = 400
	}
	switch {
	case replayDesign != nil:
		cases = append(cases, DCase{Stream: "replay", Name: replayDesign.Name, Design: replayDesign})
	case replayInput != nil || *only == "names":
	default:
		cases = append(cases, witnessDesigns()...)
		cases = append(cases, coveringDesigns()...)
		dr := rng.Fork()
		for i := 0; i < nRandom; i++ {
			// UintEnums: Enum(1,2,3) on UInt / sized-int array elements was kept out of the envelope
			// until goa converted enum values to the element type (fix 49bc0fa); it is an ordinary feature now
			ropts := dg.DefaultOptions()
			ropts.UintEnums = true
			// typed REQUEST cookies compile since the client encoder fix; sanitize() keeps typed
			// RESPONSE cookies (recorded finding non-string-response-cookie) out of the random stream
			ropts.NonStringCookies = true
			d := dg.Random(dr.Fork(), ropts, i)
			sanitize(d)
			cases = append(cases, DCase{Stream: "random", Name: d.Name, Design: d})
		}
	}
	// hostile-mapping stream: evaluate every single-deviation design (cheap), keep the accepted ones
	var packMembers = map[string][]DCase{}
	if replayInput == nil && *only != "names" {
		hs := hostileDesigns()
		evalOnly = true
		evs, err := runBatch(hs, filepath.Join(*out, "hostile-eval"), *repo, *stubs, false)
		evalOnly = false
		if err != nil {
			fmt.Println("hostile evaluation failed:", err)
			os.Exit(3)
		}
		var clean []DCase
		flagged := 0
		perFeature := map[string]int{}
		for i, c := range hs {
			res.Count("hostile_eval=" + evs[i].Stage)
			kind := strings.SplitN(strings.TrimPrefix(c.Name, "h_"), "_", 2)[0]
			res.Count("hostile_eval[" + kind + "]=" + evs[i].Stage)
			switch evs[i].Stage {
			case "accepted":
				if fs := envelopeViolations(c.Design); len(fs) > 0 {
					// designs carrying the feature of a recorded finding run one by one; the quick tier
					// re-demonstrates at most 5 per feature set, the thorough tier all of them
					key := strings.Join(fs, "+")
					perFeature[key]++
					if *tier != "thorough" && perFeature[key] > 5 {
						res.Count("hostile_flagged_left_to_thorough")
						continue
					}
					cases = append(cases, c)
					flagged++
				} else if c.NoPack {
					cases = append(cases, c)
				} else {
					clean = append(clean, c)
				}
			case "eval-panic":
				// a crash of the DSL engine is property C12's subject; recorded, not judged here
				res.Count("hostile_eval_panic:" + c.Name)
			}
		}
		for _, pk := range packHostile(clean, 12) {
			lo := len(packMembers) * 12
			hi := lo + 12
			if hi > len(clean) {
				hi = len(clean)
			}
			packMembers[pk.Name] = clean[lo:hi]
			cases = append(cases, pk)
		}
		// identifier stream
		ids := append(collectIdentifiers(*repo), "isvc")
		isingles, ipacks, imembers := identStream(ids, 10)
		perIdent := map[string]int{}
		for _, c := range isingles {
			// known-failing combinations: quick re-demonstrates 2 per identifier, thorough all
			id := c.Name[strings.LastIndex(c.Name, "_")+1:]
			perIdent[id]++
			if *tier != "thorough" && perIdent[id] > 2 {
				res.Count("ident_known_left_to_thorough")
				continue
			}
			cases = append(cases, c)
		}
		for _, pk := range ipacks {
			packMembers[pk.Name] = imembers[pk.Name]
			cases = append(cases, pk)
		}
		res.Extra["identifiers"] = map[string]any{"scanned": len(ids), "kinds": len(identKinds), "known_failing_combinations": len(isingles), "packs": len(ipacks), "names": ids}
		res.Extra["hostile"] = map[string]int{"designs": len(hs), "accepted_with_finding_feature": flagged, "accepted_clean_packed": len(clean), "packs": len(packMembers)}
		os.RemoveAll(filepath.Join(*out, "hostile-eval"))
	}
	run := &designRun{root: filepath.Join(*out, "shrink"), repo: *repo, stubs: *stubs}
	built, accepted := 0, 0
	designDistinct := vh.Distinct{}
	var verdicts []Verdict
	if len(cases) > 0 {
		// batches of 150 designs keep one `go build` invocation reasonable
		for lo := 0; lo < len(cases); lo += 150 {
			hi := lo + 150
			if hi > len(cases) {
				hi = len(cases)
			}
			vs, err := runBatch(cases[lo:hi], filepath.Join(*out, fmt.Sprintf("batch%d", lo/150)), *repo, *stubs, true)
			if err != nil {
				fmt.Println("batch failed:", err)
				os.Exit(3)
			}
			verdicts = append(verdicts, vs...)
		}
	}
	// a pack that is not "ok": its members one by one, so that the failing input is one deviation
	{
		var again []DCase
		for i, c := range cases {
			if strings.HasSuffix(c.Stream, "-pack") && verdicts[i].Stage != "ok" {
				again = append(again, packMembers[c.Name]...)
			}
		}
		if len(again) > 0 {
			vs, err := runBatch(again, filepath.Join(*out, "batch-unpacked"), *repo, *stubs, true)
			if err != nil {
				fmt.Println("batch failed:", err)
				os.Exit(3)
			}
			anyFail := false
			for _, v := range vs {
				if v.Stage != "ok" {
					anyFail = true
				}
			}
			if anyFail {
				// the single deviations are the failing inputs; the packs themselves are dropped
				var kc []DCase
				var kv []Verdict
				for i, c := range cases {
					if strings.HasSuffix(c.Stream, "-pack") && verdicts[i].Stage != "ok" {
						continue
					}
					kc, kv = append(kc, c), append(kv, verdicts[i])
				}
				cases, verdicts = append(kc, again...), append(kv, vs...)
			}
			// otherwise every member builds alone and only the combination fails: the pack stays as the failing input
		}
	}
	shrunk := 0
	var pending []vh.Failure // design failures; recorded below, unlisted signatures first, at most 3 per signature
	type caseRec struct {
		Stream, Name, Stage, Signature string
		Features                       []string
	}
	var recs []caseRec
	for i, c := range cases {
		v := verdicts[i]
		res.Count("design_stream=" + c.Stream)
		res.Count("design_stage[" + c.Stream + "]=" + v.Stage)
		for _, f := range c.Design.Features {
			res.Count("feature=" + f)
		}
		rec := caseRec{Stream: c.Stream, Name: c.Name, Stage: v.Stage}
		if c.Stream != "witness" && c.Stream != "hostile" && c.Stream != "ident" {
			if ev := envelopeViolations(c.Design); len(ev) > 0 && c.Stream != "replay" {
				res.Count("outside_envelope[" + c.Stream + "]")
				rec.Features = ev
			}
		}
		switch v.Stage {
		case "rejected":
			if c.Stream == "covering" || c.Stream == "witness" {
				// a hand-written design that goa refuses tests nothing: make it loud
				res.Fail("harness-design-rejected:"+c.Name, "the hand-written design "+c.Name+" is not accepted by RunDSL any more: "+v.Msg, map[string]any{"design": c.Design, "stream": c.Stream})
			}
		case "ok":
			accepted++
			built++
			designDistinct.Add(c.Design.JSON())
			if c.Stream == "witness" {
				res.Count("witness_no_longer_failing=" + c.Expect)
			}
		default:
			accepted++
			designDistinct.Add(c.Design.JSON())
			sig := classify(c.Design, v)
			rec.Signature = sig
			d := c.Design
			if strings.HasPrefix(sig, "unlisted:") && c.Stream != "witness" && c.Stream != "hostile" && c.Stream != "ident" && shrunk < 2 {
				shrunk++
				d = shrink(run, c.Design, sig, 24)
			}
			what := fmt.Sprintf("design %s (%s stream) is accepted by RunDSL but %s: %s", c.Name, c.Stream, v.Stage, v.Msg)
			errs := v.Errs
			if len(errs) > 8 {
				errs = errs[:8]
			}
			pending = append(pending, vh.Failure{Signature: sig, What: what, Input: map[string]any{"design": d, "stream": c.Stream, "stage": v.Stage, "message": v.Msg, "diagnostics": errs, "expected_signature": c.Expect}})
		}
		recs = append(recs, rec)
		if c.Stream == "random" && i%13 == 0 {
			res.Sample(map[string]any{"design": c.Name, "features": c.Design.Features, "stage": v.Stage, "files": v.Files}, 12)
		}
	}
	os.RemoveAll(run.root)
	// vh.Result keeps at most 200 failures: the failing inputs nobody has listed must never be the ones dropped
	sort.SliceStable(pending, func(i, j int) bool {
		ui, uj := strings.HasPrefix(pending[i].Signature, "unlisted:"), strings.HasPrefix(pending[j].Signature, "unlisted:")
		return ui && !uj
	})
	for _, f := range pending {
		failCapped(res, f.Signature, f.What, f.Input)
	}

	res.Evaluations = st.goify + st.camel + st.scope + nTypes + len(cases)
	res.Distinct = len(st.distinct) + len(typeDistinct) + len(designDistinct)
	res.Rule = "names: fixed corpus (every universe identifier, keyword and package name in 6 spellings, every initialism in 9 spellings, boundary strings) + random strings (structured words x separators x casing; ASCII soup; runes of a 180-rune alphabet with caseless / title-case / non-letter-lower runes; raw bytes with invalid UTF-8), each through Goify x {upper,lower} and CamelCase x 4 flag pairs; NameScope: random sequences of 1-24 Unique/HashedUnique/Name calls over 15 names x 6 suffixes x 6 keys; non-trivial = input longer than one rune / sequence longer than two calls, distinct = distinct inputs. designs: witness (one per recorded finding) + covering (hand-written feature products) + designgen.Random(DefaultOptions); distinct = distinct design JSON among designs accepted by RunDSL"
	res.Extra["names_cases"] = map[string]int{"goify": st.goify, "camelcase": st.camel, "scope_sequences": st.scope, "type_name_sequences": nTypes}
	res.Extra["designs"] = map[string]int{"total": len(cases), "accepted": accepted, "built_ok": built}
	res.Extra["design_cases"] = recs
	phaseSeconds["names"] = tNames.Seconds()
	phaseSeconds["total"] = time.Since(t0).Seconds()
	res.Extra["seconds"] = phaseSeconds
	sort.Slice(res.Failures, func(i, j int) bool { return res.Failures[i].Signature < res.Failures[j].Signature })
	must(res.Write(filepath.Join(*out, "result.json")))
}
