package main

import (
	"flag"
	"fmt"
	"time"
)

func main() {
	out := flag.String("out", "/tmp/c01/w", "")
	repo := flag.String("repo", "/repo", "")
	stubs := flag.String("stubs", "/verif/harness/stubs/clue", "")
	flag.Parse()
	cs := coveringDesigns()
	t0 := time.Now()
	vs, err := runBatch(cs, *out+"/batch", *repo, *stubs, true)
	fmt.Println("err:", err, time.Since(t0))
	for i, c := range cs {
		fmt.Printf("== d%d %s stage=%s files=%d\n   msg=%s\n", i, c.Name, vs[i].Stage, vs[i].Files, vs[i].Msg)
		for _, e := range vs[i].Errs {
			fmt.Println("     ", errClass(e), "|", e)
		}
	}
}
