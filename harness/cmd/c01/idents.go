package main

// Identifier stream: every identifier the generated HTTP / service / CLI code declares,
// reserves or imports — enumerated MECHANICALLY from the goa source on every run
// (string literals of NameScope.Unique / Name calls, names declared in the templates by
// `:=`, `var`, `range` and parameter lists, import names) — used as a path parameter, query
// parameter, header, cookie, response header, body attribute, parameter of a primitive
// payload, method name, type name, error name and service name.
//
// The combinations that do not compile on the unchanged tree are the recorded finding
// `param-name-shadows-generated-identifier` / `name-collides-with-generated-identifier`
// (table identsKnown in idents_known.go, learnt with `-learn-idents` and re-demonstrated one
// by one on every run). Every other combination compiles today and must keep compiling: a
// regression in goa's protection of a name (say `v`, reserved in the HTTP name scope) is a
// failing input.

import (
	"fmt"
	"os"
	"path/filepath"
	"regexp"
	"sort"
	"strings"

	"goa.design/goa/v3/codegen"

	dg "verifharness/designgen"
)

var (
	reScopeLit  = regexp.MustCompile(`(?:Unique|Name)\("([A-Za-z_][A-Za-z0-9_]*)"`)
	reImportLit = regexp.MustCompile(`Path: +"([^"]+)"(?:, *Name: *"([a-z][A-Za-z0-9]*)")?`)
	reGoaImport = regexp.MustCompile(`Goa(?:Named)?Import\("([a-z/]*)"(?:, *"([a-z]+)")?\)`)
	reAction    = regexp.MustCompile(`\{\{[^}]*\}\}`)
	reShortDecl = regexp.MustCompile(`(?m)(?:^|[^.\w$])((?:[a-z_][A-Za-z0-9]*)(?:\s*,\s*[a-z_][A-Za-z0-9]*)*)\s*:=`)
	reVarDecl   = regexp.MustCompile(`(?m)\bvar\s+([a-z][A-Za-z0-9]*)\b`)
	reVarBlock  = regexp.MustCompile(`(?m)^\s+([a-z][A-Za-z0-9]*)\s+(?:=|\*?[A-Za-z\[][\w.\[\]\*]*\s*$)`)
	reParam     = regexp.MustCompile(`[(,]\s*([a-z][A-Za-z0-9]*)\s+(?:\.\.\.)?(?:\*|\[\]|func\(|map\[|chan |interface|any\b|error\b|string\b|bool\b|int\b|[a-z]+\.[A-Z]|[A-Z])`)
	reIdent     = regexp.MustCompile(`[a-z_][A-Za-z0-9]*`)
)

// collectIdentifiers scans the goa tree. Fails closed (panic) when the scan finds too little.
func collectIdentifiers(repo string) []string {
	set := map[string]bool{}
	add := func(s string) {
		if s == "" || s == "_" || len(s) > 16 {
			return
		}
		set[s] = true
	}
	var gofiles, tpls []string
	for _, dir := range []string{"http/codegen", "codegen/service", "codegen/cli", "codegen"} {
		filepath.Walk(filepath.Join(repo, dir), func(p string, info os.FileInfo, err error) error { // nolint: errcheck
			if err != nil || info.IsDir() {
				if info != nil && info.IsDir() && (info.Name() == "testdata" || (dir == "codegen" && p != filepath.Join(repo, dir) && !strings.HasPrefix(p, filepath.Join(repo, dir, "templates")))) {
					return filepath.SkipDir
				}
				return nil
			}
			switch {
			case strings.HasSuffix(p, ".tpl"):
				tpls = append(tpls, p)
			case strings.HasSuffix(p, ".go") && !strings.HasSuffix(p, "_test.go"):
				gofiles = append(gofiles, p)
			}
			return nil
		})
	}
	for _, p := range gofiles {
		b, err := os.ReadFile(p)
		must(err)
		src := string(b)
		for _, m := range reScopeLit.FindAllStringSubmatch(src, -1) {
			add(codegen.Goify(m[1], false))
		}
		for _, m := range reImportLit.FindAllStringSubmatch(src, -1) {
			if m[2] != "" {
				add(m[2])
			} else if strings.Contains(m[1], "/") || regexp.MustCompile(`^[a-z]+$`).MatchString(m[1]) {
				add(filepath.Base(m[1]))
			}
		}
		for _, m := range reGoaImport.FindAllStringSubmatch(src, -1) {
			switch {
			case m[2] != "":
				add(m[2])
			case m[1] == "":
				add("goa")
			default:
				add(filepath.Base(m[1]))
			}
		}
	}
	for _, p := range tpls {
		b, err := os.ReadFile(p)
		must(err)
		src := reAction.ReplaceAllString(string(b), " ")
		for _, m := range reShortDecl.FindAllStringSubmatch(src, -1) {
			for _, id := range reIdent.FindAllString(m[1], -1) {
				add(id)
			}
		}
		for _, re := range []*regexp.Regexp{reVarDecl, reVarBlock, reParam} {
			for _, m := range re.FindAllStringSubmatch(src, -1) {
				add(m[1])
			}
		}
	}
	// Go keywords and predeclared identifiers are escaped by Goify (theorem goify_not_reserved,
	// covering design cov_reserved_attrs): not this stream's subject
	var out []string
	for id := range set {
		if codegen.Goify(id, false) != id {
			continue
		}
		out = append(out, id)
	}
	sort.Strings(out)
	if len(out) < 60 {
		panic(fmt.Sprintf("identifier scan of %s found only %d names (%v): the scan no longer understands the source", repo, len(out), out))
	}
	return out
}

var identKinds = []string{"path_s", "path_i", "query_s", "query_i", "header_s", "header_i", "cookie_s", "resphdr_s", "resphdr_i", "body",
	"primq_s", "primq_i", "primpath_s", "method", "type", "error", "service"}

// identMethod builds the method of one (identifier, kind) combination; for "type" the second
// result is the user type to declare, for "service" the service name.
func identMethod(idx int, id, kind string) (m *dg.Method, ut *dg.UserType, svcName string) {
	m = &dg.Method{Name: fmt.Sprintf("m%d", idx)}
	path := fmt.Sprintf("/c%d", idx)
	h := &dg.HTTPMap{}
	verb := "GET"
	tp := func(k string) dg.Type {
		if strings.HasSuffix(k, "_i") {
			return dg.Prim("Int")
		}
		return dg.Prim("String")
	}
	switch kind {
	case "path_s", "path_i":
		m.Payload = pa(dg.A(dg.Obj(dg.Req(id, tp(kind)), dg.F("other9", dg.Prim("String")))))
		path += "/{" + id + "}"
	case "query_s", "query_i":
		m.Payload = pa(dg.A(dg.Obj(dg.F(id, tp(kind)), dg.F("other9", dg.Prim("String")))))
		h.Params = []dg.MapEntry{{Attr: id}}
	case "header_s", "header_i":
		m.Payload = pa(dg.A(dg.Obj(dg.F(id, tp(kind)), dg.F("other9", dg.Prim("String")))))
		h.Headers = []dg.MapEntry{{Attr: id, Wire: "X-H"}}
	case "cookie_s":
		m.Payload = pa(dg.A(dg.Obj(dg.F(id, dg.Prim("String")), dg.F("other9", dg.Prim("String")))))
		h.Cookies = []dg.MapEntry{{Attr: id, Wire: "ck"}}
	case "resphdr_s", "resphdr_i":
		m.Result = pa(dg.A(dg.Obj(dg.F(id, tp(kind)), dg.F("other9", dg.Prim("String")))))
		h.Responses = []dg.Response{{Status: 200, Headers: []dg.MapEntry{{Attr: id, Wire: "X-H"}}}}
	case "body":
		m.Payload = pa(dg.A(dg.Obj(dg.F(id, dg.Prim("String")), dg.Req("other9", dg.Prim("Int")))))
		m.Result = pa(dg.A(dg.Obj(dg.F(id, dg.Prim("Int")))))
		verb = "POST"
	case "primq_s", "primq_i":
		m.Payload = pa(dg.A(tp(kind)))
		h.Params = []dg.MapEntry{{Attr: id}}
	case "primpath_s":
		m.Payload = pa(dg.A(dg.Prim("String")))
		path += "/{" + id + "}"
	case "method":
		m.Name = id
		m.Payload = pa(dg.A(dg.Obj(dg.F("a9", dg.Prim("String")))))
		m.Result = pa(dg.A(dg.Obj(dg.F("b9", dg.Prim("Int")))))
		verb = "POST"
	case "type":
		ut = &dg.UserType{Name: id, Base: dg.Obj(dg.F("f9", dg.Prim("String")), dg.F("g9", dg.Prim("Int")))}
		m.Payload = pa(dg.A(dg.Ref(id)))
		m.Result = pa(dg.A(dg.Ref(id)))
		verb = "POST"
	case "error":
		m.Errors = []dg.ErrorDef{{Name: id}}
		h.Errors = []dg.ErrResponse{{Name: id, R: dg.Response{Status: 400}}}
	case "service":
		svcName = id
		m.Payload = pa(dg.A(dg.Obj(dg.F("a9", dg.Prim("String")))))
		verb = "POST"
	}
	h.Routes = []dg.Route{{Verb: verb, Path: path}}
	m.HTTP = h
	return
}

func identKey(id, kind string) string { return id + "/" + kind }

// identSingle: the design of one combination.
func identSingle(idx int, id, kind string) DCase {
	m, ut, sn := identMethod(idx, id, kind)
	if sn == "" {
		sn = "isvc"
	}
	d := &dg.Design{Name: "i_" + kind + "_" + id, Services: []*dg.Service{{Name: sn, Methods: []*dg.Method{m}}}}
	if ut != nil {
		d.Types = []*dg.UserType{ut}
	}
	return DCase{Stream: "ident", Name: d.Name, Design: d, NoExample: true}
}

// identStream returns the combinations known to fail (run one by one) and the packs of the others:
// per identifier one service holding every clean combination (+ one service named after it),
// `perPack` identifiers per design.
func identStream(ids []string, perPack int) (singles []DCase, packs []DCase, members map[string][]DCase) {
	members = map[string][]DCase{}
	idx := 0
	type frag struct {
		svcs  []*dg.Service
		types []*dg.UserType
		cases []DCase
	}
	var frags []frag
	seenType := map[string]bool{}
	for _, id := range ids {
		var f frag
		main := &dg.Service{Name: fmt.Sprintf("i%d", len(frags))}
		for _, kind := range identKinds {
			idx++
			single := identSingle(idx, id, kind)
			if identsKnown[identKey(id, kind)] {
				singles = append(singles, single)
				continue
			}
			m, ut, sn := identMethod(idx, id, kind)
			if ut != nil {
				g := strings.ToLower(codegen.Goify(ut.Name, true))
				if seenType[g] {
					continue
				}
				seenType[g] = true
				f.types = append(f.types, ut)
			}
			if sn != "" {
				f.svcs = append(f.svcs, &dg.Service{Name: sn, Methods: []*dg.Method{m}})
			} else {
				main.Methods = append(main.Methods, m)
			}
			f.cases = append(f.cases, single)
		}
		if len(main.Methods) > 0 {
			f.svcs = append(f.svcs, main)
		}
		frags = append(frags, f)
	}
	for lo := 0; lo < len(frags); lo += perPack {
		hi := lo + perPack
		if hi > len(frags) {
			hi = len(frags)
		}
		d := &dg.Design{Name: fmt.Sprintf("ipack%d", len(packs))}
		var ms []DCase
		var names []string
		for k := lo; k < hi; k++ {
			d.Services = append(d.Services, frags[k].svcs...)
			d.Types = append(d.Types, frags[k].types...)
			ms = append(ms, frags[k].cases...)
			names = append(names, ids[k])
		}
		name := d.Name + ":" + strings.Join(names, ",")
		packs = append(packs, DCase{Stream: "ident-pack", Name: name, Design: d, NoExample: true})
		members[name] = ms
	}
	return
}
