package main

// identsKnown: (identifier/kind) combinations of the identifier stream that do not compile on
// the unchanged tree. Written by `c01 -learn-idents`; each entry is re-demonstrated on every run.
var identsKnown = map[string]bool{
	"body/path_s":        true, // build-error: gen/http/isvc/server/types.go: body redeclared in this block d51/gen/http/isvc/server/types.go:21:20: other declaration of body
	"body/path_i":        true, // build-error: gen/http/isvc/client/cli.go: isvcM53Body redeclared in this block d52/gen/http/isvc/client/cli.go:18:22: other declaration of isvcM53Body
	"body/query_s":       true, // build-error: gen/http/isvc/client/cli.go: isvcM54Body redeclared in this block d53/gen/http/isvc/client/cli.go:17:22: other declaration of isvcM54Body
	"body/query_i":       true, // build-error: gen/http/isvc/server/types.go: body redeclared in this block d54/gen/http/isvc/server/types.go:21:20: other declaration of body
	"body/header_s":      true, // build-error: gen/http/isvc/client/cli.go: isvcM56Body redeclared in this block d55/gen/http/isvc/client/cli.go:17:22: other declaration of isvcM56Body
	"body/header_i":      true, // build-error: gen/http/isvc/client/cli.go: isvcM57Body redeclared in this block d56/gen/http/isvc/client/cli.go:18:22: other declaration of isvcM57Body
	"body/cookie_s":      true, // build-error: gen/http/isvc/client/cli.go: isvcM58Body redeclared in this block d57/gen/http/isvc/client/cli.go:17:22: other declaration of isvcM58Body
	"body/resphdr_s":     true, // build-error: gen/http/isvc/client/types.go: body redeclared in this block d58/gen/http/isvc/client/types.go:22:21: other declaration of body
	"body/resphdr_i":     true, // build-error: gen/http/isvc/client/types.go: body redeclared in this block d59/gen/http/isvc/client/types.go:22:21: other declaration of body
	"body/service":       true, // build-error: gen/http/body/client/cli.go: body.M68Payload is not a type
	"bufio/service":      true, // build-error: gen/http/bufio/server/server.go: bufio redeclared in this block d101/gen/http/bufio/server/server.go:11:2: other declaration of bufio
	"bytes/service":      true, // build-error: gen/http/bytes/client/encode_decode.go: bytes redeclared in this block d135/gen/http/bytes/client/encode_decode.go:11:2: other declaration of bytes
	"c/primq_s":          true, // build-error: gen/http/isvc/server/encode_decode.go: undefined: c
	"c/primq_i":          true, // build-error: gen/http/isvc/server/encode_decode.go: declared and not used: c2
	"c/primpath_s":       true, // build-error: gen/http/isvc/server/encode_decode.go: declared and not used: c2
	"context/service":    true, // build-error: gen/http/context/client/client.go: context redeclared in this block d254/gen/http/context/client/client.go:11:2: other declaration of context
	"ctx/path_s":         true, // build-error: gen/http/isvc/client/encode_decode.go: ctx redeclared in this block d289/gen/http/isvc/client/encode_decode.go:23:35: other declaration of ctx
	"ctx/path_i":         true, // build-error: gen/http/isvc/client/encode_decode.go: ctx redeclared in this block d290/gen/http/isvc/client/encode_decode.go:23:35: other declaration of ctx
	"ctx/primpath_s":     true, // build-error: gen/http/isvc/client/encode_decode.go: ctx redeclared in this block d301/gen/http/isvc/client/encode_decode.go:22:35: other declaration of ctx
	"en/service":         true, // build-error: gen/http/cli/i_service_en/cli.go: enc.NewClient undefined (type func(*"net/http".Request) "goa.design/goa/v3/http".Encoder has no field or method NewClient)
	"encoder/service":    true, // build-error: gen/http/encoder/client/encode_decode.go: encoder.M595Payload is not a type
	"err/path_s":         true, // build-error: gen/http/isvc/server/encode_decode.go: err redeclared in this block d229/gen/http/isvc/server/encode_decode.go:35:4: other declaration of err
	"err/path_i":         true, // build-error: gen/http/isvc/client/cli.go: err redeclared in this block d230/gen/http/isvc/client/cli.go:20:6: other declaration of err
	"err/query_s":        true, // build-error: gen/http/isvc/client/cli.go: err redeclared in this block d231/gen/http/isvc/client/cli.go:19:6: other declaration of err
	"err/query_i":        true, // build-error: gen/http/isvc/client/cli.go: err redeclared in this block d232/gen/http/isvc/client/cli.go:20:6: other declaration of err
	"err/header_s":       true, // build-error: gen/http/isvc/server/encode_decode.go: err redeclared in this block d233/gen/http/isvc/server/encode_decode.go:35:4: other declaration of err
	"err/header_i":       true, // build-error: gen/http/isvc/server/encode_decode.go: err redeclared in this block d234/gen/http/isvc/server/encode_decode.go:36:4: other declaration of err
	"err/cookie_s":       true, // build-error: gen/http/isvc/client/cli.go: err redeclared in this block d235/gen/http/isvc/client/cli.go:19:6: other declaration of err
	"err/resphdr_s":      true, // build-error: gen/http/isvc/client/encode_decode.go: err redeclared in this block d236/gen/http/isvc/client/encode_decode.go:56:5: other declaration of err
	"err/resphdr_i":      true, // build-error: gen/http/isvc/client/encode_decode.go: err redeclared in this block d237/gen/http/isvc/client/encode_decode.go:58:5: other declaration of err
	"err/primq_s":        true, // build-error: gen/http/isvc/server/encode_decode.go: err redeclared in this block d239/gen/http/isvc/server/encode_decode.go:32:4: other declaration of err
	"err/primq_i":        true, // build-error: gen/http/isvc/server/encode_decode.go: err redeclared in this block d240/gen/http/isvc/server/encode_decode.go:33:4: other declaration of err
	"err/primpath_s":     true, // build-error: gen/http/isvc/client/encode_decode.go: cannot use http.NewRequest("GET", u.String(), nil) (value of type error) as string value in assignment
	"err/service":        true, // build-error: gen/http/err/client/cli.go: err.M646Payload is not a type
	"err2/path_i":        true, // build-error: gen/http/isvc/server/encode_decode.go: cannot use int(v) (value of type int) as error value in assignment: int does not implement error (missing method Error)
	"err2/query_i":       true, // build-error: gen/http/isvc/server/encode_decode.go: cannot use &pv (value of type *int) as error value in assignment: *int does not implement error (missing method Error)
	"err2/header_i":      true, // build-error: gen/http/isvc/server/encode_decode.go: cannot use &pv (value of type *int) as error value in assignment: *int does not implement error (missing method Error)
	"err2/resphdr_i":     true, // build-error: gen/http/isvc/client/encode_decode.go: cannot use &pv (value of type *int) as error value in assignment: *int does not implement error (missing method Error)
	"err2/primq_i":       true, // build-error: gen/http/isvc/server/encode_decode.go: cannot use int(v) (value of type int) as error value in assignment: int does not implement error (missing method Error)
	"errors/service":     true, // build-error: gen/http/errors/server/encode_decode.go: errors redeclared in this block d313/gen/http/errors/server/encode_decode.go:12:2: other declaration of errors
	"goa/path_i":         true, // build-error: gen/http/isvc/server/encode_decode.go: goa.MergeErrors undefined (type int has no field or method MergeErrors)
	"goa/query_i":        true, // build-error: gen/http/isvc/server/encode_decode.go: goa.MergeErrors undefined (type *int has no field or method MergeErrors)
	"goa/header_i":       true, // build-error: gen/http/isvc/server/encode_decode.go: goa.MergeErrors undefined (type *int has no field or method MergeErrors)
	"goa/resphdr_i":      true, // build-error: gen/http/isvc/client/encode_decode.go: goa.MergeErrors undefined (type *int has no field or method MergeErrors)
	"goa/primq_s":        true, // build-error: gen/http/isvc/server/encode_decode.go: goa.MergeErrors undefined (type string has no field or method MergeErrors)
	"goa/primq_i":        true, // build-error: gen/http/isvc/server/encode_decode.go: goa.MergeErrors undefined (type int has no field or method MergeErrors)
	"goa/service":        true, // build-error: gen/http/goa/client/cli.go: goa redeclared in this block d66/gen/http/goa/client/cli.go:13:2: other declaration of goa
	"goahttp/path_s":     true, // build-error: gen/http/isvc/client/encode_decode.go: goahttp.ErrInvalidType undefined (type string has no field or method ErrInvalidType)
	"goahttp/path_i":     true, // build-error: gen/http/isvc/client/encode_decode.go: goahttp.ErrInvalidType undefined (type int has no field or method ErrInvalidType)
	"goahttp/resphdr_i":  true, // build-error: gen/http/isvc/client/encode_decode.go: goahttp.ErrValidationError undefined (type *int has no field or method ErrValidationError)
	"goahttp/primpath_s": true, // build-error: gen/http/isvc/client/encode_decode.go: goahttp.ErrInvalidType undefined (type string has no field or method ErrInvalidType)
	"goahttp/service":    true, // build-error: gen/http/goahttp/server/encode_decode.go: goahttp redeclared in this block d83/gen/http/goahttp/server/encode_decode.go:15:2: other declaration of goahttp
	"handler/type":       true, // build-error: gen/http/isvc/server/types.go: NewM916Handler redeclared in this block d115/gen/http/isvc/server/server.go:93:6: other declaration of NewM916Handler
	"io/service":         true, // build-error: gen/http/io/client/encode_decode.go: io redeclared in this block d185/gen/http/io/client/encode_decode.go:13:2: other declaration of io
	"multipart/service":  true, // build-error: gen/http/multipart/client/encode_decode.go: multipart redeclared in this block d355/gen/http/multipart/client/encode_decode.go:14:2: other declaration of multipart
	"mux/path_s":         true, // build-error: gen/http/isvc/server/encode_decode.go: mux.Vars undefined (type string has no field or method Vars)
	"mux/path_i":         true, // build-error: gen/http/isvc/server/encode_decode.go: mux.Vars undefined (type int has no field or method Vars)
	"mux/primpath_s":     true, // build-error: gen/http/isvc/server/encode_decode.go: mux.Vars undefined (type string has no field or method Vars)
	"ok/path_s":          true, // build-error: gen/http/isvc/client/encode_decode.go: cannot use p.OK (variable of type string) as bool value in assignment
	"ok/path_i":          true, // build-error: gen/http/isvc/client/encode_decode.go: cannot use p.OK (variable of type int) as bool value in assignment
	"ok/primpath_s":      true, // build-error: gen/http/isvc/client/encode_decode.go: cannot use p (variable of type string) as bool value in assignment
	"p/path_s":           true, // build-error: gen/http/isvc/client/encode_decode.go: cannot use p.P (variable of type string) as *isvc.M1293Payload value in assignment
	"p/path_i":           true, // build-error: gen/http/isvc/client/encode_decode.go: cannot use p.P (variable of type int) as *isvc.M1294Payload value in assignment
	"params/path_s":      true, // build-error: gen/http/isvc/server/encode_decode.go: params redeclared in this block d109/gen/http/isvc/server/encode_decode.go:50:4: other declaration of params
	"params/path_i":      true, // build-error: gen/http/isvc/server/encode_decode.go: params redeclared in this block d110/gen/http/isvc/server/encode_decode.go:51:4: other declaration of params
	"params/primpath_s":  true, // build-error: gen/http/isvc/server/encode_decode.go: params redeclared in this block d121/gen/http/isvc/server/encode_decode.go:31:4: other declaration of params
	"path/service":       true, // build-error: gen/http/path/server/server.go: path redeclared in this block d159/gen/http/path/server/server.go:13:2: other declaration of path
	"payload/path_s":     true, // build-error: gen/http/isvc/server/encode_decode.go: no new variables on left side of :=
	"payload/path_i":     true, // build-error: gen/http/isvc/server/encode_decode.go: no new variables on left side of :=
	"payload/query_s":    true, // build-error: gen/http/isvc/server/encode_decode.go: no new variables on left side of :=
	"payload/query_i":    true, // build-error: gen/http/isvc/server/encode_decode.go: no new variables on left side of :=
	"payload/header_s":   true, // build-error: gen/http/isvc/server/encode_decode.go: no new variables on left side of :=
	"payload/header_i":   true, // build-error: gen/http/isvc/server/encode_decode.go: no new variables on left side of :=
	"payload/cookie_s":   true, // build-error: gen/http/isvc/server/encode_decode.go: no new variables on left side of :=
	"payload/primq_s":    true, // build-error: gen/http/isvc/server/encode_decode.go: no new variables on left side of :=
	"payload/primq_i":    true, // build-error: gen/http/isvc/server/encode_decode.go: no new variables on left side of :=
	"payload/primpath_s": true, // build-error: gen/http/isvc/server/encode_decode.go: no new variables on left side of :=
	"pv/query_i":         true, // build-error: gen/http/isvc/server/encode_decode.go: cannot use &pv (value of type *int) as int value in assignment
	"pv/header_i":        true, // build-error: gen/http/isvc/server/encode_decode.go: cannot use &pv (value of type *int) as int value in assignment
	"pv/resphdr_i":       true, // build-error: gen/http/isvc/client/encode_decode.go: cannot use &pv (value of type *int) as int value in assignment
	"r/path_s":           true, // build-error: gen/http/isvc/server/encode_decode.go: r redeclared in this block d228/gen/http/isvc/server/encode_decode.go:32:14: other declaration of r
	"r/path_i":           true, // build-error: gen/http/isvc/server/encode_decode.go: r redeclared in this block d229/gen/http/isvc/server/encode_decode.go:33:14: other declaration of r
	"r/query_s":          true, // build-error: gen/http/isvc/server/encode_decode.go: r redeclared in this block d230/gen/http/isvc/server/encode_decode.go:32:14: other declaration of r
	"r/query_i":          true, // build-error: gen/http/isvc/server/encode_decode.go: r redeclared in this block d231/gen/http/isvc/server/encode_decode.go:33:14: other declaration of r
	"r/header_s":         true, // build-error: gen/http/isvc/server/encode_decode.go: r redeclared in this block d232/gen/http/isvc/server/encode_decode.go:32:14: other declaration of r
	"r/header_i":         true, // build-error: gen/http/isvc/server/encode_decode.go: r redeclared in this block d233/gen/http/isvc/server/encode_decode.go:33:14: other declaration of r
	"r/cookie_s":         true, // build-error: gen/http/isvc/server/encode_decode.go: r redeclared in this block d234/gen/http/isvc/server/encode_decode.go:32:14: other declaration of r
	"r/primq_s":          true, // build-error: gen/http/isvc/server/encode_decode.go: r redeclared in this block d238/gen/http/isvc/server/encode_decode.go:30:14: other declaration of r
	"r/primq_i":          true, // build-error: gen/http/isvc/server/encode_decode.go: r redeclared in this block d239/gen/http/isvc/server/encode_decode.go:31:14: other declaration of r
	"r/primpath_s":       true, // build-error: gen/http/isvc/server/encode_decode.go: r redeclared in this block d240/gen/http/isvc/server/encode_decode.go:29:14: other declaration of r
	"req/path_s":         true, // build-error: gen/http/isvc/client/encode_decode.go: cannot use http.NewRequest("GET", u.String(), nil) (value of type *"net/http".Request) as string value in assignment
	"req/path_i":         true, // build-error: gen/http/isvc/client/encode_decode.go: cannot use http.NewRequest("GET", u.String(), nil) (value of type *"net/http".Request) as int value in assignment
	"req/primpath_s":     true, // build-error: gen/http/isvc/client/encode_decode.go: cannot use http.NewRequest("GET", u.String(), nil) (value of type *"net/http".Request) as string value in assignment
	"req/service":        true, // build-error: gen/http/req/client/encode_decode.go: req.M1496Payload is not a type
	"res/resphdr_s":      true, // build-error: gen/http/isvc/client/encode_decode.go: no new variables on left side of :=
	"res/resphdr_i":      true, // build-error: gen/http/isvc/client/encode_decode.go: no new variables on left side of :=
	"resp/resphdr_s":     true, // build-error: gen/http/isvc/client/encode_decode.go: resp.Header undefined (type *string has no field or method Header)
	"resp/resphdr_i":     true, // build-error: gen/http/isvc/client/encode_decode.go: resp.Header undefined (type *int has no field or method Header)
	"s/service":          true, // build-error: gen/http/s/server/server.go: invalid operation: cannot slice s.MethodNames (value of type func() []string)
	"strconv/path_i":     true, // build-error: gen/http/isvc/server/encode_decode.go: strconv.ParseInt undefined (type int has no field or method ParseInt)
	"strconv/query_i":    true, // build-error: gen/http/isvc/server/encode_decode.go: strconv.ParseInt undefined (type *int has no field or method ParseInt)
	"strconv/header_i":   true, // build-error: gen/http/isvc/client/cli.go: strconv.ParseInt undefined (type *int has no field or method ParseInt)
	"strconv/resphdr_i":  true, // build-error: gen/http/isvc/client/encode_decode.go: strconv.ParseInt undefined (type *int has no field or method ParseInt)
	"strconv/primq_i":    true, // build-error: gen/http/isvc/server/encode_decode.go: strconv.ParseInt undefined (type int has no field or method ParseInt)
	"strconv/service":    true, // build-error: gen/http/strconv/client/cli.go: strconv redeclared in this block d116/gen/http/strconv/client/cli.go:13:2: other declaration of strconv
	"strings/service":    true, // build-error: gen/http/strings/server/server.go: strings redeclared in this block d150/gen/http/strings/server/server.go:13:2: other declaration of strings
	"u/path_s":           true, // build-error: gen/http/isvc/client/encode_decode.go: no new variables on left side of :=
	"u/path_i":           true, // build-error: gen/http/isvc/client/encode_decode.go: no new variables on left side of :=
	"u/primpath_s":       true, // build-error: gen/http/isvc/client/encode_decode.go: no new variables on left side of :=
	"utf8/service":       true, // build-error: gen/http/utf8/client/cli.go: utf8 redeclared in this block d303/gen/http/utf8/client/cli.go:13:2: other declaration of utf8
	"v/resphdr_s":        true, // build-error: gen/http/isvc/client/types.go: no new variables on left side of :=
	"v/resphdr_i":        true, // build-error: gen/http/isvc/client/encode_decode.go: cannot use &pv (value of type *int) as int64 value in assignment
	"v/primq_s":          true, // build-error: gen/http/isvc/server/encode_decode.go: undefined: v
	"v/primq_i":          true, // build-error: gen/http/isvc/server/encode_decode.go: declared and not used: v2
	"v/primpath_s":       true, // build-error: gen/http/isvc/server/encode_decode.go: declared and not used: v2
	"v/service":          true, // build-error: gen/http/v/client/encode_decode.go: v.M1921Payload is not a type
	"val/query_i":        true, // build-error: gen/http/isvc/client/cli.go: declared and not used: val
	"val/header_i":       true, // build-error: gen/http/isvc/client/cli.go: declared and not used: val
	"websocket/service":  true, // build-error: gen/http/websocket/server/server.go: websocket redeclared in this block d56/gen/http/websocket/server/server.go:13:2: other declaration of websocket
	"isvc/path_s":        true, // build-error: gen/http/isvc/server/types.go: isvc.M2092Payload is not a type
	"isvc/path_i":        true, // build-error: gen/http/isvc/client/cli.go: isvc.M2093Payload is not a type
	"isvc/query_s":       true, // build-error: gen/http/isvc/server/types.go: isvc.M2094Payload is not a type
	"isvc/query_i":       true, // build-error: gen/http/isvc/client/cli.go: isvc.M2095Payload is not a type
	"isvc/header_s":      true, // build-error: gen/http/isvc/server/types.go: isvc.M2096Payload is not a type
	"isvc/header_i":      true, // build-error: gen/http/isvc/client/cli.go: isvc.M2097Payload is not a type
	"isvc/cookie_s":      true, // build-error: gen/http/isvc/client/cli.go: isvc.M2098Payload is not a type
}
