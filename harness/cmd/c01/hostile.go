package main

// Hostile-mapping stream: designs that goa mostly REJECTS today. One deviation per
// design (one method, one attribute "x" of one type in one transport location, or one
// validation keyword / default on one type, or one credential arrangement), so that
// accept / reject is attributable. Rejected by RunDSL = fine (counted). Every ACCEPTED one
// must generate and build unless its signature is a recorded finding: a change that loosens
// a Validate method turns into a failing input here, although no design accepted on the
// unchanged tree could show it.
//
// To keep the compile cost low the accepted designs that carry no finding feature are
// packed (12 methods per design, same type pool); a pack that does not come out "ok" is
// re-run member by member so that the failing input is the single deviation.

import (
	"fmt"
	"strings"

	dg "verifharness/designgen"
)

func hostilePool() []*dg.UserType {
	return []*dg.UserType{
		{Name: "UObj", Base: dg.Obj(dg.F("a", dg.Prim("String")), dg.F("b", dg.Prim("Int")))},
		{Name: "AStr", Base: dg.Prim("String")},
		{Name: "AInt", Base: dg.Prim("Int")},
		{Name: "UMap", Base: dg.Obj(dg.F("m", dg.MapOf(dg.A(dg.Prim("String")), dg.A(dg.Prim("Int")))), dg.F("l", dg.ArrayOf(dg.A(dg.MapOf(dg.A(dg.Prim("String")), dg.A(dg.Prim("String")))))))},
		{Name: "UTag", Base: dg.Obj(dg.Req("treq", dg.Prim("String")), dg.F("topt", dg.Prim("String")), dg.F("tdef", dg.Prim("String")).Def("dv"), dg.F("n", dg.Prim("Int")))},
		{Name: "RTag", Result: true, Base: dg.Obj(dg.Req("treq", dg.Prim("String")), dg.F("topt", dg.Prim("String")), dg.F("tdef", dg.Prim("String")).Def("dv"), dg.F("n", dg.Prim("Int"))),
			Views: []dg.View{{Name: "default", Attrs: []dg.ViewField{{Name: "treq"}, {Name: "topt"}, {Name: "tdef"}, {Name: "n"}}}, {Name: "tiny", Attrs: []dg.ViewField{{Name: "treq"}, {Name: "tdef"}}}}},
		{Name: "RT", Result: true, Base: dg.Obj(dg.Req("r1", dg.Prim("String")), dg.F("r2", dg.Prim("Int"))),
			Views: []dg.View{{Name: "default", Attrs: []dg.ViewField{{Name: "r1"}, {Name: "r2"}}}, {Name: "tiny", Attrs: []dg.ViewField{{Name: "r1"}}}}},
	}
}

type hType struct {
	name   string
	t      dg.Type
	sample any // a value of the type (Enum / Default)
}

func hostileTypes() []hType {
	str, in := dg.A(dg.Prim("String")), dg.A(dg.Prim("Int"))
	ts := []hType{}
	samples := map[string]any{"Boolean": true, "Int": 1, "Int32": 1, "Int64": 1, "UInt": 1, "UInt32": 1, "UInt64": 1, "Float32": 1.5, "Float64": 1.5, "String": "a", "Bytes": "a", "Any": "a"}
	for _, p := range allPrims {
		ts = append(ts, hType{lc(p), dg.Prim(p), samples[p]})
	}
	ts = append(ts,
		hType{"arr_string", dg.ArrayOf(str), []any{"a"}},
		hType{"arr_int", dg.ArrayOf(in), []any{1}},
		hType{"arr_bool", dg.ArrayOf(dg.A(dg.Prim("Boolean"))), []any{true}},
		hType{"arr_arr_string", dg.ArrayOf(dg.A(dg.ArrayOf(str))), []any{[]any{"a"}}},
		hType{"arr_bytes", dg.ArrayOf(dg.A(dg.Prim("Bytes"))), []any{"a"}},
		hType{"arr_any", dg.ArrayOf(dg.A(dg.Prim("Any"))), []any{"a"}},
		hType{"arr_uobj", dg.ArrayOf(dg.A(dg.Ref("UObj"))), nil},
		hType{"arr_astr", dg.ArrayOf(dg.A(dg.Ref("AStr"))), []any{"a"}},
		hType{"map_string_string", dg.MapOf(str, str), map[string]any{"k": "v"}},
		hType{"map_string_int", dg.MapOf(str, in), map[string]any{"k": 1}},
		hType{"map_string_arr_string", dg.MapOf(str, dg.A(dg.ArrayOf(str))), nil},
		hType{"map_int_string", dg.MapOf(in, str), nil},
		hType{"map_string_uobj", dg.MapOf(str, dg.A(dg.Ref("UObj"))), nil},
		hType{"map_string_any", dg.MapOf(str, dg.A(dg.Prim("Any"))), nil},
		hType{"uobj", dg.Ref("UObj"), nil},
		hType{"astr", dg.Ref("AStr"), "a"},
		hType{"aint", dg.Ref("AInt"), 1},
		hType{"rt", dg.Ref("RT"), nil},
		hType{"coll_rt", dg.Type{Kind: "collection", Ref: "RT"}, nil},
		hType{"inline_obj", dg.Obj(dg.F("y", dg.Prim("String"))), nil},
	)
	return ts
}

// the *_only locations carry the attribute ALONE in the payload: the CLI payload builder, the request
// encoder and the decoder of a method then have exactly one flag / parameter (no body, no sibling
// that declares or uses the shared err / body variables)
var hostileLocations = []string{"path", "query", "header", "cookie", "query_only", "header_only", "cookie_only", "path_only", "body", "body_attr", "map_params",
	"resp_header", "resp_cookie", "resp_body_attr", "err_header",
	"p_path", "p_query", "p_header", "p_cookie", "p_body", "r_body", "r_header", "stream_payload", "stream_result"}

// hostileMethod builds the single method of a type x location design; idx makes names and routes unique.
func hostileMethod(idx int, loc string, ht hType) *dg.Method {
	m := &dg.Method{Name: fmt.Sprintf("m%d", idx)}
	path := fmt.Sprintf("/h%d", idx)
	x := func(req bool) *dg.Field { return &dg.Field{Name: "x", A: dg.Attr{T: ht.t}, Required: req} }
	other := dg.F("other", dg.Prim("String"))
	h := &dg.HTTPMap{}
	verb := "GET"
	switch loc {
	case "path_only":
		m.Payload = pa(dg.A(dg.Obj(x(true))))
		path += "/{x}"
	case "query_only":
		m.Payload = pa(dg.A(dg.Obj(x(false))))
		h.Params = []dg.MapEntry{{Attr: "x"}}
	case "header_only":
		m.Payload = pa(dg.A(dg.Obj(x(false))))
		h.Headers = []dg.MapEntry{{Attr: "x", Wire: "X-H"}}
	case "cookie_only":
		m.Payload = pa(dg.A(dg.Obj(x(false))))
		h.Cookies = []dg.MapEntry{{Attr: "x", Wire: "ck"}}
	case "path":
		m.Payload = pa(dg.A(dg.Obj(x(true), other)))
		path += "/{x}"
	case "query":
		m.Payload = pa(dg.A(dg.Obj(x(false), other)))
		h.Params = []dg.MapEntry{{Attr: "x"}}
	case "header":
		m.Payload = pa(dg.A(dg.Obj(x(false), other)))
		h.Headers = []dg.MapEntry{{Attr: "x", Wire: "X-H"}}
	case "cookie":
		m.Payload = pa(dg.A(dg.Obj(x(false), other)))
		h.Cookies = []dg.MapEntry{{Attr: "x", Wire: "ck"}}
	case "body":
		m.Payload = pa(dg.A(dg.Obj(x(false), other)))
		verb = "POST"
	case "body_attr":
		m.Payload = pa(dg.A(dg.Obj(x(false), other)))
		h.Params = []dg.MapEntry{{Attr: "other"}}
		h.Body = &dg.BodySpec{Attr: "x"}
		verb = "POST"
	case "map_params":
		m.Payload = pa(dg.A(dg.Obj(x(false), other)))
		h.MapParams = "x"
		h.Params = []dg.MapEntry{{Attr: "other"}}
	case "resp_header":
		m.Result = pa(dg.A(dg.Obj(x(false), other)))
		h.Responses = []dg.Response{{Status: 200, Headers: []dg.MapEntry{{Attr: "x", Wire: "X-H"}}}}
	case "resp_cookie":
		m.Result = pa(dg.A(dg.Obj(x(false), other)))
		h.Responses = []dg.Response{{Status: 200, Cookies: []dg.MapEntry{{Attr: "x", Wire: "ck"}}}}
	case "resp_body_attr":
		m.Result = pa(dg.A(dg.Obj(x(false), other)))
		h.Responses = []dg.Response{{Status: 200, Body: &dg.BodySpec{Attr: "x"}, Headers: []dg.MapEntry{{Attr: "other", Wire: "X-O"}}}}
	case "err_header":
		et := dg.Obj(dg.Req("name", dg.Prim("String")), x(false))
		en := fmt.Sprintf("bad%d", idx)
		m.Errors = []dg.ErrorDef{{Name: en, T: &et}}
		h.Errors = []dg.ErrResponse{{Name: en, R: dg.Response{Status: 400, Headers: []dg.MapEntry{{Attr: "x", Wire: "X-E"}}}}}
	case "p_path":
		m.Payload = pa(dg.A(ht.t))
		path += "/{pv}"
	case "p_query":
		m.Payload = pa(dg.A(ht.t))
		h.Params = []dg.MapEntry{{Attr: "pq"}}
	case "p_header":
		m.Payload = pa(dg.A(ht.t))
		h.Headers = []dg.MapEntry{{Attr: "ph", Wire: "X-H"}}
	case "p_cookie":
		m.Payload = pa(dg.A(ht.t))
		h.Cookies = []dg.MapEntry{{Attr: "pc", Wire: "ck"}}
	case "p_body":
		m.Payload = pa(dg.A(ht.t))
		verb = "POST"
	case "r_body":
		m.Result = pa(dg.A(ht.t))
	case "r_header":
		m.Result = pa(dg.A(ht.t))
		h.Responses = []dg.Response{{Status: 200, Headers: []dg.MapEntry{{Attr: "rh", Wire: "X-H"}}}}
	case "stream_payload":
		m.StreamingPayload = pa(dg.A(ht.t))
	case "stream_result":
		m.StreamingResult = pa(dg.A(ht.t))
	}
	h.Routes = []dg.Route{{Verb: verb, Path: path}}
	m.HTTP = h
	return m
}

var hostileKeywords = []string{"enum", "format", "pattern", "min", "max", "excl_min", "excl_max", "min_len", "max_len", "default"}

func hostileValidation(idx int, kw string, ht hType) *dg.Method {
	f := &dg.Field{Name: "x", A: dg.Attr{T: ht.t}}
	v := &dg.Validation{}
	switch kw {
	case "enum":
		s := ht.sample
		if s == nil {
			s = "a"
		}
		v.Enum = []any{s}
	case "format":
		v.Format = "uuid"
	case "pattern":
		v.Pattern = "^a"
	case "min":
		v.Min = dg.Fp(1)
	case "max":
		v.Max = dg.Fp(9)
	case "excl_min":
		v.ExclMin = dg.Fp(0)
	case "excl_max":
		v.ExclMax = dg.Fp(10)
	case "min_len":
		v.MinLen = dg.Ip(1)
	case "max_len":
		v.MaxLen = dg.Ip(5)
	case "default":
		v = nil
		s := ht.sample
		if s == nil {
			s = "a"
		}
		f.A.Default, f.A.HasDef = s, true
	}
	f.A.V = v
	return &dg.Method{Name: fmt.Sprintf("m%d", idx), Payload: pa(dg.A(dg.Obj(f, dg.F("other", dg.Prim("String"))))),
		Result: pa(dg.A(dg.Obj(&dg.Field{Name: "x", A: f.A}))),
		HTTP:   &dg.HTTPMap{Routes: []dg.Route{{Verb: "POST", Path: fmt.Sprintf("/h%d", idx)}}}}
}

// degenerate-but-valid validation combinations (boundary cases of the example generator and of
// the generated validation code), on every primitive incl. sized ints, in the body and in the query
type degCase struct {
	name string
	v    dg.Validation
}

func degenerateCases(p string) []degCase {
	var out []degCase
	num := isNum(p)
	unsigned := strings.HasPrefix(p, "UInt")
	float := strings.HasPrefix(p, "Float")
	switch {
	case num:
		out = append(out,
			degCase{"min_eq_max", dg.Validation{Min: dg.Fp(3), Max: dg.Fp(3)}},
			degCase{"min_eq_max_zero", dg.Validation{Min: dg.Fp(0), Max: dg.Fp(0)}},
			degCase{"xmin_n_max_n1", dg.Validation{ExclMin: dg.Fp(4), Max: dg.Fp(5)}},
			degCase{"min_n_xmax_n1", dg.Validation{Min: dg.Fp(4), ExclMax: dg.Fp(5)}},
			degCase{"xmin_n_xmax_n2", dg.Validation{ExclMin: dg.Fp(4), ExclMax: dg.Fp(6)}},
			degCase{"range_below_one", dg.Validation{Min: dg.Fp(0), Max: dg.Fp(0.5)}},
			degCase{"enum_single", dg.Validation{Enum: []any{map[bool]any{true: 1.5, false: 1}[float]}}},
			degCase{"huge_max", dg.Validation{Max: dg.Fp(1e18)}},
			degCase{"min_large", dg.Validation{Min: dg.Fp(2147483647)}})
		if !unsigned {
			out = append(out, degCase{"max_negative", dg.Validation{Max: dg.Fp(-1)}},
				degCase{"min_eq_max_negative", dg.Validation{Min: dg.Fp(-7), Max: dg.Fp(-7)}},
				degCase{"xmax_zero", dg.Validation{ExclMax: dg.Fp(0)}})
		}
		if float {
			out = append(out, degCase{"min_eq_max_fraction", dg.Validation{Min: dg.Fp(0.25), Max: dg.Fp(0.25)}})
		}
	case p == "String":
		out = append(out,
			degCase{"len_eq", dg.Validation{MinLen: dg.Ip(4), MaxLen: dg.Ip(4)}},
			degCase{"minlen_zero", dg.Validation{MinLen: dg.Ip(0)}},
			degCase{"maxlen_zero", dg.Validation{MaxLen: dg.Ip(0)}},
			degCase{"len_zero_zero", dg.Validation{MinLen: dg.Ip(0), MaxLen: dg.Ip(0)}},
			degCase{"minlen_huge", dg.Validation{MinLen: dg.Ip(5000)}},
			degCase{"pattern_single", dg.Validation{Pattern: "^abc$"}},
			degCase{"pattern_empty_only", dg.Validation{Pattern: "^$"}},
			degCase{"pattern_and_len", dg.Validation{Pattern: "^[a-c]+$", MinLen: dg.Ip(2), MaxLen: dg.Ip(2)}},
			degCase{"enum_single", dg.Validation{Enum: []any{"only"}}},
			degCase{"enum_empty_string", dg.Validation{Enum: []any{""}}},
			degCase{"format_and_len", dg.Validation{Format: "uuid", MinLen: dg.Ip(36), MaxLen: dg.Ip(36)}})
	case p == "Bytes":
		out = append(out,
			degCase{"len_eq", dg.Validation{MinLen: dg.Ip(4), MaxLen: dg.Ip(4)}},
			degCase{"minlen_zero", dg.Validation{MinLen: dg.Ip(0)}},
			degCase{"maxlen_zero", dg.Validation{MaxLen: dg.Ip(0)}},
			degCase{"minlen_huge", dg.Validation{MinLen: dg.Ip(5000)}})
	case p == "Boolean":
		out = append(out, degCase{"enum_single_false", dg.Validation{Enum: []any{false}}})
	}
	return out
}

func degenerateCollectionCases() []degCase {
	return []degCase{
		{"len_eq", dg.Validation{MinLen: dg.Ip(2), MaxLen: dg.Ip(2)}},
		{"len_eq_one", dg.Validation{MinLen: dg.Ip(1), MaxLen: dg.Ip(1)}},
		{"minlen_zero", dg.Validation{MinLen: dg.Ip(0)}},
		{"maxlen_zero", dg.Validation{MaxLen: dg.Ip(0)}},
		{"len_zero_zero", dg.Validation{MinLen: dg.Ip(0), MaxLen: dg.Ip(0)}},
		{"minlen_large", dg.Validation{MinLen: dg.Ip(40)}},
		{"maxlen_three", dg.Validation{MaxLen: dg.Ip(3)}},
	}
}

// degenerateMethod: attribute x with the validation, in the body of payload and result ("body")
// or as a query parameter ("query").
func degenerateMethod(idx int, t dg.Type, v dg.Validation, where string) *dg.Method {
	vv := v
	f := &dg.Field{Name: "x", A: dg.Attr{T: t, V: &vv}}
	m := &dg.Method{Name: fmt.Sprintf("m%d", idx), Payload: pa(dg.A(dg.Obj(f, dg.F("other", dg.Prim("String")))))}
	h := &dg.HTTPMap{Routes: []dg.Route{{Verb: "POST", Path: fmt.Sprintf("/h%d", idx)}}}
	if where == "query" {
		h.Params = []dg.MapEntry{{Attr: "x"}}
	} else {
		m.Result = pa(dg.A(dg.Obj(&dg.Field{Name: "x", A: f.A, Required: true})))
	}
	m.HTTP = h
	return m
}

// ---- requiredness x default product: every place where generated code reads or writes an
// attribute depends on whether the field is a pointer (required / optional / optional with
// default / required with default), per type ----

var ptrModes = []string{"req", "opt", "def", "reqdef"}
var ptrLocations = []string{"path", "query", "header", "cookie", "query_only", "header_only", "cookie_only", "body", "resp_header", "resp_cookie", "resp_body", "err_header", "err_body", "p_query_validated"}

func ptrMethod(idx int, loc, mode string, ht hType) *dg.Method {
	f := &dg.Field{Name: "x", A: dg.Attr{T: ht.t}}
	if mode == "req" || mode == "reqdef" {
		f.Required = true
	}
	if mode == "def" || mode == "reqdef" {
		f.A.Default, f.A.HasDef = ht.sample, true
	}
	other := dg.F("other", dg.Prim("String"))
	m := &dg.Method{Name: fmt.Sprintf("m%d", idx)}
	path := fmt.Sprintf("/h%d", idx)
	h := &dg.HTTPMap{}
	verb := "GET"
	switch loc {
	case "query_only":
		m.Payload = pa(dg.A(dg.Obj(f)))
		h.Params = []dg.MapEntry{{Attr: "x"}}
	case "header_only":
		m.Payload = pa(dg.A(dg.Obj(f)))
		h.Headers = []dg.MapEntry{{Attr: "x", Wire: "X-H"}}
	case "cookie_only":
		m.Payload = pa(dg.A(dg.Obj(f)))
		h.Cookies = []dg.MapEntry{{Attr: "x", Wire: "ck"}}
	case "path":
		m.Payload = pa(dg.A(dg.Obj(f, other)))
		path += "/{x}"
	case "query":
		m.Payload = pa(dg.A(dg.Obj(f, other)))
		h.Params = []dg.MapEntry{{Attr: "x"}}
	case "header":
		m.Payload = pa(dg.A(dg.Obj(f, other)))
		h.Headers = []dg.MapEntry{{Attr: "x", Wire: "X-H"}}
	case "cookie":
		m.Payload = pa(dg.A(dg.Obj(f, other)))
		h.Cookies = []dg.MapEntry{{Attr: "x", Wire: "ck"}}
	case "body":
		m.Payload = pa(dg.A(dg.Obj(f, other)))
		verb = "POST"
	case "resp_header":
		m.Result = pa(dg.A(dg.Obj(f, other)))
		h.Responses = []dg.Response{{Status: 200, Headers: []dg.MapEntry{{Attr: "x", Wire: "X-H"}}}}
	case "resp_cookie":
		m.Result = pa(dg.A(dg.Obj(f, other)))
		h.Responses = []dg.Response{{Status: 200, Cookies: []dg.MapEntry{{Attr: "x", Wire: "ck"}}}}
	case "resp_body":
		m.Result = pa(dg.A(dg.Obj(f, other)))
	case "err_header", "err_body":
		et := dg.Obj(dg.Req("name", dg.Prim("String")), f)
		en := fmt.Sprintf("bad%d", idx)
		m.Errors = []dg.ErrorDef{{Name: en, T: &et}}
		er := dg.ErrResponse{Name: en, R: dg.Response{Status: 400}}
		if loc == "err_header" {
			er.R.Headers = []dg.MapEntry{{Attr: "x", Wire: "X-E"}}
		}
		h.Errors = []dg.ErrResponse{er}
	case "p_query_validated":
		// the attribute itself is the payload
		a := dg.A(ht.t)
		if f.A.HasDef {
			a.Default, a.HasDef = f.A.Default, true
		}
		m.Payload = &a
		h.Params = []dg.MapEntry{{Attr: "pq"}}
	}
	h.Routes = []dg.Route{{Verb: verb, Path: path}}
	m.HTTP = h
	return m
}

// tagMethods: Tag on a required / optional / defaulted String attribute of an inline object, a
// user type, a result type (viewed) and a result type with a fixed view; one or two tagged responses.
func tagMethods(start int) (ms []*dg.Method, names []string) {
	idx := start
	inline := func() dg.Type {
		return dg.Obj(dg.Req("treq", dg.Prim("String")), dg.F("topt", dg.Prim("String")), dg.F("tdef", dg.Prim("String")).Def("dv"), dg.F("n", dg.Prim("Int")))
	}
	for _, holder := range []string{"inline", "user", "result", "result_fixed_view"} {
		for _, tag := range []string{"treq", "topt", "tdef"} {
			for _, extra := range []string{"plain", "with_header", "two_tags"} {
				m := &dg.Method{Name: fmt.Sprintf("m%d", idx)}
				switch holder {
				case "inline":
					m.Result = pa(dg.A(inline()))
				case "user":
					m.Result = pa(dg.A(dg.Ref("UTag")))
				case "result":
					m.Result = pa(dg.A(dg.Ref("RTag")))
				case "result_fixed_view":
					m.Result = pa(dg.A(dg.Ref("RTag")))
					m.ResultView = "tiny"
					if tag == "topt" {
						continue // not part of the view
					}
				}
				tagged := dg.Response{Status: 202, Tag: []string{tag, "acc"}}
				rs := []dg.Response{tagged}
				switch extra {
				case "with_header":
					rs[0].Headers = []dg.MapEntry{{Attr: "n", Wire: "X-N"}}
					if holder == "result_fixed_view" {
						continue
					}
				case "two_tags":
					rs = append(rs, dg.Response{Status: 201, Tag: []string{"treq", "new"}})
				}
				rs = append(rs, dg.Response{Status: 200})
				m.HTTP = &dg.HTTPMap{Routes: []dg.Route{{Verb: "GET", Path: fmt.Sprintf("/h%d", idx)}}, Responses: rs}
				ms = append(ms, m)
				names = append(names, fmt.Sprintf("tagp_%s_%s_%s", holder, tag, extra))
				idx++
			}
		}
	}
	return
}

// ---- nested collection shapes: every sequence of array / map constructors up to depth 4 over
// each leaf (loop variables of nested transforms, validations and conversions are allocated by depth) ----

func nestedShapes() []hType {
	leaves := []hType{{"string", dg.Prim("String"), nil}, {"int", dg.Prim("Int"), nil}, {"uobj", dg.Ref("UObj"), nil}, {"umap", dg.Ref("UMap"), nil}}
	var out []hType
	for _, lf := range leaves {
		var build func(seq string) dg.Type
		build = func(seq string) dg.Type {
			if seq == "" {
				return lf.t
			}
			inner := dg.A(build(seq[1:]))
			if seq[0] == 'a' {
				return dg.ArrayOf(inner)
			}
			return dg.MapOf(dg.A(dg.Prim("String")), inner)
		}
		for n := 2; n <= 4; n++ {
			for bits := 0; bits < 1<<n; bits++ {
				seq := ""
				for k := 0; k < n; k++ {
					if bits&(1<<k) != 0 {
						seq += "m"
					} else {
						seq += "a"
					}
				}
				if n == 4 && (lf.name == "int" || lf.name == "umap") {
					continue // depth 4 over two leaves is enough
				}
				out = append(out, hType{"shape_" + seq + "_" + lf.name, build(seq), nil})
			}
		}
	}
	return out
}

func shapeMethod(idx int, ht hType, where string) *dg.Method {
	m := &dg.Method{Name: fmt.Sprintf("m%d", idx)}
	h := &dg.HTTPMap{Routes: []dg.Route{{Verb: "POST", Path: fmt.Sprintf("/h%d", idx)}}}
	switch where {
	case "attr": // attribute of payload and result objects
		m.Payload = pa(dg.A(dg.Obj(&dg.Field{Name: "x", A: dg.Attr{T: ht.t}}, dg.F("other", dg.Prim("String")))))
		m.Result = pa(dg.A(dg.Obj(&dg.Field{Name: "x", A: dg.Attr{T: ht.t}, Required: true})))
	case "whole": // the payload / result itself
		m.Payload = pa(dg.A(ht.t))
		m.Result = pa(dg.A(ht.t))
	}
	m.HTTP = h
	return m
}

// ---- route sets: pairs of routes over relative / absolute paths, parameters, wildcards, with and
// without parameters in the service base path ----

var routeShapes = []string{"/a/{x}", "/b/{x}/{y}", "/c/{y}", "/d", "/e/{*y}", "/f/{x}/{*y}", "//abs/{x}", "//abs2/{x}/{y}", "//abs3", "//abs4/{*y}", "//abs5/{y}"}

func routeMethod(idx int, r1, r2 string, third bool) *dg.Method {
	m := &dg.Method{Name: fmt.Sprintf("m%d", idx),
		Payload: pa(dg.A(dg.Obj(dg.Req("x", dg.Prim("String")), dg.Req("y", dg.Prim("String")), dg.Req("z", dg.Prim("Int")), dg.F("q", dg.Prim("String")))))}
	pfx := func(p string) string {
		if strings.HasPrefix(p, "//") {
			return "//r" + fmt.Sprint(idx) + p[1:]
		}
		return fmt.Sprintf("/r%d", idx) + p
	}
	rs := []dg.Route{{Verb: "GET", Path: pfx(r1)}, {Verb: "GET", Path: pfx(r2) + "/two"}}
	if strings.Contains(r2, "{*") {
		rs[1].Path = pfx(r2)
		rs[1].Verb = "POST"
	}
	if third {
		rs = append(rs, dg.Route{Verb: "DELETE", Path: pfx(r1)})
	}
	m.HTTP = &dg.HTTPMap{Routes: rs, Params: []dg.MapEntry{{Attr: "q"}}}
	return m
}

var hostileSchemes = []dg.Scheme{{Kind: "basic", Name: "basic_sch"}, {Kind: "apikey", Name: "key_sch"},
	{Kind: "jwt", Name: "jwt_sch", Scopes: []string{"api:read"}}, {Kind: "oauth2", Name: "oauth_sch", Scopes: []string{"api:read"}}}

// credentialMethods: every security kind x requiredness of each credential (independently) x
// with / without a request body x implicit / explicit mapping.
func credentialMethods(start int) (ms []*dg.Method, names []string) {
	idx := start
	sec := func(fn, scheme, n string, req bool) *dg.Field {
		return &dg.Field{Name: n, A: dg.Attr{T: dg.Prim("String"), Sec: &dg.SecAttrKind{Fn: fn, Scheme: scheme}}, Required: req}
	}
	add := func(name string, scheme string, fields []*dg.Field, body bool, mapping string, attr string) {
		m := &dg.Method{Name: fmt.Sprintf("m%d", idx), Security: []dg.Requirement{{Schemes: []string{scheme}}}}
		h := &dg.HTTPMap{}
		verb := "GET"
		if body {
			fields = append(fields, dg.F("data", dg.Prim("String")), dg.Req("n", dg.Prim("Int")))
			verb = "POST"
		}
		switch mapping {
		case "header":
			h.Headers = []dg.MapEntry{{Attr: attr, Wire: "X-Cred"}}
		case "query":
			h.Params = []dg.MapEntry{{Attr: attr, Wire: "cred"}}
		case "auth_header":
			h.Headers = []dg.MapEntry{{Attr: attr, Wire: "Authorization"}}
		}
		m.Payload = pa(dg.A(dg.Obj(fields...)))
		h.Routes = []dg.Route{{Verb: verb, Path: fmt.Sprintf("/h%d", idx)}}
		m.HTTP = h
		ms = append(ms, m)
		names = append(names, name)
		idx++
	}
	rq := map[bool]string{true: "req", false: "opt"}
	bd := map[bool]string{true: "body", false: "nobody"}
	for _, body := range []bool{false, true} {
		for _, ur := range []bool{true, false} {
			for _, pr := range []bool{true, false} {
				for _, mp := range []string{"implicit", "header"} {
					add(fmt.Sprintf("cred_basic_user_%s_pass_%s_%s_%s", rq[ur], rq[pr], bd[body], mp), "basic_sch",
						[]*dg.Field{sec("Username", "", "user", ur), sec("Password", "", "pass", pr)}, body, mp, "user")
				}
			}
		}
		for _, r := range []bool{true, false} {
			for _, mp := range []string{"implicit", "header", "query", "auth_header"} {
				add(fmt.Sprintf("cred_apikey_%s_%s_%s", rq[r], bd[body], mp), "key_sch", []*dg.Field{sec("APIKey", "key_sch", "key", r)}, body, mp, "key")
				add(fmt.Sprintf("cred_jwt_%s_%s_%s", rq[r], bd[body], mp), "jwt_sch", []*dg.Field{sec("Token", "", "token", r)}, body, mp, "token")
				add(fmt.Sprintf("cred_oauth2_%s_%s_%s", rq[r], bd[body], mp), "oauth_sch", []*dg.Field{sec("AccessToken", "", "access", r)}, body, mp, "access")
			}
		}
	}
	return
}

func routeName(p string) string {
	r := strings.NewReplacer("//", "abs_", "/", "_", "{*", "W", "{", "P", "}", "")
	return strings.Trim(r.Replace(p), "_")
}

// ---- partial transport mapping: services in which some methods have no HTTP mapping at all
// (reachable in process only), next to mapped ones, for every kind of method. What the generated
// HTTP packages contain must be decided from the same set of methods everywhere. ----

func partialKinds() []string {
	return []string{"plain", "payload", "result", "prim_result", "errors", "server_stream", "client_stream", "bidi", "stream_with_payload", "viewed_result", "collection_result", "secured_jwt", "secured_basic", "user_payload"}
}

// kindMethod builds a method of the given kind; mapped = with an HTTP mapping.
func kindMethod(idx int, kind string, mapped bool) *dg.Method {
	m := &dg.Method{Name: fmt.Sprintf("m%d", idx)}
	msg := dg.Obj(dg.Req("text", dg.Prim("String")), dg.F("n", dg.Prim("Int")))
	h := &dg.HTTPMap{}
	verb := "GET"
	sec := func(fn, n string) *dg.Field {
		return &dg.Field{Name: n, A: dg.Attr{T: dg.Prim("String"), Sec: &dg.SecAttrKind{Fn: fn}}, Required: true}
	}
	switch kind {
	case "plain":
	case "payload":
		m.Payload = pa(dg.A(dg.Obj(dg.F("a", dg.Prim("String")), dg.Req("b", dg.Prim("Int")))))
		verb = "POST"
	case "result":
		m.Result = pa(dg.A(dg.Obj(dg.Req("a", dg.Prim("String")), dg.F("b", dg.Prim("Int")))))
	case "prim_result":
		m.Result = pa(dg.A(dg.Prim("String")))
	case "errors":
		en := fmt.Sprintf("bad%d", idx)
		m.Errors = []dg.ErrorDef{{Name: en}, {Name: "not_found"}}
		h.Errors = []dg.ErrResponse{{Name: en, R: dg.Response{Status: 400}}, {Name: "not_found", R: dg.Response{Status: 404}}}
	case "server_stream":
		m.StreamingResult = pa(dg.A(msg))
	case "client_stream":
		m.StreamingPayload = pa(dg.A(msg))
		m.Result = pa(dg.A(dg.Prim("Int")))
	case "bidi":
		m.StreamingPayload = pa(dg.A(dg.Prim("String")))
		m.StreamingResult = pa(dg.A(msg))
	case "stream_with_payload":
		m.Payload = pa(dg.A(dg.Obj(dg.F("topic", dg.Prim("String")))))
		m.StreamingResult = pa(dg.A(dg.Ref("UObj")))
		h.Params = []dg.MapEntry{{Attr: "topic"}}
	case "viewed_result":
		m.Result = pa(dg.A(dg.Ref("RT")))
	case "collection_result":
		m.Result = pa(dg.A(dg.Type{Kind: "collection", Ref: "RT"}))
	case "secured_jwt":
		m.Security = []dg.Requirement{{Schemes: []string{"jwt_sch"}}}
		m.Payload = pa(dg.A(dg.Obj(sec("Token", "token"), dg.F("a", dg.Prim("String")))))
		verb = "POST"
	case "secured_basic":
		m.Security = []dg.Requirement{{Schemes: []string{"basic_sch"}}}
		m.Payload = pa(dg.A(dg.Obj(sec("Username", "user"), sec("Password", "pass"))))
		verb = "POST"
	case "user_payload":
		m.Payload = pa(dg.A(dg.Ref("UObj")))
		m.Result = pa(dg.A(dg.Ref("UMap")))
		verb = "POST"
	}
	if mapped {
		h.Routes = []dg.Route{{Verb: verb, Path: fmt.Sprintf("/h%d", idx)}}
		m.HTTP = h
	}
	return m
}

func hostileService(name string, ms ...*dg.Method) DCase {
	d := &dg.Design{Name: name, Types: hostilePool(), Schemes: append([]dg.Scheme{}, hostileSchemes...), Services: []*dg.Service{{Name: "svc", Methods: ms}}}
	return DCase{Stream: "hostile", Name: name, Design: d, NoExample: true}
}

func partialDesigns(start int) []DCase {
	var out []DCase
	idx := start
	next := func() int { idx += 1; return idx }
	for _, k := range partialKinds() {
		// a mapped plain method + an unmapped method of kind k; the reverse; a mapped streaming method + unmapped k
		out = append(out,
			hostileService("h_partial_mapped_plain__unmapped_"+k, kindMethod(next(), "result", true), kindMethod(next(), k, false)),
			hostileService("h_partial_mapped_"+k+"__unmapped_plain", kindMethod(next(), k, true), kindMethod(next(), "plain", false)),
			hostileService("h_partial_mapped_stream__unmapped_"+k, kindMethod(next(), "server_stream", true), kindMethod(next(), k, false)),
			hostileService("h_partial_unmapped_"+k+"__mapped_plain", kindMethod(next(), k, false), kindMethod(next(), "result", true)))
	}
	// every kind mapped in one service (reference point), every kind unmapped next to one mapped method
	var all, none []*dg.Method
	for _, k := range partialKinds() {
		all = append(all, kindMethod(next(), k, true))
		none = append(none, kindMethod(next(), k, false))
	}
	out = append(out, hostileService("h_partial_all_kinds_mapped", all...))
	out = append(out, hostileService("h_partial_all_kinds_unmapped_but_one", append(none, kindMethod(next(), "result", true))...))
	// a service without any HTTP mapping next to a mapped service; and alone in the design
	{
		var un []*dg.Method
		for _, k := range partialKinds() {
			un = append(un, kindMethod(next(), k, false))
		}
		c := hostileService("h_partial_unmapped_service_next_to_mapped", kindMethod(next(), "result", true))
		c.Design.Services = append(c.Design.Services, &dg.Service{Name: "inproc", Methods: un})
		c.NoPack = true
		out = append(out, c)
		var un2 []*dg.Method
		for _, k := range partialKinds() {
			un2 = append(un2, kindMethod(next(), k, false))
		}
		c2 := hostileService("h_partial_no_http_at_all", un2...)
		c2.NoPack = true
		out = append(out, c2)
	}
	return out
}

func hostileSingle(name string, m *dg.Method) DCase {
	d := &dg.Design{Name: name, Types: hostilePool(), Schemes: append([]dg.Scheme{}, hostileSchemes...), Services: []*dg.Service{{Name: "svc", Methods: []*dg.Method{m}}}}
	return DCase{Stream: "hostile", Name: name, Design: d, NoExample: true}
}

// hostileDesigns: one single-deviation design per case.
func hostileDesigns() []DCase {
	var out []DCase
	idx := 0
	for _, loc := range hostileLocations {
		for _, ht := range hostileTypes() {
			out = append(out, hostileSingle("h_"+loc+"_"+ht.name, hostileMethod(idx, loc, ht)))
			idx++
		}
	}
	for _, kw := range hostileKeywords {
		for _, ht := range hostileTypes() {
			out = append(out, hostileSingle("h_"+kw+"_on_"+ht.name, hostileValidation(idx, kw, ht)))
			idx++
		}
	}
	for _, p := range allPrims {
		for _, dc := range degenerateCases(p) {
			for _, where := range []string{"body", "query"} {
				if where == "query" && (p == "Bytes" || p == "Any") {
					continue
				}
				out = append(out, hostileSingle("h_deg_"+where+"_"+lc(p)+"_"+dc.name, degenerateMethod(idx, dg.Prim(p), dc.v, where)))
				idx++
			}
		}
	}
	str := dg.A(dg.Prim("String"))
	for _, ct := range []hType{{"arr_string", dg.ArrayOf(str), nil}, {"arr_int", dg.ArrayOf(dg.A(dg.Prim("Int"))), nil}, {"arr_uobj", dg.ArrayOf(dg.A(dg.Ref("UObj"))), nil},
		{"map_string_string", dg.MapOf(str, str), nil}, {"map_string_int", dg.MapOf(str, dg.A(dg.Prim("Int"))), nil}} {
		for _, dc := range degenerateCollectionCases() {
			for _, where := range []string{"body", "query"} {
				if where == "query" && ct.name == "arr_uobj" {
					continue
				}
				out = append(out, hostileSingle("h_deg_"+where+"_"+ct.name+"_"+dc.name, degenerateMethod(idx, ct.t, dc.v, where)))
				idx++
			}
		}
	}
	// Tag: naming an attribute the result lacks is rejected since the repair of expr/http_endpoint.go
	// ("Tag attribute %q not found in result."); were it accepted again, `res.Zzz undefined` comes back
	for _, tc := range []struct {
		name string
		res  dg.Type
		tag  string
	}{
		{"tag_missing_attribute", dg.Obj(dg.F("a", dg.Prim("String"))), "zzz"},
		{"tag_missing_attribute_user_type", dg.Ref("UObj"), "zzz"},
		{"tag_on_string_attribute", dg.Obj(dg.F("a", dg.Prim("String")), dg.F("b", dg.Prim("Int"))), "a"},
		{"tag_on_required_string_attribute", dg.Obj(dg.Req("a", dg.Prim("String"))), "a"},
		{"tag_on_user_type_attribute", dg.Ref("UObj"), "a"},
	} {
		m := &dg.Method{Name: fmt.Sprintf("m%d", idx), Result: pa(dg.A(tc.res)),
			HTTP: &dg.HTTPMap{Routes: []dg.Route{{Verb: "GET", Path: fmt.Sprintf("/h%d", idx)}},
				Responses: []dg.Response{{Status: 202, Tag: []string{tc.tag, "v"}}, {Status: 200}}}}
		out = append(out, hostileSingle("h_"+tc.name, m))
		idx++
	}
	// requiredness x default product
	ptrTypes := []hType{}
	for _, ht := range hostileTypes() {
		switch ht.name {
		case "string", "int", "uint32", "float64", "boolean", "int64", "bytes", "astr":
			ptrTypes = append(ptrTypes, ht)
		}
	}
	for _, loc := range ptrLocations {
		for _, mode := range ptrModes {
			for _, ht := range ptrTypes {
				if mode == "opt" && loc != "resp_body" && loc != "err_body" && loc != "p_query_validated" {
					continue // the type x location product above already uses an optional attribute without default
				}
				out = append(out, hostileSingle("h_ptr_"+loc+"_"+mode+"_"+ht.name, ptrMethod(idx, loc, mode, ht)))
				idx++
			}
		}
	}
	tms, tnames := tagMethods(idx)
	for i, m := range tms {
		out = append(out, hostileSingle("h_"+tnames[i], m))
	}
	idx += len(tms)
	// nested collection shapes
	for _, ht := range nestedShapes() {
		for _, where := range []string{"attr", "whole"} {
			out = append(out, hostileSingle("h_"+ht.name+"_"+where, shapeMethod(idx, ht, where)))
			idx++
		}
	}
	// route sets
	for _, r1 := range routeShapes {
		for _, r2 := range routeShapes {
			out = append(out, hostileSingle("h_routes_"+routeName(r1)+"__"+routeName(r2), routeMethod(idx, r1, r2, false)))
			idx++
		}
	}
	for _, r1 := range routeShapes {
		for _, r2 := range routeShapes {
			c := hostileSingle("h_routesb_"+routeName(r1)+"__"+routeName(r2), routeMethod(idx, r1, r2, true))
			c.Design.Services[0].BasePath = "/sb/{z}"
			out = append(out, c)
			idx++
		}
	}
	pd := partialDesigns(idx + 5000)
	out = append(out, pd...)
	ms, names := credentialMethods(idx)
	for i, m := range ms {
		out = append(out, hostileSingle("h_"+names[i], m))
	}
	return out
}

// packHostile merges accepted single-deviation designs that carry no finding feature.
func packHostile(singles []DCase, size int) []DCase {
	var out []DCase
	for lo := 0; lo < len(singles); lo += size {
		hi := lo + size
		if hi > len(singles) {
			hi = len(singles)
		}
		// one service per member: goa generates the packages of a service independently, so
		// the members do not interact (several such methods inside ONE service do: see the
		// finding collection-of-user-type-body-helper)
		var svcs []*dg.Service
		var names []string
		for k, c := range singles[lo:hi] {
			src := c.Design.Services[0]
			cp := *src
			cp.Name = fmt.Sprintf("svc%d", k)
			svcs = append(svcs, &cp)
			names = append(names, strings.TrimPrefix(c.Name, "h_"))
		}
		d := &dg.Design{Name: fmt.Sprintf("hpack%d", len(out)), Types: hostilePool(), Schemes: append([]dg.Scheme{}, hostileSchemes...), Services: svcs}
		out = append(out, DCase{Stream: "hostile-pack", Name: d.Name + ":" + strings.Join(names, ","), Design: d, NoExample: true})
	}
	return out
}
