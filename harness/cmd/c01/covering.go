package main

// Covering stream: a fixed, seed-independent set of small designs written by
// hand so that every feature (and the feature pairs most likely to meet an
// untested template branch) is generated and compiled on EVERY run: every
// validation keyword on every primitive type in every transport location,
// defaults on every primitive, aliases, recursive types with views, reserved
// words and names that need escaping, routes, response shapes, security kinds,
// collections, nested arrays/maps, errors, multipart/streaming/file servers.

import (
	"fmt"
	"strings"

	dg "verifharness/designgen"
)

var allPrims = []string{"Boolean", "Int", "Int32", "Int64", "UInt", "UInt32", "UInt64", "Float32", "Float64", "String", "Bytes", "Any"}
var paramablePrims = []string{"Boolean", "Int", "Int32", "Int64", "UInt", "UInt32", "UInt64", "Float32", "Float64", "String"}
var numericPrims = []string{"Int", "Int32", "Int64", "UInt", "UInt32", "UInt64", "Float32", "Float64"}
var allFormats = []string{"date", "date-time", "uuid", "email", "hostname", "ipv4", "ipv6", "ip", "uri", "mac", "cidr", "regexp", "json", "rfc1123"}

func lc(s string) string { return strings.ToLower(s) }

func isNum(p string) bool {
	for _, n := range numericPrims {
		if n == p {
			return true
		}
	}
	return false
}

// validatedFields: one field per (primitive, applicable validation keyword).
func validatedFields(prims []string, uintEnum bool) []*dg.Field {
	var fs []*dg.Field
	for _, p := range prims {
		n := lc(p)
		switch {
		case isNum(p):
			fs = append(fs,
				dg.F(n+"_min", dg.Prim(p)).With(dg.Validation{Min: dg.Fp(1)}),
				dg.F(n+"_max", dg.Prim(p)).With(dg.Validation{Max: dg.Fp(100)}),
				dg.F(n+"_xmin", dg.Prim(p)).With(dg.Validation{ExclMin: dg.Fp(0)}),
				dg.F(n+"_xmax", dg.Prim(p)).With(dg.Validation{ExclMax: dg.Fp(101)}),
				dg.F(n+"_rng", dg.Prim(p)).With(dg.Validation{Min: dg.Fp(2), Max: dg.Fp(9)}))
			if strings.HasPrefix(p, "Float") {
				fs = append(fs, dg.F(n+"_enum", dg.Prim(p)).With(dg.Validation{Enum: []any{1.5, 2.5}}))
			} else if uintEnum || !strings.HasPrefix(p, "UInt") {
				fs = append(fs, dg.F(n+"_enum", dg.Prim(p)).With(dg.Validation{Enum: []any{1, 2, 3}}))
			}
		case p == "String":
			fs = append(fs,
				dg.F("s_enum", dg.Prim(p)).With(dg.Validation{Enum: []any{"a", "b c", "é\"q"}}),
				dg.F("s_pat", dg.Prim(p)).With(dg.Validation{Pattern: "^[a-z]+\\d*$"}),
				dg.F("s_min", dg.Prim(p)).With(dg.Validation{MinLen: dg.Ip(1)}),
				dg.F("s_max", dg.Prim(p)).With(dg.Validation{MaxLen: dg.Ip(10)}),
				dg.F("s_rng", dg.Prim(p)).With(dg.Validation{MinLen: dg.Ip(2), MaxLen: dg.Ip(5)}))
			for _, f := range allFormats {
				fs = append(fs, dg.F("s_fmt_"+strings.ReplaceAll(f, "-", "_"), dg.Prim(p)).With(dg.Validation{Format: f}))
			}
		case p == "Bytes":
			fs = append(fs,
				dg.F("b_min", dg.Prim(p)).With(dg.Validation{MinLen: dg.Ip(1)}),
				dg.F("b_max", dg.Prim(p)).With(dg.Validation{MaxLen: dg.Ip(10)}))
		case p == "Boolean":
			fs = append(fs, dg.F("bool_enum", dg.Prim(p)).With(dg.Validation{Enum: []any{true}}))
		case p == "Any":
			fs = append(fs, dg.F("any_plain", dg.Prim(p)))
		}
	}
	return fs
}

func defaultOf(p string) any {
	switch p {
	case "Boolean":
		return true
	case "Int", "Int32", "Int64", "UInt", "UInt32", "UInt64":
		return 7
	case "Float32", "Float64":
		return 2.5
	case "String":
		return "dq"
	case "Bytes":
		return "raw"
	}
	return "anyv"
}

func mapAll(fs []*dg.Field, wire func(string) string) []dg.MapEntry {
	var out []dg.MapEntry
	for _, f := range fs {
		e := dg.MapEntry{Attr: f.Name}
		if wire != nil {
			e.Wire = wire(f.Name)
		}
		out = append(out, e)
	}
	return out
}

func hdrWire(n string) string { return "X-" + strings.ReplaceAll(n, "_", "-") }

func cloneFields(fs []*dg.Field, mod func(*dg.Field)) []*dg.Field {
	var out []*dg.Field
	for _, f := range fs {
		c := *f
		if f.A.V != nil {
			v := *f.A.V
			c.A.V = &v
		}
		if mod != nil {
			mod(&c)
		}
		out = append(out, &c)
	}
	return out
}

func rt(verb, path string) []dg.Route { return []dg.Route{{Verb: verb, Path: path}} }

func coveringDesigns() []DCase {
	var out []DCase
	add := func(d *dg.Design) { out = append(out, DCase{Stream: "covering", Name: d.Name, Design: d}) }

	// 1. every validation keyword on every primitive, in the request body and the response body
	{
		fs := validatedFields(allPrims, true)
		add(svc1("cov_val_body",
			&dg.Method{Name: "opt", Payload: pa(dg.A(dg.Obj(fs...))), Result: pa(dg.A(dg.Obj(cloneFields(fs, nil)...))), HTTP: &dg.HTTPMap{Routes: rt("POST", "/opt")}},
			&dg.Method{Name: "req", Payload: pa(dg.A(dg.Obj(cloneFields(fs, func(f *dg.Field) { f.Required = true })...))),
				Result: pa(dg.A(dg.Obj(cloneFields(fs, func(f *dg.Field) { f.Required = true })...))), HTTP: &dg.HTTPMap{Routes: rt("POST", "/req")}}))
	}
	// 2. ... in the query string (optional and required)
	{
		fs := validatedFields(paramablePrims, true)
		add(svc1("cov_val_query",
			&dg.Method{Name: "opt", Payload: pa(dg.A(dg.Obj(fs...))), HTTP: &dg.HTTPMap{Routes: rt("GET", "/opt"), Params: mapAll(fs, nil)}},
			&dg.Method{Name: "req", Payload: pa(dg.A(dg.Obj(cloneFields(fs, func(f *dg.Field) { f.Required = true })...))),
				HTTP: &dg.HTTPMap{Routes: rt("GET", "/req"), Params: mapAll(fs, func(n string) string { return strings.ToUpper(n[:1]) + n[1:] })}}))
	}
	// 3. ... in request headers and in response headers
	{
		fs := validatedFields(paramablePrims, true)
		add(svc1("cov_val_header",
			&dg.Method{Name: "opt", Payload: pa(dg.A(dg.Obj(fs...))), Result: pa(dg.A(dg.Obj(cloneFields(fs, nil)...))),
				HTTP: &dg.HTTPMap{Routes: rt("GET", "/opt"), Headers: mapAll(fs, hdrWire), Responses: []dg.Response{{Status: 200, Headers: mapAll(fs, hdrWire)}}}},
			&dg.Method{Name: "req", Payload: pa(dg.A(dg.Obj(cloneFields(fs, func(f *dg.Field) { f.Required = true })...))),
				Result: pa(dg.A(dg.Obj(cloneFields(fs, func(f *dg.Field) { f.Required = true })...))),
				HTTP:   &dg.HTTPMap{Routes: rt("GET", "/req"), Headers: mapAll(fs, hdrWire), Responses: []dg.Response{{Status: 200, Headers: mapAll(fs, hdrWire)}}}}))
	}
	// 4. validated path parameters of every primitive
	{
		var ms []*dg.Method
		for _, p := range paramablePrims {
			n := lc(p)
			var f *dg.Field
			switch {
			case isNum(p):
				f = dg.Req("pv", dg.Prim(p)).With(dg.Validation{Min: dg.Fp(1), Max: dg.Fp(50)})
			case p == "String":
				f = dg.Req("pv", dg.Prim(p)).With(dg.Validation{Format: "uuid"})
			default:
				f = dg.Req("pv", dg.Prim(p))
			}
			ms = append(ms, &dg.Method{Name: "p_" + n, Payload: pa(dg.A(dg.Obj(f, dg.F("extra", dg.Prim("String"))))),
				HTTP: &dg.HTTPMap{Routes: rt("GET", "/p/"+n+"/{pv}"), Params: []dg.MapEntry{{Attr: "extra"}}}})
		}
		add(svc1("cov_val_path", ms...))
	}
	// 5. arrays of every primitive in query, header and path; validated elements
	{
		var q, h []*dg.Field
		var ms []*dg.Method
		for _, p := range paramablePrims {
			n := lc(p)
			e := dg.A(dg.Prim(p))
			if isNum(p) {
				e.V = &dg.Validation{Min: dg.Fp(0)}
			} else if p == "String" {
				e.V = &dg.Validation{MinLen: dg.Ip(1)}
			}
			fq := dg.F("q_"+n, dg.ArrayOf(e)).With(dg.Validation{MinLen: dg.Ip(1)})
			q = append(q, fq, dg.Req("qr_"+n, dg.ArrayOf(dg.A(dg.Prim(p)))))
			h = append(h, dg.F("h_"+n, dg.ArrayOf(e)), dg.Req("hr_"+n, dg.ArrayOf(dg.A(dg.Prim(p)))))
			ms = append(ms, &dg.Method{Name: "path_" + n, Payload: pa(dg.A(dg.Obj(dg.Req("pv", dg.ArrayOf(dg.A(dg.Prim(p))))))),
				HTTP: &dg.HTTPMap{Routes: rt("GET", "/pa/"+n+"/{pv}")}})
		}
		ms = append(ms,
			&dg.Method{Name: "query", Payload: pa(dg.A(dg.Obj(q...))), HTTP: &dg.HTTPMap{Routes: rt("GET", "/q"), Params: mapAll(q, nil)}},
			&dg.Method{Name: "header", Payload: pa(dg.A(dg.Obj(h...))), Result: pa(dg.A(dg.Obj(cloneFields(h, nil)...))),
				HTTP: &dg.HTTPMap{Routes: rt("GET", "/h"), Headers: mapAll(h, hdrWire), Responses: []dg.Response{{Status: 200, Headers: mapAll(h, hdrWire)}}}})
		add(svc1("cov_param_arrays", ms...))
	}
	// 6. map query parameters (map of primitives, map of arrays), MapParams
	{
		var q []*dg.Field
		for _, p := range []string{"String", "Int", "UInt32", "Float64", "Boolean"} {
			n := lc(p)
			q = append(q, dg.F("m_"+n, dg.MapOf(dg.A(dg.Prim("String")), dg.A(dg.Prim(p)))),
				dg.F("ma_"+n, dg.MapOf(dg.A(dg.Prim("String")), dg.A(dg.ArrayOf(dg.A(dg.Prim(p)))))))
		}
		q = append(q, dg.Req("mr", dg.MapOf(dg.A(dg.Prim("String")), dg.A(dg.Prim("String")))).With(dg.Validation{MinLen: dg.Ip(1)}),
			dg.F("mk_int", dg.MapOf(dg.A(dg.Prim("Int")), dg.A(dg.Prim("String")))))
		add(svc1("cov_param_maps",
			&dg.Method{Name: "maps", Payload: pa(dg.A(dg.Obj(q...))), HTTP: &dg.HTTPMap{Routes: rt("GET", "/m"), Params: mapAll(q, nil)}},
			&dg.Method{Name: "all", Payload: pa(dg.A(dg.MapOf(dg.A(dg.Prim("String")), dg.A(dg.Prim("String"))))), HTTP: &dg.HTTPMap{Routes: rt("GET", "/all"), MapParams: "*"}},
			&dg.Method{Name: "allarr", Payload: pa(dg.A(dg.MapOf(dg.A(dg.Prim("String")), dg.A(dg.ArrayOf(dg.A(dg.Prim("String"))))))), HTTP: &dg.HTTPMap{Routes: rt("GET", "/allarr"), MapParams: "*"}},
			&dg.Method{Name: "named", Payload: pa(dg.A(dg.Obj(dg.F("rest", dg.MapOf(dg.A(dg.Prim("String")), dg.A(dg.Prim("String")))), dg.F("a", dg.Prim("Int"))))),
				HTTP: &dg.HTTPMap{Routes: rt("GET", "/named"), MapParams: "rest", Params: []dg.MapEntry{{Attr: "a"}}}}))
	}
	// 7. defaults on every primitive: body, query, header, response body
	{
		var b, q []*dg.Field
		for _, p := range allPrims {
			if p == "Any" || p == "Bytes" {
				continue
			}
			b = append(b, dg.F("d_"+lc(p), dg.Prim(p)).Def(defaultOf(p)))
		}
		for _, p := range paramablePrims {
			q = append(q, dg.F("d_"+lc(p), dg.Prim(p)).Def(defaultOf(p)))
		}
		add(svc1("cov_defaults",
			&dg.Method{Name: "body", Payload: pa(dg.A(dg.Obj(b...))), Result: pa(dg.A(dg.Obj(cloneFields(b, nil)...))), HTTP: &dg.HTTPMap{Routes: rt("POST", "/b")}},
			&dg.Method{Name: "query", Payload: pa(dg.A(dg.Obj(q...))), HTTP: &dg.HTTPMap{Routes: rt("GET", "/q"), Params: mapAll(q, nil)}},
			&dg.Method{Name: "header", Payload: pa(dg.A(dg.Obj(cloneFields(q, nil)...))), Result: pa(dg.A(dg.Obj(cloneFields(q, nil)...))),
				HTTP: &dg.HTTPMap{Routes: rt("GET", "/h"), Headers: mapAll(q, hdrWire), Responses: []dg.Response{{Status: 200, Headers: mapAll(q, hdrWire)}}}}))
	}
	// 8. aliases: alias + default + body, validated alias, arrays and maps of aliases, alias of alias
	{
		d := svc1("cov_alias",
			&dg.Method{Name: "m", Payload: pa(dg.A(dg.Obj(
				dg.F("a", dg.Ref("AStr")).Def("dflt"), dg.Req("b", dg.Ref("AInt")), dg.F("c", dg.Ref("AFloat")).Def(1.5), dg.F("u", dg.Ref("AUint")),
				dg.F("arr", dg.ArrayOf(dg.A(dg.Ref("AStr")))), dg.F("mp", dg.MapOf(dg.A(dg.Ref("AStr")), dg.A(dg.Ref("AInt")))), dg.F("by", dg.Ref("ABytes"))))),
				Result: pa(dg.A(dg.Ref("Holder"))), HTTP: &dg.HTTPMap{Routes: rt("POST", "/m")}},
			&dg.Method{Name: "alias_array_result", Result: pa(dg.A(dg.ArrayOf(dg.A(dg.Ref("AStr"))))), HTTP: &dg.HTTPMap{Routes: rt("GET", "/aar")}})
		d.Types = []*dg.UserType{
			{Name: "AStr", Base: dg.Prim("String"), V: &dg.Validation{MinLen: dg.Ip(1), MaxLen: dg.Ip(20)}},
			{Name: "AInt", Base: dg.Prim("Int"), V: &dg.Validation{Min: dg.Fp(0)}},
			{Name: "AFloat", Base: dg.Prim("Float64")},
			{Name: "AUint", Base: dg.Prim("UInt32"), V: &dg.Validation{Max: dg.Fp(10)}},
			{Name: "ABytes", Base: dg.Prim("Bytes")},
			{Name: "Holder", Base: dg.Obj(dg.F("x", dg.Ref("AStr")).Def("hx"), dg.Req("y", dg.Ref("AInt")), dg.F("zs", dg.ArrayOf(dg.A(dg.Ref("AFloat")))))},
		}
		add(d)
	}
	// 9. recursive and mutually recursive types, recursive result type with views, collections
	{
		d := svc1("cov_recursive",
			&dg.Method{Name: "tree", Payload: pa(dg.A(dg.Ref("Node"))), Result: pa(dg.A(dg.Ref("Node"))), HTTP: &dg.HTTPMap{Routes: rt("POST", "/tree")}},
			&dg.Method{Name: "viewed", Payload: pa(dg.A(dg.Ref("Node"))), Result: pa(dg.A(dg.Ref("RNode"))), HTTP: &dg.HTTPMap{Routes: rt("POST", "/viewed")}},
			&dg.Method{Name: "tiny", Result: pa(dg.A(dg.Ref("RNode"))), ResultView: "tiny", HTTP: &dg.HTTPMap{Routes: rt("GET", "/tiny")}},
			&dg.Method{Name: "coll", Result: pa(dg.A(dg.Type{Kind: "collection", Ref: "RNode"})), HTTP: &dg.HTTPMap{Routes: rt("GET", "/coll")}},
			&dg.Method{Name: "mutual", Payload: pa(dg.A(dg.Ref("Ping"))), Result: pa(dg.A(dg.Ref("Pong"))), HTTP: &dg.HTTPMap{Routes: rt("POST", "/mutual")}})
		d.Types = []*dg.UserType{
			{Name: "Node", Base: dg.Obj(dg.Req("v", dg.Prim("Int")).With(dg.Validation{Min: dg.Fp(0)}), dg.F("next", dg.Ref("Node")), dg.F("kids", dg.ArrayOf(dg.A(dg.Ref("Node")))), dg.F("idx", dg.MapOf(dg.A(dg.Prim("String")), dg.A(dg.Ref("Node")))))},
			{Name: "Ping", Base: dg.Obj(dg.F("pong", dg.Ref("Pong")), dg.F("n", dg.Prim("Int")))},
			{Name: "Pong", Base: dg.Obj(dg.F("ping", dg.Ref("Ping")), dg.F("s", dg.Prim("String")).With(dg.Validation{Format: "email"}))},
			// a result type holding recursive plain types (a result type that reaches itself does not compile: witness stream)
			{Name: "RNode", Result: true, Base: dg.Obj(dg.Req("v", dg.Prim("String")), dg.F("w", dg.Prim("Int")), dg.F("tree", dg.Ref("Node")), dg.F("pings", dg.ArrayOf(dg.A(dg.Ref("Ping"))))),
				Views: []dg.View{{Name: "default", Attrs: []dg.ViewField{{Name: "v"}, {Name: "w"}, {Name: "tree"}, {Name: "pings"}}},
					{Name: "tiny", Attrs: []dg.ViewField{{Name: "v"}, {Name: "tree"}}}}},
		}
		add(d)
	}
	// 10. reserved words (keywords, predeclared identifiers, package names) as attribute names everywhere
	{
		words := []string{"type", "func", "package", "error", "string", "len", "fmt", "http", "json", "os", "url", "time",
			"break", "default", "interface", "select", "case", "defer", "go", "map", "struct", "chan", "else", "goto", "switch", "const",
			"fallthrough", "if", "range", "continue", "for", "import", "return", "var",
			"bool", "int", "nil", "true", "false", "iota", "append", "new", "make", "any", "byte", "rune", "cap", "copy", "panic", "print", "float64", "uint32"}
		var body, query, header []*dg.Field
		for i, w := range words {
			p := []string{"String", "Int", "Boolean"}[i%3]
			body = append(body, dg.F(w, dg.Prim(p)))
			query = append(query, dg.F(w, dg.Prim(p)))
			header = append(header, dg.F(w, dg.Prim(p)))
		}
		for i := range query {
			if i%4 == 0 {
				query[i].Required = true
				header[i].Required = true
				body[i].Required = true
			}
		}
		add(svc1("cov_reserved_attrs",
			&dg.Method{Name: "body", Payload: pa(dg.A(dg.Obj(body...))), Result: pa(dg.A(dg.Obj(cloneFields(body, nil)...))), HTTP: &dg.HTTPMap{Routes: rt("POST", "/b")}},
			&dg.Method{Name: "query", Payload: pa(dg.A(dg.Obj(query...))), HTTP: &dg.HTTPMap{Routes: rt("GET", "/q"), Params: mapAll(query, nil)}},
			&dg.Method{Name: "header", Payload: pa(dg.A(dg.Obj(header...))), Result: pa(dg.A(dg.Obj(cloneFields(header, nil)...))),
				HTTP: &dg.HTTPMap{Routes: rt("GET", "/h"), Headers: mapAll(header, hdrWire), Responses: []dg.Response{{Status: 200, Headers: mapAll(header, hdrWire)}}}},
			&dg.Method{Name: "path", Payload: pa(dg.A(dg.Obj(dg.Req("type", dg.Prim("String")), dg.Req("func", dg.Prim("Int")), dg.Req("http", dg.Prim("String")), dg.Req("fmt", dg.Prim("String")), dg.Req("url", dg.Prim("Int"))))),
				HTTP: &dg.HTTPMap{Routes: rt("GET", "/p/{type}/{func}/{http}/{fmt}/{url}")}},
			&dg.Method{Name: "cookie", Payload: pa(dg.A(dg.Obj(dg.F("time", dg.Prim("String")), dg.Req("json", dg.Prim("String")), dg.F("os", dg.Prim("String")), dg.F("range", dg.Prim("String"))))),
				HTTP: &dg.HTTPMap{Routes: rt("GET", "/c"), Cookies: []dg.MapEntry{{Attr: "time"}, {Attr: "json"}, {Attr: "os"}, {Attr: "range"}}}}))
	}
	// 11. reserved words as method, service, type and error names
	{
		d := &dg.Design{Name: "cov_reserved_names"}
		for _, sn := range []string{"type", "error", "string", "http"} {
			s := &dg.Service{Name: sn}
			for _, mn := range []string{"func", "len", "package", "string", "error", "type", "fmt", "var"} {
				s.Methods = append(s.Methods, &dg.Method{Name: mn, Payload: pa(dg.A(dg.Obj(dg.F("a", dg.Prim("String"))))), Result: pa(dg.A(dg.Ref("range"))),
					Errors: []dg.ErrorDef{{Name: "select"}, {Name: "error"}},
					HTTP:   &dg.HTTPMap{Routes: rt("POST", "/"+sn+"/"+mn), Errors: []dg.ErrResponse{{Name: "select", R: dg.Response{Status: 404}}, {Name: "error", R: dg.Response{Status: 400}}}}})
			}
			d.Services = append(d.Services, s)
		}
		d.Types = []*dg.UserType{{Name: "range", Base: dg.Obj(dg.F("go", dg.Prim("String")), dg.F("chan", dg.Ref("int")))}, {Name: "int", Base: dg.Obj(dg.F("x", dg.Prim("Int")))}}
		add(d)
	}
	// 12. names that need cleaning: dashes, dots, spaces, leading underscores, upper case, acronyms, non-ASCII letters, name:wire suffix
	{
		names := []string{"x-val", "a.b", "my attr", "_lead", "trail_", "UPPER", "userID", "user_id2", "http_url", "api-key", "étage", "Ünï", "c__d", "x1", "v2_beta", "Äb9", "utf8_name", "json_data", "sql"}
		var b, q []*dg.Field
		for i, n := range names {
			b = append(b, dg.F(n, dg.Prim([]string{"String", "Int"}[i%2])))
			q = append(q, dg.F(n, dg.Prim([]string{"String", "Int"}[i%2])))
		}
		d := &dg.Design{Name: "cov_names", Services: []*dg.Service{{Name: "my-svc.v1", Methods: []*dg.Method{
			{Name: "get-it", Payload: pa(dg.A(dg.Obj(b...))), Result: pa(dg.A(dg.Obj(cloneFields(b, nil)...))), HTTP: &dg.HTTPMap{Routes: rt("POST", "/get-it")}},
			{Name: "list.all", Payload: pa(dg.A(dg.Obj(q...))), HTTP: &dg.HTTPMap{Routes: rt("GET", "/list"), Params: mapAll(q, nil)}},
			{Name: "with space", Payload: pa(dg.A(dg.Ref("my-type"))), Result: pa(dg.A(dg.Ref("my_type2"))), HTTP: &dg.HTTPMap{Routes: rt("POST", "/ws")}},
			{Name: "HTTPGet", Payload: pa(dg.A(dg.Obj(dg.F("h", dg.Prim("String")), dg.F("q", dg.Prim("Int"))))),
				HTTP: &dg.HTTPMap{Routes: rt("GET", "/hg"), Headers: []dg.MapEntry{{Attr: "h", Wire: "X-Custom-Hdr"}}, Params: []dg.MapEntry{{Attr: "q", Wire: "Q-wire.name"}}}},
		}}, {Name: "svc_two", Methods: []*dg.Method{{Name: "get-it", Result: pa(dg.A(dg.Ref("my-type"))), HTTP: &dg.HTTPMap{Routes: rt("GET", "/two")}}}}}}
		d.Types = []*dg.UserType{{Name: "my-type", Base: dg.Obj(dg.F("f-1", dg.Prim("String")), dg.F("f.2", dg.Prim("Int")))},
			{Name: "my_type2", Base: dg.Obj(dg.F("inner", dg.Ref("my-type")))}}
		add(d)
	}
	// 13. several routes and verbs, base paths, wildcard
	{
		d := svc1("cov_routes",
			&dg.Method{Name: "multi", Payload: pa(dg.A(dg.Obj(dg.Req("id", dg.Prim("Int")), dg.F("q", dg.Prim("String"))))),
				HTTP: &dg.HTTPMap{Routes: []dg.Route{{Verb: "GET", Path: "/a/{id}"}, {Verb: "POST", Path: "/b/{id}"}, {Verb: "DELETE", Path: "/c/{id}/x"}, {Verb: "PATCH", Path: "/d/{id}"}}, Params: []dg.MapEntry{{Attr: "q"}}}},
			&dg.Method{Name: "two_vars", Payload: pa(dg.A(dg.Obj(dg.Req("a", dg.Prim("String")), dg.Req("b", dg.Prim("UInt64")), dg.F("body1", dg.Prim("String"))))),
				HTTP: &dg.HTTPMap{Routes: []dg.Route{{Verb: "PUT", Path: "/t/{a}/u/{b}"}, {Verb: "PUT", Path: "/alt/{b}/{a}"}}}},
			&dg.Method{Name: "wild", Payload: pa(dg.A(dg.Obj(dg.Req("rest", dg.Prim("String"))))), HTTP: &dg.HTTPMap{Routes: rt("GET", "/w/{*rest}")}},
			&dg.Method{Name: "verbs", HTTP: &dg.HTTPMap{Routes: []dg.Route{{Verb: "OPTIONS", Path: "/v"}, {Verb: "HEAD", Path: "/v"}, {Verb: "TRACE", Path: "/v"}}}},
			&dg.Method{Name: "abs", Payload: pa(dg.A(dg.Prim("String"))), HTTP: &dg.HTTPMap{Routes: rt("GET", "//abs/{seg}")}})
		d.BasePath = "/api/v1"
		d.Services[0].BasePath = "/svc"
		add(d)
	}
	// 14. response shapes
	{
		res := dg.Obj(dg.Req("ra", dg.Prim("String")), dg.F("rb", dg.Prim("Int")), dg.F("rc", dg.Prim("String")), dg.F("rd", dg.ArrayOf(dg.A(dg.Prim("String")))), dg.F("re", dg.Prim("Boolean")))
		r := func() *dg.Attr { return pa(dg.A(res)) }
		add(svc1("cov_responses",
			&dg.Method{Name: "body_only", Result: r(), HTTP: &dg.HTTPMap{Routes: rt("GET", "/1")}},
			&dg.Method{Name: "headers_only", Result: pa(dg.A(dg.Obj(dg.Req("ra", dg.Prim("String")), dg.F("rb", dg.Prim("Int"))))),
				HTTP: &dg.HTTPMap{Routes: rt("GET", "/2"), Responses: []dg.Response{{Status: 204, Headers: []dg.MapEntry{{Attr: "ra", Wire: "X-A"}, {Attr: "rb", Wire: "X-B"}}}}}},
			&dg.Method{Name: "mixed", Result: r(), HTTP: &dg.HTTPMap{Routes: rt("GET", "/3"), Responses: []dg.Response{{Status: 201,
				Headers: []dg.MapEntry{{Attr: "ra", Wire: "Location"}, {Attr: "rd", Wire: "X-D"}}, Cookies: []dg.MapEntry{{Attr: "rc", Wire: "sess"}}}}}},
			&dg.Method{Name: "tagged", Result: r(), HTTP: &dg.HTTPMap{Routes: rt("GET", "/4"), Responses: []dg.Response{
				{Status: 202, Tag: []string{"rc", "acc"}}, {Status: 201, Tag: []string{"ra", "new"}, Headers: []dg.MapEntry{{Attr: "rb", Wire: "X-B"}}}, {Status: 200}}}},
			&dg.Method{Name: "body_attr", Result: r(), HTTP: &dg.HTTPMap{Routes: rt("GET", "/5"), Responses: []dg.Response{{Status: 200, Body: &dg.BodySpec{Attr: "rd"}, Headers: []dg.MapEntry{{Attr: "ra", Wire: "X-A"}}}}}},
			&dg.Method{Name: "body_list", Result: r(), HTTP: &dg.HTTPMap{Routes: rt("GET", "/6"), Responses: []dg.Response{{Status: 200, Body: &dg.BodySpec{Attrs: []string{"ra", "rb"}}, Headers: []dg.MapEntry{{Attr: "rc", Wire: "X-C"}}}}}},
			&dg.Method{Name: "empty", HTTP: &dg.HTTPMap{Routes: rt("GET", "/7"), Responses: []dg.Response{{Status: 204}}}},
			&dg.Method{Name: "empty_body", Result: r(), HTTP: &dg.HTTPMap{Routes: rt("GET", "/8"), Responses: []dg.Response{{Status: 200, Body: &dg.BodySpec{Empty: true}, Headers: []dg.MapEntry{{Attr: "ra", Wire: "X-A"}}}}}},
			&dg.Method{Name: "ctype", Result: r(), HTTP: &dg.HTTPMap{Routes: rt("GET", "/9"), Responses: []dg.Response{{Status: 200, ContentType: "application/vnd.custom+json"}}}},
			&dg.Method{Name: "prim_str", Result: pa(dg.A(dg.Prim("String"))), HTTP: &dg.HTTPMap{Routes: rt("GET", "/10")}},
			&dg.Method{Name: "prim_int", Result: pa(dg.A(dg.Prim("Int"))), HTTP: &dg.HTTPMap{Routes: rt("GET", "/11")}},
			&dg.Method{Name: "prim_bytes", Result: pa(dg.A(dg.Prim("Bytes"))), HTTP: &dg.HTTPMap{Routes: rt("GET", "/12")}},
			&dg.Method{Name: "prim_any", Result: pa(dg.A(dg.Prim("Any"))), HTTP: &dg.HTTPMap{Routes: rt("GET", "/13")}},
			&dg.Method{Name: "arr", Result: pa(dg.A(dg.ArrayOf(dg.A(dg.Prim("Float64"))))), HTTP: &dg.HTTPMap{Routes: rt("GET", "/14")}},
			&dg.Method{Name: "mp", Result: pa(dg.A(dg.MapOf(dg.A(dg.Prim("String")), dg.A(dg.Prim("Int"))))), HTTP: &dg.HTTPMap{Routes: rt("GET", "/15")}},
			&dg.Method{Name: "prim_header", Result: pa(dg.A(dg.Prim("String"))), HTTP: &dg.HTTPMap{Routes: rt("GET", "/16"), Responses: []dg.Response{{Status: 200, Headers: []dg.MapEntry{{Attr: "rh", Wire: "X-Rh"}}}}}}))
	}
	// 15. security kinds, requirement combinations, scopes, levels
	{
		d := &dg.Design{Name: "cov_security",
			Schemes:  []dg.Scheme{{Kind: "basic", Name: "basic_sch"}, {Kind: "apikey", Name: "key_sch"}, {Kind: "jwt", Name: "jwt_sch", Scopes: []string{"api:read", "api:write"}}, {Kind: "oauth2", Name: "oauth_sch", Scopes: []string{"api:read", "api:write"}}},
			Security: []dg.Requirement{{Schemes: []string{"key_sch"}}}}
		sec := func(fn, scheme string, req bool, n string) *dg.Field {
			return &dg.Field{Name: n, A: dg.Attr{T: dg.Prim("String"), Sec: &dg.SecAttrKind{Fn: fn, Scheme: scheme}}, Required: req}
		}
		s := &dg.Service{Name: "sec", Security: []dg.Requirement{{Schemes: []string{"jwt_sch"}, Scopes: []string{"api:read"}}}}
		s.Methods = []*dg.Method{
			{Name: "svc_level", Payload: pa(dg.A(dg.Obj(sec("Token", "", true, "token"), dg.F("x", dg.Prim("Int"))))), HTTP: &dg.HTTPMap{Routes: rt("POST", "/1")}},
			{Name: "basic", Security: []dg.Requirement{{Schemes: []string{"basic_sch"}}}, Payload: pa(dg.A(dg.Obj(sec("Username", "", true, "user"), sec("Password", "", true, "pass")))), HTTP: &dg.HTTPMap{Routes: rt("POST", "/2")}},
			{Name: "key_header", Security: []dg.Requirement{{Schemes: []string{"key_sch"}}}, Payload: pa(dg.A(dg.Obj(sec("APIKey", "key_sch", true, "key")))),
				HTTP: &dg.HTTPMap{Routes: rt("GET", "/3"), Headers: []dg.MapEntry{{Attr: "key", Wire: "X-Api-Key"}}}},
			{Name: "key_query", Security: []dg.Requirement{{Schemes: []string{"key_sch"}}}, Payload: pa(dg.A(dg.Obj(sec("APIKey", "key_sch", false, "key")))),
				HTTP: &dg.HTTPMap{Routes: rt("GET", "/4"), Params: []dg.MapEntry{{Attr: "key", Wire: "k"}}}},
			{Name: "oauth", Security: []dg.Requirement{{Schemes: []string{"oauth_sch"}, Scopes: []string{"api:write"}}}, Payload: pa(dg.A(dg.Obj(sec("AccessToken", "", true, "access")))), HTTP: &dg.HTTPMap{Routes: rt("GET", "/5")}},
			{Name: "both", Security: []dg.Requirement{{Schemes: []string{"jwt_sch", "key_sch"}, Scopes: []string{"api:read"}}},
				Payload: pa(dg.A(dg.Obj(sec("Token", "", true, "token"), sec("APIKey", "key_sch", true, "key")))), HTTP: &dg.HTTPMap{Routes: rt("GET", "/6"), Params: []dg.MapEntry{{Attr: "key"}}}},
			{Name: "either", Security: []dg.Requirement{{Schemes: []string{"basic_sch"}}, {Schemes: []string{"jwt_sch"}}, {Schemes: []string{"oauth_sch"}}},
				Payload: pa(dg.A(dg.Obj(sec("Username", "", false, "user"), sec("Password", "", false, "pass"), sec("Token", "", false, "token"), sec("AccessToken", "", false, "access")))),
				HTTP:    &dg.HTTPMap{Routes: rt("POST", "/7"), Headers: []dg.MapEntry{{Attr: "token", Wire: "X-Token"}}, Params: []dg.MapEntry{{Attr: "access", Wire: "oauth"}}}},
			{Name: "open", NoSecurity: true, HTTP: &dg.HTTPMap{Routes: rt("GET", "/8")}},
		}
		api := &dg.Service{Name: "apilevel", Methods: []*dg.Method{{Name: "m", Payload: pa(dg.A(dg.Obj(sec("APIKey", "key_sch", true, "key")))),
			HTTP: &dg.HTTPMap{Routes: rt("GET", "/al"), Headers: []dg.MapEntry{{Attr: "key", Wire: "Authorization"}}}}}}
		d.Services = []*dg.Service{s, api}
		add(d)
	}
	// 16. result types: views, nested result types, collections, explicit view, collection inside an object
	{
		d := svc1("cov_result_types",
			&dg.Method{Name: "one", Result: pa(dg.A(dg.Ref("Outer"))), HTTP: &dg.HTTPMap{Routes: rt("GET", "/1")}},
			&dg.Method{Name: "many", Result: pa(dg.A(dg.Type{Kind: "collection", Ref: "Outer"})), HTTP: &dg.HTTPMap{Routes: rt("GET", "/2")}},
			&dg.Method{Name: "fixed", Result: pa(dg.A(dg.Ref("Outer"))), ResultView: "tiny", HTTP: &dg.HTTPMap{Routes: rt("GET", "/3")}},
			&dg.Method{Name: "many_fixed", Result: pa(dg.A(dg.Type{Kind: "collection", Ref: "Outer"})), ResultView: "tiny", HTTP: &dg.HTTPMap{Routes: rt("GET", "/4")}},
			&dg.Method{Name: "in_object", Result: pa(dg.A(dg.Obj(dg.F("o", dg.Ref("Outer")), dg.F("l", dg.Type{Kind: "collection", Ref: "Inner"}), dg.F("n", dg.Prim("Int"))))), HTTP: &dg.HTTPMap{Routes: rt("GET", "/5")}},
			&dg.Method{Name: "as_payload", Payload: pa(dg.A(dg.Ref("Outer"))), Result: pa(dg.A(dg.Ref("Inner"))), HTTP: &dg.HTTPMap{Routes: rt("POST", "/6")}},
			&dg.Method{Name: "hdr", Result: pa(dg.A(dg.Ref("Outer"))), HTTP: &dg.HTTPMap{Routes: rt("GET", "/7"), Responses: []dg.Response{{Status: 200, Headers: []dg.MapEntry{{Attr: "a", Wire: "X-A"}}}}}},
			&dg.Method{Name: "arr_of_rt", Result: pa(dg.A(dg.ArrayOf(dg.A(dg.Ref("Inner"))))), HTTP: &dg.HTTPMap{Routes: rt("GET", "/8")}},
			&dg.Method{Name: "map_of_rt", Result: pa(dg.A(dg.MapOf(dg.A(dg.Prim("String")), dg.A(dg.Ref("Inner"))))), HTTP: &dg.HTTPMap{Routes: rt("GET", "/9")}})
		d.Types = []*dg.UserType{
			{Name: "Inner", Result: true, Base: dg.Obj(dg.Req("i1", dg.Prim("String")).With(dg.Validation{MinLen: dg.Ip(1)}), dg.F("i2", dg.Prim("Int")).Def(3), dg.F("i3", dg.ArrayOf(dg.A(dg.Prim("String"))))),
				Views: []dg.View{{Name: "default", Attrs: []dg.ViewField{{Name: "i1"}, {Name: "i2"}, {Name: "i3"}}}, {Name: "tiny", Attrs: []dg.ViewField{{Name: "i1"}}}}},
			{Name: "Outer", Result: true, Base: dg.Obj(dg.Req("a", dg.Prim("String")), dg.F("b", dg.Prim("Int")), dg.F("inner", dg.Ref("Inner")), dg.F("list", dg.Type{Kind: "collection", Ref: "Inner"}), dg.F("plain", dg.Ref("Plain"))),
				Views: []dg.View{{Name: "default", Attrs: []dg.ViewField{{Name: "a"}, {Name: "b"}, {Name: "inner"}, {Name: "list"}, {Name: "plain"}}},
					{Name: "tiny", Attrs: []dg.ViewField{{Name: "a"}, {Name: "inner", View: "tiny"}}},
					{Name: "mid", Attrs: []dg.ViewField{{Name: "a"}, {Name: "b"}, {Name: "list", View: "tiny"}}}}},
			{Name: "Plain", Base: dg.Obj(dg.F("p", dg.Prim("String")), dg.F("deep", dg.ArrayOf(dg.A(dg.Ref("Plain")))))},
		}
		add(d)
	}
	// 17. nested collections: maps of arrays, arrays of maps, arrays of arrays, maps of maps, of user types; validations on elements and keys
	{
		str, in := dg.A(dg.Prim("String")), dg.A(dg.Prim("Int"))
		ev := dg.A(dg.Prim("String"))
		ev.V = &dg.Validation{Pattern: "^x"}
		kv := dg.A(dg.Prim("String"))
		kv.V = &dg.Validation{MinLen: dg.Ip(1)}
		fs := []*dg.Field{
			dg.F("m_a", dg.MapOf(str, dg.A(dg.ArrayOf(in)))), dg.F("a_m", dg.ArrayOf(dg.A(dg.MapOf(str, in)))), dg.F("a_a", dg.ArrayOf(dg.A(dg.ArrayOf(str)))),
			dg.F("m_m", dg.MapOf(str, dg.A(dg.MapOf(in, str)))), dg.F("m_u", dg.MapOf(str, dg.A(dg.Ref("Item")))), dg.F("a_u", dg.ArrayOf(dg.A(dg.Ref("Item")))),
			dg.F("m_au", dg.MapOf(in, dg.A(dg.ArrayOf(dg.A(dg.Ref("Item")))))), dg.F("a_v", dg.ArrayOf(ev)).With(dg.Validation{MinLen: dg.Ip(1), MaxLen: dg.Ip(5)}),
			dg.F("m_kv", dg.MapOf(kv, ev)).With(dg.Validation{MinLen: dg.Ip(1)}), dg.Req("a_bytes", dg.ArrayOf(dg.A(dg.Prim("Bytes")))), dg.F("a_any", dg.ArrayOf(dg.A(dg.Prim("Any")))),
			dg.F("m_any", dg.MapOf(str, dg.A(dg.Prim("Any")))),
			dg.F("m_u32", dg.MapOf(dg.A(dg.Prim("UInt32")), dg.A(dg.Prim("UInt64")))),
		}
		d := svc1("cov_collections",
			&dg.Method{Name: "m", Payload: pa(dg.A(dg.Obj(fs...))), Result: pa(dg.A(dg.Obj(cloneFields(fs, nil)...))), HTTP: &dg.HTTPMap{Routes: rt("POST", "/m")}},
			&dg.Method{Name: "ut", Payload: pa(dg.A(dg.Ref("Bag"))), Result: pa(dg.A(dg.Ref("Bag"))), HTTP: &dg.HTTPMap{Routes: rt("POST", "/ut")}},
			&dg.Method{Name: "arr_payload", Payload: pa(dg.A(dg.ArrayOf(dg.A(dg.Ref("Item"))))), Result: pa(dg.A(dg.MapOf(str, dg.A(dg.ArrayOf(dg.A(dg.Ref("Item"))))))), HTTP: &dg.HTTPMap{Routes: rt("POST", "/ap")}})
		d.Types = []*dg.UserType{{Name: "Item", Base: dg.Obj(dg.Req("n", dg.Prim("String")), dg.F("q", dg.Prim("UInt32")).With(dg.Validation{Max: dg.Fp(9)}))},
			{Name: "Bag", Base: dg.Obj(cloneFields(fs, nil)...)}}
		add(d)
	}
	// 18. errors: custom types, flags, shared status codes, error headers, three levels
	{
		et := dg.Obj(dg.Req("name", dg.Prim("String")), dg.F("code", dg.Prim("Int")), dg.F("detail", dg.Prim("String")))
		d := &dg.Design{Name: "cov_errors", Errors: []dg.ErrorDef{{Name: "api_err", Timeout: true}}, HTTPErrs: []dg.ErrResponse{{Name: "api_err", R: dg.Response{Status: 504}}}}
		s := &dg.Service{Name: "errs", Errors: []dg.ErrorDef{{Name: "svc_err", Temporary: true}}, HTTPErrs: []dg.ErrResponse{{Name: "svc_err", R: dg.Response{Status: 503}}}}
		ut := dg.Ref("CustomErr")
		s.Methods = []*dg.Method{
			{Name: "m1", Result: pa(dg.A(dg.Prim("String"))), Errors: []dg.ErrorDef{{Name: "not_found"}, {Name: "gone", Fault: true}, {Name: "conflict", T: &et}, {Name: "typed", T: &ut}, {Name: "prim", T: &dg.Type{Kind: "prim", Prim: "String"}}},
				HTTP: &dg.HTTPMap{Routes: rt("GET", "/1"), Errors: []dg.ErrResponse{{Name: "not_found", R: dg.Response{Status: 404}}, {Name: "gone", R: dg.Response{Status: 404}},
					{Name: "conflict", R: dg.Response{Status: 409, Headers: []dg.MapEntry{{Attr: "detail", Wire: "X-Detail"}}}}, {Name: "typed", R: dg.Response{Status: 422}}, {Name: "prim", R: dg.Response{Status: 418}}}}},
			{Name: "m2", Payload: pa(dg.A(dg.Obj(dg.Req("id", dg.Prim("Int"))))), Errors: []dg.ErrorDef{{Name: "not_found"}, {Name: "conflict", T: &et}},
				HTTP: &dg.HTTPMap{Routes: rt("DELETE", "/2/{id}"), Responses: []dg.Response{{Status: 204}}, Errors: []dg.ErrResponse{{Name: "not_found", R: dg.Response{Status: 404}}, {Name: "conflict", R: dg.Response{Status: 409, Body: &dg.BodySpec{Empty: true}, Headers: []dg.MapEntry{{Attr: "name", Wire: "X-Name"}}}}}}},
		}
		d.Services = []*dg.Service{s}
		d.Types = []*dg.UserType{{Name: "CustomErr", Result: true, Base: dg.Obj(dg.Req("msg", dg.Prim("String")), dg.F("n", dg.Prim("Int"))),
			Views: []dg.View{{Name: "default", Attrs: []dg.ViewField{{Name: "msg"}, {Name: "n"}}}}}}
		add(d)
	}
	// 19. request body shapes: Body(attr), Body(list), empty body with params, user type payload spread over locations, primitive payloads everywhere
	{
		var ms []*dg.Method
		for _, p := range paramablePrims {
			n := lc(p)
			ms = append(ms,
				&dg.Method{Name: "path_" + n, Payload: pa(dg.A(dg.Prim(p))), HTTP: &dg.HTTPMap{Routes: rt("GET", "/pp/"+n+"/{pv}")}},
				&dg.Method{Name: "query_" + n, Payload: pa(dg.A(dg.Prim(p))), HTTP: &dg.HTTPMap{Routes: rt("GET", "/pq/"+n), Params: []dg.MapEntry{{Attr: "pq"}}}},
				&dg.Method{Name: "body_" + n, Payload: pa(dg.A(dg.Prim(p))), Result: pa(dg.A(dg.Prim(p))), HTTP: &dg.HTTPMap{Routes: rt("POST", "/pb/"+n)}})
		}
		ms = append(ms,
			&dg.Method{Name: "bytes_body", Payload: pa(dg.A(dg.Prim("Bytes"))), Result: pa(dg.A(dg.Prim("Bytes"))), HTTP: &dg.HTTPMap{Routes: rt("POST", "/bytes")}},
			&dg.Method{Name: "any_body", Payload: pa(dg.A(dg.Prim("Any"))), Result: pa(dg.A(dg.Prim("Any"))), HTTP: &dg.HTTPMap{Routes: rt("POST", "/any")}},
			&dg.Method{Name: "arr_query", Payload: pa(dg.A(dg.ArrayOf(dg.A(dg.Prim("UInt32"))))), HTTP: &dg.HTTPMap{Routes: rt("GET", "/aq"), Params: []dg.MapEntry{{Attr: "pq"}}}},
			&dg.Method{Name: "body_attr", Payload: pa(dg.A(dg.Obj(dg.Req("id", dg.Prim("Int")), dg.F("data", dg.Ref("Doc")), dg.F("h", dg.Prim("String"))))),
				HTTP: &dg.HTTPMap{Routes: rt("PUT", "/ba/{id}"), Headers: []dg.MapEntry{{Attr: "h", Wire: "X-H"}}, Body: &dg.BodySpec{Attr: "data"}}},
			&dg.Method{Name: "body_prim_attr", Payload: pa(dg.A(dg.Obj(dg.Req("id", dg.Prim("Int")), dg.F("raw", dg.Prim("String"))))), HTTP: &dg.HTTPMap{Routes: rt("PUT", "/bp/{id}"), Body: &dg.BodySpec{Attr: "raw"}}},
			&dg.Method{Name: "body_arr_attr", Payload: pa(dg.A(dg.Obj(dg.F("q", dg.Prim("Int")), dg.F("docs", dg.ArrayOf(dg.A(dg.Ref("Doc"))))))), HTTP: &dg.HTTPMap{Routes: rt("POST", "/bd"), Params: []dg.MapEntry{{Attr: "q"}}, Body: &dg.BodySpec{Attr: "docs"}}},
			&dg.Method{Name: "body_list", Payload: pa(dg.A(dg.Obj(dg.F("a", dg.Prim("String")), dg.F("b", dg.Prim("Int")), dg.F("flagc", dg.Prim("Boolean"))))),
				HTTP: &dg.HTTPMap{Routes: rt("POST", "/bl"), Params: []dg.MapEntry{{Attr: "flagc"}}, Body: &dg.BodySpec{Attrs: []string{"a", "b"}}}},
			&dg.Method{Name: "ut_spread", Payload: pa(dg.A(dg.Ref("Doc"))), Result: pa(dg.A(dg.Ref("Doc"))),
				HTTP: &dg.HTTPMap{Routes: rt("POST", "/us/{title}"), Params: []dg.MapEntry{{Attr: "pages"}}, Headers: []dg.MapEntry{{Attr: "lang", Wire: "Accept-Language"}}, Cookies: []dg.MapEntry{{Attr: "sess"}}}},
			&dg.Method{Name: "all_params_no_body", Payload: pa(dg.A(dg.Obj(dg.F("a", dg.Prim("String")), dg.F("b", dg.Prim("Int"))))), HTTP: &dg.HTTPMap{Routes: rt("POST", "/np"), Params: []dg.MapEntry{{Attr: "a"}, {Attr: "b"}}}})
		d := svc1("cov_request_shapes", ms...)
		d.Types = []*dg.UserType{{Name: "Doc", Base: dg.Obj(dg.Req("title", dg.Prim("String")), dg.F("pages", dg.Prim("Int")).Def(1), dg.F("lang", dg.Prim("String")), dg.F("sess", dg.Prim("String")), dg.F("tags", dg.ArrayOf(dg.A(dg.Prim("String")))))}}
		add(d)
	}
	// 20. cookies (string), with validations/defaults, request and response
	{
		fs := []*dg.Field{dg.F("c1", dg.Prim("String")), dg.Req("c2", dg.Prim("String")).With(dg.Validation{MinLen: dg.Ip(1)}), dg.F("c3", dg.Prim("String")).Def("dc"),
			dg.F("c4", dg.Prim("String")).With(dg.Validation{Enum: []any{"a", "b"}}), dg.F("c5", dg.Prim("String")).With(dg.Validation{Format: "uuid"})}
		add(svc1("cov_cookies", &dg.Method{Name: "m", Payload: pa(dg.A(dg.Obj(fs...))), Result: pa(dg.A(dg.Obj(cloneFields(fs, nil)...))),
			HTTP: &dg.HTTPMap{Routes: rt("GET", "/m"), Cookies: mapAll(fs, func(n string) string { return n + "_ck" }), Responses: []dg.Response{{Status: 200, Cookies: mapAll(fs, func(n string) string { return n + "_rck" })}}}}))
	}
	// 20b. typed request cookies: every parameter primitive, optional / required / defaulted, validated, and an
	// alias of Int (the client encoder used to emit `vraw := p.C; vraw := strconv.Itoa(v)`)
	{
		var fs []*dg.Field
		for _, p := range paramablePrims {
			if p == "String" {
				continue
			}
			n := lc(p)
			fs = append(fs, dg.F("co_"+n, dg.Prim(p)), dg.Req("cr_"+n, dg.Prim(p)), dg.F("cd_"+n, dg.Prim(p)).Def(defaultOf(p)))
			if isNum(p) {
				fs = append(fs, dg.F("cv_"+n, dg.Prim(p)).With(dg.Validation{Min: dg.Fp(1), Max: dg.Fp(9)}))
			}
		}
		fs = append(fs, dg.F("c_alias", dg.Ref("AliasI")))
		d := svc1("cov_typed_cookies",
			&dg.Method{Name: "m", Payload: pa(dg.A(dg.Obj(fs...))), HTTP: &dg.HTTPMap{Routes: rt("GET", "/m"), Cookies: mapAll(fs, func(n string) string { return n + "_ck" })}},
			&dg.Method{Name: "one_int", Payload: pa(dg.A(dg.Obj(dg.F("c", dg.Prim("Int"))))), HTTP: &dg.HTTPMap{Routes: rt("GET", "/i"), Cookies: []dg.MapEntry{{Attr: "c"}}}},
			&dg.Method{Name: "one_bool", Payload: pa(dg.A(dg.Obj(dg.Req("c", dg.Prim("Boolean"))))), HTTP: &dg.HTTPMap{Routes: rt("GET", "/b"), Cookies: []dg.MapEntry{{Attr: "c"}}}})
		d.Types = []*dg.UserType{{Name: "AliasI", Base: dg.Prim("Int")}}
		add(d)
	}
	// 21. Extend / Reference inheritance
	{
		d := svc1("cov_inherit",
			&dg.Method{Name: "m", Payload: pa(dg.A(dg.Ref("Child"))), Result: pa(dg.A(dg.Ref("Refd"))), HTTP: &dg.HTTPMap{Routes: rt("POST", "/m")}},
			&dg.Method{Name: "rt", Result: pa(dg.A(dg.Ref("RChild"))), HTTP: &dg.HTTPMap{Routes: rt("GET", "/rt")}})
		d.Types = []*dg.UserType{
			{Name: "Base", Base: dg.Obj(dg.Req("id", dg.Prim("Int")).With(dg.Validation{Min: dg.Fp(1)}), dg.F("name", dg.Prim("String")).With(dg.Validation{MaxLen: dg.Ip(30)}).Def("anon"), dg.F("tags", dg.ArrayOf(dg.A(dg.Prim("String")))))},
			{Name: "Child", Extend: "Base", Base: dg.Obj(dg.F("extra", dg.Prim("Float64")), dg.F("sub", dg.Ref("Base")))},
			{Name: "Refd", Reference: "Base", RefAttrs: []string{"id", "name"}, Base: dg.Obj(dg.F("own", dg.Prim("Boolean")))},
			{Name: "RChild", Result: true, Reference: "Base", RefAttrs: []string{"id", "tags"}, Base: dg.Obj(dg.F("z", dg.Prim("String"))),
				Views: []dg.View{{Name: "default", Attrs: []dg.ViewField{{Name: "id"}, {Name: "tags"}, {Name: "z"}}}, {Name: "ids", Attrs: []dg.ViewField{{Name: "id"}}}}},
		}
		add(d)
	}
	// 22. multipart, raw request/response bodies, file servers
	{
		d := svc1("cov_special_bodies",
			&dg.Method{Name: "raw_in", Payload: pa(dg.A(dg.Obj(dg.F("ct", dg.Prim("String")), dg.F("q", dg.Prim("Int"))))), HTTP: &dg.HTTPMap{Routes: rt("POST", "/raw"), SkipReq: true, Headers: []dg.MapEntry{{Attr: "ct", Wire: "Content-Type"}}, Params: []dg.MapEntry{{Attr: "q"}}}},
			&dg.Method{Name: "raw_out", Result: pa(dg.A(dg.Obj(dg.F("len", dg.Prim("Int"))))), HTTP: &dg.HTTPMap{Routes: rt("GET", "/dl"), SkipResp: true, Responses: []dg.Response{{Status: 200, Headers: []dg.MapEntry{{Attr: "len", Wire: "Content-Length"}}}}}},
			&dg.Method{Name: "raw_both", HTTP: &dg.HTTPMap{Routes: rt("POST", "/pipe"), SkipReq: true, SkipResp: true}})
		d.Services[0].Files = []dg.FileServer{{Path: "/static/file.json", File: "public/file.json"}, {Path: "/assets/{*path}", File: "public/assets"}, {Path: "/", File: "public/index.html"}}
		d.Services = append(d.Services, &dg.Service{Name: "files_only", Files: []dg.FileServer{{Path: "/fo/{*p}", File: "static"}}})
		add(d)
	}
	// 23. streaming over websocket: the four kinds
	{
		msg := dg.Obj(dg.Req("text", dg.Prim("String")), dg.F("n", dg.Prim("Int")))
		add(svc1("cov_streaming",
			&dg.Method{Name: "server_stream", Payload: pa(dg.A(dg.Obj(dg.F("topic", dg.Prim("String"))))), StreamingResult: pa(dg.A(msg)), HTTP: &dg.HTTPMap{Routes: rt("GET", "/ss"), Params: []dg.MapEntry{{Attr: "topic"}}}},
			&dg.Method{Name: "client_stream", StreamingPayload: pa(dg.A(msg)), Result: pa(dg.A(dg.Prim("Int"))), HTTP: &dg.HTTPMap{Routes: rt("GET", "/cs")}},
			&dg.Method{Name: "bidi", Payload: pa(dg.A(dg.Obj(dg.F("room", dg.Prim("String"))))), StreamingPayload: pa(dg.A(dg.Prim("String"))), StreamingResult: pa(dg.A(dg.Ref("Evt"))),
				HTTP: &dg.HTTPMap{Routes: rt("GET", "/bidi/{room}")}},
			&dg.Method{Name: "stream_prims", StreamingPayload: pa(dg.A(dg.ArrayOf(dg.A(dg.Prim("Int"))))), StreamingResult: pa(dg.A(dg.MapOf(dg.A(dg.Prim("String")), dg.A(dg.Prim("Float64"))))), HTTP: &dg.HTTPMap{Routes: rt("GET", "/sp")}}))
		d := out[len(out)-1].Design
		d.Types = []*dg.UserType{{Name: "Evt", Result: true, Base: dg.Obj(dg.Req("kind", dg.Prim("String")), dg.F("body", dg.Prim("Bytes"))),
			Views: []dg.View{{Name: "default", Attrs: []dg.ViewField{{Name: "kind"}, {Name: "body"}}}, {Name: "k", Attrs: []dg.ViewField{{Name: "kind"}}}}}}
	}
	// 24. optional / required / default for every kind of attribute in the body (pointer semantics), one top-level inline object level
	{
		var fs []*dg.Field
		for i, t := range []dg.Type{dg.Prim("String"), dg.Prim("Int"), dg.Prim("Bytes"), dg.Prim("Any"), dg.ArrayOf(dg.A(dg.Prim("Int"))), dg.MapOf(dg.A(dg.Prim("String")), dg.A(dg.Prim("Int"))), dg.Ref("UT"), dg.Ref("AL")} {
			fs = append(fs, dg.F(fmt.Sprintf("o%d", i), t), dg.Req(fmt.Sprintf("r%d", i), t))
		}
		d := svc1("cov_pointers", &dg.Method{Name: "m", Payload: pa(dg.A(dg.Obj(fs...))), Result: pa(dg.A(dg.Obj(cloneFields(fs, nil)...))), HTTP: &dg.HTTPMap{Routes: rt("POST", "/m")}})
		d.Types = []*dg.UserType{{Name: "UT", Base: dg.Obj(dg.Req("a", dg.Prim("Int")), dg.F("b", dg.Prim("String")).Def("db"))}, {Name: "AL", Base: dg.Prim("Int")}}
		add(d)
	}
	// 25. metadata that changes generated identifiers and tags
	{
		f1 := dg.F("a", dg.Prim("String"))
		f1.A.Meta = [][]string{{"struct:field:name", "Renamed"}, {"struct:tag:json", "a_json,omitempty"}}
		f2 := dg.F("b", dg.Prim("Int"))
		f2.A.Meta = [][]string{{"struct:error:name"}, {"openapi:example", "false"}}
		f3 := dg.F("c", dg.Prim("Int64"))
		f3.A.Meta = [][]string{{"struct:field:type", "json.RawMessage", "encoding/json"}}
		f3.A.T = dg.Prim("Bytes")
		f4 := dg.F("d", dg.Prim("String"))
		f4.A.Desc = "a description with \"quotes\" and a very long line that has to be wrapped by the comment helper because it is longer than eighty characters"
		add(svc1("cov_meta", &dg.Method{Name: "m", Payload: pa(dg.A(dg.Obj(f1, f2, f4))), Result: pa(dg.A(dg.Obj(cloneFields([]*dg.Field{f1, f4}, nil)...))), HTTP: &dg.HTTPMap{Routes: rt("POST", "/m")}}))
		_ = f3
	}
	// 26. several services sharing types, same method names, same inline shapes
	{
		d := &dg.Design{Name: "cov_shared"}
		for _, sn := range []string{"alpha", "beta", "gamma"} {
			d.Services = append(d.Services, &dg.Service{Name: sn, BasePath: "/" + sn, Methods: []*dg.Method{
				{Name: "get", Payload: pa(dg.A(dg.Obj(dg.Req("id", dg.Prim("String"))))), Result: pa(dg.A(dg.Ref("Shared"))), Errors: []dg.ErrorDef{{Name: "not_found"}},
					HTTP: &dg.HTTPMap{Routes: rt("GET", "/{id}"), Errors: []dg.ErrResponse{{Name: "not_found", R: dg.Response{Status: 404}}}}},
				{Name: "list", Result: pa(dg.A(dg.Type{Kind: "collection", Ref: "SharedRT"})), HTTP: &dg.HTTPMap{Routes: rt("GET", "/")}},
				{Name: "put", Payload: pa(dg.A(dg.Ref("Shared"))), Result: pa(dg.A(dg.Ref("SharedRT"))), HTTP: &dg.HTTPMap{Routes: rt("PUT", "/")}},
			}})
		}
		d.Types = []*dg.UserType{{Name: "Shared", Base: dg.Obj(dg.Req("id", dg.Prim("String")), dg.F("sub", dg.Ref("Sub")), dg.F("subs", dg.ArrayOf(dg.A(dg.Ref("Sub")))))},
			{Name: "Sub", Base: dg.Obj(dg.F("v", dg.Prim("Float32")).With(dg.Validation{Min: dg.Fp(0.5)}))},
			{Name: "SharedRT", Result: true, Base: dg.Obj(dg.Req("id", dg.Prim("String")), dg.F("sub", dg.Ref("Sub"))), Views: []dg.View{{Name: "default", Attrs: []dg.ViewField{{Name: "id"}, {Name: "sub"}}}, {Name: "id", Attrs: []dg.ViewField{{Name: "id"}}}}}}
		add(d)
	}
	// 27. names colliding with identifiers the templates use for their own variables
	{
		// (err, res, req, resp, ctx, p, v, r, c, payload, mux, params, ok, val, goa, svc, u, strconv, goahttp, err2 break generated code: witness stream)
		names := []string{"body", "w", "s", "e", "result", "decoder", "encoder", "values", "header", "query", "raw", "message", "name", "id", "view", "client", "server", "i", "scheme", "host", "context", "io", "v2", "bodyReader", "vraw", "errs", "request", "response"}
		var q, h, b []*dg.Field
		for i, n := range names {
			p := []string{"String", "Int", "Boolean", "Float64"}[i%4]
			q = append(q, dg.F(n, dg.Prim(p)))
			h = append(h, dg.F(n, dg.Prim(p)))
			b = append(b, dg.F(n, dg.Prim(p)))
		}
		add(svc1("cov_template_vars",
			&dg.Method{Name: "query", Payload: pa(dg.A(dg.Obj(q...))), Result: pa(dg.A(dg.Obj(cloneFields(b, nil)...))), HTTP: &dg.HTTPMap{Routes: rt("GET", "/q"), Params: mapAll(q, nil)}},
			&dg.Method{Name: "header", Payload: pa(dg.A(dg.Obj(h...))), Result: pa(dg.A(dg.Obj(cloneFields(h, nil)...))),
				HTTP: &dg.HTTPMap{Routes: rt("GET", "/h"), Headers: mapAll(h, hdrWire), Responses: []dg.Response{{Status: 200, Headers: mapAll(h, hdrWire)}}}},
			&dg.Method{Name: "body", Payload: pa(dg.A(dg.Obj(b...))), HTTP: &dg.HTTPMap{Routes: rt("POST", "/b")}},
			&dg.Method{Name: "path", Payload: pa(dg.A(dg.Obj(dg.Req("errs", dg.Prim("String")), dg.Req("body", dg.Prim("Int")), dg.Req("w", dg.Prim("String")), dg.Req("query", dg.Prim("String"))))), HTTP: &dg.HTTPMap{Routes: rt("GET", "/p/{errs}/{body}/{w}/{query}")}}))
	}
	// 28. examples that come out as empty maps (codegen/cli.jsonExample read keys[0] unguarded until the fix):
	// a map query parameter whose example length is drawn as 0 (the draw depends on the API name: "api0"
	// draws 0 for MaxLength(1)), and a body object whose only attribute is excluded from examples
	{
		f := dg.F("mm", dg.MapOf(dg.A(dg.Prim("String")), dg.A(dg.Prim("Int")))).With(dg.Validation{MaxLen: dg.Ip(1)})
		add(svc1("api0", &dg.Method{Name: "m", Payload: pa(dg.A(dg.Obj(f))), HTTP: &dg.HTTPMap{Routes: rt("POST", "/m"), Params: []dg.MapEntry{{Attr: "mm"}}}}))
		g := dg.F("b", dg.Prim("String"))
		g.A.Meta = [][]string{{"openapi:generate", "false"}}
		add(svc1("cov_example_excluded", &dg.Method{Name: "m", Payload: pa(dg.A(dg.Obj(g))), Result: pa(dg.A(dg.Obj(cloneFields([]*dg.Field{g}, nil)...))), HTTP: &dg.HTTPMap{Routes: rt("POST", "/m")}}))
	}
	// 29. Enum written with Go int / float literals on the ELEMENTS of arrays and maps of every numeric type
	// (the example generator used to panic with reflect.Set for element types other than Int), in body, query, header
	{
		var b, q []*dg.Field
		for _, p := range numericPrims {
			var vals []any
			if strings.HasPrefix(p, "Float") {
				vals = []any{1.5, 2.5}
			} else {
				vals = []any{1, 2, 3}
			}
			e := dg.A(dg.Prim(p))
			e.V = &dg.Validation{Enum: vals}
			n := lc(p)
			b = append(b, dg.F("arr_"+n, dg.ArrayOf(e)), dg.Req("arrr_"+n, dg.ArrayOf(e)), dg.F("map_"+n, dg.MapOf(dg.A(dg.Prim("String")), e)), dg.F("arrarr_"+n, dg.ArrayOf(dg.A(dg.ArrayOf(e)))))
			q = append(q, dg.F("q_"+n, dg.ArrayOf(e)))
		}
		add(svc1("cov_enum_elements",
			&dg.Method{Name: "body", Payload: pa(dg.A(dg.Obj(b...))), Result: pa(dg.A(dg.Obj(cloneFields(b, nil)...))), HTTP: &dg.HTTPMap{Routes: rt("POST", "/b")}},
			&dg.Method{Name: "query", Payload: pa(dg.A(dg.Obj(q...))), HTTP: &dg.HTTPMap{Routes: rt("GET", "/q"), Params: mapAll(q, nil)}},
			&dg.Method{Name: "header", Payload: pa(dg.A(dg.Obj(cloneFields(q, nil)...))), Result: pa(dg.A(dg.Obj(cloneFields(q, nil)...))),
				HTTP: &dg.HTTPMap{Routes: rt("GET", "/h"), Headers: mapAll(q, hdrWire), Responses: []dg.Response{{Status: 200, Headers: mapAll(q, hdrWire)}}}}))
	}
	return out
}
