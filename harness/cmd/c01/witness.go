package main

// Witness stream: one minimal design per recorded C01 finding. Each must keep
// failing with exactly its signature on the unchanged tree (KNOWN-FINDING line).

import (
	dg "verifharness/designgen"
)

func svc1(name string, ms ...*dg.Method) *dg.Design {
	return &dg.Design{Name: name, Services: []*dg.Service{{Name: "svc", Methods: ms}}}
}

func pa(a dg.Attr) *dg.Attr { return &a }

func witnessDesigns() []DCase {
	var out []DCase
	add := func(sig string, d *dg.Design) {
		out = append(out, DCase{Stream: "witness", Name: d.Name, Design: d, Expect: sig})
	}

	// header ArrayOf(Alias): client/server code passes the alias-typed element where a string is needed
	{
		d := svc1("w_alias_array_header", &dg.Method{Name: "m",
			Payload: pa(dg.A(dg.Obj(dg.F("h", dg.ArrayOf(dg.A(dg.Ref("Alias"))))))),
			HTTP:    &dg.HTTPMap{Routes: []dg.Route{{Verb: "GET", Path: "/m"}}, Headers: []dg.MapEntry{{Attr: "h", Wire: "X-H"}}}})
		d.Types = []*dg.UserType{{Name: "Alias", Base: dg.Prim("String")}}
		add("alias-in-param", d)
	}
	// alias of Int in the query string
	{
		d := svc1("w_alias_query", &dg.Method{Name: "m",
			Payload: pa(dg.A(dg.Obj(dg.F("q", dg.Ref("AliasI")), dg.F("p", dg.Ref("AliasI"))))),
			HTTP:    &dg.HTTPMap{Routes: []dg.Route{{Verb: "GET", Path: "/m"}}, Params: []dg.MapEntry{{Attr: "q"}}, Cookies: []dg.MapEntry{{Attr: "p"}}}})
		d.Types = []*dg.UserType{{Name: "AliasI", Base: dg.Prim("Int")}}
		add("alias-in-param", d)
	}
	// non-string cookie
	add("non-string-cookie", svc1("w_int_cookie", &dg.Method{Name: "m",
		Payload: pa(dg.A(dg.Obj(dg.F("c", dg.Prim("Int"))))),
		HTTP:    &dg.HTTPMap{Routes: []dg.Route{{Verb: "GET", Path: "/m"}}, Cookies: []dg.MapEntry{{Attr: "c"}}}}))
	add("non-string-cookie", svc1("w_bool_cookie", &dg.Method{Name: "m",
		Payload: pa(dg.A(dg.Obj(dg.Req("c", dg.Prim("Boolean"))))),
		HTTP:    &dg.HTTPMap{Routes: []dg.Route{{Verb: "GET", Path: "/m"}}, Cookies: []dg.MapEntry{{Attr: "c"}}}}))
	// inline object nested below the top level
	add("nested-inline-object", svc1("w_nested_inline", &dg.Method{Name: "m",
		Payload: pa(dg.A(dg.Obj(dg.F("o", dg.Obj(dg.F("inner", dg.Obj(dg.F("x", dg.Prim("Int"))))))))),
		HTTP:    &dg.HTTPMap{Routes: []dg.Route{{Verb: "POST", Path: "/m"}}}}))
	add("nested-inline-object", svc1("w_array_inline", &dg.Method{Name: "m",
		Result: pa(dg.A(dg.Obj(dg.F("xs", dg.ArrayOf(dg.A(dg.Obj(dg.F("x", dg.Prim("Int"))))))))),
		HTTP:   &dg.HTTPMap{Routes: []dg.Route{{Verb: "GET", Path: "/m"}}}}))
	// non-string primitive payload mapped to a header
	add("non-string-primitive-header", svc1("w_int_payload_header", &dg.Method{Name: "m",
		Payload: pa(dg.A(dg.Prim("Int"))),
		HTTP:    &dg.HTTPMap{Routes: []dg.Route{{Verb: "GET", Path: "/m"}}, Headers: []dg.MapEntry{{Attr: "ph", Wire: "X-Ph"}}}}))
	// Enum(1,2,3) on UInt32 array elements
	{
		e := dg.A(dg.Prim("UInt32"))
		e.V = &dg.Validation{Enum: []any{1, 2, 3}}
		add("uint-enum-array-elements", svc1("w_uint_enum", &dg.Method{Name: "m",
			Payload: pa(dg.A(dg.Obj(dg.F("xs", dg.ArrayOf(e))))),
			HTTP:    &dg.HTTPMap{Routes: []dg.Route{{Verb: "POST", Path: "/m"}}}}))
		e64 := dg.A(dg.Prim("UInt64"))
		e64.V = &dg.Validation{Enum: []any{1, 2, 3}}
		add("uint-enum-array-elements", svc1("w_uint64_enum", &dg.Method{Name: "m",
			Result: pa(dg.A(dg.Obj(dg.F("xs", dg.ArrayOf(e64))))),
			HTTP:   &dg.HTTPMap{Routes: []dg.Route{{Verb: "GET", Path: "/m"}}}}))
	}
	// digit-led attribute name
	add("digit-led-name", svc1("w_digit_attr", &dg.Method{Name: "m",
		Payload: pa(dg.A(dg.Obj(dg.F("1abc", dg.Prim("String"))))),
		HTTP:    &dg.HTTPMap{Routes: []dg.Route{{Verb: "POST", Path: "/m"}}}}))
	add("digit-led-name", svc1("w_underscore_digit_attr", &dg.Method{Name: "m",
		Result: pa(dg.A(dg.Obj(dg.F("_1", dg.Prim("String"))))),
		HTTP:   &dg.HTTPMap{Routes: []dg.Route{{Verb: "GET", Path: "/m"}}}}))
	// success and error response on one status code
	add("duplicate-status-code", svc1("w_dup_status", &dg.Method{Name: "m",
		Result: pa(dg.A(dg.Prim("String"))),
		Errors: []dg.ErrorDef{{Name: "bad"}},
		HTTP: &dg.HTTPMap{Routes: []dg.Route{{Verb: "GET", Path: "/m"}},
			Responses: []dg.Response{{Status: 200}},
			Errors:    []dg.ErrResponse{{Name: "bad", R: dg.Response{Status: 200}}}}}))
	// two names that Goify to one identifier
	add("goify-collision-methods", svc1("w_collide_methods",
		&dg.Method{Name: "do_it", HTTP: &dg.HTTPMap{Routes: []dg.Route{{Verb: "GET", Path: "/a"}}}},
		&dg.Method{Name: "doIt", HTTP: &dg.HTTPMap{Routes: []dg.Route{{Verb: "GET", Path: "/b"}}}}))
	add("goify-collision-attributes", svc1("w_collide_attrs", &dg.Method{Name: "m",
		Payload: pa(dg.A(dg.Obj(dg.F("foo_bar", dg.Prim("String")), dg.F("fooBar", dg.Prim("Int"))))),
		HTTP:    &dg.HTTPMap{Routes: []dg.Route{{Verb: "POST", Path: "/m"}}}}))
	// Tag naming an attribute the result lacks
	add("tag-missing-attribute", svc1("w_tag_missing", &dg.Method{Name: "m",
		Result: pa(dg.A(dg.Obj(dg.F("a", dg.Prim("String"))))),
		HTTP: &dg.HTTPMap{Routes: []dg.Route{{Verb: "GET", Path: "/m"}},
			Responses: []dg.Response{{Status: 202, Tag: []string{"zzz", "v"}}, {Status: 200}}}}))
	// map keyed by an array
	add("map-key-not-primitive-cli-example", svc1("w_map_array_key", &dg.Method{Name: "m",
		Payload: pa(dg.A(dg.Obj(dg.F("mm", dg.MapOf(dg.A(dg.ArrayOf(dg.A(dg.Prim("String")))), dg.A(dg.Prim("String"))))))),
		HTTP:    &dg.HTTPMap{Routes: []dg.Route{{Verb: "POST", Path: "/m"}}}}))
	return out
}
