package main

// Witness stream: one minimal design per recorded C01 finding. Each must keep
// failing with exactly its signature on the unchanged tree (KNOWN-FINDING line).

import (
	dg "verifharness/designgen"
)

func svc1(name string, ms ...*dg.Method) *dg.Design {
	return &dg.Design{Name: name, Services: []*dg.Service{{Name: "svc", Methods: ms}}}
}

func pa(a dg.Attr) *dg.Attr { return &a }

func witnessDesigns() []DCase {
	var out []DCase
	add := func(sig string, d *dg.Design) {
		out = append(out, DCase{Stream: "witness", Name: d.Name, Design: d, Expect: sig})
	}

	// header ArrayOf(Alias): client/server code passes the alias-typed element where a string is needed
	{
		d := svc1("w_alias_array_header", &dg.Method{Name: "m",
			Payload: pa(dg.A(dg.Obj(dg.F("h", dg.ArrayOf(dg.A(dg.Ref("Alias"))))))),
			HTTP:    &dg.HTTPMap{Routes: []dg.Route{{Verb: "GET", Path: "/m"}}, Headers: []dg.MapEntry{{Attr: "h", Wire: "X-H"}}}})
		d.Types = []*dg.UserType{{Name: "Alias", Base: dg.Prim("String")}}
		add("alias-in-param", d)
	}
	// response cookie that is not a String (request cookies of every primitive type compile)
	add("non-string-response-cookie", svc1("w_int_response_cookie", &dg.Method{Name: "m",
		Result: pa(dg.A(dg.Obj(dg.F("c", dg.Prim("Int")), dg.F("o", dg.Prim("String"))))),
		HTTP:   &dg.HTTPMap{Routes: []dg.Route{{Verb: "GET", Path: "/m"}}, Responses: []dg.Response{{Status: 200, Cookies: []dg.MapEntry{{Attr: "c", Wire: "ck"}}}}}}))
	add("non-string-response-cookie", svc1("w_bool_response_cookie", &dg.Method{Name: "m",
		Result: pa(dg.A(dg.Obj(dg.Req("c", dg.Prim("Boolean")), dg.F("o", dg.Prim("String"))))),
		HTTP:   &dg.HTTPMap{Routes: []dg.Route{{Verb: "GET", Path: "/m"}}, Responses: []dg.Response{{Status: 200, Cookies: []dg.MapEntry{{Attr: "c", Wire: "ck"}}}}}}))
	// inline object nested below the top level
	add("nested-inline-object", svc1("w_nested_inline", &dg.Method{Name: "m",
		Payload: pa(dg.A(dg.Obj(dg.F("o", dg.Obj(dg.F("inner", dg.Obj(dg.F("x", dg.Prim("Int"))))))))),
		HTTP:    &dg.HTTPMap{Routes: []dg.Route{{Verb: "POST", Path: "/m"}}}}))
	add("nested-inline-object", svc1("w_array_inline", &dg.Method{Name: "m",
		Result: pa(dg.A(dg.Obj(dg.F("xs", dg.ArrayOf(dg.A(dg.Obj(dg.F("x", dg.Prim("Int"))))))))),
		HTTP:   &dg.HTTPMap{Routes: []dg.Route{{Verb: "GET", Path: "/m"}}}}))
	// primitive (or array) payload mapped to a header or a cookie: the client encoder never uses it
	// (goa's own golden file payload_encode_functions.go PayloadHeaderPrimitiveStringValidateEncodeCode shows the same code)
	add("primitive-payload-in-header", svc1("w_int_payload_header", &dg.Method{Name: "m",
		Payload: pa(dg.A(dg.Prim("Int"))),
		HTTP:    &dg.HTTPMap{Routes: []dg.Route{{Verb: "GET", Path: "/m"}}, Headers: []dg.MapEntry{{Attr: "ph", Wire: "X-Ph"}}}}))
	add("primitive-payload-in-header", svc1("w_string_payload_header", &dg.Method{Name: "m",
		Payload: pa(dg.A(dg.Prim("String"))),
		HTTP:    &dg.HTTPMap{Routes: []dg.Route{{Verb: "POST", Path: "/m"}}, Headers: []dg.MapEntry{{Attr: "ph"}}}}))
	add("primitive-payload-in-header", svc1("w_string_payload_cookie", &dg.Method{Name: "m",
		Payload: pa(dg.A(dg.Prim("String"))),
		HTTP:    &dg.HTTPMap{Routes: []dg.Route{{Verb: "GET", Path: "/m"}}, Cookies: []dg.MapEntry{{Attr: "pc", Wire: "ck"}}}}))
	add("primitive-payload-in-header", svc1("w_array_payload_header", &dg.Method{Name: "m",
		Payload: pa(dg.A(dg.ArrayOf(dg.A(dg.Prim("String"))))),
		HTTP:    &dg.HTTPMap{Routes: []dg.Route{{Verb: "GET", Path: "/m"}}, Headers: []dg.MapEntry{{Attr: "ph", Wire: "X-V"}}}}))
	// digit-led attribute name
	add("digit-led-name", svc1("w_digit_attr", &dg.Method{Name: "m",
		Payload: pa(dg.A(dg.Obj(dg.F("1abc", dg.Prim("String"))))),
		HTTP:    &dg.HTTPMap{Routes: []dg.Route{{Verb: "POST", Path: "/m"}}}}))
	add("digit-led-name", svc1("w_underscore_digit_attr", &dg.Method{Name: "m",
		Result: pa(dg.A(dg.Obj(dg.F("_1", dg.Prim("String"))))),
		HTTP:   &dg.HTTPMap{Routes: []dg.Route{{Verb: "GET", Path: "/m"}}}}))
	// success and error response on one status code
	add("duplicate-status-code", svc1("w_dup_status", &dg.Method{Name: "m",
		Result: pa(dg.A(dg.Prim("String"))),
		Errors: []dg.ErrorDef{{Name: "bad"}},
		HTTP: &dg.HTTPMap{Routes: []dg.Route{{Verb: "GET", Path: "/m"}},
			Responses: []dg.Response{{Status: 200}},
			Errors:    []dg.ErrResponse{{Name: "bad", R: dg.Response{Status: 200}}}}}))
	// two names that Goify to one identifier
	add("goify-collision-methods", svc1("w_collide_methods",
		&dg.Method{Name: "do_it", HTTP: &dg.HTTPMap{Routes: []dg.Route{{Verb: "GET", Path: "/a"}}}},
		&dg.Method{Name: "doIt", HTTP: &dg.HTTPMap{Routes: []dg.Route{{Verb: "GET", Path: "/b"}}}}))
	add("goify-collision-attributes", svc1("w_collide_attrs", &dg.Method{Name: "m",
		Payload: pa(dg.A(dg.Obj(dg.F("foo_bar", dg.Prim("String")), dg.F("fooBar", dg.Prim("Int"))))),
		HTTP:    &dg.HTTPMap{Routes: []dg.Route{{Verb: "POST", Path: "/m"}}}}))
	// map keyed by an array: `invalid map key type []string` in the service package (was hidden behind the
	// jsonExample panic until codegen/cli guarded keys[0])
	add("map-key-not-comparable", svc1("w_map_array_key", &dg.Method{Name: "m",
		Payload: pa(dg.A(dg.Obj(dg.F("mm", dg.MapOf(dg.A(dg.ArrayOf(dg.A(dg.Prim("String")))), dg.A(dg.Prim("String"))))))),
		HTTP:    &dg.HTTPMap{Routes: []dg.Route{{Verb: "POST", Path: "/m"}}}}))
	post := func() *dg.HTTPMap { return &dg.HTTPMap{Routes: rt("POST", "/m")} }
	// map keyed by Boolean / Float64: the OpenAPI example cannot be marshalled
	add("map-bool-or-float-key", svc1("w_map_bool_key", &dg.Method{Name: "m", Payload: pa(dg.A(dg.Obj(dg.F("mm", dg.MapOf(dg.A(dg.Prim("Boolean")), dg.A(dg.Prim("String"))))))), HTTP: post()}))
	add("map-bool-or-float-key", svc1("w_map_float_key", &dg.Method{Name: "m", Result: pa(dg.A(dg.Obj(dg.F("mm", dg.MapOf(dg.A(dg.Prim("Float64")), dg.A(dg.Prim("Int"))))))), HTTP: post()}))
	// string default that needs escaping, on a parameter (CLI flag description)
	add("default-string-needs-escaping", svc1("w_default_quote", &dg.Method{Name: "m", Payload: pa(dg.A(dg.Obj(dg.F("s", dg.Prim("String")).Def("d\"q")))),
		HTTP: &dg.HTTPMap{Routes: rt("GET", "/m"), Params: []dg.MapEntry{{Attr: "s"}}}}))
	add("default-string-needs-escaping", svc1("w_default_backslash", &dg.Method{Name: "m", Payload: pa(dg.A(dg.Obj(dg.F("s", dg.Prim("String")).Def("d\\q")))),
		HTTP: &dg.HTTPMap{Routes: rt("GET", "/m"), Headers: []dg.MapEntry{{Attr: "s", Wire: "X-S"}}}}))
	// Bytes default, collection default given as []any
	add("bytes-default", svc1("w_bytes_default", &dg.Method{Name: "m", Payload: pa(dg.A(dg.Obj(dg.F("s", dg.Prim("Bytes")).Def("raw")))), HTTP: post()}))
	add("collection-default", svc1("w_array_default", &dg.Method{Name: "m", Payload: pa(dg.A(dg.Obj(dg.F("s", dg.ArrayOf(dg.A(dg.Prim("String")))).Def([]any{"x", "y"})))), HTTP: post()}))
	// alias of an alias in a request body
	{
		d := svc1("w_alias_of_alias", &dg.Method{Name: "m", Payload: pa(dg.A(dg.Obj(dg.F("aa", dg.Ref("AA"))))), HTTP: post()})
		d.Types = []*dg.UserType{{Name: "AStr", Base: dg.Prim("String"), V: &dg.Validation{MinLen: dg.Ip(1)}}, {Name: "AA", Base: dg.Ref("AStr")}}
		add("alias-of-alias", d)
	}
	// result type that reaches itself
	{
		d := svc1("w_recursive_result_type", &dg.Method{Name: "tree", Result: pa(dg.A(dg.Ref("RNode"))), HTTP: &dg.HTTPMap{Routes: rt("GET", "/tree")}})
		d.Types = []*dg.UserType{{Name: "RNode", Result: true, Base: dg.Obj(dg.Req("v", dg.Prim("String")), dg.F("next", dg.Ref("RNode"))),
			Views: []dg.View{{Name: "default", Attrs: []dg.ViewField{{Name: "v"}, {Name: "next", View: "tiny"}}}, {Name: "tiny", Attrs: []dg.ViewField{{Name: "v"}}}}}}
		add("recursive-result-type", d)
		d2 := svc1("w_recursive_result_collection", &dg.Method{Name: "coll", Result: pa(dg.A(dg.Type{Kind: "collection", Ref: "RNode"})), HTTP: &dg.HTTPMap{Routes: rt("GET", "/coll")}})
		d2.Types = []*dg.UserType{{Name: "RNode", Result: true, Base: dg.Obj(dg.Req("v", dg.Prim("String")), dg.F("kids", dg.Type{Kind: "collection", Ref: "RNode"})),
			Views: []dg.View{{Name: "default", Attrs: []dg.ViewField{{Name: "v"}, {Name: "kids", View: "tiny"}}}, {Name: "tiny", Attrs: []dg.ViewField{{Name: "v"}}}}}}
		add("recursive-result-type", d2)
	}
	// method "new" + error "error" collide with the constructor of method "error"
	add("method-name-new-prefix", svc1("w_method_new",
		&dg.Method{Name: "new", Errors: []dg.ErrorDef{{Name: "error"}}, HTTP: &dg.HTTPMap{Routes: rt("POST", "/n"), Errors: []dg.ErrResponse{{Name: "error", R: dg.Response{Status: 400}}}}},
		&dg.Method{Name: "error", Result: pa(dg.A(dg.Obj(dg.F("a", dg.Prim("String"))))), HTTP: &dg.HTTPMap{Routes: rt("POST", "/e")}}))
	// multipart request: the example multipart.go imports the service package under an alias nothing uses
	add("multipart-example-import", svc1("w_multipart", &dg.Method{Name: "upload", Payload: pa(dg.A(dg.Obj(dg.Req("name", dg.Prim("String")), dg.F("data", dg.Prim("Bytes"))))),
		Result: pa(dg.A(dg.Prim("String"))), HTTP: &dg.HTTPMap{Routes: rt("POST", "/up"), Multipart: true}}))
	// parameter names that are identifiers of the generated encoders / decoders
	add("param-name-shadows-generated-identifier", svc1("w_param_err", &dg.Method{Name: "m", Payload: pa(dg.A(dg.Obj(dg.F("err", dg.Prim("Int"))))),
		HTTP: &dg.HTTPMap{Routes: rt("GET", "/q"), Params: []dg.MapEntry{{Attr: "err"}}}}))
	add("param-name-shadows-generated-identifier", svc1("w_param_r", &dg.Method{Name: "m", Payload: pa(dg.A(dg.Obj(dg.F("r", dg.Prim("String"))))),
		HTTP: &dg.HTTPMap{Routes: rt("GET", "/h"), Headers: []dg.MapEntry{{Attr: "r", Wire: "X-R"}}}}))
	add("param-name-shadows-generated-identifier", svc1("w_param_ctx", &dg.Method{Name: "m", Payload: pa(dg.A(dg.Obj(dg.Req("ctx", dg.Prim("String"))))),
		HTTP: &dg.HTTPMap{Routes: rt("GET", "/p/{ctx}")}}))
	add("param-name-shadows-generated-identifier", svc1("w_param_res_header", &dg.Method{Name: "m", Result: pa(dg.A(dg.Obj(dg.F("res", dg.Prim("String"))))),
		HTTP: &dg.HTTPMap{Routes: rt("GET", "/rh"), Responses: []dg.Response{{Status: 200, Headers: []dg.MapEntry{{Attr: "res", Wire: "X-Res"}}}}}}))
	// primitive payload in a parameter called v: NameScope.Name answers "v2" for the declaration, the code reads "v"
	add("param-name-shadows-generated-identifier", svc1("w_param_prim_v", &dg.Method{Name: "m", Payload: pa(dg.A(dg.Prim("Int"))),
		HTTP: &dg.HTTPMap{Routes: rt("GET", "/pv"), Params: []dg.MapEntry{{Attr: "v"}}}}))
	// names whose first letter cannot be made upper case: the generated field / method is not exported
	add("unexportable-name", svc1("w_caseless_attr", &dg.Method{Name: "m", Payload: pa(dg.A(dg.Obj(dg.F("\u65e5\u672c", dg.Prim("String"))))), HTTP: post()}))
	add("unexportable-name", svc1("w_sharp_s_attr", &dg.Method{Name: "m", Result: pa(dg.A(dg.Obj(dg.F("\u00dfx", dg.Prim("String"))))), HTTP: post()}))
	add("unexportable-name", svc1("w_caseless_method", &dg.Method{Name: "\u65e5\u672c", Payload: pa(dg.A(dg.Obj(dg.F("a", dg.Prim("String"))))), HTTP: post()}))
	// fixed view listing a collection under a nested view whose element validator is not generated (reported by the C08 builder)
	{
		d := svc1("w_fixed_view_collection", &dg.Method{Name: "m", Result: pa(dg.A(dg.Ref("Outer"))), ResultView: "ext", HTTP: &dg.HTTPMap{Routes: rt("GET", "/m")}})
		d.Types = []*dg.UserType{
			{Name: "Inner", Result: true, Base: dg.Obj(dg.Req("i1", dg.Prim("String")), dg.F("i2", dg.Prim("Int"))),
				Views: []dg.View{{Name: "default", Attrs: []dg.ViewField{{Name: "i1"}, {Name: "i2"}}}, {Name: "tiny", Attrs: []dg.ViewField{{Name: "i2"}}}}},
			{Name: "Outer", Result: true, Base: dg.Obj(dg.Req("a", dg.Prim("String")), dg.F("list", dg.Type{Kind: "collection", Ref: "Inner"})),
				Views: []dg.View{{Name: "default", Attrs: []dg.ViewField{{Name: "a"}, {Name: "list"}}}, {Name: "ext", Attrs: []dg.ViewField{{Name: "a"}, {Name: "list", View: "tiny"}}}}}}
		add("fixed-view-collection-element-validator", d)
	}
	// two security schemes of one kind used by one service (reported by the C06 builder)
	{
		sec := func(fn, scheme, n string) *dg.Field {
			return &dg.Field{Name: n, A: dg.Attr{T: dg.Prim("String"), Sec: &dg.SecAttrKind{Fn: fn, Scheme: scheme}}}
		}
		d := svc1("w_two_apikey_schemes", &dg.Method{Name: "m", Security: []dg.Requirement{{Schemes: []string{"ka", "kb"}}},
			Payload: pa(dg.A(dg.Obj(sec("APIKey", "ka", "k1"), sec("APIKey", "kb", "k2")))),
			HTTP:    &dg.HTTPMap{Routes: rt("GET", "/m"), Headers: []dg.MapEntry{{Attr: "k1", Wire: "X-K1"}, {Attr: "k2", Wire: "X-K2"}}}})
		d.Schemes = []dg.Scheme{{Kind: "apikey", Name: "ka"}, {Kind: "apikey", Name: "kb"}}
		add("two-schemes-same-kind", d)
	}
	// one error name declared with two different types by two methods of a service
	{
		t1 := dg.Obj(dg.Req("name", dg.Prim("String")), dg.F("x", dg.Prim("Int")))
		t2 := dg.Obj(dg.Req("name", dg.Prim("String")), dg.F("x", dg.Prim("Boolean")))
		add("error-name-reused-with-different-type", svc1("w_error_name_two_types",
			&dg.Method{Name: "m1", Errors: []dg.ErrorDef{{Name: "bad", T: &t1}}, HTTP: &dg.HTTPMap{Routes: rt("GET", "/1"), Errors: []dg.ErrResponse{{Name: "bad", R: dg.Response{Status: 400, Headers: []dg.MapEntry{{Attr: "x", Wire: "X-E"}}}}}}},
			&dg.Method{Name: "m2", Errors: []dg.ErrorDef{{Name: "bad", T: &t2}}, HTTP: &dg.HTTPMap{Routes: rt("GET", "/2"), Errors: []dg.ErrResponse{{Name: "bad", R: dg.Response{Status: 400, Headers: []dg.MapEntry{{Attr: "x", Wire: "X-E"}}}}}}}))
	}
	// two methods of one service with a collection as HTTP request body, the second a collection of a user type:
	// the client refers to a constructor that is not generated (each method alone builds)
	{
		d := svc1("w_user_collection_body_two_methods",
			&dg.Method{Name: "m1", Payload: pa(dg.A(dg.Obj(dg.F("x", dg.ArrayOf(dg.A(dg.Prim("Any"))))))), HTTP: &dg.HTTPMap{Routes: rt("POST", "/1"), Body: &dg.BodySpec{Attr: "x"}}},
			&dg.Method{Name: "m2", Payload: pa(dg.A(dg.Obj(dg.F("x", dg.ArrayOf(dg.A(dg.Ref("UObj"))))))), HTTP: &dg.HTTPMap{Routes: rt("POST", "/2"), Body: &dg.BodySpec{Attr: "x"}}})
		d.Types = []*dg.UserType{{Name: "UObj", Base: dg.Obj(dg.F("a", dg.Prim("String")), dg.F("b", dg.Prim("Int")))}}
		add("collection-of-user-type-body-helper", d)
	}
	return out
}
