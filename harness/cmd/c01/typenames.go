package main

// Type-name stream: NameScope.GoTypeName / GoTypeRef called on random type trees (primitives,
// arrays, maps, user types that are objects or aliases, with names that collide after Goify) in
// random call sequences on one scope; what they return goes to Coq (cases_types.txt, compared with
// Names.run_types) and through the direct oracle (two user types never share a Go name, a user
// type keeps its name).

import (
	"fmt"
	"go/token"
	"os"
	"path/filepath"
	"strings"

	"goa.design/goa/v3/codegen"
	"goa.design/goa/v3/expr"

	"verifharness/vh"
)

var typePrims = []struct {
	coq string
	dt  expr.DataType
}{{"PBoolean", expr.Boolean}, {"PInt", expr.Int}, {"PInt32", expr.Int32}, {"PInt64", expr.Int64}, {"PUInt", expr.UInt}, {"PUInt32", expr.UInt32},
	{"PUInt64", expr.UInt64}, {"PFloat32", expr.Float32}, {"PFloat64", expr.Float64}, {"PString", expr.String}, {"PBytes", expr.Bytes}, {"PAny", expr.Any}}

var typeNamePool = []string{"foo_bar", "fooBar", "FooBar", "foo-bar", "Foo_Bar", "type", "Type", "string", "error", "Error", "A", "A2", "a", "a_2", "id", "ID", "Id", "user_id", "UserID",
	"my type", "x1", "X-1", "result", "Result2", "http", "url_list", "URLList"}

type userT struct {
	ut  *expr.UserTypeExpr
	obj bool
}

func newTypePool(r *vh.RNG) []userT {
	n := 3 + r.Intn(8)
	pool := make([]userT, n)
	for i := range pool {
		name := vh.Pick(r, typeNamePool)
		obj := r.Chance(2, 3)
		var under expr.DataType = expr.String
		if obj {
			under = &expr.Object{{Name: "f", Attribute: &expr.AttributeExpr{Type: expr.Int}}}
		}
		pool[i] = userT{&expr.UserTypeExpr{AttributeExpr: &expr.AttributeExpr{Type: under}, TypeName: name}, obj}
	}
	return pool
}

// genType draws a type tree; returns the goa type and the Coq term.
func genType(r *vh.RNG, pool []userT, depth int) (expr.DataType, string) {
	k := r.Intn(10)
	switch {
	case k < 3 || depth <= 0 && k < 6:
		p := vh.Pick(r, typePrims)
		return p.dt, "(TPrim " + p.coq + ")"
	case k < 6 || depth <= 0:
		u := vh.Pick(r, pool)
		return u.ut, fmt.Sprintf("(TUser %s %s %s)", vh.CoqBytes(u.ut.Hash()), vh.CoqBytes(u.ut.TypeName), vh.CoqBool(u.obj))
	case k < 8:
		e, ce := genType(r, pool, depth-1)
		return &expr.Array{ElemType: &expr.AttributeExpr{Type: e}}, "(TArray " + ce + ")"
	default:
		kt, ck := genType(r, pool, depth-1)
		e, ce := genType(r, pool, depth-1)
		return &expr.Map{KeyType: &expr.AttributeExpr{Type: kt}, ElemType: &expr.AttributeExpr{Type: e}}, "(TMap " + ck + " " + ce + ")"
	}
}

func runTypeNames(r *vh.RNG, tier, out string, res *vh.Result) (int, vh.Distinct) {
	n := 500
	if tier == "thorough" {
		n = 4000
	}
	distinct := vh.Distinct{}
	var sb strings.Builder
	for i := 0; i < n; i++ {
		pool := newTypePool(r)
		scope := codegen.NewNameScope()
		calls := 1 + r.Intn(12)
		var cs, os_ []string
		for c := 0; c < calls; c++ {
			dt, term := genType(r, pool, 3)
			att := &expr.AttributeExpr{Type: dt}
			ref := r.Bool()
			var got string
			if ref {
				got = scope.GoTypeRef(att)
			} else {
				got = scope.GoTypeName(att)
			}
			cs = append(cs, fmt.Sprintf("(%s, %s)", vh.CoqBool(ref), term))
			os_ = append(os_, vh.CoqBytes(got))
		}
		// direct oracle: ask every pool type again: distinct hashes never share a name, and the answer is stable
		byHash, byName := map[string]string{}, map[string]string{}
		for _, u := range pool {
			a := scope.GoTypeName(&expr.AttributeExpr{Type: u.ut})
			b := scope.GoTypeName(&expr.AttributeExpr{Type: u.ut})
			h := u.ut.Hash()
			in := map[string]any{"call": "GoTypeName", "type_names": poolNames(pool)}
			if a != b {
				failCapped(res, "type-name-not-stable", fmt.Sprintf("GoTypeName of user type %q answered %q then %q", u.ut.TypeName, a, b), in)
			}
			if prev, ok := byHash[h]; ok && prev != a {
				failCapped(res, "type-name-not-stable", fmt.Sprintf("user types with one hash (%q) were named %q and %q", u.ut.TypeName, prev, a), in)
			}
			byHash[h] = a
			if ph, ok := byName[a]; ok && ph != h {
				failCapped(res, "type-name-given-twice", fmt.Sprintf("two different user types were both named %q", a), in)
			}
			byName[a] = h
			if !token.IsIdentifier(a) {
				failCapped(res, "type-name-not-identifier", fmt.Sprintf("GoTypeName of user type %q is %q", u.ut.TypeName, a), in)
			}
		}
		fmt.Fprintf(&sb, "(%d, %s, %s)\n", i, vh.CoqList(cs), vh.CoqList(os_))
		distinct.Add("t:" + strings.Join(cs, ""))
		res.Count("type_name_sequences")
		if i%173 == 7 {
			res.Sample(map[string]any{"type_calls": cs, "observed": os_}, 10)
		}
	}
	must(os.WriteFile(filepath.Join(out, "cases_types.txt"), []byte(sb.String()), 0o644))
	return n, distinct
}

func poolNames(pool []userT) []string {
	var out []string
	for _, u := range pool {
		out = append(out, u.ut.TypeName)
	}
	return out
}
