package main

// Part 2 of the C01 harness: every design is evaluated through goa's real DSL,
// generated with the real generators ("gen", then "example" into the same
// directory, as the goa tool does) and type-checked by `go build` over one batch
// module holding one directory per design.

import (
	"bytes"
	"crypto/sha256"
	"encoding/hex"
	"encoding/json"
	"fmt"
	"os"
	"os/exec"
	"path/filepath"
	"regexp"
	"runtime"
	"sort"
	"strings"
	"sync"
	"time"

	"goa.design/goa/v3/http/codegen/openapi"

	"verifharness/designgen"
)

// DCase is one design put through the pipeline.
type DCase struct {
	Stream string            `json:"stream"` // random | covering | witness | replay
	Name   string            `json:"name"`
	Design *designgen.Design `json:"design"`
	Expect string            `json:"expect,omitempty"` // witness: the signature it must fail with
	// NoExample: only the gen command (hostile stream: the example scaffolding does not depend on the mapping)
	NoExample bool `json:"no_example,omitempty"`
	// NoPack: the design has more than one service or is meaningful only as a whole (hostile stream)
	NoPack bool `json:"no_pack,omitempty"`
	// Dir: directory of the design inside the batch module (set by runBatch)
	Dir string `json:"dir,omitempty"`
}

// Verdict is what happened to one design.
type Verdict struct {
	Stage string   `json:"stage"` // ok | rejected | eval-panic | gen-panic | gen-error | example-panic | example-error | build-error
	Msg   string   `json:"msg,omitempty"`
	Errs  []string `json:"errors,omitempty"` // compiler diagnostics (path relative to the design directory)
	Files int      `json:"files,omitempty"`
}

func firstLines(s string, n int) string {
	ls := strings.Split(s, "\n")
	if len(ls) > n {
		ls = ls[:n]
	}
	return strings.Join(ls, "\n")
}

// panicSite extracts "pkg.func" of the first goa frame below the panic.
func panicSite(stack string) string {
	lines := strings.Split(stack, "\n")
	seenPanic := false
	for _, l := range lines {
		if strings.HasPrefix(l, "panic(") {
			seenPanic = true
			continue
		}
		if seenPanic && strings.HasPrefix(l, "goa.design/goa/v3/") {
			l = strings.TrimPrefix(l, "goa.design/goa/v3/")
			if i := strings.LastIndex(l, "("); i > 0 {
				l = l[:i]
			}
			return l
		}
	}
	return "?"
}

func writeBatchModule(dir, repo, stubs string) error {
	if err := os.MkdirAll(dir, 0o755); err != nil {
		return err
	}
	s := "module tb\n\ngo 1.22.0\n\nrequire goa.design/goa/v3 v3.0.0\n\nreplace goa.design/goa/v3 => " + repo + "\n"
	if stubs != "" {
		s += "\nrequire goa.design/clue v0.0.0\n\nreplace goa.design/clue => " + stubs + "\n"
	}
	if err := os.WriteFile(filepath.Join(dir, "go.mod"), []byte(s), 0o644); err != nil {
		return err
	}
	sum, err := os.ReadFile(filepath.Join(repo, "go.sum"))
	if err == nil {
		err = os.WriteFile(filepath.Join(dir, "go.sum"), sum, 0o644)
	}
	return err
}

var diagRe = regexp.MustCompile(`^(?:\./)?(d[0-9a-f]+)/(\S+?\.go):(\d+):(?:(\d+):)? (.*)$`)
var pkgRe = regexp.MustCompile(`^# tb/(d[0-9a-f]+)(/\S*)?`)

// worker mode: the harness re-executes itself to evaluate and generate the designs of one
// shard, so that a generator that hangs or overflows the stack (goa keeps global state and a
// goroutine cannot be killed) costs one design, not the run.
type workerLine struct {
	Idx     int      `json:"idx"`
	Start   bool     `json:"start,omitempty"`
	Verdict *Verdict `json:"verdict,omitempty"`
}

// evalOnly: the worker stops after Design.Eval() (accepted / rejected / eval-panic)
var evalOnly bool

func workerMain(casesFile, root string, shard, shards, from int, example bool) {
	b, err := os.ReadFile(casesFile)
	must(err)
	var cases []DCase
	must(json.Unmarshal(b, &cases))
	enc := json.NewEncoder(os.Stdout)
	for i, c := range cases {
		if i%shards != shard || i < from {
			continue
		}
		must(enc.Encode(workerLine{Idx: i, Start: true}))
		normalizeDesign(c.Design)
		if evalOnly {
			openapi.Definitions = make(map[string]*openapi.Schema)
			o := c.Design.Eval()
			v := Verdict{Stage: "accepted"}
			switch {
			case o.Panic != "":
				v = Verdict{Stage: "eval-panic", Msg: firstLines(o.Panic, 1) + " @ " + panicSite(o.Panic)}
			case !o.Accepted:
				v = Verdict{Stage: "rejected", Msg: firstLines(fmt.Sprint(o.Err), 2)}
			}
			must(enc.Encode(workerLine{Idx: i, Verdict: &v}))
			continue
		}
		v := generateOne(c.Design, filepath.Join(root, c.Dir), example && !c.NoExample)
		must(enc.Encode(workerLine{Idx: i, Verdict: &v}))
	}
}

// perDesignTimeout bounds Eval+gen+example of one design (normally well under a second).
var perDesignTimeout = 90 * time.Second

func runShard(casesFile, root string, shard, shards int, example bool, vs []Verdict, dirs []string) {
	from := 0
	for {
		self, err := os.Executable()
		must(err)
		cmd := exec.Command(self, "-worker", "-cases", casesFile, "-root", root, "-shard", fmt.Sprint(shard), "-shards", fmt.Sprint(shards), "-from", fmt.Sprintf("%d", from), fmt.Sprintf("-example=%v", example), fmt.Sprintf("-evalonly=%v", evalOnly))
		cmd.Dir = root
		stdout, err := cmd.StdoutPipe()
		must(err)
		var stderr bytes.Buffer
		cmd.Stderr = &stderr
		must(cmd.Start())
		lines := make(chan workerLine)
		go func() {
			dec := json.NewDecoder(stdout)
			for {
				var l workerLine
				if err := dec.Decode(&l); err != nil {
					close(lines)
					return
				}
				lines <- l
			}
		}()
		cur, hung := -1, false
	loop:
		for {
			select {
			case l, ok := <-lines:
				if !ok {
					break loop
				}
				if l.Start {
					cur = l.Idx
				} else if l.Verdict != nil {
					vs[l.Idx] = *l.Verdict
					cur = -1
				}
			case <-time.After(perDesignTimeout):
				hung = true
				cmd.Process.Kill() // nolint: errcheck
				break loop
			}
		}
		werr := cmd.Wait()
		if cur < 0 && !hung && werr == nil {
			return // shard complete
		}
		if cur < 0 {
			// died between designs: nothing to blame, stop the shard loudly
			panic(fmt.Sprintf("design worker %d/%d failed outside a design: %v\n%s", shard, shards, werr, firstLines(stderr.String(), 20)))
		}
		os.RemoveAll(filepath.Join(root, dirs[cur]))
		if hung {
			vs[cur] = Verdict{Stage: "gen-hang", Msg: fmt.Sprintf("evaluating / generating the design did not finish within %s", perDesignTimeout)}
		} else {
			msg := firstLines(stderr.String(), 3)
			if i := strings.Index(stderr.String(), "goroutine "); i > 0 {
				msg = firstLines(stderr.String()[:i], 3)
			}
			vs[cur] = Verdict{Stage: "gen-crash", Msg: "the generator process died: " + strings.TrimSpace(msg)}
		}
		from = cur + 1
	}
}

// dirNames: the directory of a design is named after its content, so that an unchanged design
// keeps its import path from run to run (Go build cache) whatever else the streams contain.
func dirNames(cases []DCase) []string {
	out := make([]string, len(cases))
	seen := map[string]int{}
	for i, c := range cases {
		h := sha256.Sum256([]byte(c.Design.JSON() + fmt.Sprint(c.NoExample)))
		n := "d" + hex.EncodeToString(h[:6])
		seen[n]++
		if seen[n] > 1 {
			n += fmt.Sprintf("%02x", seen[n])
		}
		out[i] = n
	}
	return out
}

// phaseSeconds accumulates where the time of the design part goes (evidence).
var phaseSeconds = map[string]float64{}

// runBatch evaluates, generates and builds every case; verdicts are index-aligned.
func runBatch(cases []DCase, root, repo, stubs string, example bool) ([]Verdict, error) {
	os.RemoveAll(root)
	if err := writeBatchModule(root, repo, stubs); err != nil {
		return nil, err
	}
	vs := make([]Verdict, len(cases))
	dirs := dirNames(cases)
	cases = append([]DCase{}, cases...)
	for i := range cases {
		cases[i].Dir = dirs[i]
	}
	casesFile := filepath.Join(root, "cases.json")
	cb, err := json.Marshal(cases)
	if err != nil {
		return nil, err
	}
	if err := os.WriteFile(casesFile, cb, 0o644); err != nil {
		return nil, err
	}
	shards := runtime.NumCPU() - 2
	if shards > 14 {
		shards = 14
	}
	if shards < 1 {
		shards = 1
	}
	if len(cases) < shards {
		shards = len(cases)
	}
	tGen := time.Now()
	var wg sync.WaitGroup
	for k := 0; k < shards; k++ {
		wg.Add(1)
		go func(k int) {
			defer wg.Done()
			runShard(casesFile, root, k, shards, example, vs, dirs)
		}(k)
	}
	wg.Wait()
	if evalOnly {
		phaseSeconds["eval_only"] += time.Since(tGen).Seconds()
		return vs, nil
	}
	phaseSeconds["generate"] += time.Since(tGen).Seconds()
	tComp := time.Now()
	defer func() { phaseSeconds["compile"] += time.Since(tComp).Seconds() }()
	// `go list -export` compiles every package (type check + code generation) without linking the
	// example binaries; diagnostics have the format of `go build`
	cmd := exec.Command("go", "list", "-export", "-gcflags=-e", "-f", "{{.ImportPath}}", "./...")
	cmd.Dir = root
	var buf bytes.Buffer
	cmd.Stderr = &buf
	berr := cmd.Run()
	out := buf.String()
	os.WriteFile(filepath.Join(root, "build.log"), []byte(out), 0o644) // nolint: errcheck
	byDir := map[string][]string{}
	unattributed := []string{}
	cur := ""
	for _, l := range strings.Split(out, "\n") {
		if l == "" {
			continue
		}
		if m := pkgRe.FindStringSubmatch(l); m != nil {
			cur = m[1]
			continue
		}
		if m := diagRe.FindStringSubmatch(l); m != nil {
			byDir[m[1]] = append(byDir[m[1]], m[2]+": "+m[5])
			continue
		}
		if strings.HasPrefix(l, "\t") && cur != "" && len(byDir[cur]) > 0 {
			// continuation line of the previous diagnostic (have/want)
			n := len(byDir[cur]) - 1
			byDir[cur][n] += " " + strings.TrimSpace(l)
			continue
		}
		if strings.Contains(l, "too many errors") || strings.HasPrefix(l, "go: ") && strings.Contains(l, "finding module") {
			continue
		}
		unattributed = append(unattributed, l)
	}
	for i := range cases {
		d := dirs[i]
		if es, ok := byDir[d]; ok {
			if vs[i].Stage == "ok" {
				vs[i].Stage = "build-error"
				vs[i].Msg = es[0]
			}
			vs[i].Errs = es
		}
	}
	if berr != nil && len(byDir) == 0 {
		return vs, fmt.Errorf("go build failed without attributable diagnostics: %v\n%s", berr, firstLines(out, 30))
	}
	if len(unattributed) > 0 {
		return vs, fmt.Errorf("go build output not attributable to a design directory:\n%s", firstLines(strings.Join(unattributed, "\n"), 30))
	}
	return vs, nil
}

// generateOne: Eval, gen, example. The directory holds the generated tree if any.
func generateOne(d *designgen.Design, dir string, example bool) Verdict {
	// package-level accumulator of the OpenAPI v2 builder: a fresh goa process starts
	// with an empty one (designgen.ResetGoa does not know about it)
	openapi.Definitions = make(map[string]*openapi.Schema)
	o := d.Eval()
	switch {
	case o.Panic != "":
		return Verdict{Stage: "eval-panic", Msg: firstLines(o.Panic, 1) + " @ " + panicSite(o.Panic)}
	case !o.Accepted:
		return Verdict{Stage: "rejected", Msg: firstLines(fmt.Sprint(o.Err), 3)}
	}
	if err := os.MkdirAll(dir, 0o755); err != nil {
		panic(err)
	}
	files, err, p := designgen.Generate(dir, "gen")
	if p != "" {
		os.RemoveAll(dir)
		return Verdict{Stage: "gen-panic", Msg: firstLines(p, 1) + " @ " + panicSite(p)}
	}
	if err != nil {
		os.RemoveAll(dir)
		return Verdict{Stage: "gen-error", Msg: firstLines(err.Error(), 4)}
	}
	n := len(files)
	if example {
		files, err, p = designgen.Generate(dir, "example")
		if p != "" {
			os.RemoveAll(dir)
			return Verdict{Stage: "example-panic", Msg: firstLines(p, 1) + " @ " + panicSite(p)}
		}
		if err != nil {
			os.RemoveAll(dir)
			return Verdict{Stage: "example-error", Msg: firstLines(err.Error(), 4)}
		}
		n += len(files)
	}
	return Verdict{Stage: "ok", Files: n}
}

// ---- classification of a failure into a signature ----

var (
	reQuoted  = regexp.MustCompile(`"[^"]*"`)
	reNumber  = regexp.MustCompile(`\b\d+\b`)
	reIdentTy = regexp.MustCompile(`\b[a-z][A-Za-z0-9_]*\.[A-Z][A-Za-z0-9_]*\b`)
)

// errClass reduces one compiler diagnostic to a stable class name.
func errClass(e string) string {
	msg := e
	if i := strings.Index(e, ": "); i >= 0 {
		msg = e[i+2:]
	}
	switch {
	case strings.Contains(msg, "declared and not used"):
		return "unused-variable"
	case strings.Contains(msg, "no new variables on left side of :="):
		return "redeclared-short-var"
	case strings.Contains(msg, "redeclared"), strings.Contains(msg, "already declared"):
		return "redeclared"
	case strings.Contains(msg, "duplicate case"):
		return "duplicate-case"
	case strings.Contains(msg, "duplicate field"), strings.Contains(msg, "duplicate method"):
		return "redeclared"
	case strings.Contains(msg, "undefined:"):
		return "undefined"
	case strings.Contains(msg, "undefined (type"), strings.Contains(msg, "has no field or method"):
		return "undefined-field"
	case strings.Contains(msg, "cannot use"):
		return "type-mismatch"
	case strings.Contains(msg, "mismatched types"), strings.Contains(msg, "cannot convert"), strings.Contains(msg, "invalid operation"):
		return "type-mismatch"
	case strings.Contains(msg, "imported and not used"):
		return "unused-import"
	case strings.Contains(msg, "missing return"):
		return "missing-return"
	case strings.Contains(msg, "assignment mismatch"), strings.Contains(msg, "not enough arguments"), strings.Contains(msg, "too many arguments"):
		return "arity-mismatch"
	case strings.Contains(msg, "syntax error"), strings.Contains(msg, "expected "):
		return "syntax"
	}
	m := reQuoted.ReplaceAllString(msg, "Q")
	m = reNumber.ReplaceAllString(m, "N")
	m = reIdentTy.ReplaceAllString(m, "T")
	if len(m) > 60 {
		m = m[:60]
	}
	return "other:" + m
}

func errClasses(v Verdict) []string {
	set := map[string]bool{}
	for _, e := range v.Errs {
		set[errClass(e)] = true
	}
	var out []string
	for k := range set {
		out = append(out, k)
	}
	sort.Strings(out)
	return out
}

// normalizeDesign undoes what a JSON round trip does to the numbers of a design
// description: Enum values of integer attributes come back as float64, which goa's DSL
// refuses ("value 1 is incompatible with attribute of type int").
func normalizeDesign(d *designgen.Design) {
	isInt := func(t *designgen.Type) bool {
		return t.Kind == "prim" && (strings.HasPrefix(t.Prim, "Int") || strings.HasPrefix(t.Prim, "UInt"))
	}
	fixV := func(v *designgen.Validation, t *designgen.Type) {
		if v == nil || !isInt(t) {
			return
		}
		for i, x := range v.Enum {
			if f, ok := x.(float64); ok && f == float64(int(f)) {
				v.Enum[i] = int(f)
			}
		}
	}
	var walk func(a *designgen.Attr)
	walkT := func(t *designgen.Type) {
		for _, f := range t.Attrs {
			walk(&f.A)
		}
		if t.Elem != nil {
			walk(t.Elem)
		}
		if t.Key != nil {
			walk(t.Key)
		}
	}
	walk = func(a *designgen.Attr) {
		if a == nil {
			return
		}
		fixV(a.V, &a.T)
		walkT(&a.T)
	}
	for _, ut := range d.Types {
		fixV(ut.V, &ut.Base)
		walkT(&ut.Base)
	}
	for _, s := range d.Services {
		for _, m := range s.Methods {
			walk(m.Payload)
			walk(m.Result)
			walk(m.StreamingPayload)
			walk(m.StreamingResult)
			for _, e := range m.Errors {
				if e.T != nil {
					walkT(e.T)
				}
			}
		}
	}
}
