package main

// Part 2 of the C01 harness: every design is evaluated through goa's real DSL,
// generated with the real generators ("gen", then "example" into the same
// directory, as the goa tool does) and type-checked by `go build` over one batch
// module holding one directory per design.

import (
	"bytes"
	"fmt"
	"os"
	"os/exec"
	"path/filepath"
	"regexp"
	"sort"
	"strings"

	"goa.design/goa/v3/http/codegen/openapi"

	"verifharness/designgen"
)

// DCase is one design put through the pipeline.
type DCase struct {
	Stream string            `json:"stream"` // random | covering | witness | replay
	Name   string            `json:"name"`
	Design *designgen.Design `json:"design"`
	Expect string            `json:"expect,omitempty"` // witness: the signature it must fail with
}

// Verdict is what happened to one design.
type Verdict struct {
	Stage string   `json:"stage"` // ok | rejected | eval-panic | gen-panic | gen-error | example-panic | example-error | build-error
	Msg   string   `json:"msg,omitempty"`
	Errs  []string `json:"errors,omitempty"` // compiler diagnostics (path relative to the design directory)
	Files int      `json:"files,omitempty"`
}

func firstLines(s string, n int) string {
	ls := strings.Split(s, "\n")
	if len(ls) > n {
		ls = ls[:n]
	}
	return strings.Join(ls, "\n")
}

// panicSite extracts "pkg.func" of the first goa frame below the panic.
func panicSite(stack string) string {
	lines := strings.Split(stack, "\n")
	seenPanic := false
	for _, l := range lines {
		if strings.HasPrefix(l, "panic(") {
			seenPanic = true
			continue
		}
		if seenPanic && strings.HasPrefix(l, "goa.design/goa/v3/") {
			l = strings.TrimPrefix(l, "goa.design/goa/v3/")
			if i := strings.LastIndex(l, "("); i > 0 {
				l = l[:i]
			}
			return l
		}
	}
	return "?"
}

func writeBatchModule(dir, repo, stubs string) error {
	if err := os.MkdirAll(dir, 0o755); err != nil {
		return err
	}
	s := "module tb\n\ngo 1.22.0\n\nrequire goa.design/goa/v3 v3.0.0\n\nreplace goa.design/goa/v3 => " + repo + "\n"
	if stubs != "" {
		s += "\nrequire goa.design/clue v0.0.0\n\nreplace goa.design/clue => " + stubs + "\n"
	}
	if err := os.WriteFile(filepath.Join(dir, "go.mod"), []byte(s), 0o644); err != nil {
		return err
	}
	sum, err := os.ReadFile(filepath.Join(repo, "go.sum"))
	if err == nil {
		err = os.WriteFile(filepath.Join(dir, "go.sum"), sum, 0o644)
	}
	return err
}

var diagRe = regexp.MustCompile(`^(?:\./)?(d\d+)/(\S+?\.go):(\d+):(?:(\d+):)? (.*)$`)
var pkgRe = regexp.MustCompile(`^# tb/(d\d+)(/\S*)?`)

// runBatch evaluates, generates and builds every case; verdicts are index-aligned.
func runBatch(cases []DCase, root, repo, stubs string, example bool) ([]Verdict, error) {
	os.RemoveAll(root)
	if err := writeBatchModule(root, repo, stubs); err != nil {
		return nil, err
	}
	vs := make([]Verdict, len(cases))
	for i, c := range cases {
		vs[i] = generateOne(c.Design, filepath.Join(root, fmt.Sprintf("d%d", i)), example)
	}
	cmd := exec.Command("go", "build", "-gcflags=-e", "./...")
	cmd.Dir = root
	var buf bytes.Buffer
	cmd.Stdout, cmd.Stderr = &buf, &buf
	berr := cmd.Run()
	out := buf.String()
	os.WriteFile(filepath.Join(root, "build.log"), []byte(out), 0o644) // nolint: errcheck
	byDir := map[string][]string{}
	unattributed := []string{}
	cur := ""
	for _, l := range strings.Split(out, "\n") {
		if l == "" {
			continue
		}
		if m := pkgRe.FindStringSubmatch(l); m != nil {
			cur = m[1]
			continue
		}
		if m := diagRe.FindStringSubmatch(l); m != nil {
			byDir[m[1]] = append(byDir[m[1]], m[2]+": "+m[5])
			continue
		}
		if strings.HasPrefix(l, "\t") && cur != "" && len(byDir[cur]) > 0 {
			// continuation line of the previous diagnostic (have/want)
			n := len(byDir[cur]) - 1
			byDir[cur][n] += " " + strings.TrimSpace(l)
			continue
		}
		if strings.Contains(l, "too many errors") {
			continue
		}
		unattributed = append(unattributed, l)
	}
	for i := range cases {
		d := fmt.Sprintf("d%d", i)
		if es, ok := byDir[d]; ok {
			if vs[i].Stage == "ok" {
				vs[i].Stage = "build-error"
				vs[i].Msg = es[0]
			}
			vs[i].Errs = es
		}
	}
	if berr != nil && len(byDir) == 0 {
		return vs, fmt.Errorf("go build failed without attributable diagnostics: %v\n%s", berr, firstLines(out, 30))
	}
	if len(unattributed) > 0 {
		return vs, fmt.Errorf("go build output not attributable to a design directory:\n%s", firstLines(strings.Join(unattributed, "\n"), 30))
	}
	return vs, nil
}

// generateOne: Eval, gen, example. The directory holds the generated tree if any.
func generateOne(d *designgen.Design, dir string, example bool) Verdict {
	// package-level accumulator of the OpenAPI v2 builder: a fresh goa process starts
	// with an empty one (designgen.ResetGoa does not know about it)
	openapi.Definitions = make(map[string]*openapi.Schema)
	o := d.Eval()
	switch {
	case o.Panic != "":
		return Verdict{Stage: "eval-panic", Msg: firstLines(o.Panic, 1) + " @ " + panicSite(o.Panic)}
	case !o.Accepted:
		return Verdict{Stage: "rejected", Msg: firstLines(fmt.Sprint(o.Err), 3)}
	}
	if err := os.MkdirAll(dir, 0o755); err != nil {
		panic(err)
	}
	files, err, p := designgen.Generate(dir, "gen")
	if p != "" {
		os.RemoveAll(dir)
		return Verdict{Stage: "gen-panic", Msg: firstLines(p, 1) + " @ " + panicSite(p)}
	}
	if err != nil {
		os.RemoveAll(dir)
		return Verdict{Stage: "gen-error", Msg: firstLines(err.Error(), 4)}
	}
	n := len(files)
	if example {
		files, err, p = designgen.Generate(dir, "example")
		if p != "" {
			os.RemoveAll(dir)
			return Verdict{Stage: "example-panic", Msg: firstLines(p, 1) + " @ " + panicSite(p)}
		}
		if err != nil {
			os.RemoveAll(dir)
			return Verdict{Stage: "example-error", Msg: firstLines(err.Error(), 4)}
		}
		n += len(files)
	}
	return Verdict{Stage: "ok", Files: n}
}

// ---- classification of a failure into a signature ----

var (
	reQuoted  = regexp.MustCompile(`"[^"]*"`)
	reNumber  = regexp.MustCompile(`\b\d+\b`)
	reIdentTy = regexp.MustCompile(`\b[a-z][A-Za-z0-9_]*\.[A-Z][A-Za-z0-9_]*\b`)
)

// errClass reduces one compiler diagnostic to a stable class name.
func errClass(e string) string {
	msg := e
	if i := strings.Index(e, ": "); i >= 0 {
		msg = e[i+2:]
	}
	switch {
	case strings.Contains(msg, "declared and not used"):
		return "unused-variable"
	case strings.Contains(msg, "no new variables on left side of :="):
		return "redeclared-short-var"
	case strings.Contains(msg, "redeclared"), strings.Contains(msg, "already declared"):
		return "redeclared"
	case strings.Contains(msg, "duplicate case"):
		return "duplicate-case"
	case strings.Contains(msg, "duplicate field"), strings.Contains(msg, "duplicate method"):
		return "redeclared"
	case strings.Contains(msg, "undefined:"):
		return "undefined"
	case strings.Contains(msg, "undefined (type"), strings.Contains(msg, "has no field or method"):
		return "undefined-field"
	case strings.Contains(msg, "cannot use"):
		return "type-mismatch"
	case strings.Contains(msg, "mismatched types"), strings.Contains(msg, "cannot convert"), strings.Contains(msg, "invalid operation"):
		return "type-mismatch"
	case strings.Contains(msg, "imported and not used"):
		return "unused-import"
	case strings.Contains(msg, "missing return"):
		return "missing-return"
	case strings.Contains(msg, "assignment mismatch"), strings.Contains(msg, "not enough arguments"), strings.Contains(msg, "too many arguments"):
		return "arity-mismatch"
	case strings.Contains(msg, "syntax error"), strings.Contains(msg, "expected "):
		return "syntax"
	}
	m := reQuoted.ReplaceAllString(msg, "Q")
	m = reNumber.ReplaceAllString(m, "N")
	m = reIdentTy.ReplaceAllString(m, "T")
	if len(m) > 60 {
		m = m[:60]
	}
	return "other:" + m
}

func errClasses(v Verdict) []string {
	set := map[string]bool{}
	for _, e := range v.Errs {
		set[errClass(e)] = true
	}
	var out []string
	for k := range set {
		out = append(out, k)
	}
	sort.Strings(out)
	return out
}
