// Command c19 drives the real goa request-id, trace, sampler and response-capture
// middlewares (middleware/, http/middleware/, grpc/middleware/) on generated
// option lists, inbound headers / metadata, request sequences, call chains and
// writer histories. It writes what it observed as Coq terms (cases_*.txt, compared
// with the Middleware model inside Coq) and evaluates the sentences of property C19
// directly on the Go results (result.json: failures found by the direct oracle).
package main

import (
	"bytes"
	"context"
	"encoding/hex"
	"encoding/json"
	"flag"
	"fmt"
	"io"
	"log"
	"math/rand"
	"net/http"
	"net/http/httptest"
	"net/url"
	"os"
	"path/filepath"
	"regexp"
	"strings"
	"sync"
	"sync/atomic"

	goagrpc "goa.design/goa/v3/grpc"
	grpcmw "goa.design/goa/v3/grpc/middleware"
	goahttp "goa.design/goa/v3/http"
	httpmw "goa.design/goa/v3/http/middleware"
	"goa.design/goa/v3/middleware"
	"google.golang.org/grpc"
	"google.golang.org/grpc/metadata"

	"verifharness/vh"
)

// sigSeen caps the failures recorded per signature: one noisy failure class must
// not push the others out of the (bounded) result file.
var sigSeen = map[string]int{}

func record(res *vh.Result, sig, what string, input any) {
	sigSeen[sig]++
	if sigSeen[sig] <= 6 {
		res.Fail(sig, what, input)
	} else {
		res.Dist["more_failures:"+sig]++
	}
}

// ---------------------------------------------------------------- byte strings

// B is a Go string that may hold arbitrary bytes; in JSON it is the string
// itself when printable ASCII, "hex:<hex>" otherwise.
type B string

func (b B) MarshalJSON() ([]byte, error) {
	s := string(b)
	ok := !strings.HasPrefix(s, "hex:")
	for i := 0; i < len(s) && ok; i++ {
		if s[i] < 0x20 || s[i] > 0x7e {
			ok = false
		}
	}
	if ok {
		return json.Marshal(s)
	}
	return json.Marshal("hex:" + hex.EncodeToString([]byte(s)))
}

func (b *B) UnmarshalJSON(d []byte) error {
	var s string
	if err := json.Unmarshal(d, &s); err != nil {
		return err
	}
	if strings.HasPrefix(s, "hex:") {
		raw, err := hex.DecodeString(s[4:])
		if err != nil {
			return err
		}
		*b = B(raw)
		return nil
	}
	*b = B(s)
	return nil
}

func bs(xs []B) []string {
	if xs == nil {
		return nil
	}
	out := make([]string, len(xs))
	for i, x := range xs {
		out[i] = string(x)
	}
	return out
}

func toB(xs []string) []B {
	if xs == nil {
		return nil
	}
	out := make([]B, len(xs))
	for i, x := range xs {
		out[i] = B(x)
	}
	return out
}

// ---------------------------------------------------------------- Coq printers

func cz(n int) string { return fmt.Sprintf("(%d)%%Z", n) }

func cbytes(s string) string { return vh.CoqBytes(s) }

func clist(xs []string) string {
	ss := make([]string, len(xs))
	for i, x := range xs {
		ss[i] = cbytes(x)
	}
	return "[" + strings.Join(ss, "; ") + "]"
}

func copt(p *string) string {
	if p == nil {
		return "None"
	}
	return "(Some " + cbytes(*p) + ")"
}

func cboolList(xs []bool) string {
	ss := make([]string, len(xs))
	for i, x := range xs {
		ss[i] = vh.CoqBool(x)
	}
	return "[" + strings.Join(ss, "; ") + "]"
}

func ckind(k string) string {
	switch k {
	case "http":
		return "KHttp"
	case "unary":
		return "KUnary"
	case "stream":
		return "KStream"
	}
	panic("kind " + k)
}

var kinds = []string{"http", "unary", "stream"}

// ================================================================ request id

// header names and the number the model knows them by (canonical form decides)
var ridNames = map[string]int{"X-Request-Id": 0, "": 1, "Custom-Id": 2, "X-Correlation-Id": 3}

func nameID(name string) int {
	id, ok := ridNames[http.CanonicalHeaderKey(name)]
	if !ok {
		panic("unknown header name " + name)
	}
	return id
}

type RidOpt struct {
	K     string `json:"k"` // use | header | limit
	Flag  bool   `json:"flag,omitempty"`
	Name  string `json:"name,omitempty"`
	Limit int    `json:"limit,omitempty"`
}

type HV struct {
	Name   string `json:"name"` // canonical HTTP name; gRPC uses its lower-case form
	Values []B    `json:"values"`
}

type RidCase struct {
	Stream  string   `json:"stream"`
	Kind    string   `json:"kind"`
	Opts    []RidOpt `json:"opts"`
	Headers []HV     `json:"headers"`
	Pre     *B       `json:"pre,omitempty"`  // value already in the context under RequestIDKey
	Wrap    bool     `json:"wrap,omitempty"` // build the options with the transport package's wrappers
}

type RidObs struct {
	ID1, ID2 B
	MD1, MD2 []B
	Panic    string `json:",omitempty"`
}

func (c RidCase) options() []middleware.RequestIDOption {
	var out []middleware.RequestIDOption
	for _, o := range c.Opts {
		switch {
		case o.K == "use" && c.Wrap && c.Kind == "http":
			out = append(out, httpmw.UseXRequestIDHeaderOption(o.Flag))
		case o.K == "use" && c.Wrap:
			out = append(out, grpcmw.UseXRequestIDMetadataOption(o.Flag))
		case o.K == "use":
			out = append(out, middleware.UseRequestIDOption(o.Flag))
		case o.K == "header" && c.Wrap && c.Kind == "http":
			out = append(out, httpmw.RequestIDHeaderOption(o.Name))
		case o.K == "header":
			out = append(out, middleware.RequestIDHeaderOption(o.Name))
		case o.K == "limit" && c.Wrap && c.Kind == "http":
			out = append(out, httpmw.XRequestHeaderLimitOption(o.Limit))
		case o.K == "limit" && c.Wrap:
			out = append(out, grpcmw.XRequestMetadataLimitOption(o.Limit))
		case o.K == "limit":
			out = append(out, middleware.RequestIDLimitOption(o.Limit))
		}
	}
	return out
}

type fakeServerStream struct {
	grpc.ServerStream
	ctx context.Context
}

func (f *fakeServerStream) Context() context.Context { return f.ctx }

func strOrEmpty(v any) string {
	if s, ok := v.(string); ok {
		return s
	}
	return ""
}

// runRidOnce sends one request through the real middleware and returns the id
// the handler found in its context and (gRPC) the x-request-id values of the
// incoming metadata the handler found.
func runRidOnce(c RidCase) (id string, md []string) {
	opts := c.options()
	base := context.Background()
	if c.Pre != nil {
		base = context.WithValue(base, middleware.RequestIDKey, string(*c.Pre)) // nolint
	}
	switch c.Kind {
	case "http":
		h := httpmw.RequestID(opts...)(http.HandlerFunc(func(w http.ResponseWriter, r *http.Request) {
			id = strOrEmpty(r.Context().Value(middleware.RequestIDKey))
		}))
		r := httptest.NewRequest("GET", "http://svc/items", nil).WithContext(base)
		for _, hv := range c.Headers {
			r.Header[http.CanonicalHeaderKey(hv.Name)] = bs(hv.Values)
		}
		h.ServeHTTP(httptest.NewRecorder(), r)
	default:
		m := metadata.MD{}
		for _, hv := range c.Headers {
			m[strings.ToLower(hv.Name)] = bs(hv.Values)
		}
		ctx := metadata.NewIncomingContext(base, m)
		see := func(ctx context.Context) {
			id = strOrEmpty(ctx.Value(middleware.RequestIDKey))
			if got, ok := metadata.FromIncomingContext(ctx); ok {
				md = append([]string{}, got[grpcmw.RequestIDMetadataKey]...)
			}
		}
		if c.Kind == "unary" {
			_, _ = grpcmw.UnaryRequestID(opts...)(ctx, nil, &grpc.UnaryServerInfo{FullMethod: "/svc.Items/List"},
				func(ctx context.Context, req any) (any, error) { see(ctx); return nil, nil })
		} else {
			_ = grpcmw.StreamRequestID(opts...)(nil, &fakeServerStream{ctx: ctx}, &grpc.StreamServerInfo{FullMethod: "/svc.Items/Watch"},
				func(srv any, ss grpc.ServerStream) error { see(ss.Context()); return nil })
		}
	}
	return
}

func runRid(c RidCase) (o RidObs) {
	defer func() {
		if r := recover(); r != nil {
			o.Panic = fmt.Sprint(r)
		}
	}()
	id1, md1 := runRidOnce(c)
	id2, md2 := runRidOnce(c)
	return RidObs{ID1: B(id1), ID2: B(id2), MD1: toB(md1), MD2: toB(md2)}
}

// inboundValue is the value the variant reads: first value of the configured
// header (HTTP) or of x-request-id (gRPC).
func (c RidCase) inboundValue(header string) string {
	want := http.CanonicalHeaderKey(header)
	if c.Kind != "http" {
		want = "X-Request-Id"
	}
	for _, hv := range c.Headers {
		if http.CanonicalHeaderKey(hv.Name) == want && len(hv.Values) > 0 {
			return string(hv.Values[0])
		}
	}
	return ""
}

// configured is what the option list asks for, as documented on the options:
// UseRequestIDOption(f) sets trust to f (and the header to X-Request-Id),
// RequestIDHeaderOption(n) names the header and enables trust, the limit option
// sets the limit; later options win.
func (c RidCase) configured() (use bool, header string, limit int) {
	for _, x := range c.Opts {
		switch x.K {
		case "use":
			use, header = x.Flag, "X-Request-Id"
		case "header":
			use, header = true, x.Name
		case "limit":
			limit = x.Limit
		}
	}
	return
}

// ridOracle: the sentences of the property about request ids, evaluated on what
// the Go code did against what the option list asks for.
func ridOracle(c RidCase, o RidObs, res *vh.Result) {
	fail := func(sig, what string) { record(res, sig, what, c) }
	if o.Panic != "" {
		fail("request-id-panic", "the request-id middleware panicked: "+o.Panic)
		return
	}
	if o.ID1 == "" || o.ID2 == "" {
		fail("request-id-empty", "the handler's context carries no (or an empty) request id")
		return
	}
	use, header, limit := c.configured()
	inbound := c.inboundValue(header)
	if c.Kind != "http" {
		if len(o.MD1) != 1 || o.MD1[0] != o.ID1 || len(o.MD2) != 1 || o.MD2[0] != o.ID2 {
			fail("grpc-request-id-metadata-not-set", fmt.Sprintf("incoming metadata x-request-id = %q, context id = %q", bs(o.MD1), o.ID1))
		}
	}
	if c.Pre != nil {
		return // a value already in the context: judged by the correspondence only
	}
	if use && inbound != "" {
		want := inbound
		if limit > 0 && len(inbound) > limit {
			want = inbound[:limit]
		}
		if string(o.ID1) != want || string(o.ID2) != want {
			fail("request-id-trusted-not-truncated-inbound", fmt.Sprintf("trusted inbound value %q with limit %d: context id %q, expected %q", inbound, limit, o.ID1, want))
		}
		return
	}
	// not trusted, or nothing inbound: a fresh identifier
	if o.ID1 == o.ID2 || (inbound != "" && (string(o.ID1) == inbound || string(o.ID2) == inbound)) {
		fail("request-id-not-fresh", fmt.Sprintf("expected a fresh id (trusted=%v inbound=%q), got %q and %q on two requests", use, inbound, o.ID1, o.ID2))
	}
}

func coqRidOpts(opts []RidOpt) string {
	ss := make([]string, len(opts))
	for i, o := range opts {
		switch o.K {
		case "use":
			ss[i] = "OUse " + vh.CoqBool(o.Flag)
		case "header":
			ss[i] = fmt.Sprintf("OHeader %d", nameID(o.Name))
		case "limit":
			ss[i] = "OLimit " + cz(o.Limit)
		}
	}
	return "[" + strings.Join(ss, "; ") + "]"
}

func coqHeaders(hs []HV) string {
	ss := make([]string, len(hs))
	for i, h := range hs {
		ss[i] = fmt.Sprintf("(%d, %s)", nameID(h.Name), clist(bs(h.Values)))
	}
	return "[" + strings.Join(ss, "; ") + "]"
}

func coqRid(i int, c RidCase, o RidObs) string {
	var pre *string
	if c.Pre != nil {
		s := string(*c.Pre)
		pre = &s
	}
	return fmt.Sprintf("(%d, %s, %s, %s, %s, (%s, %s), (%s, %s))", i, ckind(c.Kind), coqRidOpts(c.Opts), coqHeaders(c.Headers),
		copt(pre), cbytes(string(o.ID1)), cbytes(string(o.ID2)), clist(bs(o.MD1)), clist(bs(o.MD2)))
}

var ridValues = []string{"a", "abc", "req-12345", "0123456789abcdef01234567", "h\xc3\xa9llo w\xc3\xb6rld \xe2\x9c\x93", "\xff\xfe\x00x", " pad ", "x;y,z"}

func longValue(r *vh.RNG, n int) string {
	b := make([]byte, n)
	for i := range b {
		b[i] = "abcdefghijklmnopqrstuvwxyz0123456789-_"[r.Intn(38)]
	}
	return string(b)
}

func limitsFor(v string) []int {
	n := len(v)
	return []int{0, -1, -7, 1, 2, n - 1, n, n + 1, 128, 1 << 40, -1 << 62}
}

func genRid(rng *vh.RNG, tier string) []RidCase {
	var cases []RidCase
	// covering part: kinds x option sets x limits x inbound classes
	optsets := [][]RidOpt{
		{},
		{{K: "use", Flag: true}},
		{{K: "use", Flag: false}},
		{{K: "header", Name: "Custom-Id"}},
		{{K: "header", Name: "x-request-id"}},
		{{K: "header", Name: "Custom-Id"}, {K: "use", Flag: true}},  // use resets the header name
		{{K: "use", Flag: false}, {K: "header", Name: "custom-id"}}, // header switches trust on
	}
	inbounds := [][]B{nil, {""}, {"a"}, {"abc"}, {B(ridValues[3])}, {B(ridValues[4])}, {"first", "second"}, {"", "second"}}
	for _, k := range kinds {
		for _, os := range optsets {
			for _, in := range inbounds {
				v := ""
				if len(in) > 0 {
					v = string(in[0])
				}
				for li, lim := range limitsFor(v) {
					if li > 0 && v == "" && li < 8 {
						continue // limits relative to an empty value collapse
					}
					c := RidCase{Stream: "rid", Kind: k, Wrap: (li+len(os))%2 == 0}
					c.Opts = append(c.Opts, os...)
					if li > 0 {
						c.Opts = append(c.Opts, RidOpt{K: "limit", Limit: lim})
					}
					if in != nil {
						c.Headers = append(c.Headers, HV{"X-Request-Id", in}, HV{"Custom-Id", in})
					}
					cases = append(cases, c)
				}
			}
		}
	}
	n := 1300
	if tier == "thorough" {
		n = 22000
	}
	for i := 0; i < n; i++ {
		c := RidCase{Stream: "rid", Kind: vh.Pick(rng, kinds), Wrap: rng.Bool()}
		pickVal := func() string {
			switch rng.Intn(12) {
			case 0:
				return ""
			case 1:
				return longValue(rng, 1+rng.Intn(12))
			case 2:
				if rng.Chance(1, 6) {
					return longValue(rng, 200)
				}
				return longValue(rng, 30+rng.Intn(30))
			}
			return vh.Pick(rng, ridValues)
		}
		main := ""
		for _, name := range []string{"X-Request-Id", "Custom-Id", "X-Correlation-Id"} {
			if rng.Chance(3, 5) {
				vals := []B{B(pickVal())}
				if rng.Chance(1, 6) {
					vals = append(vals, B(pickVal()))
				}
				c.Headers = append(c.Headers, HV{name, vals})
				if main == "" || rng.Bool() {
					main = string(vals[0])
				}
			}
		}
		for k := rng.Intn(4); k > 0; k-- {
			switch rng.Intn(5) {
			case 0:
				c.Opts = append(c.Opts, RidOpt{K: "use", Flag: rng.Chance(3, 4)})
			case 1:
				c.Opts = append(c.Opts, RidOpt{K: "header", Name: vh.Pick(rng, []string{"X-Request-Id", "x-request-id", "Custom-Id", "custom-id", "X-Correlation-Id", ""})})
			default:
				lims := limitsFor(main)
				lims = append(lims, 3, 5, 8, 16)
				c.Opts = append(c.Opts, RidOpt{K: "limit", Limit: vh.Pick(rng, lims)})
			}
		}
		if rng.Chance(1, 10) {
			p := B(pickVal())
			c.Pre = &p
		}
		cases = append(cases, c)
	}
	return cases
}

// ================================================================ trace

type TOpt struct {
	K       string `json:"k"` // percent | maxrate | size | discard | idfuncs
	N       int    `json:"n,omitempty"`
	Pattern string `json:"pattern,omitempty"`
}

type Ctx3 struct {
	Trace  *B `json:"trace,omitempty"`
	Span   *B `json:"span,omitempty"`
	Parent *B `json:"parent,omitempty"`
}

type TReq struct {
	Path     string `json:"path"`
	NilURL   bool   `json:"nil_url,omitempty"`
	Trace    []B    `json:"trace,omitempty"`  // TraceID header / trace-id metadata values (nil: absent)
	Parent   []B    `json:"parent,omitempty"` // ParentSpanID header / parent-span-id metadata values
	Base     Ctx3   `json:"base"`             // trace keys already in the request context
	Seed     int64  `json:"seed"`             // math/rand is reseeded with it just before the request
	NewTrace B      `json:"new_trace"`        // what the injected TraceIDFunc returns during this request
	NewSpan  B      `json:"new_span"`
}

type TraceCase struct {
	Stream string `json:"stream"`
	Kind   string `json:"kind"`
	Opts   []TOpt `json:"opts"`
	Reqs   []TReq `json:"reqs"`
	Wrap   bool   `json:"wrap,omitempty"` // options built with the transport package's wrappers
}

type TObs struct {
	Ctx       Ctx3
	UsedDraw  bool
	UsedTrace bool
	UsedSpan  bool
	Draw      int    // the value intn returns if called (mirror of the seeded generator)
	Panic     string `json:",omitempty"`
}

type idGen struct {
	trace, span string
	nt, ns      int
}

func (g *idGen) traceID() string {
	g.nt++
	if g.nt > 1 {
		return fmt.Sprintf("%s#%d", g.trace, g.nt)
	}
	return g.trace
}

func (g *idGen) spanID() string {
	g.ns++
	if g.ns > 1 {
		return fmt.Sprintf("%s#%d", g.span, g.ns)
	}
	return g.span
}

// traceOptions builds the real options; wrap selects the constructors re-exported
// by the transport package (http/middleware, grpc/middleware) instead of the shared ones.
func traceOptions(opts []TOpt, g *idGen, kind string, wrap bool) (out []middleware.TraceOption, adaptive bool, patterns []*regexp.Regexp) {
	type ctors struct {
		percent, maxrate, size func(int) middleware.TraceOption
		discard                func(*regexp.Regexp) middleware.TraceOption
		tid, sid               func(middleware.IDFunc) middleware.TraceOption
	}
	c := ctors{middleware.SamplingPercent, middleware.MaxSamplingRate, middleware.SampleSize, middleware.DiscardFromTrace, middleware.TraceIDFunc, middleware.SpanIDFunc}
	if wrap && kind == "http" {
		c = ctors{httpmw.SamplingPercent, httpmw.MaxSamplingRate, httpmw.SampleSize, httpmw.DiscardFromTrace, httpmw.TraceIDFunc, httpmw.SpanIDFunc}
	} else if wrap {
		c = ctors{grpcmw.SamplingPercent, grpcmw.MaxSamplingRate, grpcmw.SampleSize, grpcmw.DiscardFromTrace, grpcmw.TraceIDFunc, grpcmw.SpanIDFunc}
	}
	for _, o := range opts {
		switch o.K {
		case "percent":
			out = append(out, c.percent(o.N))
		case "maxrate":
			out = append(out, c.maxrate(o.N))
			adaptive = o.N > 0
		case "size":
			out = append(out, c.size(o.N))
		case "discard":
			re := regexp.MustCompile(o.Pattern)
			patterns = append(patterns, re)
			out = append(out, c.discard(re))
		case "idfuncs":
			out = append(out, c.tid(g.traceID), c.sid(g.spanID))
		}
	}
	return
}

func ctxWithBase(ctx context.Context, b Ctx3) context.Context {
	if b.Trace != nil {
		ctx = context.WithValue(ctx, middleware.TraceIDKey, string(*b.Trace)) // nolint
	}
	if b.Span != nil {
		ctx = context.WithValue(ctx, middleware.TraceSpanIDKey, string(*b.Span)) // nolint
	}
	if b.Parent != nil {
		ctx = context.WithValue(ctx, middleware.TraceParentSpanIDKey, string(*b.Parent)) // nolint
	}
	return ctx
}

func readCtx(ctx context.Context) Ctx3 {
	get := func(k any) *B {
		v := ctx.Value(k)
		if v == nil {
			return nil
		}
		b := B(v.(string))
		return &b
	}
	return Ctx3{Trace: get(middleware.TraceIDKey), Span: get(middleware.TraceSpanIDKey), Parent: get(middleware.TraceParentSpanIDKey)}
}

var (
	hTrace  = http.CanonicalHeaderKey(httpmw.TraceIDHeader)
	hParent = http.CanonicalHeaderKey(httpmw.ParentSpanIDHeader)
)

// server is one instance of the server-side trace middleware of some transport;
// call sends one request with the given trace headers / base context through it
// and hands the handler's context to see.
type server struct {
	kind   string
	http   func(http.Handler) http.Handler
	unary  grpc.UnaryServerInterceptor
	stream grpc.StreamServerInterceptor
}

func newServer(kind string, opts []middleware.TraceOption) *server {
	s := &server{kind: kind}
	switch kind {
	case "http":
		s.http = httpmw.Trace(opts...)
	case "unary":
		s.unary = grpcmw.UnaryServerTrace(opts...)
	default:
		s.stream = grpcmw.StreamServerTrace(opts...)
	}
	return s
}

func (s *server) call(path string, nilURL bool, trace, parent []string, base Ctx3, see func(context.Context)) {
	bctx := ctxWithBase(context.Background(), base)
	switch s.kind {
	case "http":
		r := httptest.NewRequest("GET", "http://svc"+path, nil).WithContext(bctx)
		if trace != nil {
			r.Header[hTrace] = trace
		}
		if parent != nil {
			r.Header[hParent] = parent
		}
		if nilURL {
			r.URL = nil
		}
		s.http(http.HandlerFunc(func(w http.ResponseWriter, r *http.Request) { see(r.Context()) })).ServeHTTP(httptest.NewRecorder(), r)
	default:
		m := metadata.MD{}
		if trace != nil {
			m[grpcmw.TraceIDMetadataKey] = trace
		}
		if parent != nil {
			m[grpcmw.ParentSpanIDMetadataKey] = parent
		}
		ctx := metadata.NewIncomingContext(bctx, m)
		if s.kind == "unary" {
			_, _ = s.unary(ctx, nil, &grpc.UnaryServerInfo{FullMethod: path}, func(ctx context.Context, req any) (any, error) { see(ctx); return nil, nil })
		} else {
			_ = s.stream(nil, &fakeServerStream{ctx: ctx}, &grpc.StreamServerInfo{FullMethod: path}, func(srv any, ss grpc.ServerStream) error { see(ss.Context()); return nil })
		}
	}
}

// seedDraw reseeds the global math/rand generator (the one middleware.intn uses)
// and returns a function that tells afterwards whether exactly one intn(n) call
// was made (true), none (false), or something else (error).
func seedDraw(seed int64, n int) (draw int, used func() (bool, error)) {
	rand.Seed(seed) // nolint: deterministic draws are the point
	m0 := rand.New(rand.NewSource(seed))
	m1 := rand.New(rand.NewSource(seed))
	draw = m1.Intn(n)
	return draw, func() (bool, error) {
		next := rand.Int63()
		a, b := m0.Int63(), m1.Int63()
		switch {
		case next == b && next != a:
			return true, nil
		case next == a && next != b:
			return false, nil
		}
		return false, fmt.Errorf("cannot tell how many random draws were made")
	}
}

func runTrace(c TraceCase) (obs []TObs, matches [][]bool) {
	g := &idGen{}
	opts, adaptive, patterns := traceOptions(c.Opts, g, c.Kind, c.Wrap)
	srv := newServer(c.Kind, opts)
	for _, q := range c.Reqs {
		var o TObs
		ms := make([]bool, len(patterns))
		for i, re := range patterns {
			ms[i] = re.MatchString(matchTarget(c.Kind, q.Path))
		}
		matches = append(matches, ms)
		func() {
			defer func() {
				if r := recover(); r != nil {
					o.Panic = fmt.Sprint(r)
				}
			}()
			*g = idGen{trace: string(q.NewTrace), span: string(q.NewSpan)}
			n := 100
			if adaptive {
				n = 10000
			}
			draw, used := seedDraw(q.Seed, n)
			o.Draw = draw
			seen := false
			srv.call(q.Path, q.NilURL && c.Kind == "http", bs(q.Trace), bs(q.Parent), q.Base, func(ctx context.Context) {
				seen = true
				o.Ctx = readCtx(ctx)
			})
			if !seen {
				o.Panic = "handler not called"
			}
			u, err := used()
			if err != nil {
				o.Panic = err.Error()
			}
			o.UsedDraw, o.UsedTrace, o.UsedSpan = u, g.nt > 0, g.ns > 0
			if g.nt > 1 || g.ns > 1 {
				o.Panic = fmt.Sprintf("id functions called %d / %d times for one request", g.nt, g.ns)
			}
		}()
		obs = append(obs, o)
	}
	return
}

// matchTarget is the string the transport hands to the discard patterns.
func matchTarget(kind, path string) string {
	if kind == "http" {
		if u, err := url.Parse("http://svc" + path); err == nil {
			return u.Path
		}
	}
	return path
}

func first(xs []B) string {
	if len(xs) == 0 {
		return ""
	}
	return string(xs[0])
}

func effPercent(opts []TOpt) (p int, adaptive bool) {
	p = 100
	for _, o := range opts {
		if o.K == "percent" {
			p = o.N
		}
		if o.K == "maxrate" && o.N > 0 {
			adaptive = true
		}
	}
	return
}

func deref(p *B) string {
	if p == nil {
		return "<nil>"
	}
	return string(*p)
}

// traceOracle: the sentences of the property about one traced request.
func traceOracle(c TraceCase, obs []TObs, matches [][]bool, res *vh.Result) {
	p, adaptive := effPercent(c.Opts)
	for i, q := range c.Reqs {
		o := obs[i]
		in := map[string]any{"stream": "trace", "kind": c.Kind, "opts": c.Opts, "wrap": c.Wrap, "reqs": c.Reqs[:i+1], "failing_request": i}
		fail := func(sig, what string) { record(res, sig, what, in) }
		if o.Panic != "" {
			fail("trace-panic", "trace middleware: "+o.Panic)
			continue
		}
		inT, inP := first(q.Trace), first(q.Parent)
		// traced = the handler's context carries a trace id (that the request context did not carry before)
		traced := o.Ctx.Trace != nil
		if q.Base.Trace != nil && inT == "" {
			continue // trace keys already in the request context: judged by the correspondence only
		}
		if inT != "" {
			if o.Ctx.Trace == nil || string(*o.Ctx.Trace) != inT {
				fail("trace-id-not-kept", fmt.Sprintf("request arrived with trace id %q, handler context has %q", inT, deref(o.Ctx.Trace)))
			}
			if inP != "" && (o.Ctx.Parent == nil || string(*o.Ctx.Parent) != inP) {
				fail("parent-not-caller-span", fmt.Sprintf("request arrived with parent span %q, handler context records parent %q", inP, deref(o.Ctx.Parent)))
			}
			if o.Ctx.Span == nil || *o.Ctx.Span != q.NewSpan || !o.UsedSpan {
				fail("span-not-fresh", fmt.Sprintf("traced request runs under span %q, the span generator produced %q", deref(o.Ctx.Span), q.NewSpan))
			}
			continue
		}
		disc := false
		for _, m := range matches[i] {
			disc = disc || m
		}
		if q.NilURL && c.Kind == "http" {
			disc = false
		}
		if traced && (o.Ctx.Span == nil || *o.Ctx.Span != q.NewSpan) {
			fail("span-not-fresh", fmt.Sprintf("traced request runs under span %q, the span generator produced %q", deref(o.Ctx.Span), q.NewSpan))
		}
		if adaptive {
			// generated sequences stay below the sample size: the adaptive sampler samples everything
			if !disc && !traced && q.NewTrace != "" {
				fail("adaptive-warmup-not-sampled", "adaptive sampler did not sample a request before the sample size was reached")
			}
			continue
		}
		if p == 0 && traced {
			fail("sampling-0-traced", "SamplingPercent(0): a request without inbound trace id was traced")
		}
		if p == 100 && !disc && q.NewTrace != "" && !traced {
			fail("sampling-100-untraced", "sampling 100%: a request that matches no discard pattern was not traced")
		}
		if disc && traced {
			fail("discarded-path-traced", "a request matching a discard pattern (without inbound trace id) was traced")
		}
	}
}

func coqTOpts(opts []TOpt) string {
	ss := make([]string, len(opts))
	for i, o := range opts {
		switch o.K {
		case "percent":
			ss[i] = "OPercent " + cz(o.N)
		case "maxrate":
			ss[i] = "OMaxRate " + cz(o.N)
		case "size":
			ss[i] = "OSize " + cz(o.N)
		case "discard":
			ss[i] = "ODiscard"
		case "idfuncs":
			ss[i] = "OIdFuncs"
		}
	}
	return "[" + strings.Join(ss, "; ") + "]"
}

func coqCtx(c Ctx3) string {
	f := func(p *B) string {
		if p == nil {
			return "None"
		}
		return "(Some " + cbytes(string(*p)) + ")"
	}
	return fmt.Sprintf("(mkc %s %s %s)", f(c.Trace), f(c.Span), f(c.Parent))
}

func coqReq(q TReq, kind string, ms []bool, draw int) string {
	return fmt.Sprintf("(mkq %s %s %s %s %s (0)%%Z %s %s %s)", vh.CoqBool(!(q.NilURL && kind == "http")), cboolList(ms),
		clist(bs(q.Trace)), clist(bs(q.Parent)), coqCtx(q.Base), cz(draw), cbytes(string(q.NewTrace)), cbytes(string(q.NewSpan)))
}

func coqTrace(i int, c TraceCase, obs []TObs, matches [][]bool) string {
	qs := make([]string, len(c.Reqs))
	rs := make([]string, len(c.Reqs))
	for j, q := range c.Reqs {
		qs[j] = coqReq(q, c.Kind, matches[j], obs[j].Draw)
		rs[j] = fmt.Sprintf("(mkr %s %s %s %s)", coqCtx(obs[j].Ctx), vh.CoqBool(obs[j].UsedDraw), vh.CoqBool(obs[j].UsedTrace), vh.CoqBool(obs[j].UsedSpan))
	}
	return fmt.Sprintf("(%d, %s, %s, [%s], [%s])", i, ckind(c.Kind), coqTOpts(c.Opts), strings.Join(qs, "; "), strings.Join(rs, "; "))
}

var (
	tracePaths  = []string{"/health", "/api/ping", "/api/items", "/svc.Health/Check", "/svc.Items/List", "/", "/api/orders?probe=ping", "/api/it%65ms"}
	discardPats = []string{"^/health", "ping$", `^/svc\.Health/`, "items"}
	// discard patterns are drawn from flags x bodies: inline flags, anchors, top-level
	// alternations without parentheses; the paths below match exactly one pattern, none,
	// or one only if a flag of ANOTHER pattern leaked into it
	discFlags  = []string{"", "", "", "", "(?i)", "(?i)", "(?s)", "(?is)"}
	discBodies = []string{`^/healthz$`, `^/LIVE$`, `^/health`, `ping$`, `^/svc\.Health/`, `items`, `^/a$|^/b$`, `orders|items`, `^/api/.ping$`, `^/READY$`, `/x.y$`, `^/metrics$|^/debug/`}
	discPaths  = []string{"/healthz", "/HEALTHZ", "/live", "/LIVE", "/api/ping", "/api/PING", "/api/Xping", "/a", "/b", "/B", "/api/items", "/api/ITEMS",
		"/api/orders", "/ready", "/READY", "/metrics", "/METRICS", "/debug/vars", "/Debug/vars", "/svc.Health/Check", "/SVC.HEALTH/check", "/svc.Items/List", "/", "/x-y", "/api/orders?probe=ping"}
	inboundTraces = [][]B{nil, nil, nil, {""}, {"tid-in"}, {"0af7651916cd43dd8448eb211c80319c"}, {"t1", "t2"}, {"", "t2"}, {"tr\xc3\xa9"}, {"x"}, {"span-in"}}
	inboundParent = [][]B{nil, nil, {""}, {"span-in"}, {"b7ad6b7169203331"}, {"p1", "p2"}, {"", "p2"}, {"x"}, {"tid-in"}}
)

func bp(s string) *B { b := B(s); return &b }

func genTOpts(rng *vh.RNG, allowAdaptive bool) (opts []TOpt, size int, adaptive bool) {
	size = 1000
	switch k := rng.Intn(10); {
	case k < 2:
		opts = append(opts, TOpt{K: "percent", N: 0})
	case k < 4:
		opts = append(opts, TOpt{K: "percent", N: 100})
	case k < 7:
		opts = append(opts, TOpt{K: "percent", N: rng.Intn(101)})
	case k < 8 && allowAdaptive:
		adaptive = true
		opts = append(opts, TOpt{K: "maxrate", N: vh.Pick(rng, []int{1, 2, 50, 100000})})
		if rng.Chance(2, 3) {
			size = 2 + rng.Intn(6)
			opts = append(opts, TOpt{K: "size", N: size})
		}
		if rng.Bool() {
			opts = append(opts, TOpt{K: "percent", N: rng.Intn(101)}) // ignored once a max rate is set
		}
	default: // defaults: 100 %
	}
	if rng.Chance(2, 3) {
		for k := rng.Intn(5); k > 0; k-- {
			opts = append(opts, TOpt{K: "discard", Pattern: vh.Pick(rng, discFlags) + vh.Pick(rng, discBodies)})
		}
	}
	// the deterministic id functions, somewhere in the list
	at := rng.Intn(len(opts) + 1)
	opts = append(opts[:at], append([]TOpt{{K: "idfuncs"}}, opts[at:]...)...)
	if rng.Chance(1, 8) {
		// later options override earlier ones
		opts = append([]TOpt{{K: "percent", N: rng.Intn(101)}}, opts...)
	}
	return
}

func genTReq(rng *vh.RNG, tag string, kind string) TReq {
	paths := tracePaths
	if rng.Chance(2, 3) {
		paths = discPaths
	}
	q := TReq{Path: vh.Pick(rng, paths), Seed: int64(rng.Next() >> 1), NewTrace: B("T" + tag), NewSpan: B("S" + tag)}
	q.Trace = vh.Pick(rng, inboundTraces)
	q.Parent = vh.Pick(rng, inboundParent)
	q.NilURL = rng.Chance(1, 30)
	if rng.Chance(1, 12) {
		if rng.Bool() {
			q.Base.Parent = bp("stale-parent")
		}
		if rng.Chance(1, 3) {
			q.Base.Trace, q.Base.Span = bp("stale-trace"), bp("stale-span")
		}
	}
	if kind != "http" && rng.Chance(1, 25) {
		q.Path = "/x\ny" // a full method with a newline: only (?s) lets "." match it
	}
	if rng.Chance(1, 50) {
		q.NewTrace = "" // a TraceIDFunc returning the empty string: the request stays untraced
	}
	if rng.Chance(1, 80) {
		q.NewSpan = ""
	}
	return q
}

func genTrace(rng *vh.RNG, tier string) []TraceCase {
	var cases []TraceCase
	// corpus: every kind x sampling {0,100,default} x inbound {none, trace, trace+parent}
	for _, k := range kinds {
		for _, po := range [][]TOpt{{{K: "percent", N: 0}}, {{K: "percent", N: 100}}, {}} {
			for v := 0; v < 3; v++ {
				q := TReq{Path: "/api/items", Seed: int64(7 + v), NewTrace: "Tc", NewSpan: "Sc"}
				if v >= 1 {
					q.Trace = []B{"tid-in"}
				}
				if v == 2 {
					q.Parent = []B{"span-in"}
				}
				cases = append(cases, TraceCase{Stream: "trace", Kind: k, Opts: append(append([]TOpt{}, po...), TOpt{K: "idfuncs"}), Reqs: []TReq{q}})
			}
		}
	}
	// several discard patterns: a request is discarded iff SOME pattern matches its path on its
	// own. The last path of every row matches a later pattern only if a flag of an earlier one
	// leaked into it (patterns folded into one expression without grouping).
	leaks := [][]string{
		{`(?i)^/healthz$`, `^/LIVE$`, "/live"},
		{`(?i)ping$`, `^/READY$`, "/ready"},
		{`(?i)^/a$|^/b$`, `items`, "/api/ITEMS"},
		{`^/metrics$`, `(?i)^/debug/`, `^/LIVE$`, "/live"},
		{`(?s)^/zzz`, `/x.y$`, "/x\ny"},
		{`^/LIVE$`, `(?i)^/healthz$`, "/HEALTHZ"}, // matches the second pattern on its own: discarded
		{`^/a$|^/b$`, `ping$`, "/b"},              // top-level alternation: discarded
		{`^/a$|^/b$`, `ping$`, "/bb"},             // not discarded
	}
	for _, k := range kinds {
		for li, row := range leaks {
			path := row[len(row)-1]
			if k == "http" && strings.Contains(path, "\n") {
				continue
			}
			for _, po := range [][]TOpt{{{K: "percent", N: 100}}, {}, {{K: "percent", N: 0}}} {
				c := TraceCase{Stream: "trace", Kind: k, Wrap: li%2 == 0, Opts: append([]TOpt{{K: "idfuncs"}}, po...)}
				for _, pat := range row[:len(row)-1] {
					c.Opts = append(c.Opts, TOpt{K: "discard", Pattern: pat})
				}
				c.Reqs = []TReq{{Path: path, Seed: int64(100 + li), NewTrace: "Tl", NewSpan: "Sl"}}
				cases = append(cases, c)
			}
		}
	}
	n := 1200
	if tier == "thorough" {
		n = 11000
	}
	for i := 0; i < n; i++ {
		c := TraceCase{Stream: "trace", Kind: vh.Pick(rng, kinds), Wrap: rng.Bool()}
		var size int
		var adaptive bool
		c.Opts, size, adaptive = genTOpts(rng, true)
		nreq := 1 + rng.Intn(5)
		if adaptive && c.Kind == "http" && nreq > size-1 {
			nreq = size - 1 // stay below the first clock-dependent adjustment
		}
		for j := 0; j < nreq; j++ {
			c.Reqs = append(c.Reqs, genTReq(rng, fmt.Sprintf("%d.%d", i, j), c.Kind))
		}
		cases = append(cases, c)
	}
	return cases
}

// ================================================================ chains

type Hop struct {
	Kind      string   `json:"kind"`
	Opts      []TOpt   `json:"opts"`
	Path      string   `json:"path"`
	Seed      int64    `json:"seed"`
	NewTrace  B        `json:"new_trace"`
	NewSpan   B        `json:"new_span"`
	OutTrace  []B      `json:"out_trace,omitempty"` // trace headers the handler put on its outgoing request itself
	OutParent []B      `json:"out_parent,omitempty"`
	Client    []string `json:"client,omitempty"` // client stack used to call the next hop, first = outermost (default: traced)
	Shape     string   `json:"shape,omitempty"`  // HTTP request shape of that call
}

type ChainCase struct {
	Stream   string `json:"stream"`
	Hops     []Hop  `json:"hops"`
	InTrace  []B    `json:"in_trace,omitempty"`
	InParent []B    `json:"in_parent,omitempty"`
}

type HopObs struct {
	InTrace, InParent []B // trace headers / metadata the server received
	Ctx               Ctx3
	Draw              int
	Matches           []bool
}

type ChainObs struct {
	Hops  []HopObs
	Panic string `json:",omitempty"`
}

type wireDoer func(*http.Request) (*http.Response, error)

func (f wireDoer) Do(r *http.Request) (*http.Response, error) { return f(r) }

func runChain(c ChainCase) (o ChainObs) {
	defer func() {
		if r := recover(); r != nil {
			o.Panic = fmt.Sprint(r)
		}
	}()
	var serve func(k int, trace, parent []string)
	serve = func(k int, trace, parent []string) {
		h := c.Hops[k]
		g := &idGen{trace: string(h.NewTrace), span: string(h.NewSpan)}
		opts, adaptive, patterns := traceOptions(h.Opts, g, h.Kind, k%2 == 1)
		n := 100
		if adaptive {
			n = 10000
		}
		draw, _ := seedDraw(h.Seed, n)
		ho := HopObs{InTrace: toB(trace), InParent: toB(parent), Draw: draw}
		for _, re := range patterns {
			ho.Matches = append(ho.Matches, re.MatchString(matchTarget(h.Kind, h.Path)))
		}
		o.Hops = append(o.Hops, ho)
		srv := newServer(h.Kind, opts)
		srv.call(h.Path, false, trace, parent, Ctx3{}, func(ctx context.Context) {
			o.Hops[k].Ctx = readCtx(ctx)
			if k+1 == len(c.Hops) {
				return
			}
			next := c.Hops[k+1]
			clientCall(ctx, next.Kind, next.Path, h.Client, h.Shape, h.OutTrace, h.OutParent, func(trace, parent []string) { serve(k+1, trace, parent) })
		})
	}
	serve(0, bs(c.InTrace), bs(c.InParent))
	return
}

// chainOracle: a chain whose first server is traced shares one trace; every
// later server's parent is its caller's span; spans are fresh at every hop; the
// traced client forwarded the current trace id and span.
func chainOracle(c ChainCase, o ChainObs, res *vh.Result) {
	fail := func(sig, what string) { record(res, sig, what, c) }
	if o.Panic != "" {
		fail("chain-panic", "chain: "+o.Panic)
		return
	}
	if len(o.Hops) != len(c.Hops) {
		fail("chain-broken", fmt.Sprintf("%d of %d servers were reached", len(o.Hops), len(c.Hops)))
		return
	}
	if o.Hops[0].Ctx.Trace == nil {
		return // first server not traced (sampling / discard): nothing to propagate
	}
	t := *o.Hops[0].Ctx.Trace
	spans := map[B]int{}
	for k, h := range o.Hops {
		if k > 0 && !hasTraced(c.Hops[k-1].Client) {
			return // the caller did not use the traced client: nothing had to be forwarded
		}
		if h.Ctx.Trace == nil || *h.Ctx.Trace != t {
			fail("chain-trace-not-shared", fmt.Sprintf("server %d runs under trace %q, the chain started under %q", k, deref(h.Ctx.Trace), t))
			return
		}
		if h.Ctx.Span == nil || *h.Ctx.Span == "" {
			if c.Hops[k].NewSpan != "" {
				fail("chain-span-missing", fmt.Sprintf("server %d has no span", k))
			}
			return
		}
		if prev, dup := spans[*h.Ctx.Span]; dup {
			fail("chain-span-reused", fmt.Sprintf("server %d runs under span %q, which is server %d's span", k, *h.Ctx.Span, prev))
			return
		}
		spans[*h.Ctx.Span] = k
		if k > 0 {
			caller := *o.Hops[k-1].Ctx.Span
			if first(h.InTrace) != string(t) || len(h.InTrace) != 1 {
				fail("client-did-not-forward-trace", fmt.Sprintf("server %d received trace header %q, caller's trace is %q", k, bs(h.InTrace), t))
				return
			}
			if first(h.InParent) != string(caller) || len(h.InParent) != 1 {
				fail("client-did-not-forward-span", fmt.Sprintf("server %d received parent-span header %q, caller's span is %q", k, bs(h.InParent), caller))
				return
			}
			if h.Ctx.Parent == nil || *h.Ctx.Parent != caller {
				fail("chain-parent-not-caller-span", fmt.Sprintf("server %d records parent %q, its caller's span is %q", k, deref(h.Ctx.Parent), caller))
				return
			}
		}
	}
}

func coqChain(i int, c ChainCase, o ChainObs) string {
	hs := make([]string, len(c.Hops))
	for k, h := range c.Hops {
		var ms []bool
		draw := 0
		if k < len(o.Hops) {
			ms, draw = o.Hops[k].Matches, o.Hops[k].Draw
		}
		q := TReq{Path: h.Path, NewTrace: h.NewTrace, NewSpan: h.NewSpan}
		hs[k] = fmt.Sprintf("mkh %s %s %s (%s, %s) %s", ckind(h.Kind), coqTOpts(h.Opts), coqReq(q, h.Kind, ms, draw), clist(bs(h.OutTrace)), clist(bs(h.OutParent)), coqClient(h.Client))
	}
	os := make([]string, len(o.Hops))
	for k, h := range o.Hops {
		os[k] = fmt.Sprintf("((%s, %s), %s)", clist(bs(h.InTrace)), clist(bs(h.InParent)), coqCtx(h.Ctx))
	}
	return fmt.Sprintf("(%d, [%s], (%s, %s), [%s])", i, strings.Join(hs, "; "), clist(bs(c.InTrace)), clist(bs(c.InParent)), strings.Join(os, "; "))
}

func genChains(rng *vh.RNG, tier string) []ChainCase {
	n, maxDepth := 500, 4
	if tier == "thorough" {
		n, maxDepth = 3500, 8
	}
	var cases []ChainCase
	mk := func(i, depth int, hopKind func(k int) string, always bool) ChainCase {
		c := ChainCase{Stream: "chain"}
		for k := 0; k < depth; k++ {
			h := Hop{Kind: hopKind(k), Path: vh.Pick(rng, tracePaths), Seed: int64(rng.Next() >> 1),
				NewTrace: B(fmt.Sprintf("T%d.%d", i, k)), NewSpan: B(fmt.Sprintf("S%d.%d", i, k))}
			if always {
				h.Opts = []TOpt{{K: "idfuncs"}}
			} else {
				h.Opts, _, _ = genTOpts(rng, false)
				if rng.Chance(1, 10) {
					h.OutTrace = []B{"stale-out-trace"}
				}
				if rng.Chance(1, 10) {
					h.OutParent = []B{"stale-out-parent"}
				}
			}
			c.Hops = append(c.Hops, h)
		}
		for k := 0; k+1 < depth; k++ {
			c.Hops[k].Client, c.Hops[k].Shape = pickClient(rng, c.Hops[k+1].Kind)
			if !always && rng.Chance(1, 40) {
				c.Hops[k].Client = []string{"debug"}[:boolInt(c.Hops[k+1].Kind == "http")] // no traced client at all (gRPC: nothing)
				if len(c.Hops[k].Client) == 0 {
					c.Hops[k].Client = []string{"plain"}
				}
			}
		}
		if !always && rng.Chance(1, 4) {
			c.InTrace = []B{"tid-from-outside"}
			if rng.Bool() {
				c.InParent = []B{"span-from-outside"}
			}
		}
		return c
	}
	// corpus: every depth, pure and alternating transports, everything sampled
	idx := 0
	for d := 1; d <= maxDepth; d++ {
		for _, k0 := range kinds {
			k0 := k0
			cases = append(cases, mk(idx, d, func(int) string { return k0 }, true))
			idx++
		}
		cases = append(cases, mk(idx, d, func(k int) string { return kinds[k%3] }, true))
		idx++
	}
	// corpus: every client stack x every request shape (HTTP) / every client stack (gRPC), three services deep
	for _, st := range clientStacks["http"] {
		for _, sh := range httpShapes {
			c := mk(idx, 3, func(int) string { return "http" }, true)
			for k := 0; k < 2; k++ {
				c.Hops[k].Client, c.Hops[k].Shape = st, sh
			}
			cases = append(cases, c)
			idx++
		}
	}
	for _, gk := range []string{"unary", "stream"} {
		gk := gk
		for _, st := range clientStacks["grpc"] {
			c := mk(idx, 3, func(int) string { return gk }, true)
			for k := 0; k < 2; k++ {
				c.Hops[k].Client = st
			}
			cases = append(cases, c)
			idx++
		}
	}
	for ; idx < n; idx++ {
		d := 1 + rng.Intn(maxDepth)
		cases = append(cases, mk(idx, d, func(int) string { return vh.Pick(rng, kinds) }, rng.Chance(1, 3)))
	}
	return cases
}

func boolInt(b bool) int {
	if b {
		return 1
	}
	return 0
}

// ================================================================ capture

type Ev struct {
	K string `json:"k"` // wh | w | f | cp (io.Copy) | ws (io.WriteString) | cf (ResponseController.Flush)
	N int    `json:"n,omitempty"`
}

type CaptureCase struct {
	Stream string `json:"stream"`
	Events []Ev   `json:"events"`
	Budget int    `json:"budget"` // >= 0: the writer underneath accepts that many bytes in total, then short writes
	Real   bool   `json:"real,omitempty"`
}

type CaptureObs struct {
	Status, Bytes       int    // ResponseCapture.StatusCode / ContentLength
	SentStatus, SentLen int    // recorder Code / body length, or what an HTTP client received
	Returned            []int  // what every body event (w, cp, ws) returned
	Panic               string `json:",omitempty"`
}

// shortWriter accepts only budget bytes in total; it exposes Write and Flush only.
type shortWriter struct {
	http.ResponseWriter
	budget int
}

func (s *shortWriter) Write(b []byte) (int, error) {
	var err error
	if len(b) > s.budget {
		b, err = b[:s.budget], io.ErrShortWrite
	}
	n, werr := s.ResponseWriter.Write(b)
	s.budget -= n
	if werr != nil {
		err = werr
	}
	return n, err
}

func (s *shortWriter) Flush() {
	if f, ok := s.ResponseWriter.(http.Flusher); ok {
		f.Flush()
	}
}

// plainReader hides every optional interface of the reader (no WriteTo), so that
// io.Copy has to go through the destination: ReadFrom if it has one, else Write.
type plainReader struct{ r io.Reader }

func (p plainReader) Read(b []byte) (int, error) { return p.r.Read(b) }

// play drives the writer the way handlers do, through every route to the
// underlying writer: the ResponseWriter methods, io.Copy, io.WriteString and a
// ResponseController. It returns what every body event returned.
func play(w http.ResponseWriter, evs []Ev) (returned []int) {
	for _, e := range evs {
		switch e.K {
		case "wh":
			w.WriteHeader(e.N)
		case "w":
			n, _ := w.Write([]byte(strings.Repeat("x", e.N)))
			returned = append(returned, n)
		case "cp":
			n, _ := io.Copy(w, plainReader{strings.NewReader(strings.Repeat("c", e.N))})
			returned = append(returned, int(n))
		case "ws":
			n, _ := io.WriteString(w, strings.Repeat("s", e.N))
			returned = append(returned, n)
		case "f":
			if f, ok := w.(http.Flusher); ok {
				f.Flush()
			}
		case "cf":
			_ = http.NewResponseController(w).Flush()
		}
	}
	return
}

func runCapture(c CaptureCase) (o CaptureObs) {
	defer func() {
		if r := recover(); r != nil {
			o.Panic = fmt.Sprint(r)
		}
	}()
	if c.Real {
		var rc *httpmw.ResponseCapture
		var returned []int
		srv := httptest.NewUnstartedServer(http.HandlerFunc(func(w http.ResponseWriter, r *http.Request) {
			rc = httpmw.CaptureResponse(w) // the real writer, with all its optional interfaces
			returned = play(rc, c.Events)
		}))
		srv.Config.ErrorLog = log.New(io.Discard, "", 0)
		srv.Start()
		defer srv.Close()
		resp, err := http.Get(srv.URL)
		if err != nil {
			o.Panic = err.Error()
			return
		}
		body, _ := io.ReadAll(resp.Body)
		resp.Body.Close()
		return CaptureObs{Status: rc.StatusCode, Bytes: rc.ContentLength, SentStatus: resp.StatusCode, SentLen: len(body), Returned: returned}
	}
	rec := httptest.NewRecorder()
	var under http.ResponseWriter = rec
	if c.Budget >= 0 {
		under = &shortWriter{ResponseWriter: rec, budget: c.Budget}
	}
	rc := httpmw.CaptureResponse(under)
	returned := play(rc, c.Events)
	return CaptureObs{Status: rc.StatusCode, Bytes: rc.ContentLength, SentStatus: rec.Code, SentLen: rec.Body.Len(), Returned: returned}
}

// touches: some call reached the writer. io.Copy from an empty reader makes none.
func touches(evs []Ev) bool {
	for _, e := range evs {
		if !(e.K == "cp" && e.N == 0) {
			return true
		}
	}
	return false
}

func disciplined(evs []Ev) bool {
	for i, e := range evs {
		if i == 0 && (e.K == "f" || e.K == "cf") {
			return false
		}
		if i > 0 && e.K == "wh" {
			return false
		}
	}
	return true
}

// captureOracle: the capture reports the status and the byte count the writer
// underneath actually wrote (status 0 = nothing was written through it).
func captureOracle(c CaptureCase, o CaptureObs, res *vh.Result) {
	fail := func(sig, what string) { record(res, sig, what, c) }
	if o.Panic != "" {
		fail("capture-panic", "capture: "+o.Panic)
		return
	}
	if o.Bytes != o.SentLen {
		fail("capture-bytes-differ", fmt.Sprintf("ContentLength = %d, %d bytes were written", o.Bytes, o.SentLen))
	}
	want := o.SentStatus
	if !touches(c.Events) {
		want = 0 // nothing was written through the writer by the handler
	}
	if o.Status != want {
		fail("capture-status-differs", fmt.Sprintf("StatusCode = %d, the status actually written is %d", o.Status, want))
	}
}

// coqEvents prints a writer history; body events carry the count that was returned.
func coqEvents(evs []Ev, returned []int) string {
	var es []string
	w := 0
	body := func(name string, n int) {
		if w < len(returned) {
			n = returned[w]
		}
		w++
		es = append(es, fmt.Sprintf("%s %d", name, n))
	}
	for _, e := range evs {
		switch e.K {
		case "wh":
			es = append(es, "WriteHeader "+cz(e.N))
		case "w":
			body("Write", e.N)
		case "cp":
			if e.N == 0 {
				w++ // io.Copy from an empty reader never reaches the writer: no event
				continue
			}
			body("Copy", e.N)
		case "ws":
			body("WriteString", e.N)
		case "f":
			es = append(es, "Flush")
		case "cf":
			es = append(es, "CtlFlush")
		}
	}
	return "[" + strings.Join(es, "; ") + "]"
}

func coqCapture(i int, c CaptureCase, o CaptureObs) string {
	return fmt.Sprintf("(%d, %s, (%s, %d), (%s, %d))", i, coqEvents(c.Events, o.Returned), cz(o.Status), o.Bytes, cz(o.SentStatus), o.SentLen)
}

var codes = []int{200, 200, 201, 202, 301, 400, 404, 418, 500, 503, 599, 999}

// histories in which the handler misuses the writer (WriteHeader twice, WriteHeader
// after the body was started, Flush first): net/http keeps the first status
var captureWitnesses = [][]Ev{
	{{K: "wh", N: 201}, {K: "wh", N: 500}},
	{{K: "w", N: 3}, {K: "wh", N: 404}},
	{{K: "wh", N: 200}, {K: "w", N: 5}, {K: "wh", N: 500}, {K: "w", N: 2}},
	{{K: "f"}},
	{{K: "f"}, {K: "wh", N: 500}},
	{{K: "f"}, {K: "f"}},
	{{K: "f"}, {K: "w", N: 2}},             // agrees: the write fills in the 200
	{{K: "f"}, {K: "wh", N: 200}},          // agrees by coincidence
	{{K: "wh", N: 404}, {K: "wh", N: 404}}, // agrees: same code twice
	{{K: "cp", N: 5}},                      // io.Copy as the first thing the handler does
	{{K: "ws", N: 5}},                      // io.WriteString first
	{{K: "cf"}},                            // ResponseController flush first
	{{K: "cp", N: 0}},
	{{K: "cp", N: 70000}}, // more than io.Copy's buffer
	{{K: "cp", N: 4}, {K: "wh", N: 500}},
	{{K: "cf"}, {K: "wh", N: 404}, {K: "cp", N: 3}},
	{{K: "wh", N: 201}, {K: "cp", N: 9}, {K: "ws", N: 2}, {K: "cf"}, {K: "w", N: 1}},
}

func genCapture(rng *vh.RNG, tier string) []CaptureCase {
	var cases []CaptureCase
	cases = append(cases, CaptureCase{Stream: "capture", Events: []Ev{}, Budget: -1},
		CaptureCase{Stream: "capture", Events: []Ev{{K: "w", N: 3}}, Budget: -1}, // the repaired implicit 200
		CaptureCase{Stream: "capture", Events: []Ev{{K: "w", N: 0}}, Budget: -1}, // empty body written: still a 200
		CaptureCase{Stream: "capture", Events: []Ev{{K: "w", N: 3}, {K: "f"}, {K: "w", N: 4}}, Budget: -1},
		CaptureCase{Stream: "capture", Events: []Ev{{K: "wh", N: 404}, {K: "w", N: 9}}, Budget: -1},
		CaptureCase{Stream: "capture", Events: []Ev{{K: "w", N: 3}}, Budget: -1, Real: true},
		CaptureCase{Stream: "capture", Events: []Ev{{K: "wh", N: 201}, {K: "w", N: 3}, {K: "f"}, {K: "w", N: 1}}, Budget: -1, Real: true})
	for _, w := range captureWitnesses {
		cases = append(cases, CaptureCase{Stream: "capture", Events: w, Budget: -1}, CaptureCase{Stream: "capture", Events: w, Budget: -1, Real: true})
	}
	n, nreal := 1200, 120
	if tier == "thorough" {
		n, nreal = 10000, 400
	}
	for i := 0; i < n+nreal; i++ {
		c := CaptureCase{Stream: "capture", Budget: -1, Real: i >= n}
		if !c.Real && rng.Chance(1, 5) {
			c.Budget = rng.Intn(40)
		}
		if rng.Chance(1, 2) {
			// well-behaved handler: at most one WriteHeader, first
			if rng.Chance(3, 5) {
				c.Events = append(c.Events, Ev{K: "wh", N: vh.Pick(rng, codes)})
			} else if rng.Chance(4, 5) {
				c.Events = append(c.Events, Ev{K: vh.Pick(rng, []string{"w", "w", "cp", "ws"}), N: rng.Intn(30)})
			}
			if len(c.Events) > 0 {
				for k := rng.Intn(6); k > 0; k-- {
					if rng.Chance(1, 4) {
						c.Events = append(c.Events, Ev{K: vh.Pick(rng, []string{"f", "cf"})})
					} else {
						c.Events = append(c.Events, Ev{K: vh.Pick(rng, []string{"w", "w", "cp", "ws"}), N: vh.Pick(rng, []int{0, 1, 2, 7, 16, 64, rng.Intn(200)})})
					}
				}
			}
		} else {
			// any interleaving of the three calls
			for k := rng.Intn(7); k > 0; k-- {
				switch rng.Intn(5) {
				case 0, 1:
					c.Events = append(c.Events, Ev{K: "wh", N: vh.Pick(rng, codes)})
				case 2:
					c.Events = append(c.Events, Ev{K: vh.Pick(rng, []string{"f", "cf"})})
				default:
					c.Events = append(c.Events, Ev{K: vh.Pick(rng, []string{"w", "cp", "ws"}), N: vh.Pick(rng, []int{0, 1, 3, 16, rng.Intn(100)})})
				}
			}
		}
		cases = append(cases, c)
	}
	return cases
}

// ================================================================ stacks

// A stack is a server's middleware chain composed the way servers compose it
// (http: nested handlers; grpc: ChainUnaryInterceptor / ChainStreamInterceptor
// order, first = outermost). Besides request-id and trace it contains layers that
// must be transparent for the identifiers, in every position.
type Layer struct {
	K     string   `json:"k"` // rid | trace | log | logctx | cancel | debug | populate | keyvals | redirect
	Rid   []RidOpt `json:"rid,omitempty"`
	Trace []TOpt   `json:"trace,omitempty"`
}

type StackCase struct {
	Stream   string   `json:"stream"`
	Kind     string   `json:"kind"`
	Layers   []Layer  `json:"layers"`
	Headers  []HV     `json:"headers,omitempty"`
	Trace    []B      `json:"trace,omitempty"`
	Parent   []B      `json:"parent,omitempty"`
	Path     string   `json:"path"`
	Seed     int64    `json:"seed"`
	NewTrace B        `json:"new_trace"`
	NewSpan  B        `json:"new_span"`
	Next     string   `json:"next"` // transport of the downstream call made from the handler
	Wrap     bool     `json:"wrap,omitempty"`
	Client   []string `json:"client,omitempty"` // client stack of that call, first = outermost (default: traced)
	Shape    string   `json:"shape,omitempty"`  // HTTP request shape of that call
	Events   []Ev     `json:"events,omitempty"` // http: what the handler does with its ResponseWriter
}

type StackObs struct {
	Called    bool
	Rid       *B
	MD        []B
	Ctx       Ctx3
	FwdTrace  []B // what the downstream server received from the traced client
	FwdParent []B
	Fwd       bool
	Draw      int
	Matches   [][]bool // per trace layer
	LogIDs    []B      // the id every Log layer printed, outermost first
	Reports   [][2]int // http: status / bytes every Log layer printed
	RecCode   int      // http: what the recorder underneath received
	RecLen    int
	Returned  []int
	Panic     string `json:",omitempty"`
}

var transparentLayers = map[string][]string{
	"http":   {"log", "logctx", "debug", "populate", "keyvals", "redirect"},
	"unary":  {"log", "logctx"},
	"stream": {"log", "logctx", "cancel"},
}

func chainUnary(ics []grpc.UnaryServerInterceptor, info *grpc.UnaryServerInfo, final grpc.UnaryHandler) grpc.UnaryHandler {
	h := final
	for i := len(ics) - 1; i >= 0; i-- {
		ic, next := ics[i], h
		h = func(ctx context.Context, req any) (any, error) { return ic(ctx, req, info, next) }
	}
	return h
}

func chainStream(ics []grpc.StreamServerInterceptor, info *grpc.StreamServerInfo, final grpc.StreamHandler) grpc.StreamHandler {
	h := final
	for i := len(ics) - 1; i >= 0; i-- {
		ic, next := ics[i], h
		h = func(srv any, ss grpc.ServerStream) error { return ic(srv, ss, info, next) }
	}
	return h
}

// ---- client stacks: how a handler calls the next service

// The traced client is composed, in any order (first = outermost), with the
// wrappers goa itself puts between a caller's context and the wire, which have to
// be transparent for the context and the trace headers: goahttp.NewDebugDoer (the
// generated CLI wraps the client in it with -debug), goagrpc.NewInvoker (every
// generated gRPC client method goes through it), and a user interceptor that adds
// unrelated outgoing metadata.
var clientStacks = map[string][][]string{
	"http": {{"traced"}, {"debug", "traced"}, {"traced", "debug"}, {"debug", "traced", "debug"}, {"debug", "debug", "traced"}, {"traced", "traced"}},
	"grpc": {{"traced"}, {"plain", "traced"}, {"traced", "plain"}, {"invoker", "traced"}, {"invoker", "plain", "traced"}, {"invoker", "traced", "plain"}},
}

// request shapes of an HTTP call: method and the way the body is given
var httpShapes = []string{"get", "post-bytes", "put-string", "post-nobody", "patch-reader", "delete-empty"}

type onlyReader struct{ r io.Reader }

func (o onlyReader) Read(b []byte) (int, error) { return o.r.Read(b) }

func shapeRequest(ctx context.Context, shape, url string) *http.Request {
	var req *http.Request
	switch shape {
	case "post-bytes":
		req, _ = http.NewRequestWithContext(ctx, "POST", url, bytes.NewReader([]byte(`{"from":"caller"}`)))
	case "put-string":
		req, _ = http.NewRequestWithContext(ctx, "PUT", url, strings.NewReader("payload"))
	case "post-nobody":
		req, _ = http.NewRequestWithContext(ctx, "POST", url, http.NoBody)
	case "patch-reader":
		req, _ = http.NewRequestWithContext(ctx, "PATCH", url, onlyReader{strings.NewReader("streamed body of unknown length")})
	case "delete-empty":
		req, _ = http.NewRequestWithContext(ctx, "DELETE", url, strings.NewReader(""))
	default:
		req, _ = http.NewRequestWithContext(ctx, "GET", url, nil)
	}
	return req
}

var devNull, _ = os.OpenFile(os.DevNull, os.O_WRONLY, 0)

// clientCall calls the next service (transport kind) from inside a handler with the
// handler's context through the given client stack and hands the trace headers /
// metadata that reach the wire to wire. outTrace / outParent are trace headers the
// handler had already put on the outgoing request itself.
func clientCall(ctx context.Context, kind, path string, layers []string, shape string, outTrace, outParent []B, wire func(trace, parent []string)) {
	if len(layers) == 0 {
		layers = []string{"traced"}
	}
	switch kind {
	case "http":
		var d httpmw.Doer = wireDoer(func(r *http.Request) (*http.Response, error) {
			// the wire: only the headers travel, the next server starts from a fresh context
			if r.Body != nil {
				_, _ = io.Copy(io.Discard, r.Body)
			}
			wire(r.Header[hTrace], r.Header[hParent])
			return &http.Response{StatusCode: 200, Header: http.Header{}, Body: io.NopCloser(strings.NewReader("ok"))}, nil
		})
		for i := len(layers) - 1; i >= 0; i-- {
			switch layers[i] {
			case "traced":
				d = httpmw.WrapDoer(d)
			case "debug":
				d = goahttp.NewDebugDoer(d)
			default:
				panic("http client layer " + layers[i])
			}
		}
		req := shapeRequest(ctx, shape, "http://next"+path)
		if outTrace != nil {
			req.Header[hTrace] = bs(outTrace)
		}
		if outParent != nil {
			req.Header[hParent] = bs(outParent)
		}
		saved := os.Stderr
		os.Stderr = devNull // the debug doer dumps every exchange on os.Stderr
		resp, err := d.Do(req)
		os.Stderr = saved
		if err == nil && resp != nil && resp.Body != nil {
			resp.Body.Close()
		}
	default:
		octx := ctx
		if outTrace != nil || outParent != nil {
			m := metadata.MD{}
			if outTrace != nil {
				m[grpcmw.TraceIDMetadataKey] = bs(outTrace)
			}
			if outParent != nil {
				m[grpcmw.ParentSpanIDMetadataKey] = bs(outParent)
			}
			octx = metadata.NewOutgoingContext(ctx, m)
		}
		onWire := func(c2 context.Context) {
			m, _ := metadata.FromOutgoingContext(c2)
			wire(m[grpcmw.TraceIDMetadataKey], m[grpcmw.ParentSpanIDMetadataKey])
		}
		useInvoker := false
		if layers[0] == "invoker" {
			useInvoker, layers = true, layers[1:]
		}
		var call func(ctx context.Context) error
		if kind == "unary" {
			inv := grpc.UnaryInvoker(func(c2 context.Context, method string, req, reply any, cc *grpc.ClientConn, opts ...grpc.CallOption) error {
				onWire(c2)
				return nil
			})
			for i := len(layers) - 1; i >= 0; i-- {
				var ic grpc.UnaryClientInterceptor
				switch layers[i] {
				case "traced":
					ic = grpcmw.UnaryClientTrace()
				case "plain":
					ic = func(c2 context.Context, method string, req, reply any, cc *grpc.ClientConn, invoker grpc.UnaryInvoker, opts ...grpc.CallOption) error {
						return invoker(metadata.AppendToOutgoingContext(c2, "x-user-interceptor", "1"), method, req, reply, cc, opts...)
					}
				default:
					panic("grpc client layer " + layers[i])
				}
				next := inv
				inv = func(c2 context.Context, method string, req, reply any, cc *grpc.ClientConn, opts ...grpc.CallOption) error {
					return ic(c2, method, req, reply, cc, next, opts...)
				}
			}
			call = func(c2 context.Context) error { return inv(c2, path, nil, nil, nil) }
		} else {
			str := grpc.Streamer(func(c2 context.Context, desc *grpc.StreamDesc, cc *grpc.ClientConn, method string, opts ...grpc.CallOption) (grpc.ClientStream, error) {
				onWire(c2)
				return nil, nil
			})
			for i := len(layers) - 1; i >= 0; i-- {
				var ic grpc.StreamClientInterceptor
				switch layers[i] {
				case "traced":
					ic = grpcmw.StreamClientTrace()
				case "plain":
					ic = func(c2 context.Context, desc *grpc.StreamDesc, cc *grpc.ClientConn, method string, streamer grpc.Streamer, opts ...grpc.CallOption) (grpc.ClientStream, error) {
						return streamer(metadata.AppendToOutgoingContext(c2, "x-user-interceptor", "1"), desc, cc, method, opts...)
					}
				default:
					panic("grpc client layer " + layers[i])
				}
				next := str
				str = func(c2 context.Context, desc *grpc.StreamDesc, cc *grpc.ClientConn, method string, opts ...grpc.CallOption) (grpc.ClientStream, error) {
					return ic(c2, desc, cc, method, next, opts...)
				}
			}
			call = func(c2 context.Context) error { _, err := str(c2, &grpc.StreamDesc{}, nil, path); return err }
		}
		if useInvoker {
			// the way every generated gRPC client method calls: through goagrpc.NewInvoker
			enc := func(c2 context.Context, v any, md *metadata.MD) (any, error) {
				md.Set("x-encoded-by", "request-encoder")
				return v, nil
			}
			_, _ = goagrpc.NewInvoker(func(c2 context.Context, reqpb any, opts ...grpc.CallOption) (any, error) { return nil, call(c2) }, enc, nil).Invoke(octx, nil)
		} else {
			_ = call(octx)
		}
	}
}

func hasTraced(layers []string) bool {
	if len(layers) == 0 {
		return true
	}
	for _, l := range layers {
		if l == "traced" {
			return true
		}
	}
	return false
}

func coqClient(layers []string) string {
	if len(layers) == 0 {
		layers = []string{"traced"}
	}
	ss := make([]string, len(layers))
	for i, l := range layers {
		if l == "traced" {
			ss[i] = "CTraced"
		} else {
			ss[i] = "CTransparent"
		}
	}
	return "[" + strings.Join(ss, "; ") + "]"
}

func pickClient(rng *vh.RNG, nextKind string) ([]string, string) {
	if nextKind == "http" {
		return vh.Pick(rng, clientStacks["http"]), vh.Pick(rng, httpShapes)
	}
	return vh.Pick(rng, clientStacks["grpc"]), ""
}

func runStack(c StackCase) (o StackObs) {
	defer func() {
		if r := recover(); r != nil {
			o.Panic = fmt.Sprint(r)
		}
	}()
	g := &idGen{trace: string(c.NewTrace), span: string(c.NewSpan)}
	var loggers []*memLogger // one per Log layer, outermost first
	cctx, stop := context.WithCancel(context.Background())
	defer stop() // releases the canceler's goroutine
	adaptive := false
	see := func(ctx context.Context) {
		o.Called = true
		if v := ctx.Value(middleware.RequestIDKey); v != nil {
			o.Rid = bp(strOrEmpty(v))
		}
		if md, ok := metadata.FromIncomingContext(ctx); ok {
			o.MD = toB(append([]string{}, md[grpcmw.RequestIDMetadataKey]...))
		}
		o.Ctx = readCtx(ctx)
		clientCall(ctx, c.Next, "/svc.Next/Call", c.Client, c.Shape, nil, nil, func(t, p []string) {
			o.FwdTrace, o.FwdParent, o.Fwd = toB(t), toB(p), true
		})
	}
	var hs []func(http.Handler) http.Handler
	var us []grpc.UnaryServerInterceptor
	var ss []grpc.StreamServerInterceptor
	for _, l := range c.Layers {
		var ro []middleware.RequestIDOption
		var to []middleware.TraceOption
		if l.K == "rid" {
			ro = RidCase{Kind: c.Kind, Opts: l.Rid, Wrap: c.Wrap}.options()
		}
		if l.K == "trace" {
			var ad bool
			var pats []*regexp.Regexp
			to, ad, pats = traceOptions(l.Trace, g, c.Kind, c.Wrap)
			adaptive = adaptive || ad
			ms := make([]bool, len(pats))
			for i, re := range pats {
				ms[i] = re.MatchString(matchTarget(c.Kind, c.Path))
			}
			o.Matches = append(o.Matches, ms)
		}
		ml := &memLogger{}
		if l.K == "log" || l.K == "logctx" {
			loggers = append(loggers, ml)
		}
		logFromCtx := func(context.Context) middleware.Logger { return ml }
		switch c.Kind + "/" + l.K {
		case "http/rid":
			hs = append(hs, httpmw.RequestID(ro...))
		case "http/trace":
			hs = append(hs, httpmw.Trace(to...))
		case "http/log":
			hs = append(hs, httpmw.Log(ml))
		case "http/logctx":
			hs = append(hs, httpmw.LogContext(logFromCtx))
		case "http/debug":
			hs = append(hs, httpmw.Debug(goahttp.NewMuxer(), io.Discard))
		case "http/populate":
			hs = append(hs, httpmw.PopulateRequestContext())
		case "http/keyvals":
			hs = append(hs, httpmw.RequestContextKeyVals("some-key", "some-value"))
		case "http/redirect":
			hs = append(hs, httpmw.SmartRedirectSlashes)
		case "unary/rid":
			us = append(us, grpcmw.UnaryRequestID(ro...))
		case "unary/trace":
			us = append(us, grpcmw.UnaryServerTrace(to...))
		case "unary/log":
			us = append(us, grpcmw.UnaryServerLog(ml))
		case "unary/logctx":
			us = append(us, grpcmw.UnaryServerLogContext(logFromCtx))
		case "stream/rid":
			ss = append(ss, grpcmw.StreamRequestID(ro...))
		case "stream/trace":
			ss = append(ss, grpcmw.StreamServerTrace(to...))
		case "stream/log":
			ss = append(ss, grpcmw.StreamServerLog(ml))
		case "stream/logctx":
			ss = append(ss, grpcmw.StreamServerLogContext(logFromCtx))
		case "stream/cancel":
			ss = append(ss, grpcmw.StreamCanceler(cctx))
		default:
			panic("layer " + l.K + " does not exist for " + c.Kind)
		}
	}
	n := 100
	if adaptive {
		n = 10000
	}
	o.Draw, _ = seedDraw(c.Seed, n)
	switch c.Kind {
	case "http":
		var h http.Handler = http.HandlerFunc(func(w http.ResponseWriter, r *http.Request) { see(r.Context()); o.Returned = play(w, c.Events) })
		for i := len(hs) - 1; i >= 0; i-- {
			h = hs[i](h)
		}
		r := httptest.NewRequest("GET", "http://svc"+c.Path, nil)
		for _, hv := range c.Headers {
			r.Header[http.CanonicalHeaderKey(hv.Name)] = bs(hv.Values)
		}
		if c.Trace != nil {
			r.Header[hTrace] = bs(c.Trace)
		}
		if c.Parent != nil {
			r.Header[hParent] = bs(c.Parent)
		}
		rec := httptest.NewRecorder()
		h.ServeHTTP(rec, r)
		o.RecCode, o.RecLen = rec.Code, rec.Body.Len()
	default:
		m := metadata.MD{}
		for _, hv := range c.Headers {
			m[strings.ToLower(hv.Name)] = bs(hv.Values)
		}
		if c.Trace != nil {
			m[grpcmw.TraceIDMetadataKey] = bs(c.Trace)
		}
		if c.Parent != nil {
			m[grpcmw.ParentSpanIDMetadataKey] = bs(c.Parent)
		}
		ctx := metadata.NewIncomingContext(context.Background(), m)
		if c.Kind == "unary" {
			_, _ = chainUnary(us, &grpc.UnaryServerInfo{FullMethod: c.Path}, func(ctx context.Context, req any) (any, error) { see(ctx); return nil, nil })(ctx, nil)
		} else {
			_ = chainStream(ss, &grpc.StreamServerInfo{FullMethod: c.Path}, func(srv any, st grpc.ServerStream) error { see(st.Context()); return nil })(nil, &fakeServerStream{ctx: ctx})
		}
	}
	for _, ml := range loggers {
		if len(ml.entries) != 2 {
			o.Panic = fmt.Sprintf("a Log layer wrote %d entries for one request", len(ml.entries))
			return
		}
		id, _ := kv(ml.entries[1], "id")
		o.LogIDs = append(o.LogIDs, B(fmt.Sprint(id)))
		if c.Kind == "http" {
			st, _ := kv(ml.entries[1], "status")
			by, _ := kv(ml.entries[1], "bytes")
			sti, _ := st.(int)
			byi, _ := by.(int)
			o.Reports = append(o.Reports, [2]int{sti, byi})
		}
	}
	return
}

// stackOracle: below the request-id layer the handler has a non-empty id (the
// truncated inbound one when trusted); below the trace layer a request that came
// with a trace id runs under it, under a fresh span, with its caller's span as
// parent, and the traced client called from the handler forwards trace and span.
func stackOracle(c StackCase, o StackObs, res *vh.Result) {
	fail := func(sig, what string) { record(res, sig, what, c) }
	if o.Panic != "" {
		fail("stack-panic", "middleware stack: "+o.Panic)
		return
	}
	if !o.Called {
		fail("stack-handler-not-called", "the handler below the middleware stack was not called")
		return
	}
	names := make([]string, len(c.Layers))
	for i, l := range c.Layers {
		names[i] = l.K
	}
	order := strings.Join(names, " > ")
	// every Log layer below the (last) request-id layer prints the id the handler sees;
	// every http Log layer prints the status / bytes that were written
	lastRid, debug, nlog := -1, false, 0
	for i, l := range c.Layers {
		if l.K == "rid" {
			lastRid = i
		}
		debug = debug || l.K == "debug"
	}
	var eff []Ev
	for _, e := range c.Events {
		if !(debug && (e.K == "f" || e.K == "cf")) {
			eff = append(eff, e) // Debug's writer wrapper is no Flusher: flushes reach nothing
		}
	}
	for i, l := range c.Layers {
		if l.K != "log" && l.K != "logctx" {
			continue
		}
		if nlog < len(o.LogIDs) {
			if lastRid >= 0 && i > lastRid && (o.Rid == nil || o.LogIDs[nlog] != *o.Rid) {
				fail("log-request-id-differs", fmt.Sprintf("stack %s: Log layer %d printed id %q, the handler's context carries %q", order, i, o.LogIDs[nlog], deref(o.Rid)))
			}
			if o.LogIDs[nlog] == "" {
				fail("log-request-id-differs", fmt.Sprintf("stack %s: Log layer %d printed an empty id", order, i))
			}
		}
		if c.Kind == "http" && nlog < len(o.Reports) {
			want := o.RecCode
			if !touches(eff) {
				want = 0
			}
			if o.Reports[nlog][0] != want || o.Reports[nlog][1] != o.RecLen {
				// recorded finding: a capture nested in another capture, with a Debug layer (whose writer
				// wrapper is no http.Flusher) further out, records the implicit 200 of a flush that goes nowhere
				sig := "log-status-bytes-differ"
				debugAfter, outerIsLog, hasFlush := false, false, false
				for j, l2 := range c.Layers {
					if j > i && l2.K == "debug" {
						debugAfter = true
					}
					if j < i && (l2.K == "log" || l2.K == "logctx" || l2.K == "debug") {
						outerIsLog = l2.K != "debug"
					}
				}
				for _, e := range c.Events {
					hasFlush = hasFlush || e.K == "f" || e.K == "cf"
				}
				if debug && !debugAfter && outerIsLog && hasFlush && o.Reports[nlog][1] == o.RecLen {
					sig = "log/flush-recorded-over-non-flusher"
				}
				fail(sig, fmt.Sprintf("stack %s, handler %v: Log layer %d printed status=%d bytes=%d, written: status %d, %d bytes", order, c.Events, i, o.Reports[nlog][0], o.Reports[nlog][1], want, o.RecLen))
			}
		}
		nlog++
	}
	for _, l := range c.Layers {
		switch l.K {
		case "rid":
			if o.Rid == nil || *o.Rid == "" {
				fail("stack-request-id-lost", "stack "+order+": the handler's context carries no request id")
				break
			}
			rc := RidCase{Kind: c.Kind, Opts: l.Rid, Headers: c.Headers}
			use, header, limit := rc.configured()
			if in := rc.inboundValue(header); use && in != "" {
				want := in
				if limit > 0 && len(in) > limit {
					want = in[:limit]
				}
				if string(*o.Rid) != want {
					fail("stack-request-id-lost", fmt.Sprintf("stack %s: trusted inbound id %q (limit %d), handler sees %q", order, in, limit, *o.Rid))
				}
			}
			if c.Kind != "http" && (len(o.MD) != 1 || o.MD[0] != *o.Rid) {
				fail("grpc-request-id-metadata-not-set", fmt.Sprintf("stack %s: incoming metadata x-request-id = %q, context id = %q", order, bs(o.MD), *o.Rid))
			}
		case "trace":
			inT, inP := first(c.Trace), first(c.Parent)
			if inT == "" {
				break
			}
			if deref(o.Ctx.Trace) != inT || o.Ctx.Span == nil || *o.Ctx.Span != c.NewSpan || (inP != "" && deref(o.Ctx.Parent) != inP) {
				fail("stack-trace-context-lost", fmt.Sprintf("stack %s: request came with trace %q parent %q, handler context has trace %q span %q parent %q (fresh span %q)",
					order, inT, inP, deref(o.Ctx.Trace), deref(o.Ctx.Span), deref(o.Ctx.Parent), c.NewSpan))
				break
			}
			if !o.Fwd {
				fail("stack-client-did-not-forward", fmt.Sprintf("stack %s: the %s call made from the handler through client stack %v never reached the wire", order, c.Next, c.Client))
			} else if hasTraced(c.Client) && (len(o.FwdTrace) != 1 || string(o.FwdTrace[0]) != inT || len(o.FwdParent) != 1 || o.FwdParent[0] != c.NewSpan) {
				fail("stack-client-did-not-forward", fmt.Sprintf("stack %s: %s client stack %v (request %q) called from the handler forwarded trace %q parent %q, expected %q / %q",
					order, c.Next, c.Client, c.Shape, bs(o.FwdTrace), bs(o.FwdParent), inT, c.NewSpan))
			}
		}
	}
}

func coqStack(i int, c StackCase, o StackObs) string {
	ls := make([]string, len(c.Layers))
	nt, nl := 0, 0
	for j, l := range c.Layers {
		switch l.K {
		case "rid":
			fresh := ""
			if o.Rid != nil {
				fresh = string(*o.Rid)
			}
			ls[j] = fmt.Sprintf("LRid %s %s", coqRidOpts(l.Rid), cbytes(fresh))
		case "trace":
			var ms []bool
			if nt < len(o.Matches) {
				ms = o.Matches[nt]
			}
			nt++
			q := TReq{Path: c.Path, Trace: c.Trace, Parent: c.Parent, NewTrace: c.NewTrace, NewSpan: c.NewSpan}
			ls[j] = fmt.Sprintf("LTrace %s %s", coqTOpts(l.Trace), coqReq(q, c.Kind, ms, o.Draw))
		case "log", "logctx":
			fresh := ""
			if nl < len(o.LogIDs) {
				fresh = string(o.LogIDs[nl])
			}
			nl++
			ls[j] = "LLog " + cbytes(fresh)
		case "debug":
			ls[j] = "LDebug"
		default:
			ls[j] = "LTransparent"
		}
	}
	rid := "None"
	if o.Rid != nil {
		rid = "(Some " + cbytes(string(*o.Rid)) + ")"
	}
	fwd := "None"
	if o.Fwd {
		fwd = fmt.Sprintf("(Some (%s, %s))", clist(bs(o.FwdTrace)), clist(bs(o.FwdParent)))
	}
	hist, reps := "[]", make([]string, len(o.Reports))
	if c.Kind == "http" {
		hist = coqEvents(c.Events, o.Returned)
	}
	for j, r := range o.Reports {
		reps[j] = fmt.Sprintf("(%s, %d)", cz(r[0]), r[1])
	}
	return fmt.Sprintf("(%d, %s, [%s], %s, %s, %s, (%s, %s, %s, %s), (%s, [%s], (%s, %d)))", i, ckind(c.Kind), strings.Join(ls, "; "), coqHeaders(c.Headers), coqClient(c.Client), hist,
		rid, clist(bs(o.MD)), coqCtx(o.Ctx), fwd, clist(bs(o.LogIDs)), strings.Join(reps, "; "), cz(o.RecCode), o.RecLen)
}

// randEvents: what a handler does with its writer (any interleaving of the calls).
func randEvents(rng *vh.RNG) []Ev {
	var evs []Ev
	for k := rng.Intn(6); k > 0; k-- {
		switch rng.Intn(6) {
		case 0, 1:
			evs = append(evs, Ev{K: "wh", N: vh.Pick(rng, codes)})
		case 2:
			evs = append(evs, Ev{K: vh.Pick(rng, []string{"f", "cf"})})
		default:
			evs = append(evs, Ev{K: vh.Pick(rng, []string{"w", "w", "cp", "ws"}), N: vh.Pick(rng, []int{0, 1, 2, 9, 40})})
		}
	}
	return evs
}

func permutations(xs []string) [][]string {
	if len(xs) <= 1 {
		return [][]string{append([]string{}, xs...)}
	}
	var out [][]string
	for i := range xs {
		rest := append(append([]string{}, xs[:i]...), xs[i+1:]...)
		for _, p := range permutations(rest) {
			out = append(out, append([]string{xs[i]}, p...))
		}
	}
	return out
}

func genStacks(rng *vh.RNG, tier string) []StackCase {
	var cases []StackCase
	ridSets := [][]RidOpt{{{K: "use", Flag: true}}, {{K: "use", Flag: true}, {K: "limit", Limit: 5}}, {{K: "header", Name: "Custom-Id"}}, {}, {{K: "use", Flag: false}}}
	mk := func(kind string, order []string, idx int) StackCase {
		c := StackCase{Stream: "stack", Kind: kind, Path: vh.Pick(rng, tracePaths), Seed: int64(rng.Next() >> 1),
			NewTrace: B(fmt.Sprintf("Tk%d", idx)), NewSpan: B(fmt.Sprintf("Sk%d", idx)), Next: vh.Pick(rng, kinds), Wrap: rng.Bool()}
		c.Client, c.Shape = pickClient(rng, c.Next)
		if kind == "http" {
			c.Events = randEvents(rng)
		}
		for _, k := range order {
			l := Layer{K: k}
			switch k {
			case "rid":
				l.Rid = vh.Pick(rng, ridSets)
			case "trace":
				l.Trace, _, _ = genTOpts(rng, false)
			}
			c.Layers = append(c.Layers, l)
		}
		if rng.Chance(4, 5) {
			v := []B{B(vh.Pick(rng, ridValues))}
			c.Headers = append(c.Headers, HV{"X-Request-Id", v})
			if rng.Bool() {
				c.Headers = append(c.Headers, HV{"Custom-Id", []B{B(vh.Pick(rng, ridValues))}})
			}
		}
		if rng.Chance(2, 3) {
			c.Trace = []B{B(fmt.Sprintf("tin%d", idx))}
			if rng.Chance(2, 3) {
				c.Parent = []B{B(fmt.Sprintf("pin%d", idx))}
			}
		}
		return c
	}
	idx := 0
	// covering part: every transparent layer in every position relative to request-id and trace
	for _, kind := range kinds {
		for _, t := range transparentLayers[kind] {
			for _, order := range permutations([]string{"rid", "trace", t}) {
				c := mk(kind, order, idx)
				c.Headers = []HV{{"X-Request-Id", []B{"req-from-caller"}}}
				c.Trace, c.Parent = []B{B(fmt.Sprintf("tin%d", idx))}, []B{B(fmt.Sprintf("pin%d", idx))}
				for j := range c.Layers {
					if c.Layers[j].K == "rid" {
						c.Layers[j].Rid = []RidOpt{{K: "use", Flag: true}}
					}
				}
				cases = append(cases, c)
				idx++
			}
		}
		// all transparent layers at once, request-id and trace at both ends
		all := transparentLayers[kind]
		cases = append(cases, mk(kind, append(append([]string{"rid", "trace"}, all...), []string{}...), idx), mk(kind, append(append([]string{}, all...), "trace", "rid"), idx+1))
		idx += 2
	}
	// http: Log layers around / inside Debug (whose writer wrapper is no Flusher) x histories with flushes
	for _, order := range [][]string{{"rid", "log"}, {"log", "rid", "log"}, {"rid", "log", "debug"}, {"rid", "debug", "log"}, {"log", "debug", "rid", "log"}, {"debug", "rid", "logctx", "log"}} {
		for _, evs := range [][]Ev{{{K: "f"}}, {{K: "cf"}, {K: "wh", N: 404}, {K: "w", N: 3}}, {{K: "wh", N: 201}, {K: "f"}, {K: "cp", N: 5}}, {{K: "ws", N: 2}, {K: "cf"}, {K: "wh", N: 500}}, {}} {
			c := mk("http", order, idx)
			c.Events = evs
			cases = append(cases, c)
			idx++
		}
	}
	// grpc: Log outside and inside the request-id layer, trusted and not
	for _, kind := range []string{"unary", "stream"} {
		for _, order := range [][]string{{"log", "rid", "log"}, {"logctx", "rid"}, {"rid", "trace", "logctx", "log"}} {
			for _, ro := range [][]RidOpt{{{K: "use", Flag: true}, {K: "limit", Limit: 4}}, {{K: "use", Flag: false}}, {}} {
				c := mk(kind, order, idx)
				c.Headers = []HV{{"X-Request-Id", []B{"caller-id"}}}
				for j := range c.Layers {
					if c.Layers[j].K == "rid" {
						c.Layers[j].Rid = ro
					}
				}
				cases = append(cases, c)
				idx++
			}
		}
	}
	n := 380
	if tier == "thorough" {
		n = 3000
	}
	for ; idx < n; idx++ {
		kind := vh.Pick(rng, kinds)
		var order []string
		if rng.Chance(9, 10) {
			order = append(order, "rid")
		}
		if rng.Chance(9, 10) {
			order = append(order, "trace")
		}
		for k := rng.Intn(4); k > 0; k-- {
			order = append(order, vh.Pick(rng, transparentLayers[kind]))
		}
		for i := len(order) - 1; i > 0; i-- {
			j := rng.Intn(i + 1)
			order[i], order[j] = order[j], order[i]
		}
		cases = append(cases, mk(kind, order, idx))
	}
	return cases
}

// ================================================================ log (end to end)

// LogCase: the request-id middleware in front of the Log middleware in front of a
// handler that plays a writer history. The id the Log middleware
// prints must be the id the handler sees, and (HTTP) the status / byte count it
// prints must be what was written.
type LogCase struct {
	Stream string  `json:"stream"`
	Rid    RidCase `json:"rid"`
	Events []Ev    `json:"events"`
	NoRid  bool    `json:"no_rid,omitempty"` // Log middleware alone
}

type memLogger struct{ entries [][]any }

func (m *memLogger) Log(keyvals ...any) error {
	m.entries = append(m.entries, append([]any{}, keyvals...))
	return nil
}

func kv(entry []any, key string) (any, bool) {
	for i := 0; i+1 < len(entry); i += 2 {
		if entry[i] == key {
			return entry[i+1], true
		}
	}
	return nil, false
}

func runLog(c LogCase, res *vh.Result) {
	fail := func(sig, what string) { record(res, sig, what, c) }
	defer func() {
		if r := recover(); r != nil {
			fail("log-panic", fmt.Sprint(r))
		}
	}()
	ml := &memLogger{}
	opts := c.Rid.options()
	var seenID any
	var code, blen int
	wrote := touches(c.Events)
	switch c.Rid.Kind {
	case "http":
		var h http.Handler = http.HandlerFunc(func(w http.ResponseWriter, r *http.Request) {
			seenID = r.Context().Value(middleware.RequestIDKey)
			play(w, c.Events)
		})
		h = httpmw.Log(ml)(h)
		if !c.NoRid {
			h = httpmw.RequestID(opts...)(h)
		}
		r := httptest.NewRequest("GET", "http://svc/items", nil)
		for _, hv := range c.Rid.Headers {
			r.Header[http.CanonicalHeaderKey(hv.Name)] = bs(hv.Values)
		}
		rec := httptest.NewRecorder()
		h.ServeHTTP(rec, r)
		code, blen = rec.Code, rec.Body.Len()
	default:
		m := metadata.MD{}
		for _, hv := range c.Rid.Headers {
			m[strings.ToLower(hv.Name)] = bs(hv.Values)
		}
		ctx := metadata.NewIncomingContext(context.Background(), m)
		if c.Rid.Kind == "unary" {
			inner := func(ctx context.Context, req any) (any, error) {
				return grpcmw.UnaryServerLog(ml)(ctx, req, &grpc.UnaryServerInfo{FullMethod: "/svc.Items/List"},
					func(ctx context.Context, req any) (any, error) {
						seenID = ctx.Value(middleware.RequestIDKey)
						return nil, nil
					})
			}
			if c.NoRid {
				_, _ = inner(ctx, nil)
			} else {
				_, _ = grpcmw.UnaryRequestID(opts...)(ctx, nil, &grpc.UnaryServerInfo{FullMethod: "/svc.Items/List"}, inner)
			}
		} else {
			inner := func(srv any, ss grpc.ServerStream) error {
				return grpcmw.StreamServerLog(ml)(srv, ss, &grpc.StreamServerInfo{FullMethod: "/svc.Items/Watch"},
					func(srv any, ss grpc.ServerStream) error {
						seenID = ss.Context().Value(middleware.RequestIDKey)
						return nil
					})
			}
			if c.NoRid {
				_ = inner(nil, &fakeServerStream{ctx: ctx})
			} else {
				_ = grpcmw.StreamRequestID(opts...)(nil, &fakeServerStream{ctx: ctx}, &grpc.StreamServerInfo{FullMethod: "/svc.Items/Watch"}, inner)
			}
		}
	}
	if len(ml.entries) != 2 {
		fail("log-entries", fmt.Sprintf("%d log entries for one request", len(ml.entries)))
		return
	}
	id0, _ := kv(ml.entries[0], "id")
	id1, _ := kv(ml.entries[1], "id")
	if id0 != id1 || id0 == nil || id0 == "" {
		fail("log-request-id-differs", fmt.Sprintf("request logged under id %v, response under %v", id0, id1))
	}
	if !c.NoRid && (seenID == nil || seenID != id0) {
		fail("log-request-id-differs", fmt.Sprintf("log middleware printed id %v, the handler's context carries %v", id0, seenID))
	}
	if c.Rid.Kind == "http" {
		st, _ := kv(ml.entries[1], "status")
		by, _ := kv(ml.entries[1], "bytes")
		want := code
		if !wrote {
			want = 0
		}
		if st != want || by != blen {
			fail("log-status-bytes-differ", fmt.Sprintf("log middleware printed status=%v bytes=%v, written: status %d, %d bytes", st, by, want, blen))
		}
	}
}

// ================================================================ concurrent requests

// concurrent sends requests with distinct identifiers through ONE instance of
// each middleware from several goroutines: every handler must see its own.
func concurrent(res *vh.Result, workers, per int) int {
	total := 0
	for _, k := range kinds {
		k := k
		var spanCtr int64
		var mu sync.Mutex
		spans := map[string]bool{}
		bad := ""
		note := func(s string) {
			mu.Lock()
			if bad == "" {
				bad = s
			}
			mu.Unlock()
		}
		topts := []middleware.TraceOption{middleware.SpanIDFunc(func() string { return fmt.Sprintf("cs%d", atomic.AddInt64(&spanCtr, 1)) })}
		tsrv := newServer(k, topts)
		ropts := []middleware.RequestIDOption{middleware.UseRequestIDOption(true), middleware.RequestIDLimitOption(12)}
		var rhttp http.Handler
		var runary grpc.UnaryServerInterceptor
		var rstream grpc.StreamServerInterceptor
		switch k {
		case "http":
			rhttp = httpmw.RequestID(ropts...)(http.HandlerFunc(func(w http.ResponseWriter, r *http.Request) {
				if got := strOrEmpty(r.Context().Value(middleware.RequestIDKey)); got != r.Header.Get("X-Want") {
					note(fmt.Sprintf("request id %q, own inbound id %q", got, r.Header.Get("X-Want")))
				}
			}))
		case "unary":
			runary = grpcmw.UnaryRequestID(ropts...)
		default:
			rstream = grpcmw.StreamRequestID(ropts...)
		}
		var wg sync.WaitGroup
		for g := 0; g < workers; g++ {
			g := g
			wg.Add(1)
			go func() {
				defer wg.Done()
				defer func() {
					if r := recover(); r != nil {
						note(fmt.Sprint("panic: ", r))
					}
				}()
				for i := 0; i < per; i++ {
					own := fmt.Sprintf("w%02d-r%05d-tail", g, i)
					want := own[:12]
					tr, pa := "t-"+own, "p-"+own
					tsrv.call("/api/items", false, []string{tr}, []string{pa}, Ctx3{}, func(ctx context.Context) {
						c := readCtx(ctx)
						if deref(c.Trace) != tr || deref(c.Parent) != pa || c.Span == nil {
							note(fmt.Sprintf("trace context %q/%q/%q for inbound %q/%q", deref(c.Trace), deref(c.Span), deref(c.Parent), tr, pa))
							return
						}
						mu.Lock()
						if spans[string(*c.Span)] {
							if bad == "" {
								bad = "span " + string(*c.Span) + " used by two requests"
							}
						}
						spans[string(*c.Span)] = true
						mu.Unlock()
					})
					switch k {
					case "http":
						r := httptest.NewRequest("GET", "http://svc/items", nil)
						r.Header.Set("X-Request-Id", own)
						r.Header.Set("X-Want", want)
						rhttp.ServeHTTP(httptest.NewRecorder(), r)
					default:
						ctx := metadata.NewIncomingContext(context.Background(), metadata.Pairs("x-request-id", own))
						check := func(ctx context.Context) {
							md, _ := metadata.FromIncomingContext(ctx)
							if got := strOrEmpty(ctx.Value(middleware.RequestIDKey)); got != want || len(md["x-request-id"]) != 1 || md["x-request-id"][0] != want {
								note(fmt.Sprintf("request id %q (metadata %q), own inbound id %q", got, md["x-request-id"], want))
							}
						}
						if k == "unary" {
							_, _ = runary(ctx, nil, &grpc.UnaryServerInfo{FullMethod: "/svc.Items/List"}, func(ctx context.Context, req any) (any, error) { check(ctx); return nil, nil })
						} else {
							_ = rstream(nil, &fakeServerStream{ctx: ctx}, &grpc.StreamServerInfo{FullMethod: "/svc.Items/Watch"}, func(srv any, ss grpc.ServerStream) error { check(ss.Context()); return nil })
						}
					}
				}
			}()
		}
		wg.Wait()
		total += 2 * workers * per
		if bad != "" {
			record(res, "concurrent-requests-crosstalk", "concurrent requests through one middleware instance: "+bad,
				map[string]any{"stream": "concurrent", "kind": k, "workers": workers, "requests_per_worker": per})
		}
	}
	res.Dist["concurrent_requests"] = total
	return total
}

// freshIDs sends requests WITHOUT inbound identifiers through one default
// request-id middleware (untrusted: every id is generated) and one default trace
// middleware (default id functions, 100 %) per transport, from `workers`
// goroutines released together, and collects every generated request id, trace id
// and span id: all must be non-empty, differ from the (untrusted) inbound value,
// and be pairwise distinct. The ids are 48 random bits, so one or two accidental
// collisions among a few hundred thousand would be legitimate (expected number
// about n^2 / 2^49, i.e. < 0.001 here); three or more are not.
func freshIDs(res *vh.Result, workers, per int) int {
	type bucket struct{ ids []string }
	buckets := make([]bucket, workers)
	bad := ""
	var mu sync.Mutex
	note := func(s string) {
		mu.Lock()
		if bad == "" {
			bad = s
		}
		mu.Unlock()
	}
	const inbound = "inbound-id-not-to-be-trusted"
	type inst struct {
		kind string
		rid  func(see func(context.Context))
		tr   *server
	}
	var insts []inst
	for _, k := range kinds {
		in := inst{kind: k, tr: newServer(k, nil)}
		switch k {
		case "http":
			mw := httpmw.RequestID()
			in.rid = func(see func(context.Context)) {
				r := httptest.NewRequest("GET", "http://svc/items", nil)
				r.Header.Set("X-Request-Id", inbound)
				mw(http.HandlerFunc(func(w http.ResponseWriter, r *http.Request) { see(r.Context()) })).ServeHTTP(httptest.NewRecorder(), r)
			}
		case "unary":
			ic := grpcmw.UnaryRequestID()
			in.rid = func(see func(context.Context)) {
				ctx := metadata.NewIncomingContext(context.Background(), metadata.Pairs("x-request-id", inbound))
				_, _ = ic(ctx, nil, &grpc.UnaryServerInfo{FullMethod: "/svc.Items/List"}, func(ctx context.Context, req any) (any, error) { see(ctx); return nil, nil })
			}
		default:
			ic := grpcmw.StreamRequestID()
			in.rid = func(see func(context.Context)) {
				ctx := metadata.NewIncomingContext(context.Background(), metadata.Pairs("x-request-id", inbound))
				_ = ic(nil, &fakeServerStream{ctx: ctx}, &grpc.StreamServerInfo{FullMethod: "/svc.Items/Watch"}, func(srv any, ss grpc.ServerStream) error { see(ss.Context()); return nil })
			}
		}
		insts = append(insts, in)
	}
	start := make(chan struct{})
	var wg sync.WaitGroup
	for g := 0; g < workers; g++ {
		g := g
		wg.Add(1)
		go func() {
			defer wg.Done()
			defer func() {
				if r := recover(); r != nil {
					note(fmt.Sprint("panic: ", r))
				}
			}()
			b := &buckets[g]
			<-start // barrier: everybody starts together
			for i := 0; i < per; i++ {
				for _, in := range insts {
					in.rid(func(ctx context.Context) {
						id := strOrEmpty(ctx.Value(middleware.RequestIDKey))
						if id == "" || id == inbound {
							note(fmt.Sprintf("%s: generated request id %q (untrusted inbound %q)", in.kind, id, inbound))
						}
						b.ids = append(b.ids, "rid:"+id)
					})
					in.tr.call("/api/items", false, nil, nil, Ctx3{}, func(ctx context.Context) {
						c := readCtx(ctx)
						if c.Trace == nil || *c.Trace == "" || c.Span == nil || *c.Span == "" {
							note(fmt.Sprintf("%s: default trace middleware produced trace %q span %q", in.kind, deref(c.Trace), deref(c.Span)))
							return
						}
						b.ids = append(b.ids, "trace:"+string(*c.Trace), "span:"+string(*c.Span))
					})
				}
			}
		}()
	}
	close(start)
	wg.Wait()
	seen := map[string]string{}
	dups, n := 0, 0
	example := ""
	for _, b := range buckets {
		for _, tagged := range b.ids {
			n++
			i := strings.IndexByte(tagged, ':')
			role, id := tagged[:i], tagged[i+1:]
			if prev, ok := seen[id]; ok {
				dups++
				if example == "" {
					example = fmt.Sprintf("%q was generated as a %s id and again as a %s id", id, prev, role)
				}
			} else {
				seen[id] = role
			}
		}
	}
	in := map[string]any{"stream": "fresh-ids", "workers": workers, "requests_per_worker_and_transport": per, "ids": n, "duplicates": dups}
	if bad != "" {
		record(res, "fresh-id-empty-or-inbound", "concurrent requests: "+bad, in)
	}
	if dups >= 3 {
		record(res, "fresh-ids-not-distinct", fmt.Sprintf("%d of %d identifiers generated for concurrent requests (request ids, trace ids, span ids; %d goroutines) are duplicates: %s", dups, n, workers, example), in)
	}
	res.Dist["fresh_ids_generated"] = n
	res.Dist["fresh_ids_duplicates"] = dups
	return n
}

// ================================================================ option constructors

// optionGuards builds option lists from values inside and outside the documented
// domains with the real constructors (shared ones and the transport wrappers) and
// notes whether building the list panicked.
func optionGuards(res *vh.Result, v *strings.Builder) int {
	vals := []int{-1, 0, 1, 50, 100, 101, 1 << 33}
	type mk struct {
		k string
		n int
	}
	var singles []mk
	for _, k := range []string{"percent", "maxrate", "size"} {
		for _, n := range vals {
			singles = append(singles, mk{k, n})
		}
	}
	var lists [][]mk
	for _, a := range singles {
		lists = append(lists, []mk{a})
		for _, b := range singles {
			lists = append(lists, []mk{a, b})
		}
	}
	idx := 0
	for li, l := range lists {
		opts := make([]TOpt, len(l))
		for i, x := range l {
			opts[i] = TOpt{K: x.k, N: x.n}
		}
		panicked := false
		func() {
			defer func() {
				if recover() != nil {
					panicked = true
				}
			}()
			o, _, _ := traceOptions(opts, &idGen{}, kinds[li%3], li%2 == 0)
			middleware.NewTraceOptions(o...).NewSampler()
		}()
		// the documented domains, literally
		want := false
		for _, x := range l {
			want = want || (x.k == "percent" && (x.n < 0 || x.n > 100)) || (x.k != "percent" && x.n <= 0)
		}
		if panicked != want {
			record(res, "option-domain-not-enforced", fmt.Sprintf("options %v: panicked=%v, documented domain says %v", opts, panicked, want), map[string]any{"stream": "opts", "opts": opts})
		}
		fmt.Fprintf(v, "(%d, %s, %s)\n", idx, coqTOpts(opts), vh.CoqBool(panicked))
		idx++
	}
	res.Dist["option_lists"] = idx
	return idx
}

// ================================================================ samplers

// samplerTable runs the real fixedSampler on every percentage 0..100 against
// every value 0..99 intn(100) can return (seeds found by search).
func samplerTable(res *vh.Result, v *strings.Builder, full bool) int {
	seedFor := map[int]int64{}
	for s := int64(1); len(seedFor) < 100 && s < 100000; s++ {
		d := rand.New(rand.NewSource(s)).Intn(100)
		if _, ok := seedFor[d]; !ok {
			seedFor[d] = s
		}
	}
	idx := 0
	for p := 0; p <= 100; p++ {
		sm := middleware.NewFixedSampler(p)
		for r := 0; r < 100; r++ {
			draw, _ := seedDraw(seedFor[r], 100)
			if draw != r {
				panic("seed search broken")
			}
			got := sm.Sample()
			if p == 0 && got {
				record(res, "sampling-0-traced", "fixed sampler at 0% sampled", map[string]any{"stream": "sampler", "percent": p, "draw": r})
			}
			if p == 100 && !got {
				record(res, "sampling-100-untraced", "fixed sampler at 100% did not sample", map[string]any{"stream": "sampler", "percent": p, "draw": r})
			}
			// every row is judged by the direct oracle above; the quick tier hands the rows
			// around the boundary r = p (and the extreme draws and percentages) to the model
			if full || p <= 1 || p >= 99 || p == 50 || r == 0 || r == 99 || (r >= p-1 && r <= p+1) {
				fmt.Fprintf(v, "(%d, %s, %s, %s)\n", idx, cz(p), cz(r), vh.CoqBool(got))
			}
			idx++
		}
	}
	res.Dist["sampler_table_rows"] = idx
	return idx
}

// samplingLoops: 0 % never traces and 100 % (and the default) always traces, over
// n requests per transport with whatever the random generator draws.
func samplingLoops(seed uint64, n int, res *vh.Result) int {
	rand.Seed(int64(seed)) // nolint
	total := 0
	for _, k := range kinds {
		for _, p := range []int{0, 100, -1} {
			g := &idGen{}
			opts := []middleware.TraceOption{middleware.TraceIDFunc(func() string { return "T" }), middleware.SpanIDFunc(func() string { g.ns++; return fmt.Sprintf("S%d", g.ns) })}
			if p >= 0 {
				opts = append(opts, middleware.SamplingPercent(p))
			}
			srv := newServer(k, opts)
			traced := 0
			for i := 0; i < n; i++ {
				srv.call("/api/items", false, nil, nil, Ctx3{}, func(ctx context.Context) {
					if ctx.Value(middleware.TraceIDKey) != nil {
						traced++
					}
				})
			}
			total += n
			in := map[string]any{"stream": "sampling", "kind": k, "percent": p, "requests": n, "traced": traced}
			if p == 0 && traced != 0 {
				record(res, "sampling-0-traced", fmt.Sprintf("SamplingPercent(0): %d of %d requests were traced", traced, n), in)
			}
			if p != 0 && traced != n {
				record(res, "sampling-100-untraced", fmt.Sprintf("sampling 100%% (percent option %d, -1 = default): only %d of %d requests were traced", p, traced, n), in)
			}
			res.Dist[fmt.Sprintf("sampling_loop_%s_p%d_traced", k, p)] = traced
		}
	}
	// the adaptive sampler samples everything until the sample size is reached
	for _, size := range []int{2, 10, 1000} {
		s := middleware.NewAdaptiveSampler(1, size)
		for i := 0; i < size-1; i++ {
			total++
			if !s.Sample() {
				record(res, "adaptive-warmup-not-sampled", "adaptive sampler did not sample before the sample size was reached", map[string]any{"stream": "sampling", "size": size, "call": i})
				break
			}
		}
	}
	return total
}

// ================================================================ main

func writeLines(dir, name string, lines []string) {
	if err := os.WriteFile(filepath.Join(dir, name), []byte(strings.Join(lines, "\n")+"\n"), 0o644); err != nil {
		panic(err)
	}
}

func hashKey(x any) string {
	b, _ := json.Marshal(x)
	return string(b)
}

func main() {
	seed := flag.Uint64("seed", 1, "")
	tier := flag.String("tier", "quick", "")
	out := flag.String("out", ".", "")
	replay := flag.String("replay", "", "")
	only := flag.String("only", "", "run only the named direct-oracle stream (concurrent)")
	flag.Parse()
	rng := vh.NewRNG(*seed)
	res := vh.NewResult()

	if *only == "concurrent" {
		// used with a -race build: many goroutines through one middleware instance
		r := vh.NewResult()
		r.Evaluations = concurrent(r, 16, 200) + freshIDs(r, 16, 300)
		r.Rule = "16 goroutines x 200 requests with distinct ids through one middleware instance per transport; 16 goroutines x 300 requests x 3 transports without inbound ids: every generated request/trace/span id distinct"
		if err := r.Write(filepath.Join(*out, "result_concurrent.json")); err != nil {
			panic(err)
		}
		return
	}

	// the draw mirror must describe the generator middleware.intn uses
	if d, used := seedDraw(12345, 100); true {
		got := rand.Intn(100)
		if got != d {
			fmt.Println("math/rand cannot be mirrored in this toolchain (rand.Seed ignored?)")
			os.Exit(3)
		}
		_ = used
	}

	var rids []RidCase
	var traces []TraceCase
	var chains []ChainCase
	var captures []CaptureCase
	var logs []LogCase
	var stacks []StackCase
	table, loops := true, true
	if *replay != "" {
		b, err := os.ReadFile(*replay)
		if err != nil {
			panic(err)
		}
		var rp struct {
			Input json.RawMessage `json:"input"`
		}
		var st struct {
			Stream string `json:"stream"`
		}
		if err := json.Unmarshal(b, &rp); err != nil || json.Unmarshal(rp.Input, &st) != nil {
			fmt.Println("replay file has no input")
			os.Exit(2)
		}
		table, loops = false, false
		switch st.Stream {
		case "rid":
			var c RidCase
			_ = json.Unmarshal(rp.Input, &c)
			rids = append(rids, c)
		case "trace":
			var c TraceCase
			_ = json.Unmarshal(rp.Input, &c)
			traces = append(traces, c)
		case "chain":
			var c ChainCase
			_ = json.Unmarshal(rp.Input, &c)
			chains = append(chains, c)
		case "capture":
			var c CaptureCase
			_ = json.Unmarshal(rp.Input, &c)
			captures = append(captures, c)
		case "stack":
			var c StackCase
			_ = json.Unmarshal(rp.Input, &c)
			stacks = append(stacks, c)
		case "log":
			var c LogCase
			_ = json.Unmarshal(rp.Input, &c)
			logs = append(logs, c)
		case "concurrent":
			concurrent(res, 16, 750)
		case "fresh-ids":
			freshIDs(res, 16, 800)
		case "sampler":
			table = true
		case "sampling":
			loops = true
		default:
			fmt.Println("replay file names no stream")
			os.Exit(2)
		}
	} else {
		rids = genRid(rng.Fork(), *tier)
		traces = genTrace(rng.Fork(), *tier)
		chains = genChains(rng.Fork(), *tier)
		captures = genCapture(rng.Fork(), *tier)
		stacks = genStacks(rng.Fork(), *tier)
	}

	distinct := vh.Distinct{}
	evals := 0
	cases := map[string][]any{}

	var lines []string
	for i, c := range rids {
		o := runRid(c)
		ridOracle(c, o, res)
		lines = append(lines, coqRid(i, c, o))
		cases["rid"] = append(cases["rid"], c)
		res.Count("rid_kind=" + c.Kind)
		use, hdr, _ := c.configured()
		in := c.inboundValue(hdr)
		switch {
		case c.Pre != nil:
			res.Count("rid_class=context-already-has-id")
		case use && in != "":
			res.Count("rid_class=trusted-inbound")
		case use:
			res.Count("rid_class=trusted-nothing-inbound")
		case in != "":
			res.Count("rid_class=untrusted-inbound")
		default:
			res.Count("rid_class=untrusted-nothing-inbound")
		}
		if in != "" || c.Pre != nil {
			distinct.Add(hashKey(c))
		}
		if i%997 == 3 {
			res.Sample(map[string]any{"case": c, "observed": o}, 8)
		}
	}
	evals += len(rids)
	writeLines(*out, "cases_rid.txt", lines)

	lines = nil
	for i, c := range traces {
		obs, ms := runTrace(c)
		traceOracle(c, obs, ms, res)
		lines = append(lines, coqTrace(i, c, obs, ms))
		cases["trace"] = append(cases["trace"], c)
		evals += len(c.Reqs)
		res.Count("trace_kind=" + c.Kind)
		nontrivial := false
		for j, q := range c.Reqs {
			switch {
			case first(q.Trace) != "":
				res.Count("trace_req=inbound-trace")
				nontrivial = true
			case obs[j].UsedDraw:
				res.Count("trace_req=sampler-drew")
				nontrivial = true
			case obs[j].UsedSpan:
				res.Count("trace_req=sampled-without-draw")
			default:
				res.Count("trace_req=untraced-without-draw")
			}
		}
		if nontrivial || len(c.Reqs) > 1 {
			distinct.Add(hashKey(c))
		}
		if i%499 == 40 {
			res.Sample(map[string]any{"case": c, "observed": obs}, 8)
		}
	}
	writeLines(*out, "cases_trace.txt", lines)

	lines = nil
	for i, c := range chains {
		o := runChain(c)
		chainOracle(c, o, res)
		lines = append(lines, coqChain(i, c, o))
		cases["chain"] = append(cases["chain"], c)
		res.Count(fmt.Sprintf("chain_depth=%d", len(c.Hops)))
		if len(o.Hops) > 0 && o.Hops[0].Ctx.Trace != nil {
			res.Count("chain_first_server=traced")
			if len(c.Hops) > 1 {
				distinct.Add(hashKey(c))
			}
		} else {
			res.Count("chain_first_server=untraced")
		}
		if i%211 == 17 {
			res.Sample(map[string]any{"case": c, "observed": o}, 8)
		}
	}
	evals += len(chains)
	writeLines(*out, "cases_chain.txt", lines)

	lines = nil
	for i, c := range captures {
		o := runCapture(c)
		captureOracle(c, o, res)
		lines = append(lines, coqCapture(i, c, o))
		cases["capture"] = append(cases["capture"], c)
		if c.Real {
			res.Count("capture_writer=net/http server")
		} else if c.Budget >= 0 {
			res.Count("capture_writer=recorder with short writes")
		} else {
			res.Count("capture_writer=recorder")
		}
		if disciplined(c.Events) {
			res.Count("capture_history=well-behaved")
		} else {
			res.Count("capture_history=misused writer (WriteHeader after commit / Flush first)")
		}
		if len(c.Events) >= 2 {
			distinct.Add(hashKey(c))
		}
		if i%401 == 9 {
			res.Sample(map[string]any{"case": c, "observed": o}, 8)
		}
	}
	evals += len(captures)
	writeLines(*out, "cases_capture.txt", lines)

	lines = nil
	for i, c := range stacks {
		o := runStack(c)
		stackOracle(c, o, res)
		lines = append(lines, coqStack(i, c, o))
		cases["stack"] = append(cases["stack"], c)
		res.Count(fmt.Sprintf("stack_kind=%s", c.Kind))
		for _, l := range c.Layers {
			res.Count("stack_layer=" + l.K)
		}
		if len(c.Layers) >= 3 {
			distinct.Add(hashKey(c))
		}
		if i%97 == 11 {
			res.Sample(map[string]any{"case": c, "observed": o}, 10)
		}
	}
	evals += len(stacks)
	writeLines(*out, "cases_stack.txt", lines)

	// end to end through the Log middlewares (direct oracle only)
	if *replay == "" {
		lr := rng.Fork()
		nlog := 600
		if *tier == "thorough" {
			nlog = 6000
		}
		var hist [][]Ev
		for _, c := range captures {
			if !c.Real {
				hist = append(hist, c.Events)
			}
		}
		for i := 0; i < nlog; i++ {
			lc := LogCase{Stream: "log", Rid: rids[lr.Intn(len(rids))], Events: hist[lr.Intn(len(hist))], NoRid: lr.Chance(1, 8)}
			lc.Rid.Pre = nil
			runLog(lc, res)
			res.Count("log_kind=" + lc.Rid.Kind)
		}
		evals += nlog
		evals += concurrent(res, 16, 750)
		evals += freshIDs(res, 16, 800)
	}
	for _, lc := range logs {
		runLog(lc, res)
		evals++
	}

	var sv strings.Builder
	if table {
		n := samplerTable(res, &sv, *tier == "thorough")
		evals += n
		distinct.Add("sampler-table") // counted once: one exhaustive table
	}
	if err := os.WriteFile(filepath.Join(*out, "cases_sampler.txt"), []byte(sv.String()), 0o644); err != nil {
		panic(err)
	}
	var ov strings.Builder
	if table {
		evals += optionGuards(res, &ov)
	}
	if err := os.WriteFile(filepath.Join(*out, "cases_opts.txt"), []byte(ov.String()), 0o644); err != nil {
		panic(err)
	}
	if loops {
		n := 2000
		if *tier == "thorough" {
			n = 20000
		}
		evals += samplingLoops(*seed, n, res)
	}

	res.Evaluations = evals
	res.Distinct = len(distinct)
	res.Rule = "request id: kinds {http, grpc unary, grpc stream} x option lists (use on/off, header names incl. case variants and the empty name, limits 0, negative, 1, len-1, len, len+1, huge; later options override earlier ones) x inbound values (absent, empty, short, long, multi-byte, invalid UTF-8, several values, first value empty) x optional id already in the context, every case run twice; trace: sequences of 1-5 requests through one middleware instance (sampling 0..100, default, adaptive below its sample size, 0-4 discard patterns with inline flags, anchors and top-level alternations, paths in case variants, inbound trace / parent headers absent, empty, single, multiple, stale context values, nil URL), math/rand reseeded per request so the draw is known; chains: depth 1-4 (thorough 1-8) of servers of random transports calling the next through a client stack (WrapDoer / UnaryClientTrace / StreamClientTrace composed in every order with goahttp.NewDebugDoer, goagrpc.NewInvoker and a user interceptor; HTTP requests GET/POST/PUT/PATCH/DELETE with bytes, string, NoBody, plain-reader and empty bodies); stacks: the middleware chain composed as servers compose it (http nesting; grpc ChainUnaryInterceptor/ChainStreamInterceptor order) with request-id, trace and every transparent layer (Log, LogContext, Debug, PopulateRequestContext, RequestContextKeyVals, SmartRedirectSlashes, StreamCanceler) in every position, the handler reading its context, playing a writer history (http) and calling downstream through a client stack; the id, status and bytes every Log layer printed are observed; option constructors: 462 option lists with values inside and outside the documented domains (exhaustive over 7 values x 3 options, singles and pairs); capture: writer histories over WriteHeader/Write/Flush/io.Copy/io.WriteString/ResponseController.Flush in any order (repeated and late WriteHeader calls, Flush first) against httptest.ResponseRecorder (with short writes) and a real net/http server; fixed sampler: every percentage 0..100 x every draw 0..99 run on the real sampler (exhaustive; the quick tier compares the rows around r = p, the extreme draws and percentages 0, 1, 50, 99, 100 with the model, the thorough tier all of them); sampling loops: 0 %, 100 % and default over n requests per transport; log: request-id middleware -> Log middleware -> handler playing a writer history (direct oracle only); concurrent: 16 goroutines x 750 requests with distinct ids through one middleware instance per transport, and 16 goroutines released by a barrier x 800 requests x 3 transports without inbound ids whose generated request, trace and span ids (115 200) must be non-empty, differ from the inbound value and be pairwise distinct (direct oracle only). Non-trivial = request-id case with a non-empty inbound value or context id; trace sequence with an inbound trace id, a sampler draw or more than one request; chain of depth >= 2 whose first server is traced; history with at least two events; stack of at least three layers; distinct = distinct inputs among those"
	res.Extra["streams"] = map[string]int{"rid": len(rids), "trace": len(traces), "chain": len(chains), "capture": len(captures), "stack": len(stacks)}
	b, _ := json.Marshal(cases)
	if err := os.WriteFile(filepath.Join(*out, "cases.json"), b, 0o644); err != nil {
		panic(err)
	}
	if err := res.Write(filepath.Join(*out, "result.json")); err != nil {
		panic(err)
	}
}
