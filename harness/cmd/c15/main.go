// Command c15 drives the real content negotiation of goa (http/encoding.go:
// ResponseEncoder, SetContentType, ResponseDecoder, RequestEncoder, RequestDecoder, the
// text and unsupported codecs; http/error.go StatusCode; pkg/error.go
// UnsupportedMediaTypeError) over generated Accept values x designed content types x
// pre-set Content-Type headers x values. It writes what it observed, together with the
// answers of the real mime.ParseMediaType on every string those functions consult, as Coq
// terms (shard_NNN.hdr/.txt: self-contained inputs for the Encoding model, cases.jsonl: the
// same cases readable) and evaluates the property's own laws directly on the Go results (result.json).
package main

import (
	"bytes"
	"context"
	"encoding/gob"
	"encoding/hex"
	"encoding/json"
	"encoding/xml"
	"errors"
	"flag"
	"fmt"
	"io"
	"mime"
	"net/http"
	"net/http/httptest"
	"os"
	"path/filepath"
	"reflect"
	"sort"
	"strings"
	"sync"
	"unicode/utf8"

	goahttp "goa.design/goa/v3/http"
	goa "goa.design/goa/v3/pkg"

	"verifharness/vh"
)

// BStr is a byte string that survives JSON (replay files) even when it is not UTF-8.
type BStr string

func (b BStr) MarshalJSON() ([]byte, error) {
	s := string(b)
	ok := utf8.ValidString(s)
	for i := 0; ok && i < len(s); i++ {
		if s[i] < 0x20 || s[i] == 0x7f {
			ok = false
		}
	}
	if ok {
		return json.Marshal(s)
	}
	return json.Marshal(map[string]string{"hex": hex.EncodeToString([]byte(s))})
}

func (b *BStr) UnmarshalJSON(d []byte) error {
	var s string
	if err := json.Unmarshal(d, &s); err == nil {
		*b = BStr(s)
		return nil
	}
	var m map[string]string
	if err := json.Unmarshal(d, &m); err != nil {
		return err
	}
	raw, err := hex.DecodeString(m["hex"])
	*b = BStr(raw)
	return err
}

// ---------------------------------------------------------------- values

// T is the struct value sent through the encoders.
type T struct {
	A string
	B int
}

type valueDesc struct {
	Kind string // struct | string | strptr | bytes
	Name string
	v    any
}

func sp(s string) *string { return &s }

var values = []valueDesc{
	{"struct", `T{"alpha",7}`, T{"alpha", 7}},
	{"struct", `T{"",0}`, T{"", 0}},
	{"struct", `T{"x<y&z \"q\"",-3}`, T{`x<y&z "q"`, -3}},
	{"string", `"hello"`, "hello"},
	{"string", `""`, ""},
	{"string", `"x<y&z"`, "x<y&z"},
	{"string", `"{\"k\":1}"`, `{"k":1}`},
	{"string", `"<a>b</a>"`, "<a>b</a>"},
	{"strptr", `&"ptr value"`, sp("ptr value")},
	{"bytes", `[]byte("raw bytes")`, []byte("raw bytes")},
	{"bytes", `[]byte{}`, []byte{}},
	{"bytes", `[]byte{0,1,2,255}`, []byte{0, 1, 2, 255}},
}

// what the stdlib codecs themselves do with each value, independent of goa
type codecFacts struct {
	refuses map[string]bool   // kind -> the codec returns an error for this value
	body    map[string][]byte // kind -> bytes the codec writes
}

var facts []codecFacts

func stdEncode(kind string, v any) ([]byte, error) {
	var buf bytes.Buffer
	switch kind {
	case "json":
		err := json.NewEncoder(&buf).Encode(v)
		return buf.Bytes(), err
	case "xml":
		err := xml.NewEncoder(&buf).Encode(v)
		return buf.Bytes(), err
	case "gob":
		err := gob.NewEncoder(&buf).Encode(v)
		return buf.Bytes(), err
	case "text":
		switch c := v.(type) {
		case string:
			return []byte(c), nil
		case *string:
			return []byte(*c), nil
		case []byte:
			return c, nil
		}
		return nil, errors.New("not text")
	}
	return nil, errors.New("no such codec")
}

func initFacts() {
	for _, vd := range values {
		f := codecFacts{map[string]bool{}, map[string][]byte{}}
		for _, k := range []string{"json", "xml", "gob", "text"} {
			b, err := stdEncode(k, vd.v)
			f.refuses[k] = err != nil
			if err == nil {
				f.body[k] = append([]byte{}, b...)
			}
		}
		facts = append(facts, f)
	}
}

func freshOut(kind string) any {
	switch kind {
	case "struct":
		return new(T)
	case "bytes":
		return new([]byte)
	}
	return new(string)
}

func sameValue(out any, v any) bool {
	switch o := out.(type) {
	case *T:
		return *o == v.(T)
	case *string:
		if p, ok := v.(*string); ok {
			return *o == *p
		}
		return *o == v.(string)
	case *[]byte:
		return bytes.Equal(*o, v.([]byte))
	}
	return false
}

// ---------------------------------------------------------------- specification side
// (written from the documentation of the four functions, not from their bodies)

var five = []string{"application/json", "application/xml", "application/gob", "text/html", "text/plain"}

func isFive(s string) bool {
	for _, f := range five {
		if s == f {
			return true
		}
	}
	return false
}

func specNorm(s string) string {
	if m, _, err := mime.ParseMediaType(s); err == nil {
		return m
	}
	return s
}

// the format a media type announces (RFC 6839 suffixes as the goa documentation lists them)
func specKind(mt string) string {
	switch {
	case mt == "application/json" || strings.HasSuffix(mt, "+json"):
		return "json"
	case mt == "application/xml" || strings.HasSuffix(mt, "+xml"):
		return "xml"
	case mt == "application/gob" || strings.HasSuffix(mt, "+gob"):
		return "gob"
	case mt == "text/html" || mt == "text/plain" || strings.HasSuffix(mt, "+html") || strings.HasSuffix(mt, "+txt"):
		return "text"
	}
	return "json"
}

func specAnnounced(hdr string) string {
	if hdr == "" {
		return "json"
	}
	return specKind(specNorm(hdr))
}

// the client's preference: one of the five types, given exactly or after normalisation
func specPreference(accept string) string {
	if isFive(accept) {
		return accept
	}
	if accept == "" {
		return ""
	}
	if m, _, err := mime.ParseMediaType(accept); err == nil && isFive(m) {
		return m
	}
	return ""
}

// specSuffixed: the pre-set value h made to announce sfx (media type part ends with sfx: an
// agreeing suffix kept, another one replaced, parameters kept) - Model.set_content_type
func specSuffixed(h, sfx string) string {
	mt, params := h, ""
	if i := strings.Index(h, ";"); i >= 0 {
		mt, params = strings.TrimRight(h[:i], " \t"), h[i:]
	}
	if strings.HasSuffix(mt, sfx) {
		return h
	}
	if i := strings.LastIndex(mt, "+"); i >= 0 {
		mt = mt[:i]
	}
	return mt + sfx + params
}

// fieldSafe: visible ASCII, SP and TAB only (Model.field_safe)
func fieldSafe(s string) bool {
	for i := 0; i < len(s); i++ {
		if !((s[i] >= 32 && s[i] < 127) || s[i] == 9) {
			return false
		}
	}
	return true
}

func parsable(s string) bool {
	_, _, err := mime.ParseMediaType(s)
	return err == nil
}

// ---------------------------------------------------------------- cases

type RespCase struct {
	Stream string `json:"stream"` // main | witness | hostile
	Accept BStr   `json:"accept"`
	CT     BStr   `json:"designed_content_type"`
	Preset BStr   `json:"preset_header"`
	Value  int    `json:"value"`
	VName  string `json:"value_go,omitempty"`
	// Err, when set, makes this an error-path case: goahttp.ErrorEncoder(ResponseEncoder, nil)(ctx, w, err)
	Err *ErrDesc `json:"error,omitempty"`
	// Mux makes this a case of the goa muxer's own NotFound response: GET of a path that is
	// not mounted, Accept header = Accept (no designed type, nothing pre-set)
	Mux bool `json:"mux_not_found,omitempty"`
}

// ErrDesc describes the Go error handed to goahttp.ErrorEncoder.
type ErrDesc struct {
	Kind      string `json:"kind"` // service | wrapped | plain | unsupported
	Name      string `json:"name,omitempty"`
	Msg       string `json:"msg,omitempty"`
	Timeout   bool   `json:"timeout,omitempty"`
	Temporary bool   `json:"temporary,omitempty"`
	Fault     bool   `json:"fault,omitempty"`
}

type RespObs struct {
	Via        string `json:"observed_via"` // recorder (frozen snapshot rec.Result()) | server (real net/http round trip)
	Status     int    `json:"status"`
	LiveHeader BStr   `json:"live_header_after_the_call,omitempty"` // w.Header() — NOT what the client reads
	Enc       string `json:"encoder"` // json|xml|gob|text|nil|other:<T>
	Header    BStr   `json:"content_type_on_the_wire"`
	Dec       string `json:"decoder"`
	EncErr    string `json:"encode_error,omitempty"`
	Body      BStr   `json:"body"`
	DecErr    string `json:"decode_error,omitempty"`
	Recovered bool   `json:"recovered"`
	Panic     string `json:"panic,omitempty"`
}

type ReqCase struct {
	Stream string `json:"stream"` // request
	Header BStr   `json:"content_type"`
	Value  int    `json:"value"`
	VName  string `json:"value_go,omitempty"`
}

type ReqObs struct {
	Dec     string `json:"decoder"`
	ErrName string `json:"error_name,omitempty"`
	ErrMsg  BStr   `json:"error_message,omitempty"`
	Status  int    `json:"status,omitempty"`
	Decoded bool   `json:"decoded"`
	Same    bool   `json:"recovered"`
	Body    BStr   `json:"body"`
}

func kindOfType(x any) string {
	if x == nil {
		return "nil"
	}
	switch t := fmt.Sprintf("%T", x); t {
	case "*json.Encoder", "*json.Decoder":
		return "json"
	case "*xml.Encoder", "*xml.Decoder":
		return "xml"
	case "*gob.Encoder", "*gob.Decoder":
		return "gob"
	case "*http.textEncoder", "*http.textDecoder":
		return "text"
	case "*http.unsupportedDecoder":
		return "unsupported"
	default:
		return "other:" + t
	}
}

// payload is what a response case sends: the Go value, its kind, what the stdlib codecs do
// with it, the status the documentation promises, and how to compare the decoded value.
type payload struct {
	v      any
	kind   string // struct | string | strptr | bytes
	facts  codecFacts
	status int
	fresh  func() any
	same   func(out any) bool
	goErr  error
}

func factsOf(v any) codecFacts {
	f := codecFacts{map[string]bool{}, map[string][]byte{}}
	for _, k := range []string{"json", "xml", "gob", "text"} {
		b, err := stdEncode(k, v)
		f.refuses[k] = err != nil
		if err == nil {
			f.body[k] = append([]byte{}, b...)
		}
	}
	return f
}

// documented status table of ErrorResponse.StatusCode
func specStatus(name string, timeout, temporary, fault bool) int {
	switch {
	case name == "unsupported_media_type":
		return 415
	case fault:
		return 500
	case timeout && temporary:
		return 504
	case timeout:
		return 408
	case temporary:
		return 503
	}
	return 400
}

func payloadOf(c RespCase) payload {
	if c.Err == nil && !c.Mux {
		vd := values[c.Value]
		return payload{v: vd.v, kind: vd.Kind, facts: facts[c.Value], status: 200,
			fresh: func() any { return freshOut(vd.Kind) }, same: func(out any) bool { return sameValue(out, vd.v) }}
	}
	if c.Mux {
		want := goahttp.ErrorResponse{Name: "fault", Message: "404 page not found", Fault: true}
		return payload{v: &want, kind: "struct", status: 404, facts: codecFacts{map[string]bool{"text": true}, nil},
			fresh: func() any { return &goahttp.ErrorResponse{} },
			same: func(out any) bool { got := *out.(*goahttp.ErrorResponse); got.ID = ""; return got == want }}
	}
	e := c.Err
	var goErr error
	want := goahttp.ErrorResponse{Name: e.Name, ID: "fixed-id", Message: e.Msg, Timeout: e.Timeout, Temporary: e.Temporary, Fault: e.Fault}
	ignoreID := false
	switch e.Kind {
	case "plain":
		goErr = errors.New(e.Msg)
		want = goahttp.ErrorResponse{Name: "fault", Message: e.Msg, Fault: true}
		ignoreID = true
	case "unsupported":
		goErr = goa.UnsupportedMediaTypeError(e.Msg)
		var se *goa.ServiceError
		errors.As(goErr, &se)
		want = goahttp.ErrorResponse{Name: "unsupported_media_type", ID: se.ID, Message: "unsupported media type " + e.Msg}
	default:
		se := &goa.ServiceError{Name: e.Name, ID: "fixed-id", Message: e.Msg, Timeout: e.Timeout, Temporary: e.Temporary, Fault: e.Fault}
		goErr = se
		if e.Kind == "wrapped" {
			goErr = fmt.Errorf("ctx: %w", se)
		}
	}
	pl := payload{v: &want, kind: "struct", status: specStatus(want.Name, want.Timeout, want.Temporary, want.Fault), goErr: goErr,
		fresh: func() any { return &goahttp.ErrorResponse{} }}
	pl.same = func(out any) bool {
		got := *out.(*goahttp.ErrorResponse)
		if ignoreID {
			got.ID = ""
		}
		return got == want
	}
	if !ignoreID {
		pl.facts = factsOf(&want)
	} else {
		pl.facts = codecFacts{map[string]bool{"text": true}, nil} // body not predictable (random ID); round trip still checked
	}
	return pl
}

// serve runs the goa response sequence on any http.ResponseWriter: the pre-set header, then
// either what a generated response encoder does (enc := ResponseEncoder(ctx, w);
// w.WriteHeader(200); enc.Encode(v)) or goahttp.ErrorEncoder(ResponseEncoder, nil)(ctx, w, err).
func serve(c RespCase, pl payload, w http.ResponseWriter, o *RespObs) {
	defer func() {
		if r := recover(); r != nil {
			o.Panic = fmt.Sprint(r)
		}
	}()
	ctx := context.Background()
	if c.Accept != "" {
		ctx = context.WithValue(ctx, goahttp.AcceptTypeKey, string(c.Accept))
	}
	if c.CT != "" {
		ctx = context.WithValue(ctx, goahttp.ContentTypeKey, string(c.CT))
	}
	if c.Preset != "" {
		w.Header().Set("Content-Type", string(c.Preset))
	}
	note := func(enc goahttp.Encoder) {
		// a nil *T inside the interface is a nil encoder too
		if enc == nil || (reflect.ValueOf(enc).Kind() == reflect.Ptr && reflect.ValueOf(enc).IsNil()) {
			o.Enc = "nil"
		} else {
			o.Enc = kindOfType(enc)
		}
	}
	if pl.goErr != nil {
		encoder := func(ctx context.Context, w http.ResponseWriter) goahttp.Encoder {
			enc := goahttp.ResponseEncoder(ctx, w)
			note(enc)
			return enc
		}
		if err := goahttp.ErrorEncoder(encoder, nil)(ctx, w, pl.goErr); err != nil {
			o.EncErr = err.Error()
		}
	} else {
		enc := goahttp.ResponseEncoder(ctx, w)
		note(enc)
		w.WriteHeader(http.StatusOK)
		if o.Enc != "nil" {
			if err := enc.Encode(pl.v); err != nil {
				o.EncErr = err.Error()
			}
		}
	}
	o.LiveHeader = BStr(w.Header().Get("Content-Type"))
}

// finish reads what the client got (status, Content-Type, body), lets goahttp.ResponseDecoder
// pick the decoder from that and tries to recover the value.
func finish(pl payload, resp *http.Response, o *RespObs) {
	body, _ := io.ReadAll(resp.Body)
	resp.Body.Close()
	o.Status = resp.StatusCode
	o.Header = BStr(resp.Header.Get("Content-Type"))
	o.Body = BStr(body)
	resp.Body = io.NopCloser(bytes.NewReader(body))
	dec := goahttp.ResponseDecoder(resp)
	o.Dec = kindOfType(dec)
	if o.Enc != "nil" && o.EncErr == "" && o.Panic == "" {
		out := pl.fresh()
		if err := dec.Decode(out); err != nil {
			o.DecErr = err.Error()
		} else {
			o.Recovered = pl.same(out)
		}
	}
}

// runResp observes a case through an httptest.ResponseRecorder; everything is read from
// rec.Result(), the snapshot frozen at the first WriteHeader/Write — never from the live
// rec.Header().
func runResp(c RespCase, pl payload) (o RespObs) {
	o.Via = "recorder"
	rec := httptest.NewRecorder()
	if c.Mux {
		func() {
			defer func() {
				if r := recover(); r != nil {
					o.Panic = fmt.Sprint(r)
				}
			}()
			o.Enc = "unobserved" // chosen inside the muxer
			req := httptest.NewRequest("GET", "/not/mounted", nil)
			if c.Accept != "" {
				req.Header["Accept"] = []string{string(c.Accept)}
			}
			newGoaMux(nil).ServeHTTP(rec, req)
		}()
	} else {
		serve(c, pl, rec, &o)
	}
	finish(pl, rec.Result(), &o)
	return o
}

// newGoaMux returns the real goa muxer with one mounted route (the muxer installs its
// NotFound handler when the first route is registered).
func newGoaMux(mounted http.HandlerFunc) goahttp.Muxer {
	m := goahttp.NewMuxer()
	if mounted == nil {
		mounted = func(w http.ResponseWriter, r *http.Request) { w.WriteHeader(204) }
	}
	m.Handle("GET", "/case", mounted)
	return m
}

// wireServer runs cases through a real net/http server and client.
type wireServer struct {
	srv   *httptest.Server
	mu    sync.Mutex
	cases map[string]*wireJob
	n     int
}

type wireJob struct {
	c  RespCase
	pl payload
	o  *RespObs
}

func newWireServer() *wireServer {
	ws := &wireServer{cases: map[string]*wireJob{}}
	ws.srv = httptest.NewServer(newGoaMux(func(w http.ResponseWriter, r *http.Request) {
		ws.mu.Lock()
		j := ws.cases[r.Header.Get("X-Case")]
		ws.mu.Unlock()
		if j == nil {
			http.Error(w, "no such case", 599)
			return
		}
		serve(j.c, j.pl, w, j.o)
	}))
	return ws
}

func (ws *wireServer) run(c RespCase, pl payload) (o RespObs, err error) {
	o.Via = "server"
	ws.mu.Lock()
	ws.n++
	id := fmt.Sprint(ws.n)
	ws.cases[id] = &wireJob{c, pl, &o}
	ws.mu.Unlock()
	defer func() { ws.mu.Lock(); delete(ws.cases, id); ws.mu.Unlock() }()
	req, _ := http.NewRequest("GET", ws.srv.URL+"/case", nil)
	req.Header.Set("X-Case", id)
	if c.Mux {
		o.Enc = "unobserved"
		req, _ = http.NewRequest("GET", ws.srv.URL+"/not/mounted", nil)
		if c.Accept != "" {
			req.Header.Set("Accept", string(c.Accept))
		}
	}
	resp, err := ws.srv.Client().Do(req)
	if err != nil {
		return o, err
	}
	finish(pl, resp, &o)
	return o, nil
}

// wireSafe: a header value net/http carries unchanged (visible ASCII, no blanks at the ends)
func wireSafe(s string) bool {
	return fieldSafe(s) && strings.TrimSpace(s) == s && !strings.Contains(s, "\t")
}

// classify names the failure class of a response case from its own input and observation
// (a recorded finding would get its own signature here).
func classify(c RespCase, o RespObs, law string) string {
	// no finding is recorded for C15 any more: every failure keeps the name of its law
	return law
}

// oracleResp evaluates the property's laws on one response case inside the envelope
// (designed content type absent or parsable). It returns the first law that fails.
func oracleResp(c RespCase, pl payload, o RespObs) (law, what string) {
	accept, ct, preset := string(c.Accept), string(c.CT), string(c.Preset)
	vd, f := struct{ Kind string }{pl.kind}, pl.facts
	if o.Panic != "" {
		return "panic", "ResponseEncoder/Encode/Decode panicked: " + o.Panic
	}
	if o.Enc == "nil" {
		return "nil-encoder-for-parsable-type", "ResponseEncoder returned a nil Encoder although the designed content type parses"
	}
	// which format the preferences ask for
	var want, wantType, why string
	if ct != "" {
		wantType = specNorm(ct)
		want, why = specKind(wantType), "designed content type "+wantType
	} else if p := specPreference(accept); p != "" {
		wantType = p
		want, why = specKind(p), "Accept preference "+p
	} else {
		wantType = "application/json"
		want, why = "json", "missing or unrecognised preference"
	}
	seen := o.Enc != "unobserved"
	if !seen {
		// the encoder object cannot be seen (it lives inside the muxer): everything below is
		// judged from what is on the wire
		o.Enc = want
		if len(o.Body) == 0 {
			o.EncErr = "(nothing was written)"
		}
	}
	if o.Enc != want {
		if ct == "" && specPreference(accept) == "" {
			return "unknown-preference-not-json", fmt.Sprintf("missing/unrecognised preference must fall back to JSON, encoder is %s", o.Enc)
		}
		return "wrong-encoder-for-type", fmt.Sprintf("%s asks for %s, encoder is %s", why, want, o.Enc)
	}
	if o.Status != pl.status {
		return "status-wrong", fmt.Sprintf("status on the wire is %d, expected %d", o.Status, pl.status)
	}
	hdr := string(o.Header)
	if preset == "" && hdr != wantType {
		return "fresh-header-wrong", fmt.Sprintf("no header pre-set: the Content-Type the client reads must be %q, is %q (w.Header() after the call: %q)", wantType, hdr, string(o.LiveHeader))
	}
	if preset != "" && (wantType == "application/json" || wantType == "application/xml") {
		// the pre-set media type and its parameters must both survive
		mtPart, params := preset, ""
		if i := strings.Index(preset, ";"); i >= 0 {
			mtPart, params = strings.TrimRight(preset[:i], " \t"), preset[i:]
		}
		if i := strings.LastIndex(mtPart, "+"); i >= 0 {
			mtPart = mtPart[:i] // a structured-syntax suffix may be replaced by the one of the encoding in use
		}
		if !strings.HasPrefix(hdr, mtPart) || !strings.HasSuffix(hdr, params) {
			return "preset-header-dropped", fmt.Sprintf("pre-set Content-Type %q must be kept (suffixed), header is %q", preset, hdr)
		}
	}
	ann := specAnnounced(hdr)
	if ann != o.Enc {
		return "announced-format-differs", fmt.Sprintf("Content-Type %q announces %s, the encoder is %s", hdr, ann, o.Enc)
	}
	if o.Dec != ann {
		return "decoder-ignores-announcement", fmt.Sprintf("Content-Type %q announces %s, goahttp.ResponseDecoder picked %s", hdr, ann, o.Dec)
	}
	if o.Enc == "text" && vd.Kind == "struct" {
		if o.EncErr == "" || len(o.Body) != 0 {
			if !seen {
				return "text-encoded-struct", fmt.Sprintf("Content-Type announces text, which cannot carry the struct: nothing may be written (no other format substituted); body=%q", string(o.Body))
			}
			return "text-encoded-struct", fmt.Sprintf("text encoder must refuse a struct with an error and write nothing; error=%q body=%q", o.EncErr, string(o.Body))
		}
		return "", ""
	}
	if f.refuses[o.Enc] {
		return "", "" // the stdlib codec itself refuses this value (xml of []byte)
	}
	if o.EncErr != "" {
		return "encode-error", "Encode failed on a value the codec accepts: " + o.EncErr
	}
	if f.body != nil && !bytes.Equal([]byte(o.Body), f.body[ann]) {
		return "body-not-in-announced-format", fmt.Sprintf("Content-Type announces %s, body %q is not the %s encoding of the value", ann, string(o.Body), ann)
	}
	if !o.Recovered {
		return "roundtrip-failed", fmt.Sprintf("goahttp.ResponseDecoder (%s) did not recover the value: %s", o.Dec, o.DecErr)
	}
	return "", ""
}

func runReq(c ReqCase) (o ReqObs) {
	vd, f := values[c.Value], facts[c.Value]
	h := string(c.Header)
	// body: the value in the format the header announces when that is one of the five
	// supported types, its JSON encoding otherwise (the most tempting misreading)
	bodyKind := "json"
	if h != "" {
		if n := specNorm(h); isFive(n) {
			bodyKind = specKind(n)
		}
	}
	body := f.body[bodyKind]
	if f.refuses[bodyKind] {
		body = f.body["json"]
	}
	o.Body = BStr(body)
	req := httptest.NewRequest("POST", "/", bytes.NewReader(body))
	req.Header.Del("Content-Type")
	if h != "" {
		req.Header.Set("Content-Type", h)
	}
	dec := goahttp.RequestDecoder(req)
	o.Dec = kindOfType(dec)
	out := freshOut(vd.Kind)
	err := dec.Decode(out)
	if err != nil {
		var se *goa.ServiceError
		if errors.As(err, &se) {
			o.ErrName = se.Name
		} else {
			o.ErrName = "(not a ServiceError)"
		}
		o.ErrMsg = BStr(err.Error())
		o.Status = goahttp.NewErrorResponse(context.Background(), err).StatusCode()
	} else {
		o.Decoded = true
		o.Same = sameValue(out, vd.v)
	}
	return o
}

func oracleReq(c ReqCase, o ReqObs) (law, what string) {
	h := string(c.Header)
	vd, f := values[c.Value], facts[c.Value]
	supportedType := "application/json"
	if h != "" {
		supportedType = specNorm(h)
	}
	if !isFive(supportedType) {
		if o.Decoded {
			return "unsupported-type-decoded", fmt.Sprintf("request Content-Type %q (media type %q) is not supported, yet the body was decoded by the %s decoder", h, supportedType, o.Dec)
		}
		if o.ErrName != goa.UnsupportedMediaType || o.Status != 415 {
			return "unsupported-type-not-415", fmt.Sprintf("request Content-Type %q is not supported: error %q status %d, expected unsupported_media_type / 415", h, o.ErrName, o.Status)
		}
		return "", ""
	}
	k := specKind(supportedType)
	if o.Dec != k {
		return "wrong-request-decoder", fmt.Sprintf("request Content-Type %q announces %s, RequestDecoder picked %s", h, k, o.Dec)
	}
	if k == "text" && vd.Kind == "struct" {
		if o.Decoded {
			return "text-decoded-struct", "text decoder filled a struct"
		}
		return "", ""
	}
	if f.refuses[k] {
		return "", ""
	}
	if !o.Decoded || !o.Same {
		return "request-roundtrip-failed", fmt.Sprintf("body in the announced format %s was not decoded back to the value: %s", k, string(o.ErrMsg))
	}
	return "", ""
}

// ---------------------------------------------------------------- generators

var mtTypes = []string{"application", "application", "application", "text", "text", "image", "*", "Application", "x", "TEXT"}
var mtSubs = []string{"json", "xml", "gob", "html", "plain", "*", "octet-stream", "vnd.api", "vnd.goa.error", "hal", "x-yaml", "JSON", "problem", "jsonx", "xhtml", "vnd.x", "ld"}
var mtSuffix = []string{"", "", "", "+json", "+xml", "+gob", "+html", "+txt", "+yaml", "+JSON", "+xml+json"}
var mtParams = []string{"", "", "", ";q=0.9", "; q=0.5", "; charset=utf-8", ";charset=UTF-8;q=0.1", "; view=default", ";", "; =x", "; a=b; a=c", `; v="1"`, `; v="1`, "; q", "; charset=utf-8+xml"}

func genMediaRange(r *vh.RNG) string {
	s := vh.Pick(r, mtTypes) + "/" + vh.Pick(r, mtSubs) + vh.Pick(r, mtSuffix) + vh.Pick(r, mtParams)
	if r.Chance(1, 12) {
		s = " " + s
	}
	if r.Chance(1, 12) {
		s += " "
	}
	return s
}

var hostileAlphabet = []string{"a", "b", "/", "/", "+", ";", ",", " ", "=", "\"", "*", "json", "xml", "application", "text", "\x00", "\xff", "\xc3\x28", "é", "\t", "\r\n", "%", "q=0.1", "(", ")"}

func genGarbage(r *vh.RNG) string {
	n := r.Intn(9)
	var b strings.Builder
	for i := 0; i < n; i++ {
		b.WriteString(vh.Pick(r, hostileAlphabet))
	}
	return b.String()
}

var acceptCorpus = []string{
	"application/json", "application/xml", "application/gob", "text/html", "text/plain",
	"*/*", "application/*", "text/*", "*/*;q=0.8", "*",
	"text/html,application/xhtml+xml,application/xml;q=0.9,*/*;q=0.8",
	"application/xml, application/json", "application/json, application/xml", "application/xml;q=0.9, application/json;q=0.8",
	"application/vnd.api+json", "application/hal+xml", "application/x+gob", "application/problem+json; charset=utf-8", "image/svg+xml",
	"image/png", "application/octet-stream", "application/x-www-form-urlencoded", "text/css", "application/jsonx", "xapplication/json", "application/json/extra",
	"APPLICATION/XML", "Text/Plain", " application/gob", "application/xml ", "application/xml;", "application/xml;;", "application/xml; charset", "application/xml; charset=",
	`application/xml; charset="utf-8`, "application/xml; x=1; x=2", "application/gob;q=0", "text/html; charset=utf-8", ";", "/", "a/", "/b", "a/b/c", ",", " ",
}

func genAccept(r *vh.RNG) (string, string) {
	switch k := r.Intn(100); {
	case k < 10:
		return "", "absent"
	case k < 28:
		return vh.Pick(r, five), "exact"
	case k < 40:
		return vh.Pick(r, acceptCorpus), "corpus"
	case k < 52:
		return vh.Pick(r, five) + vh.Pick(r, mtParams), "exact+params"
	case k < 72:
		return genMediaRange(r), "media-range"
	case k < 84:
		n := 2 + r.Intn(3)
		parts := make([]string, n)
		for i := range parts {
			if r.Bool() {
				parts[i] = vh.Pick(r, five)
			} else {
				parts[i] = genMediaRange(r)
			}
		}
		return strings.Join(parts, vh.Pick(r, []string{",", ", "})), "list"
	case k < 98:
		return genGarbage(r), "garbage"
	default:
		return vh.Pick(r, longValues), "long"
	}
}

// a few fixed very long values (kept few: every model shard carries the string table)
var longValues = []string{
	"application/" + strings.Repeat("a", 3000),
	strings.Repeat("application/json, ", 250),
	"application/xml;" + strings.Repeat(" ", 2500) + "q=1",
	strings.Repeat("\xff", 4000),
	"text/plain; x=" + strings.Repeat("y", 10000),
}

var ctCorpus = []string{
	"application/json", "application/xml", "application/gob", "text/html", "text/plain",
	"application/json; charset=utf-8", "text/plain; charset=utf-8", "Application/JSON", "APPLICATION/XML",
	"application/vnd.goa.error+json", "application/vnd.x+xml", "application/vnd.x+gob", "application/vnd.x+html", "application/vnd.x+txt",
	"application/vnd.x+json; view=default", "application/vnd.goa.thing; view=default", "application/vnd.x", "image/png", "application/octet-stream",
	"text/css", "application/x+yaml", "application/vnd.x+xml+json", "garbage", "application/problem+xml; charset=utf-8", "application/vnd.x+JSON",
}

var ctUnparsable = []string{"application/json; =x", "a/b; x=1; x=1", "a/", "/b", `application/json; charset="utf`, " ", ";", "application/xml, application/json", "a/b/c", "application/vnd.x+xml; q", "\xff/\x00"}

func genCT(r *vh.RNG) (string, string) {
	switch k := r.Intn(100); {
	case k < 40:
		return "", "absent"
	case k < 75:
		return vh.Pick(r, ctCorpus), "corpus"
	default:
		for i := 0; i < 20; i++ {
			if s := genMediaRange(r); parsable(s) {
				return s, "media-range"
			}
		}
		return "application/vnd.x+json", "corpus"
	}
}

var presetPlain = []string{"application/vnd.x", "application/octet-stream", "text/plain", "text/html", "application/json", "application/xml", "application/gob",
	"custom", "Application/Vnd.Y", "image/png", "application/vnd.goa.thing", "a/b c", "text/plain ", "\xffbin", "a,b", "application/x-yaml"}

func sfxOf(kind string) string {
	switch kind {
	case "xml":
		return "+xml"
	case "gob":
		return "+gob"
	case "text":
		return "+txt"
	}
	return "+json"
}

// expected kind of a case from the specification (used only to generate agreeing suffixes)
func specWantKind(accept, ct string) string {
	if ct != "" {
		return specKind(specNorm(ct))
	}
	if p := specPreference(accept); p != "" {
		return specKind(p)
	}
	return "json"
}

var presetParams = []string{"; charset=utf-8", ";charset=UTF-8", ";v=1", " ; q=0.5", "; a=b; c=d", `; v="1"`, "; view=default", " \t; x=y", ";"}

// main-stream pre-set headers stay inside preset_ok: absent, without '+' (plain, or with
// parameters and parsable), or carrying the suffix of the format the preferences ask for
func genPreset(r *vh.RNG, accept, ct string) (string, string) {
	switch k := r.Intn(100); {
	case k < 50:
		return "", "absent"
	case k < 68:
		return vh.Pick(r, presetPlain), "plain"
	case k < 78:
		if p := vh.Pick(r, presetPlain) + vh.Pick(r, []string{"", "", "+json", "+xml", "+gob", "+JSON", "+yaml"}) + vh.Pick(r, presetParams); parsable(p) && fieldSafe(p) {
			return p, "plain+params"
		}
		return "application/vnd.x; charset=utf-8", "plain+params"
	case k < 88:
		return vh.Pick(r, []string{"application/vnd.x", "application/vnd.goa.thing", "application/hal", "Application/Problem"}) + vh.Pick(r, []string{sfxOf(specWantKind(accept, ct)), "+json", "+xml", "+gob", "+yaml", "+JSON", "+xml+json", "+"}), "any-suffix"
	default:
		var b strings.Builder
		for i, n := 0, 1+r.Intn(6); i < n; i++ {
			s := vh.Pick(r, hostileAlphabet)
			if s == ";" {
				s = "-"
			}
			b.WriteString(s)
		}
		return b.String(), "plain-garbage"
	}
}

// the cases of the repaired defect preset-suffix-mismatch (pre-set value with a '+') and their
// neighbours; ordinary main-stream cases now
var witnessTriples = [][3]string{
	// accept, designed type, pre-set header
	{"", "", "application/vnd.x+xml"},                   // was: preset-suffix-mismatch
	{"application/json", "", "application/vnd.x+xml"},   // was failing
	{"application/xml", "", "application/vnd.x+xml"},    // neighbour: agrees
	{"application/xml", "", "application/vnd.x+json"},   // was failing
	{"application/xml", "", "application/ld+json; profile=x"}, // was failing
	{"application/xml", "", "a/b; x=y+z"},               // was failing: '+' inside a parameter
	{"", "", "a/b; x=y+z"},                              // neighbour: JSON is the decoder default
	{"", "application/xml", "application/vnd.x+gob"},    // was failing
	{"application/gob", "", "application/vnd.x+xml"},    // neighbour: gob overwrites the header
}

// the cases of the repaired defect (fixed: 04b25e0, suffix appended behind the parameters);
// they are ordinary main-stream cases now
var fixedParamsTriples = [][3]string{
	{"application/xml", "", "application/vnd.x; charset=utf-8"},
	{"", "", "application/vnd.x; charset=utf-8"},
	{"", "", "application/xml; charset=utf-8"},
	{"", "", "text/plain; charset=utf-8"},
	{"", "application/xml", "application/vnd.x;v=1"},
	{"", "application/vnd.y+xml", "application/vnd.x; charset=utf-8"},
	{"application/xml", "", "text/plain ; charset=utf-8"},
	{"application/xml", "", "application/json \t;q=1"},
}

// errorKinds: every flag vector of a ServiceError, the unsupported media type error (415),
// a wrapped ServiceError and an error that is not a ServiceError
func errorKinds() []ErrDesc {
	var out []ErrDesc
	for fl := 0; fl < 8; fl++ {
		out = append(out, ErrDesc{Kind: "service", Name: "bad_thing", Msg: "it broke <&>", Timeout: fl&1 != 0, Temporary: fl&2 != 0, Fault: fl&4 != 0})
	}
	out = append(out,
		ErrDesc{Kind: "unsupported", Msg: "application/vnd.api+json"},
		ErrDesc{Kind: "service", Name: "unsupported_media_type", Msg: "m", Fault: true},
		ErrDesc{Kind: "wrapped", Name: "not_found", Msg: "no such thing", Temporary: true},
		ErrDesc{Kind: "plain", Msg: "boom"})
	return out
}

var reqCorpus = []string{
	"", "application/json", "application/xml", "application/gob", "text/html", "text/plain",
	"application/json; charset=utf-8", "application/xml;charset=UTF-8", "text/plain; charset=utf-8", "Application/JSON", " application/gob ", "TEXT/HTML",
	"application/vnd.api+json", "application/vnd.x+json", "application/hal+xml", "application/x+gob", "application/problem+json; charset=utf-8",
	"application/x-www-form-urlencoded", "multipart/form-data; boundary=x", "application/octet-stream", "image/png", "text/css", "text/xml", "application/jsonx",
	"application/json; =x", "application/json;", "application/json;;", "json", "garbage", "/", ";", " ", "application/json, application/xml", "*/*", "application/*",
	"application/yaml", "application/x-yaml", "application/msgpack", "text/json", "application/json/x",
}

func genReqHeader(r *vh.RNG) (string, string) {
	switch k := r.Intn(100); {
	case k < 35:
		return vh.Pick(r, reqCorpus), "corpus"
	case k < 50:
		return vh.Pick(r, five) + vh.Pick(r, mtParams), "exact+params"
	case k < 85:
		return genMediaRange(r), "media-range"
	case k < 98:
		return genGarbage(r), "garbage"
	default:
		return vh.Pick(r, longValues), "long"
	}
}

// ---------------------------------------------------------------- Coq printing

type interner struct {
	idx  map[string]int
	list []string
}

func (in *interner) id(s string) int {
	if i, ok := in.idx[s]; ok {
		return i
	}
	i := len(in.list)
	in.idx[s] = i
	in.list = append(in.list, s)
	return i
}

func kindCode(k string) int {
	switch k {
	case "json":
		return 0
	case "xml":
		return 1
	case "gob":
		return 2
	case "text":
		return 3
	}
	return -1
}

func vkCode(k string) int {
	return map[string]int{"struct": 0, "string": 1, "strptr": 2, "bytes": 3}[k]
}

func b2i(b bool) int {
	if b {
		return 1
	}
	return 0
}

// mcase is one case handed to the model; strings are global interner ids.
type mcase struct {
	kind           byte // 'R' response, 'Q' request, 'E' request encoder
	a, c, p, hdr   int
	code, oct, ost int
	ol, el         []int // flattened pairs; ol: (s, 0 | m+1) with m a string id (kept as id, +1 applied when printing)
}

type parserLog struct {
	in       *interner
	failures []string
	answers  int
	// every distinct string handed to the real parser, with its answer: compared with the
	// model of the parser itself (Model.go_media_type) as PC cases
	seen     map[string]bool
	cases    []mcase
	capCases int
}

// oracle logs mime.ParseMediaType(s) as association entries (string id -> answer) and
// checks the hypotheses the theorems put on the parser against this answer.
// ol entries: (s, -1) for an error, (s, m) otherwise; el entries: (s, media type returned with the error).
func (pl *parserLog) oracle(ss []string) (ol, el []int) {
	seen := map[string]bool{}
	for _, s := range ss {
		if s == "" || seen[s] {
			continue
		}
		seen[s] = true
		pl.answers++
		m, _, err := mime.ParseMediaType(s)
		if pl.seen == nil {
			pl.seen = map[string]bool{}
		}
		if !pl.seen[s] && len(pl.cases) < pl.capCases {
			pl.seen[s] = true
			code := 0
			if err != nil {
				code = 1
				if m == "" {
					code = 2
				}
			}
			pl.cases = append(pl.cases, mcase{kind: 'P', hdr: pl.in.id(s), code: code, oct: pl.in.id(m)})
		}
		if err != nil {
			ol = append(ol, pl.in.id(s), -1)
			el = append(el, pl.in.id(s), pl.in.id(m))
			continue
		}
		ol = append(ol, pl.in.id(s), pl.in.id(m))
		if specNorm(m) != m && len(pl.failures) < 20 {
			pl.failures = append(pl.failures, fmt.Sprintf("parser_stable: ParseMediaType(%q)=%q but that parses to %q", s, m, specNorm(m)))
		}
		base := s
		if i := strings.Index(s, ";"); i >= 0 {
			base = strings.TrimRight(s[:i], " \t")
		}
		for _, sfx := range []string{"+json", "+xml"} {
			if strings.HasSuffix(base, sfx) && !strings.HasSuffix(m, sfx) && len(pl.failures) < 20 {
				pl.failures = append(pl.failures, fmt.Sprintf("parser_keeps_suffix: ParseMediaType(%q)=%q", s, m))
			}
		}
		if strings.Contains(s, ";") && fieldSafe(s) {
			for _, sfx := range []string{"+json", "+xml"} {
				if ins := specSuffixed(s, sfx); !parsable(ins) && len(pl.failures) < 20 {
					pl.failures = append(pl.failures, fmt.Sprintf("parser_accepts_suffixed: %q parses, %q does not", s, ins))
				}
			}
		}
	}
	return ol, el
}

// ---- tokens: a string is printed as a list of vocabulary entries (generator fragments,
// whole corpus entries, runs of the long values, single bytes) to keep the Coq files small
var vocabulary []string

func initVocabulary() {
	seen := map[string]bool{}
	add := func(ws ...string) {
		for _, w := range ws {
			if len(w) > 1 && !seen[w] {
				seen[w] = true
				vocabulary = append(vocabulary, w)
			}
		}
	}
	add(five...)
	add(acceptCorpus...)
	add(ctCorpus...)
	add(ctUnparsable...)
	add(presetPlain...)
	add(reqCorpus...)
	add(mtTypes...)
	add(mtSubs...)
	add(mtSuffix...)
	add(mtParams...)
	add(hostileAlphabet...)
	for _, w := range append(append([][3]string{}, witnessTriples...), fixedParamsTriples...) {
		add(w[0], w[1], w[2])
	}
	add(presetParams...)
	add("application/", "text/", "image/", "vnd.", "charset=utf-8", "; ", ", ", "/json", "/xml", "/gob", "/plain", "/html",
		"application/vnd.x", "application/vnd.goa.thing", "application/hal", "Application/Problem", "+txt", "+html",
		strings.Repeat("a", 100), strings.Repeat("application/json, ", 10), strings.Repeat(" ", 100), strings.Repeat("\xff", 100), strings.Repeat("y", 100))
	sort.SliceStable(vocabulary, func(i, j int) bool { return len(vocabulary[i]) > len(vocabulary[j]) })
}

var tokCache = map[string][]string{}

func tokenize(s string) []string {
	if t, ok := tokCache[s]; ok {
		return t
	}
	var out []string
	for i := 0; i < len(s); {
		matched := ""
		for _, w := range vocabulary {
			if len(w) <= len(s)-i && s[i] == w[0] && s[i:i+len(w)] == w {
				matched = w
				break
			}
		}
		if matched == "" {
			matched = s[i : i+1]
		}
		out = append(out, matched)
		i += len(matched)
	}
	tokCache[s] = out
	return out
}

// writeShard prints one self-contained Coq input: header (vocabulary + string table, both
// local to the shard) and the case lines.
func writeShard(dir string, k int, cases []mcase, idxs []int, global *interner) error {
	loc := &interner{idx: map[string]int{}}
	voc := &interner{idx: map[string]int{}}
	sid := func(g int) int { return loc.id(global.list[g]) }
	nums := func(xs []int) string {
		ss := make([]string, len(xs))
		for i, x := range xs {
			ss[i] = fmt.Sprint(x)
		}
		return "[" + strings.Join(ss, ";") + "]"
	}
	var lines strings.Builder
	for j, c := range cases {
		switch c.kind {
		case 'R':
			ol := make([]int, len(c.ol))
			for i := 0; i < len(c.ol); i += 2 {
				ol[i] = sid(c.ol[i])
				if c.ol[i+1] >= 0 {
					ol[i+1] = sid(c.ol[i+1]) + 1
				}
			}
			el := make([]int, len(c.el))
			for i := range c.el {
				el[i] = sid(c.el[i])
			}
			fmt.Fprintf(&lines, "RC %d %d %d %d %d %s %s %d %d %d\n", idxs[j], sid(c.a), sid(c.c), sid(c.p), c.code, nums(ol), nums(el), sid(c.hdr), c.ost, sid(c.oct))
		case 'Q':
			ol := make([]int, len(c.ol))
			for i := 0; i < len(c.ol); i += 2 {
				ol[i] = sid(c.ol[i])
				if c.ol[i+1] >= 0 {
					ol[i+1] = sid(c.ol[i+1]) + 1
				}
			}
			fmt.Fprintf(&lines, "QC %d %d %s %d %d %d\n", idxs[j], sid(c.hdr), nums(ol), c.code, sid(c.oct), c.ost)
		case 'E':
			fmt.Fprintf(&lines, "EC %d %d %d\n", idxs[j], sid(c.p), sid(c.hdr))
		case 'P':
			fmt.Fprintf(&lines, "PC %d %d %d %d\n", idxs[j], sid(c.hdr), c.code, sid(c.oct))
		}
	}
	var st strings.Builder
	for i, s := range loc.list {
		if i > 0 {
			st.WriteString(";\n")
		}
		toks := tokenize(s)
		ids := make([]int, len(toks))
		for t, w := range toks {
			ids[t] = voc.id(w)
		}
		st.WriteString(nums(ids))
	}
	var vt strings.Builder
	for i, w := range voc.list {
		if i > 0 {
			vt.WriteString(";\n")
		}
		vt.WriteString(vh.CoqBytes(w))
	}
	hdr := "From Encoding Require Import Model Run.\nOpen Scope N_scope.\n" +
		"Definition voc : table := mk_table [\n" + vt.String() + "].\n" +
		"Definition tbl : table := mk_strings voc [\n" + st.String() + "]."
	if err := os.WriteFile(filepath.Join(dir, fmt.Sprintf("shard_%03d.hdr", k)), []byte(hdr), 0o644); err != nil {
		return err
	}
	return os.WriteFile(filepath.Join(dir, fmt.Sprintf("shard_%03d.txt", k)), []byte(lines.String()), 0o644)
}

func trunc(s string) string {
	if len(s) > 300 {
		return s[:300] + fmt.Sprintf("...(%d bytes)", len(s))
	}
	return s
}

func main() {
	seed := flag.Uint64("seed", 1, "")
	tier := flag.String("tier", "quick", "")
	out := flag.String("out", ".", "")
	replay := flag.String("replay", "", "")
	shardSize := flag.Int("shard-size", 1800, "cases per Coq input file")
	maxModel := flag.Int("max-model", 0, "cap on distinct response cases handed to the model (0 = tier default)")
	flag.Parse()
	initFacts()
	initVocabulary()
	rng := vh.NewRNG(*seed)
	res := vh.NewResult()
	in := &interner{idx: map[string]int{}}
	in.id("")
	pl := &parserLog{in: in, capCases: 6000}
	if *tier == "thorough" {
		pl.capCases = 60000
	}
	for _, f := range five {
		if specNorm(f) != f {
			pl.failures = append(pl.failures, "parser_fixes_supported: "+f)
		}
	}

	nResp, nReq, capModel := 26000, 4000, 40000
	if *tier == "thorough" {
		nResp, nReq, capModel = 940000, 60000, 100000
	}
	if *maxModel > 0 {
		capModel = *maxModel
	}

	var respCases []RespCase
	var reqCases []ReqCase
	if *replay != "" {
		b, err := os.ReadFile(*replay)
		if err != nil {
			panic(err)
		}
		var rp struct {
			Input json.RawMessage `json:"input"`
		}
		var probe struct {
			Stream string `json:"stream"`
		}
		if err := json.Unmarshal(b, &rp); err != nil || json.Unmarshal(rp.Input, &probe) != nil || probe.Stream == "" {
			fmt.Println("replay file has no case input")
			os.Exit(2)
		}
		if probe.Stream == "request" {
			var c ReqCase
			_ = json.Unmarshal(rp.Input, &c)
			reqCases = append(reqCases, c)
		} else {
			var c RespCase
			_ = json.Unmarshal(rp.Input, &c)
			respCases = append(respCases, c)
		}
		nResp, nReq = 0, 0
	}

	var mcases []mcase
	var caseLog strings.Builder
	logCase := func(c, o any) {
		cj, _ := json.Marshal(map[string]any{"case": c, "observed": o})
		if len(cj) > 4000 {
			cj, _ = json.Marshal(map[string]any{"case": c, "observed": "(long case, observation omitted)"})
		}
		caseLog.Write(cj)
		caseLog.WriteByte('\n')
	}
	distinct := vh.Distinct{}
	seenResp := map[string]bool{}
	modelled, skippedDup, skippedCap := 0, 0, 0
	evals := 0

	ws := newWireServer()
	defer ws.srv.Close()
	wireRuns := 0
	describe := func(c RespCase, o RespObs) string {
		return fmt.Sprintf(" [accept=%q designed=%q pre-set=%q value=%s -> encoder %s; on the wire (%s): status %d, Content-Type %q; decoder %s]",
			trunc(string(c.Accept)), trunc(string(c.CT)), trunc(string(c.Preset)), c.VName, o.Enc, o.Via, o.Status, trunc(string(o.Header)), o.Dec)
	}
	doResp := func(c RespCase) {
		pld := payloadOf(c)
		if c.Mux {
			c.Value = 0
			c.VName = "ErrorResponse of the muxer's 404"
		} else if c.Err != nil {
			c.Value = 0
			c.VName = fmt.Sprintf("ErrorResponse of %s error %+v", c.Err.Kind, *c.Err)
		} else {
			c.VName = values[c.Value].Name
		}
		o := runResp(c, pld)
		evals++
		res.Count("resp_stream=" + c.Stream)
		res.Count("resp_encoder=" + o.Enc)
		res.Count("resp_value=" + pld.kind)
		inEnvelope := c.CT == "" || parsable(string(c.CT))
		failed := false
		if c.Stream == "hostile" {
			// outside the envelope: only crashes count; a nil encoder must mean "does not parse"
			if o.Panic != "" {
				res.Fail("panic", "ResponseEncoder/Encode/Decode panicked: "+o.Panic, c)
			} else if o.Enc == "nil" && inEnvelope {
				res.Fail("nil-encoder-for-parsable-type", "ResponseEncoder returned a nil Encoder although the designed content type parses", c)
			}
		} else if inEnvelope {
			if law, what := oracleResp(c, pld, o); law != "" {
				sig := classify(c, o, law)
				res.Fail(sig, what+describe(c, o), c)
				res.Count("resp_failed_law=" + sig)
				failed = true
			}
			// the same case through a real net/http server and client (every error-path case,
			// the fixed corpora, one in four of the rest), when net/http carries the header unchanged
			if !failed && c.Stream != "witness" && (c.Err != nil || c.Mux || wireRuns < 2000 || evals%4 == 0) &&
				wireSafe(string(c.Preset)) && wireSafe(string(o.Header)) && (!c.Mux || wireSafe(string(c.Accept))) {
				wireRuns++
				wpl := payloadOf(c)
				wo, err := ws.run(c, wpl)
				res.Count("resp_via_real_server")
				if err != nil {
					res.Fail("wire-request-failed", "real net/http round trip failed: "+err.Error()+describe(c, o), c)
				} else if law, what := oracleResp(c, wpl, wo); law != "" {
					res.Fail(classify(c, wo, law), what+describe(c, wo), c)
				} else if wo.Header != o.Header || wo.Status != o.Status || wo.Enc != o.Enc {
					res.Fail("wire-differs-from-recorder", fmt.Sprintf("real server: status %d Content-Type %q encoder %s", wo.Status, string(wo.Header), wo.Enc)+describe(c, o), c)
				}
			}
		}
		ej, _ := json.Marshal(c.Err)
		key := fmt.Sprintf("%q|%q|%q|%d|%s|%v", c.Accept, c.CT, c.Preset, c.Value, ej, c.Mux)
		if c.Accept != "" || c.CT != "" || c.Preset != "" {
			distinct.Add("r" + key)
		}
		if seenResp[key] {
			skippedDup++
			return
		}
		seenResp[key] = true
		if modelled >= capModel {
			skippedCap++
			return
		}
		if o.Panic != "" {
			return
		}
		f := pld.facts
		ol, el := pl.oracle([]string{string(c.Accept), string(c.CT), string(c.Preset), string(o.Header), string(o.LiveHeader)})
		enc, dec := 0, kindCode(o.Dec)
		if o.Enc == "unobserved" {
			enc = 5
		} else if o.Enc != "nil" {
			enc = kindCode(o.Enc) + 1
		}
		if enc < 0 || (o.Enc != "nil" && enc == 0) || dec < 0 {
			// (enc == 5: not observable)
			res.Fail("unknown-codec-type", fmt.Sprintf("ResponseEncoder/ResponseDecoder returned %s / %s", o.Enc, o.Dec), c)
			return
		}
		ekind := 0
		encErr := o.EncErr != ""
		if c.Mux {
			ekind = 33
			encErr = len(o.Body) == 0 // the handler discards the Encode error: nothing written = refused
		} else if e := c.Err; e != nil {
			ekind = 1 + b2i(e.Kind == "unsupported" || e.Name == "unsupported_media_type") + 2*(b2i(e.Timeout)+2*(b2i(e.Temporary)+2*(b2i(e.Fault)+2*b2i(e.Kind == "plain"))))
		}
		code := vkCode(pld.kind) + 4*(b2i(f.refuses["json"])+2*(b2i(f.refuses["xml"])+2*(b2i(f.refuses["gob"])+2*(enc+6*(dec+4*(b2i(encErr)+2*(b2i(o.Recovered)+2*ekind)))))))
		mcases = append(mcases, mcase{kind: 'R', a: in.id(string(c.Accept)), c: in.id(string(c.CT)), p: in.id(string(c.Preset)),
			hdr: in.id(string(o.Header)), code: code, ol: ol, el: el, ost: o.Status, oct: in.id("")})
		logCase(c, o)
		if modelled%4001 == 7 || (c.Err != nil && modelled%701 == 3) {
			res.Sample(map[string]any{"case": c, "observed": o}, 8)
		}
		modelled++
	}

	// replayed / fixed corpus first
	for _, c := range respCases {
		doResp(c)
	}
	if *replay == "" {
		// former witness triples: every triple x every value
		for _, w := range witnessTriples {
			for v := range values {
				doResp(RespCase{Stream: "main", Accept: BStr(w[0]), CT: BStr(w[1]), Preset: BStr(w[2]), Value: v})
			}
		}
		for _, w := range fixedParamsTriples {
			for v := range values {
				doResp(RespCase{Stream: "main", Accept: BStr(w[0]), CT: BStr(w[1]), Preset: BStr(w[2]), Value: v})
			}
		}
		// fixed corpus of the main stream: every Accept corpus entry and every designed type, no pre-set header, one value of each kind
		for _, a := range append([]string{""}, acceptCorpus...) {
			for _, v := range []int{0, 3, 8, 9} {
				doResp(RespCase{Stream: "main", Accept: BStr(a), Value: v})
			}
		}
		for _, ct := range ctCorpus {
			for _, v := range []int{0, 3, 8, 9} {
				doResp(RespCase{Stream: "main", Accept: "application/xml", CT: BStr(ct), Value: v})
				doResp(RespCase{Stream: "main", CT: BStr(ct), Preset: "application/vnd.x", Value: v})
			}
		}
		for _, a := range []string{"", "application/xml", "application/gob", "text/plain", "image/png"} {
			for _, p := range presetPlain {
				doResp(RespCase{Stream: "main", Accept: BStr(a), Preset: BStr(p), Value: 0})
				doResp(RespCase{Stream: "main", Accept: BStr(a), Preset: BStr(p), Value: 3})
			}
		}
		// hostile corpus: designed types that do not parse (nil encoder), pre-set headers of any shape
		for _, ct := range ctUnparsable {
			for _, p := range []string{"", "application/vnd.x", "application/vnd.x+xml"} {
				doResp(RespCase{Stream: "hostile", Accept: "application/xml", CT: BStr(ct), Preset: BStr(p), Value: 0})
			}
		}
	}
	// ---- error path: goahttp.ErrorEncoder over Accept x designed type x error kind
	if *replay == "" {
		errAccepts := append([]string{"", "application/vnd.api+json", "*/*", "text/html,application/xhtml+xml,application/xml;q=0.9,*/*;q=0.8", "APPLICATION/XML", "application/gob;q=0"}, five...)
		errCTs := []string{"", "application/vnd.goa.error", "application/vnd.goa.error+json", "application/vnd.goa.error+xml", "application/xml", "application/gob", "application/vnd.x+gob", "text/plain", "application/json; charset=utf-8"}
		for _, a := range errAccepts {
			for _, ct := range errCTs {
				for _, e := range errorKinds() {
					e := e
					doResp(RespCase{Stream: "error", Accept: BStr(a), CT: BStr(ct), Err: &e})
				}
			}
		}
		for _, p := range []string{"application/vnd.x", "application/problem", "application/vnd.x; charset=utf-8"} {
			for _, a := range []string{"", "application/xml", "application/gob"} {
				for _, e := range errorKinds() {
					e := e
					doResp(RespCase{Stream: "error", Accept: BStr(a), Preset: BStr(p), Err: &e})
				}
			}
		}
	}
	// ---- the muxer's own 404 response over the Accept grammar
	if *replay == "" {
		nf := append(append([]string{""}, five...), acceptCorpus...)
		for _, f := range five {
			for _, p := range mtParams {
				nf = append(nf, f+p)
			}
		}
		nf = append(nf, longValues...)
		for _, a := range nf {
			doResp(RespCase{Stream: "notfound", Accept: BStr(a), Mux: true})
		}
	}
	for i := 0; i < nResp; i++ {
		if i%16 == 11 {
			a, _ := genAccept(rng)
			res.Count("notfound_random")
			doResp(RespCase{Stream: "notfound", Accept: BStr(a), Mux: true})
			continue
		}
		if i%16 == 5 {
			// random error-path case
			a, _ := genAccept(rng)
			ct, _ := genCT(rng)
			e := vh.Pick(rng, errorKinds())
			res.Count("error_path_random")
			doResp(RespCase{Stream: "error", Accept: BStr(a), CT: BStr(ct), Err: &e})
			continue
		}
		stream := "main"
		if i%8 == 7 {
			stream = "hostile"
		}
		a, ac := genAccept(rng)
		var ct, cc, p, pc string
		if stream == "main" {
			ct, cc = genCT(rng)
			p, pc = genPreset(rng, a, ct)
		} else {
			if rng.Chance(1, 3) {
				ct, cc = vh.Pick(rng, ctUnparsable), "unparsable"
			} else if rng.Bool() {
				ct, cc = genGarbage(rng), "garbage"
			} else {
				ct, cc = genCT(rng)
			}
			switch rng.Intn(4) {
			case 0:
				p, pc = "", "absent"
			case 1:
				p, pc = genGarbage(rng), "garbage"
			case 2:
				p, pc = genMediaRange(rng), "media-range"
			default:
				p, pc = vh.Pick(rng, presetPlain)+vh.Pick(rng, mtSuffix)+vh.Pick(rng, mtParams), "plain+suffix+params"
			}
		}
		res.Count("accept=" + ac)
		res.Count("designed=" + cc)
		res.Count("preset=" + pc)
		doResp(RespCase{Stream: stream, Accept: BStr(a), CT: BStr(ct), Preset: BStr(p), Value: rng.Intn(len(values))})
	}

	// ---- request side
	seenReq := map[string]bool{}
	qn := 0
	doReq := func(c ReqCase) {
		c.Stream = "request"
		c.VName = values[c.Value].Name
		o := runReq(c)
		evals++
		res.Count("req_decoder=" + o.Dec)
		if law, what := oracleReq(c, o); law != "" {
			res.Fail(law, what+fmt.Sprintf(" [Content-Type=%q value=%s]", trunc(string(c.Header)), c.VName), c)
		}
		key := fmt.Sprintf("%q|%d", c.Header, c.Value)
		if c.Header != "" {
			distinct.Add("q" + key)
		}
		if seenReq[key] {
			return
		}
		seenReq[key] = true
		if qn >= capModel/4 {
			return
		}
		ol, _ := pl.oracle([]string{string(c.Header)})
		dcode, ctIdx := 0, 0
		if o.Dec != "unsupported" {
			dcode = map[string]int{"json": 1, "xml": 2, "gob": 3, "text": 4}[o.Dec]
			if dcode == 0 {
				res.Fail("unknown-codec-type", "RequestDecoder returned "+o.Dec, c)
				return
			}
		} else {
			ctIdx = in.id(strings.TrimPrefix(string(o.ErrMsg), "unsupported media type "))
		}
		mcases = append(mcases, mcase{kind: 'Q', hdr: in.id(string(c.Header)), ol: ol, code: dcode + 5*b2i(o.Decoded), oct: ctIdx, ost: o.Status})
		logCase(c, o)
		if qn%997 == 3 {
			res.Sample(map[string]any{"case": c, "observed": o}, 9)
		}
		qn++
	}
	for _, c := range reqCases {
		doReq(c)
	}
	if *replay == "" {
		for _, h := range reqCorpus {
			for v := range values {
				doReq(ReqCase{Header: BStr(h), Value: v})
			}
		}
	}
	for i := 0; i < nReq; i++ {
		h, hc := genReqHeader(rng)
		res.Count("req_header=" + hc)
		doReq(ReqCase{Header: BStr(h), Value: rng.Intn(len(values))})
	}

	// ---- RequestEncoder: default header, kept header, and the default goes back through RequestDecoder
	en := 0
	if *replay == "" {
		for _, p := range []string{"", "application/json", "application/xml", "text/plain", "application/vnd.x+json", "custom", "application/json; charset=utf-8"} {
			for v, vd := range values {
				req := httptest.NewRequest("POST", "/", nil)
				req.Header.Del("Content-Type")
				if p != "" {
					req.Header.Set("Content-Type", p)
				}
				enc := goahttp.RequestEncoder(req)
				after := req.Header.Get("Content-Type")
				evals++
				res.Count("request_encoder_cases")
				if v == 0 {
					mcases = append(mcases, mcase{kind: 'E', p: in.id(p), hdr: in.id(after)})
					logCase(map[string]any{"stream": "request-encoder", "preset": p}, map[string]any{"header_after": after})
					en++
				}
				if kindOfType(enc) != "json" {
					res.Fail("request-encoder-not-json", "RequestEncoder returned "+kindOfType(enc), map[string]any{"stream": "request-encoder", "preset": p})
				}
				if p != "" {
					continue
				}
				c := map[string]any{"stream": "request-encoder", "preset": p, "value_go": vd.Name}
				if after != "application/json" {
					res.Fail("request-default-header-not-json", fmt.Sprintf("RequestEncoder set Content-Type %q", after), c)
					continue
				}
				if err := enc.Encode(vd.v); err != nil {
					res.Fail("request-encode-error", err.Error(), c)
					continue
				}
				body, _ := io.ReadAll(req.Body)
				sreq := httptest.NewRequest("POST", "/", bytes.NewReader(body))
				sreq.Header.Set("Content-Type", after)
				dec := goahttp.RequestDecoder(sreq)
				outv := freshOut(vd.Kind)
				if err := dec.Decode(outv); err != nil || !sameValue(outv, vd.v) {
					res.Fail("request-roundtrip-failed", fmt.Sprintf("RequestEncoder -> RequestDecoder (%s) did not recover the value: %v", kindOfType(dec), err), c)
				}
			}
		}
	}

	must := func(err error) {
		if err != nil {
			panic(err)
		}
	}
	// ---- the real parser's answers against the model of the parser
	for _, pc := range pl.cases {
		mcases = append(mcases, pc)
		logCase(map[string]any{"stream": "parser", "value": BStr(in.list[pc.hdr])}, map[string]any{"code": pc.code, "media_type": BStr(in.list[pc.oct])})
	}
	res.Extra["model_cases_parser"] = len(pl.cases)
	// ---- shards: every shard carries its own vocabulary and strings
	nshards := (len(mcases) + *shardSize - 1) / *shardSize
	if nshards < 1 {
		nshards = 1
	}
	// cases that share strings go to the same shard (smaller per-shard string tables)
	order := make([]int, len(mcases))
	for i := range order {
		order[i] = i
	}
	sort.SliceStable(order, func(x, y int) bool {
		a, b := mcases[order[x]], mcases[order[y]]
		if a.kind != b.kind {
			return a.kind < b.kind
		}
		if a.a != b.a {
			return a.a < b.a
		}
		if a.hdr != b.hdr {
			return a.hdr < b.hdr
		}
		if a.c != b.c {
			return a.c < b.c
		}
		return a.p < b.p
	})
	for k := 0; k < nshards; k++ {
		var cs []mcase
		var idxs []int
		for j := k * *shardSize; j < (k+1)**shardSize && j < len(order); j++ {
			cs = append(cs, mcases[order[j]])
			idxs = append(idxs, order[j])
		}
		must(writeShard(*out, k, cs, idxs, in))
	}
	res.Extra["shards"] = nshards
	must(os.WriteFile(filepath.Join(*out, "cases.jsonl"), []byte(caseLog.String()), 0o644))

	res.Evaluations = evals
	res.Distinct = len(distinct)
	res.Rule = "response: Accept grammar (absent, the five exact types, with parameters/q-values, comma lists, wildcards, +json/+xml/+gob suffixed, case/space variants, garbage incl. non-UTF-8, 2-5 KB values) x designed content type via goahttp.ContentTypeKey (absent, five exact, parameters, +json/+xml/+gob/+html/+txt vendor types, unknown; unparsable ones in the hostile stream) x pre-set Content-Type (main stream inside preset_ok: absent, plain, any '+' suffix, parsable with parameters; hostile stream: anything) x 12 values (struct, string, *string, []byte), observed on the wire (rec.Result(), plus real net/http round trips); error path: goahttp.ErrorEncoder over Accept x designed type x pre-set x 12 errors (8 ServiceError flag vectors, unsupported media type, wrapped, plain), ErrorResponse decoded back from the wire; muxer NotFound: GET of an unmounted path through goahttp.NewMuxer() over the Accept grammar (status 404, Content-Type, body on the wire); request: Content-Type grammar x 12 values, body in the announced format; RequestEncoder x 7 headers. distinct = distinct (accept, designed, pre-set, value) resp. (header, value) tuples; non-trivial = at least one of the three strings present (resp.) / header present (req.)"
	res.Extra["model_cases_response"] = modelled
	res.Extra["model_cases_request"] = qn
	res.Extra["model_cases_request_encoder"] = en
	res.Extra["duplicates_not_sent_to_model"] = skippedDup
	res.Extra["distinct_over_model_cap"] = skippedCap
	res.Extra["strings_interned"] = len(in.list)
	res.Extra["parser_answers_logged"] = pl.answers
	res.Extra["parser_hypothesis_failures"] = pl.failures
	must(res.Write(filepath.Join(*out, "result.json")))
}
