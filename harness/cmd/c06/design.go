package main

import (
	"fmt"
	"sort"
	"strings"

	dg "verifharness/designgen"
	"verifharness/vh"
)

// Credential attribute names used by every hand-built / generated design of this
// harness. One scheme per kind per design (two schemes of one kind in a service do
// not compile: see notes/C06.md), so the API key attribute is unique too.
const (
	attrUser   = "user"
	attrPass   = "pass"
	attrKey    = "key"
	attrToken  = "token"
	attrAToken = "atoken"
)

// methodSpec describes one method of a design beyond what designgen.Method holds:
// where each credential attribute travels.
type methodSpec struct {
	Name     string
	Own      []dg.Requirement
	NoSec    bool
	Locs     map[string]string // credential attribute -> implicit | header:<Name> | query:<name> | body
	Required bool              // credential attributes are required (non-pointer fields)
}

func schemeByName(d *dg.Design, n string) *dg.Scheme {
	for i := range d.Schemes {
		if d.Schemes[i].Name == n {
			return &d.Schemes[i]
		}
	}
	return nil
}

// declaredReqs: the requirements goa validates the payload against (method's own when
// it has any Security/NoSecurity call, else the service's, else the API's).
func declaredReqs(d *dg.Design, s *dg.Service, own []dg.Requirement, nosec bool) []dg.Requirement {
	if len(own) > 0 || nosec {
		return own
	}
	if len(s.Security) > 0 {
		return s.Security
	}
	return d.Security
}

// effectiveReqs is the property's own reading of the design: NoSecurity => none, else
// method, else service, else API. (Written independently of the Coq model.)
func effectiveReqs(d *dg.Design, s *dg.Service, m *dg.Method) []dg.Requirement {
	if m.NoSecurity {
		return nil
	}
	if len(m.Security) > 0 {
		return m.Security
	}
	if len(s.Security) > 0 {
		return s.Security
	}
	return d.Security
}

func kindsOf(d *dg.Design, reqs []dg.Requirement) map[string]bool {
	ks := map[string]bool{}
	for _, r := range reqs {
		for _, n := range r.Schemes {
			if sc := schemeByName(d, n); sc != nil {
				ks[sc.Kind] = true
			}
		}
	}
	return ks
}

func apiKeyName(d *dg.Design) string {
	for _, s := range d.Schemes {
		if s.Kind == "apikey" {
			return s.Name
		}
	}
	return ""
}

func credField(name, fn, scheme string, req bool) *dg.Field {
	return &dg.Field{Name: name, A: dg.Attr{T: dg.Prim("String"), Sec: &dg.SecAttrKind{Fn: fn, Scheme: scheme}}, Required: req}
}

// credAttrs lists the credential attributes a method's payload carries, in a fixed order.
func credAttrs(kinds map[string]bool) []string {
	var out []string
	if kinds["basic"] {
		out = append(out, attrUser, attrPass)
	}
	if kinds["apikey"] {
		out = append(out, attrKey)
	}
	if kinds["jwt"] {
		out = append(out, attrToken)
	}
	if kinds["oauth2"] {
		out = append(out, attrAToken)
	}
	return out
}

// buildMethod turns a methodSpec into a designgen method of service s of design d.
func buildMethod(d *dg.Design, s *dg.Service, ms methodSpec) *dg.Method {
	m := &dg.Method{Name: ms.Name, Security: ms.Own, NoSecurity: ms.NoSec,
		Result: &dg.Attr{T: dg.Prim("String")},
		HTTP:   &dg.HTTPMap{Routes: []dg.Route{{Verb: "POST", Path: "/" + s.Name + "/" + ms.Name}}}}
	kinds := kindsOf(d, declaredReqs(d, s, ms.Own, ms.NoSec))
	var fs []*dg.Field
	for _, a := range credAttrs(kinds) {
		switch a {
		case attrUser:
			fs = append(fs, credField(a, "Username", "", ms.Required))
		case attrPass:
			fs = append(fs, credField(a, "Password", "", ms.Required))
		case attrKey:
			fs = append(fs, credField(a, "APIKey", apiKeyName(d), ms.Required))
		case attrToken:
			fs = append(fs, credField(a, "Token", "", ms.Required))
		case attrAToken:
			fs = append(fs, credField(a, "AccessToken", "", ms.Required))
		}
	}
	if len(fs) == 0 {
		return m
	}
	fs = append(fs, dg.F("note", dg.Prim("String")))
	p := dg.A(dg.Obj(fs...))
	m.Payload = &p
	for _, a := range credAttrs(kinds) {
		if a == attrUser || a == attrPass {
			continue
		}
		loc := ms.Locs[a]
		switch {
		case strings.HasPrefix(loc, "header:"):
			m.HTTP.Headers = append(m.HTTP.Headers, dg.MapEntry{Attr: a, Wire: strings.TrimPrefix(loc, "header:")})
		case strings.HasPrefix(loc, "query:"):
			m.HTTP.Params = append(m.HTTP.Params, dg.MapEntry{Attr: a, Wire: strings.TrimPrefix(loc, "query:")})
		case loc == "body":
			// the body is this one attribute (Body("attr")); everything else must be mapped elsewhere
			m.HTTP.Body = &dg.BodySpec{Attr: a}
		case loc == "inline-body":
			// Body(func() { Attribute(a); Attribute("note") })
			m.HTTP.Body = &dg.BodySpec{Attrs: []string{a, "note"}}
		}
	}
	if m.HTTP.Body != nil && m.HTTP.Body.Attr != "" {
		m.HTTP.Params = append(m.HTTP.Params, dg.MapEntry{Attr: "note", Wire: "note"})
	}
	return m
}

// locOf gives the location of a credential attribute of a built method (implicit when unmapped).
func locOf(ms methodSpec, attr string) string {
	if l, ok := ms.Locs[attr]; ok && l != "" {
		return l
	}
	return "implicit"
}

// ---- random tier-B designs ----

var scopePool = map[string][]string{
	"basic":  {"b:r", "b:w"},
	"apikey": {"k:use", "k:admin"},
	"jwt":    {"api:read", "api:write", "api:admin"},
	"oauth2": {"o:x", "o:y"},
}

var schemeNames = map[string]string{"basic": "bas", "apikey": "key", "jwt": "jwt", "oauth2": "oa"}

func subset(r *vh.RNG, xs []string) []string {
	var out []string
	for _, x := range xs {
		if r.Bool() {
			out = append(out, x)
		}
	}
	return out
}

func genReqs(r *vh.RNG, d *dg.Design, n int) []dg.Requirement {
	var reqs []dg.Requirement
	for i := 0; i < n; i++ {
		k := 1
		if len(d.Schemes) > 1 && r.Chance(3, 5) {
			k = 2
		}
		n := len(d.Schemes)
		first := r.Intn(n)
		var req dg.Requirement
		req.Schemes = append(req.Schemes, d.Schemes[first].Name)
		pool := append([]string{}, d.Schemes[first].Scopes...)
		if k == 2 {
			second := (first + 1 + r.Intn(n-1)) % n
			req.Schemes = append(req.Schemes, d.Schemes[second].Name)
			pool = append(pool, d.Schemes[second].Scopes...)
		}
		req.Scopes = subset(r, pool)
		reqs = append(reqs, req)
	}
	return reqs
}

// genLocs picks a location per credential attribute so that no two credentials share
// an HTTP location (Basic owns Authorization when present).
func genLocs(r *vh.RNG, kinds map[string]bool) map[string]string {
	locs := map[string]string{}
	implicitFree := !kinds["basic"]
	bodyFree := true
	var attrs []string
	for _, a := range credAttrs(kinds) {
		if a != attrUser && a != attrPass {
			attrs = append(attrs, a)
		}
	}
	// visit in a random order so that the implicit slot is not always taken by the same kind
	for i := len(attrs) - 1; i > 0; i-- {
		j := r.Intn(i + 1)
		attrs[i], attrs[j] = attrs[j], attrs[i]
	}
	// header-carried credentials may share one header (alternative schemes reading the same
	// Authorization / X-Auth header): the client can then send a single value for the group
	var lastHeader string // "" = none yet, "implicit" or "header:<Name>"
	share := r.Chance(1, 3)
	for _, a := range attrs {
		c := r.Intn(5)
		if share && lastHeader != "" && c != 2 && c != 3 {
			if lastHeader != "implicit" {
				locs[a] = lastHeader
			}
			continue
		}
		switch {
		case c <= 1 && implicitFree:
			implicitFree = false // unmapped: goa puts it in Authorization
			lastHeader = "implicit"
		case c == 2:
			locs[a] = "query:q" + a
		case c == 3 && bodyFree:
			bodyFree = false
			locs[a] = "body"
			if r.Bool() {
				locs[a] = "inline-body" // Body(func() { Attribute(a); Attribute("note") })
			}
		default:
			locs[a] = "header:X-" + strings.ToUpper(a[:1]) + a[1:]
			lastHeader = locs[a]
		}
	}
	return locs
}

type builtDesign struct {
	D     *dg.Design
	Specs map[string]methodSpec // "svc/method"
}

func randomDesign(r *vh.RNG, idx int) *builtDesign {
	d := &dg.Design{Name: fmt.Sprintf("sec%d", idx)}
	kinds := []string{"basic", "apikey", "jwt", "oauth2"}
	for len(d.Schemes) == 0 {
		for _, k := range kinds {
			if r.Chance(7, 10) {
				sc := dg.Scheme{Kind: k, Name: schemeNames[k], Scopes: subset(r, scopePool[k])}
				d.Schemes = append(d.Schemes, sc)
			}
		}
	}
	if r.Chance(1, 2) {
		d.Security = genReqs(r, d, 1+r.Intn(3))
		d.Features = append(d.Features, "api_security")
	}
	bd := &builtDesign{D: d, Specs: map[string]methodSpec{}}
	nsvc := 1 + r.Intn(2)
	for si := 0; si < nsvc; si++ {
		s := &dg.Service{Name: fmt.Sprintf("svc%d", si)}
		if r.Chance(1, 2) {
			s.Security = genReqs(r, d, 1+r.Intn(3))
			d.Features = append(d.Features, "service_security")
		}
		if r.Bool() {
			s.Errors = []dg.ErrorDef{{Name: "unauthorized"}}
			s.HTTPErrs = []dg.ErrResponse{{Name: "unauthorized", R: dg.Response{Status: 401}}}
			d.Features = append(d.Features, "declared_unauthorized")
		}
		specs := []methodSpec{
			{Name: "own", Own: genReqs(r, d, 1+r.Intn(3))},
			{Name: "inherit"},
			{Name: "inherit2"}, // siblings inheriting the same requirement, each with its own credential locations
			{Name: "open", NoSec: true},
		}
		if r.Bool() {
			specs = append(specs, methodSpec{Name: "inherit3"})
		}
		if r.Bool() {
			specs = append(specs, methodSpec{Name: "own2", Own: genReqs(r, d, 1+r.Intn(3))})
		}
		if r.Chance(1, 3) {
			specs = append(specs, methodSpec{Name: "open_own", NoSec: true, Own: genReqs(r, d, 1+r.Intn(2))})
		}
		for _, ms := range specs {
			ms.Required = r.Bool()
			ms.Locs = genLocs(r, kindsOf(d, declaredReqs(d, s, ms.Own, ms.NoSec)))
			s.Methods = append(s.Methods, buildMethod(d, s, ms))
			bd.Specs[s.Name+"/"+ms.Name] = ms
		}
		d.Services = append(d.Services, s)
	}
	return bd
}

// coveringDesigns: fixed, seed-independent designs met by every run.
func coveringDesigns() []*builtDesign {
	var out []*builtDesign
	// 0: all four kinds, three alternative requirements, every location class
	{
		d := &dg.Design{Name: "cover0", Schemes: []dg.Scheme{
			{Kind: "basic", Name: "bas", Scopes: []string{"b:r"}}, {Kind: "apikey", Name: "key", Scopes: []string{"k:use"}},
			{Kind: "jwt", Name: "jwt", Scopes: []string{"api:read", "api:write"}}, {Kind: "oauth2", Name: "oa", Scopes: []string{"o:x"}}}}
		d.Security = []dg.Requirement{{Schemes: []string{"oa"}, Scopes: []string{"o:x"}}}
		s := &dg.Service{Name: "svc", Security: []dg.Requirement{{Schemes: []string{"jwt"}, Scopes: []string{"api:read"}}, {Schemes: []string{"key"}}}}
		s2 := &dg.Service{Name: "plain"}
		bd := &builtDesign{D: d, Specs: map[string]methodSpec{}}
		three := []dg.Requirement{{Schemes: []string{"bas", "key"}, Scopes: []string{"b:r"}}, {Schemes: []string{"jwt", "key"}, Scopes: []string{"api:write", "k:use"}}, {Schemes: []string{"oa"}}}
		add := func(s *dg.Service, ms methodSpec) {
			s.Methods = append(s.Methods, buildMethod(d, s, ms))
			bd.Specs[s.Name+"/"+ms.Name] = ms
		}
		add(s, methodSpec{Name: "three", Own: three, Required: false, Locs: map[string]string{attrKey: "header:X-Key", attrToken: "query:t", attrAToken: "body"}})
		add(s, methodSpec{Name: "bearer", Own: []dg.Requirement{{Schemes: []string{"jwt"}, Scopes: []string{"api:write"}}, {Schemes: []string{"oa", "key"}}}, Required: true,
			Locs: map[string]string{attrKey: "query:k", attrAToken: "header:X-Access"}})
		add(s, methodSpec{Name: "inherit", Required: true, Locs: map[string]string{attrKey: "header:X-Key"}})
		add(s, methodSpec{Name: "open", NoSec: true})
		add(s, methodSpec{Name: "open_own", NoSec: true, Own: three, Locs: map[string]string{attrKey: "header:X-Key", attrToken: "query:t", attrAToken: "body"}})
		add(s2, methodSpec{Name: "from_api", Required: false})                                                  // OAuth2 token in the implicit Authorization header
		add(s2, methodSpec{Name: "keyauth", Own: []dg.Requirement{{Schemes: []string{"key"}}}, Required: true}) // API key in the implicit Authorization header
		add(s2, methodSpec{Name: "open", NoSec: true})
		// inline body listing one credential, the other one left to the implicit Authorization header
		add(s2, methodSpec{Name: "inline_implicit", Own: []dg.Requirement{{Schemes: []string{"key"}}, {Schemes: []string{"oa"}}}, Locs: map[string]string{attrAToken: "inline-body"}})
		d.Services = []*dg.Service{s, s2}
		out = append(out, bd)
	}
	// 1: no API/service requirements: methods without Security are unsecured; declared "unauthorized" error
	{
		d := &dg.Design{Name: "cover1", Schemes: []dg.Scheme{{Kind: "basic", Name: "bas"}, {Kind: "jwt", Name: "jwt", Scopes: []string{"api:read"}}}}
		s := &dg.Service{Name: "svc", Errors: []dg.ErrorDef{{Name: "unauthorized"}}, HTTPErrs: []dg.ErrResponse{{Name: "unauthorized", R: dg.Response{Status: 401}}}}
		bd := &builtDesign{D: d, Specs: map[string]methodSpec{}}
		add := func(ms methodSpec) {
			s.Methods = append(s.Methods, buildMethod(d, s, ms))
			bd.Specs[s.Name+"/"+ms.Name] = ms
		}
		add(methodSpec{Name: "basic_only", Own: []dg.Requirement{{Schemes: []string{"bas"}}}, Required: true})
		add(methodSpec{Name: "either", Own: []dg.Requirement{{Schemes: []string{"jwt"}}, {Schemes: []string{"bas"}}}, Required: false, Locs: map[string]string{attrToken: "header:X-Jwt"}})
		add(methodSpec{Name: "both", Own: []dg.Requirement{{Schemes: []string{"jwt", "bas"}, Scopes: []string{"api:read"}}}, Required: true, Locs: map[string]string{attrToken: "body"}})
		add(methodSpec{Name: "inline_body", Own: []dg.Requirement{{Schemes: []string{"jwt", "bas"}}}, Required: false, Locs: map[string]string{attrToken: "inline-body"}})
		add(methodSpec{Name: "none"})
		add(methodSpec{Name: "open", NoSec: true})
		d.Services = []*dg.Service{s}
		out = append(out, bd)
	}
	// 2: two or three header-carried schemes sharing one header
	{
		d := &dg.Design{Name: "cover2", Schemes: []dg.Scheme{{Kind: "apikey", Name: "key"},
			{Kind: "jwt", Name: "jwt", Scopes: []string{"api:read"}}, {Kind: "oauth2", Name: "oa", Scopes: []string{"o:x"}}}}
		s := &dg.Service{Name: "svc"}
		bd := &builtDesign{D: d, Specs: map[string]methodSpec{}}
		add := func(ms methodSpec) {
			s.Methods = append(s.Methods, buildMethod(d, s, ms))
			bd.Specs[s.Name+"/"+ms.Name] = ms
		}
		one := func(n string) dg.Requirement { return dg.Requirement{Schemes: []string{n}} }
		add(methodSpec{Name: "alt_bearer", Own: []dg.Requirement{one("jwt"), one("oa")}})                                                      // both on the implicit Authorization header
		add(methodSpec{Name: "both_bearer", Own: []dg.Requirement{{Schemes: []string{"jwt", "oa"}, Scopes: []string{"o:x"}}}, Required: true}) // same, one requirement
		add(methodSpec{Name: "three_share", Own: []dg.Requirement{one("oa"), one("key"), one("jwt")}})                                         // three schemes, one implicit header
		add(methodSpec{Name: "explicit_share", Own: []dg.Requirement{{Schemes: []string{"jwt", "key"}}, one("oa")}, Required: true,
			Locs: map[string]string{attrToken: "header:X-Auth", attrKey: "header:X-Auth", attrAToken: "query:at"}})
		add(methodSpec{Name: "alt_explicit", Own: []dg.Requirement{one("key"), one("jwt")},
			Locs: map[string]string{attrToken: "header:X-Auth", attrKey: "header:X-Auth"}})
		add(methodSpec{Name: "explicit_authorization", Own: []dg.Requirement{one("key"), one("oa")},
			Locs: map[string]string{attrAToken: "header:Authorization", attrKey: "header:Authorization"}})
		d.Services = []*dg.Service{s}
		out = append(out, bd)
	}
	// 3: siblings inheriting one service-level / API-level requirement, each mapping the
	// credentials to different places (whichever endpoint goa finalizes last must not decide for the others)
	{
		d := &dg.Design{Name: "cover3", Schemes: []dg.Scheme{{Kind: "apikey", Name: "key"},
			{Kind: "jwt", Name: "jwt", Scopes: []string{"api:read"}}, {Kind: "oauth2", Name: "oa", Scopes: []string{"o:x"}}}}
		d.Security = []dg.Requirement{{Schemes: []string{"oa"}}, {Schemes: []string{"key"}}}
		s := &dg.Service{Name: "svc", Security: []dg.Requirement{{Schemes: []string{"jwt"}, Scopes: []string{"api:read"}}, {Schemes: []string{"key"}}}}
		s2 := &dg.Service{Name: "apilevel"}
		bd := &builtDesign{D: d, Specs: map[string]methodSpec{}}
		add := func(s *dg.Service, ms methodSpec) {
			s.Methods = append(s.Methods, buildMethod(d, s, ms))
			bd.Specs[s.Name+"/"+ms.Name] = ms
		}
		add(s, methodSpec{Name: "in_query", Locs: map[string]string{attrToken: "query:t", attrKey: "header:X-Key"}})
		add(s, methodSpec{Name: "in_header", Required: true, Locs: map[string]string{attrKey: "query:k"}}) // token: implicit Authorization
		add(s, methodSpec{Name: "in_body", Locs: map[string]string{attrToken: "body", attrKey: "header:X-Other"}})
		add(s, methodSpec{Name: "in_xheader", Locs: map[string]string{attrToken: "header:X-Jwt", attrKey: "body"}})
		add(s2, methodSpec{Name: "in_query", Required: true, Locs: map[string]string{attrAToken: "query:at", attrKey: "header:X-Key"}})
		add(s2, methodSpec{Name: "in_header", Locs: map[string]string{attrKey: "query:k"}}) // atoken: implicit Authorization
		add(s2, methodSpec{Name: "in_body", Locs: map[string]string{attrAToken: "body", attrKey: "query:kk"}})
		d.Services = []*dg.Service{s, s2}
		out = append(out, bd)
	}
	return out
}

// ---- names ----

var coqKind = map[string]string{"basic": "Basic", "apikey": "APIKey", "jwt": "JWT", "oauth2": "OAuth2", "": "NoKind"}

func sortedKeys(m map[string]bool) []string {
	var ks []string
	for k := range m {
		ks = append(ks, k)
	}
	sort.Strings(ks)
	return ks
}
