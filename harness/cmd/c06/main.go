package main

import (
	"encoding/json"
	"fmt"
	"os"

	"goa.design/goa/v3/codegen/service"
	"goa.design/goa/v3/expr"

	dg "verifharness/designgen"
	"verifharness/tierb"
	"verifharness/tierb/rt"
)

func sfield(name, fn, scheme string, req bool) *dg.Field {
	return &dg.Field{Name: name, A: dg.Attr{T: dg.Prim("String"), Sec: &dg.SecAttrKind{Fn: fn, Scheme: scheme}}, Required: req}
}

func main() {
	out := "/tmp/c06spike"
	b, err := tierb.NewBatch(out+"/tb", "/repo", "/verif/harness")
	if err != nil {
		panic(err)
	}
	b.Env = os.Environ()
	d := &dg.Design{Name: "spike",
		Schemes: []dg.Scheme{{Kind: "basic", Name: "bas", Scopes: []string{"b:r"}}, {Kind: "apikey", Name: "ka"}, {Kind: "apikey", Name: "kb"}, {Kind: "jwt", Name: "jw", Scopes: []string{"api:read", "api:write"}}, {Kind: "oauth2", Name: "oa", Scopes: []string{"o:x"}}},
		Services: []*dg.Service{{Name: "svc", Methods: []*dg.Method{{
			Name: "m",
			Security: []dg.Requirement{{Schemes: []string{"bas", "ka"}, Scopes: []string{"b:r"}}, {Schemes: []string{"jw", "kb"}, Scopes: []string{"api:write"}}, {Schemes: []string{"oa"}}},
			Payload: &dg.Attr{T: dg.Obj(sfield("user", "Username", "", false), sfield("pass", "Password", "", false), sfield("key_a", "APIKey", "ka", false), sfield("key_b", "APIKey", "kb", false),
				sfield("token", "Token", "", false), sfield("atoken", "AccessToken", "", false), dg.F("x", dg.Prim("Int")))},
			Result: &dg.Attr{T: dg.Prim("String")},
			HTTP: &dg.HTTPMap{Routes: []dg.Route{{Verb: "POST", Path: "/m"}}, Headers: []dg.MapEntry{{Attr: "key_a", Wire: "X-Key-A"}}, Params: []dg.MapEntry{{Attr: "key_b", Wire: "kb"}, {Attr: "atoken", Wire: "at"}}},
		}, {Name: "open", NoSecurity: true, Result: &dg.Attr{T: dg.Prim("String")}, HTTP: &dg.HTTPMap{Routes: []dg.Route{{Verb: "GET", Path: "/open"}}}}}}},
	}
	bu, oc := b.Add(d, func(root *expr.RootExpr, bu *tierb.Built) {
		sd := service.Services.Get("svc")
		for _, m := range sd.Methods {
			for _, r := range m.Requirements {
				for _, s := range r.Schemes {
					fmt.Println(m.Name, s.Type, s.SchemeName, s.Scopes, r.Scopes, s.In, s.Name)
				}
			}
		}
	})
	fmt.Println(bu != nil, oc.Err, oc.Panic)
	if bu != nil {
		fmt.Println("generr", bu.GenErr)
	}
	if err := b.Build(); err != nil {
		panic(err)
	}
	fmt.Println("dropped", bu.Dropped, bu.BuildErr)
	str := func(s string) *rt.Tree { return &rt.Tree{K: "string", S: s} }
	pl := func(m map[string]string) *rt.Tree {
		t := &rt.Tree{K: "struct"}
		for k, v := range m {
			t.Names = append(t.Names, dg.GoField(k))
			t.Elems = append(t.Elems, str(v))
		}
		return t
	}
	steps := []rt.Step{
		{ID: 0, Design: bu.Key, Service: "svc", Method: "m", Payload: pl(map[string]string{"user": "u", "pass": "p", "key_a": "KA", "key_b": "K B", "token": "tok", "atoken": "a t"}), Result: str("ok")},
		{ID: 1, Design: bu.Key, Service: "svc", Method: "m", Payload: pl(map[string]string{"user": "u:v", "pass": "p", "key_a": "K A", "key_b": "KB", "token": "t ok", "atoken": "at"}), Result: str("ok"), Auth: map[string]bool{"ka": false, "kb": false}},
		{ID: 2, Design: bu.Key, Service: "svc", Method: "m", Payload: pl(map[string]string{"user": "", "pass": "", "key_a": "KA", "key_b": "KB", "token": "", "atoken": "at"}), Result: str("ok"), Auth: map[string]bool{"bas": false, "jw": false, "oa": false}},
		{ID: 3, Design: bu.Key, Service: "svc", Method: "open", Result: str("ok")},
		{ID: 4, Design: bu.Key, Service: "svc", Method: "m", Payload: pl(map[string]string{"key_a": "KA"}), Result: str("ok"), Auth: map[string]bool{"bas": false, "jw": false, "oa": false}},
	}
	obs, err := b.Run(steps)
	fmt.Println(err)
	for i := range steps {
		bs, _ := json.Marshal(obs[i])
		fmt.Println(string(bs))
	}
}
