// Command c06 checks property C06 (secured methods run only after a security
// requirement is satisfied) on the real goa code.
//
// Tier A: ~500 placements of requirements (API / service / method x NoSecurity) built
// through the real DSL; MethodExpr.Requirements after evaluation and the service data
// are compared with the design's own reading and written as Coq terms for
// Security.effective_reqs / data_reqs.
//
// Tier B: designs with 1-3 alternative requirements of 1-2 schemes over Basic / API key
// / JWT / OAuth2, credentials in the implicit Authorization header, an explicit header,
// the query string or the body, are generated, compiled and run: for every accept /
// reject vector of the callbacks x 12 credential values the recording Auther's calls,
// whether the method ran and the error the client got are judged by the property's own
// laws (direct oracle) and written as Coq terms for Security.run. The generated
// endpoint functions are parsed back into the model's mini-AST (structural tie).
package main

import (
	"encoding/json"
	"flag"
	"fmt"
	"os"
	"path/filepath"
	"sort"
	"strings"

	dg "verifharness/designgen"
	"verifharness/tierb"
	"verifharness/tierb/rt"
	"verifharness/vh"
)

type witness struct {
	Design, Service, Method string
	Attr, Value             string
	Sig                     string   // "" = edge case expected to hold
	Rejects                 []string // schemes scripted to reject so that the credential's scheme is consulted
}

var witnesses = []witness{
	{"cover0", "svc", "bearer", attrToken, "a b", "bearer-token-with-space", nil},
	{"cover0", "svc", "bearer", attrToken, "", "bearer-token-empty", nil},
	{"cover0", "plain", "from_api", attrAToken, "x y z", "bearer-token-with-space", nil},
	{"cover0", "plain", "from_api", attrAToken, "", "bearer-token-empty", nil},
	{"cover0", "svc", "bearer", attrAToken, "p q", "bearer-token-with-space", []string{"jwt"}},
	{"cover0", "svc", "three", attrKey, "K 1", "header-apikey-with-space", nil},
	{"cover0", "plain", "keyauth", attrKey, "Key abc", "header-apikey-with-space", nil},
	{"cover0", "svc", "bearer", attrToken, "tok\t", "header-credential-trimmed", nil},
	// edge cases inside the hypotheses: spaces are harmless outside headers, and in Basic credentials
	{"cover0", "svc", "three", attrToken, "a b c", "", []string{"bas"}},
	{"cover0", "svc", "three", attrAToken, " lead trail ", "", []string{"bas", "jwt"}},
	{"cover0", "svc", "bearer", attrKey, "q k\t", "", []string{"jwt"}},
	// a user name holding ':' cannot be sent (RFC 7617): the client must refuse it, nothing reaches the server
	{"cover1", "svc", "basic_only", attrUser, "a:b", "", nil},
	{"cover1", "svc", "both", attrUser, ":", "", nil},
	{"cover1", "svc", "either", attrUser, "x:", "", []string{"jwt"}},
	{"cover1", "svc", "inline_body", attrToken, "to k", "", nil},
	{"cover1", "svc", "basic_only", attrUser, "us er", "", nil},
	{"cover1", "svc", "basic_only", attrPass, "p:w d ", "", nil},
	{"cover1", "svc", "basic_only", attrPass, "", "", nil},
	{"cover1", "svc", "both", attrToken, "in body", "", nil},
	// inherited requirement, credential in the query / body of THIS method while siblings use a header: untouched
	{"cover3", "svc", "in_query", attrToken, "Bearer a b", "", nil},
	{"cover3", "svc", "in_body", attrToken, "x y", "", nil},
	{"cover3", "svc", "in_header", attrKey, "k 1 2", "", []string{"jwt"}},
	{"cover3", "apilevel", "in_query", attrAToken, "Bearer t", "", nil},
	{"cover3", "apilevel", "in_body", attrKey, "q r", "", []string{"oa"}},
}

func main() {
	seed := flag.Uint64("seed", 1, "")
	tier := flag.String("tier", "quick", "")
	out := flag.String("out", ".", "")
	repo := flag.String("repo", "/repo", "")
	harness := flag.String("harness", "/verif/harness", "")
	replay := flag.String("replay", "", "")
	flag.Parse()
	rng := vh.NewRNG(*seed)
	res := vh.NewResult()
	distinct := vh.Distinct{}

	var replayIn map[string]any
	if *replay != "" {
		b, err := os.ReadFile(*replay)
		if err != nil {
			panic(err)
		}
		var rf struct {
			Input map[string]any `json:"input"`
		}
		if err := json.Unmarshal(b, &rf); err != nil || rf.Input == nil {
			fmt.Println("replay file has no input")
			os.Exit(2)
		}
		replayIn = rf.Input
	}

	// ---------------- tier A ----------------
	var inhLines, insLines []string
	if replayIn == nil {
		inhLines, insLines = tierA(res, *out, distinct, nil)
	} else if replayIn["tier"] == "A" {
		var d dg.Design
		db, _ := json.Marshal(replayIn["design"])
		if err := json.Unmarshal(db, &d); err != nil {
			panic(err)
		}
		inhLines, insLines = tierA(res, *out, distinct, &d)
	}
	writeLines(filepath.Join(*out, "cases_inherit.txt"), inhLines)
	writeLines(filepath.Join(*out, "cases_ins.txt"), insLines)

	// ---------------- tier B ----------------
	nDesigns, nVals := 6, 12 // random designs on top of the 4 covering ones
	if *tier == "thorough" {
		nDesigns, nVals = 100, 12
	}
	b, err := tierb.NewBatch(filepath.Join(*out, "tb"), *repo, *harness)
	if err != nil {
		panic(err)
	}
	b.Env = os.Environ()
	var infos []*methodInfo
	designs := map[string]*dg.Design{}
	var replayEx *exchange
	if replayIn != nil {
		// replay of one exchange (tier B) or one placement (tier A: re-evaluated as a design of the batch)
		var d dg.Design
		db, _ := json.Marshal(replayIn["design"])
		if err := json.Unmarshal(db, &d); err != nil {
			panic(err)
		}
		if replayIn["tier"] != "A" {
			addDesign(b, res, &builtDesign{D: &d}, &infos)
		}
		designs[d.Name] = &d
		if replayIn["tier"] == "B" {
			ex := exchange{Stream: "replay", Design: d.Name, Service: fmt.Sprint(replayIn["service"]), Method: fmt.Sprint(replayIn["method"]), Creds: map[string]string{}}
			if xs, ok := replayIn["rejects"].([]any); ok {
				for _, x := range xs {
					ex.Rejects = append(ex.Rejects, fmt.Sprint(x))
				}
			}
			if cs, ok := replayIn["creds"].(map[string]any); ok {
				for k, v := range cs {
					ex.Creds[k] = fmt.Sprint(v)
				}
			}
			replayEx = &ex
		}
	} else {
		for _, bd := range coveringDesigns() {
			addDesign(b, res, bd, &infos)
			designs[bd.D.Name] = bd.D
		}
		for i := 0; len(b.Items) < nDesigns+4 && i < nDesigns*3; i++ {
			bd := randomDesign(rng.Fork(), i)
			if bu := addDesign(b, res, bd, &infos); bu != nil {
				designs[bd.D.Name] = bd.D
			}
		}
	}
	if err := b.Build(); err != nil {
		// a compiler killed by the (shared, loaded) machine: try once more before giving up
		res.Count("driver_build_retried")
		if err = b.Build(); err != nil {
			panic(err)
		}
	}
	dropped := map[string]bool{}
	for _, bu := range b.Items {
		if bu.Dropped {
			dropped[bu.Key] = true
			res.Count("tierB_design_dropped")
			res.Fail("generated-code-does-not-build", "a design of the C06 envelope was accepted but its generated code does not build: "+firstLine(bu.BuildErr+bu.GenErr),
				map[string]any{"tier": "B", "design": bu.Design, "build_error": bu.BuildErr, "gen_error": bu.GenErr})
			continue
		}
		res.Count("tierB_designs")
		for _, f := range bu.Design.Features {
			res.Count("feature=" + f)
		}
	}

	// definitions + structural tie
	var defs, shapeLines, stripLines []string
	for _, mi := range infos {
		if dropped[mi.Key] {
			continue
		}
		defs = append(defs, fmt.Sprintf("Definition R_%s : list requirement := %s.", mi.Def, coqReqs(mi.DataReqs)))
		defs = append(defs, fmt.Sprintf("Definition L_%s : locs := %s.", mi.Def, coqLocs(mi)))
		idx := len(shapeLines)
		shapeLines = append(shapeLines, fmt.Sprintf("(%d, R_%s, %s)", idx, mi.Def, mi.Shape))
		if mi.ShapeErr != "" {
			res.Count("endpoint_not_parsed")
			res.Extra["last_shape_error"] = mi.Def + ": " + mi.ShapeErr
		}
		res.Count(fmt.Sprintf("requirements=%d", len(mi.DataReqs)))
		// request decoder: which payload fields get their prefix stripped
		if mi.M.Payload != nil {
			want := expectedStrips(mi)
			as := make([]string, len(mi.Strips))
			for i, f := range mi.Strips {
				as[i] = coqAttr(mi, f)
			}
			if mi.StripErr != "" {
				as = []string{"AKey \"?unparsed\""}
				res.Count("decoder_not_parsed")
				res.Extra["last_strip_error"] = mi.Def + ": " + mi.StripErr
			}
			stripLines = append(stripLines, fmt.Sprintf("(%d, L_%s, R_%s, %s)", len(stripLines), mi.Def, mi.Def, vh.CoqList(as)))
			res.Evaluations++
			res.Count(fmt.Sprintf("header_credentials=%d", len(want)))
			if len(want) > 1 {
				g := map[string]bool{}
				for _, a := range payloadAttrs(mi.M) {
					if len(headerGroup(mi.M, a)) > 1 {
						g[wireLoc(mi.M, a)] = true
					}
				}
				if len(g) > 0 {
					res.Count("methods_with_shared_header")
				}
			}
			if mi.StripErr != "" || !sameStrs(mi.Strips, want) {
				res.Fail("decoder-strips-wrong-fields", fmt.Sprintf("%s.%s: the generated request decoder removes the scheme prefix from payload fields %v (%s); the header-carried credentials of the method's requirements are %v",
					mi.S.Name, mi.M.Name, mi.Strips, mi.StripErr, want), map[string]any{"tier": "B", "design": mi.D, "service": mi.S.Name, "method": mi.M.Name, "stripped_fields": mi.Strips, "expected_fields": want})
			}
		}
	}
	writeLines(filepath.Join(*out, "cases_strip.txt"), stripLines)
	writeLines(filepath.Join(*out, "defs.v"), defs)
	writeLines(filepath.Join(*out, "cases_shape.txt"), shapeLines)

	// steps
	var steps []rt.Step
	var exs []exchange
	var stepInfo []*methodInfo
	add := func(mi *methodInfo, ex exchange) {
		st := rt.Step{ID: len(steps), Design: mi.Key, Service: mi.S.Name, Method: mi.M.Name, Payload: payloadTree(mi.M, ex.Creds),
			Result: &rt.Tree{K: "string", S: "ok"}, Auth: map[string]bool{}}
		for _, n := range ex.Rejects {
			st.Auth[n] = false
		}
		ex.Key = mi.Key
		steps = append(steps, st)
		exs = append(exs, ex)
		stepInfo = append(stepInfo, mi)
	}
	find := func(design, svc, method string) *methodInfo {
		for _, mi := range infos {
			if mi.D.Name == design && mi.S.Name == svc && mi.M.Name == method && !dropped[mi.Key] {
				return mi
			}
		}
		return nil
	}
	if replayIn != nil {
		if replayEx != nil {
			if mi := find(replayEx.Design, replayEx.Service, replayEx.Method); mi != nil {
				add(mi, *replayEx)
			}
		}
	} else {
		for _, mi := range infos {
			if dropped[mi.Key] {
				continue
			}
			eff := effectiveReqs(mi.D, mi.S, mi.M)
			names := schemeNamesOf(eff)
			if len(eff) == 0 {
				for v := 0; v < 3; v++ {
					// callbacks scripted to reject: they must not be consulted at all
					var rej []string
					if v > 0 {
						for _, s := range mi.D.Schemes {
							rej = append(rej, s.Name)
						}
					}
					add(mi, exchange{Stream: "unsecured", Design: mi.D.Name, Service: mi.S.Name, Method: mi.M.Name, Rejects: rej, Creds: genCreds(rng, mi.M)})
				}
				continue
			}
			for vec := 0; vec < 1<<len(names); vec++ {
				var rej []string
				for i, n := range names {
					if vec&(1<<i) != 0 {
						rej = append(rej, n)
					}
				}
				for v := 0; v < nVals; v++ {
					add(mi, exchange{Stream: "main", Design: mi.D.Name, Service: mi.S.Name, Method: mi.M.Name, Rejects: rej, Creds: genCreds(rng, mi.M)})
				}
			}
		}
		for _, w := range witnesses {
			mi := find(w.Design, w.Service, w.Method)
			if mi == nil {
				res.Fail("witness-design-missing", "the design carrying a witness is not in the batch", map[string]any{"witness": w})
				continue
			}
			c := genCreds(rng, mi.M)
			c[w.Attr] = w.Value
			stream := "edge"
			if w.Sig != "" {
				stream = "witness:" + w.Sig
			}
			add(mi, exchange{Stream: stream, Design: mi.D.Name, Service: mi.S.Name, Method: mi.M.Name, Creds: c, Rejects: w.Rejects})
		}
	}
	obs, err := b.Run(steps)
	if err != nil {
		res.Extra["driver_error"] = err.Error()
	}
	var exLines, wireLines []string
	for i := range steps {
		ob := obs[steps[i].ID]
		mi, ex := stepInfo[i], exs[i]
		if ob == nil {
			res.Fail("driver-no-observation", "the driver produced no observation for a step", ex)
			continue
		}
		if ob.SetupErr != "" {
			res.Count("setup_err")
			res.Extra["last_setup_err"] = ob.SetupErr
			res.Fail("driver-setup-error", "the exchange could not be set up: "+ob.SetupErr, ex)
			continue
		}
		res.Evaluations++
		res.Count("stream=" + strings.SplitN(ex.Stream, ":", 2)[0])
		kb, _ := json.Marshal([]any{ex.Design, ex.Service, ex.Method, ex.Rejects, ex.Creds})
		if len(effectiveReqs(mi.D, mi.S, mi.M)) > 0 {
			distinct.Add(string(kb))
		}
		declared := false
		for _, e := range mi.S.Errors {
			if e.Name == "unauthorized" {
				declared = true
			}
		}
		before := len(res.Failures)
		idx := len(exLines)
		exLines = append(exLines, judge(res, idx, mi, ex, ob, declared))
		res.Cases = append(res.Cases, ex)
		// the request as built by the generated client, for the model's encode_wire: every exchange of the
		// witness / edge streams, and the main exchanges in which no callback is scripted to reject
		if len(effectiveReqs(mi.D, mi.S, mi.M)) > 0 && mi.M.Payload != nil && (ex.Stream != "main" || len(ex.Rejects) == 0) {
			wireLines = append(wireLines, wireCase(len(wireLines), mi, ex, ob))
			res.Count("wire_cases")
		}
		if strings.HasPrefix(ex.Stream, "witness:") {
			want := strings.TrimPrefix(ex.Stream, "witness:")
			got := false
			for _, f := range res.Failures[before:] {
				if f.Signature == want {
					got = true
				}
			}
			if !got {
				res.Fail("finding-not-reproduced:"+want, "the recorded finding "+want+" did not show on its witness", map[string]any{"tier": "B", "design": mi.D, "service": ex.Service, "method": ex.Method, "rejects": ex.Rejects, "creds": ex.Creds})
			}
		}
		if ob.Invoked > 0 {
			res.Count("outcome=invoked")
		} else {
			res.Count("outcome=refused")
		}
		res.Count(fmt.Sprintf("callbacks=%d", len(ob.AuthCalls)))
		if ex.Stream == "main" {
			res.Sample(map[string]any{"tier": "B", "method": ex.Service + "." + ex.Method, "rejects": ex.Rejects, "creds": ex.Creds, "calls": ob.AuthCalls, "invoked": ob.Invoked}, 4)
		}
	}
	writeLines(filepath.Join(*out, "cases_exchange.txt"), exLines)
	writeLines(filepath.Join(*out, "cases_wire.txt"), wireLines)
	res.Extra["designs"] = designs
	res.Distinct = len(distinct)
	res.Rule = "tier A: 6 requirement-list variants at each of API / service / method x NoSecurity (every combination) evaluated through the real DSL; " +
		"tier B: 2 fixed covering designs + seed-driven designs (1-4 schemes, one per kind; API/service/method placements; credentials implicit / header / query / body), " +
		"per secured method all 2^k callback verdict vectors x 12 credential tuples drawn non-empty, without space/tab, user names without ':' (printable ASCII + UTF-8); " +
		"witness stream re-demonstrates each recorded finding; non-trivial = placement or exchange of a method with at least one requirement or a NoSecurity override; distinct = distinct (placement) + distinct (design, method, verdict vector, credentials)"
	keys := make([]string, 0, len(res.Dist))
	for k := range res.Dist {
		keys = append(keys, k)
	}
	sort.Strings(keys)
	if err := res.Write(filepath.Join(*out, "result.json")); err != nil {
		panic(err)
	}
}

func writeLines(path string, lines []string) {
	s := strings.Join(lines, "\n")
	if len(lines) > 0 {
		s += "\n"
	}
	if err := os.WriteFile(path, []byte(s), 0o644); err != nil {
		panic(err)
	}
}
