package main

import (
	"encoding/base64"
	"encoding/json"
	"fmt"
	"net/http"
	"net/url"
	"os"
	"path/filepath"
	"strings"

	"goa.design/goa/v3/codegen/service"
	"goa.design/goa/v3/expr"

	dg "verifharness/designgen"
	"verifharness/tierb"
	"verifharness/tierb/rt"
	"verifharness/vh"
)

// methodInfo is what the harness keeps per (design, service, method) of the batch.
type methodInfo struct {
	Key      string // d0
	D        *dg.Design
	S        *dg.Service
	M        *dg.Method
	DataReqs []sreq // service.MethodData.Requirements, read while expr.Root was live
	VarName  string
	PathName string
	Def      string // suffix of the Coq definitions R_<Def>, L_<Def>
	Shape    string // parsed endpoint body (Coq term) or ""
	ShapeErr string
	Strips   []string // payload fields the generated request decoder strips a prefix from
	StripErr string
}

// step description kept for replays and the Cases table
type exchange struct {
	Stream  string            `json:"stream"` // main | unsecured | witness:<signature> | edge
	Design  string            `json:"design"` // design name (designs are in extra.designs)
	Key     string            `json:"key"`
	Service string            `json:"service"`
	Method  string            `json:"method"`
	Rejects []string          `json:"rejects"`
	Creds   map[string]string `json:"creds"`
}

// locFromMethod: where the design puts a credential attribute.
func locFromMethod(m *dg.Method, attr string) string {
	if m.HTTP != nil {
		for _, h := range m.HTTP.Headers {
			if h.Attr == attr {
				return "header:" + h.Wire
			}
		}
		for _, p := range m.HTTP.Params {
			if p.Attr == attr {
				return "query:" + p.Wire
			}
		}
		if m.HTTP.Body != nil {
			if m.HTTP.Body.Attr == attr {
				return "body"
			}
			for _, a := range m.HTTP.Body.Attrs {
				if a == attr {
					return "inline-body"
				}
			}
		}
	}
	return "implicit"
}

func payloadAttrs(m *dg.Method) []string {
	var out []string
	if m.Payload == nil {
		return nil
	}
	for _, f := range m.Payload.T.Attrs {
		if f.A.Sec != nil {
			out = append(out, f.Name)
		}
	}
	return out
}

func hasAttr(m *dg.Method, a string) bool {
	for _, x := range payloadAttrs(m) {
		if x == a {
			return true
		}
	}
	return false
}

// coqLoc renders the model's location of a single-valued credential attribute.
func coqLoc(mi *methodInfo, attr, kind string) string {
	l := wireLoc(mi.M, attr)
	switch {
	case strings.HasPrefix(l, "header:"):
		if strings.EqualFold(l, "header:Authorization") && bearerHeader(mi) {
			return "(LHeader true)"
		}
		return "(LHeader false)"
	case strings.HasPrefix(l, "query:"):
		return "LQuery"
	}
	return "LBody"
}

func coqLocs(mi *methodInfo) string {
	keys := "[]"
	if n := apiKeyName(mi.D); n != "" {
		keys = fmt.Sprintf("[(%s, %s)]", vh.CoqString(n), coqLoc(mi, attrKey, "apikey"))
	}
	return fmt.Sprintf("mk_locs %s %s %s", coqLoc(mi, attrToken, "jwt"), coqLoc(mi, attrAToken, "oauth2"), keys)
}

func coqBs(s string) string {
	if s == "" {
		return "[]"
	}
	return vh.CoqBytes(s) + "%N" // binary numerals: unary nat literals up to 255 make the case files heavy
}

func coqCreds(mi *methodInfo, c map[string]string) string {
	v := func(a string) string {
		if !hasAttr(mi.M, a) {
			return "[]"
		}
		return coqBs(credValue(mi.M, c, a))
	}
	keys := "[]"
	if n := apiKeyName(mi.D); n != "" && hasAttr(mi.M, attrKey) {
		keys = fmt.Sprintf("[(%s, %s)]", vh.CoqString(n), v(attrKey))
	}
	return fmt.Sprintf("mk_creds %s %s %s %s %s", v(attrUser), v(attrPass), v(attrToken), v(attrAToken), keys)
}

// ---- credential values ----

var credCorpus = []string{"x", "Bearer", "Basic", "a=b&c;d", "%41%2Fz", `"q"\`, "tok.en-123_~", "é中Ω", "😀k", "+/=?#", "0"}
var multi = []string{"é", "ß", "中", "Ω", "ñ", "😀", "ж"}

// safeCred: non-empty, no space, no tab, printable ASCII and valid UTF-8 (inside the
// hypotheses of bearer_roundtrip_partial / basic_roundtrip_partial).
func safeCred(r *vh.RNG, noColon bool) string {
	if r.Chance(1, 4) {
		s := vh.Pick(r, credCorpus)
		return s
	}
	n := 1 + r.Intn(16)
	var b strings.Builder
	for i := 0; i < n; i++ {
		if r.Chance(1, 8) {
			b.WriteString(vh.Pick(r, multi))
			continue
		}
		c := byte(0x21 + r.Intn(0x7e-0x21+1))
		if noColon && c == ':' {
			c = ';'
		}
		b.WriteByte(c)
	}
	return b.String()
}

// wireLoc: the HTTP location a credential attribute travels in (implicit = the Authorization header).
func wireLoc(m *dg.Method, attr string) string {
	l := locFromMethod(m, attr)
	if l == "implicit" {
		return "header:Authorization"
	}
	return l
}

// headerGroup lists the single-valued credential attributes of the payload that share attr's
// header (attr included); nil when attr does not travel in a header.
func headerGroup(m *dg.Method, attr string) []string {
	if attr == attrUser || attr == attrPass {
		return nil
	}
	w := wireLoc(m, attr)
	if !strings.HasPrefix(w, "header:") {
		return nil
	}
	var g []string
	for _, a := range payloadAttrs(m) {
		if a != attrUser && a != attrPass && strings.EqualFold(wireLoc(m, a), w) {
			g = append(g, a)
		}
	}
	return g
}

func fieldRequired(m *dg.Method, attr string) bool {
	for _, f := range m.Payload.T.Attrs {
		if f.Name == attr {
			return f.Required
		}
	}
	return false
}

// genCreds draws the credentials given to the client. Attributes that share one header get
// one value (a header carries a single value); when they are optional, sometimes only one of
// them is set at all (a client holding just one of the alternative tokens).
func genCreds(r *vh.RNG, m *dg.Method) map[string]string {
	c := map[string]string{}
	for _, a := range payloadAttrs(m) {
		if _, done := c[a]; done {
			continue
		}
		g := headerGroup(m, a)
		if len(g) < 2 {
			c[a] = safeCred(r, a == attrUser)
			continue
		}
		v := safeCred(r, false)
		for _, x := range g {
			c[x] = v
		}
	}
	// second pass: drop all but one member of an optional shared group
	seen := map[string]bool{}
	for _, a := range payloadAttrs(m) {
		g := headerGroup(m, a)
		if len(g) < 2 || seen[g[0]] {
			continue
		}
		seen[g[0]] = true
		optional := true
		for _, x := range g {
			if fieldRequired(m, x) {
				optional = false
			}
		}
		if optional && r.Chance(1, 3) {
			keep := g[r.Intn(len(g))]
			for _, x := range g {
				if x != keep {
					delete(c, x)
				}
			}
		}
	}
	return c
}

// credValue: what the client puts on the wire for attr: its own value when set, else the value
// of an attribute sharing its header, else nothing.
func credValue(m *dg.Method, c map[string]string, attr string) string {
	if v, ok := c[attr]; ok {
		return v
	}
	for _, x := range headerGroup(m, attr) {
		if v, ok := c[x]; ok {
			return v
		}
	}
	return ""
}

// bearerHeader: the generated client prefixes the Authorization header with "Bearer " when a
// JWT / OAuth2 scheme of the effective requirements reads it (isBearer over HeaderSchemes).
func bearerHeader(mi *methodInfo) bool {
	for k := range kindsOf(mi.D, effectiveReqs(mi.D, mi.S, mi.M)) {
		if (k == "jwt" || k == "oauth2") && strings.EqualFold(wireLoc(mi.M, credAttrsOfKind(k)[0]), "header:Authorization") {
			return true
		}
	}
	return false
}

func payloadTree(m *dg.Method, c map[string]string) *rt.Tree {
	if m.Payload == nil {
		return nil
	}
	t := &rt.Tree{K: "struct", Names: []string{}, Elems: []*rt.Tree{}}
	for _, a := range payloadAttrs(m) {
		v, ok := c[a]
		if !ok {
			continue // left unset (optional attribute sharing a header with a set one)
		}
		t.Names = append(t.Names, dg.GoField(a))
		t.Elems = append(t.Elems, &rt.Tree{K: "string", S: v})
	}
	t.Names = append(t.Names, dg.GoField("note"))
	t.Elems = append(t.Elems, &rt.Tree{K: "string", S: "n"})
	return t
}

// ---- the property's own evaluation (direct oracle) ----

type expCall struct {
	Scheme   *dg.Scheme
	Required []string
}

// shortCircuit: requirements in order until one has every scheme accepting; within a
// requirement schemes in order until one rejects (a scheme is asked once per requirement).
func shortCircuit(d *dg.Design, eff []dg.Requirement, rejects map[string]bool) (calls []expCall, invoked bool, rejecting string) {
	if len(eff) == 0 {
		return nil, true, ""
	}
	for _, r := range eff {
		ok := true
		seen := map[string]bool{}
		for _, n := range r.Schemes {
			if seen[n] {
				continue
			}
			seen[n] = true
			calls = append(calls, expCall{Scheme: schemeByName(d, n), Required: r.Scopes})
			if rejects[n] {
				ok = false
				rejecting = n
				break
			}
		}
		if ok {
			return calls, true, ""
		}
	}
	return calls, false, rejecting
}

func schemeNamesOf(eff []dg.Requirement) []string {
	var out []string
	seen := map[string]bool{}
	for _, r := range eff {
		for _, n := range r.Schemes {
			if !seen[n] {
				seen[n] = true
				out = append(out, n)
			}
		}
	}
	return out
}

func sameStrs(a, b []string) bool {
	if len(a) != len(b) {
		return false
	}
	for i := range a {
		if a[i] != b[i] {
			return false
		}
	}
	return true
}

func credAttrsOfKind(kind string) []string {
	switch kind {
	case "basic":
		return []string{attrUser, attrPass}
	case "apikey":
		return []string{attrKey}
	case "jwt":
		return []string{attrToken}
	case "oauth2":
		return []string{attrAToken}
	}
	return nil
}

// classifyCred names the situation of a credential that did not arrive as given.
func classifyCred(mi *methodInfo, kind string, sent, got []string) string {
	if kind == "basic" {
		return "credential-changed:basic"
	}
	attr := credAttrsOfKind(kind)[0]
	loc := locFromMethod(mi.M, attr)
	inHeader := loc == "implicit" || strings.HasPrefix(loc, "header:")
	s := sent[0]
	bearer := kind == "jwt" || kind == "oauth2"
	switch {
	case inHeader && strings.Contains(s, " ") && bearer:
		return "bearer-token-with-space"
	case inHeader && strings.Contains(s, " "):
		return "header-apikey-with-space"
	case loc == "implicit" && s == "" && bearer:
		return "bearer-token-empty"
	case inHeader && s != "" && (s[0] == '\t' || s[len(s)-1] == '\t'):
		return "header-credential-trimmed"
	}
	l := loc
	if i := strings.Index(l, ":"); i >= 0 {
		l = l[:i]
	}
	return "credential-changed:" + kind + ":" + l
}

type wireErr struct {
	Name    string `json:"name"`
	Message string `json:"message"`
}

// judge evaluates the property on one observed exchange; returns the Coq case line.
func judge(res *vh.Result, idx int, mi *methodInfo, ex exchange, ob *rt.Obs, declaredUnauthorized bool) string {
	d, m := mi.D, mi.M
	eff := effectiveReqs(d, mi.S, m)
	rejects := map[string]bool{}
	for _, n := range ex.Rejects {
		rejects[n] = true
	}
	in := map[string]any{"tier": "B", "design": d, "service": ex.Service, "method": ex.Method, "rejects": ex.Rejects, "creds": ex.Creds,
		"stream": ex.Stream, "auth_calls": ob.AuthCalls, "invoked": ob.Invoked, "client_err": ob.ClientErr}
	if ob.Resp != nil {
		in["status"] = ob.Resp.Status
		in["response_body"] = ob.Resp.Body
	}
	if ob.Req != nil {
		in["request_headers"] = ob.Req.Headers
		in["request_query"] = ob.Req.Query
	}
	fail := func(sig, what string) { res.Fail(sig, what, in) }
	if ob.Panic != "" {
		fail("driver-panic", "panic while running the exchange: "+firstLine(ob.Panic))
	}
	// a Basic user name holding ':' cannot be transmitted: the generated client refuses it
	if kindsOf(d, eff)["basic"] && strings.Contains(credValue(m, ex.Creds, attrUser), ":") {
		if ob.Invoked != 0 || len(ob.AuthCalls) != 0 || ob.Req != nil || ob.ClientErr == nil || ob.ClientErr.Name != "invalid_pattern" {
			fail("basic-colon-not-refused", fmt.Sprintf("%s.%s: the Basic user name %q holds a ':' and cannot be sent (RFC 7617); the client must refuse it with invalid_pattern and send nothing (invoked %d, callbacks %d, request sent %v, client error %v)",
				ex.Service, ex.Method, credValue(m, ex.Creds, attrUser), ob.Invoked, len(ob.AuthCalls), ob.Req != nil, ob.ClientErr))
		}
		return fmt.Sprintf("(%d, R_%s, L_%s, %s, %s, %d, [], None)", idx, mi.Def, mi.Def, coqCreds(mi, ex.Creds), coqStrs(ex.Rejects), ob.Invoked)
	}
	calls, invoked, rejecting := shortCircuit(d, eff, rejects)

	// 1. user code runs iff a requirement is satisfied
	switch {
	case invoked && ob.Invoked == 0:
		if len(eff) == 0 {
			fail("unsecured-method-not-invoked", fmt.Sprintf("%s.%s has no effective requirement but the service method did not run", ex.Service, ex.Method))
		} else {
			fail("not-invoked-with-satisfied-requirement", fmt.Sprintf("%s.%s: a requirement is satisfied (rejecting schemes %v) but the service method did not run", ex.Service, ex.Method, ex.Rejects))
		}
	case !invoked && ob.Invoked > 0:
		fail("invoked-without-satisfied-requirement", fmt.Sprintf("%s.%s: every requirement has a rejecting scheme (%v) yet the service method ran", ex.Service, ex.Method, ex.Rejects))
	case ob.Invoked > 1:
		fail("invoked-more-than-once", "the service method ran more than once")
	}
	// 2. callbacks: exactly the short-circuit order
	var gotNames, wantNames []string
	for _, c := range ob.AuthCalls {
		gotNames = append(gotNames, c.Scheme)
	}
	for _, c := range calls {
		wantNames = append(wantNames, c.Scheme.Name)
	}
	if !sameStrs(gotNames, wantNames) {
		sig := "callback-order"
		if len(eff) == 0 {
			sig = "unsecured-method-runs-callbacks"
		}
		fail(sig, fmt.Sprintf("%s.%s: callbacks ran for %v, the short-circuit order is %v (rejecting %v)", ex.Service, ex.Method, gotNames, wantNames, ex.Rejects))
	} else {
		for i, c := range ob.AuthCalls {
			w := calls[i]
			if c.Kind != w.Scheme.Kind {
				fail("callback-kind", fmt.Sprintf("scheme %s is %s but the %s callback ran", c.Scheme, w.Scheme.Kind, c.Kind))
			}
			if !sameStrs(c.Scopes, w.Scheme.Scopes) {
				fail("callback-scopes", fmt.Sprintf("callback of %s was shown scopes %v, the scheme declares %v", c.Scheme, c.Scopes, w.Scheme.Scopes))
			}
			if !sameStrs(c.Required, w.Required) {
				fail("callback-required-scopes", fmt.Sprintf("callback of %s was shown required scopes %v, the requirement asks %v", c.Scheme, c.Required, w.Required))
			}
			if c.OK == rejects[c.Scheme] {
				fail("harness-script-not-applied", "the scripted verdict was not the one recorded")
			}
			var sent []string
			for _, a := range credAttrsOfKind(w.Scheme.Kind) {
				sent = append(sent, credValue(m, ex.Creds, a))
			}
			if !sameStrs(c.Cred, sent) {
				in["sent"], in["received"] = sent, c.Cred
				fail(classifyCred(mi, w.Scheme.Kind, sent, c.Cred), fmt.Sprintf("callback of %s (%s, credential location %s) was shown %q, the client was given %q",
					c.Scheme, w.Scheme.Kind, credLocs(mi, w.Scheme.Kind), c.Cred, sent))
			}
		}
	}
	// 2b. on the wire every credential of the effective requirements sits in the place the
	// design gives it, and nowhere in the body unless the body is that place
	if ex.Stream == "main" && ob.Req != nil && len(eff) > 0 {
		q, _ := url.ParseQuery(ob.Req.Query)
		var body any
		_ = json.Unmarshal([]byte(ob.Req.Body), &body)
		bodyObj, _ := body.(map[string]any)
		hdr := func(n string) string {
			if v := ob.Req.Headers[http.CanonicalHeaderKey(n)]; len(v) == 1 {
				return v[0]
			}
			return ""
		}
		misplaced := func(attr, where, want, got string) {
			in["wire_expected"], in["wire_found"], in["request_body"] = want, got, ob.Req.Body
			fail("credential-not-in-designed-place:"+attr, fmt.Sprintf("%s.%s: credential %q should travel as %s = %q, the request carries %q", ex.Service, ex.Method, attr, where, want, got))
		}
		effKinds := kindsOf(d, eff)
		for _, a := range credAttrs(effKinds) {
			v := credValue(m, ex.Creds, a)
			loc := locFromMethod(m, a)
			if strings.EqualFold(loc, "header:Authorization") {
				loc = "implicit"
			}
			switch {
			case a == attrPass:
			case a == attrUser:
				want := "Basic " + base64.StdEncoding.EncodeToString([]byte(v+":"+ex.Creds[attrPass]))
				if hdr("Authorization") != want {
					misplaced(a, "header Authorization", want, hdr("Authorization"))
				}
			case loc == "implicit":
				want := v
				if bearerHeader(mi) {
					want = "Bearer " + v
				}
				if hdr("Authorization") != want {
					misplaced(a, "header Authorization", want, hdr("Authorization"))
				}
			case strings.HasPrefix(loc, "header:"):
				if n := strings.TrimPrefix(loc, "header:"); hdr(n) != v {
					misplaced(a, "header "+n, v, hdr(n))
				}
			case strings.HasPrefix(loc, "query:"):
				if n := strings.TrimPrefix(loc, "query:"); q.Get(n) != v {
					misplaced(a, "query parameter "+n, v, q.Get(n))
				}
			case loc == "body":
				if got, _ := body.(string); got != v {
					misplaced(a, "body (the whole body is this attribute)", v, got)
				}
			case loc == "inline-body":
				if got, _ := bodyObj[a].(string); got != v {
					misplaced(a, "body attribute "+a, v, got)
				}
			}
			if loc != "body" && loc != "inline-body" {
				for k, x := range bodyObj {
					if _ = x; strings.EqualFold(k, a) { // by key: two credentials may legitimately hold equal values
						in["request_body"] = ob.Req.Body
						fail("credential-leaks-into-body:"+a, fmt.Sprintf("%s.%s: credential %q is designed to travel in %s but the request body also carries it (key %q)", ex.Service, ex.Method, a, credPlace(mi, a), k))
					}
				}
			}
		}
	}
	// 3. what the client sees
	rej := "None"
	if ob.Invoked == 0 && ob.Resp != nil {
		var we wireErr
		_ = json.Unmarshal([]byte(ob.Resp.Body), &we)
		if strings.HasPrefix(we.Message, "rejected by ") {
			rej = "(Some " + vh.CoqString(strings.TrimPrefix(we.Message, "rejected by ")) + ")"
		}
		if !invoked {
			if we.Name != "unauthorized" || we.Message != "rejected by "+rejecting {
				fail("error-not-last-failure", fmt.Sprintf("%s.%s: every requirement failed, last callback to run rejected as %q; the response carries name %q message %q (status %d)",
					ex.Service, ex.Method, rejecting, we.Name, we.Message, ob.Resp.Status))
			}
			switch {
			case ob.ClientErr == nil:
				fail("client-no-error", "the request was refused but the client returned no error")
			case declaredUnauthorized:
				if ob.ClientErr.Type != "ServiceError" || ob.ClientErr.Name != "unauthorized" || ob.ClientErr.Message != "rejected by "+rejecting {
					fail("client-error-differs", fmt.Sprintf("client error is %s %q %q, the callback returned unauthorized %q", ob.ClientErr.Type, ob.ClientErr.Name, ob.ClientErr.Message, "rejected by "+rejecting))
				}
			default:
				if ob.Resp.Status < 400 || ob.Resp.Status > 499 || !strings.Contains(ob.ClientErr.Message, `"message":"rejected by `+rejecting+`"`) {
					fail("client-error-differs", fmt.Sprintf("client error %q (status %d) does not carry the callback's error %q", ob.ClientErr.Message, ob.Resp.Status, "rejected by "+rejecting))
				}
			}
		}
	}
	if invoked && ob.Invoked == 1 {
		if ob.ClientErr != nil {
			fail("secured-call-failed", fmt.Sprintf("the method ran but the client returned error %s %q", ob.ClientErr.Name, ob.ClientErr.Message))
		} else if ob.ClientResult == nil || ob.ClientResult.S != "ok" {
			fail("secured-call-result-lost", "the method ran but the client did not get its result")
		}
	}
	// Coq case line
	ocs := make([]string, len(ob.AuthCalls))
	for i, c := range ob.AuthCalls {
		cr := make([]string, len(c.Cred))
		for j, x := range c.Cred {
			cr[j] = coqBs(x)
		}
		ocs[i] = fmt.Sprintf("mk_obs_call %s %s %s %s %s %s", coqKind[c.Kind], vh.CoqString(c.Scheme), coqStrs(c.Scopes), coqStrs(c.Required), vh.CoqList(cr), vh.CoqBool(c.OK))
	}
	return fmt.Sprintf("(%d, R_%s, L_%s, %s, %s, %d, %s, %s)", idx, mi.Def, mi.Def, coqCreds(mi, ex.Creds), coqStrs(ex.Rejects), ob.Invoked, vh.CoqList(ocs), rej)
}

func credPlace(mi *methodInfo, attr string) string {
	if attr == attrUser || attr == attrPass {
		return "Authorization: Basic"
	}
	return locFromMethod(mi.M, attr)
}

func credLocs(mi *methodInfo, kind string) string {
	if kind == "basic" {
		return "Authorization: Basic"
	}
	return locFromMethod(mi.M, credAttrsOfKind(kind)[0])
}

// ---- batch ----

func patchStub(dir string) error {
	// the shared stub hides the scopes of API-key callbacks; this harness needs them
	p := filepath.Join(dir, "zz_verif_stub.go")
	b, err := os.ReadFile(p)
	if err != nil {
		return err
	}
	s := strings.Replace(string(b), `"apikey", []string{key}, sc.Name, nil, nil)`, `"apikey", []string{key}, sc.Name, sc.Scopes, sc.RequiredScopes)`, 1)
	if s == string(b) {
		return fmt.Errorf("stub pattern not found in %s", p)
	}
	return os.WriteFile(p, []byte(s), 0o644)
}

func addDesign(b *tierb.Batch, res *vh.Result, bd *builtDesign, infos *[]*methodInfo) *tierb.Built {
	d := bd.D
	var mis []*methodInfo
	var patchErr error
	bu, oc := b.Add(d, func(root *expr.RootExpr, bu *tierb.Built) {
		for _, svc := range d.Services {
			sd := service.Services.Get(svc.Name)
			if sd == nil {
				continue
			}
			if err := patchStub(filepath.Join(b.Dir, bu.Key, "gen", sd.PathName)); err != nil && sd.Schemes != nil && patchErr == nil {
				patchErr = err
			}
			for _, m := range svc.Methods {
				for _, md := range sd.Methods {
					if md.Name == m.Name {
						mis = append(mis, &methodInfo{Key: bu.Key, D: d, S: svc, M: m, DataReqs: fromData(md.Requirements), VarName: md.VarName, PathName: sd.PathName,
							Def: bu.Key + "_" + svc.Name + "_" + m.Name})
					}
				}
			}
		}
	})
	if bu == nil {
		res.Count("tierB_design_rejected")
		msg := oc.Panic
		if oc.Err != nil {
			msg = oc.Err.Error()
		}
		res.Extra["tierB_last_rejection"] = d.Name + ": " + firstLine(msg)
		return nil
	}
	if bu.GenErr != "" {
		res.Count("tierB_design_generate_failed")
		res.Extra["tierB_last_generr"] = d.Name + ": " + firstLine(bu.GenErr)
		return bu
	}
	if patchErr != nil {
		res.Extra["stub_patch_error"] = patchErr.Error()
	}
	for _, mi := range mis {
		shape, err := parseEndpoint(filepath.Join(b.Dir, bu.Key, "gen", mi.PathName, "endpoints.go"), mi.VarName)
		if err != nil {
			mi.ShapeErr = err.Error()
			shape = "[]"
		}
		mi.Shape = shape
		if mi.M.Payload != nil {
			st, err := parseDecoderStrips(filepath.Join(b.Dir, bu.Key, "gen", "http", mi.PathName, "server", "encode_decode.go"), mi.VarName)
			if err != nil {
				mi.StripErr = err.Error()
			}
			mi.Strips = st
		}
	}
	*infos = append(*infos, mis...)
	return bu
}

// expectedStrips: the property's reading of "every credential carried by a header is shown to
// its callback without its scheme prefix": one stripping per header-carried, non-Basic scheme
// of the effective requirements, in order of first appearance.
func expectedStrips(mi *methodInfo) []string {
	out := []string{}
	for _, n := range schemeNamesOf(effectiveReqs(mi.D, mi.S, mi.M)) {
		sc := schemeByName(mi.D, n)
		if sc.Kind == "basic" {
			continue
		}
		a := credAttrsOfKind(sc.Kind)[0]
		if strings.HasPrefix(wireLoc(mi.M, a), "header:") {
			out = append(out, dg.GoField(a))
		}
	}
	return out
}

// coqAttr names a payload field in the model's terms.
func coqAttr(mi *methodInfo, goField string) string {
	switch goField {
	case dg.GoField(attrToken):
		return "AToken"
	case dg.GoField(attrAToken):
		return "AAToken"
	case dg.GoField(attrKey):
		return "AKey " + vh.CoqString(apiKeyName(mi.D))
	}
	return "AKey " + vh.CoqString("?"+goField)
}

// ---- the request on the wire, for the model's encode_wire ----

func coqPlace(m *dg.Method, attr string) string {
	l := locFromMethod(m, attr)
	switch {
	case l == "implicit":
		return `PHeader "Authorization"`
	case strings.HasPrefix(l, "header:"):
		return "PHeader " + vh.CoqString(http.CanonicalHeaderKey(strings.TrimPrefix(l, "header:")))
	case strings.HasPrefix(l, "query:"):
		return "PQuery " + vh.CoqString(strings.TrimPrefix(l, "query:"))
	case l == "inline-body":
		return "PBody " + vh.CoqString(attr)
	}
	return "PBodyWhole"
}

func coqCattr(mi *methodInfo, attr string) string { return coqAttr(mi, dg.GoField(attr)) }

func coqOptBs(s string, ok bool) string {
	if !ok {
		return "None"
	}
	return "(Some " + coqBs(s) + ")"
}

// wireCase prints what the tapped request carried next to what the client was given:
// (index, places, requirements, Basic pair, set fields, sent?, headers, query values, body attributes, whole body).
func wireCase(idx int, mi *methodInfo, ex exchange, ob *rt.Obs) string {
	m := mi.M
	eff := effectiveReqs(mi.D, mi.S, m)
	var places, fields, hdrs, qrys, body []string
	hdrNames := []string{"Authorization"}
	seenH := map[string]bool{"Authorization": true}
	var qNames []string
	for _, a := range payloadAttrs(m) {
		if a == attrUser || a == attrPass {
			continue
		}
		pl := coqPlace(m, a)
		places = append(places, fmt.Sprintf("(%s, %s)", coqCattr(mi, a), pl))
		if v, ok := ex.Creds[a]; ok {
			fields = append(fields, fmt.Sprintf("mk_field (%s) (%s) %s", coqCattr(mi, a), pl, coqBs(v)))
		}
		switch l := wireLoc(m, a); {
		case strings.HasPrefix(l, "header:"):
			if n := http.CanonicalHeaderKey(strings.TrimPrefix(l, "header:")); !seenH[n] {
				seenH[n] = true
				hdrNames = append(hdrNames, n)
			}
		case strings.HasPrefix(l, "query:"):
			qNames = append(qNames, strings.TrimPrefix(l, "query:"))
		}
	}
	basic := "None"
	if kindsOf(mi.D, eff)["basic"] {
		basic = fmt.Sprintf("(Some (%s, %s))", coqBs(ex.Creds[attrUser]), coqBs(ex.Creds[attrPass]))
	}
	whole := "None"
	if ob.Req != nil {
		for _, n := range hdrNames {
			vs := ob.Req.Headers[n]
			v, ok := "", len(vs) == 1
			if ok {
				v = vs[0]
				if strings.HasPrefix(v, "Basic ") {
					if dec, err := base64.StdEncoding.DecodeString(strings.TrimPrefix(v, "Basic ")); err == nil {
						v = "Basic " + string(dec) // base64 is left out of the model
					}
				}
			}
			if len(vs) > 1 {
				v, ok = "?multiple values", true
			}
			hdrs = append(hdrs, fmt.Sprintf("(%s, %s)", vh.CoqString(n), coqOptBs(v, ok)))
		}
		q, _ := url.ParseQuery(ob.Req.Query)
		for _, n := range qNames {
			vs, ok := q[n]
			v := ""
			if ok && len(vs) > 0 {
				v = vs[0]
			}
			qrys = append(qrys, fmt.Sprintf("(%s, %s)", vh.CoqString(n), coqOptBs(v, ok && len(vs) > 0)))
		}
		var b any
		_ = json.Unmarshal([]byte(ob.Req.Body), &b)
		switch x := b.(type) {
		case string:
			whole = coqOptBs(x, true)
		case map[string]any:
			done := map[string]bool{"note": true}
			for _, a := range payloadAttrs(m) {
				if s, ok := x[a].(string); ok {
					done[a] = true
					body = append(body, fmt.Sprintf("(%s, %s)", vh.CoqString(a), coqBs(s)))
				}
			}
			for _, k := range vh.SortedKeys(x) { // anything else in the body is a leak: shown to the model as is
				if !done[k] {
					s, _ := x[k].(string)
					body = append(body, fmt.Sprintf("(%s, %s)", vh.CoqString(k), coqBs(s)))
				}
			}
		}
	}
	return fmt.Sprintf("(%d, %s, R_%s, %s, %s, %s, %s, %s, %s, %s)", idx, vh.CoqList(places), mi.Def, basic, vh.CoqList(fields),
		vh.CoqBool(ob.Req != nil), vh.CoqList(hdrs), vh.CoqList(qrys), vh.CoqList(body), whole)
}
