package main

import (
	"fmt"
	"go/ast"
	"go/parser"
	"go/token"
	"strconv"
	"strings"

	"verifharness/vh"
)

// parseEndpoint reads the generated New<Method>Endpoint function of endpoints.go back
// into the model's mini-AST (Coq term of type `list stmt`). Anything it does not
// recognise is an error (the caller then emits an empty body, which never equals
// gen_endpoint): the translator fails closed.
func parseEndpoint(file, varName string) (string, error) {
	fset := token.NewFileSet()
	f, err := parser.ParseFile(fset, file, nil, 0)
	if err != nil {
		return "", err
	}
	for _, decl := range f.Decls {
		fd, ok := decl.(*ast.FuncDecl)
		if !ok || fd.Name.Name != "New"+varName+"Endpoint" {
			continue
		}
		if len(fd.Body.List) != 1 {
			return "", fmt.Errorf("%s: expected a single return statement", fd.Name.Name)
		}
		ret, ok := fd.Body.List[0].(*ast.ReturnStmt)
		if !ok || len(ret.Results) != 1 {
			return "", fmt.Errorf("%s: expected `return func…`", fd.Name.Name)
		}
		lit, ok := ret.Results[0].(*ast.FuncLit)
		if !ok {
			return "", fmt.Errorf("%s: expected a function literal", fd.Name.Name)
		}
		p := &epParser{method: varName}
		items, err := p.block(lit.Body.List, true)
		if err != nil {
			return "", fmt.Errorf("%s: %v", fd.Name.Name, err)
		}
		return vh.CoqList(items), nil
	}
	return "", fmt.Errorf("function New%sEndpoint not found in %s", varName, file)
}

type pendingSc struct {
	kind, name       string
	scopes, required []string
}

type epParser struct {
	method string
	sc     *pendingSc
}

func isIdent(e ast.Expr, name string) bool {
	id, ok := e.(*ast.Ident)
	return ok && id.Name == name
}

func strLits(e ast.Expr) ([]string, error) {
	cl, ok := e.(*ast.CompositeLit)
	if !ok {
		return nil, fmt.Errorf("expected []string literal")
	}
	out := []string{}
	for _, el := range cl.Elts {
		bl, ok := el.(*ast.BasicLit)
		if !ok || bl.Kind != token.STRING {
			return nil, fmt.Errorf("expected string literal")
		}
		s, err := strconv.Unquote(bl.Value)
		if err != nil {
			return nil, err
		}
		out = append(out, s)
	}
	return out, nil
}

var schemeTypeKind = map[string]string{"BasicScheme": "Basic", "APIKeyScheme": "APIKey", "JWTScheme": "JWT", "OAuth2Scheme": "OAuth2"}

func (p *epParser) block(stmts []ast.Stmt, top bool) ([]string, error) {
	var out []string
	for i, st := range stmts {
		switch s := st.(type) {
		case *ast.DeclStmt:
			// `var err error`, `var user string` (credential pointer dereference)
			gd, ok := s.Decl.(*ast.GenDecl)
			if !ok || gd.Tok != token.VAR {
				return nil, fmt.Errorf("unexpected declaration")
			}
		case *ast.AssignStmt:
			switch {
			case s.Tok == token.DEFINE && len(s.Lhs) == 1 && (isIdent(s.Lhs[0], "p") || isIdent(s.Lhs[0], "ep")):
				if !top || i != 0 {
					return nil, fmt.Errorf("payload assertion not first")
				}
			case s.Tok == token.DEFINE && len(s.Lhs) == 1 && isIdent(s.Lhs[0], "sc"):
				cl, ok := s.Rhs[0].(*ast.CompositeLit)
				if !ok {
					return nil, fmt.Errorf("sc is not a composite literal")
				}
				sel, ok := cl.Type.(*ast.SelectorExpr)
				if !ok || !isIdent(sel.X, "security") {
					return nil, fmt.Errorf("sc is not a security.XScheme")
				}
				k, ok := schemeTypeKind[sel.Sel.Name]
				if !ok {
					return nil, fmt.Errorf("unknown scheme type %s", sel.Sel.Name)
				}
				sc := &pendingSc{kind: k}
				for _, el := range cl.Elts {
					kv, ok := el.(*ast.KeyValueExpr)
					if !ok {
						return nil, fmt.Errorf("sc literal without keys")
					}
					key := kv.Key.(*ast.Ident).Name
					switch key {
					case "Name":
						bl, ok := kv.Value.(*ast.BasicLit)
						if !ok {
							return nil, fmt.Errorf("sc.Name is not a literal")
						}
						sc.name, _ = strconv.Unquote(bl.Value)
					case "Scopes":
						v, err := strLits(kv.Value)
						if err != nil {
							return nil, err
						}
						sc.scopes = v
					case "RequiredScopes":
						v, err := strLits(kv.Value)
						if err != nil {
							return nil, err
						}
						sc.required = v
					case "Flows":
					default:
						return nil, fmt.Errorf("unexpected field %s in sc", key)
					}
				}
				p.sc = sc
			case s.Tok == token.ASSIGN && len(s.Lhs) == 2 && isIdent(s.Lhs[0], "ctx") && isIdent(s.Lhs[1], "err"):
				call, ok := s.Rhs[0].(*ast.CallExpr)
				if !ok || p.sc == nil {
					return nil, fmt.Errorf("ctx, err = … without a call or without sc")
				}
				fn, ok := call.Fun.(*ast.Ident)
				if !ok || fn.Name != "auth"+p.sc.kind+"Fn" {
					return nil, fmt.Errorf("callback %v does not match scheme kind %s", call.Fun, p.sc.kind)
				}
				if len(call.Args) < 3 || !isIdent(call.Args[0], "ctx") {
					return nil, fmt.Errorf("callback not called with ctx first")
				}
				last, ok := call.Args[len(call.Args)-1].(*ast.UnaryExpr)
				if !ok || last.Op != token.AND || !isIdent(last.X, "sc") {
					return nil, fmt.Errorf("callback not given &sc")
				}
				out = append(out, fmt.Sprintf("Call (mk_scheme %s %s %s) %s", p.sc.kind, vh.CoqString(p.sc.name), coqStrs(p.sc.scopes), coqStrs(p.sc.required)))
				p.sc = nil
			case s.Tok == token.ASSIGN && len(s.Lhs) == 1 && (isIdent(s.Lhs[0], "user") || isIdent(s.Lhs[0], "pass") || isIdent(s.Lhs[0], "key") || isIdent(s.Lhs[0], "token")):
				// inside `if p.X != nil { key = *p.X }`
			default:
				return nil, fmt.Errorf("unexpected assignment")
			}
		case *ast.IfStmt:
			if s.Init != nil || s.Else != nil {
				return nil, fmt.Errorf("if with init/else")
			}
			be, ok := s.Cond.(*ast.BinaryExpr)
			if !ok || !isIdent(be.Y, "nil") {
				return nil, fmt.Errorf("unexpected condition")
			}
			if isIdent(be.X, "err") {
				body, err := p.block(s.Body.List, false)
				if err != nil {
					return nil, err
				}
				switch be.Op {
				case token.EQL:
					out = append(out, "IfErrNil "+vh.CoqList(body))
				case token.NEQ:
					out = append(out, "IfErrNotNil "+vh.CoqList(body))
				default:
					return nil, fmt.Errorf("unexpected operator on err")
				}
				continue
			}
			// credential pointer dereference: if p.Field != nil { v = *p.Field }
			if sel, ok := be.X.(*ast.SelectorExpr); ok && isIdent(sel.X, "p") && be.Op == token.NEQ {
				if _, err := p.block(s.Body.List, false); err != nil {
					return nil, err
				}
				continue
			}
			return nil, fmt.Errorf("unexpected if statement")
		case *ast.ReturnStmt:
			switch {
			case len(s.Results) == 2 && isIdent(s.Results[0], "nil") && isIdent(s.Results[1], "err"):
				out = append(out, "ReturnErr")
			default:
				// return s.Method(ctx, p)  /  return nil, s.Method(ctx, p)
				var call *ast.CallExpr
				for _, r := range s.Results {
					if c, ok := r.(*ast.CallExpr); ok {
						call = c
					}
				}
				if call == nil {
					return nil, fmt.Errorf("unexpected return")
				}
				sel, ok := call.Fun.(*ast.SelectorExpr)
				if !ok || !isIdent(sel.X, "s") || sel.Sel.Name != p.method || len(call.Args) < 1 || !isIdent(call.Args[0], "ctx") {
					return nil, fmt.Errorf("return does not call s.%s(ctx, …)", p.method)
				}
				if !top {
					return nil, fmt.Errorf("service method invoked inside a branch")
				}
				out = append(out, "Invoke")
			}
		default:
			return nil, fmt.Errorf("unexpected statement %T", st)
		}
	}
	return out, nil
}

func firstLine(s string) string { return strings.SplitN(s, "\n", 2)[0] }

// parseDecoderStrips reads the credential section of the generated server request decoder
// Decode<Method>Request: the payload fields whose "scheme prefix" is stripped
// (`if strings.Contains(payload.F, " ") { … SplitN … }`), in order of appearance.
func parseDecoderStrips(file, varName string) ([]string, error) {
	fset := token.NewFileSet()
	f, err := parser.ParseFile(fset, file, nil, 0)
	if err != nil {
		return nil, err
	}
	for _, decl := range f.Decls {
		fd, ok := decl.(*ast.FuncDecl)
		if !ok || fd.Name.Name != "Decode"+varName+"Request" {
			continue
		}
		fields := []string{}
		var bad error
		ast.Inspect(fd.Body, func(n ast.Node) bool {
			is, ok := n.(*ast.IfStmt)
			if !ok {
				return true
			}
			call, ok := is.Cond.(*ast.CallExpr)
			if !ok {
				return true
			}
			sel, ok := call.Fun.(*ast.SelectorExpr)
			if !ok || !isIdent(sel.X, "strings") || sel.Sel.Name != "Contains" || len(call.Args) != 2 {
				return true
			}
			if bl, ok := call.Args[1].(*ast.BasicLit); !ok || bl.Value != `" "` {
				bad = fmt.Errorf("strings.Contains with an unexpected separator %v", call.Args[1])
				return false
			}
			x := call.Args[0]
			if st, ok := x.(*ast.StarExpr); ok {
				x = st.X
			}
			fs, ok := x.(*ast.SelectorExpr)
			if !ok || !isIdent(fs.X, "payload") {
				bad = fmt.Errorf("strings.Contains on something that is not a payload field")
				return false
			}
			// the body must assign the part after the first space back to the same field
			okBody := false
			ast.Inspect(is.Body, func(m ast.Node) bool {
				if c, ok := m.(*ast.IndexExpr); ok {
					if sc, ok := c.X.(*ast.CallExpr); ok {
						if s2, ok := sc.Fun.(*ast.SelectorExpr); ok && s2.Sel.Name == "SplitN" && len(sc.Args) == 3 {
							n, _ := sc.Args[2].(*ast.BasicLit)
							i, _ := c.Index.(*ast.BasicLit)
							if n != nil && i != nil && n.Value == "2" && i.Value == "1" {
								okBody = true
							}
						}
					}
				}
				return true
			})
			if !okBody {
				bad = fmt.Errorf("prefix stripping of %s is not SplitN(…, \" \", 2)[1]", fs.Sel.Name)
				return false
			}
			fields = append(fields, fs.Sel.Name)
			return true
		})
		if bad != nil {
			return nil, bad
		}
		return fields, nil
	}
	return nil, fmt.Errorf("function Decode%sRequest not found in %s", varName, file)
}
