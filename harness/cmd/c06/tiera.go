package main

import (
	"fmt"
	"reflect"
	"strings"

	"goa.design/goa/v3/codegen/service"
	"goa.design/goa/v3/expr"

	dg "verifharness/designgen"
	"verifharness/vh"
)

// sreq is a requirement as observed / as described: schemes (kind, name, scopes) and required scopes.
type sscheme struct {
	Kind   string   `json:"kind"` // basic apikey jwt oauth2, "" = NoSecurity marker
	Name   string   `json:"name"`
	Scopes []string `json:"scopes"`
}
type sreq struct {
	Schemes []sscheme `json:"schemes"`
	Scopes  []string  `json:"scopes"`
}

func coqStrs(xs []string) string {
	ss := make([]string, len(xs))
	for i, x := range xs {
		ss[i] = vh.CoqString(x)
	}
	return vh.CoqList(ss)
}

func coqScheme(s sscheme) string {
	return fmt.Sprintf("mk_scheme %s %s %s", coqKind[s.Kind], vh.CoqString(s.Name), coqStrs(s.Scopes))
}

func coqReq(r sreq) string {
	ss := make([]string, len(r.Schemes))
	for i, s := range r.Schemes {
		ss[i] = coqScheme(s)
	}
	return fmt.Sprintf("mk_req %s %s", vh.CoqList(ss), coqStrs(r.Scopes))
}

func coqReqs(rs []sreq) string {
	ss := make([]string, len(rs))
	for i, r := range rs {
		ss[i] = coqReq(r)
	}
	return vh.CoqList(ss)
}

// describe turns requirements of the design description into sreqs (scheme scopes looked up).
func describe(d *dg.Design, reqs []dg.Requirement) []sreq {
	out := []sreq{}
	for _, r := range reqs {
		q := sreq{Scopes: append([]string{}, r.Scopes...), Schemes: []sscheme{}}
		for _, n := range r.Schemes {
			sc := schemeByName(d, n)
			q.Schemes = append(q.Schemes, sscheme{Kind: sc.Kind, Name: sc.Name, Scopes: append([]string{}, sc.Scopes...)})
		}
		out = append(out, q)
	}
	return out
}

var exprKind = map[expr.SchemeKind]string{expr.BasicAuthKind: "basic", expr.APIKeyKind: "apikey", expr.JWTKind: "jwt", expr.OAuth2Kind: "oauth2", expr.NoKind: ""}

func fromExpr(reqs []*expr.SecurityExpr) []sreq {
	out := []sreq{}
	for _, r := range reqs {
		q := sreq{Scopes: append([]string{}, r.Scopes...), Schemes: []sscheme{}}
		for _, s := range r.Schemes {
			sc := sscheme{Kind: exprKind[s.Kind], Name: s.SchemeName, Scopes: []string{}}
			for _, x := range s.Scopes {
				sc.Scopes = append(sc.Scopes, x.Name)
			}
			q.Schemes = append(q.Schemes, sc)
		}
		out = append(out, q)
	}
	return out
}

var dataKind = map[string]string{"Basic": "basic", "APIKey": "apikey", "JWT": "jwt", "OAuth2": "oauth2"}

func fromData(reqs service.RequirementsData) []sreq {
	out := []sreq{}
	for _, r := range reqs {
		q := sreq{Scopes: append([]string{}, r.Scopes...), Schemes: []sscheme{}}
		for _, s := range r.Schemes {
			k, ok := dataKind[s.Type]
			if !ok {
				k = "?" + s.Type
			}
			q.Schemes = append(q.Schemes, sscheme{Kind: k, Name: s.SchemeName, Scopes: append([]string{}, s.Scopes...)})
		}
		out = append(out, q)
	}
	return out
}

// firstOfEachName: the property's own reading of "a scheme is asked once per requirement".
func firstOfEachName(rs []sreq) []sreq {
	out := []sreq{}
	for _, r := range rs {
		q := sreq{Scopes: r.Scopes, Schemes: []sscheme{}}
		seen := map[string]bool{}
		for _, s := range r.Schemes {
			if !seen[s.Name] {
				seen[s.Name] = true
				q.Schemes = append(q.Schemes, s)
			}
		}
		out = append(out, q)
	}
	return out
}

func sameReqs(a, b []sreq) bool { return reflect.DeepEqual(a, b) }

type inheritCase struct {
	Design  *dg.Design `json:"design"`
	Service string     `json:"service"`
	Method  string     `json:"method"`
}

// tierA evaluates ~500 placements of requirements through the real DSL and compares
// MethodExpr.Requirements / service data with the design's own reading; writes cases_inherit.txt.
func tierA(res *vh.Result, outDir string, distinct vh.Distinct, only *dg.Design) ([]string, []string) {
	pool := []dg.Scheme{{Kind: "basic", Name: "bas", Scopes: []string{"b:r"}}, {Kind: "apikey", Name: "key", Scopes: []string{"k:use"}},
		{Kind: "jwt", Name: "jwt", Scopes: []string{"api:read", "api:write"}}, {Kind: "oauth2", Name: "oa", Scopes: []string{"o:x"}}}
	R := func(scopes []string, schemes ...string) dg.Requirement {
		return dg.Requirement{Schemes: schemes, Scopes: scopes}
	}
	variants := [][]dg.Requirement{
		nil,
		{R(nil, "jwt")},
		{R([]string{"b:r"}, "bas", "key")},
		{R([]string{"api:read"}, "jwt"), R(nil, "oa")},
		{R(nil, "key"), R([]string{"api:write"}, "bas", "jwt"), R([]string{"o:x", "k:use"}, "oa", "key")},
		{R([]string{"api:read"}, "jwt", "jwt"), R(nil, "key"), R(nil, "key")},
	}
	locs := map[string]string{attrKey: "header:X-Key", attrToken: "query:t", attrAToken: "body"}
	var lines, insLines []string
	var cases []any
	var designs []*dg.Design
	for ai, av := range variants {
		for si, sv := range variants {
			d := &dg.Design{Name: fmt.Sprintf("inh_%d_%d", ai, si), Schemes: pool, Security: av}
			s := &dg.Service{Name: "svc", Security: sv}
			s2 := &dg.Service{Name: "bare"}
			for mi, mv := range variants {
				for _, nosec := range []bool{false, true} {
					ms := methodSpec{Name: fmt.Sprintf("m%d_%v", mi, nosec), Own: mv, NoSec: nosec, Locs: locs, Required: (mi+si)%2 == 0}
					s.Methods = append(s.Methods, buildMethod(d, s, ms))
				}
			}
			s2.Methods = append(s2.Methods, buildMethod(d, s2, methodSpec{Name: "plain", Locs: locs}),
				buildMethod(d, s2, methodSpec{Name: "own", Own: variants[(ai+si)%5+1], Locs: locs, Required: true}),
				buildMethod(d, s2, methodSpec{Name: "open", NoSec: true}))
			d.Services = []*dg.Service{s, s2}
			designs = append(designs, d)
		}
	}
	// siblings: several methods inherit ONE service- or API-level requirement and each maps the
	// credentials to a different place; every rotation, so that whichever endpoint goa finalizes
	// last, the others are observed too
	sibPool := pool[1:] // no Basic: it owns the Authorization header
	locTables := []map[string]string{
		{attrAToken: "query:at", attrKey: "header:X-Key"}, // token: implicit Authorization
		{attrToken: "query:t", attrAToken: "header:X-At", attrKey: "body"},
		{attrToken: "header:X-Tok", attrAToken: "body"}, // key: implicit Authorization
		{attrToken: "body", attrKey: "query:k"},         // atoken: implicit Authorization
	}
	sibReqs := [][]dg.Requirement{
		{R(nil, "jwt")},
		{R(nil, "key"), R(nil, "oa")},
		{R([]string{"api:read"}, "jwt", "key")},
		{R(nil, "oa"), R(nil, "jwt"), R(nil, "key")},
	}
	for lvl, level := range []string{"service", "api"} {
		for ri, rv := range sibReqs {
			for rot := 0; rot < 4; rot++ {
				d := &dg.Design{Name: fmt.Sprintf("sib_%s_%d_%d", level, ri, rot), Schemes: sibPool}
				s := &dg.Service{Name: "svc"}
				if lvl == 0 {
					s.Security = rv
				} else {
					d.Security = rv
				}
				for i := 0; i < 4; i++ {
					s.Methods = append(s.Methods, buildMethod(d, s, methodSpec{Name: fmt.Sprintf("sib%d", i), Locs: locTables[(i+rot)%4], Required: (i+ri)%2 == 0}))
				}
				s.Methods = append(s.Methods, buildMethod(d, s, methodSpec{Name: "own", Own: []dg.Requirement{R(nil, "oa")}, Locs: locTables[(rot+1)%4]}))
				d.Services = []*dg.Service{s}
				if lvl == 1 {
					s2 := &dg.Service{Name: "other"}
					s2.Methods = append(s2.Methods, buildMethod(d, s2, methodSpec{Name: "far0", Locs: locTables[(rot+2)%4]}),
						buildMethod(d, s2, methodSpec{Name: "far1", Locs: locTables[(rot+3)%4], Required: true}))
					d.Services = append(d.Services, s2)
				}
				designs = append(designs, d)
			}
		}
	}
	if only != nil {
		designs = []*dg.Design{only} // replay of one placement
	}
	for _, d := range designs {
		{
			oc := d.Eval()
			if !oc.Accepted {
				res.Count("tierA_design_rejected")
				msg := oc.Panic
				if oc.Err != nil {
					msg = oc.Err.Error()
				}
				res.Extra["tierA_last_rejection"] = fmt.Sprintf("%s: %s", d.Name, strings.SplitN(msg, "\n", 3)[0])
				continue
			}
			res.Count("tierA_designs")
			for _, svc := range d.Services {
				se := expr.Root.Service(svc.Name)
				sd := safeServiceData(svc.Name)
				if sd == nil {
					res.Count("tierA_service_data_panic")
					res.Fail("service-data-panic", "codegen/service analysis of an accepted design panicked (requirements the payload carries no credentials for?)",
						map[string]any{"tier": "A", "design": d, "service": svc.Name})
				}
				for _, m := range svc.Methods {
					me := se.Method(m.Name)
					var md *service.MethodData
					if sd != nil {
						for _, x := range sd.Methods {
							if x.Name == m.Name {
								md = x
							}
						}
					}
					idx := len(lines)
					own := describe(d, m.Security)
					if m.NoSecurity {
						own = append([]sreq{{Schemes: []sscheme{{Kind: "", Name: "", Scopes: []string{}}}, Scopes: []string{}}}, own...)
					}
					sreqs, areqs := describe(d, svc.Security), describe(d, d.Security)
					fin := fromExpr(me.Requirements)
					dat := []sreq{}
					if md != nil {
						dat = fromData(md.Requirements)
					}
					lines = append(lines, fmt.Sprintf("(%d, %s, %s, %s, %s, %s)", idx, coqReqs(own), coqReqs(sreqs), coqReqs(areqs), coqReqs(fin), coqReqs(dat)))
					ci := inheritCase{Design: d, Service: svc.Name, Method: m.Name}
					cases = append(cases, ci)
					res.Evaluations++
					if len(own)+len(sreqs)+len(areqs) > 0 {
						distinct.Add(fmt.Sprintf("A|%s|%s|%s|%v", coqReqs(own), coqReqs(sreqs), coqReqs(areqs), m.NoSecurity))
					}
					// direct oracle: the property's reading of the design
					want := describe(d, effectiveReqs(d, svc, m))
					in := map[string]any{"tier": "A", "design": d, "service": svc.Name, "method": m.Name, "observed_requirements": fin, "expected_requirements": want}
					if !sameReqs(fin, want) {
						sig := "inheritance-wrong-requirements"
						switch {
						case m.NoSecurity && len(fin) > 0:
							sig = "nosecurity-method-keeps-requirements"
						case len(m.Security) > 0:
							sig = "method-requirements-overridden"
						case len(svc.Security) > 0:
							sig = "service-requirements-not-inherited"
						case len(d.Security) > 0:
							sig = "api-requirements-not-inherited"
						}
						res.Fail(sig, fmt.Sprintf("method %s.%s ends up with requirements %v, the design says %v", svc.Name, m.Name, fin, want), in)
					}
					if md != nil && !sameReqs(dat, firstOfEachName(want)) {
						in["observed_data"] = dat
						res.Fail("requirement-data-differs", fmt.Sprintf("service data of %s.%s lists requirements %v, the design says %v", svc.Name, m.Name, dat, firstOfEachName(want)), in)
					}
					// where goa says each scheme's credential travels for THIS endpoint
					if hs := expr.Root.API.HTTP.Service(svc.Name); hs != nil {
						if he := hs.Endpoint(m.Name); he != nil {
							mi := &methodInfo{D: d, S: svc, M: m}
							var obsIns, wantIns [][][2]string
							var coqObs []string
							for _, r := range he.Requirements {
								var row [][2]string
								var crow []string
								for _, sc := range r.Schemes {
									row = append(row, [2]string{sc.SchemeName + ":" + sc.In, sc.Name})
									crow = append(crow, fmt.Sprintf("(%s, %s)", vh.CoqString(sc.SchemeName), vh.CoqString(sc.In)))
								}
								obsIns = append(obsIns, row)
								coqObs = append(coqObs, vh.CoqList(crow))
							}
							for _, r := range effectiveReqs(d, svc, m) {
								var wrow [][2]string
								for _, n := range r.Schemes {
									k := schemeByName(d, n).Kind
									in, name := "header", "Authorization"
									if k != "basic" {
										a := credAttrsOfKind(k)[0]
										w := wireLoc(m, a)
										switch {
										case strings.HasPrefix(w, "header:"):
											name = strings.TrimPrefix(w, "header:")
										case strings.HasPrefix(w, "query:"):
											in, name = "query", strings.TrimPrefix(w, "query:")
										default:
											in, name = "body", a
										}
									}
									wrow = append(wrow, [2]string{n + ":" + in, name})
								}
								wantIns = append(wantIns, wrow)
							}
							insLines = append(insLines, fmt.Sprintf("(%d, %s, %s, %s)", len(insLines), coqLocs(mi), coqReqs(fin), vh.CoqList(coqObs)))
							if !reflect.DeepEqual(obsIns, wantIns) {
								in["observed_locations"], in["expected_locations"] = obsIns, wantIns
								res.Fail("scheme-location-not-the-methods-own", fmt.Sprintf("endpoint %s.%s: goa records the credential locations %v for its schemes, the method's own mapping says %v (sibling methods inheriting the same requirement must not influence it)",
									svc.Name, m.Name, obsIns, wantIns), in)
							}
							if len(m.Security) == 0 && !m.NoSecurity && len(fin) > 0 {
								res.Count("inheriting_endpoints_observed")
							}
						}
					}
					res.Sample(map[string]any{"tier": "A", "method": svc.Name + "." + m.Name, "own": own, "service": sreqs, "api": areqs, "final": fin}, 2)
					switch {
					case m.NoSecurity:
						res.Count("placement=nosecurity")
					case len(m.Security) > 0:
						res.Count("placement=method")
					case len(svc.Security) > 0:
						res.Count("placement=service")
					case len(d.Security) > 0:
						res.Count("placement=api")
					default:
						res.Count("placement=none")
					}
				}
			}
		}
	}
	return lines, insLines
}

// safeServiceData runs goa's service analysis, which panics on some inconsistent inputs.
func safeServiceData(name string) (sd *service.Data) {
	defer func() {
		if r := recover(); r != nil {
			sd = nil
		}
	}()
	return service.Services.Get(name)
}
