// Command c17 drives the real goa validators (pkg/validation.go: ValidateFormat for
// the 14 formats, ValidatePattern with its process-wide cache of compiled patterns)
// on generated inputs, writes what it observed as Coq terms (compared inside Coq
// with the Formats engine: verified matcher, format recognisers, cache model) and
// evaluates the property's laws directly on the Go results (result.json).
//
// Streams: patterns (syntax trees from a grammar printed to Go syntax, with member /
// near-member / unrelated values), formats (per format: valid by construction,
// corrupted by construction, hostile), sequential histories and concurrent runs
// sharing patterns (run in a child process so that a runtime crash of the cache is
// observed instead of killing the harness), plus one small witness stream per
// recorded finding.
package main

import (
	"encoding/hex"
	"encoding/json"
	"errors"
	"flag"
	"fmt"
	"net"
	"net/mail"
	"net/url"
	"os"
	"os/exec"
	"path/filepath"
	"regexp"
	"strings"
	"sync"
	"time"

	googleuuid "github.com/google/uuid"
	goa "goa.design/goa/v3/pkg"

	"verifharness/vh"
)

// ---------- observing the real code ----------

func errName(err error) string {
	var se *goa.ServiceError
	if errors.As(err, &se) {
		return se.Name
	}
	return "?"
}

func validatePattern(p, v string) (ok bool, name string) {
	err := goa.ValidatePattern("x", v, p)
	if err == nil {
		return true, ""
	}
	return false, errName(err)
}

func validateFormat(f, v string) (ok bool, name string) {
	err := goa.ValidateFormat("x", v, goa.Format(f))
	if err == nil {
		return true, ""
	}
	return false, errName(err)
}

// the standard-library call each format claims to make (independent of goa)
type answers struct{ IP, RFC3339, Mail, URI, MAC, CIDR, Regexp, JSON, RFC1123, Date, UUID bool }

func stdlib(v string) answers {
	var a answers
	a.IP = net.ParseIP(v) != nil
	_, e := time.Parse(time.RFC3339, v)
	a.RFC3339 = e == nil
	_, e = mail.ParseAddress(v)
	a.Mail = e == nil
	_, e = url.ParseRequestURI(v)
	a.URI = e == nil
	_, e = net.ParseMAC(v)
	a.MAC = e == nil
	_, _, e = net.ParseCIDR(v)
	a.CIDR = e == nil
	_, e = regexp.Compile(v)
	a.Regexp = e == nil
	a.JSON = json.Valid([]byte(v))
	_, e = time.Parse(time.RFC1123, v)
	a.RFC1123 = e == nil
	_, e = time.Parse(time.DateOnly, v)
	a.Date = e == nil
	u, e := googleuuid.Parse(v)
	a.UUID = e == nil && u.Variant() == googleuuid.RFC4122 && (len(v) != 38 || (v[0] == '{' && v[37] == '}'))
	return a
}

var modelReadsInput = map[string]bool{"date": true, "uuid": true, "hostname": true, "ipv4": true, "ipv6": true, "ip": true}

var dottedQuad = regexp.MustCompile(`^(?:[0-9]{1,3}\.){3}[0-9]{1,3}$`)

// claimed: what the documented parser of the format says about v
func claimed(f, v string, a answers) (bool, bool) {
	switch f {
	case "date":
		return a.Date, true
	case "date-time":
		return a.RFC3339, true
	case "uuid":
		return a.UUID, true
	case "email":
		return a.Mail, true
	case "ip":
		return a.IP, true
	case "ipv4":
		return a.IP && dottedQuad.MatchString(v), true
	case "ipv6":
		return a.IP && !dottedQuad.MatchString(v), true
	case "uri":
		return a.URI, true
	case "mac":
		return a.MAC, true
	case "cidr":
		return a.CIDR, true
	case "regexp":
		return a.Regexp, true
	case "json":
		return a.JSON, true
	case "rfc1123":
		return a.RFC1123, true
	}
	return false, false // hostname: the expression itself is the definition; see the model
}

func b2c(b bool) string { return vh.CoqBool(b) }

func (a answers) coq() string {
	return fmt.Sprintf("(ans %s %s %s %s %s %s %s %s %s)", b2c(a.IP), b2c(a.RFC3339), b2c(a.Mail), b2c(a.URI), b2c(a.MAC),
		b2c(a.CIDR), b2c(a.Regexp), b2c(a.JSON), b2c(a.RFC1123))
}

// ---------- pattern stream ----------

type PCase struct {
	Pattern string `json:"pattern"`
	Value   string `json:"value"`
	Hex     string `json:"value_hex"`
	Kind    string `json:"kind"`
}

func isASCII(s string) bool {
	for i := 0; i < len(s); i++ {
		if s[i] >= 0x80 {
			return false
		}
	}
	return true
}

// checkPattern: the direct oracle for one (pattern, value).
func checkPattern(res *vh.Result, pc PCase) (observed bool) {
	ok, name := validatePattern(pc.Pattern, pc.Value)
	want, err := regexp.MatchString(pc.Pattern, pc.Value)
	if err != nil {
		panic("pattern does not compile: " + pc.Pattern)
	}
	if ok != want {
		res.Fail("pattern/verdict-differs-from-regexp", fmt.Sprintf("ValidatePattern(%q, %q) accepted=%v, regexp.MatchString says %v", pc.Pattern, pc.Value, ok, want), pc)
	}
	if !ok && name != "invalid_pattern" {
		res.Fail("pattern/wrong-error-name", fmt.Sprintf("ValidatePattern error name %q, expected invalid_pattern", name), pc)
	}
	return ok
}

func fixedTops() []Top {
	alnum := &Re{K: "class", Items: []Item{{Named: "Alnum"}}}
	alnumDash := &Re{K: "class", Items: []Item{{Named: "Alnum"}, {Lo: '-', Hi: '-'}}}
	alpha := &Re{K: "class", Items: []Item{{Named: "Alpha"}}}
	d09 := &Re{K: "class", Items: []Item{{Lo: '0', Hi: '9'}}}
	a, b := &Re{K: "byte", B: 'a'}, &Re{K: "byte", B: 'b'}
	field := &Re{K: "rep", X: d09, Lo: 1, Hi: 3}
	return []Top{
		{{true, &Re{K: "cat", X: alnum, Y: &Re{K: "cat", X: &Re{K: "rep", X: alnumDash, Lo: 0, Hi: 61}, Y: alnum}}, false}, {false, alpha, true}},
		{{true, &Re{K: "cat", X: &Re{K: "rep", X: &Re{K: "cat", X: field, Y: &Re{K: "byte", B: '.'}}, Lo: 3, Hi: 3}, Y: field}, true}},
		{{true, a, false}, {false, b, true}},
		{{true, a, false}, {false, b, false}},
		{{false, a, false}, {false, b, true}},
		{{true, &Re{K: "alt", X: a, Y: b}, true}},
		{{false, &Re{K: "eps"}, false}},
		{{true, &Re{K: "eps"}, true}},
		{{true, &Re{K: "star", X: &Re{K: "star", X: a}}, true}},
		{{true, &Re{K: "rep", X: &Re{K: "opt", X: a}, Lo: 2, Hi: 3}, true}},
		{{false, &Re{K: "class", Neg: true, Items: []Item{{Lo: 'a', Hi: 'a'}}}, true}},
		{{true, &Re{K: "rep", X: &Re{K: "alt", X: a, Y: &Re{K: "cat", X: a, Y: b}}, Lo: 2, Hi: -1}, true}},
	}
}

var fixedValues = []string{"", "a", "b", "ab", "ba", "aab", "abab", "exa!mple.com", "!!!a", "-a", "a.b9", "1.2.3.4", "1.2.3", "256.1.1.1x", "a\nb", "aaa", "aa"}

// ---------- histories and concurrent runs (child process) ----------

type Call struct {
	P int    `json:"p"`
	V string `json:"v"`
}

type History struct {
	Pool    []string `json:"pool"`     // pattern texts
	PoolCoq []string `json:"pool_coq"` // the same as Coq terms
	Calls   [][]Call `json:"calls"`    // per goroutine
	Sched   []int    `json:"sched"`    // schedule the model is run under
}

type HistoryObs struct {
	Verdicts [][]bool `json:"verdicts"`
}

func genHistory(r *vh.RNG, id, threads int) History {
	var h History
	np := 2 + r.Intn(4)
	tops := make([]Top, np)
	for i := range tops {
		tops[i] = genTop(r)
		// every history gets patterns nobody compiled before (cache misses first), by a
		// distinguishing literal branch that cannot match the values used here
		tops[i] = append(tops[i], Branch{true, litRe(fmt.Sprintf("\x00h%dp%d", id, i)), true})
		h.Pool = append(h.Pool, tops[i].Go())
		h.PoolCoq = append(h.PoolCoq, tops[i].Coq())
	}
	var values []string
	for i := 0; i < 4; i++ {
		v, _ := valueFor(r, tops[r.Intn(np)])
		values = append(values, v)
	}
	values = append(values, "", "a")
	total := 0
	for t := 0; t < threads; t++ {
		n := 2 + r.Intn(8)
		if threads == 1 {
			n = 8 + r.Intn(20)
		}
		cs := make([]Call, n)
		for i := range cs {
			cs[i] = Call{r.Intn(np), vh.Pick(r, values)}
		}
		h.Calls = append(h.Calls, cs)
		total += n
	}
	// random interleaving, then round robin so that every call completes
	for i := 0; i < total*6; i++ {
		h.Sched = append(h.Sched, r.Intn(threads))
	}
	maxCalls := 0
	for _, cs := range h.Calls {
		if len(cs) > maxCalls {
			maxCalls = len(cs)
		}
	}
	for i := 0; i < maxCalls*9; i++ {
		for t := 0; t < threads; t++ {
			h.Sched = append(h.Sched, t)
		}
	}
	return h
}

func litRe(s string) *Re {
	var r *Re
	for i := len(s) - 1; i >= 0; i-- {
		b := &Re{K: "byte", B: s[i]}
		if r == nil {
			r = b
		} else {
			r = &Re{K: "cat", X: b, Y: r}
		}
	}
	return r
}

// runHistory runs the calls of h on the real code: one goroutine per call list,
// started together.
func runHistory(h History) HistoryObs {
	obs := HistoryObs{Verdicts: make([][]bool, len(h.Calls))}
	if len(h.Calls) == 1 {
		for _, c := range h.Calls[0] {
			ok, _ := validatePattern(h.Pool[c.P], c.V)
			obs.Verdicts[0] = append(obs.Verdicts[0], ok)
		}
		return obs
	}
	var wg sync.WaitGroup
	start := make(chan struct{})
	for t := range h.Calls {
		wg.Add(1)
		go func(t int) {
			defer wg.Done()
			<-start
			vs := make([]bool, 0, len(h.Calls[t]))
			for _, c := range h.Calls[t] {
				ok, _ := validatePattern(h.Pool[c.P], c.V)
				vs = append(vs, ok)
			}
			obs.Verdicts[t] = vs
		}(t)
	}
	close(start)
	wg.Wait()
	return obs
}

// childMain: run the histories of the file and write the observations.
func childMain(in, out string) {
	b, err := os.ReadFile(in)
	if err != nil {
		panic(err)
	}
	var hs []History
	if err := json.Unmarshal(b, &hs); err != nil {
		panic(err)
	}
	obs := make([]HistoryObs, len(hs))
	for i, h := range hs {
		obs[i] = runHistory(h)
	}
	ob, _ := json.Marshal(obs)
	if err := os.WriteFile(out, ob, 0o644); err != nil {
		panic(err)
	}
}

// stress: many goroutines hammering fresh patterns (used by the -race build).
func stressMain(seed uint64, rounds int) {
	r := vh.NewRNG(seed)
	for k := 0; k < rounds; k++ {
		h := genHistory(r, 1000000+k, 2+r.Intn(15))
		obs := runHistory(h)
		for t, cs := range h.Calls {
			for i, c := range cs {
				want, _ := regexp.MatchString(h.Pool[c.P], c.V)
				if obs.Verdicts[t][i] != want {
					fmt.Printf("STRESS-MISMATCH pattern=%q value=%q\n", h.Pool[c.P], c.V)
					os.Exit(3)
				}
			}
		}
	}
	fmt.Printf("stress ok rounds=%d\n", rounds)
}

func main() {
	seed := flag.Uint64("seed", 1, "")
	tier := flag.String("tier", "quick", "")
	out := flag.String("out", ".", "")
	replay := flag.String("replay", "", "")
	mode := flag.String("mode", "", "internal: child | stress")
	hin := flag.String("histories", "", "internal")
	rounds := flag.Int("rounds", 300, "")
	flag.Parse()
	switch *mode {
	case "child":
		childMain(*hin, filepath.Join(*out, "histories_obs.json"))
		return
	case "stress":
		stressMain(*seed, *rounds)
		return
	}
	rng := vh.NewRNG(*seed)
	res := vh.NewResult()
	distinct := vh.Distinct{}

	nPatterns, perPattern, perFormat, nSeq, nConc := 1250, 4, 500, 40, 40
	if *tier == "thorough" {
		nPatterns, perPattern, perFormat, nSeq, nConc = 5000, 5, 2500, 200, 200
	}

	if *replay != "" && runReplay(*replay, res) {
		res.Rule = "replay of one recorded input"
		must(os.WriteFile(filepath.Join(*out, "cases_pattern.txt"), nil, 0o644))
		must(os.WriteFile(filepath.Join(*out, "cases_format.txt"), nil, 0o644))
		must(os.WriteFile(filepath.Join(*out, "cases_history.txt"), nil, 0o644))
		must(res.Write(filepath.Join(*out, "result.json")))
		return
	}

	// ---- pattern stream ----
	var pv strings.Builder
	pidx := 0
	var pcases []any
	emitPattern := func(t Top, v, kind string) {
		text := t.Go()
		pc := PCase{text, v, hex.EncodeToString([]byte(v)), kind}
		ok := checkPattern(res, pc)
		fmt.Fprintf(&pv, "(%d%%N, %s, %s, %s, %s)\n", pidx, t.Coq(), nbytes(text), nbytes(v), b2c(ok))
		pcases = append(pcases, pc)
		pidx++
		res.Count("pattern_value=" + kind)
		if ok {
			res.Count("pattern_verdict=match")
		} else {
			res.Count("pattern_verdict=no-match")
		}
		distinct.Add("p|" + text + "|" + v)
	}
	for _, t := range fixedTops() {
		if _, err := regexp.Compile(t.Go()); err != nil {
			panic("fixed pattern does not compile: " + t.Go())
		}
		for _, v := range fixedValues {
			emitPattern(t, v, "fixed")
		}
	}
	prng := rng.Fork()
	rejected := 0
	var somePatterns []Top
	for k := 0; k < nPatterns; k++ {
		t := genTop(prng)
		if _, err := regexp.Compile(t.Go()); err != nil {
			rejected++
			res.Sample(map[string]any{"generator_produced_uncompilable_pattern": t.Go(), "error": err.Error()}, 6)
			continue
		}
		if len(somePatterns) < 400 {
			somePatterns = append(somePatterns, t)
		}
		for j := 0; j < perPattern; j++ {
			v, kind := valueFor(prng, t)
			emitPattern(t, v, kind)
		}
		// values recur across patterns (a cache keyed by anything but the pattern shows here)
		emitPattern(t, vh.Pick(prng, fixedValues), "shared")
	}
	res.Dist["pattern_generator_rejected_by_regexp_compile"] = rejected
	// direct-only: values outside ASCII (the model's alphabet is bytes; Go matches runes)
	for k := 0; k < nPatterns/5; k++ {
		t := vh.Pick(prng, somePatterns)
		v := mutate2(prng, "é日"+randString(prng, 4))
		pc := PCase{t.Go(), v, hex.EncodeToString([]byte(v)), "non-ascii-direct-only"}
		checkPattern(res, pc)
		res.Count("pattern_value=non-ascii-direct-only")
	}
	must(os.WriteFile(filepath.Join(*out, "cases_pattern.txt"), []byte(pv.String()), 0o644))

	// ---- format stream ----
	var fv strings.Builder
	fidx := 0
	var fcases []any
	frng := rng.Fork()
	emitFormat := func(c FCase, witness bool) {
		c.Hex = hex.EncodeToString([]byte(c.Value))
		ok, name := validateFormat(c.Format, c.Value)
		a := stdlib(c.Value)
		checkFormat(res, c, ok, name, a, witness)
		// the model of an oracle format does not look at the input: only the modelled
		// formats carry their bytes into Coq
		in := "[]"
		if modelReadsInput[c.Format] {
			in = nbytes(c.Value)
		}
		fmt.Fprintf(&fv, "(%d%%N, %s, %s, %s, %s)\n", fidx, coqFormat[c.Format], in, a.coq(), b2c(ok))
		fcases = append(fcases, c)
		fidx++
		exp := map[int]string{1: "valid", -1: "corrupted", 0: "hostile"}[c.Expect]
		res.Count("format=" + c.Format + "/" + exp)
		if ok {
			res.Count("format_verdict=accepted")
		} else {
			res.Count("format_verdict=rejected")
		}
		if c.Expect != 0 {
			distinct.Add("f|" + c.Format + "|" + c.Value)
		}
	}
	for _, c := range fixedFormatCorpus() {
		emitFormat(c, false)
	}
	var validPool []string
	for _, f := range formatOrder {
		gen := generators[f]
		for k := 0; k < perFormat*85/100; k++ {
			c := gen(frng)
			c.Format = f
			// the recorded findings are generated by their witness streams only
			if f == "hostname" && inHostnameFinding(c) {
				res.Count("hostname_case_moved_to_witness_stream")
				continue
			}
			if c.Expect == 1 && len(validPool) < 600 && frng.Chance(1, 4) {
				validPool = append(validPool, c.Value)
			}
			emitFormat(c, false)
		}
	}
	for _, f := range formatOrder {
		for k := 0; k < perFormat*15/100; k++ {
			c := genHostile(frng, f, validPool)
			c.Format = f
			emitFormat(c, false)
		}
	}
	// relations between ip, ipv4 and ipv6 on every address-like string seen
	relationIP(res, fcases)
	// witness streams of the recorded findings
	wrng := rng.Fork()
	for _, c := range findingWitnesses(wrng) {
		emitFormat(c, true)
	}
	must(os.WriteFile(filepath.Join(*out, "cases_format.txt"), []byte(fv.String()), 0o644))

	// ---- histories (sequential) and concurrent runs, in a child process ----
	hrng := rng.Fork()
	var hs []History
	for k := 0; k < nSeq; k++ {
		hs = append(hs, genHistory(hrng, k, 1))
	}
	for k := 0; k < nConc; k++ {
		hs = append(hs, genHistory(hrng, nSeq+k, 1+hrng.Intn(16)))
	}
	hb, _ := json.Marshal(hs)
	hfile := filepath.Join(*out, "histories.json")
	must(os.WriteFile(hfile, hb, 0o644))
	cmd := exec.Command(os.Args[0], "-mode", "child", "-histories", hfile, "-out", *out)
	cout, cerr := cmd.CombinedOutput()
	var hv strings.Builder
	if cerr != nil {
		msg := string(cout)
		if len(msg) > 1500 {
			msg = msg[:1500]
		}
		res.Fail("pattern-cache/concurrent-use-crashes", "calling ValidatePattern from several goroutines killed the process: "+firstLine(msg),
			map[string]any{"kind": "histories", "output": msg, "histories_file": "regenerate with the same seed"})
	} else {
		var obs []HistoryObs
		ob, err := os.ReadFile(filepath.Join(*out, "histories_obs.json"))
		must(err)
		must(json.Unmarshal(ob, &obs))
		for i, h := range hs {
			checkHistory(res, h, obs[i])
			fmt.Fprintf(&hv, "(%d%%N, %s, %s, %s, %s)\n", i, "["+strings.Join(h.PoolCoq, "; ")+"]", coqCalls(h.Calls), vh.CoqNatList(h.Sched), coqVerdicts(obs[i].Verdicts))
			res.Count(fmt.Sprintf("history_goroutines=%d", len(h.Calls)))
			for _, cs := range h.Calls {
				res.Dist["history_calls"] += len(cs)
			}
			distinct.Add(fmt.Sprintf("h|%d", i))
		}
	}
	must(os.WriteFile(filepath.Join(*out, "cases_history.txt"), []byte(hv.String()), 0o644))

	res.Evaluations = pidx + fidx + res.Dist["history_calls"] + res.Dist["pattern_value=non-ascii-direct-only"]
	res.Distinct = len(distinct)
	res.Rule = "patterns: syntax trees from the grammar (bytes, negatable classes with ranges and POSIX names, concatenation, alternation, * + ?, bounded and open repeats, ^/$ per top-level branch) printed to Go syntax, values = member of a branch / 1-2 point mutation of a member / unrelated / shared literals, ASCII; formats: per format valid-by-construction instances, single-point corruptions (operators named in distribution) and hostile byte strings; histories: 1 goroutine x 8-27 calls and 1-16 goroutines x 2-9 calls over 2-5 fresh patterns; non-trivial = every pattern case and every format case with an expectation, distinct = distinct (pattern,value) / (format,value) / history"
	for i, c := range pcases {
		if i%997 == 3 {
			res.Sample(map[string]any{"pattern_case": c}, 3)
		}
	}
	for i, c := range fcases {
		if i%1499 == 7 {
			res.Sample(map[string]any{"format_case": c}, 8)
		}
	}
	res.Extra["pattern_cases"] = pidx
	res.Extra["format_cases"] = fidx
	res.Extra["history_cases"] = len(hs)
	// the case tables (index -> replayable input) are written next to the result
	cb, _ := json.Marshal(map[string]any{"pattern": pcases, "format": fcases, "history": hs})
	must(os.WriteFile(filepath.Join(*out, "case_table.json"), cb, 0o644))
	must(res.Write(filepath.Join(*out, "result.json")))
}

func must(err error) {
	if err != nil {
		panic(err)
	}
}

func firstLine(s string) string {
	for _, l := range strings.Split(s, "\n") {
		if strings.Contains(l, "fatal error") || strings.Contains(l, "panic") {
			return l
		}
	}
	if i := strings.IndexByte(s, '\n'); i >= 0 {
		return s[:i]
	}
	return s
}

func coqCalls(calls [][]Call) string {
	ts := make([]string, len(calls))
	for t, cs := range calls {
		xs := make([]string, len(cs))
		for i, c := range cs {
			xs[i] = fmt.Sprintf("(%d, %s)", c.P, nbytes(c.V))
		}
		ts[t] = "[" + strings.Join(xs, "; ") + "]"
	}
	return "[" + strings.Join(ts, "; ") + "]"
}

func coqVerdicts(vs [][]bool) string {
	ts := make([]string, len(vs))
	for t, v := range vs {
		xs := make([]string, len(v))
		for i, b := range v {
			xs[i] = b2c(b)
		}
		ts[t] = "[" + strings.Join(xs, "; ") + "]"
	}
	return "[" + strings.Join(ts, "; ") + "]"
}

// ---------- direct oracle: formats ----------

func inHostnameFinding(c FCase) bool {
	switch c.Expect {
	case -1:
		return hostPrefixOK(c.Value) || hostEndsAlpha(c.Value)
	case 1:
		first := strings.SplitN(c.Value, ".", 2)[0]
		return len(first) == 1 && !hostEndsAlpha(c.Value)
	}
	return false
}

func checkFormat(res *vh.Result, c FCase, ok bool, name string, a answers, witness bool) {
	if !ok && name != "invalid_format" {
		res.Fail("format/wrong-error-name", fmt.Sprintf("ValidateFormat(%s) error name %q, expected invalid_format", c.Format, name), c)
	}
	// the format decides as the parser it documents (independent of the model)
	if want, has := claimed(c.Format, c.Value, a); has && want != ok {
		res.Fail("format/"+c.Format+"/not-the-documented-parser",
			fmt.Sprintf("ValidateFormat(%q, %s) accepted=%v but the parser the format documents says %v", c.Value, c.Format, ok, want), c)
	}
	switch {
	case c.Expect == 1 && !ok:
		sig := "format/" + c.Format + "/rejects-valid"
		if c.Format == "hostname" && inHostnameFinding(c) {
			sig = "format/hostname/rejects-valid:one-byte-first-label-and-digit-at-the-end"
		}
		res.Fail(sig, fmt.Sprintf("%s value %q is well formed by construction (%s) and was rejected", c.Format, c.Value, c.Op), c)
	case c.Expect == -1 && ok:
		sig := "format/" + c.Format + "/accepts-" + c.Op
		if c.Format == "hostname" && inHostnameFinding(c) {
			// accepted because the corrupted string still begins alnum -* alnum or ends in a letter
			sig = "format/hostname/accepts-corrupted:prefix-of-two-alphanumerics-or-letter-at-the-end"
		}
		if c.Format == "uri" && c.Op == "bad-percent-escape-in-query-or-opaque-part" {
			sig = "format/uri/accepts-corrupted:bad-percent-escape-in-query-or-opaque-part"
		}
		res.Fail(sig, fmt.Sprintf("%s value %q is malformed by construction (%s of %q) and was accepted", c.Format, c.Value, c.Op, c.Base), c)
	}
	_ = witness
}

func relationIP(res *vh.Result, cases []any) {
	seen := map[string]bool{}
	n := 0
	for _, x := range cases {
		c := x.(FCase)
		if c.Format != "ip" && c.Format != "ipv4" && c.Format != "ipv6" && c.Format != "cidr" {
			continue
		}
		if seen[c.Value] {
			continue
		}
		seen[c.Value] = true
		ip, _ := validateFormat("ip", c.Value)
		v4, _ := validateFormat("ipv4", c.Value)
		v6, _ := validateFormat("ipv6", c.Value)
		n++
		if ip != (v4 || v6) || (v4 && v6) {
			res.Fail("format/ip-not-ipv4-xor-ipv6", fmt.Sprintf("%q: ip=%v ipv4=%v ipv6=%v", c.Value, ip, v4, v6),
				FCase{Format: "ip", Value: c.Value, Hex: hex.EncodeToString([]byte(c.Value)), Op: "relation"})
		}
	}
	res.Dist["ip_relation_strings"] = n
}

func fixedFormatCorpus() []FCase {
	v := func(f, s string) FCase { return FCase{Format: f, Value: s, Expect: 1, Op: "corpus-valid"} }
	x := func(f, s, op string) FCase { return FCase{Format: f, Value: s, Expect: -1, Op: op} }
	return []FCase{
		v("date", "2015-10-26"), x("date", "201510-26", "corpus-invalid"), v("date", "2024-02-29"), x("date", "2023-02-29", "feb-29-non-leap"),
		v("date", "0000-02-29"), v("date", "2000-02-29"), x("date", "1900-02-29", "feb-29-non-leap"),
		v("date-time", "2015-10-26T08:31:23Z"), x("date-time", "201510-26T08:31:23Z", "corpus-invalid"),
		v("uuid", "6ba7b810-9dad-11d1-80b4-00c04fd430c8"), v("uuid", "{6ba7b810-9dad-11d1-80b4-00c04fd430c8}"),
		v("uuid", "6ba7b8109dad11d180b400c04fd430c8"), v("uuid", "urn:uuid:6ba7b810-9dad-11d1-80b4-00c04fd430c8"),
		x("uuid", "X6ba7b810-9dad-11d1-80b4-00c04fd430c8Y", "brace-replaced"), x("uuid", "{6ba7b810-9dad-11d1-80b4-00c04fd430c8)", "brace-replaced"),
		x("uuid", "96054a62-a9e45ed26688389b", "corpus-invalid"), x("uuid", "123e4567-e89b-12d3-a456-42661417400g", "corpus-invalid"),
		v("email", "raphael@goa.design"), x("email", "foo", "corpus-invalid"),
		v("hostname", "goa.design"), x("hostname", "_hi_", "corpus-invalid"),
		v("ipv4", "192.168.0.1"), x("ipv4", "192-168.0.1", "corpus-invalid"), x("ipv4", "::1", "an-ipv6-address"),
		v("ipv6", "::1"), x("ipv6", "foo", "corpus-invalid"), x("ipv6", "192.168.0.1", "an-ipv4-address"),
		v("ip", "192.168.0.1"), v("ip", "::1"), x("ip", "foo", "corpus-invalid"),
		v("uri", "hhp://goa.design/contact"), x("uri", "foo_", "corpus-invalid"),
		v("mac", "06-00-00-00-00-00"), x("mac", "bar", "corpus-invalid"),
		v("cidr", "10.0.0.0/8"), x("cidr", "foo", "corpus-invalid"),
		v("regexp", "^goa$"), x("regexp", "foo[", "corpus-invalid"),
		v("json", `{"foo":"bar"}`), x("json", `{"foo":"bar"`, "corpus-invalid"),
		v("rfc1123", "Mon, 04 Jun 2017 23:52:05 MST"), x("rfc1123", "Mon 04 Jun 2017 23:52:05 MST", "missing-comma"),
	}
}

// findingWitnesses: the recorded findings, re-demonstrated on every run.
func findingWitnesses(r *vh.RNG) []FCase {
	hx := func(s, base, op string) FCase { return FCase{Format: "hostname", Value: s, Expect: -1, Op: op, Base: base} }
	out := []FCase{
		hx("exa!mple.com", "example.com", "byte-to-forbidden"),
		hx("!!!a", "abca", "byte-to-forbidden"),
		hx("-a", "aa", "leading-hyphen-label"),
		{Format: "hostname", Value: "a.b9", Expect: 1, Op: "valid"},
		{Format: "hostname", Value: "x.y.z1", Expect: 1, Op: "valid"},
	}
	for k := 0; k < 40; k++ {
		c := genHostname(r)
		c.Format = "hostname"
		if inHostnameFinding(c) {
			out = append(out, c)
		}
	}
	out = append(out, FCase{Format: "uri", Value: "http://goa.design/?q=%zz", Expect: -1, Op: "bad-percent-escape-in-query-or-opaque-part", Base: "http://goa.design/?q=1"})
	for k := 0; k < 10; k++ {
		out = append(out, uriEscapeWitness(r))
	}
	return out
}

// ---------- direct oracle: histories ----------

func checkHistory(res *vh.Result, h History, o HistoryObs) {
	type key struct {
		p int
		v string
	}
	first := map[key]bool{}
	for t, cs := range h.Calls {
		if len(o.Verdicts[t]) != len(cs) {
			res.Fail("pattern-cache/lost-call", "a goroutine did not complete its calls", map[string]any{"kind": "history", "history": h})
			return
		}
		for i, c := range cs {
			got := o.Verdicts[t][i]
			want, _ := regexp.MatchString(h.Pool[c.P], c.V)
			in := map[string]any{"kind": "history", "pattern": h.Pool[c.P], "value": c.V, "value_hex": hex.EncodeToString([]byte(c.V)),
				"goroutines": len(h.Calls), "goroutine": t, "call": i, "history": h}
			if got != want {
				res.Fail("pattern-cache/verdict-differs-from-regexp",
					fmt.Sprintf("call %d of goroutine %d (of %d): ValidatePattern(%q, %q) accepted=%v, regexp.MatchString says %v", i, t, len(h.Calls), h.Pool[c.P], c.V, got, want), in)
			}
			k := key{c.P, c.V}
			if prev, seen := first[k]; seen && prev != got {
				res.Fail("pattern-cache/verdict-depends-on-history",
					fmt.Sprintf("the same (pattern, value) (%q, %q) got two different verdicts within one history", h.Pool[c.P], c.V), in)
			} else if !seen {
				first[k] = got
			}
		}
	}
}

// ---------- replay ----------

// runReplay re-runs one recorded input; false when the record is not a single input
// (a crash or a race report of the concurrent runs): the whole run is repeated then.
func runReplay(path string, res *vh.Result) bool {
	b, err := os.ReadFile(path)
	must(err)
	var rp struct {
		Input map[string]any `json:"input"`
	}
	if err := json.Unmarshal(b, &rp); err != nil || rp.Input == nil {
		fmt.Println("replay: the record has no input (a broken proof or correspondence); repeating the whole run")
		return false
	}
	val := func() string {
		if h, ok := rp.Input["value_hex"].(string); ok {
			if raw, err := hex.DecodeString(h); err == nil {
				return string(raw)
			}
		}
		s, _ := rp.Input["value"].(string)
		return s
	}
	if p, ok := rp.Input["pattern"].(string); ok {
		pc := PCase{p, val(), hex.EncodeToString([]byte(val())), "replay"}
		ok := checkPattern(res, pc)
		fmt.Printf("replay: ValidatePattern(%q, %q) accepted=%v\n", p, val(), ok)
		res.Evaluations = 1
		return true
	}
	if f, ok := rp.Input["format"].(string); ok {
		c := FCase{Format: f, Value: val()}
		if e, ok := rp.Input["expect"].(float64); ok {
			c.Expect = int(e)
		}
		c.Op, _ = rp.Input["op"].(string)
		c.Base, _ = rp.Input["base"].(string)
		c.Hex = hex.EncodeToString([]byte(c.Value))
		okv, name := validateFormat(f, c.Value)
		checkFormat(res, c, okv, name, stdlib(c.Value), false)
		if c.Op == "relation" {
			relationIP(res, []any{c})
		}
		fmt.Printf("replay: ValidateFormat(%q, %s) accepted=%v\n", c.Value, f, okv)
		res.Evaluations = 1
		return true
	}
	fmt.Println("replay: the record is not a single input; repeating the whole run with its seed")
	return false
}
