package main

// Per-format constructive generators (valid by construction) and single-point
// corruption operators (malformed by construction).

import (
	"fmt"
	"strings"
	"time"

	"verifharness/vh"
)

// FCase is one input of the format stream.
type FCase struct {
	Format string `json:"format"`
	Value  string `json:"value"`
	Hex    string `json:"value_hex"`
	Expect int    `json:"expect"` // +1 valid by construction, -1 malformed by construction, 0 no expectation
	Op     string `json:"op"`     // generator / corruption operator
	Base   string `json:"base,omitempty"`
}

var formatOrder = []string{"date", "date-time", "uuid", "email", "hostname", "ipv4", "ipv6", "ip", "uri", "mac", "cidr", "regexp", "json", "rfc1123"}

var coqFormat = map[string]string{"date": "FDate", "date-time": "FDateTime", "uuid": "FUUID", "email": "FEmail", "hostname": "FHostname",
	"ipv4": "FIPv4", "ipv6": "FIPv6", "ip": "FIP", "uri": "FURI", "mac": "FMAC", "cidr": "FCIDR", "regexp": "FRegexp", "json": "FJSON", "rfc1123": "FRFC1123"}

func setAt(s string, i int, b byte) string { x := []byte(s); x[i] = b; return string(x) }
func dropAt(s string, i int) string        { return s[:i] + s[i+1:] }
func insAt(s string, i int, b byte) string { return s[:i] + string([]byte{b}) + s[i:] }

var nonDigits = []byte("aOlxZ /-.:+_")
var letters = []byte("abcdefghijklmnopqrstuvwxyzABCDEFGHIJKLMNOPQRSTUVWXYZ")

func isLeap(y int) bool { return y%4 == 0 && (y%100 != 0 || y%400 == 0) }
func daysIn(y, m int) int {
	switch m {
	case 2:
		if isLeap(y) {
			return 29
		}
		return 28
	case 4, 6, 9, 11:
		return 30
	}
	return 31
}

func genYMD(r *vh.RNG) (int, int, int) {
	y := r.Intn(10000)
	if r.Chance(1, 2) {
		y = vh.Pick(r, []int{0, 4, 100, 400, 1900, 1999, 2000, 2023, 2024, 2100, 2400, 9999, 1600, 1700})
	}
	m := 1 + r.Intn(12)
	if r.Chance(1, 3) {
		m = 2
	}
	d := 1 + r.Intn(daysIn(y, m))
	if r.Chance(1, 3) {
		d = daysIn(y, m)
	}
	return y, m, d
}

func digitPositions(s string) []int {
	var p []int
	for i := 0; i < len(s); i++ {
		if isDigit(s[i]) {
			p = append(p, i)
		}
	}
	return p
}

// ---------- date ----------

func genDate(r *vh.RNG) FCase {
	y, m, d := genYMD(r)
	v := fmt.Sprintf("%04d-%02d-%02d", y, m, d)
	k := r.Intn(100)
	if k < 40 {
		return FCase{Value: v, Expect: 1, Op: "valid"}
	}
	c := FCase{Expect: -1, Base: v}
	switch op := r.Intn(9); op {
	case 0:
		c.Op, c.Value = "digit-to-nondigit", setAt(v, vh.Pick(r, digitPositions(v)), vh.Pick(r, nonDigits))
	case 1:
		c.Op, c.Value = "drop-separator", dropAt(v, vh.Pick(r, []int{4, 7}))
	case 2:
		c.Op, c.Value = "separator-replaced", setAt(v, vh.Pick(r, []int{4, 7}), vh.Pick(r, []byte("/. T:_0")))
	case 3:
		c.Op, c.Value = "month-out-of-range", fmt.Sprintf("%04d-%02d-%02d", y, vh.Pick(r, []int{0, 13, 14, 20, 99}), d)
	case 4:
		bad := vh.Pick(r, []int{0, daysIn(y, m) + 1, 32, 40, 99})
		c.Op, c.Value = "day-out-of-range", fmt.Sprintf("%04d-%02d-%02d", y, m, bad)
	case 5:
		c.Op, c.Value = "append-byte", v+string([]byte{vh.Pick(r, []byte("0 ZT\n"))})
	case 6:
		c.Op, c.Value = "drop-byte", dropAt(v, r.Intn(len(v)))
	case 7:
		c.Op, c.Value = "prepend-byte", string([]byte{vh.Pick(r, []byte("0 +-"))})+v
	default:
		// 29 February of a year that is not a leap year
		ny := vh.Pick(r, []int{1900, 2100, 2023, 1, 2200, 9998})
		c.Op, c.Value, c.Base = "feb-29-non-leap", fmt.Sprintf("%04d-02-29", ny), ""
	}
	return c
}

// ---------- date-time ----------

func genDateTime(r *vh.RNG) FCase {
	y, m, d := genYMD(r)
	hh, mm, ss := r.Intn(24), r.Intn(60), r.Intn(60)
	frac := ""
	if r.Chance(1, 3) {
		frac = "." + fmt.Sprint(1+r.Intn(999999))
	}
	zone := "Z"
	if r.Chance(1, 2) {
		zone = fmt.Sprintf("%s%02d:%02d", vh.Pick(r, []string{"+", "-"}), r.Intn(15), vh.Pick(r, []int{0, 30, 45, 59}))
	}
	mk := func(y, m, d, hh, mm, ss int) string {
		return fmt.Sprintf("%04d-%02d-%02dT%02d:%02d:%02d%s%s", y, m, d, hh, mm, ss, frac, zone)
	}
	v := mk(y, m, d, hh, mm, ss)
	if r.Intn(100) < 40 {
		return FCase{Value: v, Expect: 1, Op: "valid"}
	}
	c := FCase{Expect: -1, Base: v}
	switch op := r.Intn(10); op {
	case 0:
		p := vh.Pick(r, []int{0, 1, 2, 3, 5, 6, 8, 9, 11, 12, 14, 15, 17, 18})
		c.Op, c.Value = "digit-to-nondigit", setAt(v, p, vh.Pick(r, []byte("aOlx_/")))
	case 1:
		c.Op, c.Value = "drop-zone", strings.TrimSuffix(v, zone)
	case 2:
		c.Op, c.Value = "hour-out-of-range", mk(y, m, d, vh.Pick(r, []int{24, 25, 30, 99}), mm, ss)
	case 3:
		c.Op, c.Value = "minute-out-of-range", mk(y, m, d, hh, vh.Pick(r, []int{60, 61, 99}), ss)
	case 4:
		c.Op, c.Value = "second-out-of-range", mk(y, m, d, hh, mm, vh.Pick(r, []int{61, 70, 99}))
	case 5:
		c.Op, c.Value = "month-out-of-range", mk(y, vh.Pick(r, []int{0, 13, 99}), d, hh, mm, ss)
	case 6:
		c.Op, c.Value = "day-out-of-range", mk(y, m, vh.Pick(r, []int{0, daysIn(y, m) + 1, 32, 99}), hh, mm, ss)
	case 7:
		c.Op, c.Value = "drop-T", dropAt(v, 10)
	case 8:
		c.Op, c.Value = "drop-colon", dropAt(v, vh.Pick(r, []int{13, 16}))
	default:
		c.Op, c.Value = "date-only", v[:10]
	}
	return c
}

// ---------- uuid ----------

const hexLower = "0123456789abcdef"
const hexAll = "0123456789abcdefABCDEF"

// genUUID36 draws the canonical 36-byte form with RFC 4122 variant bits.
func genUUID36(r *vh.RNG) string {
	b := make([]byte, 36)
	for i := range b {
		switch i {
		case 8, 13, 18, 23:
			b[i] = '-'
		case 19:
			b[i] = vh.Pick(r, []byte("89abAB"))
		default:
			b[i] = hexAll[r.Intn(len(hexAll))]
		}
	}
	return string(b)
}

var nonHex = []byte("gGzZxX-_ .:{}")

func genUUID(r *vh.RNG) FCase {
	u := genUUID36(r)
	form := r.Intn(4)
	var v string
	var hexPos, dashPos []int
	variantPos := 19
	switch form {
	case 0:
		v = u
	case 1:
		v = strings.ReplaceAll(u, "-", "")
		variantPos = 16
	case 2:
		v = "{" + u + "}"
		variantPos = 20
	default:
		p := []byte("urn:uuid:")
		for i := range p {
			if r.Chance(1, 4) && isLower(p[i]) {
				p[i] -= 32
			}
		}
		v = string(p) + u
		variantPos = 28
	}
	off := map[int]int{0: 0, 2: 1, 3: 9}[form]
	if form == 1 {
		for i := 0; i < 32; i++ {
			hexPos = append(hexPos, i)
		}
	} else {
		for i := 0; i < 36; i++ {
			if i == 8 || i == 13 || i == 18 || i == 23 {
				dashPos = append(dashPos, off+i)
			} else {
				hexPos = append(hexPos, off+i)
			}
		}
	}
	name := []string{"canonical", "raw-hex", "braces", "urn"}[form]
	if r.Intn(100) < 40 {
		return FCase{Value: v, Expect: 1, Op: "valid-" + name}
	}
	c := FCase{Expect: -1, Base: v}
	ops := []string{"hex-to-nonhex", "hex-to-nonhex", "drop-byte", "insert-byte", "variant-not-rfc4122"}
	if len(dashPos) > 0 {
		ops = append(ops, "dash-replaced")
	}
	if form == 3 {
		ops = append(ops, "urn-prefix-changed", "urn-colon-replaced")
	}
	if form == 2 {
		ops = append(ops, "brace-replaced", "brace-replaced")
	}
	c.Op = vh.Pick(r, ops)
	switch c.Op {
	case "hex-to-nonhex":
		c.Value = setAt(v, vh.Pick(r, hexPos), vh.Pick(r, nonHex))
	case "dash-replaced":
		c.Value = setAt(v, vh.Pick(r, dashPos), vh.Pick(r, []byte("0af_ :")))
	case "drop-byte":
		c.Value = dropAt(v, r.Intn(len(v)))
	case "insert-byte":
		c.Value = insAt(v, r.Intn(len(v)+1), vh.Pick(r, []byte("0a-f")))
	case "variant-not-rfc4122":
		c.Value = setAt(v, variantPos, vh.Pick(r, []byte("01234567cdefCDEF")))
	case "urn-prefix-changed":
		c.Value = setAt(v, vh.Pick(r, []int{0, 1, 2, 4, 5, 6, 7}), vh.Pick(r, []byte("xqz0")))
	case "urn-colon-replaced":
		c.Value = setAt(v, vh.Pick(r, []int{3, 8}), vh.Pick(r, []byte(";-_a")))
	case "brace-replaced":
		c.Value = setAt(v, vh.Pick(r, []int{0, 37}), vh.Pick(r, []byte("XY[]()0a \n")))
	}
	return c
}

// ---------- email ----------

const atext = "abcdefghijklmnopqrstuvwxyzABCDEFGHIJKLMNOPQRSTUVWXYZ0123456789!#$%&'*+/=?^_`{|}~-"

func genWord(r *vh.RNG, alphabet string, min, max int) string {
	n := min + r.Intn(max-min+1)
	b := make([]byte, n)
	for i := range b {
		if r.Chance(4, 5) {
			b[i] = alphabet[r.Intn(36)%len(alphabet)] // letters and digits mostly
		} else {
			b[i] = alphabet[r.Intn(len(alphabet))]
		}
	}
	return string(b)
}

const ldh = "abcdefghijklmnopqrstuvwxyz0123456789ABCDEFGHIJKLMNOPQRSTUVWXYZ-"

// genLabel: RFC 1035 label: letter, then letters digits hyphens, ending in a letter or digit.
func genLabel(r *vh.RNG, n int) string {
	b := make([]byte, n)
	for i := range b {
		switch {
		case i == 0:
			b[i] = letters[r.Intn(len(letters))]
		case i == n-1:
			b[i] = ldh[r.Intn(62)]
		default:
			if r.Chance(1, 6) {
				b[i] = '-'
			} else {
				b[i] = ldh[r.Intn(36)]
			}
		}
	}
	return string(b)
}

func genDomain(r *vh.RNG) string {
	n := 1 + r.Intn(3)
	ls := make([]string, n)
	for i := range ls {
		ls[i] = genLabel(r, 1+r.Intn(8))
	}
	return strings.Join(ls, ".")
}

func genEmail(r *vh.RNG) FCase {
	nl := 1 + r.Intn(3)
	parts := make([]string, nl)
	for i := range parts {
		parts[i] = genWord(r, atext, 1, 6)
	}
	local := strings.Join(parts, ".")
	dom := genDomain(r)
	addr := local + "@" + dom
	k := r.Intn(100)
	switch {
	case k < 30:
		return FCase{Value: addr, Expect: 1, Op: "valid-addr-spec"}
	case k < 36:
		return FCase{Value: "<" + addr + ">", Expect: 1, Op: "valid-angle-addr"}
	case k < 42:
		return FCase{Value: vh.Pick(r, []string{"Bob", "Alice B", "\"Doe, J\""}) + " <" + addr + ">", Expect: 1, Op: "valid-name-addr"}
	}
	c := FCase{Expect: -1, Base: addr}
	at := strings.IndexByte(addr, '@')
	switch op := r.Intn(9); op {
	case 0:
		c.Op, c.Value = "drop-at", dropAt(addr, at)
	case 1:
		c.Op, c.Value = "double-at", insAt(addr, at, '@')
	case 2:
		c.Op, c.Value = "empty-local", addr[at:]
	case 3:
		c.Op, c.Value = "empty-domain", addr[:at+1]
	case 4:
		c.Op, c.Value = "unclosed-angle", "<"+addr
	case 5:
		c.Op, c.Value = "control-byte", insAt(addr, r.Intn(len(addr)+1), vh.Pick(r, []byte("\x01\x00\x7f\n")))
	case 6:
		c.Op, c.Value = "leading-dot", "."+addr
	case 7:
		c.Op, c.Value, c.Base = "double-dot-local", local+"..x@"+dom, local+".x@"+dom
	default:
		if len(dom) < 2 {
			dom = "a" + dom
		}
		c.Op, c.Value, c.Base = "space-in-domain", local+"@"+insAt(dom, 1+r.Intn(len(dom)-1), ' '), local+"@"+dom
	}
	return c
}

// ---------- hostname ----------

// hostPrefixOK / hostEndsAlpha: what the host name expression accepts, computed
// without the expression (Formats.FormatModel.starts_ok / ends_alpha).
func hostPrefixOK(s string) bool {
	if len(s) == 0 || !isAlnum(s[0]) {
		return false
	}
	for i := 1; i < len(s) && i <= 62; i++ {
		if isAlnum(s[i]) {
			return true
		}
		if s[i] != '-' {
			return false
		}
	}
	return false
}

func hostEndsAlpha(s string) bool { return len(s) > 0 && isAlpha(s[len(s)-1]) }

func genHostnameValid(r *vh.RNG) string {
	n := 1 + r.Intn(4)
	ls := make([]string, n)
	for i := range ls {
		ln := 1 + r.Intn(10)
		switch r.Intn(12) {
		case 0:
			ln = 63
		case 1:
			ln = 62
		case 2, 3:
			ln = 1
		case 4:
			ln = 2
		}
		ls[i] = genLabel(r, ln)
	}
	if r.Chance(1, 2) { // a top-level label made of letters
		ls[n-1] = genWord(r, string(letters), 2, 5)
	}
	return strings.Join(ls, ".")
}

var hostBad = []byte("!_ /@*\x00~,:")

func genHostname(r *vh.RNG) FCase {
	h := genHostnameValid(r)
	if r.Intn(100) < 45 {
		return FCase{Value: h, Expect: 1, Op: "valid"}
	}
	c := FCase{Expect: -1, Base: h}
	// the main stream aims where the expression can see the corruption: the first
	// two bytes and the last one
	pos := r.Intn(len(h))
	if r.Chance(2, 3) {
		pos = vh.Pick(r, []int{0, 1 % len(h), len(h) - 1})
	}
	switch op := r.Intn(4); op {
	case 0, 1:
		c.Op, c.Value = "byte-to-forbidden", setAt(h, pos, vh.Pick(r, hostBad))
	case 2:
		c.Op, c.Value = "leading-hyphen-label", "-"+h
	default:
		c.Op, c.Value = "trailing-dot-dot", h+".."
	}
	return c
}

// ---------- ip ----------

func genQuad(r *vh.RNG) [4]int {
	var q [4]int
	for i := range q {
		q[i] = vh.Pick(r, []int{0, 1, 9, 10, 99, 100, 127, 192, 199, 200, 249, 250, 255, r.Intn(256), r.Intn(256)})
	}
	return q
}

func quadString(q [4]int) string { return fmt.Sprintf("%d.%d.%d.%d", q[0], q[1], q[2], q[3]) }

func corruptIPv4(r *vh.RNG, q [4]int) (string, string) {
	v := quadString(q)
	f := strings.Split(v, ".")
	i := r.Intn(4)
	switch op := r.Intn(9); op {
	case 0:
		f[i] = fmt.Sprint(vh.Pick(r, []int{256, 257, 260, 300, 999}))
		return "field-over-255", strings.Join(f, ".")
	case 1:
		return "digit-to-letter", setAt(v, vh.Pick(r, digitPositions(v)), vh.Pick(r, []byte("aOlxf:")))
	case 2:
		return "drop-field", strings.Join(f[:3], ".")
	case 3:
		return "extra-field", v + "." + fmt.Sprint(r.Intn(256))
	case 4:
		f[i] = ""
		return "empty-field", strings.Join(f, ".")
	case 5:
		f[i] = "0" + f[i]
		return "leading-zero", strings.Join(f, ".")
	case 6:
		return "trailing-dot", v + "."
	case 7:
		f[i] = fmt.Sprint(1000 + r.Intn(9000))
		return "four-digit-field", strings.Join(f, ".")
	default:
		return "separator-replaced", strings.Replace(v, ".", vh.Pick(r, []string{",", ":", " ", "-"}), 1)
	}
}

func hexGroup(r *vh.RNG) string {
	n := 1 + r.Intn(4)
	b := make([]byte, n)
	for i := range b {
		b[i] = hexAll[r.Intn(len(hexAll))]
	}
	return string(b)
}

// genIPv6Valid: full form, one "::" compression, or an embedded dotted quad tail.
func genIPv6Valid(r *vh.RNG) string {
	if r.Chance(1, 12) {
		// IPv4-mapped: an ipv6 by its text although the address is an IPv4 one
		return vh.Pick(r, []string{"::ffff:", "::FFFF:", "0:0:0:0:0:ffff:"}) + quadString(genQuad(r))
	}
	groups := 8
	tail := ""
	if r.Chance(1, 5) {
		groups = 6
		tail = quadString(genQuad(r))
	}
	g := make([]string, groups)
	for i := range g {
		g[i] = hexGroup(r)
	}
	if r.Chance(1, 2) {
		// replace a run of k >= 1 groups by "::"
		k := 1 + r.Intn(groups)
		i := r.Intn(groups - k + 1)
		left, right := strings.Join(g[:i], ":"), strings.Join(g[i+k:], ":")
		s := left + "::" + right
		if tail != "" {
			if right == "" {
				return left + "::" + tail
			}
			return s + ":" + tail
		}
		return s
	}
	s := strings.Join(g, ":")
	if tail != "" {
		s += ":" + tail
	}
	return s
}

func corruptIPv6(r *vh.RNG) (string, string, string) {
	g := make([]string, 8)
	for i := range g {
		g[i] = hexGroup(r)
	}
	full := strings.Join(g, ":")
	i := r.Intn(8)
	switch op := r.Intn(8); op {
	case 0:
		h := append([]string{}, g...)
		h[i] = g[i] + "0000"[:5-len(g[i])]
		return "five-digit-group", strings.Join(h, ":"), full
	case 1:
		p := r.Intn(len(full))
		for full[p] == ':' {
			p = r.Intn(len(full))
		}
		return "hex-to-nonhex", setAt(full, p, vh.Pick(r, []byte("gGzx_."))), full
	case 2:
		return "two-compressions", g[0] + "::" + g[1] + "::" + g[2], ""
	case 3:
		return "nine-groups", full + ":" + hexGroup(r), full
	case 4:
		return "seven-groups", strings.Join(g[:7], ":"), full
	case 5:
		return "trailing-colon", strings.Join(g[:7], ":") + ":", full
	case 6:
		return "triple-colon", g[0] + ":::" + g[1], ""
	default:
		return "embedded-quad-over-255", "::ffff:" + fmt.Sprintf("%d.%d.%d.%d", r.Intn(256), 256+r.Intn(100), r.Intn(256), r.Intn(256)), ""
	}
}

func genIPv4(r *vh.RNG) FCase {
	q := genQuad(r)
	switch k := r.Intn(100); {
	case k < 35:
		return FCase{Value: quadString(q), Expect: 1, Op: "valid"}
	case k < 50:
		return FCase{Value: genIPv6Valid(r), Expect: -1, Op: "an-ipv6-address"}
	}
	op, v := corruptIPv4(r, q)
	return FCase{Value: v, Expect: -1, Op: op, Base: quadString(q)}
}

func genIPv6(r *vh.RNG) FCase {
	switch k := r.Intn(100); {
	case k < 35:
		return FCase{Value: genIPv6Valid(r), Expect: 1, Op: "valid"}
	case k < 50:
		return FCase{Value: quadString(genQuad(r)), Expect: -1, Op: "an-ipv4-address"}
	}
	op, v, base := corruptIPv6(r)
	return FCase{Value: v, Expect: -1, Op: op, Base: base}
}

func genIP(r *vh.RNG) FCase {
	switch k := r.Intn(100); {
	case k < 22:
		return FCase{Value: quadString(genQuad(r)), Expect: 1, Op: "valid-ipv4"}
	case k < 45:
		return FCase{Value: genIPv6Valid(r), Expect: 1, Op: "valid-ipv6"}
	case k < 72:
		q := genQuad(r)
		op, v := corruptIPv4(r, q)
		return FCase{Value: v, Expect: -1, Op: op, Base: quadString(q)}
	}
	op, v, base := corruptIPv6(r)
	return FCase{Value: v, Expect: -1, Op: op, Base: base}
}

// ---------- uri ----------

func genURI(r *vh.RNG) FCase {
	host := strings.ToLower(genDomain(r))
	path := ""
	for i := r.Intn(3); i > 0; i-- {
		path += "/" + genWord(r, "abcdefghijklmnopqrstuvwxyz0123456789-._~", 1, 6)
	}
	var v string
	switch r.Intn(6) {
	case 0:
		v = "mailto:" + genWord(r, "abcdefghij", 1, 5) + "@" + host
	case 1:
		v = "urn:isbn:" + fmt.Sprint(100000+r.Intn(900000))
	default:
		v = vh.Pick(r, []string{"http", "https", "ftp", "ws"}) + "://" + host
		if r.Chance(1, 4) {
			v += fmt.Sprintf(":%d", 1+r.Intn(65535))
		}
		v += path
		if r.Chance(1, 3) {
			v += "?" + genWord(r, "abcdef", 1, 3) + "=" + genWord(r, "abcdef0123%20", 1, 4)
			v = strings.ReplaceAll(v, "%", "%25")
		}
	}
	if r.Intn(100) < 45 {
		return FCase{Value: v, Expect: 1, Op: "valid"}
	}
	c := FCase{Expect: -1, Base: v}
	switch op := r.Intn(7); op {
	case 0:
		// in the path of a hierarchical URI (the query and opaque parts are the
		// witness stream of a recorded finding)
		w := "http://" + host + path
		c.Op, c.Value, c.Base = "bad-percent-escape-in-path", w+vh.Pick(r, []string{"/%zz", "/%", "/%a", "/%g1"}), w
	case 1:
		c.Op, c.Value = "control-byte", insAt(v, r.Intn(len(v)+1), vh.Pick(r, []byte("\x01\x00\x7f\n\r\t")))
	case 2:
		c.Op, c.Value, c.Base = "no-scheme-no-slash", host+"/index", ""
	case 3:
		c.Op, c.Value, c.Base = "empty", "", ""
	case 4:
		c.Op, c.Value, c.Base = "missing-scheme", "://"+host+path, ""
	case 5:
		c.Op, c.Value, c.Base = "space-in-host", "http://"+insAt(host, 1+r.Intn(len(host)), ' ')+"x/", ""
	default:
		c.Op, c.Value, c.Base = "port-not-a-number", "http://"+host+":"+vh.Pick(r, []string{"abc", "8o", "-1x"})+"/", ""
	}
	return c
}

// ---------- mac ----------

func hexN(r *vh.RNG, n int) string {
	b := make([]byte, n)
	for i := range b {
		b[i] = hexAll[r.Intn(len(hexAll))]
	}
	return string(b)
}

func genMAC(r *vh.RNG) FCase {
	var groups []string
	sep := ":"
	gl := 2
	switch r.Intn(3) {
	case 0:
		sep = "-"
	case 1:
		sep, gl = ".", 4
	}
	n := vh.Pick(r, []int{6, 6, 8, 20})
	if gl == 4 {
		n /= 2
	}
	for i := 0; i < n; i++ {
		groups = append(groups, hexN(r, gl))
	}
	v := strings.Join(groups, sep)
	if r.Intn(100) < 45 {
		return FCase{Value: v, Expect: 1, Op: "valid"}
	}
	c := FCase{Expect: -1, Base: v}
	switch op := r.Intn(7); op {
	case 0:
		p := r.Intn(len(v))
		for !isXdigit(v[p]) {
			p = r.Intn(len(v))
		}
		c.Op, c.Value = "hex-to-nonhex", setAt(v, p, vh.Pick(r, []byte("gGzx_ ")))
	case 1:
		c.Op, c.Value = "one-group-less", strings.Join(groups[:n-1], sep)
		if bl := (n - 1) * gl / 2; bl == 6 || bl == 8 || bl == 20 {
			c.Value = strings.Join(groups[:n-2], sep)
		}
	case 2:
		c.Op, c.Value = "one-group-more", v+sep+hexN(r, gl)
		if bl := (n + 1) * gl / 2; bl == 6 || bl == 8 || bl == 20 {
			c.Value += sep + hexN(r, gl)
		}
	case 3:
		other := map[string]string{":": "-", "-": ":", ".": ":"}[sep]
		c.Op, c.Value = "mixed-separators", strings.Replace(v, sep, other, 1)
	case 4:
		g := append([]string{}, groups...)
		i := r.Intn(n)
		g[i] = g[i][:gl-1]
		c.Op, c.Value = "short-group", strings.Join(g, sep)
	case 5:
		g := append([]string{}, groups...)
		i := r.Intn(n)
		g[i] += "0"
		c.Op, c.Value = "long-group", strings.Join(g, sep)
	default:
		c.Op, c.Value = "trailing-separator", v+sep
	}
	return c
}

// ---------- cidr ----------

func genCIDR(r *vh.RNG) FCase {
	v6 := r.Chance(2, 5)
	addr, max := quadString(genQuad(r)), 32
	if v6 {
		addr, max = genIPv6Valid(r), 128
	}
	pl := vh.Pick(r, []int{0, 1, 8, max / 2, max - 1, max, r.Intn(max + 1)})
	v := fmt.Sprintf("%s/%d", addr, pl)
	if r.Intn(100) < 45 {
		return FCase{Value: v, Expect: 1, Op: "valid"}
	}
	c := FCase{Expect: -1, Base: v}
	switch op := r.Intn(7); op {
	case 0:
		c.Op, c.Value = "prefix-too-long", fmt.Sprintf("%s/%d", addr, max+1+r.Intn(200))
	case 1:
		c.Op, c.Value = "no-slash", addr
	case 2:
		c.Op, c.Value = "letter-in-prefix", addr+"/"+vh.Pick(r, []string{"a", "1x", "x8", "2 "})
	case 3:
		var bad string
		if v6 {
			_, bad, _ = corruptIPv6(r)
		} else {
			_, bad = corruptIPv4(r, genQuad(r))
		}
		c.Op, c.Value, c.Base = "bad-address", fmt.Sprintf("%s/%d", bad, pl), ""
	case 4:
		c.Op, c.Value = "empty-prefix", addr+"/"
	case 5:
		c.Op, c.Value = "negative-prefix", fmt.Sprintf("%s/-%d", addr, 1+r.Intn(8))
	default:
		c.Op, c.Value = "double-slash", fmt.Sprintf("%s//%d", addr, pl)
	}
	return c
}

// ---------- regexp ----------

var regexpCorpus = []string{`(a)(b)`, `(?i)abc`, `\d+`, `\bfoo\b`, `[[:alpha:]]+`, `a{2,3}?`, `(?P<n>x)`, `^$`, `.*`, `\pL`, `[^\n]`, `\x{1F600}`, `a|`}

func genRegexp(r *vh.RNG) FCase {
	v := genTop(r).Go()
	if r.Chance(1, 5) {
		v = vh.Pick(r, regexpCorpus)
	}
	if r.Intn(100) < 45 {
		return FCase{Value: v, Expect: 1, Op: "valid"}
	}
	c := FCase{Expect: -1, Base: v}
	switch op := r.Intn(9); op {
	case 0:
		c.Op, c.Value = "unclosed-group", "("+v
	case 1:
		c.Op, c.Value = "unclosed-class", v+"[a"
	case 2:
		c.Op, c.Value = "leading-repetition", vh.Pick(r, []string{"*", "+", "?"})+v
	case 3:
		c.Op, c.Value = "repeat-bounds-reversed", v+"a{3,2}"
	case 4:
		c.Op, c.Value = "repeat-over-1000", v+"a{1001}"
	case 5:
		c.Op, c.Value = "trailing-backslash", v+`\`
	case 6:
		c.Op, c.Value = "unknown-escape", v+vh.Pick(r, []string{`\q`, `\i`, `\8`, `\y`})
	case 7:
		c.Op, c.Value = "stray-close-group", v+")"
	default:
		c.Op, c.Value = "class-range-reversed", v+"[z-a]"
	}
	return c
}

// ---------- json ----------

func genJSONString(r *vh.RNG) string {
	var b strings.Builder
	b.WriteString(`"`)
	for i := r.Intn(6); i > 0; i-- {
		switch r.Intn(10) {
		case 0:
			b.WriteString(vh.Pick(r, []string{`\n`, `\"`, `\\`, `\/`, `\t`, `\u00e9`, `\uD83D\uDE00`, `\b`}))
		case 1:
			b.WriteString(vh.Pick(r, []string{"é", "日", " ", "'"}))
		default:
			b.WriteByte(ldh[r.Intn(len(ldh))])
		}
	}
	b.WriteString(`"`)
	return b.String()
}

func ws(r *vh.RNG) string { return vh.Pick(r, []string{"", "", "", " ", "\n", "\t ", "\r\n"}) }

func genJSONValue(r *vh.RNG, depth int) string {
	k := r.Intn(10)
	if depth <= 0 && k >= 6 {
		k = r.Intn(6)
	}
	switch k {
	case 0:
		return vh.Pick(r, []string{"null", "true", "false"})
	case 1, 2:
		return vh.Pick(r, []string{"0", "-0", "1", "-12", "3.25", "1e3", "1E+2", "-0.5e-7", "120", "0.0", fmt.Sprint(r.Intn(100000))})
	case 3, 4, 5:
		return genJSONString(r)
	case 6, 7:
		n := r.Intn(4)
		parts := make([]string, n)
		for i := range parts {
			parts[i] = ws(r) + genJSONValue(r, depth-1) + ws(r)
		}
		return "[" + strings.Join(parts, ",") + ws(r) + "]"
	default:
		n := r.Intn(4)
		parts := make([]string, n)
		for i := range parts {
			parts[i] = ws(r) + genJSONString(r) + ws(r) + ":" + ws(r) + genJSONValue(r, depth-1) + ws(r)
		}
		s := "{" + strings.Join(parts, ",")
		if n == 0 {
			s += ws(r)
		}
		return s + "}"
	}
}

func genJSON(r *vh.RNG) FCase {
	inner := genJSONValue(r, 3)
	v := ws(r) + inner + ws(r)
	if r.Intn(100) < 45 {
		return FCase{Value: v, Expect: 1, Op: "valid"}
	}
	c := FCase{Expect: -1, Base: v}
	switch op := r.Intn(11); op {
	case 0:
		w := "[" + inner + "," + genJSONValue(r, 1) + "]"
		c.Op, c.Value, c.Base = "drop-closing-bracket", w[:len(w)-1], w
	case 1:
		c.Op, c.Value, c.Base = "trailing-comma", "["+inner+",]", "["+inner+"]"
	case 2:
		c.Op, c.Value, c.Base = "single-quotes", "{'a':"+inner+"}", `{"a":`+inner+"}"
	case 3:
		c.Op, c.Value, c.Base = "unquoted-key", "{a:"+inner+"}", `{"a":`+inner+"}"
	case 4:
		c.Op, c.Value, c.Base = "leading-zero", "["+inner+",0"+fmt.Sprint(1+r.Intn(9))+"]", ""
	case 5:
		c.Op, c.Value, c.Base = "bare-word", vh.Pick(r, []string{"nul", "True", "undefined", "NaN", "nil"}), ""
	case 6:
		c.Op, c.Value = "two-values", inner+" "+genJSONValue(r, 0)
	case 7:
		c.Op, c.Value = "trailing-garbage", v+vh.Pick(r, []string{"x", ",", "]", "}", ":"})
	case 8:
		c.Op, c.Value, c.Base = "empty", ws(r), ""
	case 9:
		c.Op, c.Value, c.Base = "control-byte-in-string", "[\"a"+vh.Pick(r, []string{"\x01", "\n", "\x1f", "\x00"})+"b\","+inner+"]", ""
	default:
		c.Op, c.Value, c.Base = "unknown-escape", `["\`+vh.Pick(r, []string{"x", "a", "'", "0", "U"})+`",`+inner+"]", ""
	}
	return c
}

// ---------- rfc1123 ----------

var months = []string{"Jan", "Feb", "Mar", "Apr", "May", "Jun", "Jul", "Aug", "Sep", "Oct", "Nov", "Dec"}
var weekdays = []string{"Sun", "Mon", "Tue", "Wed", "Thu", "Fri", "Sat"}

func genRFC1123(r *vh.RNG) FCase {
	y, m, d := genYMD(r)
	hh, mm, ss := r.Intn(24), r.Intn(60), r.Intn(60)
	zone := vh.Pick(r, []string{"GMT", "UTC", "MST", "EST", "PST", "CET", "EET"})
	wd := weekdays[int(time.Date(y, time.Month(m), d, 0, 0, 0, 0, time.UTC).Weekday())]
	mk := func(wd string, d int, mon string, y, hh, mm, ss int, zone string) string {
		return fmt.Sprintf("%s, %02d %s %04d %02d:%02d:%02d %s", wd, d, mon, y, hh, mm, ss, zone)
	}
	v := mk(wd, d, months[m-1], y, hh, mm, ss, zone)
	if r.Intn(100) < 45 {
		return FCase{Value: v, Expect: 1, Op: "valid"}
	}
	c := FCase{Expect: -1, Base: v}
	switch op := r.Intn(10); op {
	case 0:
		c.Op, c.Value = "weekday-misspelt", mk(vh.Pick(r, []string{"Mox", "Xon", "Mo", "Monn"}), d, months[m-1], y, hh, mm, ss, zone)
	case 1:
		c.Op, c.Value = "month-misspelt", mk(wd, d, vh.Pick(r, []string{"Jax", "Xan", "Ja", "13"}), y, hh, mm, ss, zone)
	case 2:
		c.Op, c.Value = "day-out-of-range", mk(wd, vh.Pick(r, []int{0, daysIn(y, m) + 1, 32, 99}), months[m-1], y, hh, mm, ss, zone)
	case 3:
		c.Op, c.Value = "hour-out-of-range", mk(wd, d, months[m-1], y, vh.Pick(r, []int{24, 25, 99}), mm, ss, zone)
	case 4:
		c.Op, c.Value = "minute-out-of-range", mk(wd, d, months[m-1], y, hh, vh.Pick(r, []int{60, 61, 99}), ss, zone)
	case 5:
		c.Op, c.Value = "missing-comma", strings.Replace(v, ",", "", 1)
	case 6:
		p := vh.Pick(r, []int{5, 6, 12, 13, 14, 15, 17, 18, 20, 21, 23, 24})
		c.Op, c.Value = "digit-to-nondigit", setAt(v, p, vh.Pick(r, []byte("aOlx_/")))
	case 7:
		c.Op, c.Value = "drop-zone", strings.TrimSuffix(v, " "+zone)
	case 8:
		c.Op, c.Value = "one-digit-day", fmt.Sprintf("%s, %d %s %04d %02d:%02d:%02d %s", wd, 1+r.Intn(9), months[m-1], y, hh, mm, ss, zone)
	default:
		c.Op, c.Value = "two-digit-year", fmt.Sprintf("%s, %02d %s %02d %02d:%02d:%02d %s", wd, d, months[m-1], y%100, hh, mm, ss, zone)
	}
	return c
}

// uriEscapeWitness: a malformed percent escape in the query or in an opaque part.
func uriEscapeWitness(r *vh.RNG) FCase {
	host := strings.ToLower(genDomain(r))
	bad := vh.Pick(r, []string{"%zz", "%", "%a", "%g1"})
	var v, base string
	switch r.Intn(3) {
	case 0:
		base = "http://" + host + "/p?q=1"
		v = "http://" + host + "/p?q=" + bad
	case 1:
		base = "urn:isbn:12345"
		v = "urn:isbn:123" + bad
	default:
		base = "mailto:a@" + host
		v = "mailto:a" + bad + "@" + host
	}
	return FCase{Format: "uri", Value: v, Expect: -1, Op: "bad-percent-escape-in-query-or-opaque-part", Base: base}
}

var generators = map[string]func(*vh.RNG) FCase{
	"date": genDate, "date-time": genDateTime, "uuid": genUUID, "email": genEmail, "hostname": genHostname,
	"ipv4": genIPv4, "ipv6": genIPv6, "ip": genIP, "uri": genURI, "mac": genMAC, "cidr": genCIDR,
	"regexp": genRegexp, "json": genJSON, "rfc1123": genRFC1123,
}

// hostile strings: no expectation, compared with the model / the claimed parser only
var hostileAlphabet = []byte("0123456789abcdefABCDEFxyzXYZ-:./@ {}[]\"\\%+,TZ_\n\x00\x7f\x80\xc3\xa9\xff")

func genHostile(r *vh.RNG, format string, pool []string) FCase {
	var v string
	switch k := r.Intn(10); {
	case k < 4 && len(pool) > 0:
		v = mutate2(r, vh.Pick(r, pool))
	case k < 6 && len(pool) > 0:
		// a valid value of another format
		v = vh.Pick(r, pool)
	default:
		n := r.Intn(40)
		if r.Chance(1, 10) {
			n = 60 + r.Intn(80)
		}
		b := make([]byte, n)
		for i := range b {
			b[i] = hostileAlphabet[r.Intn(len(hostileAlphabet))]
		}
		v = string(b)
	}
	return FCase{Value: v, Expect: 0, Op: "hostile"}
}

func mutate2(r *vh.RNG, s string) string {
	b := []byte(s)
	for k := 1 + r.Intn(3); k > 0; k-- {
		switch op := r.Intn(4); {
		case op == 0 && len(b) > 0:
			b[r.Intn(len(b))] = hostileAlphabet[r.Intn(len(hostileAlphabet))]
		case op == 1 && len(b) > 0:
			i := r.Intn(len(b))
			b = append(b[:i:i], b[i+1:]...)
		case op == 2 && len(b) > 1:
			i, j := r.Intn(len(b)), r.Intn(len(b))
			b[i], b[j] = b[j], b[i]
		default:
			i := r.Intn(len(b) + 1)
			b = append(b[:i:i], append([]byte{hostileAlphabet[r.Intn(len(hostileAlphabet))]}, b[i:]...)...)
		}
	}
	return string(b)
}
