package main

// Regular-expression syntax trees of the fragment the Coq matcher is verified for
// (Formats/Regex.v), a printer to Go syntax that mirrors Regex.pr byte for byte,
// a printer to Coq terms, a sampler of members and a mutator.

import (
	"fmt"
	"strings"

	"verifharness/vh"
)

type Item struct {
	Lo, Hi byte
	Named  string // "" for a range
}

type Re struct {
	K     string // empty eps byte class cat alt star plus opt rep
	B     byte
	Neg   bool
	Items []Item
	X, Y  *Re
	Lo    int
	Hi    int // -1: unbounded
}

type Branch struct {
	Bol  bool
	Body *Re
	Eol  bool
}

type Top []Branch

var namedClasses = []string{"Alnum", "Alpha", "Digit", "Lower", "Upper", "Xdigit", "Word"}

func isDigit(b byte) bool  { return '0' <= b && b <= '9' }
func isUpper(b byte) bool  { return 'A' <= b && b <= 'Z' }
func isLower(b byte) bool  { return 'a' <= b && b <= 'z' }
func isAlpha(b byte) bool  { return isUpper(b) || isLower(b) }
func isAlnum(b byte) bool  { return isDigit(b) || isAlpha(b) }
func isXdigit(b byte) bool { return isDigit(b) || ('a' <= b && b <= 'f') || ('A' <= b && b <= 'F') }

func namedMem(n string, b byte) bool {
	switch n {
	case "Alnum":
		return isAlnum(b)
	case "Alpha":
		return isAlpha(b)
	case "Digit":
		return isDigit(b)
	case "Lower":
		return isLower(b)
	case "Upper":
		return isUpper(b)
	case "Xdigit":
		return isXdigit(b)
	case "Word":
		return isAlnum(b) || b == '_'
	}
	panic("unknown class " + n)
}

func classMem(neg bool, items []Item, b byte) bool {
	in := false
	for _, it := range items {
		if it.Named != "" {
			in = in || namedMem(it.Named, b)
		} else {
			in = in || (it.Lo <= b && b <= it.Hi)
		}
	}
	return in != neg
}

// ---- generation ----

// bytes patterns and values are drawn from: letters and digits mostly, plus the
// characters that have a meaning in the syntax, space, newline, NUL and DEL
var litBytes = []byte("aaabbbcz0011279AZ-._ !|()[]{}*+?^$\\/:@\n\x00\x7f,")

func genItem(r *vh.RNG) Item {
	switch k := r.Intn(10); {
	case k < 3:
		return Item{Named: vh.Pick(r, namedClasses)}
	case k < 6:
		p := vh.Pick(r, [][2]byte{{'a', 'c'}, {'a', 'z'}, {'0', '9'}, {'A', 'Z'}, {'0', '1'}, {'b', 'y'}, {' ', '/'}, {0, 31}})
		return Item{Lo: p[0], Hi: p[1]}
	default:
		b := vh.Pick(r, litBytes)
		return Item{Lo: b, Hi: b}
	}
}

func genAtom(r *vh.RNG) *Re {
	if r.Chance(7, 10) {
		return &Re{K: "byte", B: vh.Pick(r, litBytes)}
	}
	n := 1 + r.Intn(3)
	c := &Re{K: "class", Neg: r.Chance(1, 4)}
	for i := 0; i < n; i++ {
		c.Items = append(c.Items, genItem(r))
	}
	return c
}

// genRe: repDepth counts the enclosing bounded repetitions (Go refuses nested
// repeats whose bounds multiply beyond 1000).
func genRe(r *vh.RNG, depth, repDepth int) *Re {
	if depth <= 0 {
		return genAtom(r)
	}
	switch k := r.Intn(100); {
	case k < 26:
		return genAtom(r)
	case k < 54:
		return &Re{K: "cat", X: genRe(r, depth-1, repDepth), Y: genRe(r, depth-1, repDepth)}
	case k < 66:
		return &Re{K: "alt", X: genRe(r, depth-1, repDepth), Y: genRe(r, depth-1, repDepth)}
	case k < 74:
		return &Re{K: "star", X: genRe(r, depth-1, repDepth)}
	case k < 80:
		return &Re{K: "plus", X: genRe(r, depth-1, repDepth)}
	case k < 87:
		return &Re{K: "opt", X: genRe(r, depth-1, repDepth)}
	case k < 98:
		if repDepth == 0 && r.Chance(1, 6) {
			// one large bound on an atom, as in the host name expression
			lo := r.Intn(3)
			return &Re{K: "rep", X: genAtom(r), Lo: lo, Hi: lo + 20 + r.Intn(42)}
		}
		if repDepth >= 3 {
			return genAtom(r)
		}
		lo := r.Intn(4)
		hi := lo + r.Intn(3)
		switch r.Intn(6) {
		case 0:
			hi = -1
		case 1, 2:
			hi = lo
		}
		if hi == 0 { // x{0} is legal but says little; keep a few
			if r.Chance(3, 4) {
				hi = 1
			}
		}
		return &Re{K: "rep", X: genRe(r, depth-1, repDepth+1), Lo: lo, Hi: hi}
	default:
		return &Re{K: "eps"}
	}
}

func genTop(r *vh.RNG) Top {
	n := 1
	if r.Chance(1, 4) {
		n = 2 + r.Intn(2)
	}
	var t Top
	for i := 0; i < n; i++ {
		t = append(t, Branch{Bol: r.Chance(1, 2), Body: genRe(r, 1+r.Intn(3), 0), Eol: r.Chance(1, 2)})
	}
	return t
}

// ---- Go syntax (mirrors Regex.pr / pr_top) ----

func esc(b byte) string {
	if isAlnum(b) || b == '_' {
		return string([]byte{b})
	}
	if b >= 33 && b <= 126 {
		return "\\" + string([]byte{b})
	}
	return fmt.Sprintf("\\x%02x", b)
}

func group(s string) string { return "(?:" + s + ")" }

func wrapIf(c bool, s string) string {
	if c {
		return group(s)
	}
	return s
}

func (r *Re) isAtom() bool { return r.K == "byte" || r.K == "class" }

const emptyText = `[^\x00-\x{10FFFF}]`

func (r *Re) Go() string {
	switch r.K {
	case "empty":
		return emptyText
	case "eps":
		return group("")
	case "byte":
		return esc(r.B)
	case "class":
		if len(r.Items) == 0 {
			if r.Neg {
				return "(?s:.)"
			}
			return emptyText
		}
		var b strings.Builder
		b.WriteString("[")
		if r.Neg {
			b.WriteString("^")
		}
		for _, it := range r.Items {
			if it.Named != "" {
				b.WriteString("[:" + strings.ToLower(it.Named) + ":]")
			} else if it.Lo == it.Hi {
				b.WriteString(esc(it.Lo))
			} else {
				b.WriteString(esc(it.Lo) + "-" + esc(it.Hi))
			}
		}
		b.WriteString("]")
		return b.String()
	case "cat":
		return wrapIf(r.X.K == "alt", r.X.Go()) + wrapIf(r.Y.K == "alt", r.Y.Go())
	case "alt":
		return r.X.Go() + "|" + r.Y.Go()
	case "star":
		return wrapIf(!r.X.isAtom(), r.X.Go()) + "*"
	case "plus":
		return wrapIf(!r.X.isAtom(), r.X.Go()) + "+"
	case "opt":
		return wrapIf(!r.X.isAtom(), r.X.Go()) + "?"
	case "rep":
		s := wrapIf(!r.X.isAtom(), r.X.Go()) + "{" + fmt.Sprint(r.Lo)
		if r.Hi < 0 {
			s += ","
		} else if r.Hi != r.Lo {
			s += "," + fmt.Sprint(r.Hi)
		}
		return s + "}"
	}
	panic("unknown node " + r.K)
}

func (t Top) Go() string {
	parts := make([]string, len(t))
	for i, br := range t {
		s := wrapIf(br.Body.K == "alt", br.Body.Go())
		if br.Bol {
			s = "^" + s
		}
		if br.Eol {
			s += "$"
		}
		parts[i] = s
	}
	return strings.Join(parts, "|")
}

// ---- Coq terms ----

func (r *Re) Coq() string {
	switch r.K {
	case "empty":
		return "Empty"
	case "eps":
		return "Eps"
	case "byte":
		return fmt.Sprintf("(Byte %d)", r.B)
	case "class":
		its := make([]string, len(r.Items))
		for i, it := range r.Items {
			if it.Named != "" {
				its[i] = "CNamed " + it.Named
			} else {
				its[i] = fmt.Sprintf("CR %d %d", it.Lo, it.Hi)
			}
		}
		return fmt.Sprintf("(Class %v [%s])", r.Neg, strings.Join(its, "; "))
	case "cat":
		return "(Cat " + r.X.Coq() + " " + r.Y.Coq() + ")"
	case "alt":
		return "(Alt " + r.X.Coq() + " " + r.Y.Coq() + ")"
	case "star":
		return "(Star " + r.X.Coq() + ")"
	case "plus":
		return "(Plus " + r.X.Coq() + ")"
	case "opt":
		return "(Opt " + r.X.Coq() + ")"
	case "rep":
		if r.Hi < 0 {
			return fmt.Sprintf("(repmin %s %d)", r.X.Coq(), r.Lo)
		}
		return fmt.Sprintf("(rep %s %d %d)", r.X.Coq(), r.Lo, r.Hi)
	}
	panic("unknown node " + r.K)
}

func (t Top) Coq() string {
	parts := make([]string, len(t))
	for i, br := range t {
		parts[i] = fmt.Sprintf("mkb %v %s %v", br.Bol, br.Body.Coq(), br.Eol)
	}
	return "[" + strings.Join(parts, "; ") + "]"
}

// nbytes prints a byte string as a Coq list of N.
func nbytes(s string) string {
	if len(s) == 0 {
		return "[]"
	}
	var b strings.Builder
	b.WriteString("[")
	for i := 0; i < len(s); i++ {
		if i > 0 {
			b.WriteString(";")
		}
		fmt.Fprintf(&b, "%d", s[i])
	}
	b.WriteString("]%N")
	return b.String()
}

// ---- members and near-members ----

var preferred = []byte("abz019AZ-._ !")

func sampleClass(r *vh.RNG, neg bool, items []Item) (byte, bool) {
	var all, pref []byte
	for b := 0; b < 128; b++ {
		if classMem(neg, items, byte(b)) {
			all = append(all, byte(b))
			if strings.IndexByte(string(preferred), byte(b)) >= 0 {
				pref = append(pref, byte(b))
			}
		}
	}
	if len(all) == 0 {
		return 0, false
	}
	if len(pref) > 0 && r.Chance(7, 10) {
		return vh.Pick(r, pref), true
	}
	return vh.Pick(r, all), true
}

// sample returns a member of the language of re, when it finds one.
func sample(r *vh.RNG, re *Re) (string, bool) {
	switch re.K {
	case "empty":
		return "", false
	case "eps":
		return "", true
	case "byte":
		return string([]byte{re.B}), true
	case "class":
		b, ok := sampleClass(r, re.Neg, re.Items)
		return string([]byte{b}), ok
	case "cat":
		x, ok1 := sample(r, re.X)
		y, ok2 := sample(r, re.Y)
		return x + y, ok1 && ok2
	case "alt":
		a, b := re.X, re.Y
		if r.Bool() {
			a, b = b, a
		}
		if s, ok := sample(r, a); ok {
			return s, true
		}
		return sample(r, b)
	}
	lo, hi := 0, 3
	switch re.K {
	case "plus":
		lo = 1
	case "opt":
		hi = 1
	case "rep":
		lo, hi = re.Lo, re.Hi
		if hi < 0 {
			hi = lo + 2
		}
		if hi < lo {
			return "", false
		}
		if hi > lo+3 && r.Chance(2, 3) {
			if r.Bool() {
				hi = lo + 1
			} else {
				lo = hi - 1 // at the upper bound
			}
		}
	}
	n := lo + r.Intn(hi-lo+1)
	var b strings.Builder
	for i := 0; i < n; i++ {
		s, ok := sample(r, re.X)
		if !ok {
			if lo == 0 {
				return "", true
			}
			return "", false
		}
		b.WriteString(s)
	}
	return b.String(), true
}

func randString(r *vh.RNG, max int) string {
	n := r.Intn(max + 1)
	b := make([]byte, n)
	for i := range b {
		b[i] = vh.Pick(r, litBytes)
	}
	return string(b)
}

func mutate(r *vh.RNG, s string) string {
	b := []byte(s)
	for k := 1 + r.Intn(2); k > 0; k-- {
		switch op := r.Intn(4); {
		case op == 0 && len(b) > 0: // replace
			b[r.Intn(len(b))] = vh.Pick(r, litBytes)
		case op == 1 && len(b) > 0: // delete
			i := r.Intn(len(b))
			b = append(b[:i:i], b[i+1:]...)
		case op == 2 && len(b) > 0: // truncate
			b = b[:r.Intn(len(b))]
		default: // insert
			i := r.Intn(len(b) + 1)
			b = append(b[:i:i], append([]byte{vh.Pick(r, litBytes)}, b[i:]...)...)
		}
	}
	return string(b)
}

// valueFor draws a value for pattern t: a member of a branch placed as the anchors
// require, a near-member, or an unrelated string.
func valueFor(r *vh.RNG, t Top) (string, string) {
	k := r.Intn(100)
	if k < 80 {
		br := t[r.Intn(len(t))]
		if m, ok := sample(r, br.Body); ok {
			pre, post := "", ""
			if !br.Bol && r.Bool() {
				pre = randString(r, 3)
			}
			if !br.Eol && r.Bool() {
				post = randString(r, 3)
			}
			if k < 45 {
				return pre + m + post, "member"
			}
			return mutate(r, pre+m+post), "near-member"
		}
	}
	return randString(r, 6), "random"
}
