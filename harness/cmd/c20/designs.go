package main

// Fixed designs, written through the real public DSL, whose generated server and
// client packages are (a) walked by translate/c20 for their access footprint and
// (b) for "store", compiled and driven by concurrent clients (echo check).

import (
	. "goa.design/goa/v3/dsl"
)

type design struct {
	Name string
	DSL  func()
}

var designs = []design{
	{"store", designStore},
	{"calc", designCalc},
	{"notes", designNotes},
	{"multi", designMulti},
	{"media", designMedia},
}

// store: path / query / header / body params with validations, a result type with
// two views, a declared error carrying an id of the request.
func designStore() {
	API("store", func() { Title("c20 store") })
	var Item = ResultType("application/vnd.c20.item", func() {
		TypeName("Item")
		Attributes(func() {
			Attribute("id", String)
			Attribute("name", String)
			Attribute("count", Int)
			Attribute("tag", String)
			Attribute("q", String)
			Attribute("tags", ArrayOf(String))
			Required("id", "name", "count")
		})
		View("default", func() {
			Attribute("id")
			Attribute("name")
			Attribute("count")
			Attribute("tag")
			Attribute("q")
			Attribute("tags")
		})
		View("tiny", func() {
			Attribute("id")
			Attribute("name")
		})
	})
	var NotFound = Type("NotFound", func() {
		ErrorName("name", String, "error name")
		Attribute("id", String, "id that was asked for")
		Attribute("message", String)
		Required("name", "id", "message")
	})
	Service("store", func() {
		Method("show", func() {
			Payload(func() {
				Attribute("id", String, func() {
					Pattern("^[a-z0-9-]+$")
					MaxLength(40)
				})
				Attribute("view", String, func() { Enum("default", "tiny") })
				Attribute("q", String, func() { MinLength(2) })
				Attribute("tag", String)
				Required("id")
			})
			Result(Item)
			Error("not_found", NotFound)
			HTTP(func() {
				GET("/items/{id}")
				Param("view")
				Param("q")
				Header("tag:X-Tag")
				Response(StatusOK)
				Response("not_found", StatusNotFound)
			})
		})
		Method("blob", func() {
			Payload(func() {
				Attribute("id", String)
				Attribute("data", Bytes)
				Required("id", "data")
			})
			Result(Bytes)
			HTTP(func() {
				POST("/blobs/{id}")
				Body("data")
				Response(StatusOK, func() { ContentType("text/plain") })
			})
		})
		Method("add", func() {
			Payload(func() {
				Attribute("shelf", String)
				Attribute("name", String, func() {
					MinLength(3)
					Pattern("^[A-Za-z0-9 ]+$")
				})
				Attribute("count", Int, func() {
					Minimum(0)
					Maximum(1000)
				})
				Attribute("tags", ArrayOf(String), func() { MaxLength(4) })
				Attribute("token", String)
				Required("shelf", "name", "count")
			})
			Result(Item, func() { View("default") })
			HTTP(func() {
				POST("/shelves/{shelf}/items")
				Header("token:Authorization")
				Response(StatusCreated)
			})
		})
	})
}

// calc: primitive path parameters, an array query parameter, an enum, a declared
// error using the default error type, and an error with a custom user type.
func designCalc() {
	API("calc", func() {})
	var DivError = Type("DivError", func() {
		Attribute("a", Int)
		Attribute("b", Int)
		Attribute("reason", String)
		Required("a", "b", "reason")
	})
	Service("calc", func() {
		Error("bad_op")
		Method("div", func() {
			Payload(func() {
				Attribute("a", Int)
				Attribute("b", Int)
				Attribute("mode", String, func() {
					Enum("floor", "ceil")
					Default("floor")
				})
				Attribute("weights", ArrayOf(Int), func() { MinLength(1) })
				Required("a", "b")
			})
			Result(func() {
				Attribute("q", Int)
				Attribute("mode", String)
				Attribute("sum", Int)
				Required("q", "mode")
			})
			Error("div_by_zero", DivError)
			HTTP(func() {
				GET("/div/{a}/{b}")
				Param("mode")
				Param("weights")
				Response(StatusOK)
				Response("div_by_zero", StatusBadRequest)
				Response("bad_op", StatusConflict)
			})
		})
	})
}

// notes: map and nested user types in the body, headers in the response, a
// wildcard path, explicit content type.
func designNotes() {
	API("notes", func() {})
	var Author = Type("Author", func() {
		Attribute("name", String, func() { MaxLength(30) })
		Attribute("email", String, func() { Format(FormatEmail) })
		Required("name")
	})
	var Note = Type("Note", func() {
		Attribute("title", String, func() { Pattern("^[A-Z]") })
		Attribute("author", Author)
		Attribute("labels", MapOf(String, String))
		Required("title")
	})
	Service("notes", func() {
		Method("put", func() {
			Payload(func() {
				Attribute("path", String)
				Attribute("note", Note)
				Attribute("rev", UInt, func() { Minimum(1) })
				Required("path", "note")
			})
			Result(func() {
				Attribute("path", String)
				Attribute("etag", String)
				Attribute("note", Note)
				Required("path", "etag")
			})
			Error("conflict", ErrorResult, "revision conflict")
			HTTP(func() {
				PUT("/notes/{*path}")
				Param("rev")
				Body("note")
				Response(StatusOK, func() {
					Header("etag:ETag")
					ContentType("application/json")
				})
				Response("conflict", StatusConflict)
			})
		})
		Method("drop", func() {
			Payload(func() {
				Attribute("path", String)
				Required("path")
			})
			HTTP(func() {
				DELETE("/notes/{*path}")
				Response(StatusNoContent)
			})
		})
	})
}

// multi: two services, service-level errors, a collection result, a cookie.
func designMulti() {
	API("multi", func() {})
	var User = ResultType("application/vnd.c20.user", func() {
		TypeName("User")
		Attributes(func() {
			Attribute("id", Int)
			Attribute("login", String, func() { Pattern("^[a-z]+$") })
			Attribute("secret", String)
			Required("id", "login")
		})
		View("default", func() {
			Attribute("id")
			Attribute("login")
		})
		View("full", func() {
			Attribute("id")
			Attribute("login")
			Attribute("secret")
		})
	})
	Service("users", func() {
		Error("unauthorized", func() { Temporary() })
		HTTP(func() { Path("/users") })
		Method("list", func() {
			Payload(func() {
				Attribute("session", String)
				Attribute("limit", Int, func() {
					Minimum(1)
					Maximum(50)
					Default(10)
				})
			})
			Result(CollectionOf(User))
			HTTP(func() {
				GET("/")
				Cookie("session:sid")
				Param("limit")
				Response(StatusOK)
				Response("unauthorized", StatusUnauthorized)
			})
		})
		Method("get", func() {
			Payload(func() {
				Attribute("id", Int)
				Required("id")
			})
			Result(User)
			HTTP(func() {
				GET("/{id}")
				Response(StatusOK)
			})
		})
	})
	Service("health", func() {
		Method("check", func() {
			Result(String)
			HTTP(func() {
				GET("/healthz")
				Response(StatusOK, func() { ContentType("text/plain") })
			})
		})
	})
}

// media: the remaining branches of the server / client handler templates —
// SkipRequestBodyEncodeDecode (with and without payload), SkipResponseBodyEncodeDecode
// (with and without result), both at once, no payload and no result, redirects (with and
// without a request to decode), a multipart request, file servers (file, directory,
// redirecting), websocket streaming (server streaming with a viewed result and without a
// payload, client streaming, bidirectional), an endpoint with two routes,
// and a secured method (basic auth + API key).
func designMedia() {
	API("media", func() {})
	var Receipt = Type("Receipt", func() {
		Attribute("name", String)
		Attribute("tag", String)
		Attribute("size", Int)
		Attribute("head", String, "first bytes of the body that was read")
		Attribute("tail", String, "last bytes of the body that was read")
		Required("name", "size", "head", "tail")
	})
	var Frame = ResultType("application/vnd.c20.frame", func() {
		TypeName("Frame")
		Attributes(func() {
			Attribute("topic", String)
			Attribute("seq", Int)
			Attribute("note", String)
			Required("topic", "seq")
		})
		View("default", func() {
			Attribute("topic")
			Attribute("seq")
			Attribute("note")
		})
		View("short", func() {
			Attribute("topic")
			Attribute("seq")
		})
	})
	var Basic = BasicAuthSecurity("basic")
	var Key = APIKeySecurity("key")
	Service("media", func() {
		Error("denied")
		Method("upload", func() {
			Payload(func() {
				Attribute("name", String, func() { Pattern("^[a-z0-9]+$") })
				Attribute("tag", String)
				Required("name")
			})
			Result(Receipt)
			HTTP(func() {
				POST("/media/{name}")
				Header("tag:X-Tag")
				SkipRequestBodyEncodeDecode()
				Response(StatusOK)
			})
		})
		Method("ingest", func() {
			Result(Receipt)
			HTTP(func() {
				POST("/ingest")
				SkipRequestBodyEncodeDecode()
				Response(StatusOK)
			})
		})
		Method("download", func() {
			Payload(func() {
				Attribute("name", String)
				Attribute("times", Int, func() {
					Minimum(1)
					Maximum(2000)
				})
				Required("name", "times")
			})
			Result(func() {
				Attribute("owner", String)
				Attribute("length", Int)
				Required("owner", "length")
			})
			Error("gone")
			HTTP(func() {
				GET("/media/{name}")
				Param("times")
				SkipResponseBodyEncodeDecode()
				Response(StatusOK, func() {
					Header("owner:X-Owner")
					Header("length:X-Length")
				})
				Response("gone", StatusGone)
			})
		})
		Method("raw", func() {
			Payload(func() {
				Attribute("name", String)
				Required("name")
			})
			HTTP(func() {
				GET("/raw/{name}")
				SkipResponseBodyEncodeDecode()
				Response(StatusOK)
			})
		})
		Method("pipe", func() {
			Payload(func() {
				Attribute("name", String)
				Required("name")
			})
			HTTP(func() {
				POST("/pipe/{name}")
				SkipRequestBodyEncodeDecode()
				SkipResponseBodyEncodeDecode()
				Response(StatusOK)
			})
		})
		Method("ping", func() {
			HTTP(func() {
				GET("/ping")
				GET("/healthz")
				Response(StatusNoContent)
			})
		})
		Method("feed", func() {
			StreamingResult(String)
			HTTP(func() {
				GET("/feed")
				Response(StatusOK)
			})
		})
		Method("collect", func() {
			Payload(func() {
				Attribute("topic", String)
				Required("topic")
			})
			StreamingPayload(String)
			Result(String)
			HTTP(func() {
				GET("/collect/{topic}")
				Response(StatusOK)
			})
		})
		Method("moved", func() {
			HTTP(func() {
				GET("/moved")
				Redirect("/ping", StatusMovedPermanently)
			})
		})
		Method("alias", func() {
			Payload(func() {
				Attribute("name", String, func() { MinLength(2) })
				Required("name")
			})
			HTTP(func() {
				GET("/alias/{name}")
				Redirect("/ping", StatusTemporaryRedirect)
			})
		})
		Method("form", func() {
			Payload(func() {
				Attribute("title", String, func() { MinLength(2) })
				Attribute("part", Bytes)
				Required("title", "part")
			})
			Result(Receipt)
			HTTP(func() {
				POST("/form")
				MultipartRequest()
				Response(StatusOK)
			})
		})
		Method("tail", func() {
			Payload(func() {
				Attribute("topic", String)
				Attribute("view", String)
				Attribute("count", Int)
				Required("topic", "count")
			})
			StreamingResult(Frame)
			HTTP(func() {
				GET("/tail/{topic}")
				Param("view")
				Param("count")
				Response(StatusOK)
			})
		})
		Method("chat", func() {
			Payload(func() {
				Attribute("topic", String)
				Required("topic")
			})
			StreamingPayload(String)
			StreamingResult(String)
			HTTP(func() {
				GET("/chat/{topic}")
				Response(StatusOK)
			})
		})
		Method("secret", func() {
			Security(Basic, Key)
			Payload(func() {
				Username("user", String)
				Password("pass", String)
				APIKey("key", "k", String)
				Attribute("what", String)
				Required("user", "pass", "k", "what")
			})
			Result(String)
			Error("denied")
			Error("busy", func() {
				Temporary()
				Timeout()
			})
			HTTP(func() {
				GET("/secret/{what}")
				Header("k:X-Key")
				Response(StatusOK)
				Response("denied", StatusForbidden)
				Response("busy", StatusServiceUnavailable)
			})
		})
		Files("/static/one.json", "public/one.json")
		Files("/assets/{*path}", "public")
		Files("/old.json", "public/one.json", func() {
			Redirect("/static/one.json", StatusMovedPermanently)
		})
	})
}
