package main

import (
	"encoding/json"
	"fmt"
	"os"
	"path/filepath"

	"verifharness/vh"
)

// runMain: -mode run. Stress of every helper + the hand-assembled echo server.
func runMain(seed uint64, tier, out, replay, onlyHelper string) int {
	n, rounds := tierParams(tier)
	res := vh.NewResult()
	c := &collector{}
	only := onlyHelper
	if replay != "" {
		b, err := os.ReadFile(replay)
		if err != nil {
			panic(err)
		}
		var rp struct {
			Helper string `json:"helper"`
			Seed   uint64 `json:"seed"`
		}
		_ = json.Unmarshal(b, &rp)
		only = rp.Helper
		if rp.Seed != 0 {
			seed = rp.Seed
		}
	}
	perHelper := map[string]int64{}
	for _, h := range helpers {
		if only != "" && only != h.Name {
			continue
		}
		before := c.evals
		h.Run(c, n, rounds, seed)
		perHelper[h.Name] = c.evals - before
		res.Dist["stress_calls="+h.Name] = int(c.evals - before)
	}
	distinct := vh.Distinct{}
	if only == "" || only == "echo-hand" {
		srv := newHandServer(c)
		per := 400
		if tier == "thorough" {
			per = 600
		}
		before := c.evals
		runEcho(c, res, srv.URL, seed, n, per, "h", distinct, filepath.Join(out, "cases_solo_hand.txt"), soloMax(tier))
		srv.Close()
		res.Dist["echo_hand_requests"] = int(c.evals - before)
	}
	for _, p := range panicSeen {
		c.fail("panic-under-concurrency", p, nil)
	}
	for _, f := range c.fails {
		res.Fail(f.Sig, f.What, f.Input)
	}
	res.Evaluations = int(c.evals)
	res.Distinct = len(distinct)
	res.Rule = fmt.Sprintf("barrier-start stress: %d goroutines x %d rounds on each of %d runtime helpers (every call checks that its result is the function of its own argument); echo: %d client goroutines against one server assembled from goahttp.NewMuxer/RequestDecoder/ResponseEncoder/ErrorEncoder as the templates do, request kinds %v drawn per goroutine from splitmix64(seed); distinct_nontrivial counts distinct echo requests (method, path, query, body), each carries ids unique to its goroutine and position", n, rounds, len(helpers), n, echoKinds)
	res.Extra["goroutines"] = n
	res.Extra["rounds"] = rounds
	res.Extra["per_helper_calls"] = perHelper
	if err := res.Write(filepath.Join(out, "result.json")); err != nil {
		panic(err)
	}
	return 0
}

// echoMain: -mode echo. The same request kinds and the same oracle as the hand-assembled
// server, sent to the server compiled from the code generated for the "store" design.
func echoMain(seed uint64, tier, addr, out string) int {
	n, _ := tierParams(tier)
	per := 400
	if tier == "thorough" {
		per = 600
	}
	res := vh.NewResult()
	c := &collector{}
	distinct := vh.Distinct{}
	runEcho(c, res, addr, seed+7, n, per, "g", distinct, filepath.Join(out, "cases_solo_gen.txt"), soloMax(tier))
	for _, f := range c.fails {
		res.Fail(f.Sig, f.What, f.Input)
	}
	res.Evaluations = int(c.evals)
	res.Distinct = len(distinct)
	res.Extra["goroutines"] = n
	if err := res.Write(filepath.Join(out, "echo_gen.json")); err != nil {
		panic(err)
	}
	return 0
}

// soloMax: how many echo requests are replayed alone (correspondence of value_isolation)
func soloMax(tier string) int {
	if tier == "thorough" {
		return 12000
	}
	return 1200
}
