// Command c20 is the harness of property C20 (concurrency safety of generated servers
// and of the runtime helpers they share). Modes:
//
//	-mode gen     evaluate the fixed designs through the real DSL and run the real code
//	              generators into <out>/gen (input of translate/c20 and of the generated
//	              echo driver)
//	-mode run     barrier-start stress of every runtime helper named by the property and
//	              the per-request echo check against handlers assembled from the runtime
//	              helpers the way generated code assembles them; writes result.json
//	-mode echo    the echo check against a server built from GENERATED code (-addr URL),
//	              started by checks/c20.py from <out>/gen/store/cmd/echo
//	-mode stress  only the stress of one helper (-helper name), used by the search that
//	              follows a broken instance proof (binary built with -race)
//
// Nothing here is counted as proof: it is the supporting dynamic evidence and the
// search for a concrete failing schedule.
package main

import (
	"encoding/json"
	"flag"
	"fmt"
	"os"
	"path/filepath"
)

func main() {
	seed := flag.Uint64("seed", 1, "")
	tier := flag.String("tier", "quick", "")
	out := flag.String("out", ".", "")
	mode := flag.String("mode", "run", "gen | run | stress")
	repo := flag.String("repo", "/repo", "tree under test (for the go.mod of the generated module)")
	hmod := flag.String("harnessmod", "/verif/harness/go.mod", "")
	helper := flag.String("helper", "", "stress mode: helper to stress (empty = all)")
	replay := flag.String("replay", "", "")
	addr := flag.String("addr", "", "echo mode: base URL of the server built from generated code")
	flag.Parse()

	switch *mode {
	case "gen":
		files, err := generateAll(filepath.Join(*out, "gen"), *repo, *hmod)
		if err != nil {
			fmt.Fprintln(os.Stderr, "c20 gen:", err)
			os.Exit(1)
		}
		b, _ := json.MarshalIndent(files, "", " ")
		if err := os.WriteFile(filepath.Join(*out, "gen_files.json"), b, 0o644); err != nil {
			panic(err)
		}
	case "echo":
		os.Exit(echoMain(*seed, *tier, *addr, *out))
	case "stress":
		os.Exit(stressMain(*seed, *tier, *helper, *out))
	case "run":
		os.Exit(runMain(*seed, *tier, *out, *replay, *helper))
	default:
		fmt.Fprintln(os.Stderr, "unknown mode", *mode)
		os.Exit(2)
	}
}
