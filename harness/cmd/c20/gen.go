package main

import (
	_ "embed"
	"encoding/json"
	"fmt"
	"os"
	"path/filepath"
	"strings"

	"goa.design/goa/v3/codegen/generator"
	"goa.design/goa/v3/codegen/service"
	"goa.design/goa/v3/eval"
	"goa.design/goa/v3/expr"
	grpccodegen "goa.design/goa/v3/grpc/codegen"
	httpcodegen "goa.design/goa/v3/http/codegen"
)

//go:embed driver_store.go.txt
var driverStore string

//go:embed driver_media.go.txt
var driverMedia string

// resetDesign gives the DSL a fresh world (see /repo/expr/testing.go) and clears the
// per-service caches of the code generators.
func resetDesign() error {
	eval.Reset()
	expr.Root = new(expr.RootExpr)
	expr.GeneratedResultTypes = new(expr.ResultTypesRoot)
	if err := eval.Register(expr.Root); err != nil {
		return err
	}
	if err := eval.Register(expr.GeneratedResultTypes); err != nil {
		return err
	}
	service.Services = make(service.ServicesData)
	httpcodegen.HTTPServices = make(httpcodegen.ServicesData)
	grpccodegen.GRPCServices = make(grpccodegen.ServicesData)
	return nil
}

// generateAll evaluates every fixed design through the real DSL and runs the real
// generators ("gen" command) into <out>/<design>/gen/... . <out> is made a Go module
// (c20gen) whose goa dependency is replaced by the tree under test.
func generateAll(out, repo, harnessMod string) (map[string][]string, error) {
	if err := os.MkdirAll(out, 0o755); err != nil {
		return nil, err
	}
	mod, err := os.ReadFile(harnessMod)
	if err != nil {
		return nil, err
	}
	ms := strings.Replace(string(mod), "module verifharness", "module c20gen", 1)
	if i := strings.Index(ms, "replace goa.design/goa/v3"); i >= 0 {
		ms = ms[:i]
	}
	ms += "replace goa.design/goa/v3 => " + repo + "\n"
	if err := os.WriteFile(filepath.Join(out, "go.mod"), []byte(ms), 0o644); err != nil {
		return nil, err
	}
	if sum, err := os.ReadFile(filepath.Join(repo, "go.sum")); err == nil {
		if err := os.WriteFile(filepath.Join(out, "go.sum"), sum, 0o644); err != nil {
			return nil, err
		}
	}
	// the generators ask `go list` for the import path of the gen package: run them
	// from inside the module, as `goa gen` does
	out, err = filepath.Abs(out)
	if err != nil {
		return nil, err
	}
	if err := os.Chdir(out); err != nil {
		return nil, err
	}
	files := map[string][]string{}
	for _, d := range designs {
		if err := resetDesign(); err != nil {
			return nil, err
		}
		if !eval.Execute(d.DSL, nil) {
			return nil, fmt.Errorf("design %s: %s", d.Name, eval.Context.Error())
		}
		if err := eval.RunDSL(); err != nil {
			return nil, fmt.Errorf("design %s: %w", d.Name, err)
		}
		dir := filepath.Join(out, d.Name)
		if err := os.MkdirAll(dir, 0o755); err != nil {
			return nil, err
		}
		outs, err := generator.Generate(dir, "gen")
		if err != nil {
			return nil, fmt.Errorf("design %s: generate: %w", d.Name, err)
		}
		files[d.Name] = outs
		recordBranches(d.Name)
	}
	if b, err := json.MarshalIndent(map[string]any{"covered": branchCover, "required": requiredBranches}, "", " "); err == nil {
		if err := os.WriteFile(filepath.Join(out, "..", "template_branches.json"), b, 0o644); err != nil {
			return nil, err
		}
	}
	// the driver that mounts the generated "store" server and drives the generated client
	ddir := filepath.Join(out, "store", "cmd", "echo")
	if err := os.MkdirAll(ddir, 0o755); err != nil {
		return nil, err
	}
	if err := os.WriteFile(filepath.Join(ddir, "main.go"), []byte(driverStore), 0o644); err != nil {
		return nil, err
	}
	mdir := filepath.Join(out, "media", "cmd", "echo")
	if err := os.MkdirAll(mdir, 0o755); err != nil {
		return nil, err
	}
	if err := os.WriteFile(filepath.Join(mdir, "main.go"), []byte(driverMedia), 0o644); err != nil {
		return nil, err
	}
	return files, nil
}

// ---- which branches of the server / client handler templates the fixed designs reach ----
//
// Computed from the generators' own template data (httpcodegen.EndpointData), i.e. from
// the very values the {{ if }} conditions of server_handler_init.go.tpl, server_handler.go.tpl,
// endpoint_init.go.tpl, file_server.go.tpl and server_mount.go.tpl test. checks/c20.py reports
// a required branch that no design reaches.

var branchCover = map[string][]string{}

var requiredBranches = []string{
	"server: request decoded (payload)", "server: nothing to decode (no payload)",
	"server: plain endpoint call, result encoded", "server: errors declared (generated error encoder)", "server: no errors (goahttp.ErrorEncoder)",
	"server: redirect, request decoded first", "server: redirect, nothing to decode",
	"server: SkipRequestBodyEncodeDecode with payload", "server: SkipRequestBodyEncodeDecode without payload",
	"server: SkipResponseBodyEncodeDecode with result", "server: SkipResponseBodyEncodeDecode without result",
	"server: SkipRequest and SkipResponse together",
	"server: multipart request decoder", "server: websocket with payload", "server: websocket without payload",
	"server: viewed result", "server: secured endpoint", "server: several routes for one endpoint",
	"server: file server (file)", "server: file server (directory)", "server: file server (redirect)",
	"client: request encoder (body)", "client: no request encoder", "client: multipart request encoder",
	"client: websocket, server streaming (cancel goroutine)", "client: websocket, client sends", "client: websocket, viewed result (SetView)",
	"client: SkipResponseBodyEncodeDecode with result", "client: SkipResponseBodyEncodeDecode without result", "client: SkipRequestBodyEncodeDecode",
}

func recordBranches(design string) {
	add := func(label, where string) { branchCover[label] = append(branchCover[label], where) }
	for _, hs := range expr.Root.API.HTTP.Services {
		sd := httpcodegen.HTTPServices.Get(hs.Name())
		if sd == nil {
			continue
		}
		for _, e := range sd.Endpoints {
			w := design + "." + hs.Name() + "." + e.Method.Name
			ws := e.ServerWebSocket != nil || e.ClientWebSocket != nil
			hasPayload := e.Payload != nil && e.Payload.Ref != ""
			hasResult := e.Result != nil && e.Result.Ref != ""
			skipReq, skipResp := e.Method.SkipRequestBodyEncodeDecode, e.Method.SkipResponseBodyEncodeDecode
			if hasPayload {
				add("server: request decoded (payload)", w)
			} else {
				add("server: nothing to decode (no payload)", w)
			}
			if len(e.Errors) > 0 {
				add("server: errors declared (generated error encoder)", w)
			} else if e.Redirect == nil {
				add("server: no errors (goahttp.ErrorEncoder)", w)
			}
			switch {
			case e.Redirect != nil && hasPayload:
				add("server: redirect, request decoded first", w)
			case e.Redirect != nil:
				add("server: redirect, nothing to decode", w)
			case ws && hasPayload:
				add("server: websocket with payload", w)
			case ws:
				add("server: websocket without payload", w)
			case !skipReq && !skipResp:
				add("server: plain endpoint call, result encoded", w)
			}
			if skipReq && hasPayload {
				add("server: SkipRequestBodyEncodeDecode with payload", w)
			}
			if skipReq && !hasPayload {
				add("server: SkipRequestBodyEncodeDecode without payload", w)
			}
			if skipResp && hasResult {
				add("server: SkipResponseBodyEncodeDecode with result", w)
				add("client: SkipResponseBodyEncodeDecode with result", w)
			}
			if skipResp && !hasResult {
				add("server: SkipResponseBodyEncodeDecode without result", w)
				add("client: SkipResponseBodyEncodeDecode without result", w)
			}
			if skipReq && skipResp {
				add("server: SkipRequest and SkipResponse together", w)
			}
			if skipReq {
				add("client: SkipRequestBodyEncodeDecode", w)
			}
			if e.MultipartRequestDecoder != nil {
				add("server: multipart request decoder", w)
			}
			if e.MultipartRequestEncoder != nil {
				add("client: multipart request encoder", w)
			}
			if e.Method.ViewedResult != nil {
				add("server: viewed result", w)
			}
			if len(e.Requirements) > 0 {
				add("server: secured endpoint", w)
			}
			if len(e.Routes) > 1 {
				add("server: several routes for one endpoint", w)
			}
			if e.RequestEncoder != "" {
				add("client: request encoder (body)", w)
			} else {
				add("client: no request encoder", w)
			}
			if cw := e.ClientWebSocket; cw != nil {
				if cw.SendName == "" {
					add("client: websocket, server streaming (cancel goroutine)", w)
				} else {
					add("client: websocket, client sends", w)
				}
				if e.Method.ViewedResult != nil && e.Method.ViewedResult.ViewName == "" {
					add("client: websocket, viewed result (SetView)", w)
				}
			}
		}
		for _, f := range sd.FileServers {
			w := design + "." + hs.Name() + ".files:" + f.FilePath
			switch {
			case f.Redirect != nil:
				add("server: file server (redirect)", w)
			case f.IsDir:
				add("server: file server (directory)", w)
			default:
				add("server: file server (file)", w)
			}
		}
	}
}
