package main

import (
	_ "embed"
	"fmt"
	"os"
	"path/filepath"
	"strings"

	"goa.design/goa/v3/codegen/generator"
	"goa.design/goa/v3/codegen/service"
	"goa.design/goa/v3/eval"
	"goa.design/goa/v3/expr"
	grpccodegen "goa.design/goa/v3/grpc/codegen"
	httpcodegen "goa.design/goa/v3/http/codegen"
)

//go:embed driver_store.go.txt
var driverStore string

// resetDesign gives the DSL a fresh world (see /repo/expr/testing.go) and clears the
// per-service caches of the code generators.
func resetDesign() error {
	eval.Reset()
	expr.Root = new(expr.RootExpr)
	expr.GeneratedResultTypes = new(expr.ResultTypesRoot)
	if err := eval.Register(expr.Root); err != nil {
		return err
	}
	if err := eval.Register(expr.GeneratedResultTypes); err != nil {
		return err
	}
	service.Services = make(service.ServicesData)
	httpcodegen.HTTPServices = make(httpcodegen.ServicesData)
	grpccodegen.GRPCServices = make(grpccodegen.ServicesData)
	return nil
}

// generateAll evaluates every fixed design through the real DSL and runs the real
// generators ("gen" command) into <out>/<design>/gen/... . <out> is made a Go module
// (c20gen) whose goa dependency is replaced by the tree under test.
func generateAll(out, repo, harnessMod string) (map[string][]string, error) {
	if err := os.MkdirAll(out, 0o755); err != nil {
		return nil, err
	}
	mod, err := os.ReadFile(harnessMod)
	if err != nil {
		return nil, err
	}
	ms := strings.Replace(string(mod), "module verifharness", "module c20gen", 1)
	if i := strings.Index(ms, "replace goa.design/goa/v3"); i >= 0 {
		ms = ms[:i]
	}
	ms += "replace goa.design/goa/v3 => " + repo + "\n"
	if err := os.WriteFile(filepath.Join(out, "go.mod"), []byte(ms), 0o644); err != nil {
		return nil, err
	}
	if sum, err := os.ReadFile(filepath.Join(repo, "go.sum")); err == nil {
		if err := os.WriteFile(filepath.Join(out, "go.sum"), sum, 0o644); err != nil {
			return nil, err
		}
	}
	// the generators ask `go list` for the import path of the gen package: run them
	// from inside the module, as `goa gen` does
	out, err = filepath.Abs(out)
	if err != nil {
		return nil, err
	}
	if err := os.Chdir(out); err != nil {
		return nil, err
	}
	files := map[string][]string{}
	for _, d := range designs {
		if err := resetDesign(); err != nil {
			return nil, err
		}
		if !eval.Execute(d.DSL, nil) {
			return nil, fmt.Errorf("design %s: %s", d.Name, eval.Context.Error())
		}
		if err := eval.RunDSL(); err != nil {
			return nil, fmt.Errorf("design %s: %w", d.Name, err)
		}
		dir := filepath.Join(out, d.Name)
		if err := os.MkdirAll(dir, 0o755); err != nil {
			return nil, err
		}
		outs, err := generator.Generate(dir, "gen")
		if err != nil {
			return nil, fmt.Errorf("design %s: generate: %w", d.Name, err)
		}
		files[d.Name] = outs
	}
	// the driver that mounts the generated "store" server and drives the generated client
	ddir := filepath.Join(out, "store", "cmd", "echo")
	if err := os.MkdirAll(ddir, 0o755); err != nil {
		return nil, err
	}
	if err := os.WriteFile(filepath.Join(ddir, "main.go"), []byte(driverStore), 0o644); err != nil {
		return nil, err
	}
	return files, nil
}
