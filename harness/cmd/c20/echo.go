package main

// Per-request echo check against a server assembled BY HAND from the runtime helpers
// exactly the way the generated code assembles them (server_handler_init.go.tpl,
// request_decoder / response_encoder / error_encoder templates): closures created once
// per handler, request-scoped state in locals, goahttp.NewMuxer + RequestDecoder +
// ResponseEncoder + ErrorEncoder. N client goroutines issue mixed valid / invalid /
// error-provoking requests; every response must equal the function of its own request.

import (
	"bytes"
	"context"
	"encoding/json"
	"encoding/xml"
	"errors"
	"fmt"
	"hash/fnv"
	"io"
	"net/http"
	"net/http/httptest"
	"net/url"
	"os"
	"regexp"
	"runtime"
	"strings"
	"sync"
	"time"
	"unicode/utf8"

	goahttp "goa.design/goa/v3/http"
	goa "goa.design/goa/v3/pkg"

	"verifharness/vh"
)

type showPayload struct {
	ID   string
	View *string
	Q    *string
	Tag  *string
}

type addBody struct {
	Name  *string  `json:"name"`
	Count *int     `json:"count"`
	Tags  []string `json:"tags"`
}

type addPayload struct {
	Shelf string
	Name  string
	Count int
	Tags  []string
	Token *string
}

type itemBody struct {
	ID      string   `json:"id" xml:"id"`
	Name    string   `json:"name" xml:"name"`
	Count   *int     `json:"count,omitempty" xml:"count,omitempty"`
	Tag     *string  `json:"tag,omitempty" xml:"tag,omitempty"`
	Q       *string  `json:"q,omitempty" xml:"q,omitempty"`
	Tags    []string `json:"tags,omitempty" xml:"tags,omitempty"`
}

type itemResult struct {
	View string
	Item itemBody
}

type notFound struct {
	Name    string `json:"name"`
	ID      string `json:"id"`
	Message string `json:"message"`
}

func (e *notFound) Error() string        { return e.Message }
func (e *notFound) GoaErrorName() string { return e.Name }

// ---- what the generated encode_decode.go does, by hand ----

func decodeShowRequest(mux goahttp.Muxer, decoder func(*http.Request) goahttp.Decoder) func(*http.Request) (any, error) {
	return func(r *http.Request) (any, error) {
		var (
			id   string
			view *string
			q    *string
			tag  *string
			err  error

			params = mux.Vars(r)
		)
		id = params["id"]
		err = goa.MergeErrors(err, goa.ValidatePattern("id", id, "^[a-z0-9-]+$"))
		if utf8.RuneCountInString(id) > 40 {
			err = goa.MergeErrors(err, goa.InvalidLengthError("id", id, utf8.RuneCountInString(id), 40, false))
		}
		qp := r.URL.Query()
		viewRaw := qp.Get("view")
		if viewRaw != "" {
			view = &viewRaw
		}
		if view != nil {
			if !(*view == "default" || *view == "tiny") {
				err = goa.MergeErrors(err, goa.InvalidEnumValueError("view", *view, []any{"default", "tiny"}))
			}
		}
		qRaw := qp.Get("q")
		if qRaw != "" {
			q = &qRaw
		}
		if q != nil {
			if utf8.RuneCountInString(*q) < 2 {
				err = goa.MergeErrors(err, goa.InvalidLengthError("q", *q, utf8.RuneCountInString(*q), 2, true))
			}
		}
		tagRaw := r.Header.Get("X-Tag")
		if tagRaw != "" {
			tag = &tagRaw
		}
		if err != nil {
			return nil, err
		}
		return &showPayload{id, view, q, tag}, nil
	}
}

func encodeShowResponse(encoder func(context.Context, http.ResponseWriter) goahttp.Encoder) func(context.Context, http.ResponseWriter, any) error {
	return func(ctx context.Context, w http.ResponseWriter, v any) error {
		res := v.(*itemResult)
		w.Header().Set("goa-view", res.View)
		enc := encoder(ctx, w)
		var body any
		switch res.View {
		case "default", "":
			b := res.Item
			body = &b
		case "tiny":
			body = &itemBody{ID: res.Item.ID, Name: res.Item.Name}
		}
		w.WriteHeader(http.StatusOK)
		return enc.Encode(body)
	}
}

func encodeShowError(encoder func(context.Context, http.ResponseWriter) goahttp.Encoder, formatter func(ctx context.Context, err error) goahttp.Statuser) func(context.Context, http.ResponseWriter, error) error {
	encodeError := goahttp.ErrorEncoder(encoder, formatter)
	return func(ctx context.Context, w http.ResponseWriter, v error) error {
		var en goa.GoaErrorNamer
		if !errors.As(v, &en) {
			return encodeError(ctx, w, v)
		}
		switch en.GoaErrorName() {
		case "not_found":
			var res *notFound
			errors.As(v, &res)
			enc := encoder(ctx, w)
			var body any
			if formatter != nil {
				body = formatter(ctx, res)
			} else {
				body = &notFound{res.Name, res.ID, res.Message}
			}
			w.Header().Set("goa-error", res.GoaErrorName())
			w.WriteHeader(http.StatusNotFound)
			return enc.Encode(body)
		default:
			return encodeError(ctx, w, v)
		}
	}
}

func decodeAddRequest(mux goahttp.Muxer, decoder func(*http.Request) goahttp.Decoder) func(*http.Request) (any, error) {
	return func(r *http.Request) (any, error) {
		var (
			body addBody
			err  error
		)
		err = decoder(r).Decode(&body)
		if err != nil {
			if err == io.EOF {
				return nil, goa.MissingPayloadError()
			}
			var gerr *goa.ServiceError
			if errors.As(err, &gerr) {
				return nil, gerr
			}
			return nil, goa.DecodePayloadError(err.Error())
		}
		if body.Name == nil {
			err = goa.MergeErrors(err, goa.MissingFieldError("name", "body"))
		}
		if body.Count == nil {
			err = goa.MergeErrors(err, goa.MissingFieldError("count", "body"))
		}
		if body.Name != nil {
			if utf8.RuneCountInString(*body.Name) < 3 {
				err = goa.MergeErrors(err, goa.InvalidLengthError("body.name", *body.Name, utf8.RuneCountInString(*body.Name), 3, true))
			}
			err = goa.MergeErrors(err, goa.ValidatePattern("body.name", *body.Name, "^[A-Za-z0-9 ]+$"))
		}
		if body.Count != nil {
			if *body.Count < 0 {
				err = goa.MergeErrors(err, goa.InvalidRangeError("body.count", *body.Count, 0, true))
			}
			if *body.Count > 1000 {
				err = goa.MergeErrors(err, goa.InvalidRangeError("body.count", *body.Count, 1000, false))
			}
		}
		if len(body.Tags) > 4 {
			err = goa.MergeErrors(err, goa.InvalidLengthError("body.tags", body.Tags, len(body.Tags), 4, false))
		}
		if err != nil {
			return nil, err
		}
		var (
			shelf string
			token *string

			params = mux.Vars(r)
		)
		shelf = params["shelf"]
		tokenRaw := r.Header.Get("Authorization")
		if tokenRaw != "" {
			token = &tokenRaw
		}
		return &addPayload{shelf, *body.Name, *body.Count, body.Tags, token}, nil
	}
}

func encodeAddResponse(encoder func(context.Context, http.ResponseWriter) goahttp.Encoder) func(context.Context, http.ResponseWriter, any) error {
	return func(ctx context.Context, w http.ResponseWriter, v any) error {
		res := v.(*itemResult)
		enc := encoder(ctx, w)
		b := res.Item
		w.WriteHeader(http.StatusCreated)
		return enc.Encode(&b)
	}
}

type blobPayload struct {
	ID   string
	Data []byte
}

func decodeBlobRequest(mux goahttp.Muxer, decoder func(*http.Request) goahttp.Decoder) func(*http.Request) (any, error) {
	return func(r *http.Request) (any, error) {
		var (
			body []byte
			err  error
		)
		err = decoder(r).Decode(&body)
		if err != nil {
			if err == io.EOF {
				return nil, goa.MissingPayloadError()
			}
			var gerr *goa.ServiceError
			if errors.As(err, &gerr) {
				return nil, gerr
			}
			return nil, goa.DecodePayloadError(err.Error())
		}
		var (
			id string

			params = mux.Vars(r)
		)
		id = params["id"]
		return &blobPayload{id, body}, nil
	}
}

func encodeBlobResponse(encoder func(context.Context, http.ResponseWriter) goahttp.Encoder) func(context.Context, http.ResponseWriter, any) error {
	return func(ctx context.Context, w http.ResponseWriter, v any) error {
		res, _ := v.([]byte)
		ctx = context.WithValue(ctx, goahttp.ContentTypeKey, "text/plain")
		enc := encoder(ctx, w)
		body := res
		w.WriteHeader(http.StatusOK)
		return enc.Encode(body)
	}
}

// the service keeps its payload while other requests are decoded, then returns it
func blobEndpoint(ctx context.Context, v any) (any, error) {
	p := v.(*blobPayload)
	time.Sleep(time.Duration(50+len(p.ID)%7*60) * time.Microsecond)
	runtime.Gosched()
	return p.Data, nil
}

// newHandler is server_handler_init.go.tpl
func newHandler(method string, endpoint goa.Endpoint,
	decodeRequest func(*http.Request) (any, error),
	encodeResponse func(context.Context, http.ResponseWriter, any) error,
	encodeError func(context.Context, http.ResponseWriter, error) error,
	errhandler func(context.Context, http.ResponseWriter, error)) http.Handler {
	return http.HandlerFunc(func(w http.ResponseWriter, r *http.Request) {
		ctx := context.WithValue(r.Context(), goahttp.AcceptTypeKey, r.Header.Get("Accept"))
		ctx = context.WithValue(ctx, goa.MethodKey, method)
		ctx = context.WithValue(ctx, goa.ServiceKey, "store")
		payload, err := decodeRequest(r)
		if err != nil {
			if err := encodeError(ctx, w, err); err != nil {
				errhandler(ctx, w, err)
			}
			return
		}
		res, err := endpoint(ctx, payload)
		if err != nil {
			if err := encodeError(ctx, w, err); err != nil {
				errhandler(ctx, w, err)
			}
			return
		}
		if err := encodeResponse(ctx, w, res); err != nil {
			errhandler(ctx, w, err)
		}
	})
}

func showEndpoint(ctx context.Context, v any) (any, error) {
	p := v.(*showPayload)
	if strings.HasPrefix(p.ID, "missing-") {
		return nil, &notFound{"not_found", p.ID, "no item " + p.ID}
	}
	if strings.HasPrefix(p.ID, "boom-") {
		return nil, fmt.Errorf("internal %s", p.ID)
	}
	// undeclared goa errors carrying flags: they go through the default error encoder
	switch {
	case strings.HasPrefix(p.ID, "busy-"):
		return nil, goa.TemporaryError("busy", "busy %s", p.ID)
	case strings.HasPrefix(p.ID, "slow-"):
		return nil, goa.PermanentTimeoutError("slow", "slow %s", p.ID)
	case strings.HasPrefix(p.ID, "late-"):
		return nil, goa.TemporaryTimeoutError("late", "late %s", p.ID)
	}
	view := "default"
	if p.View != nil {
		view = *p.View
	}
	n := len(p.ID)
	return &itemResult{View: view, Item: itemBody{ID: p.ID, Name: "n-" + p.ID, Count: &n, Tag: p.Tag, Q: p.Q}}, nil
}

func addEndpoint(ctx context.Context, v any) (any, error) {
	p := v.(*addPayload)
	c := p.Count
	return &itemResult{View: "default", Item: itemBody{ID: p.Shelf, Name: p.Name, Count: &c, Tags: p.Tags, Tag: p.Token}}, nil
}

// preRoutingVars is a middleware for Muxer.Use that asks the muxer for the path variables
// and the pattern of a request BEFORE it is routed, as logging / tracing / auth middlewares
// do: every value must occur in this request's own path.
func preRoutingVars(mux goahttp.ResolverMuxer, fail func(what string, in any)) func(http.Handler) http.Handler {
	return func(next http.Handler) http.Handler {
		return http.HandlerFunc(func(w http.ResponseWriter, r *http.Request) {
			vars := mux.Vars(r)
			pat := mux.ResolvePattern(r)
			for k, v := range vars {
				if !strings.Contains(r.URL.Path, v) {
					fail(fmt.Sprintf("before routing, Vars(%s %s) = %v (pattern %q): %s=%q is not in this request's path", r.Method, r.URL.Path, vars, pat, k, v), r.URL.Path)
					break
				}
			}
			next.ServeHTTP(w, r)
		})
	}
}

func newHandServer(errs *collector) *httptest.Server {
	mux := goahttp.NewMuxer()
	mux.Use(preRoutingVars(mux, func(what string, in any) { errs.fail("mux-vars-foreign/pre-routing", what, in) }))
	dec, enc := goahttp.RequestDecoder, goahttp.ResponseEncoder
	eh := func(ctx context.Context, w http.ResponseWriter, err error) {
		errs.fail("echo-errhandler-called", "a response could not be encoded: "+err.Error(), nil)
	}
	show := newHandler("show", showEndpoint, decodeShowRequest(mux, dec), encodeShowResponse(enc), encodeShowError(enc, nil), eh)
	add := newHandler("add", addEndpoint, decodeAddRequest(mux, dec), encodeAddResponse(enc), goahttp.ErrorEncoder(enc, nil), eh)
	mux.Handle("GET", "/items/{id}", show.(http.HandlerFunc))
	mux.Handle("POST", "/shelves/{shelf}/items", add.(http.HandlerFunc))
	blob := newHandler("blob", blobEndpoint, decodeBlobRequest(mux, dec), encodeBlobResponse(enc), goahttp.ErrorEncoder(enc, nil), eh)
	mux.Handle("POST", "/blobs/{id}", blob.(http.HandlerFunc))
	return httptest.NewServer(mux)
}

// ---- requests whose expected response is a pure function of the request ----

type echoReq struct {
	Kind    string            `json:"kind"`
	Method  string            `json:"method"`
	Path    string            `json:"path"`
	Query   map[string]string `json:"query,omitempty"`
	Headers map[string]string `json:"headers,omitempty"`
	Body    string            `json:"body,omitempty"`
	ID      string            `json:"id"`
}

type echoResp struct {
	Status  int               `json:"status"`
	CT      string            `json:"content_type"`
	Headers map[string]string `json:"headers,omitempty"`
	Body    string            `json:"body"`
}

// Accept values for structured results: exact, with parameters, q-valued, vendor/suffixed,
// lists and wildcards (which the encoder does not negotiate: JSON)
var echoAccepts = []string{"application/json", "application/xml", "", "application/json; charset=utf-8", "application/xml; charset=utf-8",
	"application/xml;q=0.9", "application/json;q=0.2", "application/vnd.c20+json", "application/xml, application/json;q=0.5", "*/*", "APPLICATION/XML"}

var echoKinds = []string{"show-busy", "show-slow", "show-late", "show-boom", "blob", "blob", "show", "show", "show-tiny", "show-bad-id", "show-bad-query", "show-missing", "show-boom", "add", "add", "add-bad-count", "add-bad-json", "no-route"}

func genEchoReq(r *vh.RNG, g, k int, tag string) echoReq {
	id := fmt.Sprintf("%s%dx%dx%d", tag, g, k, r.Intn(100000))
	kind := vh.Pick(r, echoKinds)
	q := echoReq{Kind: kind, ID: id, Headers: map[string]string{}, Query: map[string]string{}}
	acc := vh.Pick(r, echoAccepts)
	switch kind {
	case "show", "show-tiny":
		q.Method, q.Path = "GET", "/items/"+id
		q.Query["q"] = "q-" + id
		q.Headers["X-Tag"] = "t-" + id
		q.Headers["Accept"] = acc
		if kind == "show-tiny" {
			q.Query["view"] = "tiny"
		} else if r.Bool() {
			q.Query["view"] = "default"
		}
	case "blob":
		q.Method, q.Path = "POST", "/blobs/"+id
		q.Headers["Content-Type"] = vh.Pick(r, []string{"text/plain", "text/html", "text/plain; charset=utf-8"})
		q.Body = strings.Repeat(id+"#", 1+r.Intn(80))
	case "show-bad-id":
		q.Method, q.Path = "GET", "/items/BAD_"+id
	case "show-bad-query":
		q.Method, q.Path = "GET", "/items/"+id
		q.Query["view"] = "huge-" + id
		q.Query["q"] = "x"
	case "show-missing":
		q.Method, q.Path = "GET", "/items/missing-"+id
		q.Headers["Accept"] = "application/json"
	case "show-boom":
		q.Method, q.Path = "GET", "/items/boom-"+id
	case "show-busy":
		q.Method, q.Path = "GET", "/items/busy-"+id
	case "show-slow":
		q.Method, q.Path = "GET", "/items/slow-"+id
	case "show-late":
		q.Method, q.Path = "GET", "/items/late-"+id
	case "add":
		q.Method, q.Path = "POST", "/shelves/s-"+id+"/items"
		q.Headers["Authorization"] = "tok-" + id
		q.Headers["Accept"] = acc
		tags := []string{}
		for i := 0; i < r.Intn(4); i++ {
			tags = append(tags, fmt.Sprintf("%s-%d", id, i))
		}
		b, _ := json.Marshal(map[string]any{"name": "Name " + id, "count": (g*37 + k) % 1000, "tags": tags})
		q.Body = string(b)
	case "add-bad-count":
		q.Method, q.Path = "POST", "/shelves/s-"+id+"/items"
		q.Body = fmt.Sprintf(`{"name":"Name %s","count":%d}`, id, 5000+g*100+k)
	case "add-bad-json":
		q.Method, q.Path = "POST", "/shelves/s-"+id+"/items"
		q.Body = `{"name": "` + id
	case "no-route":
		q.Method, q.Path = "GET", "/nope/"+id
	}
	return q
}

func doEcho(cl *http.Client, base string, q echoReq) (echoResp, error) {
	u := base + q.Path
	if len(q.Query) > 0 {
		vals := url.Values{}
		for k, v := range q.Query {
			vals.Set(k, v)
		}
		u += "?" + vals.Encode()
	}
	var body io.Reader
	if q.Body != "" {
		body = strings.NewReader(q.Body)
	}
	req, err := http.NewRequest(q.Method, u, body)
	if err != nil {
		return echoResp{}, err
	}
	for k, v := range q.Headers {
		if v != "" {
			req.Header.Set(k, v)
		}
	}
	if q.Body != "" && q.Headers["Content-Type"] == "" {
		req.Header.Set("Content-Type", "application/json")
	}
	resp, err := cl.Do(req)
	if err != nil {
		return echoResp{}, err
	}
	defer resp.Body.Close()
	b, _ := io.ReadAll(resp.Body)
	return echoResp{Status: resp.StatusCode, CT: resp.Header.Get("Content-Type"),
		Headers: map[string]string{"goa-view": resp.Header.Get("goa-view"), "goa-error": resp.Header.Get("goa-error")}, Body: string(b)}, nil
}

func sp(p *string) string {
	if p == nil {
		return "<nil>"
	}
	return *p
}

// checkEcho: the required response, computed from the request alone.
func checkEcho(q echoReq, got echoResp) string {
	id := q.ID
	wantCT := wantCT(q.Headers["Accept"]) // the function of THIS request's Accept value
	decodeItem := func() (itemBody, string) {
		var it itemBody
		var err error
		if got.CT == "application/xml" {
			err = xml.Unmarshal([]byte(got.Body), &it)
		} else {
			err = json.Unmarshal([]byte(got.Body), &it)
		}
		if err != nil {
			return it, "body does not decode as announced (" + got.CT + "): " + err.Error()
		}
		return it, ""
	}
	errBody := func() goahttp.ErrorResponse {
		var e goahttp.ErrorResponse
		_ = json.Unmarshal([]byte(got.Body), &e)
		return e
	}
	// the whole error response is compared: status, name, the message (which names this
	// request's own value) and the three flags
	wantErr := func(status int, name, inMsg string, temporary, timeout, fault bool) string {
		e := errBody()
		if got.Status != status || e.Name != name || !strings.Contains(e.Message, inMsg) || e.Temporary != temporary || e.Timeout != timeout || e.Fault != fault {
			return fmt.Sprintf("expected status %d name %q message naming %q temporary=%v timeout=%v fault=%v, got %d %s", status, name, inMsg, temporary, timeout, fault, got.Status, got.Body)
		}
		return ""
	}
	switch q.Kind {
	case "blob":
		if got.Status != 200 || got.CT != "text/plain" {
			return fmt.Sprintf("status %d Content-Type %q, expected 200 text/plain: %.80s", got.Status, got.CT, got.Body)
		}
		if got.Body != q.Body {
			return fmt.Sprintf("the bytes that came back (%.60q…) are not the bytes this request sent (%.60q…)", got.Body, q.Body)
		}
	case "show", "show-tiny":
		if got.Status != 200 {
			return fmt.Sprintf("status %d, expected 200", got.Status)
		}
		if got.CT != wantCT {
			return fmt.Sprintf("Content-Type %q, the request's Accept asks for %q", got.CT, wantCT)
		}
		view := q.Query["view"]
		if view == "" {
			view = "default"
		}
		if got.Headers["goa-view"] != view {
			return fmt.Sprintf("goa-view %q, expected %q", got.Headers["goa-view"], view)
		}
		it, bad := decodeItem()
		if bad != "" {
			return bad
		}
		if it.ID != id || it.Name != "n-"+id {
			return fmt.Sprintf("id/name %q/%q are not those of this request (%q)", it.ID, it.Name, id)
		}
		if view == "tiny" {
			if it.Tag != nil || it.Q != nil || it.Count != nil {
				return "tiny view carries attributes outside the view"
			}
		} else if sp(it.Tag) != "t-"+id || sp(it.Q) != "q-"+id || it.Count == nil || *it.Count != len(id) {
			return fmt.Sprintf("tag/q/count %q/%q are not those of this request", sp(it.Tag), sp(it.Q))
		}
	case "show-bad-id":
		if bad := wantErr(400, "invalid_pattern", "BAD_"+id, false, false, false); bad != "" {
			return bad
		}
		if !strings.Contains(errBody().Message, "id must match") {
			return "validation error does not name the field id: " + got.Body
		}
	case "show-bad-query":
		if bad := wantErr(400, "invalid_enum_value", "huge-"+id, false, false, false); bad != "" {
			return bad
		}
		if !strings.Contains(errBody().Message, "length of q") {
			return "merged validation error does not name q: " + got.Body
		}
	case "show-missing":
		var nf notFound
		_ = json.Unmarshal([]byte(got.Body), &nf)
		if got.Status != 404 || got.Headers["goa-error"] != "not_found" || nf.ID != "missing-"+id || nf.Message != "no item missing-"+id {
			return fmt.Sprintf("expected 404 not_found carrying id missing-%s, got %d %s", id, got.Status, got.Body)
		}
	case "show-boom":
		return wantErr(500, "fault", "internal boom-"+id, false, false, true)
	case "show-busy":
		return wantErr(503, "busy", "busy busy-"+id, true, false, false)
	case "show-slow":
		return wantErr(408, "slow", "slow slow-"+id, false, true, false)
	case "show-late":
		return wantErr(504, "late", "late late-"+id, true, true, false)
	case "add":
		if got.Status != 201 {
			return fmt.Sprintf("status %d, expected 201: %s", got.Status, got.Body)
		}
		if got.CT != wantCT {
			return fmt.Sprintf("Content-Type %q, the request's Accept asks for %q", got.CT, wantCT)
		}
		it, bad := decodeItem()
		if bad != "" {
			return bad
		}
		var sent struct {
			Name  string
			Count int
			Tags  []string
		}
		_ = json.Unmarshal([]byte(q.Body), &sent)
		if it.ID != "s-"+id || it.Name != sent.Name || it.Count == nil || *it.Count != sent.Count || sp(it.Tag) != "tok-"+id || fmt.Sprint(it.Tags) != fmt.Sprint(sent.Tags) {
			return fmt.Sprintf("echo %s is not the payload of this request %s", got.Body, q.Body)
		}
	case "add-bad-count":
		var sent struct{ Count int }
		_ = json.Unmarshal([]byte(q.Body), &sent)
		if bad := wantErr(400, "invalid_range", fmt.Sprint(sent.Count), false, false, false); bad != "" {
			return bad
		}
		if !strings.Contains(errBody().Message, "body.count") {
			return "validation error does not name body.count: " + got.Body
		}
	case "add-bad-json":
		return wantErr(400, "decode_payload", "", false, false, false)
	case "no-route":
		return wantErr(404, "fault", "404 page not found", false, false, true)
	}
	return ""
}

var errIDJSON = regexp.MustCompile(`"id":"[^"]*"`)
var errIDXML = regexp.MustCompile(`<id>[^<]*</id>`)

// canonical is what a response shows, with the identifier that goa draws at random for an
// error response projected away.
func canonical(r echoResp) string {
	body := r.Body
	if strings.Contains(body, `"fault":`) {
		body = errIDJSON.ReplaceAllString(body, `"id":"*"`)
	}
	if strings.Contains(body, "<fault>") {
		body = errIDXML.ReplaceAllString(body, "<id>*</id>")
	}
	return fmt.Sprintf("%d|%s|%s|%s|%s", r.Status, r.CT, r.Headers["goa-view"], r.Headers["goa-error"], body)
}

func digest60(s string) uint64 {
	h := fnv.New64a()
	h.Write([]byte(s)) // nolint
	return h.Sum64() & (1<<60 - 1)
}

// runEcho drives base with n client goroutines x per requests each. soloOut, if not empty,
// receives the correspondence cases of Conc.value_isolation: the response obtained under
// concurrency and the response to the same request replayed alone afterwards.
func runEcho(c *collector, res *vh.Result, base string, seed uint64, n, per int, tag string, distinct vh.Distinct, soloOut string, soloMax int) {
	type pair struct {
		q   echoReq
		got echoResp
	}
	kept := make([][]pair, n)
	cl := &http.Client{Transport: &http.Transport{MaxIdleConnsPerHost: n, MaxConnsPerHost: 0}}
	root := vh.NewRNG(seed)
	rngs := make([]*vh.RNG, n)
	for g := range rngs {
		rngs[g] = root.Fork()
	}
	var mu sync.Mutex
	barrier(n, func(g int) {
		for k := 0; k < per; k++ {
			q := genEchoReq(rngs[g], g, k, tag)
			got, err := doEcho(cl, base, q)
			if err != nil {
				c.fail("echo-transport-error", err.Error(), q)
				continue
			}
			if bad := checkEcho(q, got); bad != "" {
				c.fail("echo-mismatch/"+q.Kind, "response is not the function of its own request: "+bad, map[string]any{"request": q, "response": got})
			}
			c.eval(1)
			kept[g] = append(kept[g], pair{q, got})
			mu.Lock()
			res.Count("echo_kind=" + q.Kind)
			distinct.Add(q.Method + q.Path + q.Body + fmt.Sprint(q.Query))
			if g == 0 && k < 3 {
				res.Sample(map[string]any{"request": q, "response": got}, 6)
			}
			mu.Unlock()
		}
	})
	// every request again, alone: the concurrent answer must be the solo answer
	if soloOut != "" {
		var b strings.Builder
		idx := 0
		for k := 0; k < per && idx < soloMax; k++ {
			for g := 0; g < n && idx < soloMax; g++ {
				if k >= len(kept[g]) {
					continue
				}
				p := kept[g][k]
				alone, err := doEcho(cl, base, p.q)
				if err != nil {
					c.fail("echo-transport-error", err.Error(), p.q)
					continue
				}
				cc, cs := canonical(p.got), canonical(alone)
				if cc != cs {
					c.fail("solo-differs/"+p.q.Kind, "the response obtained while other requests were in flight differs from the response to the same request sent alone", map[string]any{"request": p.q, "concurrent": p.got, "alone": alone})
				}
				fmt.Fprintf(&b, "(%d, %d%%N, %d%%N)\n", idx, digest60(cc), digest60(cs))
				res.Cases = append(res.Cases, map[string]any{"request": p.q})
				idx++
			}
		}
		if err := os.WriteFile(soloOut, []byte(b.String()), 0o644); err != nil {
			panic(err)
		}
		res.Dist["solo_replays_"+tag] = idx
	}
	cl.CloseIdleConnections()
	_ = bytes.NewReader
}
