package main

func stressMain(seed uint64, tier, helper, out string) int { return 0 }
func runMain(seed uint64, tier, out, replay string) int   { return 0 }
