package main

// Barrier-start stress of the runtime helpers named by C20: N goroutines are released
// together and call the shared helper; every goroutine checks that what it got back
// is the function of what IT passed in. Built with -race in the thorough tier and in
// the search that follows a broken instance proof (the race detector's report is then
// the concrete failing schedule).

import (
	"bytes"
	"context"
	"encoding/gob"
	"encoding/json"
	"encoding/xml"
	"errors"
	"fmt"
	"io"
	"mime"
	"net/http"
	"net/http/httptest"
	"os"
	"regexp"
	"strings"
	"sync"
	"sync/atomic"
	"time"

	goagrpcmw "goa.design/goa/v3/grpc/middleware"
	goahttp "goa.design/goa/v3/http"
	"goa.design/goa/v3/middleware"
	goa "goa.design/goa/v3/pkg"
	"google.golang.org/grpc"
	"google.golang.org/grpc/codes"
	"google.golang.org/grpc/metadata"
	"google.golang.org/grpc/status"

	"verifharness/vh"
)

type failure struct {
	Sig   string `json:"signature"`
	What  string `json:"what"`
	Input any    `json:"input"`
}

type collector struct {
	mu    sync.Mutex
	fails []failure
	evals int64
}

func (c *collector) fail(sig, what string, input any) {
	c.mu.Lock()
	if len(c.fails) < 50 {
		c.fails = append(c.fails, failure{sig, what, input})
	}
	c.mu.Unlock()
}
func (c *collector) eval(n int) { atomic.AddInt64(&c.evals, int64(n)) }

// barrier runs f(g) in n goroutines released together.
func barrier(n int, f func(g int)) {
	start := make(chan struct{})
	var wg sync.WaitGroup
	for g := 0; g < n; g++ {
		wg.Add(1)
		go func(g int) {
			defer wg.Done()
			defer func() {
				if r := recover(); r != nil {
					panicSink(fmt.Sprint(r))
				}
			}()
			<-start
			f(g)
		}(g)
	}
	close(start)
	wg.Wait()
}

var (
	panicMu   sync.Mutex
	panicSeen []string
)

func panicSink(s string) {
	panicMu.Lock()
	panicSeen = append(panicSeen, s)
	panicMu.Unlock()
}

type helper struct {
	Name string
	Run  func(c *collector, n, rounds int, seed uint64)
}

var helpers = []helper{
	{"ErrorEncoder", stressErrorEncoder},
	{"ResponseEncoder", stressResponseEncoder},
	{"RequestDecoder", stressRequestDecoder},
	{"ResponseDecoder", stressResponseDecoder},
	{"TextCodec", stressTextCodec},
	{"MuxerVars", stressMuxVars},
	{"ValidatePattern", stressValidatePattern},
	{"Samplers", stressSamplers},
	{"StreamCanceler", stressStreamCanceler},
	{"SkipResponseWriter", stressSkipResponseWriter},
	{"MergeErrors", stressMergeErrors},
}

// holds: what every goroutine got back is KEPT while the other goroutines (and its own
// later calls) run, and validated again after the barrier. A result that aliases shared
// storage (a pooled buffer, a reused map, a cached value) is correct when it is returned
// and wrong afterwards; only the second look sees it.
type holds [][]func()

func newHolds(n int) holds           { return make(holds, n) }
func (h holds) add(g int, f func()) { h[g] = append(h[g], f) }
func (h holds) recheck() {
	for _, fs := range h {
		for _, f := range fs {
			f()
		}
	}
}

// rngs gives every goroutine its own generator so that inputs vary per goroutine.
func rngs(seed uint64, salt uint64, n int) []*vh.RNG {
	root := vh.NewRNG(seed*1000003 + salt)
	out := make([]*vh.RNG, n)
	for i := range out {
		out[i] = root.Fork()
	}
	return out
}

// ---- content negotiation vocabulary ----

// Accept values: exact types, types WITH PARAMETERS, q-lists, vendor / suffixed types,
// wildcards, unsupported types, nothing.
var acceptPool = []string{
	"application/json", "application/xml", "application/gob", "text/plain", "text/html", "",
	"application/json; charset=utf-8", "application/xml; charset=utf-8", "application/xml;q=0.8",
	"text/plain; charset=iso-8859-1", "text/html; level=1", "application/gob; v=1", "application/json;q=0.1",
	"application/json;q=0.9, text/plain", "text/html, application/xml;q=0.9", "application/xml, application/json",
	"*/*", "image/png", "application/vnd.c20+json", "application/vnd.c20+xml", "application/vnd.api+json; ext=x",
	"APPLICATION/XML", "Text/Plain; Charset=UTF-8",
}

func supportedExact(a string) string {
	switch a {
	case "", "application/json":
		return "application/json"
	case "application/xml", "application/gob", "text/html", "text/plain":
		return a
	}
	return ""
}

// wantCT is the documented negotiation of goahttp.ResponseEncoder written independently:
// the Accept value itself, else its media type without parameters, else JSON.
func wantCT(accept string) string {
	if ct := supportedExact(accept); ct != "" {
		return ct
	}
	if mt, _, err := mime.ParseMediaType(accept); err == nil {
		if ct := supportedExact(mt); ct != "" {
			return ct
		}
	}
	return "application/json"
}

type echoBody struct {
	ID string `json:"id" xml:"id"`
	N  int    `json:"n" xml:"n"`
}

// bodyCarries: the body, read in the format the Content-Type announces, is this value.
func bodyCarries(ct string, body []byte, id string, n int) bool {
	var got echoBody
	switch ct {
	case "application/json":
		if json.Unmarshal(body, &got) != nil {
			return false
		}
	case "application/xml":
		if xml.Unmarshal(body, &got) != nil {
			return false
		}
	case "application/gob":
		if gob.NewDecoder(bytes.NewReader(body)).Decode(&got) != nil {
			return false
		}
	case "text/plain", "text/html":
		return string(body) == id
	default:
		return false
	}
	return got.ID == id && got.N == n
}

// errWant is everything an error response shows.
type errWant struct {
	Status                    int
	Name, Message             string
	Temporary, Timeout, Fault bool
}

func decodeErrBody(ct string, body []byte) (errWant, string) {
	var r struct {
		Name      string `json:"name" xml:"name"`
		ID        string `json:"id" xml:"id"`
		Message   string `json:"message" xml:"message"`
		Temporary bool   `json:"temporary" xml:"temporary"`
		Timeout   bool   `json:"timeout" xml:"timeout"`
		Fault     bool   `json:"fault" xml:"fault"`
	}
	if ct == "application/xml" {
		_ = xml.Unmarshal(body, &r)
	} else {
		_ = json.Unmarshal(body, &r)
	}
	return errWant{0, r.Name, r.Message, r.Temporary, r.Timeout, r.Fault}, r.ID
}

// goahttp.ErrorEncoder: one closure shared by all requests, nil formatter (the default
// path the fixed defect d17a564 was on), fresh closure every round so that the first
// calls of every round are concurrent. Accept values, error kinds and formatters vary.
func stressErrorEncoder(c *collector, n, rounds int, seed uint64) {
	rg := rngs(seed, 1, n)
	for r := 0; r < rounds; r++ {
		var formatter func(context.Context, error) goahttp.Statuser
		if r%3 == 2 {
			formatter = func(ctx context.Context, err error) goahttp.Statuser { return goahttp.NewErrorResponse(ctx, err) }
		}
		enc := goahttp.ErrorEncoder(goahttp.ResponseEncoder, formatter)
		h := newHolds(n)
		barrier(n, func(g int) {
			for k := 0; k < 40; k++ {
				id := fmt.Sprintf("e%d-%d-%d-%d", seed, r, g, k)
				acc := vh.Pick(rg[g], []string{"application/json", "application/xml", "", "application/json; charset=utf-8", "application/xml;q=0.5"})
				w := httptest.NewRecorder()
				ctx := context.WithValue(context.Background(), goahttp.AcceptTypeKey, acc)
				// the whole response is a function of this error: status, name, message, id and
				// the three flags — every field is compared, not a projection
				var in error
				var want errWant
				switch rg[g].Intn(7) {
				case 0:
					in, want = goa.PermanentError("custom_"+id, "msg "+id), errWant{400, "custom_" + id, "msg " + id, false, false, false}
				case 1:
					in, want = errors.New("plain "+id), errWant{500, "fault", "plain " + id, false, false, true}
				case 2:
					in, want = goa.TemporaryError("tmp_"+id, "msg "+id), errWant{503, "tmp_" + id, "msg " + id, true, false, false}
				case 3:
					in, want = fmt.Errorf("wrapped: %w", goa.PermanentTimeoutError("to_"+id, "msg "+id)), errWant{408, "to_" + id, "msg " + id, false, true, false}
				case 4:
					in, want = goa.Fault("msg "+id), errWant{500, "fault", "msg " + id, false, false, true}
				case 5:
					in, want = goa.TemporaryTimeoutError("late_"+id, "msg "+id), errWant{504, "late_" + id, "msg " + id, true, true, false}
				case 6:
					in, want = fmt.Errorf("undeclared %s: %w", id, io.ErrUnexpectedEOF), errWant{500, "fault", "undeclared " + id + ": unexpected EOF", false, false, true}
				}
				var wantID string
				var se *goa.ServiceError
				if errors.As(in, &se) {
					wantID = se.ID
				}
				if err := enc(ctx, w, in); err != nil {
					c.fail("error-encoder-failed", err.Error(), id)
					continue
				}
				check := func(when string) {
					ct := w.Header().Get("Content-Type")
					got, gotID := decodeErrBody(ct, w.Body.Bytes())
					got.Status = w.Code
					if got != want || (wantID != "" && gotID != wantID) || ct != wantCT(acc) {
						c.fail("error-encoder-foreign-response", fmt.Sprintf("%s: error %q with Accept %q was answered status/name/message/temporary/timeout/fault %+v id %q Content-Type %q; the function of this error is %+v id %q Content-Type %q", when, in, acc, got, gotID, ct, want, wantID, wantCT(acc)), id)
					}
				}
				check("on return")
				h.add(g, func() { check("after the barrier") })
				c.eval(1)
			}
		})
		h.recheck()
	}
}

// reference: the helper called alone, one value at a time, in two different orders
func negotiationReference(c *collector) map[string]string {
	ref := map[string]string{}
	one := func(acc string) string {
		w := httptest.NewRecorder()
		goahttp.ResponseEncoder(context.WithValue(context.Background(), goahttp.AcceptTypeKey, acc), w)
		return w.Header().Get("Content-Type")
	}
	for _, a := range acceptPool {
		ref[a] = one(a)
	}
	for i := len(acceptPool) - 1; i >= 0; i-- {
		if got := one(acceptPool[i]); got != ref[acceptPool[i]] {
			c.fail("negotiation-depends-on-history", fmt.Sprintf("Accept %q negotiates %q after one sequence of calls and %q after another", acceptPool[i], ref[acceptPool[i]], got), acceptPool[i])
		}
	}
	for _, a := range acceptPool {
		if ref[a] != wantCT(a) {
			c.fail("negotiation-not-as-documented", fmt.Sprintf("alone, Accept %q negotiates %q; documented rule gives %q", a, ref[a], wantCT(a)), a)
		}
	}
	return ref
}

func stressResponseEncoder(c *collector, n, rounds int, seed uint64) {
	ref := negotiationReference(c)
	rg := rngs(seed, 2, n)
	designed := []string{"", "", "", "application/vnd.x+json", "application/vnd.y+xml; charset=utf-8", "text/html"}
	for r := 0; r < rounds; r++ {
		h := newHolds(n)
		barrier(n, func(g int) {
			for k := 0; k < 160; k++ {
				acc := vh.Pick(rg[g], acceptPool)
				des := vh.Pick(rg[g], designed)
				id := fmt.Sprintf("r%d-%d-%d-%d", seed, r, g, k)
				w := httptest.NewRecorder()
				ctx := context.WithValue(context.Background(), goahttp.AcceptTypeKey, acc)
				want := ref[acc]
				format := want
				if des != "" {
					ctx = context.WithValue(ctx, goahttp.ContentTypeKey, des)
					want, _, _ = mime.ParseMediaType(des)
					switch {
					case strings.HasSuffix(want, "+json"):
						format = "application/json"
					case strings.HasSuffix(want, "+xml"):
						format = "application/xml"
					default:
						format = want
					}
				}
				enc := goahttp.ResponseEncoder(ctx, w)
				var v any = echoBody{id, g}
				if strings.HasPrefix(format, "text/") {
					switch k % 3 {
					case 0:
						v = id
					case 1:
						s := id
						v = &s
					default:
						v = []byte(id)
					}
				}
				if err := enc.Encode(v); err != nil {
					c.fail("response-encoder-failed", fmt.Sprintf("Accept %q designed %q: %v", acc, des, err), id)
					continue
				}
				check := func(when string) {
					ct := w.Header().Get("Content-Type")
					if ct != want {
						c.fail("content-type-leak", fmt.Sprintf("%s: Accept %q (designed %q): Content-Type %q, expected %q", when, acc, des, ct, want), map[string]any{"accept": acc, "designed": des, "id": id})
					}
					if !bodyCarries(format, w.Body.Bytes(), id, g) {
						c.fail("response-encoder-foreign-body", fmt.Sprintf("%s: Accept %q (designed %q): body %q is not %q in format %s", when, acc, des, w.Body.String(), id, format), id)
					}
				}
				check("on return")
				h.add(g, func() { check("after the barrier") })
				c.eval(1)
			}
		})
		h.recheck()
	}
}

// request bodies: every supported type with and without parameters, text for *string
// and *[]byte targets, missing and unsupported types; decoded values are held.
func stressRequestDecoder(c *collector, n, rounds int, seed uint64) {
	rg := rngs(seed, 3, n)
	cts := []string{"application/json", "application/json; charset=utf-8", "", "application/xml", "application/xml; charset=utf-8", "application/gob",
		"text/plain", "text/plain; charset=utf-8", "text/html", "text/html; charset=utf-8", "application/x-unsupported", "application/vnd.c20+json"}
	for r := 0; r < rounds; r++ {
		h := newHolds(n)
		barrier(n, func(g int) {
			for k := 0; k < 40; k++ {
				id := fmt.Sprintf("d%d-%d-%d-%d", seed, r, g, k)
				ct := vh.Pick(rg[g], cts)
				mt, _, _ := mime.ParseMediaType(ct)
				var body []byte
				switch mt {
				case "application/json", "":
					body = []byte(fmt.Sprintf(`{"id":%q,"n":%d}`, id, g))
				case "application/xml":
					body = []byte(fmt.Sprintf(`<echoBody><id>%s</id><n>%d</n></echoBody>`, id, g))
				case "application/gob":
					var b bytes.Buffer
					gob.NewEncoder(&b).Encode(echoBody{id, g}) // nolint
					body = b.Bytes()
				default:
					body = []byte(strings.Repeat(id+"|", 1+rg[g].Intn(40)))
				}
				req := httptest.NewRequest("POST", "/", bytes.NewReader(body))
				if ct != "" {
					req.Header.Set("Content-Type", ct)
				}
				dec := goahttp.RequestDecoder(req)
				switch mt {
				case "text/plain", "text/html":
					want := string(body)
					if rg[g].Bool() {
						var got []byte
						err := dec.Decode(&got)
						check := func(when string) {
							if err != nil || string(got) != want {
								c.fail("decoded-bytes-changed", fmt.Sprintf("%s: %s body decoded into *[]byte is %.60q (err %v), the request carried %.60q", when, ct, got, err, want), id)
							}
						}
						check("on return")
						h.add(g, func() { check("after the barrier") })
					} else {
						var got string
						err := dec.Decode(&got)
						check := func(when string) {
							if err != nil || got != want {
								c.fail("decoded-string-changed", fmt.Sprintf("%s: %s body decoded into *string is %.60q (err %v), the request carried %.60q", when, ct, got, err, want), id)
							}
						}
						check("on return")
						h.add(g, func() { check("after the barrier") })
					}
				case "application/x-unsupported", "application/vnd.c20+json":
					var v any
					err := dec.Decode(&v)
					h.add(g, func() {
						if err == nil || !strings.Contains(err.Error(), mt) {
							c.fail("request-decoder-foreign-payload", fmt.Sprintf("unsupported media type error %v does not name %s", err, mt), id)
						}
					})
				default:
					got := new(echoBody)
					err := dec.Decode(got)
					check := func(when string) {
						if err != nil || got.ID != id || got.N != g {
							c.fail("request-decoder-foreign-payload", fmt.Sprintf("%s: decoded %+v (err %v) from a %q body carrying %s", when, *got, err, ct, id), id)
						}
					}
					check("on return")
					h.add(g, func() { check("after the barrier") })
				}
				c.eval(1)
			}
		})
		h.recheck()
	}
}

// response bodies on the client side (goahttp.ResponseDecoder), same vocabulary plus
// suffixed vendor types, which the response decoder does understand.
func stressResponseDecoder(c *collector, n, rounds int, seed uint64) {
	rg := rngs(seed, 4, n)
	cts := []string{"application/json", "application/json; charset=utf-8", "", "application/xml", "application/vnd.c20+xml; charset=utf-8", "application/vnd.c20+json",
		"application/gob", "text/plain", "text/plain; charset=utf-8", "text/html", "application/x-whatever"}
	for r := 0; r < rounds; r++ {
		h := newHolds(n)
		barrier(n, func(g int) {
			for k := 0; k < 40; k++ {
				id := fmt.Sprintf("p%d-%d-%d-%d", seed, r, g, k)
				ct := vh.Pick(rg[g], cts)
				mt, _, _ := mime.ParseMediaType(ct)
				format := "json"
				switch {
				case mt == "application/xml" || strings.HasSuffix(mt, "+xml"):
					format = "xml"
				case mt == "application/gob":
					format = "gob"
				case mt == "text/plain" || mt == "text/html":
					format = "text"
				}
				var body []byte
				switch format {
				case "json":
					body = []byte(fmt.Sprintf(`{"id":%q,"n":%d}`, id, g))
				case "xml":
					body = []byte(fmt.Sprintf(`<echoBody><id>%s</id><n>%d</n></echoBody>`, id, g))
				case "gob":
					var b bytes.Buffer
					gob.NewEncoder(&b).Encode(echoBody{id, g}) // nolint
					body = b.Bytes()
				default:
					body = []byte(strings.Repeat(id+"|", 1+rg[g].Intn(40)))
				}
				resp := &http.Response{StatusCode: 200, Header: http.Header{}, Body: io.NopCloser(bytes.NewReader(body))}
				if ct != "" {
					resp.Header.Set("Content-Type", ct)
				}
				dec := goahttp.ResponseDecoder(resp)
				if format == "text" {
					want := string(body)
					if rg[g].Bool() {
						var got []byte
						err := dec.Decode(&got)
						check := func(when string) {
							if err != nil || string(got) != want {
								c.fail("decoded-bytes-changed", fmt.Sprintf("%s: %s response decoded into *[]byte is %.60q (err %v), the response carried %.60q", when, ct, got, err, want), id)
							}
						}
						check("on return")
						h.add(g, func() { check("after the barrier") })
					} else {
						var got string
						err := dec.Decode(&got)
						check := func(when string) {
							if err != nil || got != want {
								c.fail("decoded-string-changed", fmt.Sprintf("%s: %s response decoded into *string is %.60q (err %v)", when, ct, got, err), id)
							}
						}
						check("on return")
						h.add(g, func() { check("after the barrier") })
					}
				} else {
					got := new(echoBody)
					err := dec.Decode(got)
					check := func(when string) {
						if err != nil || got.ID != id || got.N != g {
							c.fail("response-decoder-foreign-result", fmt.Sprintf("%s: decoded %+v (err %v) from a %q response carrying %s", when, *got, err, ct, id), id)
						}
					}
					check("on return")
					h.add(g, func() { check("after the barrier") })
				}
				c.eval(1)
			}
		})
		h.recheck()
	}
}

// the text encoder / decoder pair end to end: what one goroutine encodes (string, *string,
// []byte) is decoded back (into *string, *[]byte), held, and compared again later.
func stressTextCodec(c *collector, n, rounds int, seed uint64) {
	rg := rngs(seed, 5, n)
	for r := 0; r < rounds; r++ {
		h := newHolds(n)
		barrier(n, func(g int) {
			for k := 0; k < 40; k++ {
				id := fmt.Sprintf("t%d-%d-%d-%d", seed, r, g, k)
				ct := vh.Pick(rg[g], []string{"text/plain", "text/html", "text/plain; charset=utf-8"})
				text := strings.Repeat(id+"~", 1+rg[g].Intn(60))
				w := httptest.NewRecorder()
				ctx := context.WithValue(context.Background(), goahttp.AcceptTypeKey, ct)
				var v any
				switch rg[g].Intn(3) {
				case 0:
					v = text
				case 1:
					s := text
					v = &s
				default:
					v = []byte(text)
				}
				if err := goahttp.ResponseEncoder(ctx, w).Encode(v); err != nil {
					c.fail("text-encoder-failed", err.Error(), id)
					continue
				}
				req := httptest.NewRequest("POST", "/", bytes.NewReader(w.Body.Bytes()))
				req.Header.Set("Content-Type", w.Header().Get("Content-Type"))
				var gotB []byte
				var gotS string
				var err error
				asBytes := rg[g].Bool()
				if asBytes {
					err = goahttp.RequestDecoder(req).Decode(&gotB)
				} else {
					err = goahttp.RequestDecoder(req).Decode(&gotS)
				}
				check := func(when string) {
					got := gotS
					if asBytes {
						got = string(gotB)
					}
					if err != nil || got != text {
						c.fail("text-codec-value-changed", fmt.Sprintf("%s: text sent as %T through %s came back as %.60q (err %v), sent %.60q", when, v, ct, got, err, text), id)
					}
				}
				check("on return")
				h.add(g, func() { check("after the barrier") })
				c.eval(1)
			}
		})
		h.recheck()
	}
}

// Muxer.Vars while serving: handlers mounted first (setup), then concurrent requests.
func stressMuxVars(c *collector, n, rounds int, seed uint64) {
	mux := goahttp.NewMuxer()
	type seen struct {
		vars    map[string]string
		pattern string
	}
	// handlers publish the map Vars returned (not a copy): the caller re-reads it later
	var results sync.Map
	// a middleware mounted with Use asks the muxer BEFORE the request is routed (what a
	// logging / tracing / auth middleware does): the scratch-matching path of the muxer
	mux.Use(func(next http.Handler) http.Handler {
		return http.HandlerFunc(func(w http.ResponseWriter, r *http.Request) {
			results.Store(r.Header.Get("X-Req")+"/pre", seen{mux.Vars(r), mux.ResolvePattern(r)})
			next.ServeHTTP(w, r)
		})
	})
	h := func(w http.ResponseWriter, r *http.Request) {
		results.Store(r.Header.Get("X-Req"), seen{mux.Vars(r), mux.ResolvePattern(r)})
	}
	mux.Handle("GET", "/a/{id}", h)
	mux.Handle("GET", "/a/{id}/b/{sub}", h)
	mux.Handle("GET", "/f/{*path}", h)
	mux.Handle("POST", "/g/{*rest}", h)
	mux.Handle("PUT", "/a/{id}", h)
	mux.Handle("GET", "/plain", h)
	rg := rngs(seed, 6, n)
	for r := 0; r < rounds; r++ {
		hd := newHolds(n)
		barrier(n, func(g int) {
			for k := 0; k < 80; k++ {
				id := fmt.Sprintf("v%d-%d-%d-%d", seed, r, g, k)
				var method, path, pattern string
				want := map[string]string{}
				switch rg[g].Intn(7) {
				case 0:
					method, path, pattern = "GET", "/a/"+id, "/a/{id}"
					want["id"] = id
				case 1:
					method, path, pattern = "GET", "/a/"+id+"/b/s"+id, "/a/{id}/b/{sub}"
					want["id"], want["sub"] = id, "s"+id
				case 2:
					method, path, pattern = "GET", "/f/x/"+id+"/y", "/f/{*path}"
					want["path"] = "x/" + id + "/y"
				case 3:
					method, path, pattern = "POST", "/g/"+id, "/g/{*rest}"
					want["rest"] = id
				case 4:
					method, path, pattern = "PUT", "/a/"+id, "/a/{id}"
					want["id"] = id
				case 5:
					method, path, pattern = "GET", "/a/%7E"+id, "/a/{id}"
					want["id"] = "~" + id
				case 6:
					method, path, pattern = "GET", "/plain", "/plain"
					want = nil
				}
				req := httptest.NewRequest(method, path, nil)
				req.Header.Set("X-Req", id)
				mux.ServeHTTP(httptest.NewRecorder(), req)
				v, _ := results.Load(id)
				got, _ := v.(seen)
				pv, _ := results.Load(id + "/pre")
				pre, _ := pv.(seen)
				check := func(when string) {
					if fmt.Sprint(got.vars) != fmt.Sprint(want) || got.pattern != pattern {
						c.fail("mux-vars-foreign", fmt.Sprintf("%s: %s %s: vars %v pattern %q, expected %v %q", when, method, path, got.vars, got.pattern, want, pattern), path)
					}
					if fmt.Sprint(pre.vars) != fmt.Sprint(want) || pre.pattern != pattern {
						c.fail("mux-vars-foreign/pre-routing", fmt.Sprintf("%s: %s %s: a middleware asking before routing got vars %v pattern %q, expected %v %q", when, method, path, pre.vars, pre.pattern, want, pattern), path)
					}
				}
				check("on return")
				hd.add(g, func() { check("after the barrier") })
				c.eval(1)
			}
		})
		hd.recheck()
	}
}

func stressValidatePattern(c *collector, n, rounds int, seed uint64) {
	shared := []string{`^[a-z]+$`, `^[0-9]{2,4}$`, `c20.*end`, `^(a|b)+c$`, `^\p{L}+$`, `(?i)^ok$`}
	vals := []string{"abc", "123", "c20 the end", "ababc", "ABC", "", "12345", "Ok", "été"}
	rg := rngs(seed, 7, n)
	for r := 0; r < rounds; r++ {
		h := newHolds(n)
		barrier(n, func(g int) {
			for k := 0; k < 24; k++ {
				var p string
				if rg[g].Bool() {
					p = vh.Pick(rg[g], shared)
				} else {
					// a pattern never seen before: takes the write path of the cache
					p = fmt.Sprintf(`^fresh_%d_%d_%d_%d_[a-z]*$`, seed, r, g, k)
				}
				v := vh.Pick(rg[g], vals)
				if rg[g].Chance(1, 3) {
					v = fmt.Sprintf("fresh_%d_%d_%d_%d_xyz", seed, r, g, k)
				}
				name := fmt.Sprintf("f%d_%d", g, k)
				err := goa.ValidatePattern(name, v, p)
				want := regexp.MustCompile(p).MatchString(v)
				check := func(when string) {
					if (err == nil) != want {
						c.fail("validate-pattern-wrong-verdict", fmt.Sprintf("%s: ValidatePattern(%q, %q) = %v, regexp says %v", when, v, p, err, want), map[string]string{"val": v, "pattern": p})
					}
					if err != nil && !(strings.Contains(err.Error(), name) && strings.Contains(err.Error(), fmt.Sprintf("%q", p))) {
						c.fail("validate-pattern-foreign-error", fmt.Sprintf("%s: error %q does not name field %s and pattern %q", when, err, name, p), map[string]string{"val": v, "pattern": p})
					}
				}
				check("on return")
				h.add(g, func() { check("after the barrier") })
				c.eval(1)
			}
		})
		h.recheck()
	}
}

// samplers: the branches that actually DRAW a random number (fixed sampler strictly between
// 0 and 100 percent, adaptive sampler after it has throttled) as well as the constant ones.
// Each decision must be the function of the sampler's configuration and of the traffic, so
// over many draws the observed rate of a fixed sampler is its percentage.
func stressSamplers(c *collector, n, rounds int, seed uint64) {
	percents := []int{0, 10, 50, 90, 100}
	var yes, total [5]int64
	for r := 0; r < rounds; r++ {
		// tiny budget and window: throttles after the first window, then draws on every call
		ad := middleware.NewAdaptiveSampler(1+r%3, 2+r%5)
		fixed := make([]middleware.Sampler, len(percents))
		for i, p := range percents {
			fixed[i] = middleware.NewFixedSampler(p)
		}
		barrier(n, func(g int) {
			var y, t [5]int64
			for k := 0; k < 120; k++ {
				_ = ad.Sample()
				for i := range fixed {
					t[i]++
					if fixed[i].Sample() {
						y[i]++
					}
				}
				c.eval(1)
			}
			for i := range y {
				atomic.AddInt64(&yes[i], y[i])
				atomic.AddInt64(&total[i], t[i])
			}
		})
	}
	for i, p := range percents {
		if total[i] == 0 {
			continue
		}
		rate := float64(yes[i]) / float64(total[i])
		want := float64(p) / 100
		if (p == 0 && yes[i] != 0) || (p == 100 && yes[i] != total[i]) || (total[i] >= 5000 && (rate < want-0.06 || rate > want+0.06)) {
			c.fail("fixed-sampler-wrong-rate", fmt.Sprintf("fixed sampler %d%%: %d of %d concurrent decisions were positive (%.3f)", p, yes[i], total[i], rate), p)
		}
	}
}

type fakeStream struct {
	grpc.ServerStream
	ctx context.Context
}

func (f *fakeStream) Context() context.Context     { return f.ctx }
func (f *fakeStream) SetHeader(metadata.MD) error  { return nil }
func (f *fakeStream) SendHeader(metadata.MD) error { return nil }
func (f *fakeStream) SetTrailer(metadata.MD)       {}
func (f *fakeStream) SendMsg(any) error            { return nil }
func (f *fakeStream) RecvMsg(any) error            { return nil }

func stressStreamCanceler(c *collector, n, rounds int, seed uint64) {
	for r := 0; r < rounds; r++ {
		ctx, cancel := context.WithCancel(context.Background())
		ic := goagrpcmw.StreamCanceler(ctx)
		barrier(n, func(g int) {
			for k := 0; k < 3; k++ {
				id := fmt.Sprintf("s%d-%d-%d-%d", seed, r, g, k)
				if g == 0 && k == 1 && r%2 == 0 {
					cancel()
				}
				err := ic(id, &fakeStream{ctx: context.WithValue(context.Background(), ctxKey{}, id)}, &grpc.StreamServerInfo{FullMethod: "/x/" + id},
					func(srv any, ss grpc.ServerStream) error {
						if srv.(string) != id || ss.Context().Value(ctxKey{}) != id {
							c.fail("stream-canceler-foreign-stream", "handler received another request's stream", id)
						}
						if k == 2 {
							select {
							case <-ss.Context().Done():
							case <-time.After(200 * time.Microsecond):
							}
						}
						return errors.New("h " + id)
					})
				switch {
				case err != nil && err.Error() == "h "+id:
				case status.Code(err) == codes.Unavailable:
					if ctx.Err() == nil {
						c.fail("stream-canceler-refused-early", "stream refused although the canceler's context is live", id)
					}
				default:
					c.fail("stream-canceler-foreign-error", fmt.Sprintf("got %v", err), id)
				}
				c.eval(1)
			}
		})
		cancel()
		// the flag is set by a goroutine woken by cancel(): give it the time it needs
		ok := false
		for deadline := time.Now().Add(20 * time.Second); !ok && time.Now().Before(deadline); {
			ok = status.Code(ic("late", &fakeStream{ctx: context.Background()}, &grpc.StreamServerInfo{}, func(any, grpc.ServerStream) error { return nil })) == codes.Unavailable
			if !ok {
				time.Sleep(200 * time.Microsecond)
			}
		}
		if !ok {
			c.fail("stream-canceler-accepts-after-cancel", "streams still accepted after cancellation", r)
		}
	}
}

type ctxKey struct{}

func stressSkipResponseWriter(c *collector, n, rounds int, seed uint64) {
	for r := 0; r < rounds; r++ {
		barrier(n, func(g int) {
			for k := 0; k < 3; k++ {
				id := fmt.Sprintf("w%d-%d-%d-%d", seed, r, g, k)
				rc := goa.SkipResponseWriter(goa.WriterToFunc(func(w io.Writer) error {
					_, err := io.WriteString(w, strings.Repeat(id+";", 20))
					return err
				}))
				var buf bytes.Buffer
				if k == 0 {
					if wt, ok := rc.(io.WriterTo); ok {
						wt.WriteTo(&buf) // nolint
					}
				} else {
					io.Copy(&buf, rc) // nolint
					rc.Close()
				}
				if buf.String() != strings.Repeat(id+";", 20) {
					c.fail("skip-response-writer-foreign-bytes", fmt.Sprintf("read %q", buf.String()), id)
				}
				c.eval(1)
			}
		})
	}
}

func stressMergeErrors(c *collector, n, rounds int, seed uint64) {
	rg := rngs(seed, 8, n)
	for r := 0; r < rounds; r++ {
		h := newHolds(n)
		barrier(n, func(g int) {
			for k := 0; k < 5; k++ {
				id := fmt.Sprintf("m%d-%d-%d-%d", seed, r, g, k)
				var err error
				parts := 2 + rg[g].Intn(3)
				for i := 0; i < parts; i++ {
					switch rg[g].Intn(4) {
					case 0:
						err = goa.MergeErrors(err, goa.MissingFieldError(fmt.Sprintf("a%d%s", i, id), "body"))
					case 1:
						err = goa.MergeErrors(err, goa.InvalidLengthError(fmt.Sprintf("a%d%s", i, id), id, len(id), 2, false))
					case 2:
						err = goa.MergeErrors(err, fmt.Errorf("a%d%s plain", i, id))
					case 3:
						err = goa.MergeErrors(err, goa.InvalidEnumValueError(fmt.Sprintf("a%d%s", i, id), id, []any{"x", "y"}))
					}
				}
				check := func(when string) {
					se, ok := err.(*goa.ServiceError)
					bad := !ok || len(se.History()) != parts
					for i := 0; ok && i < parts; i++ {
						bad = bad || !strings.Contains(se.Message, fmt.Sprintf("a%d%s", i, id))
					}
					if bad {
						c.fail("merge-errors-foreign", fmt.Sprintf("%s: %v does not carry the %d errors of %s", when, err, parts, id), id)
					}
				}
				check("on return")
				h.add(g, func() { check("after the barrier") })
				c.eval(1)
			}
		})
		h.recheck()
	}
}

func tierParams(tier string) (n, rounds int) {
	switch tier {
	case "thorough":
		return 64, 40
	case "search": // after a broken proof, binary built with -race
		return 32, 10
	}
	return 16, 40
}

// stressMain: -mode stress. Functional failures are printed as JSON; the race
// detector (if compiled in) reports on stderr and makes the exit status 66.
func stressMain(seed uint64, tier, which, out string) int {
	n, rounds := tierParams(tier)
	c := &collector{}
	ran := 0
	for _, h := range helpers {
		if which != "" && which != h.Name {
			continue
		}
		h.Run(c, n, rounds, seed)
		ran++
	}
	if ran == 0 {
		fmt.Fprintln(os.Stderr, "no such helper:", which)
		return 2
	}
	b, _ := json.Marshal(map[string]any{"helper": which, "evaluations": c.evals, "failures": c.fails, "panics": panicSeen, "goroutines": n, "rounds": rounds})
	fmt.Println("@@STRESS " + string(b))
	_ = vh.NewRNG
	return 0
}
