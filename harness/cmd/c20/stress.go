package main

// Barrier-start stress of the runtime helpers named by C20: N goroutines are released
// together and call the shared helper; every goroutine checks that what it got back
// is the function of what IT passed in. Built with -race in the thorough tier and in
// the search that follows a broken instance proof (the race detector's report is then
// the concrete failing schedule).

import (
	"bytes"
	"context"
	"encoding/json"
	"errors"
	"fmt"
	"io"
	"net/http"
	"net/http/httptest"
	"os"
	"regexp"
	"strings"
	"sync"
	"sync/atomic"
	"time"

	goagrpcmw "goa.design/goa/v3/grpc/middleware"
	goahttp "goa.design/goa/v3/http"
	"goa.design/goa/v3/middleware"
	goa "goa.design/goa/v3/pkg"
	"google.golang.org/grpc"
	"google.golang.org/grpc/codes"
	"google.golang.org/grpc/metadata"
	"google.golang.org/grpc/status"

	"verifharness/vh"
)

type failure struct {
	Sig   string `json:"signature"`
	What  string `json:"what"`
	Input any    `json:"input"`
}

type collector struct {
	mu    sync.Mutex
	fails []failure
	evals int64
}

func (c *collector) fail(sig, what string, input any) {
	c.mu.Lock()
	if len(c.fails) < 50 {
		c.fails = append(c.fails, failure{sig, what, input})
	}
	c.mu.Unlock()
}
func (c *collector) eval(n int) { atomic.AddInt64(&c.evals, int64(n)) }

// barrier runs f(g) in n goroutines released together.
func barrier(n int, f func(g int)) {
	start := make(chan struct{})
	var wg sync.WaitGroup
	for g := 0; g < n; g++ {
		wg.Add(1)
		go func(g int) {
			defer wg.Done()
			defer func() {
				if r := recover(); r != nil {
					panicSink(fmt.Sprint(r))
				}
			}()
			<-start
			f(g)
		}(g)
	}
	close(start)
	wg.Wait()
}

var (
	panicMu   sync.Mutex
	panicSeen []string
)

func panicSink(s string) {
	panicMu.Lock()
	panicSeen = append(panicSeen, s)
	panicMu.Unlock()
}

type helper struct {
	Name string
	Run  func(c *collector, n, rounds int, seed uint64)
}

var helpers = []helper{
	{"ErrorEncoder", stressErrorEncoder},
	{"ResponseEncoder", stressResponseEncoder},
	{"RequestDecoder", stressRequestDecoder},
	{"MuxerVars", stressMuxVars},
	{"ValidatePattern", stressValidatePattern},
	{"Samplers", stressSamplers},
	{"StreamCanceler", stressStreamCanceler},
	{"SkipResponseWriter", stressSkipResponseWriter},
	{"MergeErrors", stressMergeErrors},
}

// goahttp.ErrorEncoder: one closure shared by all requests, nil formatter (the default
// path the fixed defect d17a564 was on), fresh closure every round so that the first
// calls of every round are concurrent.
func stressErrorEncoder(c *collector, n, rounds int, seed uint64) {
	for r := 0; r < rounds; r++ {
		var formatter func(context.Context, error) goahttp.Statuser
		if r%3 == 2 {
			formatter = func(ctx context.Context, err error) goahttp.Statuser { return goahttp.NewErrorResponse(ctx, err) }
		}
		enc := goahttp.ErrorEncoder(goahttp.ResponseEncoder, formatter)
		barrier(n, func(g int) {
			for k := 0; k < 4; k++ {
				id := fmt.Sprintf("e%d-%d-%d-%d", seed, r, g, k)
				w := httptest.NewRecorder()
				ctx := context.WithValue(context.Background(), goahttp.AcceptTypeKey, "application/json")
				var in error = goa.PermanentError("custom_"+id, "msg "+id)
				wantStatus := http.StatusBadRequest
				if k%2 == 1 {
					in = errors.New("plain " + id)
					wantStatus = http.StatusInternalServerError
				}
				if err := enc(ctx, w, in); err != nil {
					c.fail("error-encoder-failed", err.Error(), id)
					continue
				}
				var got goahttp.ErrorResponse
				_ = json.Unmarshal(w.Body.Bytes(), &got)
				if w.Code != wantStatus || !strings.Contains(got.Message, id) {
					c.fail("error-encoder-foreign-response", fmt.Sprintf("status %d body %s for error %q", w.Code, w.Body.String(), in), id)
				}
				c.eval(1)
			}
		})
	}
}

var accepts = []string{"application/json", "application/xml", "application/gob", "text/plain", "", "application/json; q=0.9", "image/png"}

func wantCT(accept string) string {
	switch accept {
	case "application/xml", "application/gob", "text/plain":
		return accept
	}
	return "application/json"
}

type echoBody struct {
	ID string `json:"id" xml:"id"`
	N  int    `json:"n" xml:"n"`
}

func stressResponseEncoder(c *collector, n, rounds int, seed uint64) {
	for r := 0; r < rounds; r++ {
		barrier(n, func(g int) {
			for k := 0; k < 6; k++ {
				acc := accepts[(g+k+r)%len(accepts)]
				id := fmt.Sprintf("r%d-%d-%d-%d", seed, r, g, k)
				w := httptest.NewRecorder()
				ctx := context.WithValue(context.Background(), goahttp.AcceptTypeKey, acc)
				if k == 5 {
					ctx = context.WithValue(ctx, goahttp.ContentTypeKey, "application/vnd.x+json")
				}
				enc := goahttp.ResponseEncoder(ctx, w)
				var v any = echoBody{id, g}
				if wantCT(acc) == "text/plain" && k != 5 {
					v = id
				}
				if err := enc.Encode(v); err != nil {
					c.fail("response-encoder-failed", err.Error(), id)
					continue
				}
				ct := w.Header().Get("Content-Type")
				want := wantCT(acc)
				if k == 5 {
					want = "application/vnd.x+json"
				}
				if ct != want {
					c.fail("content-type-leak", fmt.Sprintf("Accept %q: Content-Type %q, expected %q", acc, ct, want), map[string]any{"accept": acc, "id": id})
				}
				if want != "application/gob" && !strings.Contains(w.Body.String(), id) {
					c.fail("response-encoder-foreign-body", fmt.Sprintf("body %q does not carry %q", w.Body.String(), id), id)
				}
				c.eval(1)
			}
		})
	}
}

func stressRequestDecoder(c *collector, n, rounds int, seed uint64) {
	for r := 0; r < rounds; r++ {
		barrier(n, func(g int) {
			for k := 0; k < 5; k++ {
				id := fmt.Sprintf("d%d-%d-%d-%d", seed, r, g, k)
				var body, ct string
				if k == 4 {
					// unsupported media type: the error must name this request's type
					req := httptest.NewRequest("POST", "/", strings.NewReader("x"))
					req.Header.Set("Content-Type", "application/x-"+id)
					var v any
					if err := goahttp.RequestDecoder(req).Decode(&v); err == nil || !strings.Contains(err.Error(), "application/x-"+id) {
						c.fail("request-decoder-foreign-payload", fmt.Sprintf("unsupported media type error %v does not name application/x-%s", err, id), id)
					}
					c.eval(1)
					continue
				}
				switch k % 3 {
				case 0:
					body, ct = fmt.Sprintf(`{"id":%q,"n":%d}`, id, g), "application/json"
				case 1:
					body, ct = fmt.Sprintf(`<echoBody><id>%s</id><n>%d</n></echoBody>`, id, g), "application/xml; charset=utf-8"
				case 2:
					body, ct = fmt.Sprintf(`{"id":%q,"n":%d}`, id, g), ""
				}
				req := httptest.NewRequest("POST", "/", strings.NewReader(body))
				if ct != "" {
					req.Header.Set("Content-Type", ct)
				}
				var got echoBody
				if err := goahttp.RequestDecoder(req).Decode(&got); err != nil || got.ID != id || got.N != g {
					c.fail("request-decoder-foreign-payload", fmt.Sprintf("decoded %+v (err %v) from %s", got, err, body), id)
				}
				c.eval(1)
			}
		})
	}
}

// Muxer.Vars while serving: handlers mounted first (setup), then concurrent requests.
func stressMuxVars(c *collector, n, rounds int, seed uint64) {
	mux := goahttp.NewMuxer()
	mux.Use(func(h http.Handler) http.Handler { return h })
	h := func(w http.ResponseWriter, r *http.Request) {
		vars := mux.Vars(r)
		b, _ := json.Marshal(map[string]any{"vars": vars, "pattern": mux.ResolvePattern(r)})
		w.Write(b) // nolint
	}
	mux.Handle("GET", "/a/{id}", h)
	mux.Handle("GET", "/a/{id}/b/{sub}", h)
	mux.Handle("GET", "/f/{*path}", h)
	mux.Handle("POST", "/g/{*rest}", h)
	for r := 0; r < rounds; r++ {
		barrier(n, func(g int) {
			for k := 0; k < 6; k++ {
				id := fmt.Sprintf("v%d-%d-%d-%d", seed, r, g, k)
				var method, path, pattern string
				want := map[string]string{}
				switch k % 4 {
				case 0:
					method, path, pattern = "GET", "/a/"+id, "/a/{id}"
					want["id"] = id
				case 1:
					method, path, pattern = "GET", "/a/"+id+"/b/s"+id, "/a/{id}/b/{sub}"
					want["id"], want["sub"] = id, "s"+id
				case 2:
					method, path, pattern = "GET", "/f/x/"+id+"/y", "/f/{*path}"
					want["path"] = "x/" + id + "/y"
				case 3:
					method, path, pattern = "POST", "/g/"+id, "/g/{*rest}"
					want["rest"] = id
				}
				w := httptest.NewRecorder()
				mux.ServeHTTP(w, httptest.NewRequest(method, path, nil))
				var got struct {
					Vars    map[string]string `json:"vars"`
					Pattern string            `json:"pattern"`
				}
				_ = json.Unmarshal(w.Body.Bytes(), &got)
				if fmt.Sprint(got.Vars) != fmt.Sprint(want) || got.Pattern != pattern {
					c.fail("mux-vars-foreign", fmt.Sprintf("%s %s: vars %v pattern %q, expected %v %q", method, path, got.Vars, got.Pattern, want, pattern), path)
				}
				c.eval(1)
			}
		})
	}
}

func stressValidatePattern(c *collector, n, rounds int, seed uint64) {
	shared := []string{`^[a-z]+$`, `^[0-9]{2,4}$`, `c20.*end`, `^(a|b)+c$`}
	vals := []string{"abc", "123", "c20 the end", "ababc", "ABC", "", "12345"}
	for r := 0; r < rounds; r++ {
		barrier(n, func(g int) {
			for k := 0; k < 8; k++ {
				var p string
				if k%2 == 0 {
					p = shared[(g+k)%len(shared)]
				} else {
					// a pattern never seen before: takes the write path of the cache
					p = fmt.Sprintf(`^fresh_%d_%d_%d_%d_[a-z]*$`, seed, r, g, k)
				}
				v := vals[(g*3+k)%len(vals)]
				if k%4 == 1 {
					v = fmt.Sprintf("fresh_%d_%d_%d_%d_xyz", seed, r, g, k)
				}
				err := goa.ValidatePattern("f", v, p)
				want := regexp.MustCompile(p).MatchString(v)
				if (err == nil) != want {
					c.fail("validate-pattern-wrong-verdict", fmt.Sprintf("ValidatePattern(%q, %q) = %v, regexp says %v", v, p, err, want), map[string]string{"val": v, "pattern": p})
				}
				c.eval(1)
			}
		})
	}
}

func stressSamplers(c *collector, n, rounds int, seed uint64) {
	for r := 0; r < rounds; r++ {
		ad := middleware.NewAdaptiveSampler(5+r%7, 3+r%5)
		always, never, half := middleware.NewFixedSampler(100), middleware.NewFixedSampler(0), middleware.NewFixedSampler(50)
		barrier(n, func(g int) {
			for k := 0; k < 60; k++ {
				_ = ad.Sample()
				_ = half.Sample()
				if !always.Sample() || never.Sample() {
					c.fail("fixed-sampler-wrong", "fixed sampler 100% returned false or 0% returned true", g)
				}
				c.eval(1)
			}
		})
	}
}

type fakeStream struct {
	grpc.ServerStream
	ctx context.Context
}

func (f *fakeStream) Context() context.Context     { return f.ctx }
func (f *fakeStream) SetHeader(metadata.MD) error  { return nil }
func (f *fakeStream) SendHeader(metadata.MD) error { return nil }
func (f *fakeStream) SetTrailer(metadata.MD)       {}
func (f *fakeStream) SendMsg(any) error            { return nil }
func (f *fakeStream) RecvMsg(any) error            { return nil }

func stressStreamCanceler(c *collector, n, rounds int, seed uint64) {
	for r := 0; r < rounds; r++ {
		ctx, cancel := context.WithCancel(context.Background())
		ic := goagrpcmw.StreamCanceler(ctx)
		barrier(n, func(g int) {
			for k := 0; k < 3; k++ {
				id := fmt.Sprintf("s%d-%d-%d-%d", seed, r, g, k)
				if g == 0 && k == 1 && r%2 == 0 {
					cancel()
				}
				err := ic(id, &fakeStream{ctx: context.WithValue(context.Background(), ctxKey{}, id)}, &grpc.StreamServerInfo{FullMethod: "/x/" + id},
					func(srv any, ss grpc.ServerStream) error {
						if srv.(string) != id || ss.Context().Value(ctxKey{}) != id {
							c.fail("stream-canceler-foreign-stream", "handler received another request's stream", id)
						}
						if k == 2 {
							select {
							case <-ss.Context().Done():
							case <-time.After(200 * time.Microsecond):
							}
						}
						return errors.New("h " + id)
					})
				switch {
				case err != nil && err.Error() == "h "+id:
				case status.Code(err) == codes.Unavailable:
					if ctx.Err() == nil {
						c.fail("stream-canceler-refused-early", "stream refused although the canceler's context is live", id)
					}
				default:
					c.fail("stream-canceler-foreign-error", fmt.Sprintf("got %v", err), id)
				}
				c.eval(1)
			}
		})
		cancel()
		// the flag is set by a goroutine woken by cancel(): give it the time it needs
		ok := false
		for deadline := time.Now().Add(20 * time.Second); !ok && time.Now().Before(deadline); {
			ok = status.Code(ic("late", &fakeStream{ctx: context.Background()}, &grpc.StreamServerInfo{}, func(any, grpc.ServerStream) error { return nil })) == codes.Unavailable
			if !ok {
				time.Sleep(200 * time.Microsecond)
			}
		}
		if !ok {
			c.fail("stream-canceler-accepts-after-cancel", "streams still accepted after cancellation", r)
		}
	}
}

type ctxKey struct{}

func stressSkipResponseWriter(c *collector, n, rounds int, seed uint64) {
	for r := 0; r < rounds; r++ {
		barrier(n, func(g int) {
			for k := 0; k < 3; k++ {
				id := fmt.Sprintf("w%d-%d-%d-%d", seed, r, g, k)
				rc := goa.SkipResponseWriter(goa.WriterToFunc(func(w io.Writer) error {
					_, err := io.WriteString(w, strings.Repeat(id+";", 20))
					return err
				}))
				var buf bytes.Buffer
				if k == 0 {
					if wt, ok := rc.(io.WriterTo); ok {
						wt.WriteTo(&buf) // nolint
					}
				} else {
					io.Copy(&buf, rc) // nolint
					rc.Close()
				}
				if buf.String() != strings.Repeat(id+";", 20) {
					c.fail("skip-response-writer-foreign-bytes", fmt.Sprintf("read %q", buf.String()), id)
				}
				c.eval(1)
			}
		})
	}
}

func stressMergeErrors(c *collector, n, rounds int, seed uint64) {
	for r := 0; r < rounds; r++ {
		barrier(n, func(g int) {
			for k := 0; k < 5; k++ {
				id := fmt.Sprintf("m%d-%d-%d-%d", seed, r, g, k)
				var err error
				err = goa.MergeErrors(err, goa.MissingFieldError("a"+id, "body"))
				err = goa.MergeErrors(err, goa.InvalidLengthError("b"+id, id, len(id), 2, false))
				se, ok := err.(*goa.ServiceError)
				if !ok || !strings.Contains(se.Message, "a"+id) || !strings.Contains(se.Message, "b"+id) || len(se.History()) != 2 {
					c.fail("merge-errors-foreign", fmt.Sprintf("%v", err), id)
				}
				c.eval(1)
			}
		})
	}
}

func tierParams(tier string) (n, rounds int) {
	if tier == "thorough" {
		return 64, 40
	}
	return 16, 40
}

// stressMain: -mode stress. Functional failures are printed as JSON; the race
// detector (if compiled in) reports on stderr and makes the exit status 66.
func stressMain(seed uint64, tier, which, out string) int {
	n, rounds := tierParams(tier)
	c := &collector{}
	ran := 0
	for _, h := range helpers {
		if which != "" && which != h.Name {
			continue
		}
		h.Run(c, n, rounds, seed)
		ran++
	}
	if ran == 0 {
		fmt.Fprintln(os.Stderr, "no such helper:", which)
		return 2
	}
	b, _ := json.Marshal(map[string]any{"helper": which, "evaluations": c.evals, "failures": c.fails, "panics": panicSeen, "goroutines": n, "rounds": rounds})
	fmt.Println("@@STRESS " + string(b))
	_ = vh.NewRNG
	return 0
}
