package main

import (
	"fmt"
	"reflect"
	"sort"
	"strings"

	"goa.design/goa/v3/expr"

	"verifharness/vh"
)

// ---- independent structural comparison (the documented rules of Equal) ----

type pairKey struct{ a, b any }

// bisim: same kind (user and result types count as one kind), equal primitives, equal
// array element / map key and element types, objects with the same attribute names
// and pairwise equal attribute types, unions with the same type name, value names and
// value types; user types compared through their attribute type (names ignored);
// pairs being compared are assumed equal when met again (recursive types).
func bisim(a, b expr.DataType, assumed map[pairKey]bool) bool {
	switch ta := a.(type) {
	case expr.Primitive:
		tb, ok := b.(expr.Primitive)
		return ok && ta == tb
	case *expr.Array:
		tb, ok := b.(*expr.Array)
		return ok && bisim(ta.ElemType.Type, tb.ElemType.Type, assumed)
	case *expr.Map:
		tb, ok := b.(*expr.Map)
		return ok && bisim(ta.KeyType.Type, tb.KeyType.Type, assumed) && bisim(ta.ElemType.Type, tb.ElemType.Type, assumed)
	case *expr.Object:
		tb, ok := b.(*expr.Object)
		if !ok {
			return false
		}
		if assumed[pairKey{ta, tb}] {
			return true
		}
		assumed[pairKey{ta, tb}] = true
		return bisimNamed(*ta, *tb, assumed)
	case *expr.Union:
		tb, ok := b.(*expr.Union)
		return ok && ta.TypeName == tb.TypeName && bisimNamed(ta.Values, tb.Values, assumed)
	case expr.UserType:
		tb, ok := b.(expr.UserType)
		if !ok {
			return false
		}
		if assumed[pairKey{ta, tb}] {
			return true
		}
		assumed[pairKey{ta, tb}] = true
		return bisim(ta.Attribute().Type, tb.Attribute().Type, assumed)
	}
	panic(fmt.Sprintf("bisim: %T", a))
}

func bisimNamed(xs, ys []*expr.NamedAttributeExpr, assumed map[pairKey]bool) bool {
	if len(xs) != len(ys) {
		return false
	}
	byName := map[string]*expr.NamedAttributeExpr{}
	for _, y := range ys {
		byName[y.Name] = y
	}
	if len(byName) != len(ys) {
		return false
	}
	for _, x := range xs {
		y, ok := byName[x.Name]
		if !ok || !bisim(x.Attribute.Type, y.Attribute.Type, assumed) {
			return false
		}
	}
	return true
}

// ---- deep dump of everything reachable (what "the original is unchanged" and "the
//      copy is structurally equal" are decided on) ----

type dumper struct {
	b      strings.Builder
	ut     map[expr.UserType]int
	vw     map[*expr.ViewExpr]int
	ignore map[string]bool // "docs", "ctype", "views"
}

func snapshot(a *expr.AttributeExpr, ignore ...string) string {
	d := &dumper{ut: map[expr.UserType]int{}, vw: map[*expr.ViewExpr]int{}, ignore: map[string]bool{}}
	for _, i := range ignore {
		d.ignore[i] = true
	}
	d.att(a)
	return d.b.String()
}

func (d *dumper) att(a *expr.AttributeExpr) {
	if a == nil {
		d.b.WriteString("<nil att>")
		return
	}
	d.b.WriteString("att(")
	d.typ(a.Type)
	fmt.Fprintf(&d.b, " desc=%q", a.Description)
	if !d.ignore["docs"] {
		if a.Docs != nil {
			fmt.Fprintf(&d.b, " docs=%q/%q", a.Docs.Description, a.Docs.URL)
		} else {
			d.b.WriteString(" docs=nil")
		}
	}
	if v := a.Validation; v != nil {
		fmt.Fprintf(&d.b, " val{%s required=%q}", otherOfValidation(v), v.Required)
	} else {
		d.b.WriteString(" val=nil")
	}
	if a.Meta != nil {
		d.b.WriteString(" meta{")
		for _, k := range vh.SortedKeys(a.Meta) {
			fmt.Fprintf(&d.b, "%q:%q,", k, a.Meta[k])
		}
		d.b.WriteString("}")
	} else {
		d.b.WriteString(" meta=nil")
	}
	fmt.Fprintf(&d.b, " %s bases=%d refs=%d)", otherOfAtt(a), len(a.Bases), len(a.References))
}

func (d *dumper) named(nats []*expr.NamedAttributeExpr) {
	for _, nat := range nats {
		fmt.Fprintf(&d.b, "%q:", nat.Name)
		d.att(nat.Attribute)
		d.b.WriteString(";")
	}
}

func (d *dumper) typ(dt expr.DataType) {
	switch t := dt.(type) {
	case nil:
		d.b.WriteString("<nil type>")
	case expr.Primitive:
		d.b.WriteString(t.Name())
	case *expr.Array:
		d.b.WriteString("array<")
		d.att(t.ElemType)
		d.b.WriteString(">")
	case *expr.Map:
		d.b.WriteString("map<")
		d.att(t.KeyType)
		d.b.WriteString(",")
		d.att(t.ElemType)
		d.b.WriteString(">")
	case *expr.Object:
		d.b.WriteString("object{")
		d.named(*t)
		d.b.WriteString("}")
	case *expr.Union:
		fmt.Fprintf(&d.b, "union %q{", t.TypeName)
		d.named(t.Values)
		d.b.WriteString("}")
	case expr.UserType:
		if id, ok := d.ut[t]; ok {
			fmt.Fprintf(&d.b, "#%d", id)
			return
		}
		id := len(d.ut)
		d.ut[t] = id
		switch u := t.(type) {
		case *expr.UserTypeExpr:
			fmt.Fprintf(&d.b, "#%d=user(%q uid=%q ", id, u.TypeName, u.UID)
			d.att(u.AttributeExpr)
			d.b.WriteString(")")
		case *expr.ResultTypeExpr:
			fmt.Fprintf(&d.b, "#%d=result(%q uid=%q ident=%q ", id, u.TypeName, u.UID, u.Identifier)
			if !d.ignore["ctype"] {
				fmt.Fprintf(&d.b, "ctype=%q ", u.ContentType)
			}
			d.att(u.AttributeExpr)
			if !d.ignore["views"] {
				d.b.WriteString(" views[")
				for _, v := range u.Views {
					fmt.Fprintf(&d.b, "%q:", v.Name)
					d.att(v.AttributeExpr)
					d.b.WriteString(";")
				}
				d.b.WriteString("]")
			}
			d.b.WriteString(")")
		default:
			panic(fmt.Sprintf("dump: %T", t))
		}
	default:
		panic(fmt.Sprintf("dump: %T", dt))
	}
}

// ---- reachable nodes by kind ----

type nodes struct {
	atts   []*expr.AttributeExpr
	objs   []*expr.Object
	arrays []*expr.Array
	maps   []*expr.Map
	unions []*expr.Union
	uts    []expr.UserType
	views  []*expr.ViewExpr
	seenA  map[*expr.AttributeExpr]bool
	seenU  map[expr.UserType]bool
	seenO  map[*expr.Object]bool
}

// reach collects the nodes Dup is responsible for: everything reachable through
// attribute types (views are listed but not entered).
func reach(a *expr.AttributeExpr) *nodes {
	n := &nodes{seenA: map[*expr.AttributeExpr]bool{}, seenU: map[expr.UserType]bool{}, seenO: map[*expr.Object]bool{}}
	n.att(a)
	return n
}

func (n *nodes) att(a *expr.AttributeExpr) {
	if a == nil || n.seenA[a] {
		return
	}
	n.seenA[a] = true
	n.atts = append(n.atts, a)
	n.typ(a.Type)
}

func (n *nodes) typ(dt expr.DataType) {
	switch t := dt.(type) {
	case *expr.Array:
		n.arrays = append(n.arrays, t)
		n.att(t.ElemType)
	case *expr.Map:
		n.maps = append(n.maps, t)
		n.att(t.KeyType)
		n.att(t.ElemType)
	case *expr.Object:
		if n.seenO[t] {
			return
		}
		n.seenO[t] = true
		n.objs = append(n.objs, t)
		for _, nat := range *t {
			n.att(nat.Attribute)
		}
	case *expr.Union:
		n.unions = append(n.unions, t)
		for _, nat := range t.Values {
			n.att(nat.Attribute)
		}
	case expr.UserType:
		if n.seenU[t] {
			return
		}
		n.seenU[t] = true
		n.uts = append(n.uts, t)
		n.att(t.Attribute())
		if rt, ok := t.(*expr.ResultTypeExpr); ok {
			n.views = append(n.views, rt.Views...)
		}
	}
}

// ---- sharing between a copy and its original ----

// addresses returns, for every node reachable from a, its address and class. Classes
// in mutableClasses are changed through exported methods or fields of expr; the
// others are shared by Dup on purpose and are never written in place by goa
// (immutable by convention).
func addresses(a *expr.AttributeExpr) map[uintptr]string {
	m := map[uintptr]string{}
	n := reach(a)
	slicePtr := func(s any) uintptr {
		v := reflect.ValueOf(s)
		if v.Kind() != reflect.Slice || v.Cap() == 0 {
			return 0
		}
		return v.Pointer()
	}
	put := func(p uintptr, class string) {
		if p != 0 {
			m[p] = class
		}
	}
	for _, x := range n.atts {
		put(reflect.ValueOf(x).Pointer(), "AttributeExpr")
		if x.Validation != nil {
			v := x.Validation
			put(reflect.ValueOf(v).Pointer(), "ValidationExpr")
			put(slicePtr(v.Required), "Validation.Required")
			put(slicePtr(v.Values), "Validation.Values (by convention)")
			for _, p := range []*float64{v.Minimum, v.Maximum, v.ExclusiveMinimum, v.ExclusiveMaximum} {
				if p != nil {
					put(reflect.ValueOf(p).Pointer(), "Validation bound pointer (by convention)")
				}
			}
			for _, p := range []*int{v.MinLength, v.MaxLength} {
				if p != nil {
					put(reflect.ValueOf(p).Pointer(), "Validation bound pointer (by convention)")
				}
			}
		}
		if x.Meta != nil {
			put(reflect.ValueOf(x.Meta).Pointer(), "Meta map")
			for _, vs := range x.Meta {
				put(slicePtr(vs), "Meta value slice (by convention)")
			}
		}
		if x.Docs != nil {
			put(reflect.ValueOf(x.Docs).Pointer(), "Docs (by convention)")
		}
		put(slicePtr(x.UserExamples), "UserExamples (by convention)")
	}
	for _, x := range n.objs {
		put(reflect.ValueOf(x).Pointer(), "Object")
		put(slicePtr(*x), "Object slice")
		for _, nat := range *x {
			put(reflect.ValueOf(nat).Pointer(), "NamedAttributeExpr")
		}
	}
	for _, x := range n.arrays {
		put(reflect.ValueOf(x).Pointer(), "Array")
	}
	for _, x := range n.maps {
		put(reflect.ValueOf(x).Pointer(), "Map")
	}
	for _, x := range n.unions {
		put(reflect.ValueOf(x).Pointer(), "Union")
		put(slicePtr(x.Values), "Union.Values")
		for _, nat := range x.Values {
			put(reflect.ValueOf(nat).Pointer(), "NamedAttributeExpr")
		}
	}
	for _, x := range n.uts {
		put(reflect.ValueOf(x).Pointer(), "UserType")
		if rt, ok := x.(*expr.ResultTypeExpr); ok {
			put(reflect.ValueOf(rt.UserTypeExpr).Pointer(), "UserType")
			put(slicePtr(rt.Views), "ResultTypeExpr.Views")
		}
	}
	for _, x := range n.views {
		put(reflect.ValueOf(x).Pointer(), "ResultTypeExpr.Views")
	}
	return m
}

// sharedClasses lists the classes of nodes reachable from both.
func sharedClasses(orig, cp *expr.AttributeExpr) []string {
	ao, ac := addresses(orig), addresses(cp)
	set := map[string]bool{}
	for p, c := range ac {
		if _, ok := ao[p]; ok {
			set[c] = true
		}
	}
	out := make([]string, 0, len(set))
	for c := range set {
		out = append(out, c)
	}
	sort.Strings(out)
	return out
}

// ---- scripted mutations applied through a copy ----

var mutationKinds = []string{"rename-attribute", "add-attribute", "delete-attribute", "set-meta", "add-required",
	"change-validation", "set-description", "change-array-map", "change-union", "rename-user-type", "change-nested-type", "set-attribute"}

// mutate applies one kind of change to every node of the given kind reachable from cp,
// using only exported methods and fields of expr. It returns the number of nodes changed.
func mutate(cp *expr.AttributeExpr, kind string) int {
	n := reach(cp)
	cnt := 0
	switch kind {
	case "rename-attribute":
		for _, o := range n.objs {
			if len(*o) > 0 {
				o.Rename((*o)[0].Name, (*o)[0].Name+"_renamed")
				cnt++
			}
		}
	case "add-attribute":
		for _, o := range n.objs {
			o.Set("added_by_copy", &expr.AttributeExpr{Type: expr.Int})
			cnt++
		}
	case "delete-attribute":
		for _, o := range n.objs {
			if len(*o) > 0 {
				o.Delete((*o)[len(*o)-1].Name)
				cnt++
			}
		}
	case "set-meta":
		for _, a := range n.atts {
			a.AddMeta("mutated:key", "v")
			for _, k := range vh.SortedKeys(a.Meta) {
				if k != "mutated:key" {
					a.Meta[k] = []string{"mutated"}
					break
				}
			}
			a.Meta["struct:field:name"] = []string{"MutatedName"}
			delete(a.Meta, "struct:field:type")
			cnt++
		}
	case "add-required":
		for _, a := range n.atts {
			if a.Validation != nil {
				if len(a.Validation.Required) > 1 {
					a.Validation.RemoveRequired(a.Validation.Required[0])
				}
				if len(a.Validation.Required) > 0 {
					a.Validation.Required[0] = "renamed_by_copy"
				}
				a.Validation.AddRequired("required_by_copy")
				cnt++
			}
		}
	case "change-validation":
		for _, a := range n.atts {
			if a.Validation != nil {
				a.Validation.Pattern = "mutated"
				a.Validation.Format = "mutated"
				x, y := 77, 7.5
				a.Validation.MinLength = &x
				a.Validation.Maximum = &y
				a.Validation.Values = []any{"mutated"}
				cnt++
			}
		}
	case "set-description":
		for _, a := range n.atts {
			a.Description = "mutated"
			a.DefaultValue = "mutated"
			a.Docs = &expr.DocsExpr{URL: "mutated"}
			cnt++
		}
	case "change-array-map":
		for _, x := range n.arrays {
			x.ElemType = &expr.AttributeExpr{Type: expr.Boolean}
			cnt++
		}
		for _, x := range n.maps {
			x.KeyType = &expr.AttributeExpr{Type: expr.Boolean}
			x.ElemType = &expr.AttributeExpr{Type: expr.Boolean}
			cnt++
		}
	case "change-union":
		for _, u := range n.unions {
			u.TypeName = "Mutated"
			if len(u.Values) > 0 {
				u.Values[0].Name = "mutated"
				u.Values[0].Attribute = &expr.AttributeExpr{Type: expr.Boolean}
			}
			u.Values = append(u.Values, &expr.NamedAttributeExpr{Name: "added_by_copy", Attribute: &expr.AttributeExpr{Type: expr.Int}})
			cnt++
		}
	case "rename-user-type":
		for _, u := range n.uts {
			u.Rename("MutatedName")
			cnt++
		}
	case "change-nested-type":
		for _, a := range n.atts {
			a.Type = expr.Boolean
			cnt++
		}
	case "set-attribute":
		for _, u := range n.uts {
			u.SetAttribute(&expr.AttributeExpr{Type: expr.Boolean})
			cnt++
		}
	case "mutate-view":
		for _, u := range n.uts {
			if rt, ok := u.(*expr.ResultTypeExpr); ok {
				for _, v := range rt.Views {
					v.Name = v.Name + "_mutated"
					if o, ok := v.AttributeExpr.Type.(*expr.Object); ok {
						o.Set("added_by_copy", &expr.AttributeExpr{Type: expr.Int})
					}
					cnt++
				}
			}
		}
	default:
		panic("mutation kind " + kind)
	}
	return cnt
}

// unguardedCycle reports whether hashing dt would recurse forever: a cycle of user
// types that does not pass through an Object not yet visited (expr.Hash only stops at
// Objects it has seen). Original graphs are generated without such cycles; a copy
// must not have one either.
func unguardedCycle(dt expr.DataType) bool {
	visited := map[*expr.Object]bool{}
	var walk func(dt expr.DataType, onPath map[expr.UserType]bool) bool
	walk = func(dt expr.DataType, onPath map[expr.UserType]bool) bool {
		switch t := dt.(type) {
		case *expr.Array:
			return walk(t.ElemType.Type, onPath)
		case *expr.Map:
			return walk(t.KeyType.Type, onPath) || walk(t.ElemType.Type, onPath)
		case *expr.Union:
			for _, nat := range t.Values {
				if walk(nat.Attribute.Type, onPath) {
					return true
				}
			}
		case *expr.Object:
			if visited[t] {
				return false
			}
			visited[t] = true
			for _, nat := range *t {
				if walk(nat.Attribute.Type, map[expr.UserType]bool{}) {
					return true
				}
			}
		case expr.UserType:
			if onPath[t] {
				return true
			}
			if t.Attribute() == nil {
				return false
			}
			onPath[t] = true
			defer delete(onPath, t)
			return walk(t.Attribute().Type, onPath)
		}
		return false
	}
	return walk(dt, map[expr.UserType]bool{})
}
