package main

func p(n string) *Att { return &Att{T: &Type{K: "prim", Prim: n}} }
func obj(fs ...Field) *Att {
	return &Att{T: &Type{K: "object", Fields: fs}}
}
func fl(n string, a *Att) Field { return Field{n, a} }
func ref(i int) *Att          { return &Att{T: &Type{K: "user", Ref: i}} }
func arr(a *Att) *Att         { return &Att{T: &Type{K: "array", Elem: a}} }
func union(n string, fs ...Field) *Att {
	return &Att{T: &Type{K: "union", Name: n, Fields: fs}}
}
func withMeta(a *Att, kvs ...MetaKV) *Att { a.Meta = append(a.Meta, kvs...); return a }

// corpus: fixed, seed independent graphs run first (the exemplars of the two repaired
// defects among them).
func corpus() []*Graph {
	three := func(a, b, c string) *Att {
		return union("U", fl(a, p("int")), fl(b, p("string")), fl(c, p("boolean")))
	}
	tagged := withMeta(p("string"), MetaKV{"struct:field:name", []string{"Foo"}}, MetaKV{"struct:field:type", []string{"int64"}},
		MetaKV{"struct:field:proto", []string{"x", "y"}})
	return []*Graph{
		{Root: p("int")},
		{Root: three("a", "b", "c")},
		{Root: three("c", "a", "b")},
		{Root: three("b", "c", "a")},
		{Root: obj(fl("a", tagged), fl("b", p("int")))},
		{Users: []User{{Name: "T", Att: withMeta(obj(fl("x", p("int"))), MetaKV{"struct:field:name", []string{"N"}}, MetaKV{"struct:field:type", []string{"t"}},
			MetaKV{"struct:field:proto", []string{"p"}}, MetaKV{"struct:type:name", []string{"Renamed"}})}}, Root: ref(0)},
		// mutually recursive: T1 = {a: T2}, T2 = {b: T1}
		{Users: []User{{Name: "T1", Att: obj(fl("a", ref(1)))}, {Name: "T2", Att: obj(fl("b", ref(0)))}}, Root: ref(0)},
		// self recursive through an array, two references to the same type
		{Users: []User{{Name: "Node", Att: obj(fl("children", arr(ref(0))), fl("next", ref(0)), fl("v", p("int")))}}, Root: obj(fl("x", ref(0)), fl("y", ref(0)))},
		// same type name, different UIDs
		{Users: []User{{Name: "T", UID: "pkg1.T", Att: obj(fl("a", p("int")))}, {Name: "T", UID: "pkg2.T", Att: obj(fl("a", p("string")))}}, Root: obj(fl("p", ref(0)), fl("q", ref(1)))},
		// result type with views
		{Users: []User{{Name: "R", Result: true, Identifier: "application/vnd.r", Att: obj(fl("id", p("int")), fl("name", p("string"))),
			Views: []View{{"default", []string{"id", "name"}}, {"tiny", []string{"id"}}}}}, Root: ref(0)},
		{Root: &Att{T: &Type{K: "map", Key: p("string"), Elem: arr(obj(fl("k", p("any"))))}}},
		// two structurally equal user types that refer to each other: A = {next: B}, B = {next: A}
		{Users: []User{{Name: "A", Att: obj(fl("next", ref(1)))}, {Name: "B", Att: obj(fl("next", ref(0)))}}, Root: obj(fl("x", ref(0)), fl("y", ref(1)))},
		// a meta map without entries
		{Users: []User{{Name: "T", Att: &Att{T: &Type{K: "object", Fields: []Field{fl("x", &Att{T: &Type{K: "prim", Prim: "int"}, EmptyMeta: true})}}, EmptyMeta: true}}}, Root: ref(0)},
	}
}

// witnesses of the recorded findings
func equalWitnesses() [][2]*Graph {
	return [][2]*Graph{
		// {a:{b:int}, c:int} vs {a:{b:int, c:int}}
		{{Root: obj(fl("a", obj(fl("b", p("int")))), fl("c", p("int")))}, {Root: obj(fl("a", obj(fl("b", p("int")), fl("c", p("int")))))}},
		// through a user type: {a:T, c:int}, T={b:int}  vs  {a:T'}, T'={b:int, c:int}
		{{Users: []User{{Name: "T", Att: obj(fl("b", p("int")))}}, Root: obj(fl("a", ref(0)), fl("c", p("int")))},
			{Users: []User{{Name: "T", Att: obj(fl("b", p("int")), fl("c", p("int")))}}, Root: obj(fl("a", ref(0)))}},
		// through an array
		{{Root: obj(fl("a", arr(obj(fl("b", p("int"))))), fl("c", p("int")))}, {Root: obj(fl("a", arr(obj(fl("b", p("int")), fl("c", p("int"))))))}},
		// empty inner object
		{{Root: obj(fl("a", obj()), fl("c", p("string")))}, {Root: obj(fl("a", obj(fl("c", p("string")))))}},
		// the same with unions: U{a: N{}, x: int} vs U{a: N{x: int}}
		{{Root: union("U", fl("a", union("N")), fl("x", p("int")))}, {Root: union("U", fl("a", union("N", fl("x", p("int")))))}},
		// a union at the end of an object inside a union
		{{Root: union("U", fl("a", obj(fl("k", union("N", fl("p", p("int")))))), fl("x", p("int")))},
			{Root: union("U", fl("a", obj(fl("k", union("N", fl("p", p("int")), fl("x", p("int")))))))}},
	}
}

// names that contain the delimiters of the hash format (outside the class cls)
func delimiterWitnesses() [][2]*Graph {
	return [][2]*Graph{
		// {"a/int-b": int} vs {a: int, b: int}
		{{Root: obj(fl("a/int-b", p("int")))}, {Root: obj(fl("a", p("int")), fl("b", p("int")))}},
		// U{"x_|_int_*_y": int} vs U{x: int, y: int}
		{{Root: union("U", fl("x_|_int_*_y", p("int")))}, {Root: union("U", fl("x", p("int")), fl("y", p("int")))}},
		// {u: union "A-b/int" {}} vs {u: union "A" {}, b: int}... the union name swallows a sibling
		{{Root: obj(fl("u", union("A-z/int")))}, {Root: obj(fl("u", union("A")), fl("z", p("int")))}},
	}
}

func recursiveWitnesses() [][2]*Graph {
	return [][2]*Graph{
		// T = {a: T}  vs  T' = {a: U}, U = {}
		{{Users: []User{{Name: "T", Att: obj(fl("a", ref(0)))}}, Root: ref(0)},
			{Users: []User{{Name: "T", Att: obj(fl("a", ref(1)))}, {Name: "U", Att: obj()}}, Root: ref(0)}},
		// T = {a:int, b:T}  vs  T' = {a:int, b:U}, U = {a:int}
		{{Users: []User{{Name: "T", Att: obj(fl("a", p("int")), fl("b", ref(0)))}}, Root: ref(0)},
			{Users: []User{{Name: "T", Att: obj(fl("a", p("int")), fl("b", ref(1)))}, {Name: "U", Att: obj(fl("a", p("int")))}}, Root: ref(0)}},
	}
}

func viewWitnesses() []*Graph {
	return []*Graph{
		{Users: []User{{Name: "R", Result: true, Identifier: "application/vnd.r", Att: obj(fl("id", p("int")), fl("name", p("string"))),
			Views: []View{{"default", []string{"id", "name"}}, {"tiny", []string{"id"}}}}}, Root: ref(0)},
		{Users: []User{{Name: "R", Result: true, Identifier: "application/vnd.r2", Att: obj(fl("id", p("int"))),
			Views: []View{{"default", []string{"id"}}}}}, Root: obj(fl("items", arr(ref(0))))},
	}
}

// attributes with Docs: kept by DupAttribute since its repair; part of the corpus, so a
// copy that loses them again is a fresh VIOLATION (copy-differs/docs)
func docsCorpus() []*Graph {
	docs := p("string")
	docs.Docs = "http://docs/a"
	docs2 := arr(p("int"))
	docs2.Docs = "http://docs/b"
	root := obj(fl("k", p("int")))
	root.Docs = "http://docs/root"
	return []*Graph{
		{Root: obj(fl("a", docs), fl("b", p("int")))},
		{Users: []User{{Name: "T", Att: obj(fl("x", docs2))}}, Root: ref(0)},
		{Root: root},
	}
}

// result types with a ContentType, which ResultTypeExpr.Dup does not copy (recorded finding)
func lossyWitnesses() []*Graph {
	return []*Graph{
		{Users: []User{{Name: "R", Result: true, Identifier: "application/vnd.r", ContentType: "application/json", Att: obj(fl("id", p("int")))}}, Root: ref(0)},
		{Users: []User{{Name: "R", Result: true, Identifier: "application/vnd.r3", ContentType: "text/plain", Att: obj(fl("id", p("int")))}}, Root: arr(ref(0))},
	}
}

func (r *run) streams(tier string) {
	nGraphs, nPairs, nDag := 3000, 1500, 100
	if tier == "thorough" {
		nGraphs, nPairs, nDag = 50000, 20000, 1000
	}
	// 1. fixed corpus
	for _, g := range append(corpus(), docsCorpus()...) {
		r.checkGraph(g, "corpus", false, nil)
	}
	// 2. generated graphs
	for i := 0; i < nGraphs; i++ {
		g := &gen{r: r.rng, cfg: genCfg{maxDepth: 1 + r.rng.Intn(5), maxUsers: 3, maxFields: 4}}
		if i%10 == 9 {
			g.cfg.maxFields = 7
			g.cfg.maxDepth = min(g.cfg.maxDepth, 3)
		}
		r.checkGraph(g.graph(), "graphs", false, nil)
	}
	// 3. pairs inside the class where Equal is claimed to decide structural equality
	made := 0
	for tries := 0; made < nPairs && tries < nPairs*20; tries++ {
		g := &gen{r: r.rng, cfg: genCfg{maxDepth: 1 + r.rng.Intn(4), maxUsers: 2, maxFields: 4, clean: true, noInfo: r.rng.Bool()}}
		g1 := g.graph()
		// acyclic: user types only reference lower ones
		if g1.cyclic() {
			continue
		}
		g1.repair()
		if !g1.closed() {
			continue
		}
		g2, what := g.neighbour(g1)
		if g2 == nil || g2.cyclic() || !g2.closed() {
			r.res.Count("pairs_neighbour_outside_class")
			continue
		}
		r.distinct.Add(g1.String() + "~" + g2.String())
		r.checkPair(g1, g2, "pairs", what, 0)
		r.checkPair(g1, g1.clone(), "pairs", "same description", 2)
		if made%3 == 0 {
			g3, what3 := g.sameUnderEqual(g1)
			r.checkPair(g1, g3, "pairs", what3, 1)
			r.res.Count("equal_preserving=" + what3)
		}
		r.res.Count("neighbour=" + what)
		made++
	}
	// 4. one Object pointer shared by two attributes (not expressible as a tree; the
	//    model sees the same key twice)
	for i := 0; i < nDag; i++ {
		r.shared("object", i)
		r.shared("attribute", i)
	}
	// the Required slice under AddRequired / RemoveRequired, through a copy and through an alias
	r.requiredStream(nPairs / 2)
	// 5. witness streams of the recorded findings
	for _, w := range equalWitnesses() {
		r.checkPair(w[0], w[1], "witness-equal", "attribute list of an inner object runs into the outer one", 0)
	}
	for _, w := range delimiterWitnesses() {
		r.checkPair(w[0], w[1], "witness-equal", "a name contains a delimiter of the hash format", 0)
	}
	for _, w := range recursiveWitnesses() {
		r.checkPair(w[0], w[1], "witness-equal", "recursive reference hashes as the prefix built so far", 0)
	}
	for _, g := range viewWitnesses() {
		r.checkGraph(g, "witness-views", true, nil)
	}
	for _, g := range lossyWitnesses() {
		r.checkGraph(g, "witness-lossy", false, nil)
	}
	for i := 0; i < nDag/4; i++ {
		g := &gen{r: r.rng, cfg: genCfg{maxDepth: 3, maxUsers: 2, maxFields: 3, lossy: true}}
		r.checkGraph(g.graph(), "witness-lossy", false, nil)
	}
}

// shared: a generated graph in which one node is then used in several places (what the
// tree shaped description cannot express): one *Object as the type of several
// attributes, or one *AttributeExpr as the attribute of several fields and array elements.
func (r *run) shared(kind string, i int) {
	g := &gen{r: r.rng, cfg: genCfg{maxDepth: 2 + r.rng.Intn(2), maxUsers: 2, maxFields: 3}}
	gr := g.graph()
	r.checkGraph(gr, "shared-"+kind, false, &Share{Kind: kind, Index: r.rng.Intn(8)})
	r.res.Count("shared_" + kind + "_graphs")
}
