// Command c13 drives the real goa type code (expr.Hash, expr.Equal, expr.Dup,
// expr.DupAtt and the Hash methods) on generated type graphs built directly as expr
// values, writes what it observed as Coq terms (to be compared with the TypeGraph model
// inside Coq) and evaluates the property's laws directly on the Go results.
package main

import (
	"bufio"
	"encoding/json"
	"flag"
	"fmt"
	"os"
	"path/filepath"
	"strings"

	"goa.design/goa/v3/expr"

	"verifharness/vh"
)

const repeats = 32

type Input struct {
	Stream string `json:"stream"`
	Graph  *Graph `json:"graph"`
	Other  *Graph `json:"other,omitempty"` // second graph of a pair
	Note   string `json:"note,omitempty"`
	Share  *Share `json:"share,omitempty"` // pointer sharing applied after construction
	Req    *ReqCase `json:"required_ops,omitempty"` // stream required-ops
}

type run struct {
	res      *vh.Result
	pool     *pool
	rng      *vh.RNG
	hashes   *bufio.Writer // cases_graph.txt
	pairs    *bufio.Writer // cases_equal.txt
	reqs     *bufio.Writer // cases_required.txt
	nReq     int
	reqIdx   []int
	inputsW  *bufio.Writer // inputs.jsonl: replayable description of every case, one per line
	nInputs  int
	nHash    int
	nDup     int
	nPair    int
	hashIdx  []int   // case index -> inputs index
	pairIdx  []int
	distinct vh.Distinct
	evals    int
}

func (r *run) addInput(in Input) {
	b, err := json.Marshal(in)
	if err != nil {
		panic(err)
	}
	r.inputsW.Write(b)
	r.inputsW.WriteByte('\n')
	r.nInputs++
}

// fail records a failing input: every occurrence is counted, the first few of each
// signature are kept with their replayable input.
func (r *run) fail(sig, what string, in Input) {
	r.res.Count("failure: " + sig)
	if r.res.Dist["failure: "+sig] <= 3 {
		r.res.Fail(sig, what, in)
	}
}

func hashAll(dt expr.DataType) [8]string {
	var out [8]string
	for i, fl := range allFlags {
		out[i] = expr.Hash(dt, fl[0], fl[1], fl[2])
	}
	return out
}

func flagName(i int) string {
	fl := allFlags[i]
	return fmt.Sprintf("ignoreFields=%v,ignoreNames=%v,ignoreTags=%v", fl[0], fl[1], fl[2])
}

// stable computes every hash `repeats` times and reports the first flag vector whose
// value changed between calls.
func (r *run) stable(dt expr.DataType, in Input) [8]string {
	first := hashAll(dt)
	for k := 1; k < repeats; k++ {
		again := hashAll(dt)
		for i := range first {
			if again[i] != first[i] {
				r.fail("hash-unstable", fmt.Sprintf("Hash(%s) of one type returned %q and then %q", flagName(i), first[i], again[i]), in)
				return first
			}
		}
	}
	r.evals += repeats * 8
	return first
}

func (r *run) sameHashes(sig, what string, a, b [8]string, in Input) bool {
	for i := range a {
		if a[i] != b[i] {
			r.fail(sig, fmt.Sprintf("%s: Hash(%s) = %q vs %q", what, flagName(i), a[i], b[i]), in)
			return false
		}
	}
	return true
}

// graphCase writes one correspondence case: the graph as the model sees it, the nine
// observed strings (eight flag vectors of expr.Hash and the Hash method) and, when cp
// is not nil, the copy Dup returned.
func (r *run) graphCase(b *built, hs [8]string, cp expr.DataType, in Input) {
	n := newNamer()
	n.collect(b.root.Type)
	pr := &printer{p: r.pool, n: n}
	if cp == nil {
		pr.r = r.rng // meta entries reach the model in a random order
	}
	obs := append(append([]string{}, hs[:]...), b.root.Type.Hash())
	dup := "DN"
	if cp != nil {
		term, err := dupCase(r.pool, n, b.root.Type, cp)
		if err != "" {
			r.fail("copy-differs/shape", "Dup(t) does not have the shape of t: "+err, in)
		} else {
			dup = term
			r.nDup++
		}
	}
	fmt.Fprintf(r.hashes, "GC %d %s %s %s %s\n", r.nHash, pr.envAll(), pr.ty(b.root.Type), obsList(obs, r.res.Dist), dup)
	r.hashIdx = append(r.hashIdx, r.nInputs-1)
	r.nHash++
}

func kindOf(dt expr.DataType) string {
	switch dt.(type) {
	case expr.Primitive:
		return "prim"
	case *expr.Array:
		return "array"
	case *expr.Map:
		return "map"
	case *expr.Object:
		return "object"
	case *expr.Union:
		return "union"
	case *expr.ResultTypeExpr:
		return "result"
	}
	return "user"
}

func (gr *Graph) cyclic() bool {
	adj := make([][]int, len(gr.Users))
	for i := range gr.Users {
		sub := &Graph{Root: gr.Users[i].Att}
		sub.walkTypes(func(t *Type) {
			if t.K == "user" {
				adj[i] = append(adj[i], t.Ref)
			}
		})
	}
	state := make([]int, len(gr.Users))
	var dfs func(i int) bool
	dfs = func(i int) bool {
		state[i] = 1
		for _, j := range adj[i] {
			if state[j] == 1 || (state[j] == 0 && dfs(j)) {
				return true
			}
		}
		state[i] = 2
		return false
	}
	for i := range gr.Users {
		if state[i] == 0 && dfs(i) {
			return true
		}
	}
	return false
}

// checkGraph runs every law that concerns one graph.
func (r *run) checkGraph(gr *Graph, stream string, withViews bool, share *Share) {
	in := Input{Stream: stream, Graph: gr, Share: share}
	r.addInput(in)
	b := buildShared(gr, share)
	root := b.root.Type
	res := r.res
	res.Count("root_kind=" + kindOf(root))
	res.Count(fmt.Sprintf("user_types=%d", len(gr.Users)))
	if gr.cyclic() {
		res.Count("recursive_graphs")
	}
	if len(gr.Users) > 0 || gr.Root.T.K != "prim" {
		r.distinct.Add(gr.String())
	}

	// repeated calls: same answer
	hs := r.stable(root, in)
	cp := expr.Dup(root)
	if r.nHash%2 == 1 || unguardedCycle(cp) {
		cp = nil // every other case hands the meta entries to the model in a random order instead
	}
	r.graphCase(b, hs, cp, in)

	if r.nHash%701 == 7 || (stream == "corpus" && r.nHash == 7) {
		r.res.Sample(map[string]any{"stream": stream, "graph": gr, "hash_all_flags_false": hs[0], "hash_equal_flags": hs[3], "hash_method_flags": hs[5]}, 5)
	}

	// a second build of the same description: other pointers, same structure
	r.sameHashes("rebuild-changes-hash", "two builds of the same description", hs, hashAll(buildShared(gr, share).root.Type), in)

	// declaration order of attributes / union values / meta entries (the node a Share
	// selects depends on the order, so shared graphs are not reordered)
	if share == nil {
		r.permutations(gr, hs, in)
	}

	// Equal between the types of this one graph
	if share == nil || share.Kind == "attribute" {
		r.sameGraphPairs(b, in)
	}

	// copies
	r.copies(gr, b, hs, in, withViews)
}

// sameGraphPairs: expr.Equal on two types that live in the same graph and therefore
// reach the same Object pointers (the root, the reachable user types, the types of the
// root's entries). Equal must be reflexive and symmetric, and since a copy is
// structurally equal to its original, replacing both operands by separate copies must
// not change the answer.
func (r *run) sameGraphPairs(b *built, in Input) {
	type node struct {
		what string
		dt   expr.DataType
	}
	nodes := []node{{"root", b.root.Type}}
	for i, u := range reach(b.root).uts {
		if u != b.root.Type {
			nodes = append(nodes, node{fmt.Sprintf("user type %d (%s)", i, u.Name()), u})
		}
	}
	var entries []*expr.NamedAttributeExpr
	switch t := b.root.Type.(type) {
	case *expr.Object:
		entries = *t
	case *expr.Union:
		entries = t.Values
	}
	for i, nat := range entries {
		if i < 3 {
			if _, prim := nat.Attribute.Type.(expr.Primitive); !prim {
				nodes = append(nodes, node{"type of root entry " + nat.Name, nat.Attribute.Type})
			}
		}
	}
	type pair struct{ i, j int }
	var ps []pair
	for i := range nodes {
		for j := i + 1; j < len(nodes); j++ {
			ps = append(ps, pair{i, j})
		}
	}
	for len(ps) > 6 {
		k := r.rng.Intn(len(ps))
		ps = append(ps[:k], ps[k+1:]...)
	}
	if !expr.Equal(b.root.Type, b.root.Type) {
		r.fail("equal-not-reflexive", "Equal(t, t) = false", in)
	}
	modelled := false
	for _, p := range ps {
		x, y := nodes[p.i], nodes[p.j]
		pin := in
		pin.Note = fmt.Sprintf("operands: %s and %s of the same graph", x.what, y.what)
		eq := expr.Equal(x.dt, y.dt)
		r.evals += 3
		r.res.Count(fmt.Sprintf("same_graph_pairs: equal=%v", eq))
		if expr.Equal(y.dt, x.dt) != eq {
			r.fail("equal-not-symmetric", fmt.Sprintf("Equal(a, b) = %v but Equal(b, a) = %v (%s)", eq, !eq, pin.Note), pin)
		}
		cx, cy := expr.Dup(x.dt), expr.Dup(y.dt)
		if !unguardedCycle(cx) && !unguardedCycle(cy) {
			if eqc := expr.Equal(cx, cy); eqc != eq {
				r.fail("equal-changes-under-copy", fmt.Sprintf("Equal(a, b) = %v but Equal(Dup(a), Dup(b)) = %v (%s)", eq, eqc, pin.Note), pin)
			}
		}
		// one pair per graph also goes to the model (one environment, two roots)
		if _, isUser := y.dt.(expr.UserType); !modelled && isUser && in.Share == nil {
			modelled = true
			n := newNamer()
			n.collect(b.root.Type)
			pr := &printer{p: r.pool, n: n, r: r.rng}
			env := pr.envAll()
			fmt.Fprintf(r.pairs, "PC %d %s %s %s %s %s\n", r.nPair, env, pr.ty(x.dt), env, pr.ty(y.dt), vh.CoqBool(eq))
			r.pairIdx = append(r.pairIdx, r.nInputs-1)
			r.nPair++
		}
	}
}

func (r *run) permutations(gr *Graph, hs [8]string, in Input) {
	check := func(pg *Graph, what, kind string) {
		pb := buildGraph(pg)
		r.evals += 9
		pin := Input{Stream: in.Stream, Graph: gr, Other: pg, Note: what}
		if !r.sameHashes("order-changes-hash/"+kind, what, hs, hashAll(pb.root.Type), pin) {
			return
		}
		if !expr.Equal(buildGraph(gr).root.Type, pb.root.Type) {
			r.fail("order-changes-equal/"+kind, what+": Equal(original, reordered) = false", pin)
		}
	}
	rt := gr.Root.T
	if (rt.K == "object" || rt.K == "union") && len(rt.Fields) >= 2 && len(rt.Fields) <= 4 {
		for _, p := range permutations(len(rt.Fields))[1:] {
			pg := gr.clone()
			src := gr.clone().Root.T.Fields
			for i, j := range p {
				pg.Root.T.Fields[i] = src[j]
			}
			check(pg, fmt.Sprintf("root %s entries reordered %v", rt.K, p), rt.K)
			r.res.Count("root_permutations_" + rt.K)
		}
	}
	// every list of one kind shuffled, at every depth of the description
	for _, kind := range []string{"object", "union", "meta"} {
		pg := gr.clone()
		changed := false
		if kind == "meta" {
			pg.walkAtts(func(a *Att) {
				for i := len(a.Meta) - 1; i > 0; i-- {
					j := r.rng.Intn(i + 1)
					a.Meta[i], a.Meta[j] = a.Meta[j], a.Meta[i]
					changed = changed || i != j
				}
			})
		} else {
			pg.walkTypes(func(t *Type) {
				if t.K == kind && len(t.Fields) > 1 {
					shuffleFields(r.rng, t.Fields)
					changed = true
				}
			})
		}
		if changed {
			check(pg, "every "+kind+" list of the description shuffled", kind)
			r.res.Count("deep_shuffles_" + kind)
		}
	}
}

func (r *run) copies(gr *Graph, b *built, hs [8]string, in Input, withViews bool) {
	res := r.res
	before := snapshot(b.root)
	type cp struct {
		name string
		att  *expr.AttributeExpr
	}
	mk := func() []cp {
		return []cp{
			{"Dup", &expr.AttributeExpr{Type: expr.Dup(b.root.Type)}},
			{"DupAtt", expr.DupAtt(b.root)},
		}
	}
	ignore := []string{}
	if !withViews {
		ignore = []string{"views"}
	}
	for _, c := range mk() {
		r.evals += 10
		if unguardedCycle(c.att.Type) {
			r.fail("copy-not-hashable", c.name+"(t) contains a cycle of user types that passes through no object: hashing it does not terminate", in)
			continue
		}
		sig := "copy-changes-hash"
		if in.Share != nil && in.Share.Kind == "object" {
			sig = "copy-changes-hash/shared-object" // Dup gives every occurrence its own Object
		}
		if !r.sameHashes(sig, c.name+"(t) vs t", hs, hashAll(c.att.Type), in) {
			continue
		}
		if !expr.Equal(c.att.Type, b.root.Type) {
			r.fail("copy-not-equal", "Equal("+c.name+"(t), t) = false", in)
		}
		// all fields, not only what the hash reads
		var so, sc string
		if c.name == "Dup" {
			so, sc = snapshot(&expr.AttributeExpr{Type: b.root.Type}, ignore...), snapshot(c.att, ignore...)
		} else {
			so, sc = snapshot(b.root, ignore...), snapshot(c.att, ignore...)
		}
		if so != sc {
			snap := func(a *expr.AttributeExpr, ig ...string) string { return snapshot(a, append(ig, ignore...)...) }
			oatt := b.root
			if c.name == "Dup" {
				oatt = &expr.AttributeExpr{Type: b.root.Type}
			}
			sigs := []string{}
			if snap(oatt, "docs", "ctype") != snap(c.att, "docs", "ctype") {
				sigs = append(sigs, "copy-differs/other")
			} else {
				if snap(oatt, "ctype") != snap(c.att, "ctype") {
					sigs = append(sigs, "copy-differs/docs")
				}
				if snap(oatt, "docs") != snap(c.att, "docs") {
					sigs = append(sigs, "copy-differs/ctype")
				}
			}
			for _, sig := range sigs {
				r.fail(sig, c.name+"(t) is not field by field equal to t: "+firstDiff(so, sc), in)
			}
		}
		for _, cl := range sharedClasses(b.root, c.att) {
			switch {
			case strings.HasSuffix(cl, "(by convention)"):
				res.Count("shared_by_convention: " + cl)
			case cl == "ResultTypeExpr.Views":
				res.Count("copies_sharing_views")
				if withViews {
					r.fail("copy-shares/ResultTypeExpr.Views", c.name+"(t) shares the view expressions of t", in)
				}
			default:
				r.fail("copy-shares/"+cl, c.name+"(t) and t share a "+cl, in)
			}
		}
	}
	// mutations through the copy must not be visible in the original
	kinds := mutationKinds
	if withViews {
		kinds = append([]string{"mutate-view"}, kinds...)
	}
	for _, kind := range kinds {
		for _, c := range mk() {
			if mutate(c.att, kind) == 0 {
				continue
			}
			r.evals++
			res.Count("mutations_applied=" + kind)
			if after := snapshot(b.root); after != before {
				r.fail("copy-mutation-leaks/"+kind, "after "+kind+" through "+c.name+"(t) the original changed: "+firstDiff(before, after), in)
				// the original is spoiled: rebuild for the remaining kinds
				b = buildShared(gr, in.Share)
				before = snapshot(b.root)
			}
		}
	}
	if hashAll(b.root.Type) != hs {
		r.fail("copy-mutation-leaks/hash", "the hash of the original changed after mutating its copies", in)
	}
}

func firstDiff(a, b string) string {
	i := 0
	for i < len(a) && i < len(b) && a[i] == b[i] {
		i++
	}
	lo := max(0, i-40)
	return fmt.Sprintf("...%q vs ...%q", a[lo:min(len(a), i+40)], b[lo:min(len(b), i+40)])
}

// checkPair: Equal against the independent structural comparison, both directions.
// wantBisim: 0 = a structurally different neighbour is intended; 1 = the second graph
// differs only in what Equal ignores (must be Equal; the pair also goes to the model);
// 2 = same description (must be Equal).
func (r *run) checkPair(g1, g2 *Graph, stream, note string, wantBisim int) {
	in := Input{Stream: stream, Graph: g1, Other: g2, Note: note}
	b1, b2 := buildGraph(g1), buildGraph(g2)
	eq := expr.Equal(b1.root.Type, b2.root.Type)
	bs := bisim(b1.root.Type, b2.root.Type, map[pairKey]bool{})
	r.evals++
	r.res.Count(fmt.Sprintf("pairs: equal=%v structurally_equal=%v", eq, bs))
	r.addInput(in)
	// model side: Equal computed from the model's hashes
	if wantBisim < 2 {
		n1, n2 := newNamer(), newNamer()
		n1.collect(b1.root.Type)
		n2.collect(b2.root.Type)
		p1, p2 := &printer{p: r.pool, n: n1, r: r.rng}, &printer{p: r.pool, n: n2, r: r.rng}
		fmt.Fprintf(r.pairs, "PC %d %s %s %s %s %s\n", r.nPair, p1.envAll(), p1.ty(b1.root.Type), p2.envAll(), p2.ty(b2.root.Type), vh.CoqBool(eq))
		r.pairIdx = append(r.pairIdx, r.nInputs-1)
		r.nPair++
	}
	if eq && !bs {
		sig := "equal-collision/other"
		switch {
		case !g1.namesClean() || !g2.namesClean():
			sig = "equal-collision/delimiter-in-name"
		case g1.openBeforeSibling() != "" || g2.openBeforeSibling() != "":
			sig = "equal-collision/open-object-before-sibling"
		case g1.cyclic() || g2.cyclic():
			sig = "equal-collision/recursive-reference-truncated"
		}
		r.fail(sig, fmt.Sprintf("Equal = true for structurally different types (%s): both hash to %q", note, expr.Hash(b1.root.Type, false, true, true)), in)
	}
	if !eq && bs && wantBisim > 0 {
		r.fail("structurally-equal-not-equal", "Equal = false for structurally equal types ("+note+")", in)
	}
}

func main() {
	seed := flag.Uint64("seed", 1, "")
	tier := flag.String("tier", "quick", "")
	out := flag.String("out", ".", "")
	replay := flag.String("replay", "", "")
	digest := flag.String("digest", "", "only write the hashes of the first graphs of the seed to this file (compared across fresh processes)")
	flag.Parse()
	if *digest != "" {
		writeDigest(*seed, *digest)
		return
	}
	r := &run{res: vh.NewResult(), pool: newPool(), rng: vh.NewRNG(*seed), distinct: vh.Distinct{}}
	var files []*os.File
	open := func(name string) *bufio.Writer {
		f, err := os.Create(filepath.Join(*out, name))
		if err != nil {
			panic(err)
		}
		files = append(files, f)
		return bufio.NewWriterSize(f, 1<<20)
	}
	r.hashes, r.pairs, r.inputsW = open("cases_graph.txt"), open("cases_equal.txt"), open("inputs.jsonl")
	r.reqs = open("cases_required.txt")

	if *replay != "" {
		raw, err := os.ReadFile(*replay)
		if err != nil {
			panic(err)
		}
		var rp struct {
			Input Input `json:"input"`
		}
		if err := json.Unmarshal(raw, &rp); err == nil && rp.Input.Req != nil {
			r.requiredCase(rp.Input.Req)
		} else if err != nil || rp.Input.Graph == nil {
			fmt.Println("replay file has no type graph input")
			os.Exit(2)
		}
		in := rp.Input
		if in.Req != nil {
			// done above
		} else if in.Other != nil && (strings.HasPrefix(in.Stream, "pairs") || strings.HasPrefix(in.Stream, "witness-equal")) {
			r.checkPair(in.Graph, in.Other, in.Stream, in.Note, 0)
		} else {
			r.checkGraph(in.Graph, in.Stream, strings.HasPrefix(in.Stream, "witness-views"), in.Share)
		}
	} else {
		r.streams(*tier)
	}

	res := r.res
	res.Evaluations = r.evals
	res.Distinct = len(r.distinct)
	res.Rule = "type graphs built as expr values: depth <= 5 over the 12 primitives, arrays, maps, inline objects, unions, 0-3 user/result types (mutually recursive through objects, same type name under different UIDs, struct:type:name), 0-3 meta keys per attribute (struct:field:* and others), validations, views; per graph: 8 flag vectors x 32 calls, every permutation of the root entries when it has 2-4, a shuffle of every object / union / meta list at all depths, rebuild, Dup and DupAtt (hash, Equal, field-by-field dump, pointer sharing, 12 kinds of mutation through the copy); pairs: graph vs one-step structural neighbour inside the class of hash_sound_partial; witness streams for the recorded findings. non-trivial = not a bare primitive; distinct = distinct (user types, root) descriptions"
	res.Extra["graph_cases"] = r.nHash
	res.Extra["graph_cases_with_copy"] = r.nDup
	res.Extra["pair_cases"] = r.nPair
	res.Extra["required_ops_cases"] = r.nReq
	res.Extra["pool_strings"] = len(r.pool.strs)
	write := func(name, s string) {
		if err := os.WriteFile(filepath.Join(*out, name), []byte(s), 0o644); err != nil {
			panic(err)
		}
	}
	for _, w := range []*bufio.Writer{r.hashes, r.pairs, r.reqs, r.inputsW} {
		if err := w.Flush(); err != nil {
			panic(err)
		}
	}
	for _, f := range files {
		f.Close()
	}
	write("header.v", r.pool.header())
	idx, _ := json.Marshal(map[string][]int{"graph": r.hashIdx, "equal": r.pairIdx, "required": r.reqIdx})
	write("case_index.json", string(idx))
	if err := res.Write(filepath.Join(*out, "result.json")); err != nil {
		panic(err)
	}
}

// writeDigest lists, for the corpus and the first 1500 generated graphs of the seed, the
// eight hashes of the root and of its copy. Two processes must write the same file: a
// hash that depends on map iteration order, on addresses or on anything else that
// changes from run to run shows up as a difference.
func writeDigest(seed uint64, path string) {
	rng := vh.NewRNG(seed)
	var b strings.Builder
	emit := func(i int, gr *Graph) {
		bl := buildGraph(gr)
		hs := hashAll(bl.root.Type)
		cs := hashAll(expr.Dup(bl.root.Type))
		fmt.Fprintf(&b, "%d", i)
		for k := range hs {
			fmt.Fprintf(&b, "\t%q\t%q", hs[k], cs[k])
		}
		b.WriteString("\n")
	}
	n := 0
	for _, g := range corpus() {
		emit(n, g)
		n++
	}
	for i := 0; i < 1500; i++ {
		g := &gen{r: rng, cfg: genCfg{maxDepth: 1 + rng.Intn(5), maxUsers: 3, maxFields: 4}}
		emit(n, g.graph())
		n++
	}
	if err := os.WriteFile(path, []byte(b.String()), 0o644); err != nil {
		panic(err)
	}
}
